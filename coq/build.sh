#!/bin/sh
# full or incremental .vo build (never -vos); run under flock by the driver
cd "$(dirname "$0")"
{ cat _CoqProject.base; find theories proofs -name '*.v' | sort; } > _CoqProject
coq_makefile -f _CoqProject -o Makefile >/dev/null 2>&1 || exit 2
exec timeout ${BUILD_TIMEOUT:-1500} make -j${JOBS:-16} "$@"

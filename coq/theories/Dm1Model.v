(* Dm1Model.v — executable model of the DM1 payload functions (Dm1._send payload construction and
   Dm1._parse_dm1_receive_data), built from the generated DTC / lamp definitions.  Tied to the code by the
   item-level correspondence (item_dm1_build / item_dm1_parse). *)
From J1939 Require Import Base.
From J1939.gen Require Import DiagGen.

Record dtc := { d_spn : Z; d_fmi : Z; d_oc : Z }.

(* payload = 2 lamp bytes, then 4 bytes per trouble code, in order *)
Definition dm1_build (pl awl rsl mil : Z) (dtcs : list dtc) : list Z :=
  lamp_get_data pl awl rsl mil ++
  concat (map (fun d => dm1_dtc_bytes (dtc_pack (d_spn d) (d_fmi d) (d_oc d))) dtcs).
(* priority 7 when the transport protocol is needed, else 6 *)
Definition dm1_priority (payload : list Z) : Z := if Z.of_nat (length payload) >? 8 then 7 else 6.

Fixpoint parse_dtcs (n : nat) (d : list Z) : list dtc :=
  match n with
  | O => []
  | S m => match d with
           | b0 :: b1 :: b2 :: b3 :: r =>
               let '(s, f, o, c) := dtc_unpack (dm1_dtc_join b0 b1 b2 b3) in
               {| d_spn := s; d_fmi := f; d_oc := o |} :: parse_dtcs m r
           | _ => []
           end
  end.

(* None: the length check fails (the code logs an error and keeps its previous values) *)
Definition dm1_parse (data : list Z) : option (list Z * list dtc) :=
  let length := Z.of_nat (length data) in
  if length <? 6 then None
  else let dl := length - 2 in
       if negb (length =? 8) && negb (dl mod 4 =? 0) then None
       else Some (map (fun lf => lamp_get_status (fst lf) (snd lf)) (dm1_lamp_fields data),
                  parse_dtcs (Z.to_nat (dl / 4)) (skipn 2 data)).

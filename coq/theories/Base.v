(* Base.v — common definitions: frames, byte lists, ordered tables, bit-op -> arithmetic lemmas.
   No axioms.  Style: stdlib + lia. *)
From Coq Require Export ZArith List Bool Lia Arith ZifyBool ZifyNat.
Export ListNotations.
Open Scope Z_scope.
Ltac Zify.zify_post_hook ::= Z.div_mod_to_equations.

(* ------------------------------------------------------------------ frames *)
Record frame := { f_id : Z; f_ext : bool; f_fd : bool; f_data : list Z }.

Definition frame_eqb (a b : frame) : bool :=
  (f_id a =? f_id b) && Bool.eqb (f_ext a) (f_ext b) && Bool.eqb (f_fd a) (f_fd b)
  && (if list_eq_dec Z.eq_dec (f_data a) (f_data b) then true else false).

(* Python list subscript with a constant index.  The *handlers* of the model test the length
   first and raise IndexError; the generated field extractions are only used after that test,
   so the default is never observed (lemmas about them carry a length hypothesis). *)
Definition byte_at (l : list Z) (i : nat) : Z := nth i l 0.

Definition is_byte (b : Z) : Prop := 0 <= b < 256.
Definition bytes (l : list Z) : Prop := Forall is_byte l.
Definition is_byteb (b : Z) : bool := (0 <=? b) && (b <? 256).
Definition bytesb (l : list Z) : bool := forallb is_byteb l.

Lemma bytesb_spec l : bytesb l = true <-> bytes l.
Proof.
  unfold bytesb, bytes. rewrite forallb_forall, Forall_forall.
  split; intros H x Hx; specialize (H x Hx); unfold is_byteb, is_byte in *; lia.
Qed.

(* Z-valued ranges for finite sweeps (never seq over large nat) *)
Fixpoint zrange (fuel : nat) (start : Z) : list Z :=
  match fuel with O => [] | S f => start :: zrange f (start + 1) end.
Lemma In_zrange fuel : forall start x, start <= x < start + Z.of_nat fuel -> In x (zrange fuel start).
Proof.
  induction fuel as [|f IH]; intros start x H; [lia|]. cbn [zrange].
  destruct (Z.eq_dec start x); [left; auto|right; apply IH; lia].
Qed.

(* ------------------------------------------------------------------ bit ops -> arithmetic *)
Lemma shiftl_mul a k : 0 <= k -> Z.shiftl a k = a * 2 ^ k.
Proof. intros; apply Z.shiftl_mul_pow2; assumption. Qed.
Lemma shiftr_div a k : 0 <= k -> Z.shiftr a k = a / 2 ^ k.
Proof. intros; apply Z.shiftr_div_pow2; assumption. Qed.
Lemma land_ones_mod a k : 0 <= k -> Z.land a (Z.ones k) = a mod 2 ^ k.
Proof. intros; apply Z.land_ones; assumption. Qed.

Lemma land_mul_pow2_small a b k : 0 <= k -> 0 <= b < 2 ^ k -> Z.land (a * 2 ^ k) b = 0.
Proof.
  intros Hk Hb. apply Z.bits_inj'. intros n Hn.
  rewrite Z.land_spec, Z.bits_0.
  destruct (Z.lt_ge_cases n k) as [L|G].
  - rewrite Z.mul_pow2_bits_low by lia. reflexivity.
  - assert (Z.testbit b n = false) as ->; [|apply andb_false_r].
    destruct (Z.eq_dec b 0) as [->|Hz]; [apply Z.bits_0|].
    apply Z.bits_above_log2; [lia|].
    apply Z.lt_le_trans with k; [|lia]. apply Z.log2_lt_pow2; lia.
Qed.

Lemma lor_mul_pow2_add a b k : 0 <= k -> 0 <= b < 2 ^ k -> Z.lor (a * 2 ^ k) b = a * 2 ^ k + b.
Proof.
  intros Hk Hb. pose proof (land_mul_pow2_small a b k Hk Hb) as H0.
  rewrite <- Z.lxor_lor by exact H0. symmetry. apply Z.add_nocarry_lxor. exact H0.
Qed.

Lemma lor_comm_add a b k : 0 <= k -> 0 <= b < 2 ^ k -> Z.lor b (a * 2 ^ k) = a * 2 ^ k + b.
Proof. intros; rewrite Z.lor_comm; apply lor_mul_pow2_add; assumption. Qed.

(* masks that the code writes as literals *)
Lemma land_1   a : Z.land a 1 = a mod 2.        Proof. change 1 with (Z.ones 1); rewrite Z.land_ones by lia; reflexivity. Qed.
Lemma land_3   a : Z.land a 3 = a mod 4.        Proof. change 3 with (Z.ones 2); rewrite Z.land_ones by lia; reflexivity. Qed.
Lemma land_7   a : Z.land a 7 = a mod 8.        Proof. change 7 with (Z.ones 3); rewrite Z.land_ones by lia; reflexivity. Qed.
Lemma land_15  a : Z.land a 15 = a mod 16.      Proof. change 15 with (Z.ones 4); rewrite Z.land_ones by lia; reflexivity. Qed.
Lemma land_31  a : Z.land a 31 = a mod 32.      Proof. change 31 with (Z.ones 5); rewrite Z.land_ones by lia; reflexivity. Qed.
Lemma land_127 a : Z.land a 127 = a mod 128.    Proof. change 127 with (Z.ones 7); rewrite Z.land_ones by lia; reflexivity. Qed.
Lemma land_255 a : Z.land a 255 = a mod 256.    Proof. change 255 with (Z.ones 8); rewrite Z.land_ones by lia; reflexivity. Qed.
Lemma land_2047 a : Z.land a 2047 = a mod 2048. Proof. change 2047 with (Z.ones 11); rewrite Z.land_ones by lia; reflexivity. Qed.
Lemma land_65535 a : Z.land a 65535 = a mod 65536. Proof. change 65535 with (Z.ones 16); rewrite Z.land_ones by lia; reflexivity. Qed.
Lemma land_3FFFF a : Z.land a 262143 = a mod 262144. Proof. change 262143 with (Z.ones 18); rewrite Z.land_ones by lia; reflexivity. Qed.
Lemma land_1FFFFF a : Z.land a 2097151 = a mod 2097152. Proof. change 2097151 with (Z.ones 21); rewrite Z.land_ones by lia; reflexivity. Qed.
Lemma land_FFFFFF a : Z.land a 16777215 = a mod 16777216. Proof. change 16777215 with (Z.ones 24); rewrite Z.land_ones by lia; reflexivity. Qed.

(* high masks: a land (m * 2^k) for contiguous m = ones w *)
Lemma land_high_mask a w k : 0 <= w -> 0 <= k ->
  Z.land a (Z.ones w * 2 ^ k) = ((a / 2 ^ k) mod 2 ^ w) * 2 ^ k.
Proof.
  intros Hw Hk. apply Z.bits_inj'. intros n Hn.
  rewrite Z.land_spec.
  destruct (Z.lt_ge_cases n k) as [L|G].
  - rewrite !Z.mul_pow2_bits_low by lia. apply andb_false_r.
  - rewrite !Z.mul_pow2_bits by lia.
    rewrite <- Z.land_ones by lia. rewrite Z.land_spec.
    rewrite <- Z.shiftr_div_pow2 by lia. rewrite Z.shiftr_spec by lia.
    replace (n - k + k) with n by lia. reflexivity.
Qed.
Lemma land_0xE0 a : Z.land a 224 = ((a / 32) mod 8) * 32.
Proof. change 224 with (Z.ones 3 * 2 ^ 5). apply land_high_mask; lia. Qed.
Lemma land_0xC0 a : Z.land a 192 = ((a / 64) mod 4) * 64.
Proof. change 192 with (Z.ones 2 * 2 ^ 6). apply land_high_mask; lia. Qed.
Lemma land_0x30 a : Z.land a 48 = ((a / 16) mod 4) * 16.
Proof. change 48 with (Z.ones 2 * 2 ^ 4). apply land_high_mask; lia. Qed.
Lemma land_0x0C a : Z.land a 12 = ((a / 4) mod 4) * 4.
Proof. change 12 with (Z.ones 2 * 2 ^ 2). apply land_high_mask; lia. Qed.
Lemma land_0x80 a : Z.land a 128 = ((a / 128) mod 2) * 128.
Proof. change 128 with (Z.ones 1 * 2 ^ 7). apply land_high_mask; lia. Qed.
Lemma land_0xF0 a : Z.land a 240 = ((a / 16) mod 16) * 16.
Proof. change 240 with (Z.ones 4 * 2 ^ 4). apply land_high_mask; lia. Qed.

(* tactic: rewrite every shift / literal mask into * / mod with literal powers of two.
   lor must be handled by the caller with lor_mul_pow2_add (needs the range side condition). *)
Ltac pow2_norm :=
  repeat match goal with
  | |- context [2 ^ ?k] =>
      let k' := eval vm_compute in k in
      match k' with
      | Zpos _ => let v := eval vm_compute in (2 ^ k') in change (2 ^ k) with v
      | Z0 => change (2 ^ k) with 1
      end
  | H : context [2 ^ ?k] |- _ =>
      let k' := eval vm_compute in k in
      match k' with
      | Zpos _ => let v := eval vm_compute in (2 ^ k') in change (2 ^ k) with v in H
      | Z0 => change (2 ^ k) with 1 in H
      end
  end.

Ltac bits_to_arith :=
  rewrite ?land_1, ?land_3, ?land_7, ?land_15, ?land_31, ?land_127, ?land_255, ?land_2047,
          ?land_65535, ?land_3FFFF, ?land_1FFFFF, ?land_FFFFFF,
          ?land_0xE0, ?land_0xC0, ?land_0x30, ?land_0x0C, ?land_0x80, ?land_0xF0;
  repeat (rewrite shiftl_mul by lia);
  repeat (rewrite shiftr_div by lia);
  pow2_norm.

(* little-endian value of a byte list *)
Fixpoint le_value (l : list Z) : Z :=
  match l with [] => 0 | b :: r => b + 256 * le_value r end.

(* ------------------------------------------------------------------ ordered tables (Python dict) *)
Section Tbl.
  Context {V : Type}.
  Definition tbl := list (Z * V).
  Fixpoint tget (t : tbl) (k : Z) : option V :=
    match t with [] => None | (k', v) :: r => if k' =? k then Some v else tget r k end.
  Fixpoint tset (t : tbl) (k : Z) (v : V) : tbl :=
    match t with
    | [] => [(k, v)]
    | (k', v') :: r => if k' =? k then (k, v) :: r else (k', v') :: tset r k v
    end.
  Fixpoint tdel (t : tbl) (k : Z) : tbl :=
    match t with [] => [] | (k', v') :: r => if k' =? k then r else (k', v') :: tdel r k end.
  Definition tkeys (t : tbl) : list Z := map fst t.
  Definition tmem (t : tbl) (k : Z) : bool := match tget t k with Some _ => true | None => false end.

  Lemma tget_tset_same t k v : tget (tset t k v) k = Some v.
  Proof.
    induction t as [|[k' v'] r IH]; cbn [tset tget].
    - rewrite Z.eqb_refl; reflexivity.
    - destruct (k' =? k) eqn:E; cbn [tget]; [rewrite Z.eqb_refl; reflexivity|rewrite E; exact IH].
  Qed.
  Lemma tget_tset_other t k k2 v : k <> k2 -> tget (tset t k v) k2 = tget t k2.
  Proof.
    intros N. induction t as [|[k' v'] r IH]; cbn [tset tget].
    - destruct (k =? k2) eqn:E; [lia|reflexivity].
    - destruct (k' =? k) eqn:E; cbn [tget].
      + assert (k' = k) by lia; subst. destruct (k =? k2) eqn:E2; [lia|reflexivity].
      + destruct (k' =? k2); [reflexivity|exact IH].
  Qed.
  Lemma tget_tdel_other t k k2 : k <> k2 -> tget (tdel t k) k2 = tget t k2.
  Proof.
    intros N. induction t as [|[k' v'] r IH]; cbn [tdel tget]; [reflexivity|].
    destruct (k' =? k) eqn:E; cbn [tget].
    - assert (k' = k) by lia; subst. destruct (k =? k2) eqn:E2; [lia|reflexivity].
    - destruct (k' =? k2); [reflexivity|exact IH].
  Qed.
  (* keys are unique in tables built by tset from [] *)
  Definition tnodup (t : tbl) : Prop := NoDup (tkeys t).
  Lemma tkeys_tset_in t k v x : In x (tkeys (tset t k v)) <-> x = k \/ In x (tkeys t).
  Proof.
    induction t as [|[k' v'] r IH]; cbn [tset tkeys map fst In].
    - intuition.
    - destruct (k' =? k) eqn:E; cbn [map fst In].
      + assert (k' = k) by lia; subst. intuition.
      + unfold tkeys in IH. rewrite IH. intuition.
  Qed.
  Lemma tnodup_tset t k v : tnodup t -> tnodup (tset t k v).
  Proof.
    unfold tnodup. induction t as [|[k' v'] r IH]; cbn [tset tkeys map fst]; intros H.
    - constructor; [intros []|constructor].
    - destruct (k' =? k) eqn:E; cbn [map fst].
      + assert (k' = k) by lia; subst. exact H.
      + inversion H as [|? ? Hn Hr]; subst. constructor.
        * intros Hin. apply (tkeys_tset_in r k v k') in Hin. destruct Hin as [->|Hin]; [lia|auto].
        * apply IH; exact Hr.
  Qed.
  Lemma tkeys_tdel_in t k x : In x (tkeys (tdel t k)) -> In x (tkeys t).
  Proof.
    induction t as [|[k' v'] r IH]; cbn [tdel tkeys map fst In]; [auto|].
    destruct (k' =? k); cbn [map fst In]; intuition.
  Qed.
  Lemma tnodup_tdel t k : tnodup t -> tnodup (tdel t k).
  Proof.
    unfold tnodup. induction t as [|[k' v'] r IH]; cbn [tdel tkeys map fst]; intros H; [exact H|].
    inversion H as [|? ? Hn Hr]; subst.
    destruct (k' =? k); cbn [map fst]; [exact Hr|].
    constructor; [intros Hin; apply Hn; eapply tkeys_tdel_in; exact Hin|apply IH; exact Hr].
  Qed.
  Lemma tget_tdel_same t k : tnodup t -> tget (tdel t k) k = None.
  Proof.
    unfold tnodup. induction t as [|[k' v'] r IH]; cbn [tdel tget tkeys map fst]; intros H; [reflexivity|].
    inversion H as [|? ? Hn Hr]; subst.
    destruct (k' =? k) eqn:E; cbn [tget].
    - assert (k' = k) by lia; subst.
      clear IH H Hr. induction r as [|[k2 v2] r2 IH2]; cbn [tget]; [reflexivity|].
      destruct (k2 =? k) eqn:E2.
      + exfalso. apply Hn. cbn. left. lia.
      + apply IH2. intros Hin. apply Hn. cbn. right. exact Hin.
    - rewrite E. apply IH. exact Hr.
  Qed.
End Tbl.
Arguments tbl : clear implicits.

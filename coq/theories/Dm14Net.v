(* Dm14Net.v — the two DM14 state machines composed: the requesting side (Dm14Cli.v, j1939/Dm14Query.py) against the
   serving side (Dm14Srv.v, j1939/Dm14Server.py + the serving half of j1939/memory_access.py) with the serving
   application answering respond().  What one side sends (the arguments of ca.send_pgn) is what the other side's CA
   hears, provided it is addressed to it; nothing is lost, reordered or added (the transport below is C01's subject).
   A blocking call of either side carries the messages that arrive while it waits (the `during' lists of both models):
   a transaction is therefore a FIXPOINT — the messages the requester hears during read()/write() are exactly those the
   server emits when it hears, in order, what the requester emits, and vice versa.  The functions below compute that
   fixpoint in causal order (every message is produced before it is consumed) for the transaction shapes read / write,
   with and without seed and key, the requester using key function [ckey] (the server's own, or a wrong one).
   The serving application answers respond() when the facade waits for its response (it has been notified, or — without a
   proceed callback — it polls the state).
   No proofs here. *)
From J1939 Require Import Base Dm14Model Dm14Cli Dm14Srv.
Open Scope Z_scope.

Definition msg := (Z * Z * list Z)%type.          (* pgn, source address, data *)

(* what the node at address [from] sends, as heard by the node at address [to] *)
Definition heard_from_srv (from to : Z) (os : list sout) : list msg :=
  flat_map (fun o => match o with SSend pf dest _ d => if dest =? to then [(pf * 256, from, d)] else [] | _ => [] end) os.
Definition heard_from_cli (from to : Z) (os : list cout) : list msg :=
  flat_map (fun o => match o with CSend pf dest _ d => if dest =? to then [(pf * 256, from, d)] else [] end) os.

(* the server hears a list of messages one by one (each a delivery to the CA's subscribers) *)
Fixpoint srv_hears (c : cfg) (s : srv) (ms : list msg) : srv * list sout :=
  match ms with
  | [] => (s, [])
  | (pgn, sa, d) :: r => let '(s1, o1, _) := sstep c s (OpMsg pgn sa d) in
                         let '(s2, o2) := srv_hears c s1 r in (s2, o1 ++ o2)
  end.

Definition dm14_req (objcnt direct command addr key : Z) : list Z :=
  [objcnt; direct * 16 + command * 2 + 1] ++ le4 addr ++ [Z.land key 255; Z.shiftr key 8].

Record txn := { t_cli : cli; t_srv : srv; t_ret : cret; t_srv_ret : rret;
                t_cli_sent : list cout; t_srv_sent : list sout; t_cli_heard : list msg;
                t_assumed : list msg (* what the server was fed before the requester ran: must be a prefix of what the requester sent *) }.

(* READ.  ca = requester's address, sa = server's address.  The application answers respond(True, data) when it has been
   notified (without a proceed callback: when the request has been parsed).
   with seed/key: request -> seed -> key -> [application] -> proceed, DM16, operation complete -> closing DM14
   without:       request -> [application] -> proceed, DM16, operation complete -> closing DM14 *)
Definition notified (os : list sout) : bool := existsb (fun o => match o with SNotify => true | _ => false end) os.

Definition txn_read (c : cfg) (ckey : Z -> Z) (s0 : srv) (q0 : cli) (ca sa direct addr objcnt size : Z) (signed raw : bool) (data : list Z) : txn :=
  let req := dm14_req objcnt direct 1 addr 7 in
  let '(s1, o1) := srv_hears c s0 [(PGN_DM14, ca, req)] in
  (* with seed/key the requester answers the seed with the key *)
  let keymsgs := if c_seedsec c
                 then match v_seed s1 with Some sd => [(PGN_DM14, ca, dm14_req objcnt direct 1 addr (ckey sd))] | None => [] end
                 else [] in
  let '(s2, o2) := srv_hears c s1 keymsgs in
  let '(s3, o3, r3) := if a_state s2 =? D_WAIT_RESPONSE then sstep c s2 (OpRespond true data 0 7 []) else (s2, [], RetNone) in
  let during := heard_from_srv sa ca (o1 ++ o2 ++ o3) in
  let '(q1, co, ret) := cli_read (c_seedsec c) ckey q0 sa direct addr objcnt size signed raw during in
  (* the server hears what the requester sent after the messages already accounted for *)
  let rest := skipn (1 + length keymsgs) (heard_from_cli ca sa co) in
  let '(s4, o4) := srv_hears c s3 rest in
  {| t_cli := q1; t_srv := s4; t_ret := ret; t_srv_ret := r3; t_cli_sent := co; t_srv_sent := o1 ++ o2 ++ o3 ++ o4;
     t_cli_heard := during; t_assumed := (PGN_DM14, ca, req) :: keymsgs |}.


(* WRITE.  The application answers respond(True, [], ...) when notified and then WAITS for the data: the requester's DM16
   (sent when it hears the proceed DM15 that respond() itself emits) arrives during that wait.
   request -> [seed -> key ->] [application: respond] -> proceed -> DM16 -> operation complete -> closing DM14 *)
Definition txn_write (c : cfg) (ckey : Z -> Z) (s0 : srv) (q0 : cli) (ca sa direct addr : Z) (values : list Z) (size : Z) : txn :=
  let objcnt := zlen values in
  let req := dm14_req objcnt direct 2 addr 7 in
  let '(s1, o1) := srv_hears c s0 [(PGN_DM14, ca, req)] in
  let keymsgs := if c_seedsec c
                 then match v_seed s1 with Some sd => [(PGN_DM14, ca, dm14_req objcnt direct 2 addr (ckey sd))] | None => [] end
                 else [] in
  let '(s2, o2) := srv_hears c s1 keymsgs in
  let msg16 := (PGN_DM16, ca, dm16_frame (values_to_bytes (Z.to_nat size) values)) in
  let '(s3, o3, r3) := if a_state s2 =? D_WAIT_RESPONSE then sstep c s2 (OpRespond true [] 16777215 255 [msg16]) else (s2, [], RetNone) in
  let during := heard_from_srv sa ca (o1 ++ o2 ++ o3) in
  let '(q1, co, ret) := cli_write (c_seedsec c) ckey q0 sa direct addr values size during in
  let assumed := (PGN_DM14, ca, req) :: keymsgs ++ (if a_state s2 =? D_WAIT_RESPONSE then [msg16] else []) in
  let rest := skipn (length assumed) (heard_from_cli ca sa co) in
  let '(s4, o4) := srv_hears c s3 rest in
  {| t_cli := q1; t_srv := s4; t_ret := ret; t_srv_ret := r3; t_cli_sent := co; t_srv_sent := o1 ++ o2 ++ o3 ++ o4;
     t_cli_heard := during; t_assumed := assumed |}.


(* Dm14Cli.cli_write with the byte conversion taken out (cli_write = cli_write_b on values_to_bytes, lemma in the proofs):
   everything after the conversion depends on the bytes only *)
Definition cli_write_b haskey keyf (s : cli) (dest direct addr objcnt size : Z) (bytes : list Z) (during : list (Z * Z * list Z))
  : cli * list cout * cret :=
  let s1 := csub (cupd s (q_state s) (Some dest) direct addr objcnt size (q_signed s) (q_raw s) 2 bytes (q_mem s) (q_dq s) (q_xq s) (q_subs s)) CB15 in
  let '(s2, o2, e2) := send_dm14 s1 7 in
  match e2 with
  | Some x => (s2, o2, CRRaise x)
  | None =>
      let s3 := cset_state s2 Q_WAIT_FOR_SEED in
      let '(s4, o4) := cwait haskey keyf s3 during in
      match q_dq s4 with
      | item :: rest =>
          let s5 := cset_dq s4 rest in
          match q_xq s5 with
          | x :: xr => (end_of_query (cset_xq s5 xr), o2 ++ o4, CRRaise x)
          | [] => (end_of_query s5, o2 ++ o4, CRNone)
          end
      | [] =>
          if q_state s4 =? Q_WAIT_FOR_SEED then (end_of_query s4, o2 ++ o4, CRRaise XNoResponse)
          else (end_of_query s4, o2 ++ o4, CRNone)
      end
  end.

Definition txn_write_b (c : cfg) (ckey : Z -> Z) (s0 : srv) (q0 : cli) (ca sa direct addr objcnt size : Z) (bytes : list Z) : txn :=
  let req := dm14_req objcnt direct 2 addr 7 in
  let '(s1, o1) := srv_hears c s0 [(PGN_DM14, ca, req)] in
  let keymsgs := if c_seedsec c
                 then match v_seed s1 with Some sd => [(PGN_DM14, ca, dm14_req objcnt direct 2 addr (ckey sd))] | None => [] end
                 else [] in
  let '(s2, o2) := srv_hears c s1 keymsgs in
  let msg16 := (PGN_DM16, ca, dm16_frame bytes) in
  let '(s3, o3, r3) := if a_state s2 =? D_WAIT_RESPONSE then sstep c s2 (OpRespond true [] 16777215 255 [msg16]) else (s2, [], RetNone) in
  let during := heard_from_srv sa ca (o1 ++ o2 ++ o3) in
  let '(q1, co, ret) := cli_write_b (c_seedsec c) ckey q0 sa direct addr objcnt size bytes during in
  let assumed := (PGN_DM14, ca, req) :: keymsgs ++ (if a_state s2 =? D_WAIT_RESPONSE then [msg16] else []) in
  let rest := skipn (length assumed) (heard_from_cli ca sa co) in
  let '(s4, o4) := srv_hears c s3 rest in
  {| t_cli := q1; t_srv := s4; t_ret := ret; t_srv_ret := r3; t_cli_sent := co; t_srv_sent := o1 ++ o2 ++ o3 ++ o4;
     t_cli_heard := during; t_assumed := assumed |}.


(* CodecGlue.v — hand-written compositions "construct the object, then read a property" over
   the generated codec definitions.  These mirror what Python does when the code writes
   ParameterGroupNumber(dp, pf, ps).value or MessageId(priority=..,...).can_id. *)
From J1939 Require Import Base.
From J1939.gen Require Import Codec.

Definition pgn_value_of (dp pf ps : Z) : Z :=
  let '(a, b, c) := pgn_mk dp pf ps in pgn_value a b c.
Definition pgn_is_pdu2_of (dp pf ps : Z) : bool :=
  let '(a, b, c) := pgn_mk dp pf ps in pgn_is_pdu2 b.
Definition pgn_is_pdu1_of (dp pf ps : Z) : bool :=
  let '(a, b, c) := pgn_mk dp pf ps in pgn_is_pdu1 b.
Definition mid_can_id_of (prio pgn sa : Z) : Z :=
  let '(a, b, c) := mid_mk prio pgn sa in mid_can_id a b c.
Definition mid_prio_of_id (id : Z) : Z := fst (fst (mid_parse id)).
Definition mid_pgn_of_id (id : Z) : Z := snd (fst (mid_parse id)).
Definition mid_sa_of_id (id : Z) : Z := snd (mid_parse id).

(* Name(value=v): the value setter fills the ten fields, then __init__ overwrites reserved_bit *)
Definition name_fields := (Z * Z * Z * Z * Z * Z * Z * Z * Z * Z)%type.
Definition name_set_reserved (f : name_fields) (r : Z) : name_fields :=
  let '(idn, mc, ei, fi, fn, _, vs, vsi, ig, aac) := f in (idn, mc, ei, fi, fn, r, vs, vsi, ig, aac).
Definition name_value_f (f : name_fields) : Z :=
  let '(idn, mc, ei, fi, fn, rb, vs, vsi, ig, aac) := f in name_value idn mc ei fi fn rb vs vsi ig aac.
Definition name_ctor_value (v : Z) : name_fields := name_set_reserved (name_of_value v) name_ctor_reserved.
Definition name_ctor_bytes (b : list Z) : name_fields := name_ctor_value (name_value_of_bytes b).
(* Name(fields...) : stores the fields as given, then reserved_bit := 0 *)
Definition name_ctor_fields (idn mc ei fi fn vs vsi ig aac : Z) : name_fields :=
  (idn, mc, ei, fi, fn, name_ctor_reserved, vs, vsi, ig, aac).
Definition name_aac (f : name_fields) : Z := let '(_, _, _, _, _, _, _, _, _, aac) := f in aac.

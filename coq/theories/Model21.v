(* Model21.v — executable model of one ECU with the J1939-21 data link layer:
   ElectronicControlUnit (timers, subscribers, job iteration), J1939_21 (send_pgn, notify,
   async_job_thread) and ControllerApplication (claiming, requests, send guards).
   Handlers are resumptions ([act]): every frame handed to the bus and every application callback
   is an emission after which the continuation receives the state AS IT IS THEN (re-entrancy).
   Expression-level code (frame builders, field extraction, hash, constants, codecs) is imported from
   the files generated from /repo (theories/gen).  No proofs in this file. *)
From J1939 Require Import Base CodecGlue.
From J1939.gen Require Import Codec Tp21Gen CaGen.

(* ------------------------------------------------------------------ exceptions (codes as in harness/stack.py) *)
Definition E_Index : Z := 1.
Definition E_Key : Z := 2.
Definition E_Runtime : Z := 3.
Definition E_Value : Z := 4.
Definition E_Alias : Z := 97.     (* the by-key re-read of the model met a vanished entry (Python holds the object) *)
Definition E_Fuel : Z := 98.

(* ------------------------------------------------------------------ outputs and resumptions *)
Inductive out :=
| OTx (f : frame)
| OCb (cid prio pgn sa : Z) (d : list Z)
| OTimer (cid : Z)
| OReq (cid src dst pgn : Z).

Inductive act (S : Type) :=
| Done (s : S) (r : Z)
| Raise (s : S) (e : Z)
| Emit (s : S) (o : out) (k : S -> act S).
Arguments Done {S}. Arguments Raise {S}. Arguments Emit {S}.

(* try: ... except Exception: pass *)
Fixpoint catch {S} (a : act S) : act S :=
  match a with
  | Done s r => Done s r
  | Raise s _ => Done s 0
  | Emit s o k => Emit s o (fun s' => catch (k s'))
  end.

(* ------------------------------------------------------------------ state *)
Record rbuf := { r_pgn : Z; r_size : Z; r_num : Z; r_next : Z; r_maxrec : option Z; r_data : list Z;
                 r_deadline : Z; r_src : Z; r_dst : Z }.
(* s_nb: 'next_dt_not_before' (0 when the key is absent: .get(..., 0)) *)
Record sbuf := { s_pgn : Z; s_prio : Z; s_size : Z; s_num : Z; s_data : list Z; s_state : Z;
                 s_deadline : Z; s_src : Z; s_dst : Z; s_next : Z; s_waitcts : option Z; s_nb : Z }.
Definition ST_WAITING_CTS : Z := 0.
Definition ST_SENDING_IN_CTS : Z := 1.
Definition ST_SENDING_BM : Z := 2.
Definition ST_FINISHED : Z := 3.

Inductive filt := FNone | FAddr (a : Z) | FCa (i : nat).
Record sub := { sb_cid : Z; sb_filt : filt }.
Inductive tcb := TApp (cid : Z) | TClaim (i : nat).
Definition tcb_eqb (a b : tcb) : bool :=
  match a, b with TApp x, TApp y => x =? y | TClaim i, TClaim j => Nat.eqb i j | _, _ => false end.
(* tm_ret stands for what the application callback returns; tm_id for the identity of the dict *)
Record timer := { tm_delta : Z; tm_cb : tcb; tm_deadline : Z; tm_ret : bool; tm_id : Z }.
(* Python dict equality of two timer events: delta_time, callback, deadline (cookie is None) *)
Definition timer_eqb (a b : timer) : bool :=
  (tm_delta a =? tm_delta b) && tcb_eqb (tm_cb a) (tm_cb b) && (tm_deadline a =? tm_deadline b).

Record ca := { c_name : Z; c_aac : Z; c_nbytes : list Z; c_pref : option Z; c_ann : Z; c_addr : option Z;
               c_state : Z; c_started : bool; c_reqs : list Z }.

Record node := { n_maxp : Z; n_cmdt_iv : option Z; n_bam_iv : Z;
                 n_rcv : tbl rbuf; n_snd : tbl sbuf;
                 n_cas : list ca; n_subs : list sub; n_timers : list timer;
                 n_wakes : Z; n_nextid : Z }.

Definition set_rcv (n : node) (t : tbl rbuf) : node :=
  {| n_maxp := n_maxp n; n_cmdt_iv := n_cmdt_iv n; n_bam_iv := n_bam_iv n; n_rcv := t; n_snd := n_snd n;
     n_cas := n_cas n; n_subs := n_subs n; n_timers := n_timers n; n_wakes := n_wakes n; n_nextid := n_nextid n |}.
Definition set_snd (n : node) (t : tbl sbuf) : node :=
  {| n_maxp := n_maxp n; n_cmdt_iv := n_cmdt_iv n; n_bam_iv := n_bam_iv n; n_rcv := n_rcv n; n_snd := t;
     n_cas := n_cas n; n_subs := n_subs n; n_timers := n_timers n; n_wakes := n_wakes n; n_nextid := n_nextid n |}.
Definition set_cas (n : node) (l : list ca) : node :=
  {| n_maxp := n_maxp n; n_cmdt_iv := n_cmdt_iv n; n_bam_iv := n_bam_iv n; n_rcv := n_rcv n; n_snd := n_snd n;
     n_cas := l; n_subs := n_subs n; n_timers := n_timers n; n_wakes := n_wakes n; n_nextid := n_nextid n |}.
Definition set_subs (n : node) (l : list sub) : node :=
  {| n_maxp := n_maxp n; n_cmdt_iv := n_cmdt_iv n; n_bam_iv := n_bam_iv n; n_rcv := n_rcv n; n_snd := n_snd n;
     n_cas := n_cas n; n_subs := l; n_timers := n_timers n; n_wakes := n_wakes n; n_nextid := n_nextid n |}.
Definition set_timers (n : node) (l : list timer) : node :=
  {| n_maxp := n_maxp n; n_cmdt_iv := n_cmdt_iv n; n_bam_iv := n_bam_iv n; n_rcv := n_rcv n; n_snd := n_snd n;
     n_cas := n_cas n; n_subs := n_subs n; n_timers := l; n_wakes := n_wakes n; n_nextid := n_nextid n |}.
Definition wake (n : node) : node :=
  {| n_maxp := n_maxp n; n_cmdt_iv := n_cmdt_iv n; n_bam_iv := n_bam_iv n; n_rcv := n_rcv n; n_snd := n_snd n;
     n_cas := n_cas n; n_subs := n_subs n; n_timers := n_timers n; n_wakes := n_wakes n + 1; n_nextid := n_nextid n |}.
Definition bump_id (n : node) : node :=
  {| n_maxp := n_maxp n; n_cmdt_iv := n_cmdt_iv n; n_bam_iv := n_bam_iv n; n_rcv := n_rcv n; n_snd := n_snd n;
     n_cas := n_cas n; n_subs := n_subs n; n_timers := n_timers n; n_wakes := n_wakes n; n_nextid := n_nextid n + 1 |}.

Definition init_node (maxp : Z) (cmdt_iv : option Z) (bam_iv : option Z) : node :=
  {| n_maxp := maxp; n_cmdt_iv := cmdt_iv; n_bam_iv := match bam_iv with Some v => v | None => tp21_Tb end;
     n_rcv := []; n_snd := []; n_cas := []; n_subs := []; n_timers := []; n_wakes := 0; n_nextid := 0 |}.

Definition len (l : list Z) : Z := Z.of_nat (length l).

(* ------------------------------------------------------------------ controller applications *)
Definition ca_acceptable (c : ca) (dest : Z) : bool :=
  if negb (c_state c =? ca_state_NORMAL) then false
  else if dest =? addr_GLOBAL then true
  else match c_addr c with Some a => a =? dest | None => false end.

Definition ca_device_address (c : ca) : Z :=           (* the property *)
  if c_state c =? ca_state_NORMAL then match c_addr c with Some a => a | None => -1 end else addr_NULL.

Fixpoint upd_nth {A} (l : list A) (i : nat) (x : A) : list A :=
  match l, i with
  | [], _ => []
  | _ :: r, O => x :: r
  | y :: r, S j => y :: upd_nth r j x
  end.
Definition set_ca (n : node) (i : nat) (c : ca) : node := set_cas n (upd_nth (n_cas n) i c).

Definition with_ca_state (c : ca) (st : Z) (addr : option Z) (ann : Z) : ca :=
  {| c_name := c_name c; c_aac := c_aac c; c_nbytes := c_nbytes c; c_pref := c_pref c; c_ann := ann;
     c_addr := addr; c_state := st; c_started := c_started c; c_reqs := c_reqs c |}.
Definition with_ca_started (c : ca) (b : bool) : ca :=
  {| c_name := c_name c; c_aac := c_aac c; c_nbytes := c_nbytes c; c_pref := c_pref c; c_ann := c_ann c;
     c_addr := c_addr c; c_state := c_state c; c_started := b; c_reqs := c_reqs c |}.
Definition with_ca_reqs (c : ca) (l : list Z) : ca :=
  {| c_name := c_name c; c_aac := c_aac c; c_nbytes := c_nbytes c; c_pref := c_pref c; c_ann := c_ann c;
     c_addr := c_addr c; c_state := c_state c; c_started := c_started c; c_reqs := l |}.

(* ControllerApplication(name, device_address_preferred, bypass_address_claim) *)
Definition mk_ca (name_value : Z) (pref : option Z) (bypass : bool) : ca :=
  let f := name_ctor_value name_value in
  let v := name_value_f f in
  match bypass, pref with
  | true, Some p =>
      {| c_name := v; c_aac := name_aac f; c_nbytes := name_bytes v; c_pref := pref; c_ann := p;
         c_addr := Some p; c_state := ca_state_NORMAL; c_started := false; c_reqs := [] |}
  | _, _ =>
      {| c_name := v; c_aac := name_aac f; c_nbytes := name_bytes v; c_pref := pref; c_ann := addr_NULL;
         c_addr := Some addr_NULL; c_state := ca_state_NONE; c_started := false; c_reqs := [] |}
  end.

(* ------------------------------------------------------------------ ECU: subscribers *)
Definition sub_matches (n : node) (s : sub) (dest : Z) : bool :=
  match sb_filt s with
  | FNone => true
  | FAddr a => (dest =? addr_GLOBAL) || (dest =? a)
  | FCa i => (dest =? addr_GLOBAL) ||
             match nth_error (n_cas n) i with Some c => ca_acceptable c dest | None => false end
  end.

(* _notify_subscribers: Python iterates the LIVE list by index while callbacks may change it *)
Fixpoint notify_subs (fuel : nat) (i : nat) (prio pgn sa dest : Z) (data : list Z)
         (n : node) (k : node -> act node) : act node :=
  match fuel with
  | O => Raise n E_Fuel
  | S f =>
      match nth_error (n_subs n) i with
      | None => k n
      | Some s =>
          if sub_matches n s dest
          then Emit n (OCb (sb_cid s) prio pgn sa data) (fun n' => notify_subs f (S i) prio pgn sa dest data n' k)
          else notify_subs f (S i) prio pgn sa dest data n k
      end
  end.
Definition notify_subscribers (prio pgn sa dest : Z) (data : list Z) (n : node) (k : node -> act node) : act node :=
  notify_subs (length (n_subs n) + 64) 0 prio pgn sa dest data n k.

Definition ecu_acceptable (n : node) (dest : Z) : bool :=
  existsb (fun s => match sb_filt s with FAddr a => a =? dest | _ => false end) (n_subs n).

(* ------------------------------------------------------------------ ECU: timers *)
Definition add_timer (n : node) (now delta : Z) (cb : tcb) (ret : bool) : node :=
  let t := {| tm_delta := delta; tm_cb := cb; tm_deadline := now + delta; tm_ret := ret; tm_id := n_nextid n |} in
  wake (bump_id (set_timers n (n_timers n ++ [t]))).

Fixpoint remove_first (t : timer) (l : list timer) : list timer :=
  match l with [] => [] | x :: r => if timer_eqb x t then r else x :: remove_first t r end.
Definition timer_in (t : timer) (l : list timer) : bool := existsb (fun x => timer_eqb x t) l.
(* remove_timer(callback): iterate over a copy, remove (first equal) every entry with that callback *)
Definition remove_timer (n : node) (cb : tcb) : node :=
  let victims := filter (fun t => tcb_eqb (tm_cb t) cb) (n_timers n) in
  wake (set_timers n (fold_left (fun l t => remove_first t l) victims (n_timers n))).

Definition subscribe (n : node) (cid : Z) (f : filt) : node :=
  set_subs n (n_subs n ++ [{| sb_cid := cid; sb_filt := f |}]).
Definition unsubscribe (n : node) (cid : Z) : node :=
  set_subs n (filter (fun s => negb (sb_cid s =? cid)) (n_subs n)).

(* ------------------------------------------------------------------ CA handlers *)
Definition send_address_claimed (c : ca) (address : Z) : out := OTx (ca_address_claimed address (c_nbytes c)).

(* _process_claim_async (timer callback): returns False; re-arms itself through add_timer *)
Definition claim_async (i : nat) (now : Z) (n : node) (k : node -> act node) : act node :=
  match nth_error (n_cas n) i with
  | None => Raise n E_Alias
  | Some c =>
      let rearm := fun (tts : Z) (n' : node) => k (add_timer n' now tts (TClaim i) false) in
      if c_state c =? ca_state_NONE then
        match c_pref c with
        | Some p =>
            (* repaired order: the state is updated BEFORE the claim is handed to the bus *)
            if (p >? 127) && (p <? 248)
            then let c1 := with_ca_state c ca_state_WAIT_VETO (c_addr c) p in
                 Emit (set_ca n i c1) (send_address_claimed c1 p) (rearm ca_VETO)
            else let c1 := with_ca_state c ca_state_NORMAL (Some p) p in
                 Emit (set_ca n i c1) (send_address_claimed c1 p) (rearm 500000)
        | None => rearm 500000 n
        end
      else if c_state c =? ca_state_WAIT_VETO then
        rearm 500000 (set_ca n i (with_ca_state c ca_state_NORMAL (Some (c_ann c)) (c_ann c)))
      else rearm 500000 n
  end.

(* _process_addressclaim for CA i *)
Definition process_addressclaim (i : nat) (sa : Z) (data : list Z) (n : node) (k : node -> act node) : act node :=
  match nth_error (n_cas n) i with
  | None => k n
  | Some c =>
      let awaiting :=
        ((c_state c =? ca_state_NORMAL) && match c_addr c with Some a => sa =? a | None => false end) ||
        ((c_state c =? ca_state_WAIT_VETO) && (sa =? c_ann c)) in
      if negb awaiting then k n
      else
        let other := name_value_f (name_ctor_bytes data) in
        if c_name c =? other then k n
        else if c_name c >? other then
          if c_aac c =? 0 then
            let c1 := with_ca_state c ca_state_CANNOT_CLAIM None (c_ann c) in
            Emit (set_ca n i c1) (send_address_claimed c1 addr_NULL) k
          else
            let c1 := with_ca_state c ca_state_WAIT_VETO (Some addr_NULL) (c_ann c + 1) in
            Emit (set_ca n i c1) (send_address_claimed c1 (c_ann c + 1)) k
        else
          if c_state c =? ca_state_NORMAL
          then Emit n (send_address_claimed c (match c_addr c with Some a => a | None => addr_NULL end)) k
          else Emit n (send_address_claimed c (c_ann c)) k
  end.

Fixpoint req_cbs (cbs : list Z) (src dst pgn : Z) (n : node) (k : node -> act node) : act node :=
  match cbs with
  | [] => k n
  | cb :: r => Emit n (OReq cb src dst pgn) (fun n' => req_cbs r src dst pgn n' k)
  end.

(* _process_request for CA i (the caller has checked message_acceptable) *)
Definition process_request (i : nat) (sa dest : Z) (data : list Z) (n : node) (k : node -> act node) : act node :=
  match nth_error (n_cas n) i with
  | None => k n
  | Some c =>
      if (length data <? 3)%nat then Raise n E_Index
      else
        let pgn := ca_request_decode data in
        if negb (c_state c =? ca_state_NORMAL) ||
           (negb (match c_addr c with Some a => a =? dest | None => false end) && negb (dest =? addr_GLOBAL))
        then k n
        else if pgn =? pgn_ADDRESSCLAIM
        then Emit n (send_address_claimed c (match c_addr c with Some a => a | None => addr_NULL end)) k
        else req_cbs (c_reqs c) sa dest pgn n k
  end.

(* ------------------------------------------------------------------ J1939-21: send_pgn *)
Definition mk_sbuf (pgn prio size num : Z) (data : list Z) (st dl src dst : Z) (w : option Z) : sbuf :=
  {| s_pgn := pgn; s_prio := prio; s_size := size; s_num := num; s_data := data; s_state := st;
     s_deadline := dl; s_src := src; s_dst := dst; s_next := 0; s_waitcts := w; s_nb := 0 |}.

Definition num_packets (size : Z) : Z := if size mod 7 =? 0 then size / 7 else size / 7 + 1.

Definition send_pgn (n : node) (now dp pf ps prio sa : Z) (data : list Z) : act node :=
  let '(pdp, ppf, pps) := pgn_mk dp pf ps in
  if len data <=? 8 then
    Emit n (OTx {| f_id := mid_can_id_of prio (pgn_value pdp ppf pps) sa; f_ext := true; f_fd := false; f_data := data |})
         (fun n' => Done n' 1)
  else
    let dest := if (ps =? addr_GLOBAL) || pgn_is_pdu2_of 0 pf ps then addr_GLOBAL else ps in
    let h := tp21_hash sa dest in
    if tmem (n_snd n) h then Done n 0
    else
      let size := len data in
      let num := num_packets size in
      if dest =? addr_GLOBAL then
        let pps' := if pgn_is_pdu1 ppf then 0 else pps in
        let pv := pgn_value pdp ppf pps' in
        Emit n (OTx (tp21_bam sa prio pv size num)) (fun n1 =>
          let b := mk_sbuf pv prio size num data ST_SENDING_BM (now + n_bam_iv n1) sa addr_GLOBAL None in
          Done (wake (set_snd n1 (tset (n_snd n1) h b))) 1)
      else
        let pv := pgn_value pdp ppf 0 in
        let b := mk_sbuf pv prio size num data ST_WAITING_CTS (now + tp21_T3) sa ps (Some 0) in
        Emit (set_snd n (tset (n_snd n) h b)) (OTx (tp21_rts sa ps prio pv size num (Z.min (n_maxp n) num)))
             (fun n2 => Done (wake n2) 1).

(* ------------------------------------------------------------------ J1939-21: async_job_thread *)
Definition upd_sbuf (b : sbuf) (st dl nx : Z) : sbuf :=
  {| s_pgn := s_pgn b; s_prio := s_prio b; s_size := s_size b; s_num := s_num b; s_data := s_data b;
     s_state := st; s_deadline := dl; s_src := s_src b; s_dst := s_dst b; s_next := nx; s_waitcts := s_waitcts b; s_nb := s_nb b |}.
Definition with_waitcts (b : sbuf) (w : option Z) : sbuf :=
  {| s_pgn := s_pgn b; s_prio := s_prio b; s_size := s_size b; s_num := s_num b; s_data := s_data b;
     s_state := s_state b; s_deadline := s_deadline b; s_src := s_src b; s_dst := s_dst b; s_next := s_next b; s_waitcts := w; s_nb := s_nb b |}.
Definition with_nb (b : sbuf) (v : Z) : sbuf :=
  {| s_pgn := s_pgn b; s_prio := s_prio b; s_size := s_size b; s_num := s_num b; s_data := s_data b;
     s_state := s_state b; s_deadline := s_deadline b; s_src := s_src b; s_dst := s_dst b; s_next := s_next b;
     s_waitcts := s_waitcts b; s_nb := v |}.

(* data = buf['data'][offset:]; cut to 7 or pad with 255; insert(0, package+1) *)
Definition dt_payload (data : list Z) (package : Z) : list Z :=
  let d := skipn (Z.to_nat (package * 7)) data in
  let d7 := if (7 <? length d)%nat then firstn 7 d else d ++ repeat 255 (7 - length d) in
  (package + 1) :: d7.

Fixpoint rcv_pass (keys : list Z) (now nw : Z) (n : node) (k : node -> Z -> act node) : act node :=
  match keys with
  | [] => k n nw
  | key :: ks =>
      match tget (n_rcv n) key with
      | None => rcv_pass ks now nw n k                     (* .get() is None: continue *)
      | Some b =>
          if r_deadline b =? 0 then rcv_pass ks now nw n k
          else if r_deadline b >? now then rcv_pass ks now (if nw >? r_deadline b then r_deadline b else nw) n k
          else if negb (r_dst b =? addr_GLOBAL) then
            Emit n (OTx (tp21_abort (r_dst b) (r_src b) tp21_reason_TIMEOUT (r_pgn b)))
                 (fun n' => rcv_pass ks now nw (set_rcv n' (tdel (n_rcv n') key)) k)
          else rcv_pass ks now nw (set_rcv n (tdel (n_rcv n) key)) k
      end
  end.

(* the while loop of SENDING_IN_CTS; fuel = packets remaining + 1 *)
Fixpoint cts_burst (fuel : nat) (key now : Z) (n : node) (k : node -> act node) : act node :=
  match fuel with
  | O => Raise n E_Fuel
  | S f =>
      match tget (n_snd n) key with
      | None => Raise n E_Alias
      | Some b =>
          if s_next b <? s_num b then
            let package := s_next b in
            let data := dt_payload (s_data b) package in
            match s_waitcts b with
            | None => Raise n E_Key
            | Some w =>
                (* with a minimum interval configured, remember when the next DT may go out (also across a CTS) *)
                let bn := match n_cmdt_iv n with Some iv => with_nb b (now + iv) | None => b end in
                let '(b', brk) :=
                  if package =? w then (upd_sbuf bn ST_WAITING_CTS (now + tp21_T3) (package + 1), true)
                  else match n_cmdt_iv n with
                       | Some iv => (upd_sbuf bn (s_state b) (now + iv) (package + 1), true)
                       | None => (upd_sbuf bn (s_state b) (s_deadline b) (package + 1), false)
                       end in
                Emit (set_snd n (tset (n_snd n) key b')) (OTx (tp21_dt (s_src b) (s_dst b) data))
                     (fun n' => if brk then k n' else cts_burst f key now n' k)
            end
          else k n
      end
  end.

Fixpoint snd_pass (keys : list Z) (now nw : Z) (n : node) (k : node -> Z -> act node) : act node :=
  match keys with
  | [] => k n nw
  | key :: ks =>
      match tget (n_snd n) key with
      | None => Raise n E_Key
      | Some b =>
          if s_deadline b =? 0 then snd_pass ks now nw n k
          else if s_deadline b >? now then snd_pass ks now (if nw >? s_deadline b then s_deadline b else nw) n k
          else if s_state b =? ST_WAITING_CTS then
            Emit n (OTx (tp21_abort (s_src b) (s_dst b) tp21_reason_TIMEOUT (s_pgn b)))
                 (fun n' => if tmem (n_snd n') key then snd_pass ks now nw (set_snd n' (tdel (n_snd n') key)) k
                            else Raise n' E_Key)
          else if s_state b =? ST_SENDING_IN_CTS then
            cts_burst (Z.to_nat (s_num b - s_next b) + 1) key now n (fun n1 =>
              match tget (n_snd n1) key with
              | None => Raise n1 E_Alias
              | Some b1 =>
                  (* repaired: nothing left to send for this CTS -> back to WAITING_CTS with T3 *)
                  let b2 := if (s_state b1 =? ST_SENDING_IN_CTS) && (s_next b1 >=? s_num b1)
                            then upd_sbuf b1 ST_WAITING_CTS (now + tp21_T3) (s_next b1) else b1 in
                  snd_pass ks now (if nw >? s_deadline b2 then s_deadline b2 else nw)
                           (set_snd n1 (tset (n_snd n1) key b2)) k
              end)
          else if s_state b =? ST_SENDING_BM then
            let data := dt_payload (s_data b) (s_next b) in
            let nx := s_next b + 1 in
            if nx <? s_num b then
              let b' := upd_sbuf b (s_state b) (now + n_bam_iv n) nx in
              let nw' := if nw >? s_deadline b' then s_deadline b' else nw in
              Emit (set_snd n (tset (n_snd n) key b')) (OTx (tp21_dt (s_src b) (s_dst b) data))
                   (fun n' => snd_pass ks now nw' n' k)
            else
              Emit (set_snd n (tdel (n_snd n) key)) (OTx (tp21_dt (s_src b) (s_dst b) data))
                   (fun n' => snd_pass ks now nw n' k)
          else
            snd_pass ks now nw (set_snd n (tdel (n_snd n) key)) k
      end
  end.

Definition dll_job (n : node) (now : Z) (k : node -> Z -> act node) : act node :=
  rcv_pass (tkeys (n_rcv n)) now (now + 5000000) n (fun n1 nw1 =>
    snd_pass (tkeys (n_snd n1)) now nw1 n1 k).

(* ------------------------------------------------------------------ J1939-21: notify *)
Definition process_tp_cm (prio sa dest : Z) (data : list Z) (now : Z) (n : node) : act node :=
  if (length data <? 8)%nat then Raise n E_Index
  else
    let control := tp21_cm_control data in
    let pgn := tp21_cm_pgn data in
    if control =? tp21_cm_RTS then
      let size := tp21_rts_message_size data in
      let num := tp21_rts_num_packages data in
      let maxn := Z.min (tp21_rts_max_num_packages data) num in
      let h := tp21_hash sa dest in
      if tmem (n_rcv n) h then
        Emit n (OTx (tp21_abort dest sa tp21_reason_BUSY pgn)) (fun n' => Done n' 0)
      else
        let g := Z.min (n_maxp n) maxn in
        let b := {| r_pgn := pgn; r_size := size; r_num := num; r_next := g; r_maxrec := Some g; r_data := [];
                    r_deadline := now + tp21_T2; r_src := sa; r_dst := dest |} in
        Emit (set_rcv n (tset (n_rcv n) h b)) (OTx (tp21_cts dest sa g 1 pgn)) (fun n' => Done (wake n') 0)
    else if control =? tp21_cm_CTS then
      let num := tp21_cts_num_packages data in
      let nextp := tp21_cts_next_package_number data in
      let h := tp21_hash dest sa in
      match tget (n_snd n) h with
      | None => Emit n (OTx (tp21_abort dest sa tp21_reason_RESOURCES pgn)) (fun n' => Done n' 0)
      | Some b =>
          if num =? 0 then
            Done (wake (set_snd n (tset (n_snd n) h (upd_sbuf b (s_state b) (now + tp21_Th) (s_next b))))) 0
          else
            let all := s_num b in
            let num1 := if num >? all then all else num in
            let num2 := if nextp + num1 >? all then all - nextp else num1 in
            let b' := with_waitcts (upd_sbuf b ST_SENDING_IN_CTS (Z.max now (s_nb b)) (s_next b)) (Some (s_next b + num2 - 1)) in
            Done (wake (set_snd n (tset (n_snd n) h b'))) 0
      end
    else if control =? tp21_cm_EOM_ACK then
      let h := tp21_hash dest sa in
      if negb (tmem (n_snd n) h) then
        Emit n (OTx (tp21_abort dest sa tp21_reason_RESOURCES pgn)) (fun n' => Done n' 0)
      else
        notify_subscribers prio pgn sa dest data n (fun n1 =>
          match tget (n_snd n1) h with
          | None => Raise n1 E_Key
          | Some b => Done (wake (set_snd n1 (tset (n_snd n1) h (upd_sbuf b ST_FINISHED now (s_next b))))) 0
          end)
    else if control =? tp21_cm_BAM then
      let size := tp21_bam_message_size data in
      let num := tp21_bam_num_packages data in
      let h := tp21_hash sa dest in
      let n1 := if tmem (n_rcv n) h then wake (set_rcv n (tdel (n_rcv n) h)) else n in
      let b := {| r_pgn := pgn; r_size := size; r_num := num; r_next := 1; r_maxrec := None; r_data := [];
                  r_deadline := now + tp21_T1; r_src := sa; r_dst := dest |} in
      Done (wake (set_rcv n1 (tset (n_rcv n1) h b))) 0
    else if control =? tp21_cm_ABORT then
      let h := tp21_hash dest sa in
      match tget (n_snd n) h with
      | Some b => if s_state b =? ST_WAITING_CTS
                  then Done (set_snd n (tset (n_snd n) h (upd_sbuf b ST_FINISHED now (s_next b)))) 0
                  else Done n 0
      | None => Done n 0
      end
    else Raise n E_Runtime.

Definition upd_rbuf (b : rbuf) (data : list Z) (nx dl : Z) : rbuf :=
  {| r_pgn := r_pgn b; r_size := r_size b; r_num := r_num b; r_next := nx; r_maxrec := r_maxrec b;
     r_data := data; r_deadline := dl; r_src := r_src b; r_dst := r_dst b |}.

Definition process_tp_dt (prio sa dest : Z) (data : list Z) (now : Z) (n : node) : act node :=
  match data with
  | [] => Raise n E_Index
  | seqno :: rest =>
      let h := tp21_hash sa dest in
      match tget (n_rcv n) h with
      | None => Done n 0
      | Some b =>
          let d := r_data b ++ rest in
          if len d >=? r_size b then
            let d' := firstn (Z.to_nat (r_size b)) d in
            let b1 := upd_rbuf b d' (r_next b) (r_deadline b) in
            let n1 := set_rcv n (tset (n_rcv n) h b1) in
            let deliver := fun (n2 : node) =>
              notify_subscribers prio (r_pgn b) sa dest d' n2 (fun n3 =>
                if tmem (n_rcv n3) h then Done (wake (set_rcv n3 (tdel (n_rcv n3) h))) 0 else Raise n3 E_Key) in
            if negb (dest =? addr_GLOBAL)
            then Emit n1 (OTx (tp21_eom_ack dest sa (r_size b) (r_num b) (r_pgn b))) deliver
            else deliver n1
          else
            let b1 := upd_rbuf b d (r_next b) (r_deadline b) in
            let n1 := set_rcv n (tset (n_rcv n) h b1) in
            if negb (dest =? addr_GLOBAL) && (seqno >=? r_next b) then
              match r_maxrec b with
              | None => Raise n1 E_Key
              | Some mr =>
                  Emit n1 (OTx (tp21_cts dest sa (Z.min mr (r_num b - r_next b)) (r_next b + 1) (r_pgn b))) (fun n2 =>
                    match tget (n_rcv n2) h with
                    | None => Raise n2 E_Key
                    | Some b2 =>
                        match r_maxrec b2 with
                        | None => Raise n2 E_Key
                        | Some mr2 =>
                            let b3 := upd_rbuf b2 (r_data b2) (Z.min (r_next b2 + mr2) (r_num b2)) (now + tp21_T2) in
                            Done (wake (set_rcv n2 (tset (n_rcv n2) h b3))) 0
                        end
                    end)
              end
            else
              Done (wake (set_rcv n1 (tset (n_rcv n1) h (upd_rbuf b1 (r_data b1) (r_next b1) (now + tp21_T1))))) 0
      end
  end.

Fixpoint claim_fanout (i : nat) (cnt : nat) (sa : Z) (data : list Z) (n : node) (k : node -> act node) : act node :=
  match cnt with
  | O => k n
  | S c => process_addressclaim i sa data n (fun n' => claim_fanout (S i) c sa data n' k)
  end.
Fixpoint request_fanout (i : nat) (cnt : nat) (sa dest : Z) (data : list Z) (n : node) (k : node -> act node) : act node :=
  match cnt with
  | O => k n
  | S c =>
      match nth_error (n_cas n) i with
      | None => k n
      | Some ca0 =>
          if ca_acceptable ca0 dest
          then process_request i sa dest data n (fun n' => request_fanout (S i) c sa dest data n' k)
          else request_fanout (S i) c sa dest data n k
      end
  end.

Definition notify (n : node) (now can_id : Z) (data : list Z) : act node :=
  let '(prio, pgnf, sa) := mid_parse can_id in
  let '(dp, pf, ps) := pgn_from_mid pgnf in
  if pgn_is_pdu2 pf then
    notify_subscribers prio (pgn_value dp pf ps) sa addr_GLOBAL data n (fun n' => Done n' 0)
  else
    let pgn_value_ := Z.land (pgn_value dp pf ps) 130816 in        (* & 0x1FF00 *)
    let dest := ps in
    if negb (dest =? addr_GLOBAL) && negb (ecu_acceptable n dest) &&
       negb (existsb (fun c => ca_acceptable c dest) (n_cas n))
    then Done n 0
    else if pgn_value_ =? pgn_ADDRESSCLAIM then
      claim_fanout 0 (length (n_cas n)) sa data n (fun n' => Done n' 0)
    else if pgn_value_ =? pgn_REQUEST then
      request_fanout 0 (length (n_cas n)) sa dest data n (fun n' => Done n' 0)
    else if pgn_value_ =? pgn_TP_CM then process_tp_cm prio sa dest data now n
    else if pgn_value_ =? pgn_DATATRANSFER then process_tp_dt prio sa dest data now n
    else notify_subscribers prio pgn_value_ sa dest data n (fun n' => Done n' 0).

(* MessageListener.on_message_received *)
Definition listener (n : node) (now can_id : Z) (ext remote err : bool) (data : list Z) : act node :=
  if err || remote || negb ext then Done n 0 else catch (notify n now can_id data).

(* ------------------------------------------------------------------ ECU: one iteration of the job loop *)
Definition upd_timer_deadline (l : list timer) (id dl : Z) : list timer :=
  map (fun t => if tm_id t =? id
                then {| tm_delta := tm_delta t; tm_cb := tm_cb t; tm_deadline := dl; tm_ret := tm_ret t; tm_id := tm_id t |}
                else t) l.

(* deadline advanced past now: while deadline <= now and delta > 0: deadline += delta *)
Definition advance_deadline (dl delta now : Z) : Z :=
  if (delta >? 0) && (dl <=? now) then dl + delta * ((now - dl) / delta + 1) else dl.

Fixpoint timer_pass (snap : list timer) (now nw : Z) (n : node) (k : node -> Z -> act node) : act node :=
  match snap with
  | [] => k n nw
  | ev :: rest =>
      if negb (timer_in ev (n_timers n)) then timer_pass rest now nw n k
      else if tm_deadline ev >? now then
        timer_pass rest now (if nw >? tm_deadline ev then tm_deadline ev else nw) n k
      else
        let after := fun (ret : bool) (n1 : node) =>
          if ret then
            let dl := advance_deadline (tm_deadline ev) (tm_delta ev) now in
            timer_pass rest now (if nw >? dl then dl else nw)
                       (set_timers n1 (upd_timer_deadline (n_timers n1) (tm_id ev) dl)) k
          else if timer_in ev (n_timers n1)
          then timer_pass rest now nw (set_timers n1 (remove_first ev (n_timers n1))) k
          else timer_pass rest now nw n1 k in
        match tm_cb ev with
        | TApp cid => Emit n (OTimer cid) (after (tm_ret ev))
        | TClaim i => claim_async i now n (after false)
        end
  end.

Definition job_iter (n : node) (now : Z) : act node :=
  dll_job n now (fun n1 nw1 =>
    timer_pass (n_timers n1) now nw1 n1 (fun n2 nw2 => Done n2 (nw2 - now))).

(* ------------------------------------------------------------------ CA application entry points *)
Definition ca_send_pgn (n : node) (i : nat) (now dp pf ps prio : Z) (data : list Z) : act node :=
  match nth_error (n_cas n) i with
  | None => Raise n E_Alias
  | Some c => if negb (c_state c =? ca_state_NORMAL) then Raise n E_Runtime
              else send_pgn n now dp pf ps prio (match c_addr c with Some a => a | None => -1 end) data
  end.
Definition ca_send_message (n : node) (i : nat) (prio pgn : Z) (data : list Z) : act node :=
  match nth_error (n_cas n) i with
  | None => Raise n E_Alias
  | Some c => if negb (c_state c =? ca_state_NORMAL) then Raise n E_Runtime
              else Emit n (OTx {| f_id := mid_can_id_of prio pgn (match c_addr c with Some a => a | None => -1 end);
                                  f_ext := true; f_fd := false; f_data := data |}) (fun n' => Done n' 0)
  end.
Definition ca_send_request (n : node) (i : nat) (now dp pgn dest : Z) : act node :=
  match nth_error (n_cas n) i with
  | None => Raise n E_Alias
  | Some c =>
      if negb (c_state c =? ca_state_NORMAL) && negb (pgn =? pgn_ADDRESSCLAIM) then Raise n E_Runtime
      else
        let src := if negb (c_state c =? ca_state_NORMAL) then addr_NULL
                   else match c_addr c with Some a => a | None => -1 end in
        let '(a_dp, a_pf, a_ps, a_prio, a_sa) := ca_request_args dp dest src in
        (* send_request discards the result of send_pgn *)
        (fix drop (a : act node) : act node :=
           match a with Done s _ => Done s 0 | Raise s e => Raise s e | Emit s o k => Emit s o (fun s' => drop (k s')) end)
          (send_pgn n now a_dp a_pf a_ps a_prio a_sa (ca_request_payload pgn))
  end.
Definition ca_start (n : node) (i : nat) (now delay : Z) : node :=
  match nth_error (n_cas n) i with
  | None => n
  | Some c => if c_started c then n
              else add_timer (set_ca n i (with_ca_started c true)) now delay (TClaim i) false
  end.
Definition ca_stop (n : node) (i : nat) : node :=
  match nth_error (n_cas n) i with
  | None => n
  | Some c => if c_started c then remove_timer (set_ca n i (with_ca_started c false)) (TClaim i) else n
  end.

(* Dm14Cli.v — executable model of the REQUESTING side of DM14 memory access: j1939/Dm14Query.py (read, write, _parse_dm15,
   _parse_dm16, _send_dm14, _send_dm16, _wait_for_data, _end_of_query) with its two queues and the CA's subscriber list.
   A blocking call (read / write) is one operation: it carries the messages that arrive while it waits; they are
   delivered one by one until the first item is put into the data queue (then the waiting thread goes on) or they run out
   (then the wait times out).  Tied to /repo by operation-sequence correspondence (harness/dm14cli.py).
   Not modelled: the transport below ca.send_pgn, real time, the text of error messages (only kind, code, EDCP).
   No proofs here. *)
From J1939 Require Import Base Dm14Srv Dm14Model.
Open Scope Z_scope.

(* QueryState *)
Definition Q_IDLE : Z := 1. Definition Q_WAIT_FOR_SEED : Z := 2. Definition Q_WAIT_FOR_DM16 : Z := 3. Definition Q_WAIT_FOR_OPER : Z := 4.
Definition CB15 : Z := 0. Definition CB16 : Z := 1.
(* exceptions *)
Inductive cexn := XNoResponse | XDevice (sa error edcp : Z) | XNoAlgorithm | XAssert | XIndex | XOther.

Record cli := {
  q_state : Z; q_dest : option Z; q_direct : Z; q_addr : Z; q_objcnt : Z; q_size : Z; q_signed : bool; q_raw : bool;
  q_command : Z; q_bytes : list Z; q_mem : option (list Z);
  q_dq : list (option (list Z));            (* data_queue *)
  q_xq : list cexn;                        (* exception_queue *)
  q_subs : list Z }.

Definition init_cli : cli :=
  {| q_state := Q_IDLE; q_dest := None; q_direct := 0; q_addr := 0; q_objcnt := 0; q_size := 1; q_signed := false; q_raw := false;
     q_command := 0; q_bytes := []; q_mem := None; q_dq := []; q_xq := []; q_subs := [] |}.

Definition cupd (s : cli) st de di ad oc sz sg rw cm by_ me dq xq sb : cli :=
  {| q_state := st; q_dest := de; q_direct := di; q_addr := ad; q_objcnt := oc; q_size := sz; q_signed := sg; q_raw := rw;
     q_command := cm; q_bytes := by_; q_mem := me; q_dq := dq; q_xq := xq; q_subs := sb |}.
Definition cset_state s v := cupd s v (q_dest s) (q_direct s) (q_addr s) (q_objcnt s) (q_size s) (q_signed s) (q_raw s) (q_command s) (q_bytes s) (q_mem s) (q_dq s) (q_xq s) (q_subs s).
Definition cset_objcnt s v := cupd s (q_state s) (q_dest s) (q_direct s) (q_addr s) v (q_size s) (q_signed s) (q_raw s) (q_command s) (q_bytes s) (q_mem s) (q_dq s) (q_xq s) (q_subs s).
Definition cset_command s v := cupd s (q_state s) (q_dest s) (q_direct s) (q_addr s) (q_objcnt s) (q_size s) (q_signed s) (q_raw s) v (q_bytes s) (q_mem s) (q_dq s) (q_xq s) (q_subs s).
Definition cset_mem s v := cupd s (q_state s) (q_dest s) (q_direct s) (q_addr s) (q_objcnt s) (q_size s) (q_signed s) (q_raw s) (q_command s) (q_bytes s) v (q_dq s) (q_xq s) (q_subs s).
Definition cset_dq s v := cupd s (q_state s) (q_dest s) (q_direct s) (q_addr s) (q_objcnt s) (q_size s) (q_signed s) (q_raw s) (q_command s) (q_bytes s) (q_mem s) v (q_xq s) (q_subs s).
Definition cset_xq s v := cupd s (q_state s) (q_dest s) (q_direct s) (q_addr s) (q_objcnt s) (q_size s) (q_signed s) (q_raw s) (q_command s) (q_bytes s) (q_mem s) (q_dq s) v (q_subs s).
Definition cset_subs s v := cupd s (q_state s) (q_dest s) (q_direct s) (q_addr s) (q_objcnt s) (q_size s) (q_signed s) (q_raw s) (q_command s) (q_bytes s) (q_mem s) (q_dq s) (q_xq s) v.
Definition csub (s : cli) (cb : Z) : cli := cset_subs s (q_subs s ++ [cb]).
Definition cunsub (s : cli) (cb : Z) : cli := cset_subs s (filter (fun c => negb (c =? cb)) (q_subs s)).

Inductive cout := CSend (pf dest prio : Z) (data : list Z).
Definition CR := (cli * list cout * option cexn)%type.
Definition cok (s : cli) : CR := (s, [], None).
Definition craise (s : cli) (x : cexn) : CR := (s, [], Some x).
Definition cbind (r : CR) (f : cli -> CR) : CR :=
  let '(s, o, e) := r in
  match e with
  | Some x => (s, o, Some x)
  | None => let '(s2, o2, e2) := f s in (s2, o ++ o2, e2)
  end.

Definition le4 (v : Z) : list Z := [v mod 256; (v / 256) mod 256; (v / 65536) mod 256; (v / 16777216) mod 256].

(* _send_dm14 / _send_dm16 *)
Definition send_dm14 (s : cli) (key : Z) : CR :=
  match q_dest s with
  | None => craise s XOther
  | Some d =>
      (s, [CSend 217 (Z.land d 255) 6 ([q_objcnt s; q_direct s * 16 + q_command s * 2 + 1] ++ le4 (q_addr s) ++ [Z.land key 255; Z.shiftr key 8])], None)
  end.
Definition csend_dm16 (s : cli) : CR :=
  match q_dest s with
  | None => craise s XOther
  | Some d =>
      let bc := zlen (q_bytes s) in
      (s, [CSend 215 (Z.land d 255) 6 ((if bc >? 7 then 255 else bc) :: q_bytes s)], None)
  end.

Definition cwait_for_data (s : cli) : CR :=
  if negb (q_state s =? Q_WAIT_FOR_SEED) then craise s XAssert
  else if q_command s =? 2 then cbind (csend_dm16 s) (fun s1 => cok (cset_state s1 Q_WAIT_FOR_OPER))
  else cok (csub (cunsub (cset_state s Q_WAIT_FOR_DM16) CB15) CB16).

Definition cparse_dm15 (haskey : bool) (keyf : Z -> Z) (s : cli) (pgn sa : Z) (data : list Z) : CR :=
  if negb (pgn =? PGN_DM15) || negb (match q_dest s with Some d => sa =? d | None => false end) then cok s
  else
    match py_get data 7, py_get data 6, py_get data 1 with
    | Some d7, Some d6, Some d1 =>
        let seed := d7 * 256 + d6 in
        let status := Z.land (Z.shiftr d1 1) 7 in
        if (status =? 1) || (status =? 5) then
          let error := le_int (py_slice data 2 5) in
          match py_get data 5 with
          | None => craise s XIndex
          | Some edcp =>
              let s1 := cset_dq s (q_dq s ++ [None]) in
              if (edcp =? 6) || (edcp =? 7) then cok (cset_xq s1 (q_xq s1 ++ [XDevice sa error edcp])) else cok s1
          end
        else
          match py_get data 0 with
          | None => craise s XIndex
          | Some length =>
              if (seed =? 65535) && (length =? q_objcnt s) then cwait_for_data s
              else if q_state s =? Q_WAIT_FOR_OPER then
                if negb (status =? 4) then craise s XAssert
                else
                  let s1 := cset_command (cset_objcnt s 1) 4 in
                  cbind (send_dm14 s1 65535) (fun s2 =>
                    let s3 := cset_state s2 Q_IDLE in cok (cset_dq s3 (q_dq s3 ++ [q_mem s3])))
              else if negb (q_state s =? Q_WAIT_FOR_SEED) then craise s XAssert
              else if haskey then send_dm14 s (keyf seed)
              else let s1 := cset_dq s (q_dq s ++ [None]) in cok (cset_xq s1 (q_xq s1 ++ [XNoAlgorithm]))
          end
    | _, _, _ => craise s XIndex
    end.

Definition cparse_dm16 (s : cli) (pgn sa : Z) (data : list Z) : CR :=
  if negb (pgn =? PGN_DM16) || negb (match q_dest s with Some d => sa =? d | None => false end) then cok s
  else
    match py_get data 0 with
    | None => craise s XIndex
    | Some d0 =>
        let l := Z.min d0 (zlen data - 1) in
        cok (cset_state (csub (cunsub (cset_mem s (Some (py_slice data 1 (l + 1)))) CB16) CB15) Q_WAIT_FOR_OPER)
    end.

(* delivery of one message to the query's callbacks on the CA's (live) subscriber list *)
Fixpoint cdispatch (fuel : nat) (haskey : bool) (keyf : Z -> Z) (i : nat) (s : cli) (pgn sa : Z) (data : list Z) : CR :=
  match fuel with
  | O => craise s XOther
  | S f =>
      match nth_error (q_subs s) i with
      | None => cok s
      | Some cb =>
          cbind (if cb =? CB15 then cparse_dm15 haskey keyf s pgn sa data
                 else if cb =? CB16 then cparse_dm16 s pgn sa data else cok s)
                (fun s1 => cdispatch f haskey keyf (S i) s1 pgn sa data)
      end
  end.
Definition cdeliver haskey keyf (s : cli) (pgn sa : Z) (data : list Z) : CR := cdispatch 32 haskey keyf 0 s pgn sa data.

(* the wait: messages are handed in until something has been put into the data queue (exceptions of callbacks are
   swallowed by the bus listener) *)
Fixpoint cwait (haskey : bool) (keyf : Z -> Z) (s : cli) (fr : list (Z * Z * list Z)) : cli * list cout :=
  match q_dq s with
  | _ :: _ => (s, [])
  | [] =>
      match fr with
      | [] => (s, [])
      | (pgn, sa, data) :: r =>
          let '(s1, o1, _) := cdeliver haskey keyf s pgn sa data in
          let '(s2, o2) := cwait haskey keyf s1 r in (s2, o1 ++ o2)
      end
  end.

Definition end_of_query (s : cli) : cli := cunsub (cunsub (cset_state s Q_IDLE) CB15) CB16.

Inductive cret := CRValues (v : list Z) | CRNone | CRRaise (x : cexn).

(* Dm14Query.read *)
Definition cli_read haskey keyf (s : cli) (dest direct addr objcnt size : Z) (signed raw : bool) (during : list (Z * Z * list Z))
  : cli * list cout * cret :=
  if objcnt <=? 0 then (s, [], CRRaise XAssert)
  else
    let s1 := csub (cupd s (q_state s) (Some dest) direct addr objcnt size signed raw 1 (q_bytes s) (q_mem s) (q_dq s) (q_xq s) (q_subs s)) CB15 in
    let '(s2, o2, e2) := send_dm14 s1 7 in
    match e2 with
    | Some x => (s2, o2, CRRaise x)                 (* before the try: nothing is cleaned up *)
    | None =>
        let s3 := cset_state s2 Q_WAIT_FOR_SEED in
        let '(s4, o4) := cwait haskey keyf s3 during in
        match q_dq s4 with
        | item :: rest =>
            let s5 := cset_dq s4 rest in
            match q_xq s5 with
            | x :: xr => (end_of_query (cset_xq s5 xr), o2 ++ o4, CRRaise x)
            | [] =>
                let s6 := end_of_query s5 in
                match item with
                | Some ((_ :: _) as rawb) =>
                    (s6, o2 ++ o4, CRValues (if raw then rawb else bytes_to_values (Z.to_nat size) signed rawb))
                | _ => (s6, o2 ++ o4, CRValues [])
                end
            end
        | [] =>
            if q_state s4 =? Q_WAIT_FOR_SEED then (end_of_query s4, o2 ++ o4, CRRaise XNoResponse)
            else match q_xq s4 with
                 | x :: xr => (end_of_query (cset_xq s4 xr), o2 ++ o4, CRRaise x)
                 | [] => (end_of_query s4, o2 ++ o4, CRValues [])
                 end
        end
    end.

(* Dm14Query.write *)
Definition cli_write haskey keyf (s : cli) (dest direct addr : Z) (values : list Z) (size : Z) (during : list (Z * Z * list Z))
  : cli * list cout * cret :=
  let bytes := values_to_bytes (Z.to_nat size) values in
  let s1 := csub (cupd s (q_state s) (Some dest) direct addr (zlen values) size (q_signed s) (q_raw s) 2 bytes (q_mem s) (q_dq s) (q_xq s) (q_subs s)) CB15 in
  let '(s2, o2, e2) := send_dm14 s1 7 in
  match e2 with
  | Some x => (s2, o2, CRRaise x)
  | None =>
      let s3 := cset_state s2 Q_WAIT_FOR_SEED in
      let '(s4, o4) := cwait haskey keyf s3 during in
      match q_dq s4 with
      | item :: rest =>
          let s5 := cset_dq s4 rest in
          match q_xq s5 with
          | x :: xr => (end_of_query (cset_xq s5 xr), o2 ++ o4, CRRaise x)
          | [] => (end_of_query s5, o2 ++ o4, CRNone)
          end
      | [] =>
          if q_state s4 =? Q_WAIT_FOR_SEED then (end_of_query s4, o2 ++ o4, CRRaise XNoResponse)
          else (end_of_query s4, o2 ++ o4, CRNone)
      end
  end.

(* operations *)
Inductive cop :=
| CRead (dest direct addr objcnt size : Z) (signed raw : bool) (during : list (Z * Z * list Z))
| CWrite (dest direct addr : Z) (values : list Z) (size : Z) (during : list (Z * Z * list Z))
| CMsg (pgn sa : Z) (data : list Z).

Definition cstep haskey keyf (s : cli) (o : cop) : cli * list cout * cret :=
  match o with
  | CRead d di a oc sz sg rw du => cli_read haskey keyf s d di a oc sz sg rw du
  | CWrite d di a vs sz du => cli_write haskey keyf s d di a vs sz du
  | CMsg pgn sa data => let '(s1, o1, e1) := cdeliver haskey keyf s pgn sa data in
                        (s1, o1, match e1 with Some x => CRRaise x | None => CRNone end)
  end.

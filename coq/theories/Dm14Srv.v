(* Dm14Srv.v — executable model of the SERVING side of DM14 memory access: j1939/Dm14Server.py (DM14Server) together
   with the serving half of the facade j1939/memory_access.py (MemoryAccess._listen_for_dm14, respond, reset_query)
   and the subscriber list of the controller application through which the two re-register their callbacks.
   Mirrors the Python statement by statement, including index errors, missing attributes, negative list indices
   and the iteration of the LIVE subscriber list.  Tied to /repo by operation-sequence correspondence
   (harness/dm14srv.py drives the real classes with the same operations).  Not modelled: the transport below
   ca.send_pgn (outputs are the arguments of send_pgn), re-entrant delivery inside send_pgn, real time.
   No proofs here. *)
From J1939 Require Import Base.
From J1939.gen Require Import Dm14Gen.
Open Scope Z_scope.

(* ------------------------------------------------------------------ Python list helpers *)
Definition zlen (l : list Z) : Z := Z.of_nat (length l).
Definition norm_idx (n i : Z) : option Z :=
  let j := if i <? 0 then i + n else i in if (j <? 0) || (j >=? n) then None else Some j.
Definition py_get (l : list Z) (i : Z) : option Z :=
  match norm_idx (zlen l) i with Some j => nth_error l (Z.to_nat j) | None => None end.
Fixpoint set_nth (l : list Z) (i : nat) (x : Z) : list Z :=
  match l, i with
  | [], _ => []
  | _ :: r, O => x :: r
  | y :: r, S k => y :: set_nth r k x
  end.
Definition py_put (l : list Z) (i x : Z) : option (list Z) :=
  match norm_idx (zlen l) i with Some j => Some (set_nth l (Z.to_nat j) x) | None => None end.
(* l[lo:hi] for lo >= 0 and any hi *)
Definition py_slice (l : list Z) (lo hi : Z) : list Z :=
  let n := zlen l in
  let h0 := if hi <? 0 then hi + n else hi in
  let h := if h0 <? 0 then 0 else if h0 >? n then n else h0 in
  let lo' := if lo >? n then n else lo in
  if h <=? lo' then [] else firstn (Z.to_nat (h - lo')) (skipn (Z.to_nat lo') l).
Fixpoint zlist_eqb (a b : list Z) : bool :=
  match a, b with
  | [], [] => true
  | x :: r, y :: s => (x =? y) && zlist_eqb r s
  | _, _ => false
  end.
Definition le_int (l : list Z) : Z := fold_right (fun b acc => b + 256 * acc) 0 l.

(* ------------------------------------------------------------------ constants *)
Definition PGN_DM14 : Z := 55552.
Definition PGN_DM15 : Z := 55296.
Definition PGN_DM16 : Z := 55040.
(* ResponseState *)
Definition R_IDLE : Z := 1.        Definition R_WAIT_FOR_DM14 : Z := 2.  Definition R_WAIT_FOR_KEY : Z := 3.
Definition R_SEND_PROCEED : Z := 4. Definition R_SEND_OPCOMPLETE : Z := 5. Definition R_WAIT_OPCOMPLETE : Z := 6.
Definition R_SEND_ERROR : Z := 7.   Definition R_WAIT_FOR_DM16 : Z := 8.
(* DMState *)
Definition D_IDLE : Z := 1. Definition D_REQUEST_STARTED : Z := 2. Definition D_WAIT_RESPONSE : Z := 3. Definition D_WAIT_QUERY : Z := 4.
(* callbacks on the CA's subscriber list *)
Definition CB_LISTEN : Z := 0.   (* MemoryAccess._listen_for_dm14 *)
Definition CB_P14 : Z := 1.      (* DM14Server.parse_dm14 *)
Definition CB_P16 : Z := 2.      (* DM14Server._parse_dm16 *)
(* exceptions *)
Definition X_INDEX : Z := 1. Definition X_ATTR : Z := 2. Definition X_VALUE : Z := 3. Definition X_TYPE : Z := 4. Definition X_EMPTY : Z := 5.
Definition X_FUEL : Z := 9.

Record srv := {
  v_busy : bool; v_sa : option Z; v_state : Z; v_addr : option (list Z); v_length : Z; v_proceed : bool;
  v_data : list Z; v_error : Z; v_edcp : Z; v_status : Z; v_direct : Z;
  v_command : option Z; v_ptype : option Z; v_objcnt : option Z; v_access : option Z; v_seed : option Z; v_key : option Z;
  v_queue : list (list Z);
  a_state : Z;
  subs : list Z;
  seeds : list Z;          (* what the seed generator will return, in order (0xBEEF when exhausted) *)
  answers : list bool      (* what the application's proceed function will return, in order (True when exhausted) *)
}.

(* configuration that never changes after construction *)
Record cfg := { c_seedsec : bool;          (* set_seed_key_algorithm called: facade.seed_security and server._key_from_seed *)
                c_hasproceed : bool;       (* set_proceed called *)
                c_key : Z -> Z }.          (* the seed-key algorithm *)

Inductive sout :=
| SSend (pf dest prio : Z) (data : list Z)
| SProceedFn (command addr ptype length objcnt key sa access seed : Z)
| SNotify.

Definition R := (srv * list sout * option Z)%type.
Definition ok (s : srv) : R := (s, [], None).
Definition raise (s : srv) (x : Z) : R := (s, [], Some x).
Definition emit (s : srv) (o : sout) : R := (s, [o], None).
Definition bind (r : R) (f : srv -> R) : R :=
  let '(s, o, e) := r in
  match e with
  | Some x => (s, o, Some x)
  | None => let '(s2, o2, e2) := f s in (s2, o ++ o2, e2)
  end.
Notation "r >>= f" := (bind r f) (at level 50, left associativity).

(* record updates *)
Definition upd (s : srv) busy sa st addr len pr data err edcp status direct cmd pt oc acc seed key q ast sb sd an : srv :=
  {| v_busy := busy; v_sa := sa; v_state := st; v_addr := addr; v_length := len; v_proceed := pr; v_data := data; v_error := err;
     v_edcp := edcp; v_status := status; v_direct := direct; v_command := cmd; v_ptype := pt; v_objcnt := oc; v_access := acc;
     v_seed := seed; v_key := key; v_queue := q; a_state := ast; subs := sb; seeds := sd; answers := an |}.
Definition set_busy s v := upd s v (v_sa s) (v_state s) (v_addr s) (v_length s) (v_proceed s) (v_data s) (v_error s) (v_edcp s) (v_status s) (v_direct s) (v_command s) (v_ptype s) (v_objcnt s) (v_access s) (v_seed s) (v_key s) (v_queue s) (a_state s) (subs s) (seeds s) (answers s).
Definition set_sa s v := upd s (v_busy s) v (v_state s) (v_addr s) (v_length s) (v_proceed s) (v_data s) (v_error s) (v_edcp s) (v_status s) (v_direct s) (v_command s) (v_ptype s) (v_objcnt s) (v_access s) (v_seed s) (v_key s) (v_queue s) (a_state s) (subs s) (seeds s) (answers s).
Definition set_state s v := upd s (v_busy s) (v_sa s) v (v_addr s) (v_length s) (v_proceed s) (v_data s) (v_error s) (v_edcp s) (v_status s) (v_direct s) (v_command s) (v_ptype s) (v_objcnt s) (v_access s) (v_seed s) (v_key s) (v_queue s) (a_state s) (subs s) (seeds s) (answers s).
Definition set_addr s v := upd s (v_busy s) (v_sa s) (v_state s) v (v_length s) (v_proceed s) (v_data s) (v_error s) (v_edcp s) (v_status s) (v_direct s) (v_command s) (v_ptype s) (v_objcnt s) (v_access s) (v_seed s) (v_key s) (v_queue s) (a_state s) (subs s) (seeds s) (answers s).
Definition set_length s v := upd s (v_busy s) (v_sa s) (v_state s) (v_addr s) v (v_proceed s) (v_data s) (v_error s) (v_edcp s) (v_status s) (v_direct s) (v_command s) (v_ptype s) (v_objcnt s) (v_access s) (v_seed s) (v_key s) (v_queue s) (a_state s) (subs s) (seeds s) (answers s).
Definition set_proceed s v := upd s (v_busy s) (v_sa s) (v_state s) (v_addr s) (v_length s) v (v_data s) (v_error s) (v_edcp s) (v_status s) (v_direct s) (v_command s) (v_ptype s) (v_objcnt s) (v_access s) (v_seed s) (v_key s) (v_queue s) (a_state s) (subs s) (seeds s) (answers s).
Definition set_data s v := upd s (v_busy s) (v_sa s) (v_state s) (v_addr s) (v_length s) (v_proceed s) v (v_error s) (v_edcp s) (v_status s) (v_direct s) (v_command s) (v_ptype s) (v_objcnt s) (v_access s) (v_seed s) (v_key s) (v_queue s) (a_state s) (subs s) (seeds s) (answers s).
Definition set_error s v := upd s (v_busy s) (v_sa s) (v_state s) (v_addr s) (v_length s) (v_proceed s) (v_data s) v (v_edcp s) (v_status s) (v_direct s) (v_command s) (v_ptype s) (v_objcnt s) (v_access s) (v_seed s) (v_key s) (v_queue s) (a_state s) (subs s) (seeds s) (answers s).
Definition set_edcp s v := upd s (v_busy s) (v_sa s) (v_state s) (v_addr s) (v_length s) (v_proceed s) (v_data s) (v_error s) v (v_status s) (v_direct s) (v_command s) (v_ptype s) (v_objcnt s) (v_access s) (v_seed s) (v_key s) (v_queue s) (a_state s) (subs s) (seeds s) (answers s).
Definition set_status s v := upd s (v_busy s) (v_sa s) (v_state s) (v_addr s) (v_length s) (v_proceed s) (v_data s) (v_error s) (v_edcp s) v (v_direct s) (v_command s) (v_ptype s) (v_objcnt s) (v_access s) (v_seed s) (v_key s) (v_queue s) (a_state s) (subs s) (seeds s) (answers s).
Definition set_direct s v := upd s (v_busy s) (v_sa s) (v_state s) (v_addr s) (v_length s) (v_proceed s) (v_data s) (v_error s) (v_edcp s) (v_status s) v (v_command s) (v_ptype s) (v_objcnt s) (v_access s) (v_seed s) (v_key s) (v_queue s) (a_state s) (subs s) (seeds s) (answers s).
Definition set_command s v := upd s (v_busy s) (v_sa s) (v_state s) (v_addr s) (v_length s) (v_proceed s) (v_data s) (v_error s) (v_edcp s) (v_status s) (v_direct s) v (v_ptype s) (v_objcnt s) (v_access s) (v_seed s) (v_key s) (v_queue s) (a_state s) (subs s) (seeds s) (answers s).
Definition set_ptype s v := upd s (v_busy s) (v_sa s) (v_state s) (v_addr s) (v_length s) (v_proceed s) (v_data s) (v_error s) (v_edcp s) (v_status s) (v_direct s) (v_command s) v (v_objcnt s) (v_access s) (v_seed s) (v_key s) (v_queue s) (a_state s) (subs s) (seeds s) (answers s).
Definition set_objcnt s v := upd s (v_busy s) (v_sa s) (v_state s) (v_addr s) (v_length s) (v_proceed s) (v_data s) (v_error s) (v_edcp s) (v_status s) (v_direct s) (v_command s) (v_ptype s) v (v_access s) (v_seed s) (v_key s) (v_queue s) (a_state s) (subs s) (seeds s) (answers s).
Definition set_access s v := upd s (v_busy s) (v_sa s) (v_state s) (v_addr s) (v_length s) (v_proceed s) (v_data s) (v_error s) (v_edcp s) (v_status s) (v_direct s) (v_command s) (v_ptype s) (v_objcnt s) v (v_seed s) (v_key s) (v_queue s) (a_state s) (subs s) (seeds s) (answers s).
Definition set_seed s v := upd s (v_busy s) (v_sa s) (v_state s) (v_addr s) (v_length s) (v_proceed s) (v_data s) (v_error s) (v_edcp s) (v_status s) (v_direct s) (v_command s) (v_ptype s) (v_objcnt s) (v_access s) v (v_key s) (v_queue s) (a_state s) (subs s) (seeds s) (answers s).
Definition set_key s v := upd s (v_busy s) (v_sa s) (v_state s) (v_addr s) (v_length s) (v_proceed s) (v_data s) (v_error s) (v_edcp s) (v_status s) (v_direct s) (v_command s) (v_ptype s) (v_objcnt s) (v_access s) (v_seed s) v (v_queue s) (a_state s) (subs s) (seeds s) (answers s).
Definition set_queue s v := upd s (v_busy s) (v_sa s) (v_state s) (v_addr s) (v_length s) (v_proceed s) (v_data s) (v_error s) (v_edcp s) (v_status s) (v_direct s) (v_command s) (v_ptype s) (v_objcnt s) (v_access s) (v_seed s) (v_key s) v (a_state s) (subs s) (seeds s) (answers s).
Definition set_astate s v := upd s (v_busy s) (v_sa s) (v_state s) (v_addr s) (v_length s) (v_proceed s) (v_data s) (v_error s) (v_edcp s) (v_status s) (v_direct s) (v_command s) (v_ptype s) (v_objcnt s) (v_access s) (v_seed s) (v_key s) (v_queue s) v (subs s) (seeds s) (answers s).
Definition set_subs s v := upd s (v_busy s) (v_sa s) (v_state s) (v_addr s) (v_length s) (v_proceed s) (v_data s) (v_error s) (v_edcp s) (v_status s) (v_direct s) (v_command s) (v_ptype s) (v_objcnt s) (v_access s) (v_seed s) (v_key s) (v_queue s) (a_state s) v (seeds s) (answers s).
Definition set_seeds s v := upd s (v_busy s) (v_sa s) (v_state s) (v_addr s) (v_length s) (v_proceed s) (v_data s) (v_error s) (v_edcp s) (v_status s) (v_direct s) (v_command s) (v_ptype s) (v_objcnt s) (v_access s) (v_seed s) (v_key s) (v_queue s) (a_state s) (subs s) v (answers s).
Definition set_answers s v := upd s (v_busy s) (v_sa s) (v_state s) (v_addr s) (v_length s) (v_proceed s) (v_data s) (v_error s) (v_edcp s) (v_status s) (v_direct s) (v_command s) (v_ptype s) (v_objcnt s) (v_access s) (v_seed s) (v_key s) (v_queue s) (a_state s) (subs s) (seeds s) v.

Definition subscribe (s : srv) (cb : Z) : srv := set_subs s (subs s ++ [cb]).
Definition unsubscribe (s : srv) (cb : Z) : srv := set_subs s (filter (fun c => negb (c =? cb)) (subs s)).

Definition init_srv (seeds_ : list Z) (answers_ : list bool) : srv :=
  {| v_busy := false; v_sa := None; v_state := R_IDLE; v_addr := None; v_length := 8; v_proceed := false; v_data := []; v_error := 0;
     v_edcp := 7; v_status := 0; v_direct := 0; v_command := None; v_ptype := None; v_objcnt := None; v_access := None;
     v_seed := None; v_key := None; v_queue := []; a_state := D_IDLE; subs := [CB_LISTEN]; seeds := seeds_; answers := answers_ |}.

(* ------------------------------------------------------------------ DM14Server._send_dm15 *)
Definition opt {A} (s : srv) (o : option A) (x : Z) (f : A -> R) : R := match o with Some a => f a | None => raise s x end.

Definition send_dm15 (s : srv) (length direct status state : Z) (objcnt : option Z) (sa : option Z)
                     (error edcp : option Z) : R :=
  let d0 := repeat 255 (Z.to_nat length) in
  opt s (py_put d0 1 (direct * 16 + status * 2 + 1)) X_INDEX (fun d1 =>
  let finish := fun (s' : srv) (d : list Z) => opt s' sa X_TYPE (fun a => emit s' (SSend 216 (Z.land a 255) 6 d)) in
  if state =? R_WAIT_FOR_KEY then
    let '(sd, rest) := match seeds s with x :: r => (x, r) | [] => (48879, []) end in
    let s1 := set_seeds (set_seed s (Some sd)) rest in
    opt s1 (py_put d1 0 0) X_INDEX (fun d2 =>
    opt s1 (py_put d2 (length - 2) (Z.land sd 255)) X_INDEX (fun d3 =>
    opt s1 (py_put d3 (length - 1) (Z.shiftr sd 8)) X_INDEX (fun d4 => finish s1 d4)))
  else if state =? R_SEND_PROCEED then
    opt s objcnt X_ATTR (fun oc => opt s (py_put d1 0 oc) X_INDEX (fun d2 => finish s d2))
  else if state =? R_SEND_OPCOMPLETE then
    let s1 := set_command s (Some 4) in
    opt s1 (py_put d1 0 0) X_INDEX (fun d2 =>
    opt s1 (py_put d2 1 (direct * 16 + 4 * 2 + 1)) X_INDEX (fun d3 =>
    let s2 := set_state s1 R_WAIT_OPCOMPLETE in finish s2 d3))
  else if state =? R_SEND_ERROR then
    opt s (py_put d1 0 0) X_INDEX (fun d2 =>
    opt s (py_put d2 1 (direct * 16 + 5 * 2 + 1)) X_INDEX (fun d3 =>
    opt s error X_TYPE (fun er =>
    opt s (py_put d3 (length - 6) (Z.land er 255)) X_INDEX (fun d4 =>
    opt s (py_put d4 (length - 5) (Z.land (Z.shiftr er 8) 255)) X_INDEX (fun d5 =>
    opt s (py_put d5 (length - 4) (Z.shiftr er 16)) X_INDEX (fun d6 =>
    opt s edcp X_TYPE (fun ed =>
    opt s (py_put d6 (length - 3) ed) X_INDEX (fun d7 => finish s d7))))))))
  else raise s X_VALUE).

(* ------------------------------------------------------------------ DM14Server.parse_dm14 *)
Definition parse_dm14 (c : cfg) (s : srv) (pgn sa : Z) (data : list Z) : R :=
  if negb (pgn =? PGN_DM14) then ok s
  else
    let sa_differs := match v_sa s with Some r => negb (sa =? r) | None => false end in
    let addr_differs := if sa_differs then false
                        else match v_addr s with Some a => negb (zlist_eqb a (py_slice data 2 (v_length s - 2))) | None => false end in
    if sa_differs || addr_differs || v_busy s then
      opt s (py_get data 1) X_INDEX (fun d1 =>
      opt s (py_get data 0) X_INDEX (fun d0 =>
      send_dm15 s (v_length s) (Z.shiftr d1 4) 5 R_SEND_ERROR (Some d0) (Some sa)
                (Some (if v_error s =? 0 then 2 else v_error s)) (Some 7) >>= (fun s1 => ok (set_busy s1 false))))
    else
      let n := zlen data in
      let s1 := set_length s n in
      opt s1 (py_get data 1) X_INDEX (fun d1 =>
      let s2 := set_direct s1 (Z.shiftr d1 4) in
      if v_state s2 =? R_IDLE then
        let s3 := set_addr (set_status (set_sa s2 (Some sa)) 0) (Some (py_slice data 2 (n - 2))) in
        let s4 := set_ptype (set_command s3 (Some (Z.shiftr (Z.land (d1 - 1) 15) 1))) (Some (Z.land (Z.shiftr d1 4) 1)) in
        opt s4 (py_get data 0) X_INDEX (fun d0 =>
        let s5 := set_objcnt s4 (Some d0) in
        opt s5 (py_get data (n - 1)) X_INDEX (fun hi =>
        opt s5 (py_get data (n - 2)) X_INDEX (fun lo =>
        let s6 := set_data (set_access s5 (Some (hi * 256 + lo))) data in
        if c_seedsec c then
          let s7 := set_state s6 R_WAIT_FOR_KEY in
          send_dm15 s7 n (Z.shiftr d1 4) 0 R_WAIT_FOR_KEY (Some d0) (Some sa) None None
        else ok (set_state s6 R_SEND_PROCEED))))
      else if v_state s2 =? R_WAIT_FOR_KEY then
        let s3 := set_command (set_addr s2 (Some (py_slice data 2 (n - 2)))) (Some (Z.shiftr (Z.land (d1 - 1) 15) 1)) in
        opt s3 (py_get data 0) X_INDEX (fun d0 =>
        let s4 := set_objcnt s3 (Some d0) in
        opt s4 (py_get data (n - 1)) X_INDEX (fun hi =>
        opt s4 (py_get data (n - 2)) X_INDEX (fun lo =>
        ok (set_state (set_data (set_key s4 (Some (hi * 256 + lo))) data) R_SEND_PROCEED))))
      else if v_state s2 =? R_WAIT_OPCOMPLETE then
        ok (unsubscribe (set_addr (set_sa (set_state s2 R_IDLE) None) None) CB_P14)
      else raise s2 X_VALUE).

(* ------------------------------------------------------------------ DM14Server._send_dm16, _parse_dm16, _wait_for_data, respond, reset_query *)
Definition send_dm16 (s : srv) : R :=
  let bc := zlen (v_data s) in
  let d := (if bc >? 7 then 255 else bc) :: v_data s ++ repeat 255 (Z.to_nat (v_length s - bc - 1)) in
  let s1 := if bc >? 7 then subscribe s CB_P16 else s in
  opt s1 (v_sa s1) X_TYPE (fun a => emit s1 (SSend 215 (Z.land a 255) 7 d)).

Definition parse_dm16 (s : srv) (pgn sa : Z) (data : list Z) : R :=
  if negb (pgn =? PGN_DM16) || negb (match v_sa s with Some r => sa =? r | None => false end) then ok s
  else
    opt s (py_get data 0) X_INDEX (fun d0 =>
    let l := Z.min d0 (zlen data - 1) in
    let s1 := if v_state s =? R_WAIT_FOR_DM16 then set_queue s (v_queue s ++ [py_slice data 1 (l + 1)]) else s in
    let s2 := set_state (subscribe (unsubscribe s1 CB_P16) CB_P14) R_SEND_OPCOMPLETE in
    send_dm15 s2 (v_length s2) (v_direct s2) (v_status s2) R_SEND_OPCOMPLETE (v_objcnt s2) (v_sa s2) None None).

Definition wait_for_data (s : srv) : R :=
  let s1 := subscribe s CB_P16 in
  opt s1 (v_objcnt s1) X_ATTR (fun _ =>
  send_dm15 s1 (v_length s1) (v_direct s1) (v_status s1) (v_state s1) (v_objcnt s1) (v_sa s1) (Some (v_error s1)) (Some (v_edcp s1))) >>= (fun s2 =>
  opt s2 (v_command s2) X_ATTR (fun cmd =>
  if (cmd =? 1) && (v_state s2 =? R_SEND_PROCEED) then
    send_dm16 (unsubscribe s2 CB_P16) >>= (fun s3 =>
    if zlen (v_data s3) <=? 7 then
      let s4 := subscribe (set_state (set_proceed s3 true) R_SEND_OPCOMPLETE) CB_P14 in
      send_dm15 s4 (v_length s4) (v_direct s4) (v_status s4) R_SEND_OPCOMPLETE (v_objcnt s4) (v_sa s4) (Some (v_error s4)) (Some (v_edcp s4))
    else ok s3)
  else if (cmd =? 2) && (v_state s2 =? R_SEND_PROCEED) then ok (set_state s2 R_WAIT_FOR_DM16)
  else ok (set_addr (set_sa (set_state (unsubscribe s2 CB_P16) R_IDLE) None) None))).

Definition srv_reset (s : srv) : srv :=
  let s1 := upd s false None R_IDLE None 8 false [] 0 7 0 0 (v_command s) (v_ptype s) (v_objcnt s) (v_access s) None None
                (v_queue s) (a_state s) (subs s) (seeds s) (answers s) in
  unsubscribe (unsubscribe s1 CB_P14) CB_P16.

(* ------------------------------------------------------------------ MemoryAccess._listen_for_dm14 *)
Definition ask_application (s : srv) (key seed : Z) : R * bool :=
  (* self._proceed_function(command, int(address), pointer_type, length, object_count, key, sa, access_level, seed) *)
  match v_command s, v_addr s, v_ptype s, v_objcnt s, v_sa s, v_access s with
  | Some cmd, Some ad, Some pt, Some oc, Some a, Some acc =>
      let '(ans, rest) := match answers s with x :: r => (x, r) | [] => (true, []) end in
      (emit (set_answers s rest) (SProceedFn cmd (le_int ad) pt (v_length s) oc key a acc seed), ans)
  | _, _, _, _, _, _ => (raise s X_ATTR, false)
  end.

(* the refusal sequence of the facade: error, busy, parse again (answers busy/error), not busy, reset, IDLE, error 0 *)
Definition refuse (c : cfg) (s : srv) (err pgn sa : Z) (data : list Z) : R :=
  parse_dm14 c (set_busy (set_error s err) true) pgn sa data >>= (fun s1 =>
  ok (set_error (set_astate (srv_reset (set_busy s1 false)) D_IDLE) 0)).

Definition listen_for_dm14 (c : cfg) (s : srv) (pgn sa : Z) (data : list Z) : R :=
  if negb (pgn =? PGN_DM14) then ok s
  else if a_state s =? D_IDLE then
    if v_state s =? R_IDLE then
      parse_dm14 c (set_astate s D_REQUEST_STARTED) pgn sa data >>= (fun s1 =>
      if negb (c_seedsec c) then
        let s2 := set_astate s1 D_WAIT_RESPONSE in
        if negb (c_hasproceed c) then ok (unsubscribe s2 CB_LISTEN)
        else
          let '(r, ans) := ask_application s2 65535 0 in
          r >>= (fun s3 =>
          if ans then emit (unsubscribe s3 CB_LISTEN) SNotify
          else refuse c s3 256 pgn sa data)
      else ok s1)
    else ok s
  else if a_state s =? D_REQUEST_STARTED then
    parse_dm14 c s pgn sa data >>= (fun s1 =>
    if v_state s1 =? R_SEND_PROCEED then
      let s2 := set_astate s1 D_WAIT_RESPONSE in
      if c_seedsec c then
        match v_seed s2 with
        | Some sd =>
            match v_key s2 with
            | Some ky =>
                if c_key c sd =? ky then
                  if c_hasproceed c then
                    let '(r, ans) := ask_application s2 ky sd in
                    r >>= (fun s3 => if ans then emit s3 SNotify else refuse c s3 256 pgn sa data)
                  else ok s2
                else refuse c s2 4099 pgn sa data
            | None => refuse c s2 4099 pgn sa data
            end
        | None => raise s2 X_TYPE
        end
      else ok s2
    else ok s1)
  else if a_state s =? D_WAIT_QUERY then
    parse_dm14 c (set_busy s true) pgn sa data >>= (fun s1 => ok (set_busy s1 false))
  else ok s.

(* ------------------------------------------------------------------ delivery of one message to the CA's subscribers *)
(* for dic in self._subscribers: dic['cb'](...)  — the LIVE list, by position *)
Fixpoint dispatch (fuel : nat) (c : cfg) (i : nat) (s : srv) (pgn sa : Z) (data : list Z) : R :=
  match fuel with
  | O => raise s X_FUEL
  | S f =>
      match nth_error (subs s) i with
      | None => ok s
      | Some cb =>
          (if cb =? CB_LISTEN then listen_for_dm14 c s pgn sa data
           else if cb =? CB_P14 then parse_dm14 c s pgn sa data
           else if cb =? CB_P16 then parse_dm16 s pgn sa data
           else ok s) >>= (fun s1 => dispatch f c (S i) s1 pgn sa data)
      end
  end.
Definition deliver (c : cfg) (s : srv) (pgn sa : Z) (data : list Z) : R := dispatch 64 c 0 s pgn sa data.

(* ------------------------------------------------------------------ DM14Server.respond / MemoryAccess.respond *)
(* [during]: the messages delivered to this CA while respond() waits on its data queue *)
Fixpoint deliver_all (c : cfg) (s : srv) (fr : list (Z * Z * list Z)) : srv * list sout :=
  match fr with
  | [] => (s, [])
  | (pgn, sa, data) :: r =>
      let '(s1, o1, _) := deliver c s pgn sa data in         (* an exception in a callback is swallowed by the listener *)
      let '(s2, o2) := deliver_all c s1 r in (s2, o1 ++ o2)
  end.

Inductive rret := RetNone | RetData (d : list Z) | RetRaise (x : Z).

Definition srv_respond (c : cfg) (s : srv) (proceed : bool) (data : list Z) (error edcp : Z) (during : list (Z * Z * list Z))
  : srv * list sout * rret :=
  let st := if proceed then 0 else 5 in
  let s1 := set_state (set_status (set_edcp (set_error (set_data (set_proceed s proceed) data) error) edcp) st)
                      (if proceed then R_SEND_PROCEED else R_SEND_ERROR) in
  let '(s2, o2, e2) := wait_for_data s1 in
  match e2 with
  | Some x => (s2, o2, RetRaise x)
  | None =>
      if v_state s2 =? R_WAIT_FOR_DM16 then
        let '(s3, o3) := deliver_all c s2 during in
        match v_queue s3 with
        | d :: q => (set_queue s3 q, o2 ++ o3, RetData d)
        | [] => (s3, o2 ++ o3, RetRaise X_EMPTY)
        end
      else (s2, o2, RetNone)
  end.

(* MemoryAccess.respond: only in WAIT_RESPONSE; otherwise the data is handed back *)
Definition facade_respond (c : cfg) (s : srv) (proceed : bool) (data : list Z) (error edcp : Z) (during : list (Z * Z * list Z))
  : srv * list sout * rret :=
  if a_state s =? D_WAIT_RESPONSE then
    let s1 := set_astate (unsubscribe s CB_LISTEN) D_IDLE in
    let '(s2, o2, r2) := srv_respond c s1 proceed data error edcp during in
    match r2 with
    | RetRaise x => (s2, o2, RetRaise x)                   (* the re-subscription is skipped by the exception *)
    | _ => (subscribe s2 CB_LISTEN, o2, r2)
    end
  else (s, [], RetData data).

Definition facade_reset (s : srv) : srv := srv_reset (subscribe s CB_LISTEN).

(* ------------------------------------------------------------------ the node's own query in progress *)
(* MemoryAccess.read / write: the facade is WAIT_QUERY while its own Dm14Query runs (the query itself is modelled in
   Dm14Cli.v; here only what the SERVING side does with the messages that arrive meanwhile), IDLE again afterwards
   (try/finally).  read raises when the facade is not idle, write then silently does nothing. *)
Definition X_RUNNING : Z := 6.
Definition facade_query (c : cfg) (s : srv) (is_read : bool) (during : list (Z * Z * list Z)) : srv * list sout * rret :=
  if a_state s =? D_IDLE then
    let '(s2, o2) := deliver_all c (set_astate s D_WAIT_QUERY) during in
    (set_astate s2 D_IDLE, o2, if is_read then RetData [] else RetNone)
  else (s, [], if is_read then RetRaise X_RUNNING else RetNone).

(* ------------------------------------------------------------------ operations (the correspondence alphabet) *)
Inductive sop :=
| OpMsg (pgn sa : Z) (data : list Z)
| OpRespond (proceed : bool) (data : list Z) (error edcp : Z) (during : list (Z * Z * list Z))
| OpReset
| OpQuery (is_read : bool) (during : list (Z * Z * list Z)).

Definition sstep (c : cfg) (s : srv) (o : sop) : srv * list sout * rret :=
  match o with
  | OpMsg pgn sa data => let '(s1, o1, e1) := deliver c s pgn sa data in
                         (s1, o1, match e1 with Some x => RetRaise x | None => RetNone end)
  | OpRespond p d er ed du => facade_respond c s p d er ed du
  | OpReset => (facade_reset s, [], RetNone)
  | OpQuery r du => facade_query c s r du
  end.

(* FlowDefs.v — control-flow skeleton of a function with respect to the originator session pools (C10/C02):
   which paths take a session number (FGet), hand it to a stored session (FStore), give it back (FPut), return or raise.
   The skeleton of J1939_22.send_pgn is GENERATED from /repo (theories/gen/SkelGen.v, item flow_send22). *)
From J1939 Require Import Base.

Inductive fl :=
| FSkip                      (* anything that neither touches the pools nor leaves the function *)
| FEnd                       (* the path ends here and nothing is asked of it (used by the ordering skeletons) *)
| FRet                       (* return *)
| FRaise                     (* raise *)
| FStore                     (* self._snd_buffer[...] = {...} : the number is owned by a session from here on *)
| FPut                       (* self.__put_*_session(...) *)
| FMark                      (* sets the flag unconditionally (ordering skeletons: a frame has been handed to the bus) *)
| FGet (fail : fl)           (* x = self.__get_*_session(); if x == None: <fail> *)
| FSeq (a b : fl)
| FAlt (a b : fl).           (* if / else; loops are only admitted by the generator when they contain none of the above *)

(* outcome of the checker: None = some path leaves the function while holding a number nobody owns;
   Some None = every path has left the function; Some (Some h) = control may fall through, holding h on some path *)
Definition merge (x y : option bool) : option bool :=
  match x, y with
  | None, r => r
  | r, None => r
  | Some a, Some b => Some (a || b)
  end.

Fixpoint leakfree (h : bool) (t : fl) : option (option bool) :=
  match t with
  | FSkip => Some (Some h)
  | FEnd => Some None
  | FRet | FRaise => if h then None else Some None
  | FStore | FPut => Some (Some false)
  | FMark => Some (Some true)
  | FGet fail =>
      if h then None
      else match leakfree false fail with
           | None => None
           | Some rf => Some (merge (Some true) rf)
           end
  | FSeq a b =>
      match leakfree h a with
      | None => None
      | Some None => Some None
      | Some (Some h1) => leakfree h1 b
      end
  | FAlt a b =>
      match leakfree h a, leakfree h b with
      | Some ra, Some rb => Some (merge ra rb)
      | _, _ => None
      end
  end.

Definition flow_ok (t : fl) : bool := match leakfree false t with Some _ => true | None => false end.

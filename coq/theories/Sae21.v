(* Sae21.v — an independent statement of the SAE J1939-21 frame layouts, written from the standard's
   tables in terms of / and mod and explicit little-endian byte lists (NOT from the code's shifts and masks). *)
From J1939 Require Import Base.

(* 29-bit identifier: priority (3) | reserved+data page (2) | PDU format (8) | PDU specific (8) | source (8) *)
Definition sae_id (prio pgn18 sa : Z) : Z := prio * 67108864 + pgn18 * 256 + sa.
Definition sae_tp_cm_pgn (da : Z) : Z := 60416 + da.      (* 0xEC00 | DA *)
Definition sae_tp_dt_pgn (da : Z) : Z := 60160 + da.      (* 0xEB00 | DA *)

Definition le3 (pgn : Z) : list Z := [pgn mod 256; (pgn / 256) mod 256; (pgn / 65536) mod 256].
Definition le2 (v : Z) : list Z := [v mod 256; (v / 256) mod 256].

Inductive cm :=
| RTS (size n limit pgn : Z)      (* control 16 *)
| CTS (n next pgn : Z)            (* control 17 *)
| EOMA (size n pgn : Z)           (* control 19 *)
| BAM (size n pgn : Z)            (* control 32 *)
| ABORT (reason pgn : Z).         (* control 255 *)

Definition enc_cm (m : cm) : list Z :=
  match m with
  | RTS s n l p => [16] ++ le2 s ++ [n; l] ++ le3 p
  | CTS n x p => [17; n; x; 255; 255] ++ le3 p
  | EOMA s n p => [19] ++ le2 s ++ [n; 255] ++ le3 p
  | BAM s n p => [32] ++ le2 s ++ [n; 255] ++ le3 p
  | ABORT r p => [255; r; 255; 255; 255] ++ le3 p
  end.

Definition dec_cm (d : list Z) : option cm :=
  match d with
  | [c; b1; b2; b3; b4; p0; p1; p2] =>
      let pgn := p0 + 256 * p1 + 65536 * p2 in
      if c =? 16 then Some (RTS (b1 + 256 * b2) b3 b4 pgn)
      else if c =? 17 then Some (CTS b1 b2 pgn)
      else if c =? 19 then Some (EOMA (b1 + 256 * b2) b3 pgn)
      else if c =? 32 then Some (BAM (b1 + 256 * b2) b3 pgn)
      else if c =? 255 then Some (ABORT b1 pgn)
      else None
  | _ => None
  end.

Definition cm_wf (m : cm) : Prop :=
  match m with
  | RTS s n l p => 0 <= s < 65536 /\ 0 <= p < 16777216
  | CTS n x p => 0 <= p < 16777216
  | EOMA s n p => 0 <= s < 65536 /\ 0 <= p < 16777216
  | BAM s n p => 0 <= s < 65536 /\ 0 <= p < 16777216
  | ABORT r p => 0 <= p < 16777216
  end.

Lemma dec_enc_cm m : cm_wf m -> dec_cm (enc_cm m) = Some m.
Proof.
  destruct m; cbn [cm_wf enc_cm le2 le3 app dec_cm]; intros H.
  - change (16 =? 16) with true. cbv iota. f_equal. f_equal; lia.
  - change (17 =? 16) with false. change (17 =? 17) with true. cbv iota. f_equal. f_equal; lia.
  - change (19 =? 16) with false. change (19 =? 17) with false. change (19 =? 19) with true. cbv iota. f_equal. f_equal; lia.
  - change (32 =? 16) with false. change (32 =? 17) with false. change (32 =? 19) with false. change (32 =? 32) with true.
    cbv iota. f_equal. f_equal; lia.
  - change (255 =? 16) with false. change (255 =? 17) with false. change (255 =? 19) with false. change (255 =? 32) with false.
    change (255 =? 255) with true. cbv iota. f_equal. f_equal; lia.
Qed.

(* data transfer packet: 1-based sequence number, 7 data bytes, the last one padded with 0xFF *)
Definition enc_dt (seqno : Z) (seg : list Z) : list Z := seqno :: seg ++ repeat 255 (7 - length seg).

(* Model22.v — executable model of one ECU with the J1939-22 (CAN FD) data link layer: FD transport
   (RTS/CTS with up to 8, BAM with up to 4 originator sessions), multi-PG packing, notify, job pass.
   The ECU part (subscribers, timers, CAs) is the [node] of Model21; handlers are lifted into [act node22].
   Expression-level code comes from theories/gen/Tp22Gen.v (generated from /repo).  No proofs here. *)
From J1939 Require Import Base CodecGlue Model21.
From J1939.gen Require Import Codec Tp21Gen CaGen Tp22Gen.

Record rbuf22 := { q_pgn : Z; q_session : Z; q_size : Z; q_nseg : Z; q_next : Z; q_border : option Z;
                   q_maxrec : option Z; q_data : list Z; q_deadline : Z; q_src : Z; q_dst : Z }.
(* t_data: the segment list (mutated in place by the DT builder: header inserted, padding appended) *)
Record sbuf22 := { t_pgn : Z; t_prio : Z; t_session : Z; t_size : Z; t_nseg : Z; t_data : list (list Z);
                   t_state : Z; t_deadline : Z; t_src : Z; t_dst : Z; t_next : Z; t_waitcts : option Z; t_nb : Z }.
Record cpg := { g_prio : Z; g_tos : Z; g_tf : Z; g_cpgn : Z; g_len : Z; g_data : list Z }.
Record mbuf := { m_deadline : Z; m_cpgs : list cpg; m_fill : Z }.

Record node22 := { base : node; f_rcv : tbl rbuf22; f_snd : tbl sbuf22; f_mpg : tbl mbuf;
                   f_rts : list bool; f_bam : list bool; f_bam_iv : Z }.

Definition with_base (m : node22) (n : node) : node22 :=
  {| base := n; f_rcv := f_rcv m; f_snd := f_snd m; f_mpg := f_mpg m; f_rts := f_rts m; f_bam := f_bam m; f_bam_iv := f_bam_iv m |}.
Definition set_frcv (m : node22) (t : tbl rbuf22) : node22 :=
  {| base := base m; f_rcv := t; f_snd := f_snd m; f_mpg := f_mpg m; f_rts := f_rts m; f_bam := f_bam m; f_bam_iv := f_bam_iv m |}.
Definition set_fsnd (m : node22) (t : tbl sbuf22) : node22 :=
  {| base := base m; f_rcv := f_rcv m; f_snd := t; f_mpg := f_mpg m; f_rts := f_rts m; f_bam := f_bam m; f_bam_iv := f_bam_iv m |}.
Definition set_fmpg (m : node22) (t : tbl mbuf) : node22 :=
  {| base := base m; f_rcv := f_rcv m; f_snd := f_snd m; f_mpg := t; f_rts := f_rts m; f_bam := f_bam m; f_bam_iv := f_bam_iv m |}.
Definition set_frts (m : node22) (l : list bool) : node22 :=
  {| base := base m; f_rcv := f_rcv m; f_snd := f_snd m; f_mpg := f_mpg m; f_rts := l; f_bam := f_bam m; f_bam_iv := f_bam_iv m |}.
Definition set_fbam (m : node22) (l : list bool) : node22 :=
  {| base := base m; f_rcv := f_rcv m; f_snd := f_snd m; f_mpg := f_mpg m; f_rts := f_rts m; f_bam := l; f_bam_iv := f_bam_iv m |}.
Definition wake22 (m : node22) : node22 := with_base m (wake (base m)).

Definition init_node22 (maxp : Z) (cmdt_iv : option Z) (bam_iv : option Z) : node22 :=
  {| base := init_node maxp cmdt_iv bam_iv; f_rcv := []; f_snd := []; f_mpg := [];
     f_rts := repeat true tp22_pool_rts; f_bam := repeat true tp22_pool_bam;
     f_bam_iv := match bam_iv with Some v => v | None => tp22_bam_default end |}.

(* ------------------------------------------------------------------ lifting ECU-level resumptions *)
Fixpoint lift (m : node22) (a : act node) (k : node22 -> Z -> act node22) : act node22 :=
  match a with
  | Done s r => k (with_base m s) r
  | Raise s e => Raise (with_base m s) e
  | Emit s o c => Emit (with_base m s) o (fun m' => lift m' (c (base m')) k)
  end.

Definition notify_subscribers22 (prio pgn sa dest : Z) (data : list Z) (m : node22) (k : node22 -> act node22) : act node22 :=
  lift m (notify_subscribers prio pgn sa dest data (base m) (fun n => Done n 0)) (fun m' _ => k m').

(* ------------------------------------------------------------------ session pools *)
Fixpoint pool_get (l : list bool) (i : Z) : option (Z * list bool) :=
  match l with
  | [] => None
  | b :: r => if b then Some (i, false :: r)
              else match pool_get r (i + 1) with Some (j, r') => Some (j, b :: r') | None => None end
  end.
(* self.__xxx_session_list[session] = True : IndexError when out of range (negative indices wrap in Python) *)
Definition pool_put (l : list bool) (s : Z) : option (list bool) :=
  let i := if s <? 0 then s + Z.of_nat (length l) else s in
  if (i <? 0) || (i >=? Z.of_nat (length l)) then None
  else Some (upd_nth l (Z.to_nat i) true).

(* ------------------------------------------------------------------ FD length table and DT frame *)
Definition fd_len (n : nat) : option Z := nth_error fd_dlc_lut n.

(* __send_tp_dt: returns (frame, the segment as mutated in place) ; None = IndexError in the LUT *)
Definition dt_frame (src dst session segnum : Z) (seg : list Z) : option (frame * list Z) :=
  let d := tp22_dt_header session segnum 0 ++ seg in
  if (Z.of_nat (length d) >=? tp22_TP + 4) then
    Some ({| f_id := tp22_dt_id src dst; f_ext := true; f_fd := true; f_data := firstn (Z.to_nat (tp22_TP + 4)) d |}, d)
  else match fd_len (length d) with
       | None => None
       | Some nl => let nl' := if nl <? 0 then 0 else nl in
                    let d' := d ++ repeat tp22_dt_pad (Z.to_nat nl' - length d) in
                    Some ({| f_id := tp22_dt_id src dst; f_ext := true; f_fd := true; f_data := d' |}, d')
       end.

(* Python list indexing with negative wrap-around *)
Definition py_nth {A} (l : list A) (i : Z) : option A :=
  let j := if i <? 0 then i + Z.of_nat (length l) else i in
  if j <? 0 then None else nth_error l (Z.to_nat j).
Definition py_set {A} (l : list A) (i : Z) (x : A) : list A :=
  let j := if i <? 0 then i + Z.of_nat (length l) else i in
  if j <? 0 then l else upd_nth l (Z.to_nat j) x.

(* numpy split/reshape: full 60-byte rows, then the remainder row (present even when empty) *)
Fixpoint chunks (fuel : nat) (d : list Z) : list (list Z) :=
  match fuel with
  | O => []
  | S f => if (length d <? 60)%nat then [d] else firstn 60 d :: chunks f (skipn 60 d)
  end.
Definition segments (d : list Z) : list (list Z) := chunks (length d / 60 + 1) d.

(* ------------------------------------------------------------------ multi-PG *)
Definition mpg_pack1 (c : cpg) : list Z := mpg_header (g_tos c) (g_tf c) (g_cpgn c) (g_len c) ++ g_data c.
Fixpoint mpg_padding (cnt : nat) (have : nat) : list Z :=
  match cnt with O => [] | S c => (if (have <? 3)%nat then 0 else 170) :: mpg_padding c (S have) end.

Definition send_multi_pg (ff : Z) (cpgs : list cpg) (src dst : Z) : option frame :=
  let prio := fold_left (fun p c => Z.min (g_prio c) p) cpgs 7 in
  let d := concat (map mpg_pack1 cpgs) in
  match fd_len (length d) with
  | None => None
  | Some nl =>
      let nl' := if nl <? 0 then 0 else nl in
      let d' := d ++ mpg_padding (Z.to_nat nl' - length d) 0 in
      if ff =? ff_FBFF
      then Some {| f_id := src; f_ext := false; f_fd := true; f_data := d' |}
      else Some {| f_id := mpg_feff_id prio dst src; f_ext := true; f_fd := true; f_data := d' |}
  end.

(* the while loop of send_pgn that finds / creates a collection buffer *)
Fixpoint mpg_collect (fuel : nat) (session : Z) (ff sa dst : Z) (c : cpg) (now deadline : Z) (t : tbl mbuf) : option (tbl mbuf) :=
  match fuel with
  | O => None
  | S f =>
      let h := tp22_hash_mpg ff session sa dst in
      match tget t h with
      | None => Some (tset t h {| m_deadline := deadline; m_cpgs := [c]; m_fill := 4 + g_len c |})
      | Some b =>
          if m_fill b <=? tp22_TP - g_len c then
            Some (tset t h {| m_deadline := (if m_deadline b >? deadline then deadline else m_deadline b);
                              m_cpgs := m_cpgs b ++ [c]; m_fill := m_fill b + 4 + g_len c |})
          else mpg_collect f (session + 1) ff sa dst c now deadline
                           (tset t h {| m_deadline := now; m_cpgs := m_cpgs b; m_fill := m_fill b |})
      end
  end.

(* ------------------------------------------------------------------ send_pgn *)
Definition mk_sbuf22 (pgn prio session size nseg : Z) (data : list (list Z)) (st dl src dst : Z) (w : option Z) : sbuf22 :=
  {| t_pgn := pgn; t_prio := prio; t_session := session; t_size := size; t_nseg := nseg; t_data := data; t_state := st;
     t_deadline := dl; t_src := src; t_dst := dst; t_next := 0; t_waitcts := w; t_nb := 0 |}.

Definition send_pgn22 (m : node22) (now dp pf ps prio sa : Z) (data : list Z) (time_limit ff : Z) : act node22 :=
  let '(pdp, ppf, pps) := pgn_mk dp pf ps in
  let dl := len data in
  if dl <=? tp22_TP then
    let '(cpgn0, dst) := if pgn_is_pdu1 ppf then (Z.land (pgn_value pdp ppf pps) 1048320, ps)   (* & 0xFFF00 *)
                         else (pgn_value pdp ppf pps, addr_GLOBAL) in
    let prio' := if ff =? ff_FBFF then 0 else prio in
    if (ff =? ff_FBFF) && negb (dst =? addr_GLOBAL) then Done m 0
    else
      let '(cp, ct, cf, cg) := mpg_cpg_fields prio' 2 0 cpgn0 in
      let c := {| g_prio := cp; g_tos := ct; g_tf := cf; g_cpgn := cg; g_len := dl; g_data := data |} in
      if time_limit =? 0 then
        match send_multi_pg ff [c] sa dst with
        | None => Raise m E_Index
        | Some fr => Emit m (OTx fr) (fun m' => Done m' 1)
        end
      else
        match mpg_collect 300 0 ff sa dst c now (now + time_limit) (f_mpg m) with
        | None => Raise m E_Fuel
        | Some t' => Done (wake22 (set_fmpg m t')) 1
        end
  else
    let global := (ps =? addr_GLOBAL) || pgn_is_pdu2_of 0 pf ps in
    let dest := if global then addr_GLOBAL else ps in
    match (if global then pool_get (f_bam m) 0 else pool_get (f_rts m) 0) with
    | None => Done m 0
    | Some (session, pool') =>
        let m0 := if global then set_fbam m pool' else set_frts m pool' in
        let h := tp22_hash session sa dest in
        let nseg := dl / tp22_TP + (if dl mod tp22_TP =? 0 then 0 else 1) in
        let segs := segments data in
        if global then
          let pps' := if pgn_is_pdu1 ppf then 0 else pps in
          let pv := pgn_value pdp ppf pps' in
          Emit m0 (OTx (tp22_bam prio sa session pv dl nseg)) (fun m1 =>
            let b := mk_sbuf22 pv prio session dl nseg segs tp22_st_SENDING_BAM (now + f_bam_iv m1) sa addr_GLOBAL None in
            Done (wake22 (set_fsnd m1 (tset (f_snd m1) h b))) 1)
        else
          let pv := pgn_value pdp ppf 0 in
          let b := mk_sbuf22 pv prio session dl nseg segs tp22_st_WAITING_CTS (now + tp22_T3) sa ps (Some 0) in
          Emit (set_fsnd m0 (tset (f_snd m0) h b))
               (OTx (tp22_rts prio sa ps session pv dl nseg (Z.min (n_maxp (base m)) nseg)))
               (fun m2 => Done (wake22 m2) 1)
    end.

(* ------------------------------------------------------------------ async_job_thread *)
Definition upd_t (b : sbuf22) (st dl nx : Z) : sbuf22 :=
  {| t_pgn := t_pgn b; t_prio := t_prio b; t_session := t_session b; t_size := t_size b; t_nseg := t_nseg b; t_data := t_data b;
     t_state := st; t_deadline := dl; t_src := t_src b; t_dst := t_dst b; t_next := nx; t_waitcts := t_waitcts b; t_nb := t_nb b |}.
Definition with_tdata (b : sbuf22) (d : list (list Z)) : sbuf22 :=
  {| t_pgn := t_pgn b; t_prio := t_prio b; t_session := t_session b; t_size := t_size b; t_nseg := t_nseg b; t_data := d;
     t_state := t_state b; t_deadline := t_deadline b; t_src := t_src b; t_dst := t_dst b; t_next := t_next b; t_waitcts := t_waitcts b; t_nb := t_nb b |}.
Definition with_twait (b : sbuf22) (w : option Z) : sbuf22 :=
  {| t_pgn := t_pgn b; t_prio := t_prio b; t_session := t_session b; t_size := t_size b; t_nseg := t_nseg b; t_data := t_data b;
     t_state := t_state b; t_deadline := t_deadline b; t_src := t_src b; t_dst := t_dst b; t_next := t_next b; t_waitcts := w; t_nb := t_nb b |}.
Definition with_tnb (b : sbuf22) (v : Z) : sbuf22 :=
  {| t_pgn := t_pgn b; t_prio := t_prio b; t_session := t_session b; t_size := t_size b; t_nseg := t_nseg b; t_data := t_data b;
     t_state := t_state b; t_deadline := t_deadline b; t_src := t_src b; t_dst := t_dst b; t_next := t_next b; t_waitcts := t_waitcts b; t_nb := v |}.

Definition minw (nw dl : Z) : Z := if nw >? dl then dl else nw.

Fixpoint rcv_pass22 (keys : list Z) (now nw : Z) (m : node22) (k : node22 -> Z -> act node22) : act node22 :=
  match keys with
  | [] => k m nw
  | key :: ks =>
      match tget (f_rcv m) key with
      | None => rcv_pass22 ks now nw m k
      | Some b =>
          if q_deadline b =? 0 then rcv_pass22 ks now nw m k
          else if q_deadline b >? now then rcv_pass22 ks now (minw nw (q_deadline b)) m k
          else if negb (q_dst b =? addr_GLOBAL) then
            Emit m (OTx (tp22_abort (q_dst b) (q_src b) (q_session b) tp22_reason_TIMEOUT (q_pgn b)))
                 (fun m' => rcv_pass22 ks now nw (set_frcv m' (tdel (f_rcv m') key)) k)
          else rcv_pass22 ks now nw (set_frcv m (tdel (f_rcv m) key)) k
      end
  end.

Fixpoint mpg_pass (keys : list Z) (now nw : Z) (m : node22) (k : node22 -> Z -> act node22) : act node22 :=
  match keys with
  | [] => k m nw
  | key :: ks =>
      match tget (f_mpg m) key with
      | None => Raise m E_Key
      | Some b =>
          if m_deadline b >? now then mpg_pass ks now (minw nw (m_deadline b)) m k
          else
            let '(ff, _, sa, dst) := tp22_unhash_mpg key in
            match send_multi_pg ff (m_cpgs b) sa dst with
            | None => Raise m E_Index
            | Some fr => Emit m (OTx fr) (fun m' =>
                           if tmem (f_mpg m') key then mpg_pass ks now nw (set_fmpg m' (tdel (f_mpg m') key)) k
                           else Raise m' E_Key)
            end
      end
  end.

(* SENDING_RTS_CTS loop (repaired: state is advanced before the frames are handed to the bus) *)
Fixpoint fd_burst (fuel : nat) (key now : Z) (m : node22) (k : node22 -> act node22) : act node22 :=
  match fuel with
  | O => Raise m E_Fuel
  | S f =>
      match tget (f_snd m) key with
      | None => Raise m E_Alias
      | Some b =>
          if t_next b <? t_nseg b then
            let package := t_next b in
            let bn := match n_cmdt_iv (base m) with Some iv => with_tnb b (now + iv) | None => b end in
            let b1 := upd_t bn (t_state b) (t_deadline b) (package + 1) in
            let last := (package + 1 =? t_nseg b) in
            let res :=
              if last then Some (upd_t b1 tp22_st_WAITING_EOM_ACK (now + tp22_T5) (package + 1), true)
              else match t_waitcts b with
                   | None => None
                   | Some w =>
                       if package =? w then Some (upd_t b1 tp22_st_WAITING_CTS (now + tp22_T3) (package + 1), true)
                       else match n_cmdt_iv (base m) with
                            | Some iv => Some (upd_t b1 (t_state b) (now + iv) (package + 1), true)
                            | None => Some (b1, false)
                            end
                   end in
            match res with
            | None => Raise (set_fsnd m (tset (f_snd m) key b1)) E_Key
            | Some (b2, brk) =>
                match py_nth (t_data b) package with
                | None => Raise (set_fsnd m (tset (f_snd m) key b2)) E_Index
                | Some seg =>
                    match dt_frame (t_src b) (t_dst b) (t_session b) (package + 1) seg with
                    | None => Raise (set_fsnd m (tset (f_snd m) key b2)) E_Index
                    | Some (fr, seg') =>
                        let b3 := with_tdata b2 (py_set (t_data b2) package seg') in
                        Emit (set_fsnd m (tset (f_snd m) key b3)) (OTx fr) (fun m1 =>
                          if last then
                            Emit m1 (OTx (tp22_eom_status (t_src b) (t_dst b) (t_session b) (t_size b) (t_nseg b) (t_pgn b)))
                                 (fun m2 => k m2)
                          else if brk then k m1 else fd_burst f key now m1 k)
                    end
                end
            end
          else k m
      end
  end.

Definition put_rts (m : node22) (s : Z) (k : node22 -> act node22) : act node22 :=
  match pool_put (f_rts m) s with Some l => k (set_frts m l) | None => Raise m E_Index end.
Definition put_bam (m : node22) (s : Z) (k : node22 -> act node22) : act node22 :=
  match pool_put (f_bam m) s with Some l => k (set_fbam m l) | None => Raise m E_Index end.
(* __put_session: back to the pool the number was taken from, decided by the session's destination *)
Definition put_session (m : node22) (b : sbuf22) (k : node22 -> act node22) : act node22 :=
  if t_dst b =? addr_GLOBAL then put_bam m (t_session b) k else put_rts m (t_session b) k.

Fixpoint snd_pass22 (keys : list Z) (now nw : Z) (m : node22) (k : node22 -> Z -> act node22) : act node22 :=
  match keys with
  | [] => k m nw
  | key :: ks =>
      match tget (f_snd m) key with
      | None => Raise m E_Key
      | Some b =>
          let del_then := fun (m' : node22) (cont : node22 -> act node22) =>
            if tmem (f_snd m') key then cont (set_fsnd m' (tdel (f_snd m') key)) else Raise m' E_Key in
          if t_deadline b =? 0 then snd_pass22 ks now nw m k
          else if t_deadline b >? now then snd_pass22 ks now (minw nw (t_deadline b)) m k
          else if t_state b =? tp22_st_WAITING_CTS then
            Emit m (OTx (tp22_abort (t_src b) (t_dst b) (t_session b) tp22_reason_TIMEOUT (t_pgn b)))
                 (fun m' => del_then m' (fun m2 => put_session m2 b (fun m3 => snd_pass22 ks now nw m3 k)))
          else if t_state b =? tp22_st_SENDING_RTS_CTS then
            fd_burst (Z.to_nat (t_nseg b - t_next b) + 2) key now m (fun m1 =>
              match tget (f_snd m1) key with
              | None => Raise m1 E_Alias
              | Some b1 =>
                  let b2 := if (t_state b1 =? tp22_st_SENDING_RTS_CTS) && (t_next b1 >=? t_nseg b1)
                            then upd_t b1 tp22_st_WAITING_CTS (now + tp22_T3) (t_next b1) else b1 in
                  snd_pass22 ks now (minw nw (t_deadline b2)) (set_fsnd m1 (tset (f_snd m1) key b2)) k
              end)
          else if (t_state b =? tp22_st_WAITING_EOM_ACK) || (t_state b =? tp22_st_EOM_ACK_RECEIVED) || (t_state b =? tp22_st_TRANSMISSION_FINISHED) then
            del_then m (fun m2 => put_session m2 b (fun m3 => snd_pass22 ks now nw m3 k))
          else if t_state b =? tp22_st_SENDING_BAM then
            let package := t_next b in
            match py_nth (t_data b) package with
            | None => Raise m E_Index
            | Some seg =>
                match dt_frame (t_src b) (t_dst b) (t_session b) (package + 1) seg with
                | None => Raise m E_Index
                | Some (fr, seg') =>
                    let b0 := with_tdata b (py_set (t_data b) package seg') in
                    Emit (set_fsnd m (tset (f_snd m) key b0)) (OTx fr) (fun m1 =>
                      match tget (f_snd m1) key with
                      | None => Raise m1 E_Alias
                      | Some b1 =>
                          let nx := t_next b1 + 1 in
                          let st := if nx <? t_nseg b1 then t_state b1 else tp22_st_SENDING_EOM_STATUS in
                          let b2 := upd_t b1 st (now + f_bam_iv m1) nx in
                          snd_pass22 ks now (minw nw (t_deadline b2)) (set_fsnd m1 (tset (f_snd m1) key b2)) k
                      end)
                end
            end
          else if t_state b =? tp22_st_SENDING_EOM_STATUS then
            Emit m (OTx (tp22_eom_status (t_src b) (t_dst b) (t_session b) (t_size b) (t_nseg b) (t_pgn b)))
                 (fun m' => del_then m' (fun m2 => put_session m2 b (fun m3 => snd_pass22 ks now nw m3 k)))
          else del_then m (fun m2 => put_session m2 b (fun m3 => snd_pass22 ks now nw m3 k))
      end
  end.

Definition dll_job22 (m : node22) (now : Z) (k : node22 -> Z -> act node22) : act node22 :=
  rcv_pass22 (tkeys (f_rcv m)) now (now + 5000000) m (fun m1 nw1 =>
    mpg_pass (tkeys (f_mpg m1)) now nw1 m1 (fun m2 nw2 =>
      snd_pass22 (tkeys (f_snd m2)) now nw2 m2 k)).

Definition job_iter22 (m : node22) (now : Z) : act node22 :=
  dll_job22 m now (fun m1 nw1 =>
    lift m1 (timer_pass (n_timers (base m1)) now nw1 (base m1) (fun n2 nw2 => Done n2 (nw2 - now)))
         (fun m2 r => Done m2 r)).

(* ------------------------------------------------------------------ notify *)
Definition upd_q (b : rbuf22) (data : list Z) (nx : Z) (border : option Z) (dl : Z) : rbuf22 :=
  {| q_pgn := q_pgn b; q_session := q_session b; q_size := q_size b; q_nseg := q_nseg b; q_next := nx; q_border := border;
     q_maxrec := q_maxrec b; q_data := data; q_deadline := dl; q_src := q_src b; q_dst := q_dst b |}.

Definition process_tp_cm22 (prio sa dest : Z) (data : list Z) (now : Z) (m : node22) : act node22 :=
  if (length data <? 12)%nat then Done m 0
  else
    let ctl := tp22_cm_control_byte data in
    let session := tp22_cm_session_num data in
    let size := tp22_cm_message_size data in
    let segn := tp22_cm_segment_num data in
    let pgn := tp22_cm_pgn data in
    let b7 := byte_at data 7 in
    if ctl =? tp22_ctl_RTS then
      let h := tp22_hash session sa dest in
      if tmem (f_rcv m) h then
        Emit m (OTx (tp22_abort dest sa session tp22_reason_BUSY pgn)) (fun m' => Done m' 0)
      else
        let g := Z.min (n_maxp (base m)) (Z.min b7 segn) in
        let b := {| q_pgn := pgn; q_session := session; q_size := size; q_nseg := segn; q_next := 1; q_border := Some g;
                    q_maxrec := Some g; q_data := []; q_deadline := now + tp22_T2; q_src := sa; q_dst := dest |} in
        Emit (set_frcv m (tset (f_rcv m) h b)) (OTx (tp22_cts dest sa session g 1 pgn)) (fun m' => Done (wake22 m') 0)
    else if ctl =? tp22_ctl_CTS then
      let h := tp22_hash session dest sa in
      match tget (f_snd m) h with
      | None => Emit m (OTx (tp22_abort dest sa session tp22_reason_RESOURCES pgn)) (fun m' => Done m' 0)
      | Some b =>
          if b7 =? 0 then Done (wake22 (set_fsnd m (tset (f_snd m) h (upd_t b (t_state b) (now + tp22_Th) (t_next b))))) 0
          else
            let all := t_nseg b in
            let nxt := segn - 1 in
            let tosend := all - nxt in
            let n1 := if b7 >? all then all else b7 in
            let n2 := if n1 >? n_maxp (base m) then n_maxp (base m) else n1 in
            let n3 := if n2 >? tosend then tosend else n2 in
            let b' := with_twait (upd_t b tp22_st_SENDING_RTS_CTS (Z.max now (t_nb b)) nxt) (Some (nxt + n3 - 1)) in
            Done (wake22 (set_fsnd m (tset (f_snd m) h b'))) 0
      end
    else if ctl =? tp22_ctl_EOM_STATUS then
      let h := tp22_hash session sa dest in
      match tget (f_rcv m) h with
      | None => Done m 0
      | Some b =>
          let fin := fun (m' : node22) => if tmem (f_rcv m') h then Done (set_frcv m' (tdel (f_rcv m') h)) 0 else Raise m' E_Key in
          if (q_size b =? size) && (q_nseg b =? segn) && (len (q_data b) =? size) then
            notify_subscribers22 prio (q_pgn b) sa dest (q_data b) m (fun m1 =>
              if negb (dest =? addr_GLOBAL)
              then Emit m1 (OTx (tp22_eom_ack dest sa session size segn (q_pgn b))) fin
              else fin m1)
          else if negb (dest =? addr_GLOBAL)
          then Emit m (OTx (tp22_abort dest sa session tp22_reason_RESOURCES (q_pgn b))) fin
          else fin m
      end
    else if ctl =? tp22_ctl_EOM_ACK then
      let h := tp22_hash session dest sa in
      if negb (tmem (f_snd m) h) then
        Emit m (OTx (tp22_abort dest sa session tp22_reason_RESOURCES pgn)) (fun m' => Done m' 0)
      else
        notify_subscribers22 prio pgn sa dest data m (fun m1 =>
          match tget (f_snd m1) h with
          | None => Raise m1 E_Key
          | Some b => Done (wake22 (set_fsnd m1 (tset (f_snd m1) h (upd_t b tp22_st_EOM_ACK_RECEIVED now (t_next b))))) 0
          end)
    else if ctl =? tp22_ctl_BAM then
      let h := tp22_hash session sa dest in
      let m1 := if tmem (f_rcv m) h then set_frcv m (tdel (f_rcv m) h) else m in
      let b := {| q_pgn := pgn; q_session := session; q_size := size; q_nseg := segn; q_next := 1; q_border := None;
                  q_maxrec := None; q_data := []; q_deadline := now + tp22_T1; q_src := sa; q_dst := dest |} in
      Done (wake22 (set_frcv m1 (tset (f_rcv m1) h b))) 0
    else if ctl =? tp22_ctl_ABORT then
      let h := tp22_hash session dest sa in
      match tget (f_snd m) h with
      | Some b => if t_state b =? tp22_st_WAITING_CTS
                  then Done (set_fsnd m (tset (f_snd m) h (upd_t b tp22_st_TRANSMISSION_FINISHED now (t_next b)))) 0
                  else Done m 0
      | None => Done m 0
      end
    else Raise m E_Runtime.

Definition process_tp_dt22 (prio sa dest : Z) (data : list Z) (now : Z) (m : node22) : act node22 :=
  if (length data <=? 4)%nat then Done m 0
  else
    let session := tp22_dt_session_num data in
    let segn := tp22_dt_segment_num data in
    if segn =? 0 then Done m 0
    else
      let h := tp22_hash session sa dest in
      match tget (f_rcv m) h with
      | None => Done m 0
      | Some b =>
          if negb (q_next b =? segn) then Done m 0
          else
            let d := q_data b ++ skipn 4 data in
            if len d >=? q_size b then
              let d' := firstn (Z.to_nat (q_size b)) d in
              let dl := if negb (dest =? addr_GLOBAL) then now + tp22_T1 else q_deadline b in
              Done (wake22 (set_frcv m (tset (f_rcv m) h (upd_q b d' (segn + 1) (q_border b) dl)))) 0
            else
              let b1 := upd_q b d (segn + 1) (q_border b) (q_deadline b) in
              let m1 := set_frcv m (tset (f_rcv m) h b1) in
              match (if negb (dest =? addr_GLOBAL) then q_border b else None) with
              | None =>
                  if negb (dest =? addr_GLOBAL) then Raise m1 E_Key
                  else Done (set_frcv m1 (tset (f_rcv m1) h (upd_q b1 d (segn + 1) (q_border b1) (now + tp22_T1)))) 0
              | Some border =>
                  if segn >=? border then
                    match q_maxrec b with
                    | None => Raise m1 E_Key
                    | Some mr =>
                        Emit m1 (OTx (tp22_cts dest sa session (Z.min mr (q_nseg b - border)) (border + 1) (q_pgn b))) (fun m2 =>
                          match tget (f_rcv m2) h with
                          | None => Raise m2 E_Key
                          | Some b2 =>
                              match q_border b2, q_maxrec b2 with
                              | Some bd2, Some mr2 =>
                                  Done (wake22 (set_frcv m2 (tset (f_rcv m2) h
                                         (upd_q b2 (q_data b2) (q_next b2) (Some (Z.min (bd2 + mr2) (q_nseg b2))) (now + tp22_T2))))) 0
                              | _, _ => Raise m2 E_Key
                              end
                          end)
                    end
                  else Done (set_frcv m1 (tset (f_rcv m1) h (upd_q b1 d (segn + 1) (q_border b1) (now + tp22_T1)))) 0
              end
      end.

(* _process_multi_pg: loop over the contained parameter groups *)
Fixpoint process_multi_pg (fuel : nat) (prio sa dest : Z) (data : list Z) (m : node22) : act node22 :=
  match fuel with
  | O => Raise m E_Fuel
  | S f =>
      if (length data <=? 4)%nat then Done m 0
      else
        let '(tos, tf, cpgn, plen) := mpg_parse_header data in
        if tos =? 0 then Done m 0
        else
          let rest := skipn (Z.to_nat (4 + plen)) data in
          if (tos =? 2) && (tf =? 0) then
            notify_subscribers22 prio cpgn sa dest (firstn (Z.to_nat plen) (skipn 4 data)) m (fun m1 =>
              process_multi_pg f prio sa dest rest m1)
          else process_multi_pg f prio sa dest rest m
  end.

Fixpoint claim_fanout22 (i cnt : nat) (sa : Z) (data : list Z) (m : node22) : act node22 :=
  match cnt with
  | O => Done m 0
  | S c => lift m (process_addressclaim i sa data (base m) (fun n => Done n 0)) (fun m' _ => claim_fanout22 (S i) c sa data m')
  end.

Definition notify22 (m : node22) (now can_id : Z) (data : list Z) : act node22 :=
  let '(prio, pgnf, sa) := mid_parse can_id in
  let '(dp, pf, ps) := pgn_from_mid pgnf in
  let pgn_value_ := Z.land (pgn_value dp pf ps) 130816 in
  let dest := ps in
  let n := base m in
  if negb (dest =? addr_GLOBAL) && negb (pgn_is_pdu2 pf) && negb (ecu_acceptable n dest) &&
     negb (existsb (fun c => ca_acceptable c dest) (n_cas n))
  then Done m 0
  else if pgn_value_ =? pgn_FEFF_MULTI_PG then process_multi_pg 70 prio sa dest data m
  else if pgn_value_ =? pgn_ADDRESSCLAIM then claim_fanout22 0 (length (n_cas n)) sa data m
  else if pgn_value_ =? pgn_REQUEST then
    lift m (request_fanout 0 (length (n_cas n)) sa dest data n (fun n' => Done n' 0)) (fun m' r => Done m' r)
  else if pgn_value_ =? pgn_FD_TP_CM then process_tp_cm22 prio sa dest data now m
  else if pgn_value_ =? pgn_FD_TP_DT then process_tp_dt22 prio sa dest data now m
  else if (pgn_value_ =? pgn_TP_CM) || (pgn_value_ =? pgn_DATATRANSFER) then Done m 0
  else if pgn_is_pdu2 pf then notify_subscribers22 prio (pgn_value dp pf ps) sa addr_GLOBAL data m (fun m' => Done m' 0)
  else notify_subscribers22 prio pgn_value_ sa dest data m (fun m' => Done m' 0).

Definition listener22 (m : node22) (now can_id : Z) (ext remote err : bool) (data : list Z) : act node22 :=
  if err || remote || negb ext then Done m 0 else catch (notify22 m now can_id data).

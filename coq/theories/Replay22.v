(* Replay22.v — correspondence side of Model22 (same scheme as Replay21). *)
From J1939 Require Import Base CodecGlue Model21 Replay21 Model22.
From J1939.gen Require Import Codec Tp21Gen CaGen Tp22Gen.

Inductive op22 :=
| O2Subscribe (cid : Z) (f : filt)
| O2Unsubscribe (cid : Z)
| O2AddCa (name : Z) (pref : option Z) (bypass : bool)
| O2CaSubscribe (i : nat) (cid : Z)
| O2CaSubReq (i : nat) (cid : Z)
| O2CaUnsubReq (i : nat) (cid : Z)
| O2AddTimer (now delta cid : Z) (ret : bool)
| O2RemoveTimer (cid : Z)
| O2Send (now dp pf ps prio sa : Z) (data : pl) (tl ff : Z)
| O2Notify (now id : Z) (data : list Z)
| O2Listener (now id : Z) (ext remote err : bool) (data : list Z)
| O2Job (now elapsed : Z)
(* operations of a controller application on an FD stack: the CA is the one of the base node *)
| O2CaStart (i : nat) (now delay : Z)
| O2CaStop (i : nat)
| O2CaSendMsg (i : nat) (prio pgn : Z) (data : pl).
Inductive ev22 := B2 (o : op22) | C2.

Definition onbase (m : node22) (f : node -> node) : act node22 := Done (with_base m (f (base m))) 0.

Definition handler22 (o : op22) (m : node22) : act node22 :=
  match o with
  | O2Subscribe cid f => onbase m (fun n => subscribe n cid f)
  | O2Unsubscribe cid => onbase m (fun n => unsubscribe n cid)
  | O2AddCa nm pref byp => onbase m (fun n => set_cas n (n_cas n ++ [mk_ca nm pref byp]))
  | O2CaSubscribe i cid => onbase m (fun n => subscribe n cid (FCa i))
  | O2CaSubReq i cid =>
      match nth_error (n_cas (base m)) i with
      | Some c => onbase m (fun n => set_ca n i (with_ca_reqs c (c_reqs c ++ [cid])))
      | None => Raise m E_Alias
      end
  | O2CaUnsubReq i cid =>
      match nth_error (n_cas (base m)) i with
      | Some c => if existsb (Z.eqb cid) (c_reqs c) then onbase m (fun n => set_ca n i (with_ca_reqs c (Replay21.zremove1 cid (c_reqs c))))
                  else Raise m E_Value
      | None => Raise m E_Alias
      end
  | O2AddTimer now delta cid ret => onbase m (fun n => add_timer n now delta (TApp cid) ret)
  | O2RemoveTimer cid => onbase m (fun n => remove_timer n (TApp cid))
  | O2Send now dp pf ps prio sa d tl ff => send_pgn22 m now dp pf ps prio sa (pl_bytes d) tl ff
  | O2Notify now id d => notify22 m now id d
  | O2Listener now id e r er d => listener22 m now id e r er d
  | O2Job now el => (fix clamp (a : act node22) : act node22 :=
                    match a with
                    | Done s r => Done s (Z.max (r - el) 0)
                    | Raise s e => Raise s e
                    | Emit s o k => Emit s o (fun s' => clamp (k s'))
                    end) (job_iter22 m now)
  | O2CaStart i now delay => onbase m (fun n => ca_start n i now delay)
  | O2CaStop i => onbase m (fun n => ca_stop n i)
  | O2CaSendMsg i prio pgn d => lift m (ca_send_message (base m) i prio pgn (pl_bytes d)) (fun m' r => Done m' r)
  end.

Definition summary22 (m : node22) : list Z :=
  [len (map fst (f_rcv m))] ++
  concat (map (fun kb => let '(k, b) := kb in
     [k; q_pgn b; q_session b; q_size b; q_nseg b; q_next b; opt (q_border b); len (q_data b); q_deadline b; q_src b; q_dst b]) (f_rcv m)) ++
  [len (map fst (f_snd m))] ++
  concat (map (fun kb => let '(k, b) := kb in
     [k; t_pgn b; t_session b; t_state b; t_deadline b; t_next b; opt (t_waitcts b); t_nseg b; t_size b; Z.of_nat (length (t_data b))]) (f_snd m)) ++
  [len (map fst (f_mpg m))] ++
  concat (map (fun kb => let '(k, b) := kb in [k; m_deadline b; m_fill b; Z.of_nat (length (m_cpgs b))]) (f_mpg m)) ++
  map b2z (f_rts m) ++ map b2z (f_bam m) ++
  (let n := base m in
   [Z.of_nat (length (n_timers n))] ++
   concat (map (fun t => [tm_deadline t; tm_delta t]) (n_timers n)) ++
   [Z.of_nat (length (n_subs n)); n_wakes n] ++
   concat (map (fun c => [c_state c; opt (c_addr c); c_ann c; b2z (c_started c)]) (n_cas n))).

Record rstate22 := { r2_node : node22; r2_stack : list (node22 -> act node22); r2_h : Z; r2_full : list Z; r2_err : Z }.

Definition record22 (keep : bool) (r : rstate22) (l : list Z) (n : node22) (stk : list (node22 -> act node22)) : rstate22 :=
  {| r2_node := n; r2_stack := stk; r2_h := dig (r2_h r) l;
     r2_full := if keep then r2_full r ++ l else []; r2_err := r2_err r |}.

Definition settle22 (keep : bool) (r : rstate22) (a : act node22) (stk : list (node22 -> act node22)) : rstate22 :=
  match a with
  | Emit s o k => record22 keep r (flat_out o) s (k :: stk)
  | Done s ret => record22 keep r ([3; ret] ++ (match stk with [] => 7 :: summary22 s | _ => [] end)) s stk
  | Raise s e => record22 keep r ([4; e] ++ (match stk with [] => 7 :: summary22 s | _ => [] end)) s stk
  end.

Definition step_ev22 (keep : bool) (r : rstate22) (e : ev22) : rstate22 :=
  match e with
  | B2 o => settle22 keep r (handler22 o (r2_node r)) (r2_stack r)
  | C2 => match r2_stack r with
          | k :: stk => settle22 keep r (k (r2_node r)) stk
          | [] => {| r2_node := r2_node r; r2_stack := []; r2_h := r2_h r; r2_full := r2_full r; r2_err := 1 |}
          end
  end.

Definition run_log22 (keep : bool) (n0 : node22) (log : list ev22) : rstate22 :=
  fold_left (step_ev22 keep) log {| r2_node := n0; r2_stack := []; r2_h := H0; r2_full := []; r2_err := 0 |}.

Definition case_digest22 (n0 : node22) (log : list ev22) : Z :=
  let r := run_log22 false n0 log in
  if negb (r2_err r =? 0) then -1
  else match r2_stack r with [] => r2_h r | _ => -2 end.
Definition case_full22 (n0 : node22) (log : list ev22) : list Z := r2_full (run_log22 true n0 log).

(* SkelDefs.v — shared-access skeletons of the job passes (C08).
   A skeleton lists, for one loop `for key in list(self.<table>)` of async_job_thread, every access the loop
   body makes to that table with the loop key, as a tree mirroring the control flow.  The skeletons and the rely
   (which tables OTHER methods of the class delete from) are GENERATED from /repo (theories/gen/SkelGen.v). *)
From J1939 Require Import Base.

Inductive akind :=
| KLookup      (* d[k]            : KeyError when k is absent *)
| KDel         (* del d[k]        : KeyError when k is absent; afterwards k is absent *)
| KGet         (* d.get(k) followed by `if x is None: continue` : never faults; leaves the iteration when absent *)
| KPop.        (* d.pop(k, None)  : never faults; afterwards k is absent *)

Inductive sk :=
| SSkip
| SAcc (k : akind) (in_try : bool)      (* in_try: inside try/except KeyError *)
| SSeq2 (a b : sk)
| SAlt (a b : sk)                       (* if / else: exactly one alternative runs *)
| SLoop (body : sk).                    (* while ...: the body runs any number of times *)

Record jloop := { jl_table : Z; jl_body : sk }.
Definition T_RCV : Z := 0.
Definition T_SND : Z := 1.
Definition T_MPG : Z := 2.

(* checker: [deleted] = this thread has already removed the key in this iteration.  An unprotected lookup/del is
   accepted only if nobody else can delete from the table (rely = false) and this thread has not removed the key. *)
Fixpoint safe (rely : bool) (deleted : bool) (s : sk) : option bool :=
  match s with
  | SSkip => Some deleted
  | SAcc KLookup tr => if tr || (negb rely && negb deleted) then Some deleted else None
  | SAcc KDel tr => if tr || (negb rely && negb deleted) then Some true else None
  | SAcc KGet _ => Some deleted
  | SAcc KPop _ => Some true
  | SSeq2 a b => match safe rely deleted a with Some d1 => safe rely d1 b | None => None end
  | SAlt a b => match safe rely deleted a, safe rely deleted b with Some da, Some db => Some (da || db) | _, _ => None end
  | SLoop body =>
      match safe rely deleted body with
      | Some d1 => match safe rely d1 body with Some _ => Some d1 | None => None end
      | None => None
      end
  end.

Definition loop_safe (rely : Z -> bool) (l : jloop) : bool :=
  match safe (rely (jl_table l)) false (jl_body l) with Some _ => true | None => false end.
Definition all_safe (rely : Z -> bool) (ls : list jloop) : bool := forallb (loop_safe rely) ls.

(* Dm14Model.v — executable model of the data-level functions of DM14 memory access: value <-> byte conversion,
   DM16 framing, the server's busy guard and its answer, the key gate.  Payload/field expressions come from
   theories/gen/Dm14Gen.v (generated from /repo).  Tied to the code by item-level correspondence. *)
From J1939 Require Import Base.
From J1939.gen Require Import Dm14Gen.

(* val.to_bytes(size, 'little') *)
Fixpoint le_bytes (size : nat) (v : Z) : list Z :=
  match size with O => [] | S k => v mod 256 :: le_bytes k (v / 256) end.
Definition values_to_bytes (size : nat) (vs : list Z) : list Z := concat (map (le_bytes size) vs).

(* int.from_bytes(chunk, 'little', signed=signed) *)
Definition decode (size : nat) (signed : bool) (chunk : list Z) : Z :=
  let v := le_value chunk in
  if signed && (v >=? 2 ^ (8 * Z.of_nat size - 1)) && (0 <? Z.of_nat size) then v - 2 ^ (8 * Z.of_nat size) else v.
Fixpoint groups (cnt size : nat) (d : list Z) : list (list Z) :=
  match cnt with O => [] | S c => firstn size d :: groups c size (skipn size d) end.
(* _bytes_to_values: len(raw) // size objects *)
Definition bytes_to_values (size : nat) (signed : bool) (raw : list Z) : list Z :=
  map (decode size signed) (groups (length raw / size) size raw).

(* DM16: one length byte (count if <= 7, else 0xFF) then the data; the receiver takes min(data[0], len-1) bytes *)
Definition dm16_frame (bytes : list Z) : list Z :=
  (if Z.of_nat (length bytes) >? dm16_single_frame_max then 255 else Z.of_nat (length bytes)) :: bytes.
Definition dm16_extract (data : list Z) : list Z :=
  match data with
  | [] => []
  | l :: rest => firstn (Z.to_nat (Z.min l (Z.of_nat (length rest)))) rest
  end.

(* the server's view of a running transaction *)
Record srv := { v_sa : option Z; v_addr : option (list Z); v_busy : bool; v_error : Z }.
Definition list_eqb (a b : list Z) : bool := if list_eq_dec Z.eq_dec a b then true else false.
(* parse_dm14: (sa known and different) or (pointer known and different) or busy *)
Definition busy_guard (s : srv) (sa : Z) (data : list Z) : bool :=
  (match v_sa s with Some r => negb (sa =? r) | None => false end) ||
  (match v_addr s with Some a => negb (list_eqb a (firstn 4 (skipn 2 data))) | None => false end) ||
  v_busy s.
(* what it answers then: DM15 operation failed, error = pending error or 0x2 (busy), EDCP 7, addressed to the sender *)
Definition busy_answer (s : srv) (sa : Z) (data : list Z) : Z * list Z :=
  (sa, dm15_SEND_ERROR (dm14_direct data) dm15_status_FAILED (byte_at data 0) 0 (if v_error s =? 0 then 2 else v_error s) 7).
(* the decision of parse_dm14 for a DM14 frame: either the busy answer and NO state change, or acceptance *)
Inductive decision := Busy (dest : Z) (dm15 : list Z) | Accept.
Definition parse_dm14_decision (s : srv) (sa : Z) (data : list Z) : decision :=
  if busy_guard s sa data then let '(d, p) := busy_answer s sa data in Busy d p else Accept.

(* the key gate of the facade (REQUEST_STARTED, seed security on): hand the request to the application only for the right key *)
Inductive gate := ToApplication | InvalidKey (error : Z).
Definition key_gate (key_of_seed : Z -> Z) (seed key : Z) : gate :=
  if key_of_seed seed =? key then ToApplication else InvalidKey 4099.       (* 0x1003 *)

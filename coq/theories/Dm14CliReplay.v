(* Dm14CliReplay.v — evaluation of Dm14Cli on operation sequences for the correspondence check (flattening as in
   harness/dm14cli.py).  No proofs here. *)
From J1939 Require Import Base Dm14Srv Dm14Replay Dm14Cli.
Open Scope Z_scope.

Definition flat_cexn (x : cexn) : list Z :=
  match x with
  | XNoResponse => [1] | XDevice sa e ed => [2; sa; e; ed] | XNoAlgorithm => [3] | XAssert => [4] | XIndex => [5] | XOther => [9]
  end.
Definition flat_cout (o : cout) : list Z := match o with CSend pf d pr data => [1; pf; d; pr] ++ fl data end.
Definition flat_cret (r : cret) : list Z :=
  match r with CRNone => [0] | CRValues v => 1 :: fl v | CRRaise x => 2 :: flat_cexn x end.
Definition flat_item (i : option (list Z)) : list Z := match i with Some l => fl l | None => [NONE_] end.
Definition csummary (s : cli) : list Z :=
  [q_state s; fo (q_dest s); q_direct s; q_addr s; q_objcnt s; q_size s; fb (q_signed s); fb (q_raw s); q_command s] ++
  fl (q_bytes s) ++ flat_item (q_mem s) ++
  (zlen (map (fun _ => 0) (q_dq s)) :: concat (map flat_item (q_dq s))) ++
  (zlen (map (fun _ => 0) (q_xq s)) :: concat (map flat_cexn (q_xq s))) ++ fl (q_subs s).
Definition crecord (s : cli) (os : list cout) (r : cret) : list Z :=
  let o := concat (map flat_cout os) in (zlen o :: o) ++ flat_cret r ++ csummary s.

Fixpoint crun haskey keyf (s : cli) (ops : list cop) : list (list Z) :=
  match ops with
  | [] => []
  | o :: r => let '(s1, os, rt) := cstep haskey keyf s o in crecord s1 os rt :: crun haskey keyf s1 r
  end.

Definition ccase_t := (bool * list cop * list (list Z))%type.
Definition cli_records (k : ccase_t) : list (list Z) := let '(haskey, ops, _) := k in crun haskey the_key init_cli ops.
Fixpoint cmism_from (i : nat) (cs : list ccase_t) : list nat :=
  match cs with
  | [] => []
  | k :: r => let '(_, _, expected) := k in
              if zll_eqb (cli_records k) expected then cmism_from (S i) r else i :: cmism_from (S i) r
  end.
Definition cli_mismatches (cs : list ccase_t) : list nat := cmism_from 0 cs.

(* Replay21.v — correspondence side of Model21: the flat handler log written by harness/stack.py
   ('B' op / 'C') is interpreted against the model; everything the model emits or returns is
   flattened to integers exactly as the harness flattens what the implementation did, and digested. *)
From J1939 Require Import Base CodecGlue Model21.
From J1939.gen Require Import Codec Tp21Gen CaGen.

(* payloads are given literally or as (seed, length) of the LCG shared with harness/scen.py *)
Inductive pl := PLit (l : list Z) | PGen (seed : Z) (n : nat).
Fixpoint lcg (n : nat) (x : Z) : list Z :=
  match n with
  | O => []
  | S m => let x' := (x * 1103515245 + 12345) mod 2147483648 in (Z.land (Z.shiftr x' 16) 255) :: lcg m x'
  end.
Definition pl_bytes (p : pl) : list Z := match p with PLit l => l | PGen s n => lcg n (s mod 2147483648) end.

Fixpoint zremove1 (x : Z) (l : list Z) : list Z :=
  match l with [] => [] | y :: r => if y =? x then r else y :: zremove1 x r end.

Inductive op :=
| OpSubscribe (cid : Z) (f : filt)
| OpUnsubscribe (cid : Z)
| OpAddCa (name : Z) (pref : option Z) (bypass : bool)
| OpCaSubscribe (i : nat) (cid : Z)
| OpCaSubReq (i : nat) (cid : Z)
| OpCaUnsubReq (i : nat) (cid : Z)
| OpAddTimer (now delta cid : Z) (ret : bool)
| OpRemoveTimer (cid : Z)
| OpSend (now dp pf ps prio sa : Z) (data : pl)
| OpNotify (now id : Z) (data : list Z)
| OpListener (now id : Z) (ext remote err : bool) (data : list Z)
| OpJob (now elapsed : Z)      (* elapsed: time the iteration itself took (slow application callbacks); 0 under A2 *)
| OpCaSend (i : nat) (now dp pf ps prio : Z) (data : pl)
| OpCaSendMsg (i : nat) (prio pgn : Z) (data : pl)
| OpCaRequest (i : nat) (now dp pgn dest : Z)
| OpCaStart (i : nat) (now delay : Z)
| OpCaStop (i : nat).

Inductive ev := B (o : op) | Cn.

Definition handler (o : op) (n : node) : act node :=
  match o with
  | OpSubscribe cid f => Done (subscribe n cid f) 0
  | OpUnsubscribe cid => Done (unsubscribe n cid) 0
  | OpAddCa nm pref byp => Done (set_cas n (n_cas n ++ [mk_ca nm pref byp])) 0
  | OpCaSubscribe i cid => Done (subscribe n cid (FCa i)) 0
  | OpCaSubReq i cid =>
      match nth_error (n_cas n) i with
      | Some c => Done (set_ca n i (with_ca_reqs c (c_reqs c ++ [cid]))) 0
      | None => Raise n E_Alias
      end
  | OpCaUnsubReq i cid =>          (* list.remove: the first equal entry goes, ValueError when there is none *)
      match nth_error (n_cas n) i with
      | Some c => if existsb (Z.eqb cid) (c_reqs c) then Done (set_ca n i (with_ca_reqs c (zremove1 cid (c_reqs c)))) 0
                  else Raise n E_Value
      | None => Raise n E_Alias
      end
  | OpAddTimer now delta cid ret => Done (add_timer n now delta (TApp cid) ret) 0
  | OpRemoveTimer cid => Done (remove_timer n (TApp cid)) 0
  | OpSend now dp pf ps prio sa d => send_pgn n now dp pf ps prio sa (pl_bytes d)
  | OpNotify now id d => notify n now id d
  | OpListener now id e r er d => listener n now id e r er d
  | OpJob now el => match job_iter n now with
                 | a => (fix clamp (a : act node) : act node :=
                           match a with
                           | Done s r => Done s (Z.max (r - el) 0)
                           | Raise s e => Raise s e
                           | Emit s o k => Emit s o (fun s' => clamp (k s'))
                           end) a
                 end
  | OpCaSend i now dp pf ps prio d => ca_send_pgn n i now dp pf ps prio (pl_bytes d)
  | OpCaSendMsg i prio pgn d => ca_send_message n i prio pgn (pl_bytes d)
  | OpCaRequest i now dp pgn dest => ca_send_request n i now dp pgn dest
  | OpCaStart i now delay => Done (ca_start n i now delay) 0
  | OpCaStop i => Done (ca_stop n i) 0
  end.

(* ---------------------------------------------------------------- flattening (tags as harness/stack.py) *)
Definition b2z (b : bool) : Z := if b then 1 else 0.
Definition flat_out (o : out) : list Z :=
  match o with
  | OTx f => [1; f_id f; b2z (f_ext f); b2z (f_fd f); len (f_data f)] ++ f_data f
  | OCb cid prio pgn sa d => [2; cid; prio; pgn; sa; len d] ++ d
  | OTimer cid => [5; cid]
  | OReq cid src dst pgn => [6; cid; src; dst; pgn]
  end.

Definition opt (o : option Z) : Z := match o with Some v => v | None => -1 end.
Definition summary (n : node) : list Z :=
  [len (map fst (n_rcv n))] ++
  concat (map (fun kb => let '(k, b) := kb in
     [k; r_pgn b; r_size b; r_num b; r_next b; len (r_data b); r_deadline b; r_src b; r_dst b]) (n_rcv n)) ++
  [len (map fst (n_snd n))] ++
  concat (map (fun kb => let '(k, b) := kb in
     [k; s_pgn b; s_state b; s_deadline b; s_next b; opt (s_waitcts b); s_num b; s_size b]) (n_snd n)) ++
  [Z.of_nat (length (n_timers n))] ++
  concat (map (fun t => [tm_deadline t; tm_delta t]) (n_timers n)) ++
  [Z.of_nat (length (n_subs n)); n_wakes n] ++
  concat (map (fun c => [c_state c; opt (c_addr c); c_ann c; b2z (c_started c)]) (n_cas n)).

(* the harness reports the number of queued wake-up tokens; the model counts puts, the interpreter
   below subtracts what the job thread consumed: one token per OpJob that was not the thread's first
   and followed a wait... this is runtime bookkeeping, so tokens are compared as puts only. *)

(* ---------------------------------------------------------------- interpreter *)
(* wrap-around polynomial hash; small multiplier and a mask instead of mod keep vm_compute fast *)
Definition MULT : Z := 1000003.
Definition INC : Z := 1442695040888963407.
Definition MASK : Z := 2305843009213693951.      (* 2^61 - 1 *)
Definition dstep (h x : Z) : Z := Z.land (MULT * h + Z.land x MASK + INC) MASK.
Definition dig (h : Z) (l : list Z) : Z := fold_left dstep l h.
Definition H0 : Z := 1469598103934665603.

(* advance an act to its next emission or its end, recording what it did.
   acc is either a digest (mode false) or the full flattened output (mode true: reversed chunks) *)
Record rstate := { rs_node : node; rs_stack : list (node -> act node); rs_h : Z; rs_full : list Z; rs_err : Z }.

Definition record (keep : bool) (r : rstate) (l : list Z) (n : node) (stk : list (node -> act node)) : rstate :=
  {| rs_node := n; rs_stack := stk; rs_h := dig (rs_h r) l;
     rs_full := if keep then rs_full r ++ l else []; rs_err := rs_err r |}.

Definition settle (keep : bool) (r : rstate) (a : act node) (stk : list (node -> act node)) : rstate :=
  match a with
  | Emit s o k => record keep r (flat_out o) s (k :: stk)
  | Done s ret =>
      let l := [3; ret] ++ (match stk with [] => 7 :: summary s | _ => [] end) in
      record keep r l s stk
  | Raise s e =>
      let l := [4; e] ++ (match stk with [] => 7 :: summary s | _ => [] end) in
      record keep r l s stk
  end.

Definition step_ev (keep : bool) (r : rstate) (e : ev) : rstate :=
  match e with
  | B o => settle keep r (handler o (rs_node r)) (rs_stack r)
  | Cn => match rs_stack r with
          | k :: stk => settle keep r (k (rs_node r)) stk
          | [] => {| rs_node := rs_node r; rs_stack := []; rs_h := rs_h r; rs_full := rs_full r; rs_err := 1 |}
          end
  end.

Definition run_log (keep : bool) (n0 : node) (log : list ev) : rstate :=
  fold_left (step_ev keep) log {| rs_node := n0; rs_stack := []; rs_h := H0; rs_full := []; rs_err := 0 |}.

(* result of a case: the digest, or -1 / -2 when the log did not fit the model's control flow *)
Definition case_digest (n0 : node) (log : list ev) : Z :=
  let r := run_log false n0 log in
  if negb (rs_err r =? 0) then -1
  else match rs_stack r with [] => rs_h r | _ => -2 end.
Definition case_full (n0 : node) (log : list ev) : list Z := rs_full (run_log true n0 log).

(* Sae22.v — an independent statement of the SAE J1939-22 (CAN FD) transport frame layouts, written from the
   standard's tables in terms of / and mod and explicit little-endian byte lists (NOT from the code's shifts and
   masks), with a decoder and a reassembler of its own.  Nothing here mentions a generated definition. *)
From J1939 Require Import Base Sae21.

Definition sae_fd_cm_pgn (da : Z) : Z := 19712 + da.      (* 0x4D00 | DA *)
Definition sae_fd_dt_pgn (da : Z) : Z := 19968 + da.      (* 0x4E00 | DA *)

(* FD.TP.CM, 12 bytes: byte 1 = control type (bits 0-3) + session number (bits 4-7); bytes 2-4 total message
   size; bytes 5-7 total number of segments (CTS: next segment to send); byte 8, byte 9 per control type;
   bytes 10-12 the PGN of the packeted message; every multi-byte field least significant byte first. *)
Inductive cm22 :=
| RTS22 (session size nseg limit pgn : Z)     (* control 0: byte 8 = max segments per CTS, byte 9 = assurance data type 0 *)
| CTS22 (session next count pgn : Z)          (* control 1: size = FFFFFF, byte 8 = segments that can be sent, byte 9 = request code 0 *)
| EOMS22 (session size nseg pgn : Z)          (* control 2: byte 8 = assurance data size 0, byte 9 = assurance data type 0 *)
| EOMA22 (session size nseg pgn : Z)          (* control 3: bytes 8, 9 = FF *)
| BAM22 (session size nseg pgn : Z)           (* control 4: byte 8 = FF, byte 9 = assurance data type 0 *)
| ABORT22 (session reason pgn : Z).           (* control 15: size, segments = FFFFFF, byte 8 = FF, byte 9 = reason *)

Definition enc_cm22 (m : cm22) : list Z :=
  match m with
  | RTS22 s sz n l p   => [0 + 16 * s] ++ le3 sz ++ le3 n ++ [l; 0] ++ le3 p
  | CTS22 s x c p      => [1 + 16 * s] ++ [255; 255; 255] ++ le3 x ++ [c; 0] ++ le3 p
  | EOMS22 s sz n p    => [2 + 16 * s] ++ le3 sz ++ le3 n ++ [0; 0] ++ le3 p
  | EOMA22 s sz n p    => [3 + 16 * s] ++ le3 sz ++ le3 n ++ [255; 255] ++ le3 p
  | BAM22 s sz n p     => [4 + 16 * s] ++ le3 sz ++ le3 n ++ [255; 0] ++ le3 p
  | ABORT22 s r p      => [15 + 16 * s] ++ [255; 255; 255] ++ [255; 255; 255] ++ [255; r] ++ le3 p
  end.

Definition v3 (a b c : Z) : Z := a + 256 * b + 65536 * c.

Definition dec_cm22 (d : list Z) : option cm22 :=
  match d with
  | [b0; s0; s1; s2; n0; n1; n2; b7; b8; p0; p1; p2] =>
      let c := b0 mod 16 in let s := b0 / 16 in
      let sz := v3 s0 s1 s2 in let n := v3 n0 n1 n2 in let pgn := v3 p0 p1 p2 in
      if c =? 0 then Some (RTS22 s sz n b7 pgn)
      else if c =? 1 then Some (CTS22 s n b7 pgn)
      else if c =? 2 then Some (EOMS22 s sz n pgn)
      else if c =? 3 then Some (EOMA22 s sz n pgn)
      else if c =? 4 then Some (BAM22 s sz n pgn)
      else if c =? 15 then Some (ABORT22 s b8 pgn)
      else None
  | _ => None
  end.

Definition r24 (v : Z) : Prop := 0 <= v < 16777216.
Definition cm22_wf (m : cm22) : Prop :=
  match m with
  | RTS22 s sz n l p => 0 <= s < 16 /\ r24 sz /\ r24 n /\ r24 p
  | CTS22 s x c p => 0 <= s < 16 /\ r24 x /\ r24 p
  | EOMS22 s sz n p => 0 <= s < 16 /\ r24 sz /\ r24 n /\ r24 p
  | EOMA22 s sz n p => 0 <= s < 16 /\ r24 sz /\ r24 n /\ r24 p
  | BAM22 s sz n p => 0 <= s < 16 /\ r24 sz /\ r24 n /\ r24 p
  | ABORT22 s r p => 0 <= s < 16 /\ r24 p
  end.

Lemma v3_le3 v : r24 v -> v3 (v mod 256) ((v / 256) mod 256) ((v / 65536) mod 256) = v.
Proof. unfold r24, v3. lia. Qed.

Lemma dec_enc_cm22 m : cm22_wf m -> dec_cm22 (enc_cm22 m) = Some m.
Proof.
  destruct m; cbn [cm22_wf enc_cm22 le3 app dec_cm22]; intros H; cbv zeta;
    repeat match goal with H : _ /\ _ |- _ => destruct H end;
    match goal with
    | |- context [(?c + 16 * ?s) mod 16] =>
        replace ((c + 16 * s) mod 16) with c by lia; replace ((c + 16 * s) / 16) with s by lia
    end;
    rewrite ?v3_le3 by assumption;
    match goal with |- (if ?a =? ?b then _ else _) = _ => idtac end;
    repeat match goal with
    | |- context [Z.eqb ?a ?b] => let v := eval vm_compute in (Z.eqb a b) in change (Z.eqb a b) with v
    end; cbv iota; reflexivity.
Qed.

(* the legal CAN FD payload lengths, and the least one that holds n bytes (n <= 64) *)
Definition fd_fit (n : Z) : Z :=
  if n <=? 8 then n else if n <=? 12 then 12 else if n <=? 16 then 16 else if n <=? 20 then 20
  else if n <=? 24 then 24 else if n <=? 32 then 32 else if n <=? 48 then 48 else 64.

(* FD.TP.DT: byte 1 = data transfer format indicator 0 (bits 0-3) + session number (bits 4-7); bytes 2-4 the
   1-based segment number; up to 60 data bytes; filled with 0xFF up to the next legal CAN FD length *)
Definition enc_dt22 (session segnum : Z) (seg : list Z) : list Z :=
  let body := [16 * session] ++ le3 segnum ++ seg in
  body ++ repeat 255 (Z.to_nat (fd_fit (Z.of_nat (length body))) - length body).

Definition dec_dt22 (d : list Z) : option (Z * Z * Z * list Z) :=      (* dtfi, session, segment number, data incl. padding *)
  match d with
  | b0 :: n0 :: n1 :: n2 :: rest => Some (b0 mod 16, b0 / 16, v3 n0 n1 n2, rest)
  | _ => None
  end.

Lemma dec_enc_dt22 s k seg : 0 <= s < 16 -> r24 k ->
  exists pad, dec_dt22 (enc_dt22 s k seg) = Some (0, s, k, seg ++ pad) /\ Forall (fun b => b = 255) pad.
Proof.
  intros Hs Hk. unfold enc_dt22. cbn [le3 app dec_dt22]. eexists. split.
  - replace ((16 * s) mod 16) with 0 by lia. replace ((16 * s) / 16) with s by lia. rewrite v3_le3 by assumption. reflexivity.
  - apply Forall_forall. intros x Hx. apply repeat_spec in Hx. exact Hx.
Qed.

(* an independent receiver: given the announcement and the data frames in order, the message is the first
   `size` bytes of the concatenated segment data (each frame carries 60 bytes except the last; padding beyond
   the announced size is dropped) — provided the frames are numbered 1, 2, ... of the announced session *)
Fixpoint collect22 (session : Z) (next : Z) (frames : list (list Z)) : option (list Z) :=
  match frames with
  | [] => Some []
  | d :: r =>
      match dec_dt22 d with
      | Some (dtfi, s, k, body) =>
          if (dtfi =? 0) && (s =? session) && (k =? next)
          then match collect22 session (next + 1) r with Some t => Some (body ++ t) | None => None end
          else None
      | None => None
      end
  end.
Definition reassemble22 (session size : Z) (frames : list (list Z)) : option (list Z) :=
  match collect22 session 1 frames with
  | Some all => if Z.of_nat (length all) <? size then None else Some (firstn (Z.to_nat size) all)
  | None => None
  end.

(* Items.v — flat (list Z -> list Z) wrappers around the generated expression-level definitions,
   used only by the item-level correspondence check (the same wrappers exist in harness/items.py
   around the real Python code). *)
From J1939 Require Import Base CodecGlue.
From J1939.gen Require Import Codec Tp21Gen CaGen DiagGen.
From J1939 Require Import Dm1Model Dm14Model.
From J1939.gen Require Import Dm14Gen.

Definition b2z (b : bool) : Z := if b then 1 else 0.
Definition flat_frame (f : frame) : list Z :=
  [f_id f; b2z (f_ext f); b2z (f_fd f); Z.of_nat (length (f_data f))] ++ f_data f.
Definition flat3 (t : Z * Z * Z) : list Z := let '(a, b, c) := t in [a; b; c].
Definition flat_name (f : name_fields) : list Z :=
  let '(a, b, c, d, e, r, g, h, i, j) := f in [a; b; c; d; e; r; g; h; i; j].
Definition arg (l : list Z) (i : nat) : Z := nth i l 0.

Definition item_mid_of (l : list Z) := [mid_can_id_of (arg l 0) (arg l 1) (arg l 2)].
Definition item_mid_raw (l : list Z) := [mid_can_id (arg l 0) (arg l 1) (arg l 2)].
Definition item_mid_parse (l : list Z) := flat3 (mid_parse (arg l 0)).
Definition item_pgn (l : list Z) :=
  [pgn_value_of (arg l 0) (arg l 1) (arg l 2); b2z (pgn_is_pdu1_of (arg l 0) (arg l 1) (arg l 2));
   b2z (pgn_is_pdu2_of (arg l 0) (arg l 1) (arg l 2))] ++ flat3 (pgn_mk (arg l 0) (arg l 1) (arg l 2)).
Definition item_pgn_from_mid (l : list Z) :=
  let '(dp, pf, ps) := pgn_from_mid (mid_pgn_of_id (arg l 0)) in
  [dp; pf; ps; pgn_value dp pf ps; b2z (pgn_is_pdu1 pf); b2z (pgn_is_pdu2 pf)].
Definition item_name_value (l : list Z) :=
  let f := name_ctor_value (arg l 0) in flat_name f ++ [name_value_f f] ++ name_bytes (name_value_f f).
Definition item_name_bytes (l : list Z) :=
  let f := name_ctor_bytes l in flat_name f ++ [name_value_f f] ++ name_bytes (name_value_f f).
Definition item_name_fields (l : list Z) :=
  let f := name_ctor_fields (arg l 0) (arg l 1) (arg l 2) (arg l 3) (arg l 4) (arg l 5) (arg l 6) (arg l 7) (arg l 8) in
  flat_name f ++ [name_value_f f] ++ name_bytes (name_value_f f).

Definition item_tp21_hash (l : list Z) := [tp21_hash (arg l 0) (arg l 1)].
Definition item_tp21_dt (l : list Z) := flat_frame (tp21_dt (arg l 0) (arg l 1) (skipn 2 l)).
Definition item_tp21_abort (l : list Z) := flat_frame (tp21_abort (arg l 0) (arg l 1) (arg l 2) (arg l 3)).
Definition item_tp21_cts (l : list Z) := flat_frame (tp21_cts (arg l 0) (arg l 1) (arg l 2) (arg l 3) (arg l 4)).
Definition item_tp21_eom_ack (l : list Z) := flat_frame (tp21_eom_ack (arg l 0) (arg l 1) (arg l 2) (arg l 3) (arg l 4)).
Definition item_tp21_rts (l : list Z) := flat_frame (tp21_rts (arg l 0) (arg l 1) (arg l 2) (arg l 3) (arg l 4) (arg l 5) (arg l 6)).
Definition item_tp21_bam (l : list Z) := flat_frame (tp21_bam (arg l 0) (arg l 1) (arg l 2) (arg l 3) (arg l 4)).

Definition item_ca_request (l : list Z) :=
  ca_request_payload (arg l 0) ++ [ca_request_decode (ca_request_payload (arg l 0))].
Definition item_ca_claimed (l : list Z) := flat_frame (ca_address_claimed (arg l 0) (skipn 1 l)).

Definition item_dtc_pack (l : list Z) :=
  let d := dtc_pack (arg l 0) (arg l 1) (arg l 2) in d :: dm1_dtc_bytes d.
Definition item_dtc_unpack (l : list Z) :=
  let d := dm1_dtc_join (arg l 0) (arg l 1) (arg l 2) (arg l 3) in
  let '(s, f, o, c) := dtc_unpack d in [d; s; f; o; c].
Definition item_lamp_data (l : list Z) := lamp_get_data (arg l 0) (arg l 1) (arg l 2) (arg l 3).
Definition item_lamp_status (l : list Z) := [lamp_get_status (arg l 0) (arg l 1)].
Definition item_dm22 (l : list Z) := dm22_payload (arg l 0) (arg l 1) (arg l 2).

(* DM1: input = 4 lamp states, then (spn, fmi, oc) triples; output = payload, or for parse: 1/0, lamps, triples *)
Fixpoint triples (l : list Z) : list dtc :=
  match l with s :: f :: o :: r => {| d_spn := s; d_fmi := f; d_oc := o |} :: triples r | _ => [] end.
Definition item_dm1_build (l : list Z) :=
  let p := dm1_build (arg l 0) (arg l 1) (arg l 2) (arg l 3) (triples (skipn 4 l)) in dm1_priority p :: p.
Definition item_dm1_parse (l : list Z) :=
  match dm1_parse l with
  | None => [0]
  | Some (lamps, ds) => 1 :: lamps ++ concat (map (fun d => [d_spn d; d_fmi d; d_oc d]) ds)
  end.

(* DM14 *)
Definition item_dm14_payload (l : list Z) := dm14_payload (arg l 0) (arg l 1) (arg l 2) (arg l 3) (arg l 4).
Definition item_dm14_fields (l : list Z) :=
  [dm14_object_count l; dm14_command l; dm14_pointer_type l; dm14_direct l; dm14_access_level l; le_value (firstn 4 (skipn 2 l))].
Definition item_dm15 (l : list Z) :=
  let k := arg l 0 in
  let f := if k =? 0 then dm15_WAIT_FOR_KEY else if k =? 1 then dm15_SEND_PROCEED else if k =? 2 then dm15_SEND_OPERATION_COMPLETE else dm15_SEND_ERROR in
  f (arg l 1) (arg l 2) (arg l 3) (arg l 4) (arg l 5) (arg l 6).
Definition item_dm15_fields (l : list Z) := [dm15_seed l; dm15_status l; dm15_error l; dm15_edcp l; dm15_length l].
Definition item_dm14_v2b (l : list Z) := values_to_bytes (Z.to_nat (arg l 0)) (skipn 1 l).
Definition item_dm14_b2v (l : list Z) := bytes_to_values (Z.to_nat (arg l 0)) (negb (arg l 1 =? 0)) (skipn 2 l).
Definition item_dm16 (l : list Z) := dm16_frame l ++ [-1] ++ dm16_extract (dm16_frame l).
Definition item_dm14_guard (l : list Z) :=
  (* input: sa_known r, addr_known a0..a3, busy, error, sender, then the 8 DM14 bytes *)
  let s := {| v_sa := if arg l 0 =? 0 then None else Some (arg l 1);
              v_addr := if arg l 2 =? 0 then None else Some [arg l 3; arg l 4; arg l 5; arg l 6];
              v_busy := negb (arg l 7 =? 0); v_error := arg l 8 |} in
  match parse_dm14_decision s (arg l 9) (skipn 10 l) with
  | Busy d p => 1 :: d :: p
  | Accept => [0]
  end.

(* comparison, computed inside Coq: indices of cases whose output differs *)
Definition zlist_eqb (a b : list Z) : bool := if list_eq_dec Z.eq_dec a b then true else false.
Fixpoint mismatches_from (i : nat) (f : list Z -> list Z) (cases : list (list Z * list Z)) : list nat :=
  match cases with
  | [] => []
  | (x, y) :: r => if zlist_eqb (f x) y then mismatches_from (S i) f r else i :: mismatches_from (S i) f r
  end.
Definition mismatches := mismatches_from 0.

(* Dm14Replay.v — evaluation of Dm14Srv on operation sequences for the correspondence check: the per-operation record
   (outputs, return / exception, summary of every field and of the subscriber list) flattened to integers exactly as
   harness/dm14srv.py flattens what the real objects did.  No proofs here. *)
From J1939 Require Import Base Dm14Srv.
Open Scope Z_scope.

Definition NONE_ : Z := -1.
Definition fl (l : list Z) : list Z := zlen l :: l.
Definition fo (o : option Z) : Z := match o with Some v => v | None => NONE_ end.
Definition fol (o : option (list Z)) : list Z := match o with Some l => fl l | None => [NONE_] end.
Definition fb (b : bool) : Z := if b then 1 else 0.

Definition flat_out (o : sout) : list Z :=
  match o with
  | SSend pf dest prio data => [1; pf; dest; prio] ++ fl data
  | SProceedFn c a p l oc k sa acc sd => [2; c; a; p; l; oc; k; sa; acc; sd]
  | SNotify => [3]
  end.

Definition flat_ret (r : rret) : list Z :=
  match r with RetNone => [0] | RetData d => 1 :: fl d | RetRaise x => [2; x] end.

Definition summary (s : srv) : list Z :=
  [fb (v_busy s); fo (v_sa s); v_state s] ++ fol (v_addr s) ++ [v_length s; fb (v_proceed s)] ++
  fl (v_data s) ++ [v_error s; v_edcp s; v_status s; v_direct s] ++
  [fo (v_command s); fo (v_ptype s); fo (v_objcnt s); fo (v_access s); fo (v_seed s); fo (v_key s)] ++
  (zlen (concat (map (fun _ => [0]) (v_queue s))) :: concat (map fl (v_queue s))) ++
  [a_state s] ++ fl (subs s) ++ [zlen (seeds s); zlen (map fb (answers s))].

Definition record (s' : srv) (os : list sout) (r : rret) : list Z :=
  let o := concat (map flat_out os) in (zlen o :: o) ++ flat_ret r ++ summary s'.

Fixpoint run_ops (c : cfg) (s : srv) (ops : list sop) : list (list Z) :=
  match ops with
  | [] => []
  | o :: r => let '(s1, os, rt) := sstep c s o in record s1 os rt :: run_ops c s1 r
  end.

Definition the_key (seed : Z) : Z := Z.lxor seed 65535.

Definition case_t := (bool * bool * list Z * list bool * list sop * list (list Z))%type.
Definition srv_records (k : case_t) : list (list Z) :=
  let '(seedsec, hasproceed, sds, ans, ops, _) := k in
  run_ops {| c_seedsec := seedsec; c_hasproceed := hasproceed; c_key := the_key |} (init_srv sds ans) ops.

Fixpoint zll_eqb (a b : list (list Z)) : bool :=
  match a, b with
  | [], [] => true
  | x :: r, y :: s => zlist_eqb x y && zll_eqb r s
  | _, _ => false
  end.

Fixpoint mism_from (i : nat) (cs : list case_t) : list nat :=
  match cs with
  | [] => []
  | k :: r => let '(_, _, _, _, _, expected) := k in
              if zll_eqb (srv_records k) expected then mism_from (S i) r else i :: mism_from (S i) r
  end.
Definition srv_mismatches (cs : list case_t) : list nat := mism_from 0 cs.

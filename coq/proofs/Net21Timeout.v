(* Net21Timeout.v — C06 end to end: a peer that goes silent.  In the closed loop of two model nodes (Net21.v):
   (1) B does not answer at all (it does not accept the destination address): A's RTS stays unanswered, the network's clock
       advances by exactly T3 = 1.25 s, A's job thread then sends the Connection Abort (timeout) and releases the session;
       nothing was delivered anywhere and nothing is left;
   (2) A does not hear B's answers: B opens a receive session and answers with a CTS that A never sees; after exactly
       1.25 s both job threads give up in the same pass — A aborts its send session (T3), B aborts its receive session (T2) —
       nothing was delivered and nothing is left on either side. *)
From J1939 Require Import Base CodecGlue Model21.
From J1939.gen Require Import Codec Tp21Gen CaGen.
From J1939P Require Import CodecProofs Flat Tp21Seg Tp21Resp Tp21Orig Net21 Net21Proofs.
Local Arguments Z.add : simpl never.
Local Arguments Z.sub : simpl never.
Local Arguments Z.mul : simpl never.

Ltac inner tac :=
  match goal with |- context [step (Build_net ?a ?b ?x ?y ?c ?e1 ?e2 ?w1 ?w2)] => tac (Build_net a b x y c e1 e2 w1 w2) end.

Section Silent.
  Variables (prio sa dest dp pf : Z) (p : list Z) (t0 : Z) (A0 B0 : node).
  Hypothesis Hprio : 0 <= prio < 8.
  Hypothesis Hsa : 0 <= sa < 255.
  Hypothesis Hdest : 0 <= dest < 255.
  Hypothesis Hpf : 0 <= pf < 240.
  Hypothesis Hdp : 0 <= dp < 2.
  Hypothesis Hsize : 8 < len p <= 1785.
  Hypothesis Ht0 : 0 < t0.
  Let pv := dp * 65536 + pf * 256.
  Let num := Z.of_nat (npk (length p)).
  Let h := tp21_hash sa dest.
  Hypothesis HA : n_snd A0 = [] /\ n_rcv A0 = [] /\ n_timers A0 = [].
  Hypothesis HB : n_snd B0 = [] /\ n_rcv B0 = [] /\ n_timers B0 = [].

  Let rtsf : frame := tp21_rts sa dest prio pv (len p) num (Z.min (n_maxp A0) num).
  Let abortA : frame := tp21_abort sa dest tp21_reason_TIMEOUT pv.
  Let sb0 : sbuf := mk_sbuf pv prio (len p) num p ST_WAITING_CTS (t0 + tp21_T3) sa dest (Some 0).
  Let A1 : node := wake (set_snd A0 [(h, sb0)]).
  Let s0 : net := net_send (net0 A0 B0 t0) dp pf dest prio sa p.

  Lemma s0_eq : s0 = {| na := A1; nb := B0; qa := []; qb := [rtsf]; clk := t0; eva := []; evb := []; wab := [rtsf]; wba := [] |}.
  Proof.
    destruct HA as (As & Ar & At).
    unfold s0, net_send, net0. cbn [na nb qa qb clk eva evb wab wba].
    rewrite send_pgn_rts; try assumption; try lia.
    2:{ rewrite As. reflexivity. }
    replace (num_packets (len p)) with num by (unfold num, len; symmetry; apply num_packets_npk).
    cbn [txs flat_map evs filter app]. rewrite As. reflexivity.
  Qed.

  (* a node that does not accept the destination ignores the frame completely *)
  Lemma deaf n t f prio' dst src pf' : accepts n dst = false ->
    0 <= prio' < 8 -> 0 <= pf' < 240 -> 0 <= dst < 256 -> 0 <= src < 256 ->
    f_id f = mid_can_id_of prio' (pgn_value_of 0 pf' dst) src -> handle n t f = (n, []).
  Proof.
    intros Hacc H1 H2 H3 H4 Hid. unfold handle. rewrite Hid. rewrite notify_pdu1 by assumption. rewrite Hacc. reflexivity.
  Qed.

  (* A's job pass with the RTS unanswered: before T3 nothing, at T3 the abort and the release *)
  Lemma jobA_before a c : n_rcv a = [] -> n_timers a = [] -> n_snd a = [(h, sb0)] ->
    0 < c < t0 + tp21_T3 -> t0 + tp21_T3 < c + 5000000 ->
    flat (job_iter a c) = (a, [], RDone (t0 + tp21_T3 - c)).
  Proof.
    intros Hr Ht Hs Hc Hd.
    unfold job_iter, dll_job. rewrite Hr. cbn [tkeys map rcv_pass]. rewrite Hs. cbn [tkeys map fst snd_pass].
    rewrite Hs. cbn [tget]. rewrite Z.eqb_refl. cbn [sb0 mk_sbuf s_deadline].
    assert ((t0 + tp21_T3 =? 0) = false) as -> by lia. assert ((t0 + tp21_T3 >? c) = true) as -> by lia.
    assert ((c + 5000000 >? t0 + tp21_T3) = true) as -> by lia. rewrite Ht. reflexivity.
  Qed.
  Lemma jobA_timeout a c : n_rcv a = [] -> n_timers a = [] -> n_snd a = [(h, sb0)] -> t0 + tp21_T3 <= c ->
    flat (job_iter a c) = (set_snd a [], [OTx abortA], RDone (c + 5000000 - c)).
  Proof.
    intros Hr Ht Hs Hc.
    unfold job_iter, dll_job. rewrite Hr. cbn [tkeys map rcv_pass]. rewrite Hs. cbn [tkeys map fst snd_pass].
    rewrite Hs. cbn [tget]. rewrite Z.eqb_refl. cbn [sb0 mk_sbuf s_deadline s_state s_src s_dst s_pgn].
    assert ((t0 + tp21_T3 =? 0) = false) as -> by (unfold tp21_T3; lia).
    assert ((t0 + tp21_T3 >? c) = false) as -> by lia.
    change (ST_WAITING_CTS =? ST_WAITING_CTS) with true. cbv iota. cbn [flat].
    unfold tmem. rewrite Hs. cbn [tget tdel]. rewrite !Z.eqb_refl. cbn [snd_pass n_timers set_snd]. rewrite Ht.
    reflexivity.
  Qed.

  Lemma A1_facts : n_rcv A1 = [] /\ n_timers A1 = [] /\ n_snd A1 = [(h, sb0)].
  Proof. destruct HA as (As & Ar & At). repeat split; assumption || reflexivity. Qed.

  (* (1) B does not answer *)
  Theorem silent_responder : accepts B0 dest = false ->
    let s := steps 4 s0 in
    qa s = [] /\ qb s = [] /\ n_snd (na s) = [] /\ n_rcv (na s) = [] /\ nb s = B0 /\
    evb s = [] /\ eva s = [] /\ wab s = [rtsf; abortA] /\ wba s = [] /\ clk s = t0 + tp21_T3.
  Proof.
    intros Hacc. destruct HB as (Bs & Br & Bt). destruct A1_facts as (Hr & Ht & Hs).
    rewrite s0_eq. cbn [steps].
    (* B ignores the RTS *)
    inner ltac:(fun S => rewrite (step_b S rtsf []) by reflexivity). cbn [na nb qa qb clk eva evb wab wba].
    rewrite (deaf B0 t0 rtsf prio dest sa 236 Hacc) by (try reflexivity; lia). cbn [txs flat_map evs filter app].
    (* nothing to do: the clock advances to A's deadline *)
    inner ltac:(fun S => rewrite (step_idle S) by reflexivity). cbn [na nb qa qb clk eva evb wab wba].
    rewrite (jobA_before A1 t0 Hr Ht Hs) by (unfold tp21_T3; lia). rewrite (job_idle B0 Br Bs Bt).
    cbn [txs flat_map evs filter app sleep_of andb]. rewrite !Z.eqb_refl. cbn [andb].
    assert (Z.max 0 (Z.min (t0 + tp21_T3 - t0) (t0 + 5000000 - t0)) = tp21_T3) as -> by (unfold tp21_T3; lia).
    (* the job thread gives up *)
    inner ltac:(fun S => rewrite (step_idle S) by reflexivity). cbn [na nb qa qb clk eva evb wab wba].
    rewrite (jobA_timeout A1 (t0 + tp21_T3) Hr Ht Hs) by lia. rewrite (job_idle B0 Br Bs Bt).
    cbn [txs flat_map evs filter app andb].
    (* B ignores the abort *)
    inner ltac:(fun S => rewrite (step_b S abortA []) by reflexivity). cbn [na nb qa qb clk eva evb wab wba].
    rewrite (deaf B0 _ abortA 7 dest sa 236 Hacc) by (try reflexivity; lia). cbn [txs flat_map evs filter app].
    cbn [n_snd n_rcv set_snd]. repeat split; try reflexivity; try exact Hr. cbn [clk]. lia.
  Qed.

  (* (2) A does not hear B *)
  Let g0 : Z := Z.min (n_maxp B0) (Z.min (Z.min (n_maxp A0) num) num).
  Let rb0 : rbuf :=
    {| r_pgn := pv; r_size := len p; r_num := num; r_next := g0; r_maxrec := Some g0; r_data := [];
       r_deadline := t0 + tp21_T2; r_src := sa; r_dst := dest |}.
  Let B1 : node := wake (set_rcv B0 [(h, rb0)]).
  Let ctsf : frame := tp21_cts dest sa g0 1 pv.
  Let abortB : frame := tp21_abort dest sa tp21_reason_TIMEOUT pv.

  Lemma jobB_before b c : n_snd b = [] -> n_timers b = [] -> n_rcv b = [(h, rb0)] ->
    0 < c < t0 + tp21_T2 -> t0 + tp21_T2 < c + 5000000 ->
    flat (job_iter b c) = (b, [], RDone (t0 + tp21_T2 - c)).
  Proof.
    intros Hs Ht Hr Hc Hd. unfold job_iter, dll_job. rewrite Hr. cbn [tkeys map fst rcv_pass]. rewrite Hr. cbn [tget].
    rewrite Z.eqb_refl. cbn [rb0 r_deadline].
    assert ((t0 + tp21_T2 =? 0) = false) as -> by lia. assert ((t0 + tp21_T2 >? c) = true) as -> by lia.
    assert ((c + 5000000 >? t0 + tp21_T2) = true) as -> by lia. rewrite Hs. cbn [tkeys map snd_pass]. rewrite Ht. reflexivity.
  Qed.
  Lemma jobB_timeout b c : n_snd b = [] -> n_timers b = [] -> n_rcv b = [(h, rb0)] -> t0 + tp21_T2 <= c ->
    flat (job_iter b c) = (set_rcv b [], [OTx abortB], RDone (c + 5000000 - c)).
  Proof.
    intros Hs Ht Hr Hc. unfold job_iter, dll_job. rewrite Hr. cbn [tkeys map fst rcv_pass]. rewrite Hr. cbn [tget].
    rewrite Z.eqb_refl. cbn [rb0 r_deadline r_dst r_src r_pgn].
    assert ((t0 + tp21_T2 =? 0) = false) as -> by (unfold tp21_T2; lia).
    assert ((t0 + tp21_T2 >? c) = false) as -> by lia.
    assert ((dest =? addr_GLOBAL) = false) as -> by (unfold addr_GLOBAL; lia). cbn [negb flat].
    rewrite Hr. cbn [tdel]. rewrite Z.eqb_refl. cbn [n_snd set_rcv]. rewrite Hs. cbn [tkeys map snd_pass n_timers set_rcv].
    rewrite Ht. reflexivity.
  Qed.

  (* a Connection Abort for a pair on which the node has no send session changes nothing *)
  Lemma abort_ignored b c : accepts b dest = true -> n_snd b = [] -> handle b c abortA = (b, []).
  Proof.
    intros Hacc Hs. unfold handle. change (f_id abortA) with (mid_can_id_of 7 (pgn_value_of 0 236 dest) sa).
    rewrite notify_tp_cm by (try assumption; lia).
    unfold process_tp_cm. cbn [abortA tp21_abort f_data length Nat.ltb Nat.leb]. unfold tp21_cm_control, byte_at. cbn [nth].
    change (255 =? tp21_cm_RTS) with false. change (255 =? tp21_cm_CTS) with false. change (255 =? tp21_cm_EOM_ACK) with false.
    change (255 =? tp21_cm_BAM) with false. change (255 =? tp21_cm_ABORT) with true. cbv iota. rewrite Hs. reflexivity.
  Qed.

  Theorem silent_originator : accepts A0 sa = false -> accepts B0 dest = true -> 1 <= n_maxp A0 -> 1 <= n_maxp B0 ->
    let s := steps 6 s0 in
    qa s = [] /\ qb s = [] /\ n_snd (na s) = [] /\ n_rcv (na s) = [] /\ n_snd (nb s) = [] /\ n_rcv (nb s) = [] /\
    evb s = [] /\ eva s = [] /\ wab s = [rtsf; abortA] /\ wba s = [ctsf; abortB] /\ clk s = t0 + 1250000.
  Proof.
    intros HaccA HaccB HmA HmB. destruct HB as (Bs & Br & Bt). destruct A1_facts as (Hr & Ht & Hs).
    assert (Hnum : 2 <= num <= 255) by (unfold num, npk; unfold len in Hsize; lia).
    rewrite s0_eq. cbn [steps].
    (* B answers the RTS *)
    inner ltac:(fun S => rewrite (step_b S rtsf []) by reflexivity). cbn [na nb qa qb clk eva evb wab wba].
    assert (HhB : handle B0 t0 rtsf = (B1, [OTx ctsf])).
    { unfold handle, rtsf.
      rewrite (responder_rts prio sa dest pv (Z.min (n_maxp A0) num) p t0);
        first [assumption | lia | (unfold pv; lia) | (rewrite Br; reflexivity)]. }
    rewrite HhB. cbn [txs flat_map evs filter app].
    (* A does not hear the CTS *)
    inner ltac:(fun S => rewrite (step_a S ctsf []) by reflexivity). cbn [na nb qa qb clk eva evb wab wba].
    rewrite (deaf A1 t0 ctsf 7 sa dest 236) by (try reflexivity; try lia; exact HaccA). cbn [txs flat_map evs filter app].
    (* both wait: the clock advances by 1.25 s *)
    inner ltac:(fun S => rewrite (step_idle S) by reflexivity). cbn [na nb qa qb clk eva evb wab wba].
    rewrite (jobA_before A1 t0 Hr Ht Hs) by (unfold tp21_T3; lia).
    rewrite (jobB_before B1 t0 Bs Bt eq_refl) by (unfold tp21_T2; lia).
    cbn [txs flat_map evs filter app sleep_of andb]. rewrite !Z.eqb_refl. cbn [andb].
    assert (Z.max 0 (Z.min (t0 + tp21_T3 - t0) (t0 + tp21_T2 - t0)) = 1250000) as -> by (unfold tp21_T3, tp21_T2; lia).
    (* both give up in the same pass *)
    inner ltac:(fun S => rewrite (step_idle S) by reflexivity). cbn [na nb qa qb clk eva evb wab wba].
    rewrite (jobA_timeout A1 (t0 + 1250000) Hr Ht Hs) by (unfold tp21_T3; lia).
    rewrite (jobB_timeout B1 (t0 + 1250000) Bs Bt eq_refl) by (unfold tp21_T2; lia).
    cbn [txs flat_map evs filter app andb].
    (* the two aborts cross; neither finds anything to end *)
    inner ltac:(fun S => rewrite (step_b S abortA []) by reflexivity). cbn [na nb qa qb clk eva evb wab wba].
    rewrite (abort_ignored (set_rcv B1 []) _ HaccB Bs). cbn [txs flat_map evs filter app].
    inner ltac:(fun S => rewrite (step_a S abortB []) by reflexivity). cbn [na nb qa qb clk eva evb wab wba].
    rewrite (deaf (set_snd A1 []) _ abortB 7 sa dest 236) by (try reflexivity; try lia; exact HaccA).
    cbn [txs flat_map evs filter app n_snd n_rcv set_snd set_rcv wake].
    repeat split; try reflexivity; try assumption. cbn [clk]. lia.
  Qed.
End Silent.

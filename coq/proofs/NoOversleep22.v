(* NoOversleep22.v — C06/C09/C11 (J1939-22): the FD job thread never sleeps past a deadline: after one pass of the FD
   transport layer the wake-up time handed on is not later than the deadline of ANY receive session, multi-PG buffer or
   originator session still in its table. *)
From J1939 Require Import Base CodecGlue Model21 Model22.
From J1939.gen Require Import Codec Tp21Gen CaGen Tp22Gen.
From J1939P Require Import CodecProofs Flat MpgProofs PoolProofs.
Local Arguments Z.add : simpl never.
Local Arguments Z.sub : simpl never.
Local Arguments Z.mul : simpl never.

Definition post22 (P : node22 -> Z -> Prop) (a : act node22) : Prop :=
  match flat22 a with (m', _, RDone r) => P m' r | (_, _, RRaise _) => True end.
Lemma post22_emit P s o k : post22 P (k s) -> post22 P (Emit s o k).
Proof. unfold post22. cbn [flat22]. destruct (flat22 (k s)) as [[s' os] r]. auto. Qed.
Lemma post22_raise P s e : post22 P (Raise s e).
Proof. exact I. Qed.

Lemma minw_le_l nw dl : minw nw dl <= nw. Proof. unfold minw. destruct (nw >? dl) eqn:E; lia. Qed.
Lemma minw_le_r nw dl : minw nw dl <= dl. Proof. unfold minw. destruct (nw >? dl) eqn:E; lia. Qed.

(* what the passes over the OTHER tables leave alone *)
Definition same_but_rcv (m m' : node22) : Prop := f_snd m' = f_snd m /\ f_mpg m' = f_mpg m.
Definition same_but_mpg (m m' : node22) : Prop := f_snd m' = f_snd m /\ f_rcv m' = f_rcv m.

(* ---------------------------------------------------------------- receive sessions *)
Lemma rcv_pass22_cover P : forall keys now nw m k,
  NoDup keys -> tnodup (f_rcv m) ->
  (forall m' nw', nw' <= nw -> same_but_rcv m m' ->
     (forall key', ~ In key' keys -> tget (f_rcv m') key' = tget (f_rcv m) key') ->
     (forall key b, In key keys -> tget (f_rcv m') key = Some b -> q_deadline b <> 0 -> nw' <= q_deadline b) ->
     post22 P (k m' nw')) ->
  post22 P (rcv_pass22 keys now nw m k).
Proof.
  induction keys as [|key ks IH]; intros now nw m k Hnd Htn Hk; cbn [rcv_pass22].
  - apply (Hk m nw ltac:(lia)); [split; reflexivity|intros; reflexivity|intros key b []].
  - inversion Hnd as [|? ? Hni Hnd']; subst.
    assert (Hskip : forall nw1, nw1 <= nw ->
              (forall b, tget (f_rcv m) key = Some b -> q_deadline b <> 0 -> nw1 <= q_deadline b) ->
              post22 P (rcv_pass22 ks now nw1 m k)).
    { intros nw1 Hle Hcov. apply IH; [exact Hnd'|exact Htn|]. intros m' nw' H1 H2 H5 H6.
      apply (Hk m' nw' ltac:(lia) H2).
      - intros key' Hn. apply H5. intro Hin. apply Hn. right. exact Hin.
      - intros key0 b [E|Hin] Hg Hd.
        + subst key0. rewrite (H5 key Hni) in Hg. specialize (Hcov b Hg Hd). lia.
        + apply (H6 key0 b Hin Hg Hd). }
    destruct (tget (f_rcv m) key) as [b|] eqn:G.
    2:{ apply Hskip; [lia|]. intros b0 Hb0. discriminate. }
    destruct (q_deadline b =? 0) eqn:E0.
    { apply Hskip; [lia|]. intros b0 Hb0 Hd. inversion Hb0; subst. lia. }
    destruct (q_deadline b >? now) eqn:E1.
    { apply Hskip; [apply minw_le_l|]. intros b0 Hb0 _. inversion Hb0; subst. apply minw_le_r. }
    assert (Hdel : post22 P (rcv_pass22 ks now nw (set_frcv m (tdel (f_rcv m) key)) k)).
    { apply IH; [exact Hnd'|cbn [f_rcv set_frcv]; apply tnodup_tdel; exact Htn|]. intros m' nw' H1 H2 H5 H6.
      apply (Hk m' nw' H1).
      - destruct H2 as [A B]. split; [exact A|exact B].
      - intros key' Hn. rewrite (H5 key') by (intro Hin; apply Hn; right; exact Hin).
        cbn [f_rcv set_frcv]. apply tget_tdel_other. intro E. apply Hn. left. exact E.
      - intros key0 b0 [E|Hin] Hg Hd.
        + subst key0. rewrite (H5 key Hni) in Hg. cbn [f_rcv set_frcv] in Hg.
          rewrite tget_tdel_same in Hg by exact Htn. discriminate.
        + apply (H6 key0 b0 Hin Hg Hd). }
    destruct (negb (q_dst b =? addr_GLOBAL)); [apply post22_emit|]; exact Hdel.
Qed.

(* ---------------------------------------------------------------- multi-PG buffers *)
Lemma mpg_pass_cover P : forall keys now nw m k,
  NoDup keys -> tnodup (f_mpg m) ->
  (forall m' nw', nw' <= nw -> same_but_mpg m m' ->
     (forall key', ~ In key' keys -> tget (f_mpg m') key' = tget (f_mpg m) key') ->
     (forall key b, In key keys -> tget (f_mpg m') key = Some b -> nw' <= m_deadline b) ->
     post22 P (k m' nw')) ->
  post22 P (mpg_pass keys now nw m k).
Proof.
  induction keys as [|key ks IH]; intros now nw m k Hnd Htn Hk; cbn [mpg_pass].
  - apply (Hk m nw ltac:(lia)); [split; reflexivity|intros; reflexivity|intros key b []].
  - inversion Hnd as [|? ? Hni Hnd']; subst.
    destruct (tget (f_mpg m) key) as [b|] eqn:G; [|apply post22_raise].
    destruct (m_deadline b >? now) eqn:E1.
    { apply IH; [exact Hnd'|exact Htn|]. intros m' nw' H1 H2 H5 H6.
      assert (Hle : nw' <= nw) by (pose proof (minw_le_l nw (m_deadline b)); lia).
      apply (Hk m' nw' Hle H2).
      - intros key' Hn. apply H5. intro Hin. apply Hn. right. exact Hin.
      - intros key0 b0 [E|Hin] Hg.
        + subst key0. rewrite (H5 key Hni) in Hg. rewrite G in Hg. inversion Hg; subst.
          pose proof (minw_le_r nw (m_deadline b0)). lia.
        + apply (H6 key0 b0 Hin Hg). }
    destruct (tp22_unhash_mpg key) as [[[ff x] sa] dst].
    destruct (send_multi_pg ff (m_cpgs b) sa dst); [|apply post22_raise].
    apply post22_emit. rewrite (tmem_get _ _ _ G).
    apply IH; [exact Hnd'|cbn [f_mpg set_fmpg]; apply tnodup_tdel; exact Htn|]. intros m' nw' H1 H2 H5 H6.
    apply (Hk m' nw' H1).
    + destruct H2 as [A B]. split; [exact A|exact B].
    + intros key' Hn. rewrite (H5 key') by (intro Hin; apply Hn; right; exact Hin).
      cbn [f_mpg set_fmpg]. apply tget_tdel_other. intro E. apply Hn. left. exact E.
    + intros key0 b0 [E|Hin] Hg.
      * subst key0. rewrite (H5 key Hni) in Hg. cbn [f_mpg set_fmpg] in Hg.
        rewrite tget_tdel_same in Hg by exact Htn. discriminate.
      * apply (H6 key0 b0 Hin Hg).
Qed.

(* ---------------------------------------------------------------- originator sessions *)
Definition same_but_snd (m m' : node22) : Prop := f_rcv m' = f_rcv m /\ f_mpg m' = f_mpg m.

Lemma fd_burst_frame P key now : forall fuel m k,
  (forall m1, same_but_snd m m1 ->
     (forall key', key' <> key -> tget (f_snd m1) key' = tget (f_snd m) key') ->
     (tnodup (f_snd m) -> tnodup (f_snd m1)) -> post22 P (k m1)) ->
  post22 P (fd_burst fuel key now m k).
Proof.
  induction fuel as [|f IH]; intros m k Hk; cbn [fd_burst]; [apply post22_raise|].
  destruct (tget (f_snd m) key) as [b|]; [|apply post22_raise].
  destruct (t_next b <? t_nseg b).
  2:{ apply Hk; [split; reflexivity|intros; reflexivity|auto]. }
  match goal with |- post22 P (match ?r with Some _ => _ | None => _ end) => destruct r as [[b2 brk]|] end; [|apply post22_raise].
  destruct (py_nth (t_data b) (t_next b)) as [seg|]; [|apply post22_raise].
  destruct (dt_frame _ _ _ _ seg) as [[fr seg']|]; [|apply post22_raise].
  apply post22_emit.
  set (m1 := set_fsnd m (tset (f_snd m) key (with_tdata b2 (py_set (t_data b2) (t_next b) seg')))).
  assert (Hfr : forall key', key' <> key -> tget (f_snd m1) key' = tget (f_snd m) key').
  { intros key' Hne. unfold m1. cbn [f_snd set_fsnd]. apply tget_tset_other. intro E. apply Hne. symmetry. exact E. }
  assert (Hnd : tnodup (f_snd m) -> tnodup (f_snd m1)) by (intros Ht; unfold m1; cbn [f_snd set_fsnd]; apply tnodup_tset; exact Ht).
  assert (Hs : same_but_snd m m1) by (split; reflexivity).
  destruct (t_next b + 1 =? t_nseg b).
  - apply post22_emit. apply Hk; assumption.
  - destruct brk; [apply Hk; assumption|].
    apply IH. intros m2 S2 F2 N2. apply Hk.
    + destruct S2 as [A B]. destruct Hs as [C D]. split; [rewrite A; exact C|rewrite B; exact D].
    + intros key' Hne. rewrite (F2 key' Hne). apply Hfr. exact Hne.
    + intros Ht. apply N2. apply Hnd. exact Ht.
Qed.

Lemma snd_pass22_cover P : forall keys now nw m k,
  NoDup keys -> tnodup (f_snd m) ->
  (forall m' nw', nw' <= nw -> same_but_snd m m' ->
     (forall key', ~ In key' keys -> tget (f_snd m') key' = tget (f_snd m) key') ->
     (forall key b, In key keys -> tget (f_snd m') key = Some b -> t_deadline b <> 0 -> nw' <= t_deadline b) ->
     post22 P (k m' nw')) ->
  post22 P (snd_pass22 keys now nw m k).
Proof.
  induction keys as [|key ks IH]; intros now nw m k Hnd Htn Hk; cbn [snd_pass22].
  - apply (Hk m nw ltac:(lia)); [split; reflexivity|intros; reflexivity|intros key b []].
  - inversion Hnd as [|? ? Hni Hnd']; subst.
    destruct (tget (f_snd m) key) as [b|] eqn:G; [|apply post22_raise].
    assert (Hnext : forall m1 nw1, nw1 <= nw -> same_but_snd m m1 ->
              (forall key', key' <> key -> tget (f_snd m1) key' = tget (f_snd m) key') -> tnodup (f_snd m1) ->
              (forall b1, tget (f_snd m1) key = Some b1 -> t_deadline b1 <> 0 -> nw1 <= t_deadline b1) ->
              post22 P (snd_pass22 ks now nw1 m1 k)).
    { intros m1 nw1 Hle S1 F1 N1 Cov. apply IH; [exact Hnd'|exact N1|].
      intros m' nw' H1 H2 H5 H6.
      apply (Hk m' nw' ltac:(lia)).
      + destruct S1 as [A B]. destruct H2 as [C D]. split; [rewrite C; exact A|rewrite D; exact B].
      + intros key' Hn. rewrite (H5 key') by (intro Hin; apply Hn; right; exact Hin).
        apply F1. intro E. apply Hn. left. symmetry. exact E.
      + intros key0 b0 [E|Hin] Hg Hd.
        * subst key0. rewrite (H5 key Hni) in Hg. specialize (Cov b0 Hg Hd). lia.
        * apply (H6 key0 b0 Hin Hg Hd). }
    assert (Hsame : forall nw1, nw1 <= nw -> (t_deadline b <> 0 -> nw1 <= t_deadline b) -> post22 P (snd_pass22 ks now nw1 m k)).
    { intros nw1 Hle Hc. apply Hnext; try assumption; [split; reflexivity|intros; reflexivity|].
      intros b1 Hb1 Hd. rewrite G in Hb1. inversion Hb1; subst. apply Hc. exact Hd. }
    (* every exit that deletes the session and returns its number *)
    assert (Hdel : forall m1, same_but_snd m m1 -> (forall key', tget (f_snd m1) key' = tget (f_snd m) key') -> tnodup (f_snd m1) ->
              post22 P (if tmem (f_snd m1) key
                        then put_session (set_fsnd m1 (tdel (f_snd m1) key)) b (fun m3 => snd_pass22 ks now nw m3 k)
                        else Raise m1 E_Key)).
    { intros m1 S1 F1 N1. destruct (tmem (f_snd m1) key); [|apply post22_raise].
      assert (Hgo : forall m3, f_snd m3 = tdel (f_snd m1) key -> f_rcv m3 = f_rcv m1 -> f_mpg m3 = f_mpg m1 ->
                post22 P (snd_pass22 ks now nw m3 k)).
      { intros m3 E3 R3 M3. apply Hnext; try lia.
        - destruct S1 as [A B]. split; [rewrite R3; exact A|rewrite M3; exact B].
        - intros key' Hne. rewrite E3. rewrite tget_tdel_other by (intro E; apply Hne; symmetry; exact E). apply F1.
        - rewrite E3. apply tnodup_tdel. exact N1.
        - intros b1 Hb1. rewrite E3 in Hb1. rewrite tget_tdel_same in Hb1 by exact N1. discriminate. }
      unfold put_session, put_bam, put_rts.
      destruct (t_dst b =? addr_GLOBAL);
        match goal with |- post22 P (match ?p with Some _ => _ | None => _ end) => destruct p end;
        try apply post22_raise; apply Hgo; reflexivity. }
    destruct (t_deadline b =? 0) eqn:E0; [apply Hsame; [lia|intros; lia]|].
    destruct (t_deadline b >? now) eqn:E1; [apply Hsame; [apply minw_le_l|intros; apply minw_le_r]|].
    destruct (t_state b =? tp22_st_WAITING_CTS).
    { apply post22_emit. apply Hdel; [split; reflexivity|intros; reflexivity|exact Htn]. }
    destruct (t_state b =? tp22_st_SENDING_RTS_CTS).
    { apply fd_burst_frame. intros m1 S1 F1 N1.
      destruct (tget (f_snd m1) key) as [b1|] eqn:G1; [|apply post22_raise].
      match goal with |- context [snd_pass22 ks now ?nwx (set_fsnd m1 (tset (f_snd m1) key ?b2)) k] =>
        apply (Hnext (set_fsnd m1 (tset (f_snd m1) key b2)) nwx) end.
      - apply minw_le_l.
      - destruct S1 as [A B]. split; [exact A|exact B].
      - intros key' Hne. cbn [f_snd set_fsnd]. rewrite tget_tset_other by (intro E; apply Hne; symmetry; exact E). apply F1. exact Hne.
      - cbn [f_snd set_fsnd]. apply tnodup_tset. apply N1. exact Htn.
      - intros b3 Hb3 _. cbn [f_snd set_fsnd] in Hb3. rewrite tget_tset_same in Hb3. inversion Hb3; subst. apply minw_le_r. }
    destruct ((t_state b =? tp22_st_WAITING_EOM_ACK) || (t_state b =? tp22_st_EOM_ACK_RECEIVED) || (t_state b =? tp22_st_TRANSMISSION_FINISHED)).
    { apply Hdel; [split; reflexivity|intros; reflexivity|exact Htn]. }
    destruct (t_state b =? tp22_st_SENDING_BAM).
    { destruct (py_nth (t_data b) (t_next b)) as [seg|]; [|apply post22_raise].
      destruct (dt_frame _ _ _ _ seg) as [[fr seg']|]; [|apply post22_raise].
      apply post22_emit. cbn [f_snd set_fsnd]. rewrite tget_tset_same.
      match goal with |- post22 P (snd_pass22 ks now ?nwx ?mx k) => apply (Hnext mx nwx) end.
      - apply minw_le_l.
      - split; reflexivity.
      - intros key' Hne. cbn [f_snd set_fsnd]. rewrite !tget_tset_other by (intro E; apply Hne; symmetry; exact E). reflexivity.
      - cbn [f_snd set_fsnd]. apply tnodup_tset. apply tnodup_tset. exact Htn.
      - intros b3 Hb3 _. cbn [f_snd set_fsnd] in Hb3. rewrite tget_tset_same in Hb3. inversion Hb3; subst. apply minw_le_r. }
    destruct (t_state b =? tp22_st_SENDING_EOM_STATUS).
    { apply post22_emit. apply Hdel; [split; reflexivity|intros; reflexivity|exact Htn]. }
    apply Hdel; [split; reflexivity|intros; reflexivity|exact Htn].
Qed.

(* ---------------------------------------------------------------- the FD transport pass *)
Definition covered22 (m : node22) (nw : Z) : Prop :=
  (forall key b, tget (f_rcv m) key = Some b -> q_deadline b <> 0 -> nw <= q_deadline b) /\
  (forall key b, tget (f_mpg m) key = Some b -> nw <= m_deadline b) /\
  (forall key b, tget (f_snd m) key = Some b -> t_deadline b <> 0 -> nw <= t_deadline b).

Lemma tget_in_keys22 {V} (t : tbl V) key v : tget t key = Some v -> In key (tkeys t).
Proof.
  unfold tkeys. induction t as [|[k0 v0] r IH]; cbn [tget map fst]; [discriminate|].
  destruct (k0 =? key) eqn:E; [intros _; left; lia|intros H; right; apply IH; exact H].
Qed.

Theorem dll_job22_never_oversleeps P m now k :
  tnodup (f_rcv m) -> tnodup (f_mpg m) -> tnodup (f_snd m) ->
  (forall m' nw', nw' <= now + 5000000 -> covered22 m' nw' -> post22 P (k m' nw')) ->
  post22 P (dll_job22 m now k).
Proof.
  intros Hr Hm Hs Hk. unfold dll_job22.
  apply rcv_pass22_cover; [exact Hr|exact Hr|]. intros m1 nw1 L1 [S1 M1] F1 V1.
  apply mpg_pass_cover; [unfold tnodup in Hm; rewrite M1; exact Hm|rewrite M1; exact Hm|]. intros m2 nw2 L2 [S2 R2] F2 V2.
  apply snd_pass22_cover; [unfold tnodup in Hs; rewrite S2, S1; exact Hs|rewrite S2, S1; exact Hs|]. intros m3 nw3 L3 [R3 M3] F3 V3.
  apply Hk; [lia|]. split; [|split].
  - intros key b Hg Hd. rewrite R3, R2 in Hg.
    destruct (In_dec Z.eq_dec key (tkeys (f_rcv m))) as [Hi|Hni].
    + specialize (V1 key b Hi Hg Hd). lia.
    + rewrite (F1 key Hni) in Hg. exfalso. apply Hni. apply (tget_in_keys22 _ _ _ Hg).
  - intros key b Hg. rewrite M3 in Hg.
    destruct (In_dec Z.eq_dec key (tkeys (f_mpg m1))) as [Hi|Hni].
    + specialize (V2 key b Hi Hg). lia.
    + rewrite (F2 key Hni) in Hg. exfalso. apply Hni. apply (tget_in_keys22 _ _ _ Hg).
  - intros key b Hg Hd.
    destruct (In_dec Z.eq_dec key (tkeys (f_snd m2))) as [Hi|Hni].
    + apply (V3 key b Hi Hg Hd).
    + rewrite (F3 key Hni) in Hg. exfalso. apply Hni. apply (tget_in_keys22 _ _ _ Hg).
Qed.

Corollary dll_job22_wakeup_covers_every_deadline m now :
  tnodup (f_rcv m) -> tnodup (f_mpg m) -> tnodup (f_snd m) ->
  match flat22 (dll_job22 m now (fun m' nw' => Done m' nw')) with
  | (m', _, RDone nw') => nw' <= now + 5000000 /\ covered22 m' nw'
  | (_, _, RRaise _) => True
  end.
Proof.
  intros Hr Hm Hs.
  apply (dll_job22_never_oversleeps (fun m' nw' => nw' <= now + 5000000 /\ covered22 m' nw') m now
           (fun m' nw' => Done m' nw') Hr Hm Hs).
  intros m' nw' L C. split; assumption.
Qed.

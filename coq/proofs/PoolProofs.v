(* PoolProofs.v — C02/C10 (J1939-22): the originator session pools.
   skel m = (which send sessions exist, with which session number and destination; the two pools).
   * inbound neutrality: notify22 of ANY frame leaves skel unchanged (T10.2)
   * capacity: send_pgn22 is refused iff the relevant pool has no free flag, and then nothing changes (T02.7)
   * conservation: the pool invariant is preserved by allocation and by every exit of the job pass (T02.6/T10.1) *)
From J1939 Require Import Base CodecGlue Model21 Model22.
From J1939.gen Require Import Codec Tp21Gen CaGen Tp22Gen.
From J1939P Require Import CodecProofs Flat MpgProofs.
Local Arguments Z.add : simpl never.
Local Arguments Z.sub : simpl never.
Local Arguments Z.mul : simpl never.

Definition fnode22 (a : act node22) : node22 := fst (fst (flat22 a)).
Definition fouts22 (a : act node22) : list out := snd (fst (flat22 a)).
Definition fres22 (a : act node22) : res := snd (flat22 a).

Definition proj (kb : Z * sbuf22) : Z * Z * Z * Z := (fst kb, t_session (snd kb), t_dst (snd kb), t_src (snd kb)).
Definition skel (m : node22) : list (Z * Z * Z * Z) * list bool * list bool := (map proj (f_snd m), f_rts m, f_bam m).

(* ---------------------------------------------------------------- table facts *)
Lemma map_proj_tset (t : tbl sbuf22) h b b' :
  tget t h = Some b -> t_session b' = t_session b -> t_dst b' = t_dst b -> t_src b' = t_src b ->
  map proj (tset t h b') = map proj t.
Proof.
  intros Hget Hs Hd Hsr. induction t as [|[k v] r IH]; [discriminate|].
  cbn [tget] in Hget. cbn [tset]. destruct (k =? h) eqn:E.
  - inversion Hget; subst v. cbn [map]. f_equal. unfold proj. cbn [fst snd]. rewrite Hs, Hd, Hsr.
    assert (k = h) by lia. subst k. reflexivity.
  - cbn [map]. f_equal. apply IH. exact Hget.
Qed.

Lemma skel_with_base m n : skel (with_base m n) = skel m.
Proof. reflexivity. Qed.
Lemma skel_set_frcv m t : skel (set_frcv m t) = skel m.
Proof. reflexivity. Qed.
Lemma skel_set_fmpg m t : skel (set_fmpg m t) = skel m.
Proof. reflexivity. Qed.
Lemma skel_wake22 m : skel (wake22 m) = skel m.
Proof. reflexivity. Qed.
Lemma skel_upd m h b b' :
  tget (f_snd m) h = Some b -> t_session b' = t_session b -> t_dst b' = t_dst b -> t_src b' = t_src b ->
  skel (set_fsnd m (tset (f_snd m) h b')) = skel m.
Proof. intros. unfold skel. cbn [f_snd f_rts f_bam set_fsnd]. rewrite (map_proj_tset _ _ _ _ H H0 H1 H2). reflexivity. Qed.

(* ---------------------------------------------------------------- resumptions that keep skel *)
Definition keeps (s0 : list (Z * Z * Z * Z) * list bool * list bool) (a : act node22) : Prop := skel (fnode22 a) = s0.

Lemma keeps_done s0 m r : skel m = s0 -> keeps s0 (Done m r).
Proof. intros H. exact H. Qed.
Lemma keeps_raise s0 m e : skel m = s0 -> keeps s0 (Raise m e).
Proof. intros H. exact H. Qed.
Lemma keeps_emit s0 m o k : keeps s0 (k m) -> keeps s0 (Emit m o k).
Proof.
  unfold keeps, fnode22. cbn [flat22]. destruct (flat22 (k m)) as [[s os] r]. auto.
Qed.

Lemma keeps_lift s0 : forall (a : act node) m k,
  skel m = s0 -> (forall m' r, skel m' = s0 -> keeps s0 (k m' r)) -> keeps s0 (lift m a k).
Proof.
  induction a as [s r|s e|s o c IH]; intros m k Hm Hk; cbn [lift].
  - apply Hk. rewrite skel_with_base. exact Hm.
  - apply keeps_raise. rewrite skel_with_base. exact Hm.
  - apply keeps_emit. apply IH; [rewrite skel_with_base; exact Hm|exact Hk].
Qed.

Lemma keeps_notify_subscribers s0 prio pgn sa dest data m k :
  skel m = s0 -> (forall m', skel m' = s0 -> keeps s0 (k m')) -> keeps s0 (notify_subscribers22 prio pgn sa dest data m k).
Proof. intros Hm Hk. unfold notify_subscribers22. apply keeps_lift; [exact Hm|]. intros m' _ H. apply Hk. exact H. Qed.

(* ---------------------------------------------------------------- T10.2 inbound neutrality *)
Lemma keeps_tp_dt s0 prio sa dest data now m : skel m = s0 -> keeps s0 (process_tp_dt22 prio sa dest data now m).
Proof.
  intros Hm. unfold process_tp_dt22.
  destruct (length data <=? 4)%nat; [exact Hm|].
  destruct (tp22_dt_segment_num data =? 0); [exact Hm|].
  destruct (tget (f_rcv m) _) as [b|]; [|exact Hm].
  destruct (negb (q_next b =? _)); [exact Hm|].
  destruct (len (q_data b ++ skipn 4 data) >=? q_size b); [exact Hm|].
  destruct (negb (dest =? addr_GLOBAL)) eqn:G.
  - destruct (q_border b) as [bd|]; [|exact Hm].
    destruct (tp22_dt_segment_num data >=? bd); [|exact Hm].
    destruct (q_maxrec b) as [mr|] eqn:Em; [|exact Hm].
    apply keeps_emit. cbn [f_rcv set_frcv]. rewrite tget_tset_same.
    cbn [upd_q q_border q_maxrec]. rewrite Em. exact Hm.
  - exact Hm.
Qed.

Lemma keeps_tp_cm s0 prio sa dest data now m : skel m = s0 -> keeps s0 (process_tp_cm22 prio sa dest data now m).
Proof.
  intros Hm. unfold process_tp_cm22.
  destruct (length data <? 12)%nat; [exact Hm|].
  destruct (_ =? tp22_ctl_RTS).
  { destruct (tmem (f_rcv m) _); apply keeps_emit; exact Hm. }
  destruct (_ =? tp22_ctl_CTS).
  { destruct (tget (f_snd m) _) as [b|] eqn:G; [|apply keeps_emit; exact Hm].
    destruct (byte_at data 7 =? 0); apply keeps_done; rewrite skel_wake22, (skel_upd m _ b) by (try exact G; reflexivity); exact Hm. }
  destruct (_ =? tp22_ctl_EOM_STATUS).
  { destruct (tget (f_rcv m) _) as [b|]; [|exact Hm].
    assert (Hfin : forall m', skel m' = s0 ->
              keeps s0 (if tmem (f_rcv m') (tp22_hash (tp22_cm_session_num data) sa dest)
                        then Done (set_frcv m' (tdel (f_rcv m') (tp22_hash (tp22_cm_session_num data) sa dest))) 0
                        else Raise m' E_Key)).
    { intros m' H'. destruct (tmem (f_rcv m') _); exact H'. }
    destruct ((q_size b =? _) && _ && _).
    - apply keeps_notify_subscribers; [exact Hm|]. intros m' H'.
      destruct (negb (dest =? addr_GLOBAL)); [apply keeps_emit|]; apply Hfin; exact H'.
    - destruct (negb (dest =? addr_GLOBAL)); [apply keeps_emit|]; apply Hfin; exact Hm. }
  destruct (_ =? tp22_ctl_EOM_ACK).
  { destruct (negb (tmem (f_snd m) _)); [apply keeps_emit; exact Hm|].
    apply keeps_notify_subscribers; [exact Hm|]. intros m' H'.
    destruct (tget (f_snd m') _) as [b|] eqn:G; [|exact H'].
    apply keeps_done. rewrite skel_wake22, (skel_upd m' _ b) by (try exact G; reflexivity). exact H'. }
  destruct (_ =? tp22_ctl_BAM).
  { apply keeps_done. rewrite skel_wake22, skel_set_frcv. destruct (tmem (f_rcv m) _); exact Hm. }
  destruct (_ =? tp22_ctl_ABORT).
  { destruct (tget (f_snd m) _) as [b|] eqn:G; [|exact Hm].
    destruct (t_state b =? tp22_st_WAITING_CTS); [|exact Hm].
    apply keeps_done. rewrite (skel_upd m _ b) by (try exact G; reflexivity). exact Hm. }
  exact Hm.
Qed.

Lemma keeps_multi_pg s0 : forall fuel prio sa dest data m, skel m = s0 -> keeps s0 (process_multi_pg fuel prio sa dest data m).
Proof.
  induction fuel as [|f IH]; intros prio sa dest data m Hm; cbn [process_multi_pg]; [exact Hm|].
  destruct (length data <=? 4)%nat; [exact Hm|].
  destruct (mpg_parse_header data) as [[[tos tf] cpgn] plen].
  destruct (tos =? 0); [exact Hm|].
  destruct ((tos =? 2) && (tf =? 0)); [|apply IH; exact Hm].
  apply keeps_notify_subscribers; [exact Hm|]. intros m' H'. apply IH. exact H'.
Qed.

Lemma keeps_claim_fanout s0 : forall cnt i sa data m, skel m = s0 -> keeps s0 (claim_fanout22 i cnt sa data m).
Proof.
  induction cnt as [|c IH]; intros i sa data m Hm; cbn [claim_fanout22]; [exact Hm|].
  apply keeps_lift; [exact Hm|]. intros m' _ H'. apply IH. exact H'.
Qed.

Lemma keeps_catch s0 (a : act node22) : keeps s0 a -> keeps s0 (catch a).
Proof.
  unfold keeps, fnode22. induction a as [s r|s e|s o k IH]; cbn [catch flat22]; intros H; [exact H|exact H|].
  specialize (IH s). destruct (flat22 (k s)) as [[s1 o1] r1]. destruct (flat22 (catch (k s))) as [[s2 o2] r2].
  cbn in *. apply IH. exact H.
Qed.

(* T10.2: whatever arrives from the bus (any identifier, any data), the sessions this stack originated and
   its two pools are exactly as before: inbound traffic neither consumes nor releases outbound capacity *)
Theorem inbound_neutral m now can_id data : skel (fnode22 (notify22 m now can_id data)) = skel m.
Proof.
  change (keeps (skel m) (notify22 m now can_id data)). unfold notify22.
  destruct (mid_parse can_id) as [[prio pgnf] sa]. destruct (pgn_from_mid pgnf) as [[dp pf] ps].
  destruct (negb (ps =? addr_GLOBAL) && _ && _ && _); [reflexivity|].
  destruct (_ =? pgn_FEFF_MULTI_PG); [apply keeps_multi_pg; reflexivity|].
  destruct (_ =? pgn_ADDRESSCLAIM); [apply keeps_claim_fanout; reflexivity|].
  destruct (_ =? pgn_REQUEST); [apply keeps_lift; [reflexivity|intros m' r H; exact H]|].
  destruct (_ =? pgn_FD_TP_CM); [apply keeps_tp_cm; reflexivity|].
  destruct (_ =? pgn_FD_TP_DT); [apply keeps_tp_dt; reflexivity|].
  destruct ((_ =? pgn_TP_CM) || _); [reflexivity|].
  destruct (pgn_is_pdu2 pf); apply keeps_notify_subscribers; try reflexivity; intros m' H; exact H.
Qed.

Theorem inbound_neutral_listener m now can_id ext remote err data :
  skel (fnode22 (listener22 m now can_id ext remote err data)) = skel m.
Proof.
  unfold listener22. destruct (err || remote || negb ext); [reflexivity|].
  change (keeps (skel m) (catch (notify22 m now can_id data))). apply keeps_catch. apply inbound_neutral.
Qed.

(* ---------------------------------------------------------------- T02.7 capacity *)
Lemma pool_get_none l : forall i, pool_get l i = None <-> Forall (fun b => b = false) l.
Proof.
  induction l as [|b r IH]; intros i; cbn [pool_get]; [split; [constructor|reflexivity]|].
  destruct b.
  - split; [discriminate|]. intros H. inversion H; discriminate.
  - specialize (IH (i + 1)). destruct (pool_get r (i + 1)) as [[j r']|].
    + split; [discriminate|]. intros H. inversion H; subst. apply IH in H3. discriminate.
    + split; [|reflexivity]. intros _. constructor; [reflexivity|]. apply IH. reflexivity.
Qed.

Lemma pool_get_some l : forall i j l', pool_get l i = Some (j, l') ->
  i <= j < i + Z.of_nat (length l) /\ nth_error l (Z.to_nat (j - i)) = Some true /\
  l' = upd_nth l (Z.to_nat (j - i)) false /\
  (forall k, (k < Z.to_nat (j - i))%nat -> nth_error l k = Some false).
Proof.
  induction l as [|b r IH]; intros i j l' H; cbn [pool_get] in H; [discriminate|].
  destruct b.
  - inversion H; subst. replace (j - j) with 0 by lia. change (Z.to_nat 0) with 0%nat. cbn [nth_error upd_nth length].
    split; [lia|]. split; [reflexivity|]. split; [reflexivity|]. intros k Hk. lia.
  - destruct (pool_get r (i + 1)) as [[j0 r0]|] eqn:E; [|discriminate]. inversion H; subst.
    destruct (IH _ _ _ E) as (A & B & C & D). cbn [length].
    replace (Z.to_nat (j - i)) with (S (Z.to_nat (j - (i + 1)))) by lia.
    cbn [nth_error upd_nth]. split; [lia|]. split; [exact B|]. split; [f_equal; exact C|].
    intros k Hk. destruct k; [reflexivity|]. cbn [nth_error]. apply D. lia.
Qed.

(* a send beyond the capacity returns False, emits nothing and changes nothing *)
Theorem refused_when_pool_exhausted m now dp pf ps prio sa data tl ff :
  tp22_TP < len data ->
  let global := (ps =? addr_GLOBAL) || pgn_is_pdu2_of 0 pf ps in
  Forall (fun b => b = false) (if global then f_bam m else f_rts m) ->
  flat22 (send_pgn22 m now dp pf ps prio sa data tl ff) = (m, [], RDone 0).
Proof.
  intros Hl global Hfull. unfold send_pgn22. destruct (pgn_mk dp pf ps) as [[pdp ppf] pps].
  assert ((len data <=? tp22_TP) = false) as -> by lia. fold global.
  destruct global; rewrite (proj2 (pool_get_none _ 0) Hfull); reflexivity.
Qed.

(* with a free flag the send is accepted and takes the lowest free session number *)
Theorem accepted_when_pool_has_room m now dp pf ps prio sa data tl ff :
  tp22_TP < len data ->
  let global := (ps =? addr_GLOBAL) || pgn_is_pdu2_of 0 pf ps in
  ~ Forall (fun b => b = false) (if global then f_bam m else f_rts m) ->
  fres22 (send_pgn22 m now dp pf ps prio sa data tl ff) = RDone 1.
Proof.
  intros Hl global Hroom. unfold fres22, send_pgn22. destruct (pgn_mk dp pf ps) as [[pdp ppf] pps].
  assert ((len data <=? tp22_TP) = false) as -> by lia. fold global.
  destruct global.
  - destruct (pool_get (f_bam m) 0) as [[s p']|] eqn:E; [|exfalso; apply Hroom; apply pool_get_none with (i := 0); exact E].
    cbn [flat22]. reflexivity.
  - destruct (pool_get (f_rts m) 0) as [[s p']|] eqn:E; [|exfalso; apply Hroom; apply pool_get_none with (i := 0); exact E].
    cbn [flat22]. reflexivity.
Qed.

(* ---------------------------------------------------------------- T02.6 / T10.1 the pool invariant *)
Definition flag_of (m : node22) (b : sbuf22) : option bool :=
  if t_dst b =? addr_GLOBAL then nth_error (f_bam m) (Z.to_nat (t_session b))
  else nth_error (f_rts m) (Z.to_nat (t_session b)).

(* every originator session holds its flag (false = taken) in the pool of its kind, and sessions of one kind
   have pairwise different session numbers: so concurrent sessions never share a (session, sa, da) key by number *)
Definition pool_inv (m : node22) : Prop :=
  (forall h b, tget (f_snd m) h = Some b -> 0 <= t_session b /\ flag_of m b = Some false) /\
  (forall h1 h2 b1 b2, h1 <> h2 -> tget (f_snd m) h1 = Some b1 -> tget (f_snd m) h2 = Some b2 ->
       (t_dst b1 =? addr_GLOBAL) = (t_dst b2 =? addr_GLOBAL) -> t_session b1 <> t_session b2) /\
  tnodup (f_snd m).

Lemma pool_inv_init maxp civ biv : pool_inv (init_node22 maxp civ biv).
Proof.
  unfold pool_inv, init_node22. cbn [f_snd]. repeat split; try (intros; discriminate).
  unfold tnodup. cbn. constructor.
Qed.

(* pool_inv only depends on skel *)
Lemma tget_proj (t : tbl sbuf22) h b : tget t h = Some b -> In (h, t_session b, t_dst b, t_src b) (map proj t).
Proof.
  induction t as [|[k v] r IH]; [discriminate|]. cbn [tget map]. destruct (k =? h) eqn:E.
  - intros H. inversion H; subst. left. unfold proj. cbn. assert (k = h) by lia. subst k. reflexivity.
  - intros H. right. apply IH. exact H.
Qed.

(* inbound traffic preserves the invariant: the same sessions with the same numbers and kinds, the same pools *)
Lemma skel_tget (t t' : tbl sbuf22) : map proj t = map proj t' ->
  forall h b, tget t h = Some b -> exists b', tget t' h = Some b' /\ t_session b' = t_session b /\ t_dst b' = t_dst b /\ t_src b' = t_src b.
Proof.
  revert t'. induction t as [|[k v] r IH]; intros t' E h b H; [discriminate|].
  destruct t' as [|[k' v'] r']; [discriminate|]. cbn [map] in E. inversion E as [[E1 E2 E3 E5 E4]].
  unfold proj in E1, E2, E3, E5. cbn [fst snd] in E1, E2, E3, E5. subst k'.
  cbn [tget] in *. destruct (k =? h) eqn:Ek.
  - inversion H; subst. exists v'. split; [reflexivity|]. repeat split; congruence.
  - apply (IH r' E4 h b H).
Qed.

Theorem pool_inv_skel m m' : skel m' = skel m -> pool_inv m -> pool_inv m'.
Proof.
  unfold skel. intros E (I1 & I2 & I3). inversion E as [[E1 E2 E3]].
  assert (S1 : forall h b, tget (f_snd m') h = Some b -> exists b0, tget (f_snd m) h = Some b0 /\ t_session b0 = t_session b /\ t_dst b0 = t_dst b /\ t_src b0 = t_src b).
  { intros h b H. apply (skel_tget _ _ E1 h b H). }
  split; [|split].
  - intros h b H. destruct (S1 h b H) as (b0 & H0 & Hs & Hd & _). destruct (I1 h b0 H0) as [A B].
    split; [lia|]. unfold flag_of in *. rewrite E2, E3, <- Hs, <- Hd. exact B.
  - intros h1 h2 b1 b2 Hn H1 H2 Hk.
    destruct (S1 h1 b1 H1) as (c1 & G1 & Hs1 & Hd1 & _). destruct (S1 h2 b2 H2) as (c2 & G2 & Hs2 & Hd2 & _).
    rewrite <- Hs1, <- Hs2. apply (I2 h1 h2 c1 c2 Hn G1 G2). rewrite Hd1, Hd2. exact Hk.
  - unfold tnodup, tkeys in *.
    assert (map fst (f_snd m') = map fst (f_snd m)) as ->; [|exact I3].
    assert (forall t : tbl sbuf22, map fst t = map (fun x => fst (fst (fst x))) (map proj t)) as K.
    { induction t as [|[k v] r IH]; [reflexivity|]. cbn. f_equal. exact IH. }
    rewrite (K (f_snd m')), (K (f_snd m)), E1. reflexivity.
Qed.

Corollary pool_inv_inbound m now can_id data : pool_inv m -> pool_inv (fnode22 (notify22 m now can_id data)).
Proof. apply pool_inv_skel. apply inbound_neutral. Qed.

(* ---------------------------------------------------------------- release: deleting an originator session and
   returning its number to the pool of its kind preserves the invariant (every exit of the job pass has this form:
   Model22.snd_pass22 uses [del_then] followed by [put_session] in all six exits) *)
Lemma upd_nth_same {A} (l : list A) : forall i x, (i < length l)%nat -> nth_error (upd_nth l i x) i = Some x.
Proof. induction l as [|y r IH]; intros [|i] x H; cbn in *; try lia; [reflexivity|apply IH; lia]. Qed.
Lemma upd_nth_other {A} (l : list A) : forall i j x, i <> j -> nth_error (upd_nth l i x) j = nth_error l j.
Proof.
  induction l as [|y r IH]; intros [|i] [|j] x H; cbn; try reflexivity; try lia. apply IH. lia.
Qed.

Lemma pool_put_spec l s l' : 0 <= s -> pool_put l s = Some l' -> l' = upd_nth l (Z.to_nat s) true.
Proof.
  intros Hs H. unfold pool_put in H. assert ((s <? 0) = false) as E by lia. rewrite E in H.
  destruct ((s <? 0) || (s >=? Z.of_nat (length l))); [discriminate|]. inversion H. reflexivity.
Qed.

Theorem release_preserves m h b :
  pool_inv m -> tget (f_snd m) h = Some b ->
  let m1 := set_fsnd m (tdel (f_snd m) h) in
  forall m2, (if t_dst b =? addr_GLOBAL
              then exists l, pool_put (f_bam m1) (t_session b) = Some l /\ m2 = set_fbam m1 l
              else exists l, pool_put (f_rts m1) (t_session b) = Some l /\ m2 = set_frts m1 l) ->
  pool_inv m2.
Proof.
  intros (I1 & I2 & I3) Hget m1 m2 Hput.
  assert (Hrest : forall h' b', tget (f_snd m1) h' = Some b' -> h' <> h /\ tget (f_snd m) h' = Some b').
  { intros h' b' H'. cbn [m1 f_snd set_fsnd] in H'. destruct (Z.eq_dec h h') as [->|N].
    - rewrite tget_tdel_same in H' by exact I3. discriminate.
    - rewrite tget_tdel_other in H' by exact N. split; [intro E; apply N; symmetry; exact E|exact H']. }
  destruct (I1 h b Hget) as [Hs0 Hflag].
  assert (Hsnd2 : f_snd m2 = f_snd m1).
  { destruct (t_dst b =? addr_GLOBAL); destruct Hput as (l & _ & ->); reflexivity. }
  split; [|split].
  - intros h' b' H'. rewrite Hsnd2 in H'. destruct (Hrest h' b' H') as [Hn Hg].
    destruct (I1 h' b' Hg) as [A B]. split; [exact A|].
    unfold flag_of in *.
    destruct (t_dst b =? addr_GLOBAL) eqn:K; destruct Hput as (l & Hl & ->);
      apply pool_put_spec in Hl; try exact Hs0; subst l; cbn [f_bam f_rts set_fbam set_frts m1 set_fsnd].
    + destruct (t_dst b' =? addr_GLOBAL) eqn:K'; [|exact B].
      rewrite upd_nth_other; [exact B|].
      intro Eq. apply (I2 h' h b' b Hn Hg Hget); [rewrite K', K; reflexivity|lia].
    + destruct (t_dst b' =? addr_GLOBAL) eqn:K'; [exact B|].
      rewrite upd_nth_other; [exact B|].
      intro Eq. apply (I2 h' h b' b Hn Hg Hget); [rewrite K', K; reflexivity|lia].
  - intros h1 h2 b1 b2 Hn H1 H2 Hk. rewrite Hsnd2 in H1, H2.
    destruct (Hrest h1 b1 H1) as [_ G1]. destruct (Hrest h2 b2 H2) as [_ G2]. apply (I2 h1 h2 b1 b2 Hn G1 G2 Hk).
  - rewrite Hsnd2. cbn [m1 f_snd set_fsnd]. apply tnodup_tdel. exact I3.
Qed.

(* ---------------------------------------------------------------- allocation *)
Lemma hash22_arith s a d :
  tp22_hash s a d = (s mod 16) * 65536 + (a mod 256) * 256 + d mod 256.
Proof.
  unfold tp22_hash. rewrite land_15, !land_255. rewrite !shiftl_mul by lia. pow2_norm.
  rewrite (lor_add_low (s mod 16 * 65536) (a mod 256 * 256) 16) by (pow2_norm; lia).
  rewrite (lor_add_low (s mod 16 * 65536 + a mod 256 * 256) (d mod 256) 8) by (pow2_norm; lia).
  reflexivity.
Qed.

Definition keys_ok (m : node22) : Prop :=
  (forall h b, tget (f_snd m) h = Some b ->
      h = tp22_hash (t_session b) (t_src b) (t_dst b) /\ 0 <= t_session b < 16 /\ 0 <= t_dst b < 256 /\ 0 <= t_src b < 256) /\
  length (f_rts m) = tp22_pool_rts /\ length (f_bam m) = tp22_pool_bam.

Lemma keys_ok_init maxp civ biv : keys_ok (init_node22 maxp civ biv).
Proof. unfold keys_ok, init_node22. cbn [f_snd f_rts f_bam]. split; [intros; discriminate|]. split; apply repeat_length. Qed.

Theorem keys_ok_skel m m' : skel m' = skel m -> keys_ok m -> keys_ok m'.
Proof.
  unfold skel. intros E (K1 & K2 & K3). inversion E as [[E1 E2 E3]].
  split; [|rewrite E2, E3; split; assumption].
  intros h b H. destruct (skel_tget _ _ E1 h b H) as (b0 & H0 & Hs & Hd & Hsr).
  destruct (K1 h b0 H0) as (A & B & C & D). rewrite <- Hs, <- Hd, <- Hsr. repeat split; try lia; exact A.
Qed.

Lemma upd_nth_length {A} (l : list A) : forall i x, length (upd_nth l i x) = length l.
Proof. induction l as [|y r IH]; intros [|i] x; cbn; try reflexivity. f_equal. apply IH. Qed.

(* taking session s from the pool of the right kind and storing the new session under its key *)
Theorem allocation_preserves m s pool' sa dest b :
  pool_inv m -> keys_ok m -> 0 <= sa < 256 -> 0 <= dest < 256 ->
  pool_get (if dest =? addr_GLOBAL then f_bam m else f_rts m) 0 = Some (s, pool') ->
  t_session b = s -> t_dst b = dest -> t_src b = sa ->
  let m0 := if dest =? addr_GLOBAL then set_fbam m pool' else set_frts m pool' in
  let m1 := set_fsnd m0 (tset (f_snd m0) (tp22_hash s sa dest) b) in
  pool_inv m1 /\ keys_ok m1 /\ tget (f_snd m) (tp22_hash s sa dest) = None.
Proof.
  intros (I1 & I2 & I3) (K1 & K2 & K3) Hsa Hd Hget Hs Hdst Hsrc m0 m1.
  destruct (pool_get_some _ _ _ _ Hget) as (Hrng & Htrue & Hpool & _).
  replace (s - 0) with s in * by lia.
  assert (Hs16 : 0 <= s < 16).
  { destruct (dest =? addr_GLOBAL); [rewrite K3 in Hrng|rewrite K2 in Hrng]; unfold tp22_pool_bam, tp22_pool_rts in Hrng; lia. }
  (* the key is fresh: an entry there would be a session of the same kind with number s, whose flag is taken *)
  assert (Hfresh : tget (f_snd m) (tp22_hash s sa dest) = None).
  { destruct (tget (f_snd m) (tp22_hash s sa dest)) as [b0|] eqn:G; [|reflexivity]. exfalso.
    destruct (K1 _ _ G) as (Hk & Hr1 & Hr2 & Hr3). destruct (I1 _ _ G) as [_ Hfl].
    rewrite !hash22_arith in Hk.
    assert (t_session b0 = s /\ t_dst b0 = dest) as [Es Ed] by lia.
    unfold flag_of in Hfl. rewrite Es, Ed in Hfl.
    destruct (dest =? addr_GLOBAL); rewrite Htrue in Hfl; discriminate. }
  assert (Hsnd0 : f_snd m0 = f_snd m) by (unfold m0; destruct (dest =? addr_GLOBAL); reflexivity).
  split; [|split; [|exact Hfresh]].
  - split; [|split].
    + intros h b' H'. cbn [m1 f_snd set_fsnd] in H'. rewrite Hsnd0 in H'.
      destruct (Z.eq_dec (tp22_hash s sa dest) h) as [E|N].
      * subst h. rewrite tget_tset_same in H'. inversion H'; subst b'. split; [lia|].
        unfold flag_of. rewrite Hs, Hdst. unfold m1, m0.
        destruct (dest =? addr_GLOBAL) eqn:G; cbn [f_bam f_rts set_fsnd set_fbam set_frts]; rewrite Hpool;
          apply upd_nth_same; apply nth_error_Some; rewrite Htrue; discriminate.
      * rewrite tget_tset_other in H' by exact N. destruct (I1 h b' H') as [A B]. split; [exact A|].
        unfold flag_of in *. unfold m1, m0.
        destruct (dest =? addr_GLOBAL) eqn:G; cbn [f_bam f_rts set_fsnd set_fbam set_frts];
          destruct (t_dst b' =? addr_GLOBAL) eqn:G'; try exact B; rewrite Hpool;
          (destruct (Z.eq_dec (t_session b') s) as [Es|Ns];
           [exfalso; rewrite Es, Htrue in B; discriminate|rewrite upd_nth_other by lia; exact B]).
    + intros h1 h2 b1 b2 Hn H1 H2 Hk. cbn [m1 f_snd set_fsnd] in H1, H2. rewrite Hsnd0 in H1, H2.
      destruct (Z.eq_dec (tp22_hash s sa dest) h1) as [E1|N1]; destruct (Z.eq_dec (tp22_hash s sa dest) h2) as [E2|N2].
      * congruence.
      * subst h1. rewrite tget_tset_same in H1. inversion H1; subst b1. rewrite tget_tset_other in H2 by exact N2.
        rewrite Hs. intro Eq. destruct (I1 h2 b2 H2) as [_ B]. unfold flag_of in B. rewrite Hdst in Hk. rewrite <- Hk, <- Eq in B.
        destruct (dest =? addr_GLOBAL); rewrite Htrue in B; discriminate.
      * subst h2. rewrite tget_tset_same in H2. inversion H2; subst b2. rewrite tget_tset_other in H1 by exact N1.
        rewrite Hs. intro Eq. destruct (I1 h1 b1 H1) as [_ B]. unfold flag_of in B. rewrite Hdst in Hk. rewrite Hk, Eq in B.
        destruct (dest =? addr_GLOBAL); rewrite Htrue in B; discriminate.
      * rewrite tget_tset_other in H1 by exact N1. rewrite tget_tset_other in H2 by exact N2. apply (I2 h1 h2 b1 b2 Hn H1 H2 Hk).
    + cbn [m1 f_snd set_fsnd]. rewrite Hsnd0. apply tnodup_tset. exact I3.
  - split.
    + intros h b' H'. cbn [m1 f_snd set_fsnd] in H'. rewrite Hsnd0 in H'.
      destruct (Z.eq_dec (tp22_hash s sa dest) h) as [E|N].
      * subst h. rewrite tget_tset_same in H'. inversion H'; subst b'. rewrite Hs, Hdst, Hsrc. repeat split; lia.
      * rewrite tget_tset_other in H' by exact N. apply (K1 h b' H').
    + unfold m1, m0. destruct (dest =? addr_GLOBAL); cbn [f_rts f_bam set_fsnd set_fbam set_frts]; rewrite Hpool, ?upd_nth_length; split; assumption.
Qed.

(* ---------------------------------------------------------------- T02.1 segmentation into 60-byte segments *)
Lemma chunks_concat : forall fuel d, (length d / 60 < fuel)%nat -> concat (chunks fuel d) = d.
Proof.
  induction fuel as [|f IH]; intros d H; [lia|]. cbn [chunks].
  destruct (Nat.ltb_spec (length d) 60) as [L|L].
  - cbn. apply app_nil_r.
  - cbn [concat]. rewrite IH.
    + apply firstn_skipn.
    + rewrite skipn_length.
      assert (length d / 60 = S ((length d - 60) / 60))%nat as E.
      { replace (length d) with ((length d - 60) + 1 * 60)%nat at 1 by lia. rewrite Nat.div_add by lia. lia. }
      lia.
Qed.
Lemma chunks_small : forall fuel d, Forall (fun s => (length s <= 60)%nat) (chunks fuel d).
Proof.
  induction fuel as [|f IH]; intros d; cbn [chunks]; [constructor|].
  destruct (Nat.ltb_spec (length d) 60) as [L|L].
  - constructor; [lia|constructor].
  - constructor; [rewrite firstn_length; lia|apply IH].
Qed.
Theorem segments_reassemble d :
  concat (segments d) = d /\ Forall (fun s => (length s <= 60)%nat) (segments d).
Proof. unfold segments. split; [apply chunks_concat; lia|apply chunks_small]. Qed.

Example pool_example :
  let m0 := init_node22 3 None None in
  let d := repeat 7 100 in
  let m1 := fnode22 (send_pgn22 m0 0 0 208 32 6 16 d 0 3) in
  f_rts m1 = [false; true; true; true; true; true; true; true] /\ pool_inv m1.
Proof.
  cbv zeta. split; [vm_compute; reflexivity|].
  assert (E : fnode22 (send_pgn22 (init_node22 3 None None) 0 0 208 32 6 16 (repeat 7 100) 0 3) =
              wake22 (set_fsnd (set_frts (init_node22 3 None None) [false; true; true; true; true; true; true; true])
                     (tset [] (tp22_hash 0 16 32) (mk_sbuf22 53248 6 0 100 2 (segments (repeat 7 100)) tp22_st_WAITING_CTS (0 + tp22_T3) 16 32 (Some 0)))))
    by (vm_compute; reflexivity).
  rewrite E. apply (pool_inv_skel (set_fsnd (set_frts (init_node22 3 None None) [false; true; true; true; true; true; true; true])
                     (tset [] (tp22_hash 0 16 32) (mk_sbuf22 53248 6 0 100 2 (segments (repeat 7 100)) tp22_st_WAITING_CTS (0 + tp22_T3) 16 32 (Some 0))))); [reflexivity|].
  pose proof (allocation_preserves (init_node22 3 None None) 0 [false; true; true; true; true; true; true; true] 16 32
                (mk_sbuf22 53248 6 0 100 2 (segments (repeat 7 100)) tp22_st_WAITING_CTS (0 + tp22_T3) 16 32 (Some 0))
                (pool_inv_init 3 None None) (keys_ok_init 3 None None) ltac:(lia) ltac:(lia) eq_refl eq_refl eq_refl eq_refl) as [P _].
  exact P.
Qed.

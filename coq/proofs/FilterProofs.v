(* FilterProofs.v — C05 (J1939-21 layer and the ECU-level delivery rule / listener). *)
From J1939 Require Import Base CodecGlue Model21.
From J1939.gen Require Import Codec Tp21Gen CaGen.
From J1939P Require Import CodecProofs Flat.

(* T05.4: the listener forwards only extended data frames; everything a handler raises is contained *)
Theorem listener_filter n now id ext remote err data :
  listener n now id ext remote err data =
  if ext && negb remote && negb err then catch (notify n now id data) else Done n 0.
Proof. unfold listener. destruct ext, remote, err; reflexivity. Qed.

Lemma catch_never_raises (a : act node) : exists r, fres (catch a) = RDone r.
Proof.
  unfold fres. induction a as [s r|s e|s o k IH]; cbn [catch flat].
  - exists r. reflexivity.
  - exists 0. reflexivity.
  - destruct (IH s) as [r Hr]. destruct (flat (catch (k s))) as [[s' os] r']. cbn in *. exists r. exact Hr.
Qed.

Theorem listener_contains_exceptions n now id ext remote err data :
  exists r, fres (listener n now id ext remote err data) = RDone r.
Proof.
  rewrite listener_filter. destruct (ext && negb remote && negb err).
  - apply catch_never_raises.
  - exists 0. reflexivity.
Qed.

(* all 8 flag combinations: only (extended, not remote, not error) reaches notify *)
Theorem listener_drops_non_data_frames n now id ext remote err data :
  (ext = false \/ remote = true \/ err = true) ->
  flat (listener n now id ext remote err data) = (n, [], RDone 0).
Proof. intros H. unfold listener. destruct ext, remote, err; try reflexivity. destruct H as [H|[H|H]]; discriminate. Qed.

(* T05.2: which subscribers a message with destination dest reaches *)
Theorem delivery_rule n s dest :
  sub_matches n s dest = true <->
  match sb_filt s with
  | FNone => True
  | FAddr a => dest = addr_GLOBAL \/ dest = a
  | FCa i => dest = addr_GLOBAL \/
             exists c, nth_error (n_cas n) i = Some c /\ c_state c = ca_state_NORMAL /\ c_addr c = Some dest
  end.
Proof.
  unfold sub_matches. destruct (sb_filt s) as [|a|i].
  - tauto.
  - rewrite orb_true_iff, !Z.eqb_eq. tauto.
  - rewrite orb_true_iff, Z.eqb_eq. split.
    + intros [H|H]; [left; exact H|].
      destruct (nth_error (n_cas n) i) as [c|] eqn:E; [|discriminate].
      destruct (Z.eq_dec dest addr_GLOBAL) as [G|G]; [left; exact G|right].
      exists c. split; [reflexivity|]. unfold ca_acceptable in H.
      destruct (c_state c =? ca_state_NORMAL) eqn:Es; cbn [negb] in H; [|discriminate].
      assert ((dest =? addr_GLOBAL) = false) as Hg by lia. rewrite Hg in H.
      destruct (c_addr c) as [a|]; [|discriminate]. split; [lia|f_equal; lia].
    + intros [H|(c & Hc & Hs & Ha)]; [left; exact H|right].
      rewrite Hc. unfold ca_acceptable. rewrite Hs, Ha. cbn [Z.eqb negb].
      rewrite Z.eqb_refl. cbn [negb]. destruct (dest =? addr_GLOBAL); [reflexivity|apply Z.eqb_refl].
Qed.

(* a CA that does not hold an address receives nothing destination-specific *)
Theorem no_address_nothing_specific n s i c dest :
  sb_filt s = FCa i -> nth_error (n_cas n) i = Some c -> c_state c <> ca_state_NORMAL -> dest <> addr_GLOBAL ->
  sub_matches n s dest = false.
Proof.
  intros Hf Hc Hs Hd. unfold sub_matches. rewrite Hf, Hc. unfold ca_acceptable.
  assert ((c_state c =? ca_state_NORMAL) = false) as -> by lia.
  assert ((dest =? addr_GLOBAL) = false) as -> by lia. reflexivity.
Qed.

(* T05.5: a bystander that accepts none of the destinations of a foreign exchange ends in its initial
   state having emitted nothing — for ANY sequence of PDU1 frames (RTS, CTS, DT, abort, requests, data) *)
Record pdu1 := { p_prio : Z; p_pf : Z; p_dest : Z; p_sa : Z; p_data : list Z; p_time : Z }.
Definition pdu1_ok (f : pdu1) : Prop :=
  0 <= p_prio f < 8 /\ 0 <= p_pf f < 240 /\ 0 <= p_dest f < 256 /\ 0 <= p_sa f < 256.
Definition feed_frame (st : node * list out) (f : pdu1) : node * list out :=
  let '(n', os, _) := flat (notify (fst st) (p_time f) (mid_can_id_of (p_prio f) (pgn_value_of 0 (p_pf f) (p_dest f)) (p_sa f)) (p_data f)) in
  (n', snd st ++ os).

Theorem bystander_untouched n frames :
  Forall pdu1_ok frames -> Forall (fun f => accepts n (p_dest f) = false) frames ->
  fold_left feed_frame frames (n, []) = (n, []).
Proof.
  intros Hok Hacc. induction frames as [|f r IH]; [reflexivity|].
  inversion Hok as [|? ? H1 H2]; inversion Hacc as [|? ? A1 A2]; subst.
  cbn [fold_left]. unfold feed_frame at 2. cbn [fst snd].
  destruct H1 as (Hp & Hf & Hd & Hs).
  rewrite notify_foreign by assumption. cbn [flat app]. apply IH; assumption.
Qed.

Example bystander_example :
  let n0 := subscribe (init_node 1 None None) 1 (FAddr 64) in
  accepts n0 65 = false /\ accepts n0 64 = true.
Proof. vm_compute. split; reflexivity. Qed.

(* Net22Mpg.v — C11 end to end: in the closed loop of two FD model nodes (Net22.v), any list of parameter groups of 1..60 bytes
   submitted at one instant with time limits to one destination, as long as they fit one frame, leaves in ONE multi-PG frame
   at exactly the smallest of the limits, and every group reaches the listeners on B exactly once, in order, byte-identical,
   with its own PGN; afterwards nothing is queued and no buffer is left. *)
From J1939 Require Import Base CodecGlue Model21 Model22.
From J1939.gen Require Import Codec Tp21Gen CaGen Tp22Gen.
From J1939P Require Import CodecProofs Flat MpgProofs PoolProofs Tp21Seg Tp21Resp Tp22Proofs Tp22Resp Net21 Net21Proofs Net22 Net22Proofs Net22Bam.
Local Arguments Z.add : simpl never.
Local Arguments Z.sub : simpl never.
Local Arguments Z.mul : simpl never.

(* one submission: what the application hands to send_pgn *)
Record subm := { u_dp : Z; u_pf : Z; u_prio : Z; u_dat : list Z; u_tl : Z }.
Definition subm_ok (g : subm) : Prop :=
  0 <= u_dp g < 2 /\ 0 <= u_pf g < 240 /\ 0 <= u_prio g < 8 /\ (1 <= length (u_dat g) <= 60)%nat /\ 0 < u_tl g.
Definition cpg_of (g : subm) : cpg :=
  {| g_prio := u_prio g; g_tos := 2; g_tf := 0; g_cpgn := u_dp g * 65536 + u_pf g * 256; g_len := len (u_dat g); g_data := u_dat g |}.

Definition net22_submit (sa ps : Z) (s : net22) (g : subm) : net22 :=
  let '(a', os, _) := flat22 (send_pgn22 (fa s) (fclk s) (u_dp g) (u_pf g) ps (u_prio g) sa (u_dat g) (u_tl g) ff_FEFF) in
  {| fa := a'; fb := fb s; pa := pa s; pb := pb s ++ txs os; fclk := fclk s;
     eva2 := eva2 s ++ evs os; evb2 := evb2 s; wab2 := wab2 s ++ txs os; wba2 := wba2 s |}.

Lemma cpgn_arith dp pf ps : 0 <= dp < 2 -> 0 <= pf < 240 -> 0 <= ps < 256 ->
  Z.land (Z.land (pgn_value dp pf ps) 1048320) 262143 = dp * 65536 + pf * 256.
Proof.
  intros. rewrite pgn_value_arith by lia.
  change 1048320 with (Z.ones 12 * 2 ^ 8). rewrite land_high_mask by lia. rewrite land_3FFFF. pow2_norm. lia.
Qed.

Lemma send_small m now dp pf ps prio sa data tl :
  0 <= dp < 2 -> 0 <= pf < 240 -> 0 <= ps < 255 -> 0 <= prio < 8 -> (1 <= length data <= 60)%nat -> tl <> 0 ->
  flat22 (send_pgn22 m now dp pf ps prio sa data tl ff_FEFF) =
  match mpg_collect 300 0 ff_FEFF sa ps
          {| g_prio := prio; g_tos := 2; g_tf := 0; g_cpgn := dp * 65536 + pf * 256; g_len := len data; g_data := data |}
          now (now + tl) (f_mpg m) with
  | None => (m, [], RRaise E_Fuel)
  | Some t' => (wake22 (set_fmpg m t'), [], RDone 1)
  end.
Proof.
  intros Hdp Hpf Hps Hpr Hlen Htl. unfold send_pgn22. unfold pgn_mk. rewrite !land_255, land_1. rewrite !Z.mod_small by lia.
  assert ((len data <=? tp22_TP) = true) as -> by (unfold tp22_TP, len; lia).
  assert (pgn_is_pdu1 pf = true) as -> by (unfold pgn_is_pdu1; destruct (Z.geb_spec pf 0), (Z.leb_spec pf 239); try lia; reflexivity).
  change (ff_FEFF =? ff_FBFF) with false. cbn [andb]. cbv iota.
  unfold mpg_cpg_fields. rewrite cpgn_arith by lia. rewrite !land_7. rewrite (Z.mod_small prio) by lia.
  change (2 mod 8) with 2. change (0 mod 8) with 0.
  assert ((tl =? 0) = false) as -> by lia.
  destruct (mpg_collect _ _ _ _ _ _ _ _ _); reflexivity.
Qed.

Lemma letfst (x : node22 * list out * res) : (let '(m', os, _) := x in (m', os)) = fst x.
Proof. destruct x as [[? ?] ?]. reflexivity. Qed.

Definition unhash_ok (sa ps : Z) : bool :=
  let '(a, b, c, d) := tp22_unhash_mpg (tp22_hash_mpg ff_FEFF 0 sa ps) in (a =? ff_FEFF) && (b =? 0) && (c =? sa) && (d =? ps).
Lemma unhash_sweep : forallb (fun sa => forallb (unhash_ok sa) (zrange 256 0)) (zrange 256 0) = true.
Proof. vm_compute. reflexivity. Qed.
Lemma unhash_hash sa ps : 0 <= sa < 256 -> 0 <= ps < 256 ->
  tp22_unhash_mpg (tp22_hash_mpg ff_FEFF 0 sa ps) = (ff_FEFF, 0, sa, ps).
Proof.
  intros Hs Hp. pose proof unhash_sweep as S. rewrite forallb_forall in S.
  specialize (S sa ltac:(apply In_zrange; lia)). rewrite forallb_forall in S.
  specialize (S ps ltac:(apply In_zrange; lia)). unfold unhash_ok in S.
  destruct (tp22_unhash_mpg _) as [[[a b] c] d]. repeat f_equal; lia.
Qed.

Section MpgLoop.
  Variables (sa ps t0 : Z) (A0 B0 : node22).
  Hypothesis Hsa : 0 <= sa < 255.
  Hypothesis Hps : 0 <= ps < 255.
  Hypothesis Ht0 : 0 < t0.
  Hypothesis HA : f_snd A0 = [] /\ f_rcv A0 = [] /\ f_mpg A0 = [] /\ n_timers (base A0) = [].
  Hypothesis HB : f_snd B0 = [] /\ f_rcv B0 = [] /\ f_mpg B0 = [] /\ n_timers (base B0) = [] /\ accepts (base B0) ps = true.
  Let h := tp22_hash_mpg ff_FEFF 0 sa ps.

  Definition buf1 (g : subm) : mbuf := {| m_deadline := t0 + u_tl g; m_cpgs := [cpg_of g]; m_fill := 4 + len (u_dat g) |}.
  Definition acc_buf (b : mbuf) (g : subm) : mbuf :=
    {| m_deadline := (if m_deadline b >? t0 + u_tl g then t0 + u_tl g else m_deadline b);
       m_cpgs := m_cpgs b ++ [cpg_of g]; m_fill := m_fill b + 4 + len (u_dat g) |}.
  Definition fill_of (gs : list subm) : Z := fold_right (fun g acc => 4 + len (u_dat g) + acc) 0 gs.

  Lemma fill_of_nonneg gs : 0 <= fill_of gs.
  Proof. induction gs as [|g r IH]; cbn [fill_of fold_right]; [lia|]. fold (fill_of r). unfold len. lia. Qed.

  Definition envA (a : node22) : Prop := f_snd a = [] /\ f_rcv a = [] /\ n_timers (base a) = [].
  Lemma envA_wake_mpg a t : envA a -> envA (wake22 (set_fmpg a t)).
  Proof. intros H. destruct a as [ab ? ? ? ? ? ?]. destruct ab. exact H. Qed.

  Lemma fmpg_wake a t : f_mpg (wake22 (set_fmpg a t)) = t.
  Proof. destruct a as [ab ? ? ? ? ? ?]. destruct ab. reflexivity. Qed.

  Lemma collect_empty f c now dl :
    mpg_collect (S f) 0 ff_FEFF sa ps c now dl [] = Some [(h, {| m_deadline := dl; m_cpgs := [c]; m_fill := 4 + g_len c |})].
  Proof. reflexivity. Qed.
  Lemma collect_fit f c now dl b : m_fill b + 4 + g_len c <= 64 ->
    mpg_collect (S f) 0 ff_FEFF sa ps c now dl [(h, b)] =
    Some [(h, {| m_deadline := (if m_deadline b >? dl then dl else m_deadline b); m_cpgs := m_cpgs b ++ [c]; m_fill := m_fill b + 4 + g_len c |})].
  Proof.
    intros Hfit. cbn [mpg_collect tget]. fold h. rewrite Z.eqb_refl.
    assert ((m_fill b <=? tp22_TP - g_len c) = true) as -> by (unfold tp22_TP; lia).
    cbn [tset]. rewrite Z.eqb_refl. reflexivity.
  Qed.

  (* a submission into the empty table opens the buffer; one into the open buffer with room left appends *)
  Lemma submit_first s g : subm_ok g -> fclk s = t0 -> f_mpg (fa s) = [] -> envA (fa s) ->
    let s' := net22_submit sa ps s g in
    f_mpg (fa s') = [(h, buf1 g)] /\ envA (fa s') /\ fb s' = fb s /\ pa s' = pa s /\ pb s' = pb s /\ fclk s' = t0 /\
    evb2 s' = evb2 s /\ wab2 s' = wab2 s.
  Proof.
    intros (Hdp & Hpf & Hpr & Hlen & Htl) Hc Hm Ea. unfold net22_submit.
    rewrite send_small by (try assumption; lia). rewrite Hm, Hc. change 300%nat with (S 299). rewrite collect_empty.
    cbn [fa fb pa pb fclk evb2 wab2 txs flat_map evs filter]. rewrite !app_nil_r.
    split; [apply fmpg_wake|]. split; [apply envA_wake_mpg; exact Ea|]. repeat split; reflexivity || assumption.
  Qed.

  Lemma submit_more s g b : subm_ok g -> fclk s = t0 -> f_mpg (fa s) = [(h, b)] -> envA (fa s) ->
    m_fill b + 4 + len (u_dat g) <= 64 ->
    let s' := net22_submit sa ps s g in
    f_mpg (fa s') = [(h, acc_buf b g)] /\ envA (fa s') /\ fb s' = fb s /\ pa s' = pa s /\ pb s' = pb s /\ fclk s' = t0 /\
    evb2 s' = evb2 s /\ wab2 s' = wab2 s.
  Proof.
    intros (Hdp & Hpf & Hpr & Hlen & Htl) Hc Hm Ea Hfit. unfold net22_submit.
    rewrite send_small by (try assumption; lia). rewrite Hm, Hc.
    change 300%nat with (S 299). rewrite collect_fit by (cbn [g_len]; lia). fold (cpg_of g).
    cbn [fa fb pa pb fclk evb2 wab2 txs flat_map evs filter]. rewrite !app_nil_r.
    split; [apply fmpg_wake|]. split; [apply envA_wake_mpg; exact Ea|]. repeat split; reflexivity || assumption.
  Qed.

  Lemma submit_all : forall gs s b, Forall subm_ok gs -> fclk s = t0 -> f_mpg (fa s) = [(h, b)] -> envA (fa s) ->
    m_fill b + fill_of gs <= 64 ->
    let s' := fold_left (net22_submit sa ps) gs s in
    f_mpg (fa s') = [(h, fold_left acc_buf gs b)] /\ envA (fa s') /\ fb s' = fb s /\ pa s' = pa s /\ pb s' = pb s /\ fclk s' = t0 /\
    evb2 s' = evb2 s /\ wab2 s' = wab2 s.
  Proof.
    induction gs as [|g r IH]; intros s b Hok Hc Hm Ea Hfit; cbn [fold_left].
    - split; [exact Hm|]. split; [exact Ea|]. repeat split; try reflexivity; assumption.
    - inversion Hok as [|? ? Hg Hr]; subst. cbn [fill_of fold_right] in Hfit. fold (fill_of r) in Hfit.
      pose proof (fill_of_nonneg r) as Hnn.
      destruct (submit_more s g b Hg Hc Hm Ea ltac:(lia)) as (M1 & E1 & F1 & P1 & Q1 & C1 & V1 & W1).
      destruct (IH (net22_submit sa ps s g) (acc_buf b g) Hr C1 M1 E1 ltac:(cbn [acc_buf m_fill]; lia)) as (M2 & E2 & F2 & P2 & Q2 & C2 & V2 & W2).
      split; [exact M2|]. split; [exact E2|]. repeat split; congruence.
  Qed.

  (* ---- the job thread of A before and at the deadline of the buffer *)
  Lemma jobA_mpg_wait a c b : envA a -> f_mpg a = [(h, b)] -> c < m_deadline b -> m_deadline b < c + 5000000 ->
    flat22 (job_iter22 a c) = (a, [], RDone (m_deadline b - c)).
  Proof.
    intros (As & Ar & At) Hm Hc Hd. unfold job_iter22, dll_job22. rewrite Ar. cbn [tkeys map rcv_pass22].
    rewrite Hm. cbn [tkeys map fst mpg_pass]. rewrite Hm. cbn [tget]. rewrite Z.eqb_refl.
    assert ((m_deadline b >? c) = true) as -> by lia. unfold minw. assert ((c + 5000000 >? m_deadline b) = true) as -> by lia.
    rewrite As. cbn [tkeys map snd_pass22]. apply btimers_tail. exact At.
  Qed.

  Lemma jobA_mpg_due a c b fr : envA a -> f_mpg a = [(h, b)] -> m_deadline b <= c ->
    send_multi_pg ff_FEFF (m_cpgs b) sa ps = Some fr ->
    flat22 (job_iter22 a c) = (set_fmpg a [], [OTx fr], RDone (c + 5000000 - c)).
  Proof.
    intros (As & Ar & At) Hm Hc Hfr. unfold job_iter22, dll_job22. rewrite Ar. cbn [tkeys map rcv_pass22].
    rewrite Hm. cbn [tkeys map fst].
    rewrite (mpg_emitted_at_deadline h c (c + 5000000) a _ b fr); [| rewrite Hm; cbn [tget]; rewrite Z.eqb_refl; reflexivity | exact Hc
      | unfold h; rewrite unhash_hash by lia; exact Hfr].
    rewrite Hm. cbn [tdel]. rewrite Z.eqb_refl.
    assert (Es : f_snd (set_fmpg a []) = []) by (destruct a; exact As). rewrite Es. cbn [tkeys map snd_pass22].
    assert (Et : n_timers (base (set_fmpg a [])) = []) by (destruct a; exact At).
    rewrite (btimers_tail (set_fmpg a []) c (c + 5000000) Et). reflexivity.
  Qed.

  (* ---- the listener B takes the frame apart *)
  Lemma feff_id prio : mpg_feff_id prio ps sa = mid_can_id_of prio (pgn_value_of 0 37 ps) sa.
  Proof. reflexivity. Qed.

  Lemma hB_mpg b c prio fr (l : list cpg) k : 0 <= prio < 8 -> accepts (base b) ps = true ->
    f_id fr = mpg_feff_id prio ps sa -> f_data fr = concat (map mpg_pack1 l) ++ mpg_padding k 0 ->
    Forall cpg_ok l -> (length l < 70)%nat ->
    handle22 b c fr = (b, group_deliveries b prio sa ps (map grp_of l)).
  Proof.
    intros Hp Hacc Hid Hdata Hok Hlen. unfold handle22. rewrite Hid, Hdata, feff_id.
    rewrite notify22_pdu1 by (try assumption; lia). change (37 * 256 =? pgn_FEFF_MULTI_PG) with true. cbv iota.
    pose proof (process_multi_pg_is_unpack 70 prio sa ps (concat (map mpg_pack1 l) ++ mpg_padding k 0) b) as H.
    rewrite unpack_pack in H by assumption.
    etransitivity; [apply letfst|exact H].
  Qed.

  (* ---- bookkeeping of the buffer over the submissions *)
  Lemma deadline_gt : forall l b, Forall subm_ok l -> t0 < m_deadline b -> t0 < m_deadline (fold_left acc_buf l b).
  Proof.
    induction l as [|g r IH]; intros b Hok Hb; cbn [fold_left]; [exact Hb|].
    inversion Hok as [|? ? Hg Hr]; subst. apply IH; [exact Hr|]. destruct Hg as (_ & _ & _ & _ & Htl).
    cbn [acc_buf m_deadline]. destruct (m_deadline b >? t0 + u_tl g); lia.
  Qed.
  Lemma deadline_min : forall l b x, m_deadline b = t0 + x ->
    m_deadline (fold_left acc_buf l b) = t0 + fold_left Z.min (map u_tl l) x.
  Proof.
    induction l as [|g r IH]; intros b x Hb; cbn [fold_left map]; [exact Hb|].
    apply IH. cbn [acc_buf m_deadline]. rewrite Hb. destruct (Z.gtb_spec (t0 + x) (t0 + u_tl g)); lia.
  Qed.
  Lemma cpgs_fold : forall l b, m_cpgs (fold_left acc_buf l b) = m_cpgs b ++ map cpg_of l.
  Proof.
    induction l as [|g r IH]; intros b; cbn [fold_left map]; [rewrite app_nil_r; reflexivity|].
    rewrite IH. cbn [acc_buf m_cpgs]. rewrite <- app_assoc. reflexivity.
  Qed.
  Lemma packed_fill : forall l, Z.of_nat (packed_len (map cpg_of l)) = fill_of l.
  Proof.
    unfold packed_len. induction l as [|g r IH]; [reflexivity|].
    cbn [map concat fill_of fold_right]. fold (fill_of r). rewrite app_length, Nat2Z.inj_add, IH.
    unfold mpg_pack1. rewrite app_length. cbn [mpg_header length cpg_of g_data]. unfold len. lia.
  Qed.
  Lemma count_fill : forall l, Forall subm_ok l -> 5 * Z.of_nat (length l) <= fill_of l.
  Proof.
    induction l as [|g r IH]; intros Hok; [cbn; lia|]. inversion Hok as [|? ? Hg Hr]; subst. specialize (IH Hr).
    destruct Hg as (_ & _ & _ & Hl & _). cbn [length fill_of fold_right]. fold (fill_of r). unfold len. lia.
  Qed.
  Lemma cpgs_ok : forall l, Forall subm_ok l -> Forall cpg_ok (map cpg_of l).
  Proof.
    induction l as [|g r IH]; intros Hok; [constructor|]. inversion Hok as [|? ? Hg Hr]; subst. cbn [map]. constructor; [|exact (IH Hr)].
    destruct Hg as (Hdp & Hpf & _ & Hl & _). unfold cpg_ok, cpg_of. cbn [g_tos g_tf g_cpgn g_len g_data]. unfold len.
    repeat split; try reflexivity; lia.
  Qed.
  Lemma pmin_range : forall (l : list cpg) p, 0 <= p < 8 -> Forall (fun c => 0 <= g_prio c < 8) l ->
    0 <= fold_left (fun p c => Z.min (g_prio c) p) l p < 8.
  Proof.
    induction l as [|c r IH]; intros p Hp Hl; cbn [fold_left]; [exact Hp|].
    inversion Hl as [|? ? Hc Hr]; subst. apply IH; [lia|exact Hr].
  Qed.
  Lemma prios_ok : forall l, Forall subm_ok l -> Forall (fun c => 0 <= g_prio c < 8) (map cpg_of l).
  Proof.
    induction l as [|g r IH]; intros Hok; [constructor|]. inversion Hok as [|? ? Hg Hr]; subst. cbn [map]. constructor; [|exact (IH Hr)].
    destruct Hg as (_ & _ & Hp & _). exact Hp.
  Qed.
  Lemma txs_group_deliveries m prio gl : txs (group_deliveries m prio sa ps gl) = [].
  Proof.
    unfold group_deliveries. induction gl as [|g r IH]; [reflexivity|]. cbn [map concat]. rewrite txs_app, txs_deliveries, IH. reflexivity.
  Qed.
  Lemma evs_group_deliveries m prio gl : evs (group_deliveries m prio sa ps gl) = group_deliveries m prio sa ps gl.
  Proof.
    unfold group_deliveries. induction gl as [|g r IH]; [reflexivity|]. cbn [map concat]. rewrite evs_app, evs_deliveries, IH. reflexivity.
  Qed.

  Section Run.
    Variables (g0 : subm) (gs : list subm).
    Hypothesis Hok : Forall subm_ok (g0 :: gs).
    Hypothesis Hfits : fill_of (g0 :: gs) <= 64.
    Let B := fold_left acc_buf gs (buf1 g0).
    Hypothesis HD : m_deadline B < t0 + 5000000.
    Let s0 := fold_left (net22_submit sa ps) (g0 :: gs) (net22_0 A0 B0 t0).
    Let cs := map cpg_of (g0 :: gs).
    Let pmin := fold_left (fun p c => Z.min (g_prio c) p) cs 7.

    Lemma s0_shape : f_mpg (fa s0) = [(h, B)] /\ envA (fa s0) /\ fb s0 = B0 /\ pa s0 = [] /\ pb s0 = [] /\ fclk s0 = t0 /\
      evb2 s0 = [] /\ wab2 s0 = [].
    Proof.
      destruct HA as (As & Ar & Am & At). pose proof (Forall_inv Hok) as Hg. pose proof (Forall_inv_tail Hok) as Hr.
      unfold s0. cbn [fold_left].
      destruct (submit_first (net22_0 A0 B0 t0) g0 Hg eq_refl Am ltac:(repeat split; assumption)) as (M1 & E1 & F1 & P1 & Q1 & C1 & V1 & W1).
      cbn [fill_of fold_right] in Hfits. fold (fill_of gs) in Hfits.
      destruct (submit_all gs _ (buf1 g0) Hr C1 M1 E1 ltac:(cbn [buf1 m_fill]; lia)) as (M2 & E2 & F2 & P2 & Q2 & C2 & V2 & W2).
      cbn [net22_0 fb pa pb evb2 wab2] in F1, P1, Q1, V1, W1.
      split; [exact M2|]. split; [exact E2|]. repeat split; congruence.
    Qed.

    Theorem mpg_loop : exists fr, send_multi_pg ff_FEFF cs sa ps = Some fr /\
      let s := steps22 3 s0 in
      pa s = [] /\ pb s = [] /\ f_mpg (fa s) = [] /\ f_snd (fa s) = [] /\ f_rcv (fa s) = [] /\ fb s = B0 /\
      evb2 s = group_deliveries B0 pmin sa ps (map grp_of cs) /\ wab2 s = [fr] /\
      tlog22 3 s0 = [(m_deadline B, fr)].
    Proof.
      destruct s0_shape as (M & Ea & Fb & Pa & Pb & Ck & Ev & Wa).
      destruct HB as (Bs & Br & Bm & Bt & Bacc).
      pose proof (Forall_inv Hok) as Hg. pose proof (Forall_inv_tail Hok) as Hr.
      assert (Hpl : (packed_len cs <= 64)%nat) by (pose proof (packed_fill (g0 :: gs)); fold cs in H; lia).
      destruct (frame_shape ff_FEFF cs sa ps Hpl) as (fr & v & Hfr & _ & Hdata & _ & _ & _ & _ & _ & Hid).
      destruct (Hid ltac:(discriminate)) as (_ & Hid'). clear Hid.
      exists fr. split; [exact Hfr|].
      assert (Ht : t0 < m_deadline B).
      { apply deadline_gt; [exact Hr|]. destruct Hg as (_ & _ & _ & _ & Htl). cbn [buf1 m_deadline]. lia. }
      assert (Hcs : m_cpgs B = cs) by (unfold B; rewrite cpgs_fold; reflexivity).
      (* step 1: nothing is due, the clock moves to the deadline *)
      assert (S1 : step22 s0 = {| fa := fa s0; fb := B0; pa := []; pb := []; fclk := m_deadline B; eva2 := eva2 s0; evb2 := [];
                                  wab2 := []; wba2 := wba2 s0 |}).
      { rewrite (bstep22_idle s0 Pb Pa). rewrite Ck, Fb.
        rewrite (jobA_mpg_wait (fa s0) t0 B Ea M Ht HD). rewrite (jobq22 B0 t0 Br Bm Bs Bt).
        cbn [txs flat_map evs filter sleep_of andb]. rewrite !Z.eqb_refl. cbn [andb].
        rewrite Ev, Wa, !app_nil_r. f_equal. lia. }
      set (s1 := step22 s0) in *.
      (* step 2: the frame leaves *)
      assert (S2 : step22 s1 = {| fa := set_fmpg (fa s0) []; fb := B0; pa := []; pb := [fr]; fclk := m_deadline B; eva2 := eva2 s0; evb2 := [];
                                  wab2 := [fr]; wba2 := wba2 s0 |}).
      { rewrite (bstep22_idle s1) by (rewrite S1; reflexivity). rewrite S1. cbn [fa fb pa pb fclk eva2 evb2 wab2 wba2].
        rewrite (jobA_mpg_due (fa s0) (m_deadline B) B fr Ea M ltac:(lia) ltac:(rewrite Hcs; exact Hfr)).
        rewrite (jobq22 B0 (m_deadline B) Br Bm Bs Bt).
        cbn [txs flat_map evs filter sleep_of andb app]. rewrite !app_nil_r. f_equal. lia. }
      set (s2 := step22 s1) in *.
      (* step 3: B takes it apart *)
      assert (Hpm : 0 <= pmin < 8) by (apply pmin_range; [lia|apply prios_ok; exact Hok]).
      assert (Hn : (length cs < 70)%nat).
      { pose proof (count_fill (g0 :: gs) Hok). unfold cs. rewrite map_length. lia. }
      assert (S3 : step22 s2 = {| fa := set_fmpg (fa s0) []; fb := B0; pa := []; pb := []; fclk := m_deadline B; eva2 := eva2 s0;
                                  evb2 := group_deliveries B0 pmin sa ps (map grp_of cs); wab2 := [fr]; wba2 := wba2 s0 |}).
      { rewrite (bstep22_b s2 fr []) by (rewrite S2; reflexivity). rewrite S2. cbn [fa fb pa pb fclk eva2 evb2 wab2 wba2].
        rewrite (hB_mpg B0 (m_deadline B) pmin fr cs _ Hpm Bacc Hid' Hdata (cpgs_ok _ Hok) Hn).
        rewrite txs_group_deliveries, evs_group_deliveries. rewrite !app_nil_r. reflexivity. }
      change (steps22 3 s0) with (step22 s2). cbn zeta. rewrite S3. cbn [fa fb pa pb fclk eva2 evb2 wab2 wba2].
      destruct Ea as (As' & Ar' & _).
      split; [reflexivity|]. split; [reflexivity|]. split; [destruct (fa s0); reflexivity|].
      split; [destruct (fa s0); exact As'|]. split; [destruct (fa s0); exact Ar'|]. split; [reflexivity|].
      split; [reflexivity|]. split; [reflexivity|].
      cbn [tlog22]. fold s1. fold s2.
      rewrite (newtx22_same s0 s1) by (rewrite S1, Wa; reflexivity).
      rewrite (newtx22_snoc s1 s2 [fr]) by (rewrite S2, S1; reflexivity).
      rewrite (newtx22_same s2 (step22 s2)) by (rewrite S3, S2; reflexivity).
      rewrite S1. reflexivity.
    Qed.
  End Run.
End MpgLoop.

(* T11.10: the multi-PG closed loop, stated without the proof's vocabulary *)
Theorem mpg_closed_loop_delivers sa ps t0 A0 B0 g0 gs :
  0 <= sa < 255 -> 0 <= ps < 255 -> 0 < t0 ->
  f_snd A0 = [] /\ f_rcv A0 = [] /\ f_mpg A0 = [] /\ n_timers (base A0) = [] ->
  f_snd B0 = [] /\ f_rcv B0 = [] /\ f_mpg B0 = [] /\ n_timers (base B0) = [] /\ accepts (base B0) ps = true ->
  Forall subm_ok (g0 :: gs) ->
  fold_right (fun g acc => 4 + len (u_dat g) + acc) 0 (g0 :: gs) <= 64 ->
  let D := fold_left Z.min (map u_tl gs) (u_tl g0) in
  D < 5000000 ->
  let cs := map cpg_of (g0 :: gs) in
  let pmin := fold_left (fun p c => Z.min (g_prio c) p) cs 7 in
  let s0 := fold_left (net22_submit sa ps) (g0 :: gs) (net22_0 A0 B0 t0) in
  exists fr, send_multi_pg ff_FEFF cs sa ps = Some fr /\
    let s := steps22 3 s0 in
    pa s = [] /\ pb s = [] /\ f_mpg (fa s) = [] /\ f_snd (fa s) = [] /\ f_rcv (fa s) = [] /\ fb s = B0 /\
    evb2 s = concat (map (fun g => deliveries (base B0) pmin (u_dp g * 65536 + u_pf g * 256) sa ps (u_dat g)) (g0 :: gs)) /\
    wab2 s = [fr] /\
    tlog22 3 s0 = [(t0 + D, fr)].
Proof.
  intros Hsa Hps Ht0 HA HB Hok Hfits D HD cs pmin s0.
  assert (Hdl : m_deadline (fold_left (acc_buf t0) gs (buf1 t0 g0)) = t0 + D) by (exact (deadline_min sa ps t0 A0 gs (buf1 t0 g0) (u_tl g0) eq_refl)).
  pose proof (mpg_loop sa ps t0 A0 B0) as H.
  repeat match type of H with ?P -> _ => specialize (H ltac:(assumption)) end.
  specialize (H ltac:(rewrite Hdl; lia)).
  cbn zeta in H. destruct H as (fr & Hfr & Q1 & Q2 & Q3 & Q4 & Q5 & Q6 & Q7 & Q8 & Q9). exists fr. split; [exact Hfr|].
  cbn zeta. split; [exact Q1|]. split; [exact Q2|]. split; [exact Q3|]. split; [exact Q4|]. split; [exact Q5|]. split; [exact Q6|].
  split; [|split; [exact Q8|]].
  - unfold s0. rewrite Q7. unfold group_deliveries. rewrite !map_map. reflexivity.
  - unfold s0. rewrite Q9, Hdl. reflexivity.
Qed.

Example mpg_closed_loop_instance :
  let A := init_node22 3 None None in
  let B := sub22 (init_node22 2 None None) 7 (FAddr 144) in
  let g1 := {| u_dp := 0; u_pf := 239; u_prio := 6; u_dat := [1; 2; 3]; u_tl := 20000 |} in
  let g2 := {| u_dp := 1; u_pf := 18; u_prio := 3; u_dat := map Z.of_nat (seq 1 40); u_tl := 5000 |} in
  let s0 := fold_left (net22_submit 128 144) [g1; g2] (net22_0 A B 1000) in
  let s := steps22 3 s0 in
  evb2 s = [OCb 7 3 61184 128 [1; 2; 3]; OCb 7 3 70144 128 (map Z.of_nat (seq 1 40))] /\
  map fst (tlog22 3 s0) = [6000] /\ map (fun x => length (f_data (snd x))) (tlog22 3 s0) = [64%nat] /\ f_mpg (fa s) = [].
Proof. vm_compute. repeat split. Qed.

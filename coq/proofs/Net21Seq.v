(* Net21Seq.v — C10/C01 end to end over a history: any number of J1939-21 connection-mode transfers run one after the other
   between two model nodes (each submitted when the network has come to rest) ALL deliver: after every one the nodes
   meet the premises of the closed-loop theorem again, so the theorem applies to the next. *)
From J1939 Require Import Base CodecGlue Model21.
From J1939.gen Require Import Codec Tp21Gen CaGen.
From J1939P Require Import CodecProofs Flat Tp21Seg Tp21Resp Tp21Orig Net21 Net21Proofs.
Local Arguments Z.add : simpl never.
Local Arguments Z.mul : simpl never.

(* ---- the logs of the network are write-only: a step neither reads nor reorders what was recorded before *)
Record logs := { l_eva : list out; l_evb : list out; l_wab : list frame; l_wba : list frame }.
Definition plog (L : logs) (s : net) : net :=
  {| na := na s; nb := nb s; qa := qa s; qb := qb s; clk := clk s;
     eva := l_eva L ++ eva s; evb := l_evb L ++ evb s; wab := l_wab L ++ wab s; wba := l_wba L ++ wba s |}.

Lemma step_plog L s : step (plog L s) = plog L (step s).
Proof.
  unfold step, plog. cbn [na nb qa qb clk eva evb wab wba].
  destruct (qb s) as [|f r].
  - destruct (qa s) as [|f r].
    + destruct (flat (job_iter (na s) (clk s))) as [[a' oa] ra]. destruct (flat (job_iter (nb s) (clk s))) as [[b' ob] rb].
      cbn [na nb qa qb clk eva evb wab wba]. rewrite <- !app_assoc. reflexivity.
    + destruct (handle (na s) (clk s) f) as [n' os]. cbn [na nb qa qb clk eva evb wab wba]. rewrite <- !app_assoc. reflexivity.
  - destruct (handle (nb s) (clk s) f) as [n' os]. cbn [na nb qa qb clk eva evb wab wba]. rewrite <- !app_assoc. reflexivity.
Qed.
Lemma steps_plog L : forall j s, steps j (plog L s) = plog L (steps j s).
Proof. induction j as [|j IH]; intros s; cbn [steps]; [reflexivity|]. rewrite step_plog. apply IH. Qed.
Lemma net_send_plog L s dp pf ps prio sa d : net_send (plog L s) dp pf ps prio sa d = plog L (net_send s dp pf ps prio sa d).
Proof.
  unfold net_send, plog. cbn [na nb qa qb clk eva evb wab wba].
  destruct (flat (send_pgn (na s) (clk s) dp pf ps prio sa d)) as [[a' os] r].
  cbn [na nb qa qb clk eva evb wab wba]. rewrite <- !app_assoc. reflexivity.
Qed.
Lemma rest_is_plog s : qa s = [] -> qb s = [] ->
  s = plog {| l_eva := eva s; l_evb := evb s; l_wab := wab s; l_wba := wba s |} (net0 (na s) (nb s) (clk s)).
Proof. intros Ha Hb. destruct s. cbn in *. subst. unfold plog, net0. cbn. rewrite !app_nil_r. reflexivity. Qed.

(* ---- a history of transfers, each submitted when the network is at rest *)
Record msg := { m_dp : Z; m_pf : Z; m_prio : Z; m_data : list Z }.
Definition msg_ok (m : msg) : Prop := 0 <= m_dp m < 2 /\ 0 <= m_pf m < 240 /\ 0 <= m_prio m < 8 /\ 8 < len (m_data m) <= 1785.
Fixpoint seq_reach (sa dest : Z) (s : net) (ms : list msg) (s' : net) : Prop :=
  match ms with
  | [] => s' = s
  | m :: r => exists j, seq_reach sa dest (steps j (net_send s (m_dp m) (m_pf m) dest (m_prio m) sa (m_data m))) r s'
  end.
Definition wire_of (sa dest maxp : Z) (m : msg) : list frame :=
  let pv := m_dp m * 65536 + m_pf m * 256 in
  let num := Z.of_nat (npk (length (m_data m))) in
  tp21_rts sa dest (m_prio m) pv (len (m_data m)) num (Z.min maxp num)
  :: map (fun k => tp21_dt sa dest (dt_payload (m_data m) (Z.of_nat k))) (seq 0 (npk (length (m_data m)))).

Definition premA (sa : Z) (a : node) : Prop :=
  n_snd a = [] /\ n_rcv a = [] /\ n_timers a = [] /\ n_cmdt_iv a = None /\ accepts a sa = true /\ 1 <= n_maxp a.
Definition premB (dest : Z) (b : node) : Prop :=
  n_snd b = [] /\ n_rcv b = [] /\ n_timers b = [] /\ accepts b dest = true /\ 1 <= n_maxp b.

Lemma deliveries_same b b' prio pgn sa dest d : n_subs b' = n_subs b -> n_cas b' = n_cas b ->
  deliveries b' prio pgn sa dest d = deliveries b prio pgn sa dest d.
Proof.
  intros E1 E2. unfold deliveries, deliveries_from. rewrite E1. f_equal. apply filter_ext. intros x.
  unfold sub_matches. rewrite E2. reflexivity.
Qed.

Theorem sequence_delivers sa dest : 0 <= sa < 255 -> 0 <= dest < 255 ->
  forall ms s, Forall msg_ok ms -> qa s = [] -> qb s = [] -> 0 < clk s -> premA sa (na s) -> premB dest (nb s) ->
  exists s', seq_reach sa dest s ms s' /\
    qa s' = [] /\ qb s' = [] /\ premA sa (na s') /\ premB dest (nb s') /\
    evb s' = evb s ++ concat (map (fun m => deliveries (nb s) 7 (m_dp m * 65536 + m_pf m * 256) sa dest (m_data m)) ms) /\
    wab s' = wab s ++ concat (map (wire_of sa dest (n_maxp (na s))) ms).
Proof.
  intros Hsa Hdest. induction ms as [|m r IH]; intros s Hok Hqa Hqb Hc HA HB.
  - exists s. cbn [seq_reach map concat]. rewrite !app_nil_r.
    split; [reflexivity|]. split; [exact Hqa|]. split; [exact Hqb|]. split; [exact HA|]. split; [exact HB|]. split; reflexivity.
  - pose proof (Forall_inv Hok) as (Hdp & Hpf & Hpr & Hlen). pose proof (Forall_inv_tail Hok) as Hr.
    destruct (closed_loop_restores (m_prio m) sa dest (m_dp m) (m_pf m) (m_data m) (clk s) (na s) (nb s)
                Hpr Hsa Hdest Hpf Hdp Hlen Hc HA HB) as (j & (Q1 & Q2 & Qc & Qe & Qw) & HA' & HB' & Qm & Qs & Qcas).
    set (L := {| l_eva := eva s; l_evb := evb s; l_wab := wab s; l_wba := wba s |}).
    set (s1 := steps j (net_send s (m_dp m) (m_pf m) dest (m_prio m) sa (m_data m))).
    assert (E1 : s1 = plog L (steps j (net_send (net0 (na s) (nb s) (clk s)) (m_dp m) (m_pf m) dest (m_prio m) sa (m_data m)))).
    { unfold s1. rewrite (rest_is_plog s Hqa Hqb) at 1. fold L. rewrite net_send_plog, steps_plog. reflexivity. }
    destruct (IH s1 Hr) as (s' & Hreach & R1 & R2 & RA & RB & Re & Rw).
    + rewrite E1. exact Q1.
    + rewrite E1. exact Q2.
    + rewrite E1. cbn [plog clk]. lia.
    + rewrite E1. exact HA'.
    + rewrite E1. exact HB'.
    + exists s'. split; [exists j; exact Hreach|]. split; [exact R1|]. split; [exact R2|]. split; [exact RA|]. split; [exact RB|].
      split.
      * rewrite Re. rewrite E1. cbn [plog evb nb map concat L l_evb]. rewrite Qe. rewrite <- app_assoc. f_equal. f_equal.
        f_equal. apply map_ext. intros m'. apply deliveries_same; assumption.
      * rewrite Rw. rewrite E1. cbn [plog wab na map concat L l_wab]. rewrite Qw, Qm. rewrite <- app_assoc. reflexivity.
Qed.

(* two transfers of different sizes, windows 3 and 2, one after the other *)
Example sequence_instance :
  let A := subscribe (init_node 3 None None) 1 (FAddr 128) in
  let B := subscribe (init_node 2 None None) 7 (FAddr 144) in
  let p1 := map Z.of_nat (seq 1 20) in let p2 := map Z.of_nat (seq 5 9) in
  let s1 := steps 12 (net_send (net0 A B 1000) 0 239 144 6 128 p1) in
  let s2 := steps 9 (net_send s1 1 18 144 3 128 p2) in
  quiet s2 = true /\ evb s2 = [OCb 7 7 61184 128 p1; OCb 7 7 70144 128 p2] /\ length (wab s2) = 7%nat.
Proof. vm_compute. repeat split. Qed.

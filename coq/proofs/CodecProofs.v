(* CodecProofs.v — C15: identifier / PGN / NAME codecs (all on GENERATED definitions). *)
From J1939 Require Import Base CodecGlue.
From J1939.gen Require Import Codec.

Lemma lor_add_low x y k : 0 <= k -> x mod 2 ^ k = 0 -> 0 <= y < 2 ^ k -> Z.lor x y = x + y.
Proof.
  intros Hk Hx Hy.
  assert (x = (x / 2 ^ k) * 2 ^ k) as E.
  { pose proof (Z.div_mod x (2 ^ k)) as D. assert (2 ^ k <> 0) by lia. specialize (D H). lia. }
  rewrite E at 1. rewrite lor_mul_pow2_add by assumption. lia.
Qed.

(* ---------------------------------------------------------------- identifier *)
Lemma can_id_arith prio pgn sa :
  0 <= prio < 8 -> 0 <= pgn < 262144 -> 0 <= sa < 256 ->
  mid_can_id prio pgn sa = prio * 67108864 + pgn * 256 + sa.
Proof.
  intros Hp Hg Hs. unfold mid_can_id. bits_to_arith.
  rewrite (lor_add_low (prio * 67108864) (pgn * 256) 26) by (pow2_norm; lia).
  rewrite (lor_add_low (prio * 67108864 + pgn * 256) sa 8) by (pow2_norm; lia).
  reflexivity.
Qed.

Lemma mid_parse_arith id :
  mid_parse id = ((id / 67108864) mod 8, (id / 256) mod 262144, id mod 256).
Proof. unfold mid_parse. bits_to_arith. reflexivity. Qed.

Theorem T15_1_id_parse_compose id :
  0 <= id < 2 ^ 29 ->
  let '(p, g, s) := mid_parse id in mid_can_id p g s = id.
Proof.
  intros H. rewrite mid_parse_arith. pow2_norm.
  rewrite can_id_arith by lia. lia.
Qed.

Theorem T15_2_id_compose_parse prio pgn sa :
  mid_parse (mid_can_id_of prio pgn sa) = (prio mod 8, pgn mod 262144, sa mod 256).
Proof.
  unfold mid_can_id_of, mid_mk. bits_to_arith.
  rewrite can_id_arith by lia. rewrite mid_parse_arith.
  f_equal; [f_equal|]; lia.
Qed.

Corollary T15_2_in_range prio pgn sa :
  0 <= prio < 8 -> 0 <= pgn < 262144 -> 0 <= sa < 256 ->
  mid_parse (mid_can_id_of prio pgn sa) = (prio, pgn, sa).
Proof.
  intros. rewrite T15_2_id_compose_parse. f_equal; [f_equal|]; lia.
Qed.

Theorem id_in_29_bits prio pgn sa : 0 <= mid_can_id_of prio pgn sa < 2 ^ 29.
Proof.
  unfold mid_can_id_of, mid_mk. bits_to_arith. rewrite can_id_arith by lia. lia.
Qed.

(* ---------------------------------------------------------------- PGN *)
Lemma pgn_value_arith dp pf ps :
  0 <= dp < 2 -> 0 <= pf < 256 -> 0 <= ps < 256 ->
  pgn_value dp pf ps = dp * 65536 + pf * 256 + ps.
Proof.
  intros. unfold pgn_value. bits_to_arith.
  rewrite (lor_add_low (dp * 65536) (pf * 256) 16) by (pow2_norm; lia).
  rewrite (lor_add_low (dp * 65536 + pf * 256) ps 8) by (pow2_norm; lia).
  reflexivity.
Qed.

Theorem T15_3_pgn_value dp pf ps :
  pgn_value_of dp pf ps = (dp mod 2) * 65536 + (pf mod 256) * 256 + ps mod 256.
Proof.
  unfold pgn_value_of, pgn_mk. bits_to_arith. apply pgn_value_arith; lia.
Qed.

Theorem T15_3_pgn_fields pgn :
  pgn_from_mid pgn = ((pgn / 65536) mod 2, (pgn / 256) mod 256, pgn mod 256).
Proof. unfold pgn_from_mid. bits_to_arith. reflexivity. Qed.

(* value (from_message_id g) = g for the 17 bits the class represents (EDP bit dropped) *)
Theorem T15_3_pgn_roundtrip pgn :
  0 <= pgn < 262144 ->
  let '(dp, pf, ps) := pgn_from_mid pgn in pgn_value dp pf ps = pgn mod 131072.
Proof.
  intros H. rewrite T15_3_pgn_fields. rewrite pgn_value_arith by lia. lia.
Qed.

Theorem T15_3_fields_of_value dp pf ps :
  0 <= dp < 2 -> 0 <= pf < 256 -> 0 <= ps < 256 ->
  pgn_from_mid (pgn_value dp pf ps) = (dp, pf, ps).
Proof.
  intros. rewrite pgn_value_arith by lia. rewrite T15_3_pgn_fields. f_equal; [f_equal|]; lia.
Qed.

Theorem T15_3_pdu_classification pf :
  0 <= pf < 256 ->
  (pgn_is_pdu1 pf = true <-> pf < 240) /\ (pgn_is_pdu2 pf = true <-> 240 <= pf) /\
  pgn_is_pdu1 pf = negb (pgn_is_pdu2 pf).
Proof.
  intros H. unfold pgn_is_pdu1, pgn_is_pdu2.
  destruct (Z.geb pf 0 && Z.leb pf 239) eqn:E1; destruct (Z.geb pf 240 && Z.leb pf 255) eqn:E2;
    cbn [negb]; repeat split; intros; try lia; try discriminate.
Qed.

(* ---------------------------------------------------------------- NAME *)
Definition name_fields_in_range (f : name_fields) : Prop :=
  let '(idn, mc, ei, fi, fn, rb, vs, vsi, ig, aac) := f in
  0 <= idn < 2 ^ 21 /\ 0 <= mc < 2 ^ 11 /\ 0 <= ei < 2 ^ 3 /\ 0 <= fi < 2 ^ 5 /\ 0 <= fn < 2 ^ 8 /\
  rb = 0 /\ 0 <= vs < 2 ^ 7 /\ 0 <= vsi < 2 ^ 4 /\ 0 <= ig < 2 ^ 3 /\ 0 <= aac < 2.

Lemma name_of_value_arith v :
  name_of_value v =
  (v mod 2 ^ 21, (v / 2 ^ 21) mod 2 ^ 11, (v / 2 ^ 32) mod 2 ^ 3, (v / 2 ^ 35) mod 2 ^ 5,
   (v / 2 ^ 40) mod 2 ^ 8, (v / 2 ^ 48) mod 2, (v / 2 ^ 49) mod 2 ^ 7, (v / 2 ^ 56) mod 2 ^ 4,
   (v / 2 ^ 60) mod 2 ^ 3, (v / 2 ^ 63) mod 2).
Proof. unfold name_of_value. bits_to_arith. reflexivity. Qed.

(* one more field on top of an accumulated value that fits below it: `|` and `+` agree (the source may use either) *)
Lemma lor_field acc f k : 0 <= k -> 0 <= acc < 2 ^ k -> Z.lor acc (f * 2 ^ k) = acc + f * 2 ^ k.
Proof.
  intros Hk Ha. rewrite Z.lor_comm. rewrite (lor_add_low (f * 2 ^ k) acc k); [lia|exact Hk|apply Z.mod_mul; lia|exact Ha].
Qed.

Lemma name_value_arith idn mc ei fi fn rb vs vsi ig aac :
  0 <= idn < 2 ^ 21 -> 0 <= mc < 2 ^ 11 -> 0 <= ei < 2 ^ 3 -> 0 <= fi < 2 ^ 5 -> 0 <= fn < 2 ^ 8 ->
  0 <= rb < 2 -> 0 <= vs < 2 ^ 7 -> 0 <= vsi < 2 ^ 4 -> 0 <= ig < 2 ^ 3 ->
  name_value idn mc ei fi fn rb vs vsi ig aac =
  idn + mc * 2 ^ 21 + ei * 2 ^ 32 + fi * 2 ^ 35 + fn * 2 ^ 40 + rb * 2 ^ 48 + vs * 2 ^ 49 +
  vsi * 2 ^ 56 + ig * 2 ^ 60 + aac * 2 ^ 63.
Proof.
  intros H1 H2 H3 H4 H5 H6 H7 H8 H9. unfold name_value. repeat (rewrite shiftl_mul by lia).
  rewrite ?(lor_field idn mc 21) by lia.
  rewrite ?(lor_field (idn + mc * 2 ^ 21) ei 32) by (pow2_norm; lia).
  rewrite ?(lor_field (idn + mc * 2 ^ 21 + ei * 2 ^ 32) fi 35) by (pow2_norm; lia).
  rewrite ?(lor_field (idn + mc * 2 ^ 21 + ei * 2 ^ 32 + fi * 2 ^ 35) fn 40) by (pow2_norm; lia).
  rewrite ?(lor_field (idn + mc * 2 ^ 21 + ei * 2 ^ 32 + fi * 2 ^ 35 + fn * 2 ^ 40) rb 48) by (pow2_norm; lia).
  rewrite ?(lor_field (idn + mc * 2 ^ 21 + ei * 2 ^ 32 + fi * 2 ^ 35 + fn * 2 ^ 40 + rb * 2 ^ 48) vs 49) by (pow2_norm; lia).
  rewrite ?(lor_field (idn + mc * 2 ^ 21 + ei * 2 ^ 32 + fi * 2 ^ 35 + fn * 2 ^ 40 + rb * 2 ^ 48 + vs * 2 ^ 49) vsi 56)
    by (pow2_norm; lia).
  rewrite ?(lor_field (idn + mc * 2 ^ 21 + ei * 2 ^ 32 + fi * 2 ^ 35 + fn * 2 ^ 40 + rb * 2 ^ 48 + vs * 2 ^ 49 + vsi * 2 ^ 56) ig 60)
    by (pow2_norm; lia).
  rewrite ?(lor_field (idn + mc * 2 ^ 21 + ei * 2 ^ 32 + fi * 2 ^ 35 + fn * 2 ^ 40 + rb * 2 ^ 48 + vs * 2 ^ 49 + vsi * 2 ^ 56 +
                       ig * 2 ^ 60) aac 63) by (pow2_norm; lia).
  pow2_norm. lia.
Qed.

(* fields are at the J1939-81 positions; value gives back v with bit 48 cleared *)
Theorem T15_4_name_fields_of_value v :
  name_ctor_value v =
  (v mod 2 ^ 21, (v / 2 ^ 21) mod 2 ^ 11, (v / 2 ^ 32) mod 2 ^ 3, (v / 2 ^ 35) mod 2 ^ 5,
   (v / 2 ^ 40) mod 2 ^ 8, 0, (v / 2 ^ 49) mod 2 ^ 7, (v / 2 ^ 56) mod 2 ^ 4,
   (v / 2 ^ 60) mod 2 ^ 3, (v / 2 ^ 63) mod 2).
Proof.
  unfold name_ctor_value. rewrite name_of_value_arith. unfold name_set_reserved, name_ctor_reserved.
  reflexivity.
Qed.

Theorem T15_4_name_value_roundtrip v :
  0 <= v < 2 ^ 64 ->
  name_value_f (name_ctor_value v) = v - ((v / 2 ^ 48) mod 2) * 2 ^ 48.
Proof.
  intros H. rewrite T15_4_name_fields_of_value. unfold name_value_f.
  rewrite name_value_arith by (pow2_norm; lia). pow2_norm. lia.
Qed.

Theorem T15_4_name_value_in_range v :
  0 <= v < 2 ^ 64 -> name_fields_in_range (name_ctor_value v).
Proof.
  intros H. rewrite T15_4_name_fields_of_value. unfold name_fields_in_range. pow2_norm. lia.
Qed.

Theorem T15_4_name_fields_roundtrip f :
  name_fields_in_range f -> name_ctor_value (name_value_f f) = f.
Proof.
  destruct f as [[[[[[[[[idn mc] ei] fi] fn] rb] vs] vsi] ig] aac].
  unfold name_fields_in_range. intros (H1 & H2 & H3 & H4 & H5 & H6 & H7 & H8 & H9 & H10). subst rb.
  rewrite T15_4_name_fields_of_value. unfold name_value_f. rewrite name_value_arith by lia.
  pow2_norm.
  repeat (f_equal; try lia).
Qed.

Corollary T15_4_name_value_injective f g :
  name_fields_in_range f -> name_fields_in_range g -> name_value_f f = name_value_f g -> f = g.
Proof.
  intros Hf Hg E. rewrite <- (T15_4_name_fields_roundtrip f Hf), <- (T15_4_name_fields_roundtrip g Hg), E.
  reflexivity.
Qed.

Theorem T15_4_name_bytes_le v :
  0 <= v < 2 ^ 64 ->
  le_value (name_bytes v) = v /\ bytes (name_bytes v) /\ length (name_bytes v) = 8%nat.
Proof.
  intros H. unfold name_bytes. cbn [le_value length]. bits_to_arith.
  split; [|split; [|reflexivity]].
  - pow2_norm. lia.
  - unfold bytes. repeat constructor; unfold is_byte; lia.
Qed.

Theorem T15_4_name_of_bytes b : name_ctor_bytes b = name_ctor_value (le_value b).
Proof. reflexivity. Qed.

(* value -> bytes -> Name gives the same Name (bit 48 aside) *)
Theorem T15_4_name_bytes_roundtrip v :
  0 <= v < 2 ^ 64 -> name_ctor_bytes (name_bytes v) = name_ctor_value v.
Proof.
  intros H. rewrite T15_4_name_of_bytes. destruct (T15_4_name_bytes_le v H) as [-> _]. reflexivity.
Qed.

(* the stored value of a constructed Name is < 2^64 and has bit 48 clear: idempotence *)
Theorem T15_4_name_value_idempotent v :
  0 <= v < 2 ^ 64 ->
  let w := name_value_f (name_ctor_value v) in
  0 <= w < 2 ^ 64 /\ name_value_f (name_ctor_value w) = w.
Proof.
  intros H. cbv zeta. rewrite T15_4_name_value_roundtrip by assumption.
  set (w := v - (v / 2 ^ 48) mod 2 * 2 ^ 48).
  assert (Hw : 0 <= w < 2 ^ 64) by (unfold w; pow2_norm; lia).
  split; [exact Hw|]. rewrite T15_4_name_value_roundtrip by exact Hw.
  unfold w. pow2_norm. lia.
Qed.

(* non-vacuity *)
Example name_example :
  name_value_f (name_ctor_value 0xFEDCBA9876543210) = 0xFEDCBA9876543210 - 0 /\
  name_value_f (name_ctor_value 0x0001000000000000) = 0.
Proof. vm_compute. split; reflexivity. Qed.
Example id_example : mid_parse (mid_can_id_of 6 0xFECA 0x80) = (6, 0xFECA, 0x80).
Proof. vm_compute. reflexivity. Qed.

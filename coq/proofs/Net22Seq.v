(* Net22Seq.v — C10/C02 end to end over a history: any number of FD connection-mode transfers run one after the other
   between two FD model nodes ALL deliver; after every one the nodes meet the premises of the FD closed-loop theorem again
   (in particular the session number is back in the pool). *)
From J1939 Require Import Base CodecGlue Model21 Model22.
From J1939.gen Require Import Codec Tp21Gen CaGen Tp22Gen.
From J1939P Require Import CodecProofs Flat MpgProofs Net21 Net21Proofs Net21Seq Net22 Net22Proofs.
Local Arguments Z.add : simpl never.
Local Arguments Z.mul : simpl never.

Definition plog22 (L : logs) (s : net22) : net22 :=
  {| fa := fa s; fb := fb s; pa := pa s; pb := pb s; fclk := fclk s;
     eva2 := l_eva L ++ eva2 s; evb2 := l_evb L ++ evb2 s; wab2 := l_wab L ++ wab2 s; wba2 := l_wba L ++ wba2 s |}.

Lemma step22_plog L s : step22 (plog22 L s) = plog22 L (step22 s).
Proof.
  unfold step22, plog22. cbn [fa fb pa pb fclk eva2 evb2 wab2 wba2].
  destruct (pb s) as [|f r].
  - destruct (pa s) as [|f r].
    + destruct (flat22 (job_iter22 (fa s) (fclk s))) as [[a' oa] ra]. destruct (flat22 (job_iter22 (fb s) (fclk s))) as [[b' ob] rb].
      cbn [fa fb pa pb fclk eva2 evb2 wab2 wba2]. rewrite <- !app_assoc. reflexivity.
    + destruct (handle22 (fa s) (fclk s) f) as [n' os]. cbn [fa fb pa pb fclk eva2 evb2 wab2 wba2]. rewrite <- !app_assoc. reflexivity.
  - destruct (handle22 (fb s) (fclk s) f) as [n' os]. cbn [fa fb pa pb fclk eva2 evb2 wab2 wba2]. rewrite <- !app_assoc. reflexivity.
Qed.
Lemma steps22_plog L : forall j s, steps22 j (plog22 L s) = plog22 L (steps22 j s).
Proof. induction j as [|j IH]; intros s; cbn [steps22]; [reflexivity|]. rewrite step22_plog. apply IH. Qed.
Lemma net22_send_plog L s dp pf ps prio sa d : net22_send (plog22 L s) dp pf ps prio sa d = plog22 L (net22_send s dp pf ps prio sa d).
Proof.
  unfold net22_send, plog22. cbn [fa fb pa pb fclk eva2 evb2 wab2 wba2].
  destruct (flat22 (send_pgn22 (fa s) (fclk s) dp pf ps prio sa d 0 ff_FEFF)) as [[a' os] r].
  cbn [fa fb pa pb fclk eva2 evb2 wab2 wba2]. rewrite <- !app_assoc. reflexivity.
Qed.
Lemma rest22_is_plog s : pa s = [] -> pb s = [] ->
  s = plog22 {| l_eva := eva2 s; l_evb := evb2 s; l_wab := wab2 s; l_wba := wba2 s |} (net22_0 (fa s) (fb s) (fclk s)).
Proof. intros Ha Hb. destruct s. cbn in *. subst. unfold plog22, net22_0. cbn. rewrite !app_nil_r. reflexivity. Qed.

Definition msg22_ok (m : msg) : Prop := 0 <= m_dp m < 2 /\ 0 <= m_pf m < 240 /\ 0 <= m_prio m < 8 /\ 60 < len (m_data m) < 16777216.
Fixpoint seq_reach22 (sa dest : Z) (s : net22) (ms : list msg) (s' : net22) : Prop :=
  match ms with
  | [] => s' = s
  | m :: r => exists j, seq_reach22 sa dest (steps22 j (net22_send s (m_dp m) (m_pf m) dest (m_prio m) sa (m_data m))) r s'
  end.
Definition wire22_of (sa dest maxp : Z) (m : msg) : list frame :=
  let pv := m_dp m * 65536 + m_pf m * 256 in
  let p := m_data m in
  let ns := ((length p + 59) / 60)%nat in
  tp22_rts (m_prio m) sa dest 0 pv (len p) (Z.of_nat ns) (Z.min maxp (Z.of_nat ns))
  :: map (fun k => match dt_frame sa dest 0 (Z.of_nat k + 1) (row p k) with
                   | Some (fr, _) => fr | None => tp22_eom_status sa dest 0 (len p) (Z.of_nat ns) pv end) (seq 0 ns)
  ++ [tp22_eom_status sa dest 0 (len p) (Z.of_nat ns) pv].

Definition premA22 (sa : Z) (a : node22) : Prop :=
  f_snd a = [] /\ f_rcv a = [] /\ f_mpg a = [] /\ n_timers (base a) = [] /\ n_cmdt_iv (base a) = None /\
  accepts (base a) sa = true /\ 1 <= n_maxp (base a) < 256 /\ f_rts a = repeat true tp22_pool_rts.
Definition premB22 (dest : Z) (b : node22) : Prop :=
  f_snd b = [] /\ f_rcv b = [] /\ f_mpg b = [] /\ n_timers (base b) = [] /\ accepts (base b) dest = true /\ 1 <= n_maxp (base b).

Theorem sequence22_delivers sa dest : 0 <= sa < 255 -> 0 <= dest < 255 ->
  forall ms s, Forall msg22_ok ms -> pa s = [] -> pb s = [] -> 0 < fclk s -> premA22 sa (fa s) -> premB22 dest (fb s) ->
  exists s', seq_reach22 sa dest s ms s' /\
    pa s' = [] /\ pb s' = [] /\ premA22 sa (fa s') /\ premB22 dest (fb s') /\
    evb2 s' = evb2 s ++ concat (map (fun m => deliveries (base (fb s)) 7 (m_dp m * 65536 + m_pf m * 256) sa dest (m_data m)) ms) /\
    wab2 s' = wab2 s ++ concat (map (wire22_of sa dest (n_maxp (base (fa s)))) ms).
Proof.
  intros Hsa Hdest. induction ms as [|m r IH]; intros s Hok Hpa Hpb Hc HA HB.
  - exists s. cbn [seq_reach22 map concat]. rewrite !app_nil_r.
    split; [reflexivity|]. split; [exact Hpa|]. split; [exact Hpb|]. split; [exact HA|]. split; [exact HB|]. split; reflexivity.
  - pose proof (Forall_inv Hok) as (Hdp & Hpf & Hpr & Hlen). pose proof (Forall_inv_tail Hok) as Hr.
    destruct (closed_loop22_restores (m_prio m) sa dest (m_dp m) (m_pf m) (m_data m) (fclk s) (fa s) (fb s)
                Hpr Hsa Hdest Hpf Hdp Hlen Hc HA HB) as (j & (Q1 & Q2 & Qc & Qe & Qw) & HA' & HB' & Qm & Qs & Qcas).
    set (L := {| l_eva := eva2 s; l_evb := evb2 s; l_wab := wab2 s; l_wba := wba2 s |}).
    set (s1 := steps22 j (net22_send s (m_dp m) (m_pf m) dest (m_prio m) sa (m_data m))).
    assert (E1 : s1 = plog22 L (steps22 j (net22_send (net22_0 (fa s) (fb s) (fclk s)) (m_dp m) (m_pf m) dest (m_prio m) sa (m_data m)))).
    { unfold s1. rewrite (rest22_is_plog s Hpa Hpb) at 1. fold L. rewrite net22_send_plog, steps22_plog. reflexivity. }
    destruct (IH s1 Hr) as (s' & Hreach & R1 & R2 & RA & RB & Re & Rw).
    + rewrite E1. exact Q1.
    + rewrite E1. exact Q2.
    + rewrite E1. cbn [plog22 fclk]. lia.
    + rewrite E1. exact HA'.
    + rewrite E1. exact HB'.
    + exists s'. split; [exists j; exact Hreach|]. split; [exact R1|]. split; [exact R2|]. split; [exact RA|]. split; [exact RB|].
      split.
      * rewrite Re. rewrite E1. cbn [plog22 evb2 fb map concat L l_evb]. rewrite Qe. rewrite <- app_assoc. f_equal. f_equal.
        f_equal. apply map_ext. intros m'. apply deliveries_same; assumption.
      * rewrite Rw. rewrite E1. cbn [plog22 wab2 fa map concat L l_wab]. rewrite Qw, Qm. rewrite <- app_assoc. reflexivity.
Qed.

Example sequence22_instance :
  let A := sub22 (init_node22 3 None None) 1 (FAddr 128) in
  let B := sub22 (init_node22 2 None None) 7 (FAddr 144) in
  let p1 := map Z.of_nat (seq 1 150) in let p2 := map Z.of_nat (seq 5 61) in
  let s1 := steps22 11 (net22_send (net22_0 A B 1000) 0 239 144 6 128 p1) in
  let s2 := steps22 9 (net22_send s1 1 18 144 3 128 p2) in
  quiet22 s2 = true /\ evb2 s2 = [OCb 7 7 61184 128 p1; OCb 7 7 70144 128 p2] /\ length (wab2 s2) = 9%nat.
Proof. vm_compute. repeat split. Qed.

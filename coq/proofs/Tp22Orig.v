(* Tp22Orig.v — C09 (J1939-22): the FD originator obeys flow control and pacing.
   * a session waiting for a CTS (or for the end-of-message acknowledgement) whose deadline lies in the future
     emits nothing in a job pass, whatever else is in the table entry
   * after CTS(g, x+1) the burst loop emits only data frames with segment numbers x+1 .. x+g, in increasing order,
     at most g of them, and then waits for the next CTS (or for the acknowledgement after the last segment)
   * a broadcast session emits nothing before its deadline and exactly one data frame at it, re-armed by the
     configured interval *)
From J1939 Require Import Base CodecGlue Model21 Model22.
From J1939.gen Require Import Codec Tp21Gen CaGen Tp22Gen.
From J1939P Require Import CodecProofs Flat Tp21Seg Tp21Resp TimeoutProofs MpgProofs PoolProofs Tp22Proofs Tp22Resp.
Local Arguments Z.add : simpl never.
Local Arguments Z.sub : simpl never.
Local Arguments Z.mul : simpl never.

(* ---------------------------------------------------------------- waiting sessions are silent *)
Theorem fd_waiting_session_silent key now nw m k b :
  tget (f_snd m) key = Some b -> 0 <= now < t_deadline b ->
  flat22 (snd_pass22 [key] now nw m k) = flat22 (k m (minw nw (t_deadline b))).
Proof.
  intros G Hd. cbn [snd_pass22]. rewrite G.
  assert ((t_deadline b =? 0) = false) as -> by lia.
  assert ((t_deadline b >? now) = true) as -> by lia. reflexivity.
Qed.

(* ---------------------------------------------------------------- every frame of the builder carries its number *)
Lemma dt_frame_segnum src dst s k seg fr seg' :
  dt_frame src dst s k seg = Some (fr, seg') -> 0 <= s < 16 -> 0 <= k < 16777216 ->
  f_id fr = tp22_dt_id src dst /\ tp22_dt_segment_num (f_data fr) = k /\ tp22_dt_session_num (f_data fr) = s.
Proof.
  unfold dt_frame. intros H Hs Hk.
  assert (Hhdr : forall rest, tp22_dt_segment_num (tp22_dt_header s k 0 ++ rest) = k /\ tp22_dt_session_num (tp22_dt_header s k 0 ++ rest) = s).
  { intros rest. destruct (dt_hdr_fields s k rest Hs Hk) as [A B]. split; assumption. }
  remember (Z.to_nat (tp22_TP + 4)) as n64 eqn:En.
  remember (tp22_dt_header s k 0 ++ seg) as d eqn:Ed.
  destruct (Z.of_nat (length d) >=? tp22_TP + 4) eqn:E.
  - injection H as Hfr Hseg. rewrite <- Hfr. cbn [f_data f_id]. split; [reflexivity|].
    assert (firstn n64 d = tp22_dt_header s k 0 ++ firstn 60 seg) as -> by (rewrite En, Ed; reflexivity).
    apply Hhdr.
  - destruct (fd_len (length d)) as [nl|]; [|discriminate].
    injection H as Hfr Hseg. rewrite <- Hfr. cbn [f_data f_id]. split; [reflexivity|]. rewrite Ed, <- app_assoc. apply Hhdr.
Qed.

(* ---------------------------------------------------------------- the burst stays inside the grant *)
Definition is_dt_in (src dst s lo hi : Z) (o : out) : Prop :=
  match o with
  | OTx fr => f_id fr = tp22_dt_id src dst /\ tp22_dt_session_num (f_data fr) = s /\ lo <= tp22_dt_segment_num (f_data fr) <= hi
  | _ => False
  end.

(* the frames of a burst: data frames with strictly increasing segment numbers in (lo-1, hi], possibly followed by
   the end-of-message status when (and only when) the last segment of the message went out *)
Inductive burst_outs (src dst s : Z) (eoms : out) : Z -> Z -> list out -> Prop :=
| bo_nil lo hi : burst_outs src dst s eoms lo hi []
| bo_eom lo hi fr : lo <= hi -> is_dt_in src dst s lo lo (OTx fr) -> burst_outs src dst s eoms lo hi [OTx fr; eoms]
| bo_cons lo hi fr os : lo <= hi -> is_dt_in src dst s lo lo (OTx fr) -> burst_outs src dst s eoms (lo + 1) hi os ->
                        burst_outs src dst s eoms lo hi (OTx fr :: os).

Definition wait_state (st : Z) : Prop := st = tp22_st_WAITING_CTS \/ st = tp22_st_WAITING_EOM_ACK.

Lemma fd_burst_within_grant key now w : forall fuel m b,
  tget (f_snd m) key = Some b ->
  t_state b = tp22_st_SENDING_RTS_CTS -> t_waitcts b = Some w ->
  0 <= t_session b < 16 -> 0 <= t_next b -> t_next b <= w -> w + 1 < 16777216 ->
  let '(m', os, r) := flat22 (fd_burst fuel key now m (fun m1 => Done m1 0)) in
  burst_outs (t_src b) (t_dst b) (t_session b) (OTx (tp22_eom_status (t_src b) (t_dst b) (t_session b) (t_size b) (t_nseg b) (t_pgn b)))
             (t_next b + 1) (w + 1) os /\
  (r = RDone 0 ->
   exists b', tget (f_snd m') key = Some b' /\ t_next b' <= w + 1 /\
              (Z.of_nat (length os) >= 1 -> t_next b < t_nseg b) /\
              (t_next b' = w + 1 -> t_next b < t_nseg b -> n_cmdt_iv (base m) = None -> wait_state (t_state b'))).
Proof.
  induction fuel as [|f IH]; intros m b G Hst Hw Hs H0 Hle Hmax; cbn [fd_burst flat22].
  - split; [constructor|discriminate].
  - rewrite G. destruct (t_next b <? t_nseg b) eqn:Hlt.
    2:{ cbn [flat22]. split; [constructor|]. intros _. exists b. split; [exact G|]. split; [lia|]. split; [cbn; lia|]. intros _ Hc. lia. }
    rewrite Hw.
    set (bn := match n_cmdt_iv (base m) with Some iv => with_tnb b (now + iv) | None => b end).
    assert (Hbn : t_src bn = t_src b /\ t_dst bn = t_dst b /\ t_session bn = t_session b /\ t_data bn = t_data b /\ t_size bn = t_size b /\ t_nseg bn = t_nseg b /\ t_pgn bn = t_pgn b /\ t_waitcts bn = t_waitcts b).
    { unfold bn. destruct (n_cmdt_iv (base m)); repeat split. }
    destruct Hbn as (B1 & B2 & B3 & B4 & B5 & B6 & B7 & B8).
    destruct (t_next b + 1 =? t_nseg b) eqn:Elast.
    + (* the last segment of the message *)
      destruct (py_nth (t_data b) (t_next b)) as [seg|]; [|cbn [flat22]; split; [constructor|discriminate]].
      destruct (dt_frame (t_src b) (t_dst b) (t_session b) (t_next b + 1) seg) as [[fr seg']|] eqn:Efr; [|cbn [flat22]; split; [constructor|discriminate]].
      destruct (dt_frame_segnum _ _ _ _ _ _ _ Efr Hs ltac:(lia)) as (F1 & F2 & F3).
      cbn [flat22]. split.
      * apply bo_eom; [lia|]. cbn [is_dt_in]. repeat split; try assumption; lia.
      * intros _. eexists. cbn [f_snd set_fsnd]. rewrite tget_tset_same. split; [reflexivity|]. cbn. split; [lia|]. split; [lia|].
        intros _ _ _. right. reflexivity.
    + destruct (t_next b =? w) eqn:Ew.
      * (* the last segment of the window *)
        destruct (py_nth (t_data b) (t_next b)) as [seg|]; [|cbn [flat22]; split; [constructor|discriminate]].
        destruct (dt_frame (t_src b) (t_dst b) (t_session b) (t_next b + 1) seg) as [[fr seg']|] eqn:Efr; [|cbn [flat22]; split; [constructor|discriminate]].
        destruct (dt_frame_segnum _ _ _ _ _ _ _ Efr Hs ltac:(lia)) as (F1 & F2 & F3).
        cbn [flat22]. split.
        -- apply bo_cons; [lia| |constructor]. cbn [is_dt_in]. repeat split; try assumption; lia.
        -- intros _. eexists. cbn [f_snd set_fsnd]. rewrite tget_tset_same. split; [reflexivity|]. cbn. split; [lia|]. split; [lia|].
           intros _ _ _. left. reflexivity.
      * destruct (n_cmdt_iv (base m)) as [iv|] eqn:Eiv.
        -- (* paced: one segment, then the pass leaves the session with a deadline of now + iv *)
           destruct (py_nth (t_data b) (t_next b)) as [seg|]; [|cbn [flat22]; split; [constructor|discriminate]].
           destruct (dt_frame (t_src b) (t_dst b) (t_session b) (t_next b + 1) seg) as [[fr seg']|] eqn:Efr; [|cbn [flat22]; split; [constructor|discriminate]].
           destruct (dt_frame_segnum _ _ _ _ _ _ _ Efr Hs ltac:(lia)) as (F1 & F2 & F3).
           cbn [flat22]. split.
           ++ apply bo_cons; [lia| |constructor]. cbn [is_dt_in]. repeat split; try assumption; lia.
           ++ intros _. eexists. cbn [f_snd set_fsnd]. rewrite tget_tset_same. split; [reflexivity|]. cbn. split; [lia|]. split; [lia|].
              intros _ _ Hc. discriminate.
        -- (* unpaced: go on with the next segment *)
           destruct (py_nth (t_data b) (t_next b)) as [seg|]; [|cbn [flat22]; split; [constructor|discriminate]].
           destruct (dt_frame (t_src b) (t_dst b) (t_session b) (t_next b + 1) seg) as [[fr seg']|] eqn:Efr; [|cbn [flat22]; split; [constructor|discriminate]].
           destruct (dt_frame_segnum _ _ _ _ _ _ _ Efr Hs ltac:(lia)) as (F1 & F2 & F3).
           cbn [flat22].
           set (b3 := with_tdata (upd_t bn (t_state b) (t_deadline b) (t_next b + 1)) (py_set (t_data (upd_t bn (t_state b) (t_deadline b) (t_next b + 1))) (t_next b) seg')).
           set (m1 := set_fsnd m (tset (f_snd m) key b3)).
           assert (G1 : tget (f_snd m1) key = Some b3) by (unfold m1; cbn [f_snd set_fsnd]; apply tget_tset_same).
           assert (C1 : t_src b3 = t_src b) by (unfold b3; cbn; exact B1).
           assert (C2 : t_dst b3 = t_dst b) by (unfold b3; cbn; exact B2).
           assert (C3 : t_session b3 = t_session b) by (unfold b3; cbn; exact B3).
           assert (C5 : t_size b3 = t_size b) by (unfold b3; cbn; exact B5).
           assert (C6 : t_nseg b3 = t_nseg b) by (unfold b3; cbn; exact B6).
           assert (C7 : t_pgn b3 = t_pgn b) by (unfold b3; cbn; exact B7).
           assert (C8 : t_waitcts b3 = Some w) by (unfold b3; cbn; rewrite B8; exact Hw).
           assert (C9 : t_state b3 = tp22_st_SENDING_RTS_CTS) by (unfold b3; cbn; exact Hst).
           assert (C10 : t_next b3 = t_next b + 1) by (unfold b3; reflexivity).
           specialize (IH m1 b3 G1 C9 C8). rewrite C1, C2, C3, C5, C6, C7, C10 in IH.
           specialize (IH Hs ltac:(lia) ltac:(lia) Hmax).
           assert (Hbase : n_cmdt_iv (base m1) = None) by exact Eiv.
           destruct (flat22 (fd_burst f key now m1 (fun m2 => Done m2 0))) as [[m' os] r].
           destruct IH as [IH1 IH2]. split.
           ++ apply bo_cons; [lia| |exact IH1]. cbn [is_dt_in]. repeat split; try assumption; lia.
           ++ intros Hr. destruct (IH2 Hr) as (b' & Gb' & Hn' & Hlen' & Hw').
              exists b'. split; [exact Gb'|]. split; [exact Hn'|]. split; [lia|].
              intros Hc _ _. destruct (Z.eq_dec (t_next b + 1) (w + 1)) as [E|N]; [lia|].
              (* the recursive call sent at least the window's last segment *)
              apply Hw'; [exact Hc| |exact Hbase].
              destruct (t_next b + 1 <? t_nseg b) eqn:E2; [lia|].
              (* impossible: next + 1 = nseg was excluded by Elast, and next + 1 > nseg by Hlt *)
              lia.
Qed.

(* the burst loop followed by any continuation = the closed burst, then the continuation *)
Lemma fd_burst_cont key now : forall fuel m k,
  flat22 (fd_burst fuel key now m k) =
  let '(m', os, r) := flat22 (fd_burst fuel key now m (fun m1 => Done m1 0)) in
  match r with
  | RDone _ => let '(m2, os2, r2) := flat22 (k m') in (m2, os ++ os2, r2)
  | RRaise e => (m', os, RRaise e)
  end.
Proof.
  induction fuel as [|f IH]; intros m k; cbn [fd_burst flat22]; [reflexivity|].
  destruct (tget (f_snd m) key) as [b|]; [|reflexivity].
  destruct (t_next b <? t_nseg b).
  2:{ cbn [flat22 app]. destruct (flat22 (k m)) as [[m2 os2] r2]. reflexivity. }
  match goal with |- context [match ?r with Some _ => _ | None => _ end] => destruct r as [[b2 brk]|] end; [|reflexivity].
  destruct (py_nth (t_data b) (t_next b)) as [seg|]; [|reflexivity].
  destruct (dt_frame _ _ _ _ seg) as [[fr seg']|]; [|reflexivity].
  cbn [flat22].
  destruct (t_next b + 1 =? t_nseg b).
  - cbn [flat22 app]. destruct (flat22 (k _)) as [[m2 os2] r2]. reflexivity.
  - destruct brk.
    + cbn [flat22 app]. destruct (flat22 (k _)) as [[m2 os2] r2]. reflexivity.
    + rewrite IH. destruct (flat22 (fd_burst f key now _ (fun m1 => Done m1 0))) as [[m' os] r].
      destruct r; [|reflexivity]. destruct (flat22 (k m')) as [[m2 os2] r2]. reflexivity.
Qed.

(* T09.1/T09.2 (FD): a job pass over a session that a CTS(g, x+1) has put into SENDING_RTS_CTS (next = x, window end
   w = x+g-1) emits, for that session, only data frames numbered x+1 .. w+1 in increasing order — at most the
   granted number, none that the responder has not cleared — possibly followed by the end-of-message status when the
   last segment of the message went out; everything else in the pass output comes from the continuation *)
Theorem fd_pass_within_grant key now nw m k b w :
  tget (f_snd m) key = Some b ->
  t_state b = tp22_st_SENDING_RTS_CTS -> t_waitcts b = Some w ->
  0 <= t_session b < 16 -> 0 <= t_next b -> t_next b <= w -> w + 1 < 16777216 ->
  t_deadline b <> 0 -> t_deadline b <= now ->
  exists os rest, fouts22 (snd_pass22 [key] now nw m k) = os ++ rest /\
    burst_outs (t_src b) (t_dst b) (t_session b)
               (OTx (tp22_eom_status (t_src b) (t_dst b) (t_session b) (t_size b) (t_nseg b) (t_pgn b)))
               (t_next b + 1) (w + 1) os /\
    (forall o, In o rest -> exists m' nw', In o (fouts22 (k m' nw'))).
Proof.
  intros G Hst Hw Hs H0 Hle Hmax Hd0 Hdl. unfold fouts22. cbn [snd_pass22]. rewrite G.
  assert ((t_deadline b =? 0) = false) as -> by lia.
  assert ((t_deadline b >? now) = false) as -> by lia.
  rewrite Hst. change (tp22_st_SENDING_RTS_CTS =? tp22_st_WAITING_CTS) with false.
  change (tp22_st_SENDING_RTS_CTS =? tp22_st_SENDING_RTS_CTS) with true. cbv iota.
  rewrite fd_burst_cont.
  pose proof (fd_burst_within_grant key now w (Z.to_nat (t_nseg b - t_next b) + 2) m b G Hst Hw Hs H0 Hle Hmax) as HB.
  destruct (flat22 (fd_burst (Z.to_nat (t_nseg b - t_next b) + 2) key now m (fun m1 => Done m1 0))) as [[m' os] r].
  destruct HB as [HB _].
  destruct r as [r0|e].
  - destruct (tget (f_snd m') key) as [b1|].
    + cbn [snd_pass22].
      match goal with |- context [flat22 (k ?mm ?nn)] => destruct (flat22 (k mm nn)) as [[m2 os2] r2] eqn:Ek end.
      cbn [fst snd]. exists os, os2. split; [reflexivity|]. split; [exact HB|].
      intros o Ho. eexists _, _. unfold fouts22. rewrite Ek. exact Ho.
    + cbn [flat22 fst snd]. exists os, []. split; [reflexivity|]. split; [exact HB|]. intros o [].
  - cbn [fst snd]. exists os, []. rewrite app_nil_r. split; [reflexivity|]. split; [exact HB|]. intros o [].
Qed.

(* T09.3 (FD): a broadcast session at its deadline emits exactly ONE data frame — segment next+1 — and is re-armed
   by the configured interval; before the deadline it is silent (fd_waiting_session_silent) *)
Theorem fd_bam_sends_one_and_rearms key now nw m k b seg fr seg' :
  tget (f_snd m) key = Some b -> t_state b = tp22_st_SENDING_BAM ->
  t_deadline b <> 0 -> t_deadline b <= now ->
  py_nth (t_data b) (t_next b) = Some seg ->
  dt_frame (t_src b) (t_dst b) (t_session b) (t_next b + 1) seg = Some (fr, seg') ->
  let b0 := with_tdata b (py_set (t_data b) (t_next b) seg') in
  let st := if t_next b + 1 <? t_nseg b then tp22_st_SENDING_BAM else tp22_st_SENDING_EOM_STATUS in
  let b2 := upd_t b0 st (now + f_bam_iv m) (t_next b + 1) in
  flat22 (snd_pass22 [key] now nw m k) =
  let '(s, os, r) := flat22 (k (set_fsnd m (tset (f_snd m) key b2)) (minw nw (now + f_bam_iv m))) in
  (s, OTx fr :: os, r).
Proof.
  intros G Hst Hd0 Hdl Hseg Hfr b0 st b2. cbn [snd_pass22]. rewrite G.
  assert ((t_deadline b =? 0) = false) as -> by lia.
  assert ((t_deadline b >? now) = false) as -> by lia.
  rewrite Hst. change (tp22_st_SENDING_BAM =? tp22_st_WAITING_CTS) with false.
  change (tp22_st_SENDING_BAM =? tp22_st_SENDING_RTS_CTS) with false.
  change ((tp22_st_SENDING_BAM =? tp22_st_WAITING_EOM_ACK) || (tp22_st_SENDING_BAM =? tp22_st_EOM_ACK_RECEIVED) || (tp22_st_SENDING_BAM =? tp22_st_TRANSMISSION_FINISHED)) with false.
  change (tp22_st_SENDING_BAM =? tp22_st_SENDING_BAM) with true. cbv iota.
  rewrite Hseg, Hfr. cbn [flat22 f_snd set_fsnd]. rewrite tget_tset_same.
  cbn [with_tdata t_next t_nseg t_state upd_t t_deadline]. rewrite Hst.
  rewrite tset_tset_same. cbn [snd_pass22]. fold b0. fold st. fold b2. reflexivity.
Qed.

(* T09.2 (FD responder): grants never exceed the originator's RTS limit nor the own maximum.  The first CTS grants
   min(own max, RTS limit, segments) (responder22_rts_opens) ... *)
Theorem fd_first_grant_bounded maxp limit nseg :
  Z.min maxp (Z.min limit nseg) <= limit /\ Z.min maxp (Z.min limit nseg) <= maxp /\ Z.min maxp (Z.min limit nseg) <= nseg.
Proof. lia. Qed.

(* ... and every later CTS, emitted by the data-frame handler at a window border, grants min(that first grant,
   segments left): the ONLY frame a data frame can trigger is that CTS *)
Theorem fd_later_grants_bounded prio sa dest data now m b :
  tget (f_rcv m) (tp22_hash (tp22_dt_session_num data) sa dest) = Some b ->
  fouts22 (process_tp_dt22 prio sa dest data now m) = [] \/
  exists border mr, q_border b = Some border /\ q_maxrec b = Some mr /\
    fouts22 (process_tp_dt22 prio sa dest data now m) =
      [OTx (tp22_cts dest sa (tp22_dt_session_num data) (Z.min mr (q_nseg b - border)) (border + 1) (q_pgn b))] /\
    Z.min mr (q_nseg b - border) <= mr.
Proof.
  intros G. unfold fouts22, process_tp_dt22.
  destruct (length data <=? 4)%nat; [left; reflexivity|].
  destruct (tp22_dt_segment_num data =? 0); [left; reflexivity|].
  rewrite G.
  destruct (negb (q_next b =? tp22_dt_segment_num data)); [left; reflexivity|].
  destruct (len (q_data b ++ skipn 4 data) >=? q_size b); [left; reflexivity|].
  destruct (negb (dest =? addr_GLOBAL)); [|left; reflexivity].
  destruct (q_border b) as [border|] eqn:Eb; [|left; reflexivity].
  destruct (tp22_dt_segment_num data >=? border); [|left; reflexivity].
  destruct (q_maxrec b) as [mr|] eqn:Em; [|left; reflexivity].
  right. exists border, mr. split; [reflexivity|]. split; [reflexivity|]. split; [|lia].
  cbn [flat22 f_rcv set_frcv]. rewrite tget_tset_same. cbn [upd_q q_border q_maxrec]. rewrite Em.
  reflexivity.
Qed.

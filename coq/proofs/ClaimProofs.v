(* ClaimProofs.v — C04/C13: address claiming.
   Part 1: pure per-CA step functions and their tie to the node-level handlers of Model21
           (claim_async, process_addressclaim).
   Part 2: a network of ANY number of CAs with FIFO queues per receiver and ANY schedule of
           timer firings and deliveries: conflict invariant, uniqueness at quiescence, lowest NAME keeps,
           loser behaviour, yield measure. *)
From J1939 Require Import Base CodecGlue Model21.
From J1939.gen Require Import Codec Tp21Gen CaGen.
From J1939P Require Import CodecProofs Flat.

(* ---------------------------------------------------------------- Part 1: pure steps *)
Definition msg := (Z * Z)%type.                  (* source address, NAME value *)

Definition immediate (a : Z) : bool := negb ((a >? 127) && (a <? 248)).

(* _process_claim_async: new CA state, claim broadcast (if any), re-arm delay *)
Definition ca_timer (c : ca) : ca * list msg * Z :=
  if c_state c =? ca_state_NONE then
    match c_pref c with
    | Some p =>
        if (p >? 127) && (p <? 248)
        then (with_ca_state c ca_state_WAIT_VETO (c_addr c) p, [(p, c_name c)], ca_VETO)
        else (with_ca_state c ca_state_NORMAL (Some p) p, [(p, c_name c)], 500000)
    | None => (c, [], 500000)
    end
  else if c_state c =? ca_state_WAIT_VETO then
    (with_ca_state c ca_state_NORMAL (Some (c_ann c)) (c_ann c), [], 500000)
  else (c, [], 500000).

(* _process_addressclaim *)
Definition awaiting (c : ca) (sa : Z) : bool :=
  ((c_state c =? ca_state_NORMAL) && match c_addr c with Some a => sa =? a | None => false end) ||
  ((c_state c =? ca_state_WAIT_VETO) && (sa =? c_ann c)).

Definition ca_claim (c : ca) (m : msg) : ca * list msg :=
  let '(sa, other) := m in
  if negb (awaiting c sa) then (c, [])
  else if c_name c =? other then (c, [])
  else if c_name c >? other then
    if c_aac c =? 0
    then (with_ca_state c ca_state_CANNOT_CLAIM None (c_ann c), [(addr_NULL, c_name c)])
    else (with_ca_state c ca_state_WAIT_VETO (Some addr_NULL) (c_ann c + 1), [(c_ann c + 1, c_name c)])
  else if c_state c =? ca_state_NORMAL
       then (c, [(match c_addr c with Some a => a | None => addr_NULL end, c_name c)])
       else (c, [(c_ann c, c_name c)]).

Definition claim_frame (c : ca) (m : msg) : out := OTx (ca_address_claimed (fst m) (c_nbytes c)).

Lemma upd_nth_id {A} (l : list A) : forall i x, nth_error l i = Some x -> upd_nth l i x = l.
Proof.
  induction l as [|y r IH]; intros [|i] x H; cbn in *; try discriminate.
  - inversion H; reflexivity.
  - f_equal. apply IH. exact H.
Qed.
Lemma set_ca_id n i c : nth_error (n_cas n) i = Some c -> set_ca n i c = n.
Proof.
  intros H. unfold set_ca, set_cas. rewrite (upd_nth_id _ _ _ H). destruct n; reflexivity.
Qed.

(* tie: the node-level timer callback of CA i is ca_timer on that CA *)
Lemma claim_async_flat i now n k c :
  nth_error (n_cas n) i = Some c ->
  flat (claim_async i now n k) =
  let '(c', outs, tts) := ca_timer c in
  let n1 := add_timer (set_ca n i c') now tts (TClaim i) false in
  let '(s, os, r) := flat (k n1) in (s, map (claim_frame c') outs ++ os, r).
Proof.
  intros Hc. unfold claim_async, ca_timer. rewrite Hc.
  destruct (c_state c =? ca_state_NONE) eqn:E0.
  - destruct (c_pref c) as [p|].
    + destruct ((p >? 127) && (p <? 248)); cbn [flat map app claim_frame fst send_address_claimed];
        destruct (flat (k _)) as [[s os] r]; reflexivity.
    + pose proof (set_ca_id n i c Hc) as Hid.
      rewrite Hid. cbn [map app]. destruct (flat (k _)) as [[s os] r]. reflexivity.
  - pose proof (set_ca_id n i c Hc) as Hid.
    destruct (c_state c =? ca_state_WAIT_VETO).
    + cbn [map app]. destruct (flat (k _)) as [[s os] r]. reflexivity.
    + rewrite Hid. cbn [map app]. destruct (flat (k _)) as [[s os] r]. reflexivity.
Qed.

(* tie: the node-level claim handler of CA i is ca_claim with the NAME value decoded from the data *)
Lemma process_addressclaim_flat i sa data n k c :
  nth_error (n_cas n) i = Some c ->
  flat (process_addressclaim i sa data n k) =
  let '(c', outs) := ca_claim c (sa, name_value_f (name_ctor_bytes data)) in
  let '(s, os, r) := flat (k (set_ca n i c')) in (s, map (claim_frame c') outs ++ os, r).
Proof.
  intros Hc. unfold process_addressclaim, ca_claim. rewrite Hc. fold (awaiting c sa).
  pose proof (set_ca_id n i c Hc) as Hid.
  destruct (awaiting c sa); cbn [negb].
  - destruct (c_name c =? name_value_f (name_ctor_bytes data)).
    + rewrite Hid. cbn [map app]. destruct (flat (k n)) as [[s os] r]. reflexivity.
    + destruct (c_name c >? name_value_f (name_ctor_bytes data)).
      * destruct (c_aac c =? 0); cbn [flat map app claim_frame fst send_address_claimed];
          destruct (flat (k _)) as [[s os] r]; reflexivity.
      * destruct (c_state c =? ca_state_NORMAL); rewrite Hid;
          cbn [flat map app claim_frame fst send_address_claimed];
          destruct (flat (k n)) as [[s os] r]; reflexivity.
  - rewrite Hid. cbn [map app]. destruct (flat (k n)) as [[s os] r]. reflexivity.
Qed.

(* the NAME a receiver decodes from the 8 bytes a well-formed CA sends is that CA's NAME value (T15.5) *)
Definition ca_wf (c : ca) : Prop :=
  0 <= c_name c < 2 ^ 64 /\ name_value_f (name_ctor_value (c_name c)) = c_name c /\ c_nbytes c = name_bytes (c_name c).

Lemma mk_ca_wf v pref byp : 0 <= v < 2 ^ 64 -> ca_wf (mk_ca v pref byp).
Proof.
  intros Hv. destruct (T15_4_name_value_idempotent v Hv) as [Hr Hi].
  unfold mk_ca, ca_wf. destruct byp; destruct pref; cbn [c_name c_nbytes]; repeat split; try apply Hr; try exact Hi.
Qed.

Lemma decoded_name c : ca_wf c -> name_value_f (name_ctor_bytes (c_nbytes c)) = c_name c.
Proof.
  intros (Hr & Hi & Hb). rewrite Hb. rewrite T15_4_name_bytes_roundtrip by exact Hr. exact Hi.
Qed.

(* ---------------------------------------------------------------- Part 2: the network *)
Record net := { cas : nat -> ca; qs : nat -> list msg }.

Definition upd {A} (f : nat -> A) (i : nat) (v : A) : nat -> A := fun k => if Nat.eqb k i then v else f k.
Definition bcast (q : nat -> list msg) (i : nat) (m : msg) : nat -> list msg :=
  fun r => if Nat.eqb r i then q r else q r ++ [m].

Definition timer_step (n : net) (i : nat) : net :=
  let '(c', outs, _) := ca_timer (cas n i) in
  {| cas := upd (cas n) i c'; qs := fold_left (fun q o => bcast q i o) outs (qs n) |}.

Definition deliver_step (n : net) (r : nat) : net :=
  match qs n r with
  | [] => n
  | m :: rest =>
      let '(c', outs) := ca_claim (cas n r) m in
      {| cas := upd (cas n) r c'; qs := fold_left (fun q o => bcast q r o) outs (upd (qs n) r rest) |}
  end.

Inductive ev := Timer (i : nat) | Deliver (r : nat).
Definition step (n : net) (e : ev) : net :=
  match e with Timer i => timer_step n i | Deliver r => deliver_step n r end.

Definition Claims (c : ca) (a : Z) : Prop :=
  (c_state c = ca_state_NORMAL /\ c_addr c = Some a) \/ (c_state c = ca_state_WAIT_VETO /\ c_ann c = a).
Definition names_distinct (n : net) := forall i j, i <> j -> c_name (cas n i) <> c_name (cas n j).

Definition Inv (n : net) : Prop :=
  (forall i, c_state (cas n i) = ca_state_NORMAL -> c_addr (cas n i) = Some (c_ann (cas n i))) /\
  (forall i j a, i <> j -> Claims (cas n i) a -> Claims (cas n j) a ->
      In (a, c_name (cas n i)) (qs n j) \/ In (a, c_name (cas n j)) (qs n i)).

Lemma upd_same {A} (f : nat -> A) i v : upd f i v i = v.
Proof. unfold upd. now rewrite Nat.eqb_refl. Qed.
Lemma upd_other {A} (f : nat -> A) i v k : k <> i -> upd f i v k = f k.
Proof. unfold upd. intros. destruct (Nat.eqb_spec k i); congruence. Qed.
Lemma bcast_other q i m r : r <> i -> bcast q i m r = q r ++ [m].
Proof. unfold bcast. intros. destruct (Nat.eqb_spec r i); congruence. Qed.
Lemma bcast_mono q i m r x : In x (q r) -> In x (bcast q i m r).
Proof. unfold bcast. destruct (Nat.eqb r i); auto. intros. apply in_or_app; auto. Qed.
Lemma bcast_in q i m r : r <> i -> In m (bcast q i m r).
Proof. intros. rewrite bcast_other by auto. apply in_or_app. right. left. reflexivity. Qed.
Lemma fold_bcast_grow outs : forall (q : nat -> list msg) r k v,
  In v (q k) -> In v (fold_left (fun q o => bcast q r o) outs q k).
Proof. induction outs as [|o os IH]; intros q r k v H; cbn; auto. apply IH. apply bcast_mono; auto. Qed.

Lemma state_consts : ca_state_NONE = 0 /\ ca_state_WAIT_VETO = 1 /\ ca_state_NORMAL = 2 /\ ca_state_CANNOT_CLAIM = 3.
Proof. repeat split; reflexivity. Qed.

(* characterisation of the timer step *)
Lemma ca_timer_cases c c' outs tts :
  ca_timer c = (c', outs, tts) ->
  c_name c' = c_name c /\ c_aac c' = c_aac c /\
  (c_state c' = ca_state_NORMAL -> c_addr c' = Some (c_ann c') \/ c' = c) /\
  ( (outs = [] /\ forall a, Claims c' a -> Claims c a)
    \/ (exists a0, outs = [(a0, c_name c)] /\ forall a, Claims c' a -> a = a0) ).
Proof.
  unfold ca_timer. intros E.
  destruct (c_state c =? ca_state_NONE) eqn:E0.
  - destruct (c_pref c) as [p|].
    + destruct ((p >? 127) && (p <? 248)); inversion E; subst; cbn;
        (split; [reflexivity|]); (split; [reflexivity|]); (split; [intros S; try discriminate S; left; reflexivity|]);
        right; (eexists; split; [reflexivity|]); intros a [[S A]|[S A]]; cbn in *; try discriminate; congruence.
    + inversion E; subst. split; [reflexivity|]. split; [reflexivity|]. split; [intros _; right; reflexivity|].
      left. split; auto.
  - destruct (c_state c =? ca_state_WAIT_VETO) eqn:E1.
    + inversion E; subst; cbn. split; [reflexivity|]. split; [reflexivity|]. split; [intros _; left; reflexivity|].
      left. split; [reflexivity|].
      intros a [[S A]|[S A]]; cbn in *; [|discriminate]. right. split; [lia|congruence].
    + inversion E; subst. split; [reflexivity|]. split; [reflexivity|]. split; [intros _; right; reflexivity|].
      left. split; auto.
Qed.

(* characterisation of the claim step: silent and unchanged, or it broadcasts the only address claimed afterwards *)
Lemma ca_claim_cases c m c' outs :
  ca_claim c m = (c', outs) ->
  c_name c' = c_name c /\ c_aac c' = c_aac c /\
  (c_state c' = ca_state_NORMAL -> c_addr c' = Some (c_ann c') \/ c' = c) /\
  ( (c' = c /\ outs = [] /\ (forall a, Claims c a -> fst m = a -> snd m = c_name c))
    \/ (exists a0, outs = [(a0, c_name c)] /\ (forall a, Claims c' a -> a = a0)) ).
Proof.
  unfold ca_claim. destruct m as [sa other]. intros E.
  destruct (awaiting c sa) eqn:G; cbn [negb] in E.
  - destruct (Z.eqb_spec (c_name c) other) as [En|Nn].
    + inversion E; subst. split; [reflexivity|]. split; [reflexivity|]. split; [intros _; right; reflexivity|].
      left. split; [reflexivity|]. split; [reflexivity|]. intros a _ _. reflexivity.
    + destruct (c_name c >? other).
      * destruct (c_aac c =? 0); inversion E; subst; cbn;
          (split; [reflexivity|]); (split; [reflexivity|]); (split; [intros S; discriminate S|]);
          right; (eexists; split; [reflexivity|]); intros a [[S A]|[S A]]; cbn in *; try discriminate; lia.
      * destruct (c_state c =? ca_state_NORMAL) eqn:EN; inversion E; subst;
          (split; [reflexivity|]); (split; [reflexivity|]); (split; [intros _; right; reflexivity|]);
          right; (eexists; split; [reflexivity|]); intros a [[S A]|[S A]].
        -- rewrite A. reflexivity.
        -- rewrite S in EN. discriminate.
        -- rewrite S in EN. discriminate.
        -- exact (eq_sym A).
  - inversion E; subst. split; [reflexivity|]. split; [reflexivity|]. split; [intros _; right; reflexivity|].
    left. split; [reflexivity|]. split; [reflexivity|].
    intros a Ca Hm. cbn in Hm. subst a. exfalso. unfold awaiting in G.
    destruct Ca as [[S A]|[S A]]; rewrite S, ?A in G; cbn in G; rewrite ?Z.eqb_refl in G;
      cbn in G; rewrite ?orb_true_r in G; discriminate.
Qed.

Lemma step_name n e k : c_name (cas (step n e) k) = c_name (cas n k).
Proof.
  destruct e as [i|r]; cbn [step].
  - unfold timer_step. destruct (ca_timer (cas n i)) as [[c' outs] tts] eqn:E. cbn.
    unfold upd. destruct (Nat.eqb_spec k i); [subst|reflexivity].
    apply (ca_timer_cases _ _ _ _ E).
  - unfold deliver_step. destruct (qs n r) as [|m rest]; [reflexivity|].
    destruct (ca_claim (cas n r) m) as [c' outs] eqn:E. cbn.
    unfold upd. destruct (Nat.eqb_spec k r); [subst|reflexivity].
    apply (ca_claim_cases _ _ _ _ E).
Qed.

Theorem timer_preserves n i : names_distinct n -> Inv n -> Inv (timer_step n i).
Proof.
  intros ND [I1 I2]. unfold timer_step.
  destruct (ca_timer (cas n i)) as [[c' outs] tts] eqn:E.
  destruct (ca_timer_cases _ _ _ _ E) as (Hname & _ & Hnorm & Hcases).
  split.
  - intros k. cbn. unfold upd. destruct (Nat.eqb_spec k i); [subst|apply I1].
    intros S. destruct (Hnorm S) as [H0|H0]; [exact H0|subst c'; apply I1; exact S].
  - intros x y a Hxy Cx Cy. cbn [cas qs] in *.
    assert (Grow : forall k v, In v (qs n k) -> In v (fold_left (fun q o => bcast q i o) outs (qs n) k)).
    { intros k v Hin. apply fold_bcast_grow. exact Hin. }
    destruct (Nat.eq_dec x i) as [->|Nx]; [|destruct (Nat.eq_dec y i) as [->|Ny]].
    + rewrite upd_same in *. rewrite (upd_other _ _ _ y) in * by auto. rewrite Hname.
      destruct Hcases as [(-> & Hc)|(a0 & -> & Ha0)].
      * cbn [fold_left]. apply I2; auto.
      * left. cbn [fold_left]. rewrite (Ha0 a Cx). apply bcast_in; auto.
    + rewrite upd_same in *. rewrite (upd_other _ _ _ x) in * by auto. rewrite Hname.
      destruct Hcases as [(-> & Hc)|(a0 & -> & Ha0)].
      * cbn [fold_left]. apply I2; auto.
      * right. cbn [fold_left]. rewrite (Ha0 a Cy). apply bcast_in; auto.
    + rewrite (upd_other _ _ _ x), (upd_other _ _ _ y) in * by auto.
      destruct (I2 x y a Hxy Cx Cy); [left|right]; apply Grow; auto.
Qed.

Theorem deliver_preserves n r : names_distinct n -> Inv n -> Inv (deliver_step n r).
Proof.
  intros ND [I1 I2]. unfold deliver_step. destruct (qs n r) as [|m rest] eqn:Eq; [split; assumption|].
  destruct (ca_claim (cas n r) m) as [c' outs] eqn:E.
  destruct (ca_claim_cases _ _ _ _ E) as (Hname & _ & Hnorm & Hcases).
  split.
  - intros k. cbn. unfold upd. destruct (Nat.eqb_spec k r); [subst|apply I1].
    intros S. destruct (Hnorm S) as [H0|H0]; [exact H0|subst c'; apply I1; exact S].
  - intros x y a Hxy Cx Cy. cbn [cas qs] in *.
    assert (Grow : forall k v, k <> r -> In v (qs n k) ->
              In v (fold_left (fun q o => bcast q r o) outs (upd (qs n) r rest) k)).
    { intros k v Hk Hin. apply fold_bcast_grow. rewrite upd_other; auto. }
    destruct (Nat.eq_dec x r) as [->|Nx]; [|destruct (Nat.eq_dec y r) as [->|Ny]].
    + rewrite upd_same in *. rewrite (upd_other _ _ _ y) in * by auto. rewrite Hname.
      destruct Hcases as [(-> & -> & Hm)|(a0 & -> & Ha0)].
      * cbn [fold_left]. rewrite upd_same, (upd_other _ _ _ y) by auto.
        destruct (I2 r y a Hxy Cx Cy) as [W|W]; [left; exact W|].
        rewrite Eq in W. destruct W as [W|W]; [|right; exact W].
        exfalso. specialize (Hm a Cx). subst m. cbn in Hm. specialize (Hm eq_refl).
        apply (ND y r); auto.
      * left. cbn [fold_left]. rewrite (Ha0 a Cx). apply bcast_in; auto.
    + rewrite upd_same in *. rewrite (upd_other _ _ _ x) in * by auto. rewrite Hname.
      destruct Hcases as [(-> & -> & Hm)|(a0 & -> & Ha0)].
      * cbn [fold_left]. rewrite upd_same, (upd_other _ _ _ x) by auto.
        destruct (I2 x r a Hxy Cx Cy) as [W|W]; [|right; exact W].
        rewrite Eq in W. destruct W as [W|W]; [|left; exact W].
        exfalso. specialize (Hm a Cy). subst m. cbn in Hm. specialize (Hm eq_refl).
        apply (ND x r); auto.
      * right. cbn [fold_left]. rewrite (Ha0 a Cy). apply bcast_in; auto.
    + rewrite (upd_other _ _ _ x), (upd_other _ _ _ y) in * by auto.
      destruct (I2 x y a Hxy Cx Cy); [left|right]; apply Grow; auto.
Qed.

Definition init_ok (n : net) := (forall i, c_state (cas n i) = ca_state_NONE) /\ (forall i, qs n i = []).
Lemma init_inv n : init_ok n -> Inv n.
Proof.
  intros [H1 H2]. split; intros.
  - rewrite H1 in H. discriminate.
  - destruct H0 as [[S _]|[S _]]; rewrite H1 in S; discriminate.
Qed.

Lemma step_nd n e : names_distinct n -> names_distinct (step n e).
Proof. intros ND i j Hij. rewrite !step_name. auto. Qed.

(* T04.1: the conflict invariant holds in every reachable state, for every schedule and any number of CAs *)
Theorem reachable_inv n evs : init_ok n -> names_distinct n ->
  Inv (fold_left step evs n) /\ names_distinct (fold_left step evs n).
Proof.
  intros Hi ND. assert (Inv n) as HI by (apply init_inv; auto). clear Hi.
  revert n ND HI. induction evs as [|e es IH]; intros n ND HI; cbn; [auto|].
  apply IH; [apply step_nd; auto|]. destruct e; cbn; [apply timer_preserves|apply deliver_preserves]; auto.
Qed.

(* T04.2: once the bus is quiet no two operational CAs hold the same address *)
Theorem unique_at_quiescence n evs i j :
  init_ok n -> names_distinct n -> i <> j ->
  let n' := fold_left step evs n in
  (forall k, qs n' k = []) ->
  c_state (cas n' i) = ca_state_NORMAL -> c_state (cas n' j) = ca_state_NORMAL ->
  c_addr (cas n' i) <> c_addr (cas n' j).
Proof.
  intros Hi ND Hij n' Hq Si Sj Heq.
  destruct (reachable_inv n evs Hi ND) as [[I1 I2] _]. fold n' in I1, I2.
  pose proof (I1 i Si) as Ai.
  destruct (I2 i j (c_ann (cas n' i)) Hij) as [W|W].
  - left; auto.
  - left; split; [auto|congruence].
  - rewrite Hq in W; destruct W.
  - rewrite Hq in W; destruct W.
Qed.

(* T04.3: a CA leaves the address it claims only on a claim for that address with a strictly lower NAME *)
Theorem leaves_only_to_lower c m c' outs a :
  ca_claim c m = (c', outs) -> Claims c a -> ~ Claims c' a -> fst m = a /\ snd m < c_name c.
Proof.
  unfold ca_claim. destruct m as [sa other]. intros E Ca Hn. cbn [fst snd].
  destruct (awaiting c sa) eqn:G; cbn [negb] in E.
  - assert (sa = a) as ->.
    { unfold awaiting in G. destruct Ca as [[S A]|[S A]]; rewrite S, ?A in G; cbn in G.
      - rewrite orb_false_r in G. lia.
      - lia. }
    split; [reflexivity|].
    destruct (c_name c =? other); [inversion E; subst; contradiction|].
    destruct (c_name c >? other) eqn:L; [lia|].
    destruct (c_state c =? ca_state_NORMAL); inversion E; subst; contradiction.
  - inversion E; subst. contradiction.
Qed.

(* the timer never makes a CA leave an address *)
Theorem timer_keeps_claim c c' outs tts a : ca_timer c = (c', outs, tts) -> Claims c a -> Claims c' a.
Proof.
  unfold ca_timer. intros E Ca.
  destruct (c_state c =? ca_state_NONE) eqn:E0.
  - exfalso. destruct Ca as [[S _]|[S _]]; rewrite S in E0; discriminate.
  - destruct (c_state c =? ca_state_WAIT_VETO) eqn:E1.
    + inversion E; subst. destruct Ca as [[S A]|[S A]]; [rewrite S in E1; discriminate|].
      left. cbn. split; [reflexivity|congruence].
    + inversion E; subst. exact Ca.
Qed.

(* T04.4: loser behaviour — exactly as the standard asks *)
Theorem loser_behaviour c sa other :
  awaiting c sa = true -> other < c_name c ->
  (c_aac c = 0 ->
     ca_claim c (sa, other) = (with_ca_state c ca_state_CANNOT_CLAIM None (c_ann c), [(addr_NULL, c_name c)])) /\
  (c_aac c <> 0 ->
     ca_claim c (sa, other) = (with_ca_state c ca_state_WAIT_VETO (Some addr_NULL) (c_ann c + 1), [(c_ann c + 1, c_name c)])).
Proof.
  intros G L. unfold ca_claim. rewrite G. cbn [negb].
  assert ((c_name c =? other) = false) as -> by lia.
  assert ((c_name c >? other) = true) as -> by lia.
  split; intros H.
  - rewrite H. reflexivity.
  - assert ((c_aac c =? 0) = false) as -> by lia. reflexivity.
Qed.

(* T04.5: every yield strictly increases the announced address *)
Theorem yield_increases c m c' outs :
  ca_claim c m = (c', outs) -> c_ann c' = c_ann c \/ (c_ann c' = c_ann c + 1 /\ c_state c' = ca_state_WAIT_VETO).
Proof.
  unfold ca_claim. destruct m as [sa other]. intros E.
  destruct (negb (awaiting c sa)); [inversion E; auto|].
  destruct (c_name c =? other); [inversion E; auto|].
  destruct (c_name c >? other).
  - destruct (c_aac c =? 0); inversion E; subst; cbn; auto.
  - destruct (c_state c =? ca_state_NORMAL); inversion E; auto.
Qed.

(* non-vacuity: three CAs contending for address 200 on a concrete schedule *)
Definition ex_net : net :=
  {| cas := fun i => mk_ca (Z.of_nat i * 7 + 9223372036854775808 + 5) (Some 200) false; qs := fun _ => [] |}.
Example ex_contention :
  let n' := fold_left step [Timer 0; Timer 1; Deliver 0; Deliver 1; Timer 2; Deliver 0; Deliver 1; Deliver 2; Deliver 2;
                            Deliver 0; Deliver 1; Deliver 2; Deliver 0; Deliver 1; Timer 0; Timer 1; Timer 2;
                            Deliver 0; Deliver 1; Deliver 2] ex_net in
  map (fun i => c_ann (cas n' i)) [0; 1; 2]%nat = [200; 201; 202].
Proof. vm_compute. reflexivity. Qed.

(* OrderProofs.v — C01/C02/C04/C08/C13: "state before send", on skeletons GENERATED from the current source
   (theories/gen/SkelGen.v, items order_send21/22, order_burst21/22, order_ca).
   In these skeletons handing a frame to the bus sets a flag (FMark) and every commit of the protocol state the reply
   to that frame depends on is a check point (FAlt FRet FSkip).  The verified checker accepts them; hence on EVERY
   path — whatever the conditions evaluate to —
   * send_pgn has stored the send session before the RTS goes out (a CTS handled before send_pgn returns finds it),
   * the burst loops have updated the session record (counter, state, deadline) before the data frame goes out,
   * the controller application has committed its claim state and address before the claim frame goes out
     (a contending claim or veto handled before the send returns meets the state it answers to). *)
From J1939 Require Import Base SkelDefs FlowDefs.
From J1939.gen Require Import SkelGen.
From J1939P Require Import FlowProofs.

Definition never_commits_after_send (t : fl) : Prop := forall hh, exec t false (Term hh) -> hh = false.

Lemma accepted_never_commits_after_send t : flow_ok t = true -> never_commits_after_send t.
Proof. intros H hh X. exact (flow_ok_no_leak t H hh X). Qed.

Theorem order_send21_ok : never_commits_after_send order_send21.
Proof. apply accepted_never_commits_after_send. vm_compute. reflexivity. Qed.
Theorem order_burst21_ok : never_commits_after_send order_burst21.
Proof. apply accepted_never_commits_after_send. vm_compute. reflexivity. Qed.
Theorem order_send22_ok : never_commits_after_send order_send22.
Proof. apply accepted_never_commits_after_send. vm_compute. reflexivity. Qed.
Theorem order_burst22_ok : never_commits_after_send order_burst22.
Proof. apply accepted_never_commits_after_send. vm_compute. reflexivity. Qed.
Theorem order_ca_ok : never_commits_after_send order_ca.
Proof. apply accepted_never_commits_after_send. vm_compute. reflexivity. Qed.

(* the checker rejects the shape of the defect: frame first, state afterwards *)
Example order_rejects_send_then_commit :
  flow_ok (FSeq FMark (FAlt FRet FSkip)) = false /\ flow_ok (FSeq (FAlt FRet FSkip) FMark) = true.
Proof. split; reflexivity. Qed.

(* Net22.v — two model nodes with the J1939-22 (CAN FD) data link layer on one bus: the closed loop of an FD transfer.
   Executable definitions only; same schedule as Net21.v: a frame waiting for B is handled by B's stack, else a frame
   waiting for A by A's, else both job threads run one iteration; the clock advances only when that produced nothing. *)
From J1939 Require Import Base CodecGlue Model21 Model22.
From J1939.gen Require Import Codec Tp21Gen CaGen Tp22Gen.
From J1939P Require Import Flat MpgProofs Net21.

Record net22 := { fa : node22; fb : node22; pa : list frame; pb : list frame; fclk : Z;
                  eva2 : list out; evb2 : list out; wab2 : list frame; wba2 : list frame }.

Definition handle22 (m : node22) (t : Z) (f : frame) : node22 * list out :=
  let '(m', os, _) := flat22 (notify22 m t (f_id f) (f_data f)) in (m', os).

Definition step22 (s : net22) : net22 :=
  match pb s with
  | f :: r =>
      let '(m', os) := handle22 (fb s) (fclk s) f in
      {| fa := fa s; fb := m'; pa := pa s ++ txs os; pb := r; fclk := fclk s;
         eva2 := eva2 s; evb2 := evb2 s ++ evs os; wab2 := wab2 s; wba2 := wba2 s ++ txs os |}
  | [] =>
      match pa s with
      | f :: r =>
          let '(m', os) := handle22 (fa s) (fclk s) f in
          {| fa := m'; fb := fb s; pa := r; pb := txs os; fclk := fclk s;
             eva2 := eva2 s ++ evs os; evb2 := evb2 s; wab2 := wab2 s ++ txs os; wba2 := wba2 s |}
      | [] =>
          let '(a', oa, ra) := flat22 (job_iter22 (fa s) (fclk s)) in
          let '(b', ob, rb) := flat22 (job_iter22 (fb s) (fclk s)) in
          let quiet := match txs oa, txs ob with [], [] => true | _, _ => false end in
          let dt := if quiet && (n_wakes (base a') =? n_wakes (base (fa s))) && (n_wakes (base b') =? n_wakes (base (fb s)))
                    then Z.max 0 (Z.min (sleep_of ra) (sleep_of rb)) else 0 in
          {| fa := a'; fb := b'; pa := txs ob; pb := txs oa; fclk := fclk s + dt;
             eva2 := eva2 s ++ evs oa; evb2 := evb2 s ++ evs ob; wab2 := wab2 s ++ txs oa; wba2 := wba2 s ++ txs ob |}
      end
  end.

Fixpoint steps22 (k : nat) (s : net22) : net22 := match k with O => s | S k' => steps22 k' (step22 s) end.

Definition net22_send (s : net22) (dp pf ps prio sa : Z) (data : list Z) : net22 :=
  let '(a', os, _) := flat22 (send_pgn22 (fa s) (fclk s) dp pf ps prio sa data 0 ff_FEFF) in
  {| fa := a'; fb := fb s; pa := pa s; pb := pb s ++ txs os; fclk := fclk s;
     eva2 := eva2 s ++ evs os; evb2 := evb2 s; wab2 := wab2 s ++ txs os; wba2 := wba2 s |}.

Definition net22_0 (a b : node22) (t0 : Z) : net22 :=
  {| fa := a; fb := b; pa := []; pb := []; fclk := t0; eva2 := []; evb2 := []; wab2 := []; wba2 := [] |}.

Definition sub22 (m : node22) (cid : Z) (f : filt) : node22 := with_base m (subscribe (base m) cid f).

Definition quiet22 (s : net22) : bool :=
  match pa s, pb s, f_snd (fa s), f_rcv (fa s), f_snd (fb s), f_rcv (fb s) with
  | [], [], [], [], [], [] => forallb (fun b => b) (f_rts (fa s)) | _, _, _, _, _, _ => false end.

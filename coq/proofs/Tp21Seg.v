(* Tp21Seg.v — segmentation / reassembly arithmetic of J1939-21 (T01.1), over the model's own
   [dt_payload] and [num_packets]. *)
From J1939 Require Import Base CodecGlue Model21.

Definition seg7 (p : list Z) (k : nat) : list Z := firstn 7 (skipn (7 * k) p).
Definition pad7 (l : list Z) : list Z := l ++ repeat 255 (7 - length l).
Definition npk (n : nat) : nat := (n + 6) / 7.

Lemma pad7_len l : (length l <= 7)%nat -> length (pad7 l) = 7%nat.
Proof. intros; unfold pad7; rewrite app_length, repeat_length; lia. Qed.
Lemma seg7_len_le p k : (length (seg7 p k) <= 7)%nat.
Proof. unfold seg7; rewrite firstn_length; lia. Qed.

Fixpoint segs (p : list Z) (k : nat) : list Z :=
  match k with O => [] | S k' => segs p k' ++ pad7 (seg7 p k') end.
Lemma segs_len p k : length (segs p k) = (7 * k)%nat.
Proof. induction k; simpl; [reflexivity|]. rewrite app_length, IHk, pad7_len by apply seg7_len_le. lia. Qed.

Lemma segs_full p k : (7 * k <= length p)%nat -> segs p k = firstn (7 * k) p.
Proof.
  induction k; intros H; [reflexivity|].
  cbn [segs]. rewrite IHk by lia.
  assert (Hs : length (seg7 p k) = 7%nat).
  { unfold seg7. rewrite firstn_length, skipn_length. lia. }
  unfold pad7. rewrite Hs. cbn [repeat Nat.sub]. rewrite app_nil_r.
  unfold seg7. replace (7 * S k)%nat with (7 * k + 7)%nat by lia.
  rewrite <- (firstn_skipn (7 * k) (firstn (7 * k + 7) p)) at 1.
  rewrite firstn_firstn. replace (Nat.min (7 * k) (7 * k + 7)) with (7 * k)%nat by lia.
  rewrite firstn_skipn_comm. reflexivity.
Qed.

Lemma firstn_app_pad (a b : list Z) : firstn (length a) (a ++ b) = a.
Proof. rewrite firstn_app, Nat.sub_diag, firstn_all. simpl. apply app_nil_r. Qed.

(* T01.1 *)
Theorem seg7_reassemble p : firstn (length p) (segs p (npk (length p))) = p.
Proof.
  set (n := length p). set (q := (n / 7)%nat).
  assert (Hq : (7 * q <= n)%nat) by (unfold q; lia).
  destruct (Nat.eq_dec (n mod 7) 0) as [E|E].
  - assert (npk n = q) as -> by (unfold npk, q; lia).
    rewrite segs_full by (fold n; lia).
    assert (n = 7 * q)%nat by (unfold q; lia).
    rewrite firstn_firstn. replace (Nat.min n (7 * q)) with n by lia. apply firstn_all.
  - assert (npk n = S q) as -> by (unfold npk, q; lia).
    cbn [segs]. rewrite segs_full by (fold n; lia).
    unfold pad7, seg7. rewrite app_assoc.
    assert (firstn (7 * q) p ++ firstn 7 (skipn (7 * q) p) = p) as ->.
    { rewrite firstn_all2 with (n := 7%nat). apply firstn_skipn. rewrite skipn_length. fold n. unfold q. lia. }
    apply firstn_app_pad.
Qed.

(* any proper prefix of the packets carries fewer bytes than the message (used by C06) *)
Theorem sub_packets_short p k : (k < npk (length p))%nat -> (length (segs p k) < length p)%nat \/ length p = 0%nat.
Proof. intros H. rewrite segs_len. unfold npk in H. lia. Qed.

(* the model's packet builder is "sequence number :: padded 7-byte segment" *)
Lemma dt_payload_spec p (k : nat) :
  dt_payload p (Z.of_nat k) = (Z.of_nat k + 1) :: pad7 (seg7 p k).
Proof.
  unfold dt_payload. f_equal.
  replace (Z.to_nat (Z.of_nat k * 7)) with (7 * k)%nat by lia.
  unfold pad7, seg7.
  set (d := skipn (7 * k) p).
  destruct (Nat.ltb_spec 7 (length d)) as [L|L].
  - rewrite firstn_length. replace (Nat.min 7 (length d)) with 7%nat by lia.
    cbn [Nat.sub repeat]. rewrite app_nil_r. reflexivity.
  - rewrite firstn_all2 by lia. reflexivity.
Qed.

Lemma num_packets_npk (s : nat) : num_packets (Z.of_nat s) = Z.of_nat (npk s).
Proof.
  unfold num_packets, npk.
  destruct (Z.eqb_spec (Z.of_nat s mod 7) 0); lia.
Qed.

(* every packet is 8 bytes: sequence number + 7 *)
Lemma dt_payload_len p (k : nat) : length (dt_payload p (Z.of_nat k)) = 8%nat.
Proof. rewrite dt_payload_spec. cbn [length]. rewrite pad7_len by apply seg7_len_le. reflexivity. Qed.

Lemma bytes_pad7 l : bytes l -> bytes (pad7 l).
Proof.
  intros H. unfold pad7, bytes. apply Forall_app. split; [exact H|].
  apply Forall_forall. intros x Hx. apply repeat_spec in Hx. subst. unfold is_byte. lia.
Qed.
Lemma bytes_seg7 p k : bytes p -> bytes (seg7 p k).
Proof.
  unfold bytes, seg7. intros H. apply Forall_forall. intros x Hx.
  rewrite Forall_forall in H. apply H.
  assert (In x (skipn (7 * k) p)) as Hy.
  { rewrite <- (firstn_skipn 7 (skipn (7 * k) p)). apply in_or_app. left. exact Hx. }
  rewrite <- (firstn_skipn (7 * k) p). apply in_or_app. right. exact Hy.
Qed.

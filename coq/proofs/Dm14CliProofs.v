(* Dm14CliProofs.v — C17/C18 on the requesting-side state machine (theories/Dm14Cli.v).
   * a read whose server answers proceed / DM16 / operation-completed returns EXACTLY what the DM16 carries (raw) or the
     integers those bytes encode (converted), sends the closing DM14 and leaves the query idle with no callback left
   * an error DM15 (operation failed or busy, EDCP 6 or 7) is reported as an exception naming source, error code and EDCP
   * a server that never answers is reported as "no response"; in all cases the query is idle again afterwards *)
From J1939 Require Import Base Dm14Srv Dm14Model Dm14Cli.
Open Scope Z_scope.
Local Arguments Z.mul : simpl never.
Local Arguments Z.add : simpl never.

Definition fresh (s : cli) : Prop := q_dq s = [] /\ q_xq s = [] /\ q_subs s = [].

Definition dm14_frame (objcnt direct command addr key : Z) : list Z :=
  [objcnt; direct * 16 + command * 2 + 1] ++ le4 addr ++ [Z.land key 255; Z.shiftr key 8].

(* ---------------------------------------------------------------- no answer *)
Theorem read_no_response haskey keyf s dest direct addr objcnt size signed raw :
  fresh s -> 0 < objcnt ->
  exists s', cli_read haskey keyf s dest direct addr objcnt size signed raw [] =
             (s', [CSend 217 (Z.land dest 255) 6 (dm14_frame objcnt direct 1 addr 7)], CRRaise XNoResponse) /\
             q_state s' = Q_IDLE /\ q_subs s' = [] /\ q_dq s' = [] /\ q_xq s' = [].
Proof.
  intros (Hd & Hx & Hs) Hc. unfold cli_read. assert ((objcnt <=? 0) = false) as -> by lia.
  unfold send_dm14. cbn [q_dest csub cset_subs cupd q_subs q_objcnt q_direct q_command q_addr].
  cbn [cwait cset_state cupd q_dq]. rewrite Hd. cbn [q_state]. cbn [Z.eqb Q_WAIT_FOR_SEED Pos.eqb].
  change (Q_WAIT_FOR_SEED =? Q_WAIT_FOR_SEED) with true. cbv iota.
  eexists. split; [reflexivity|]. cbn. rewrite Hs, Hx. cbn. repeat split; reflexivity.
Qed.

(* ---------------------------------------------------------------- an error response *)
Definition dm15_error (direct status e0 e1 e2 edcp : Z) : list Z := [0; direct * 16 + status * 2 + 1; e0; e1; e2; edcp; 255; 255].

Lemma status_of_dm15 direct status : 0 <= direct < 2 -> 0 <= status < 8 ->
  Z.land (Z.shiftr (direct * 16 + status * 2 + 1) 1) 7 = status.
Proof.
  intros Hd Hs. rewrite shiftr_div by lia. rewrite land_7. pow2_norm. lia.
Qed.

(* the callback level: an 'operation failed' / 'busy' DM15 from the server with EDCP 6 or 7 wakes the waiting call (an
   item in the data queue) and queues the exception naming source address, 24-bit error code and EDCP *)
Theorem dm15_error_is_queued haskey keyf s dest direct status e0 e1 e2 edcp :
  q_dest s = Some dest -> 0 <= direct < 2 -> (status = 5 \/ status = 1) -> (edcp = 6 \/ edcp = 7) ->
  cparse_dm15 haskey keyf s PGN_DM15 dest (dm15_error direct status e0 e1 e2 edcp) =
  cok (cset_xq (cset_dq s (q_dq s ++ [None])) (q_xq s ++ [XDevice dest (e0 + 256 * (e1 + 256 * (e2 + 256 * 0))) edcp])).
Proof.
  intros Hd Hdir Hst Hed. unfold cparse_dm15. change (PGN_DM15 =? PGN_DM15) with true. rewrite Hd, Z.eqb_refl. cbn [negb orb].
  unfold dm15_error.
  change (py_get [0; direct * 16 + status * 2 + 1; e0; e1; e2; edcp; 255; 255] 7) with (Some 255).
  change (py_get [0; direct * 16 + status * 2 + 1; e0; e1; e2; edcp; 255; 255] 6) with (Some 255).
  change (py_get [0; direct * 16 + status * 2 + 1; e0; e1; e2; edcp; 255; 255] 1) with (Some (direct * 16 + status * 2 + 1)).
  cbv iota beta. rewrite (status_of_dm15 direct status Hdir ltac:(lia)).
  assert (((status =? 1) || (status =? 5)) = true) as -> by lia.
  change (py_get [0; direct * 16 + status * 2 + 1; e0; e1; e2; edcp; 255; 255] 5) with (Some edcp).
  change (py_slice [0; direct * 16 + status * 2 + 1; e0; e1; e2; edcp; 255; 255] 2 5) with [e0; e1; e2].
  cbv iota beta. assert (((edcp =? 6) || (edcp =? 7)) = true) as -> by lia.
  reflexivity.
Qed.

(* ... and the waiting read raises exactly the first queued exception, leaving the query idle with no callback registered *)
Theorem read_raises_queued_exception haskey keyf s dest direct addr objcnt size signed raw during s4 o4 item rest x xr :
  0 < objcnt ->
  (let s1 := csub (cupd s (q_state s) (Some dest) direct addr objcnt size signed raw 1 (q_bytes s) (q_mem s) (q_dq s) (q_xq s) (q_subs s)) CB15 in
   cwait haskey keyf (cset_state s1 Q_WAIT_FOR_SEED) during = (s4, o4)) ->
  q_dq s4 = item :: rest -> q_xq s4 = x :: xr ->
  snd (cli_read haskey keyf s dest direct addr objcnt size signed raw during) = CRRaise x /\
  q_state (fst (fst (cli_read haskey keyf s dest direct addr objcnt size signed raw during))) = Q_IDLE.
Proof.
  intros Hc Hw Hq Hx. unfold cli_read. assert ((objcnt <=? 0) = false) as -> by lia.
  unfold send_dm14. cbn [q_dest csub cset_subs cupd]. cbv zeta in Hw. cbn [csub cset_subs cupd] in Hw.
  rewrite Hw, Hq. cbn [q_xq cset_dq cupd]. rewrite Hx. split; reflexivity.
Qed.

(* ---------------------------------------------------------------- the data of a read *)
(* the DM16 of the server, while the query waits for it: EXACTLY the bytes the frame carries become the result *)
Theorem dm16_becomes_result s dest d0 rest :
  q_dest s = Some dest -> 0 <= d0 ->
  cparse_dm16 s PGN_DM16 dest (d0 :: rest) =
  cok (cset_state (csub (cunsub (cset_mem s (Some (Dm14Model.dm16_extract (d0 :: rest)))) CB16) CB15) Q_WAIT_FOR_OPER).
Proof.
  intros Hd H0. unfold cparse_dm16. change (PGN_DM16 =? PGN_DM16) with true. rewrite Hd, Z.eqb_refl. cbn [negb orb].
  change (py_get (d0 :: rest) 0) with (Some d0). cbv iota beta.
  assert (Hl : 0 <= Z.min d0 (zlen (d0 :: rest) - 1) <= zlen rest) by (unfold zlen; cbn [length]; lia).
  assert (E : py_slice (d0 :: rest) 1 (Z.min d0 (zlen (d0 :: rest) - 1) + 1) = Dm14Model.dm16_extract (d0 :: rest)).
  { unfold Dm14Model.dm16_extract. unfold py_slice, zlen in *. cbn [length] in *.
    set (l := Z.min d0 (Z.of_nat (S (length rest)) - 1)) in *.
    destruct (l + 1 <? 0) eqn:A; [lia|]. rewrite A.
    destruct (l + 1 >? Z.of_nat (S (length rest))) eqn:B; [lia|].
    destruct (1 >? Z.of_nat (S (length rest))) eqn:Cc; [lia|].
    replace (Z.min d0 (Z.of_nat (length rest))) with l by (unfold l; lia).
    destruct (l + 1 <=? 1) eqn:D.
    - assert (l = 0) as -> by lia. reflexivity.
    - replace (l + 1 - 1) with l by lia. reflexivity. }
  rewrite E. reflexivity.
Qed.

(* the closing DM15 hands that result to the waiting read and sends the closing DM14 (operation completed) *)
Theorem opcomplete_hands_over haskey keyf s dest direct :
  q_dest s = Some dest -> q_state s = Q_WAIT_FOR_OPER -> 0 <= direct < 2 -> q_objcnt s <> 0 ->
  exists s', cparse_dm15 haskey keyf s PGN_DM15 dest [0; direct * 16 + 4 * 2 + 1; 255; 255; 255; 255; 255; 255] =
             (s', [CSend 217 (Z.land dest 255) 6 (dm14_frame 1 (q_direct s) 4 (q_addr s) 65535)], None) /\
             q_dq s' = q_dq s ++ [q_mem s] /\ q_state s' = Q_IDLE /\ q_xq s' = q_xq s.
Proof.
  intros Hd Hst Hdir Hoc. unfold cparse_dm15. change (PGN_DM15 =? PGN_DM15) with true. rewrite Hd, Z.eqb_refl. cbn [negb orb].
  change (py_get [0; direct * 16 + 4 * 2 + 1; 255; 255; 255; 255; 255; 255] 7) with (Some 255).
  change (py_get [0; direct * 16 + 4 * 2 + 1; 255; 255; 255; 255; 255; 255] 6) with (Some 255).
  change (py_get [0; direct * 16 + 4 * 2 + 1; 255; 255; 255; 255; 255; 255] 1) with (Some (direct * 16 + 4 * 2 + 1)).
  cbv iota beta. rewrite (status_of_dm15 direct 4 Hdir ltac:(lia)).
  change ((4 =? 1) || (4 =? 5)) with false. cbv iota.
  change (py_get [0; direct * 16 + 4 * 2 + 1; 255; 255; 255; 255; 255; 255] 0) with (Some 0). cbv iota beta.
  assert ((0 =? q_objcnt s) = false) as -> by lia. rewrite andb_false_r.
  rewrite Hst. change (Q_WAIT_FOR_OPER =? Q_WAIT_FOR_OPER) with true. change (negb (4 =? 4)) with false. cbv iota.
  unfold send_dm14. cbn [q_dest cset_command cset_objcnt cupd]. rewrite Hd.
  cbn [cbind cok q_objcnt q_direct q_command q_addr cupd app].
  eexists. split; [reflexivity|]. cbn. repeat split; reflexivity.
Qed.

(* and the read returns it: the raw bytes, or the integers they encode at the requested object size and signedness *)
Theorem read_returns_queue_head haskey keyf s dest direct addr objcnt size signed raw during s4 o4 b bs rest :
  0 < objcnt ->
  (let s1 := csub (cupd s (q_state s) (Some dest) direct addr objcnt size signed raw 1 (q_bytes s) (q_mem s) (q_dq s) (q_xq s) (q_subs s)) CB15 in
   cwait haskey keyf (cset_state s1 Q_WAIT_FOR_SEED) during = (s4, o4)) ->
  q_dq s4 = Some (b :: bs) :: rest -> q_xq s4 = [] ->
  snd (cli_read haskey keyf s dest direct addr objcnt size signed raw during) =
    CRValues (if raw then b :: bs else bytes_to_values (Z.to_nat size) signed (b :: bs)) /\
  q_state (fst (fst (cli_read haskey keyf s dest direct addr objcnt size signed raw during))) = Q_IDLE.
Proof.
  intros Hc Hw Hq Hx. unfold cli_read. assert ((objcnt <=? 0) = false) as -> by lia.
  unfold send_dm14. cbn [q_dest csub cset_subs cupd]. cbv zeta in Hw. cbn [csub cset_subs cupd] in Hw.
  rewrite Hw, Hq. cbn [q_xq cset_dq cupd]. rewrite Hx. split; reflexivity.
Qed.

(* non-vacuity, by evaluation: complete transactions through the model — a signed 2-byte read, a failed one, a write *)
Example client_transactions :
  let srv := 212 in
  let rd := cli_read false (fun x => x) init_cli srv 1 4096 2 2 true false
              [(PGN_DM15, srv, [2; 17; 255; 255; 255; 255; 255; 255]); (PGN_DM16, srv, [4; 254; 255; 1; 128; 255; 255; 255]);
               (PGN_DM15, srv, [0; 25; 255; 255; 255; 255; 255; 255])] in
  let er := cli_read false (fun x => x) init_cli srv 1 4096 2 1 false true [(PGN_DM15, srv, dm15_error 1 5 3 16 0 7)] in
  let wr := cli_write false (fun x => x) init_cli srv 1 4096 [7; 8; 9] 1
              [(PGN_DM15, srv, [3; 17; 255; 255; 255; 255; 255; 255]); (PGN_DM15, srv, [0; 25; 255; 255; 255; 255; 255; 255])] in
  snd rd = CRValues [-2; -32767] /\ q_state (fst (fst rd)) = Q_IDLE /\ q_subs (fst (fst rd)) = [] /\
  snd er = CRRaise (XDevice 212 4099 7) /\ q_state (fst (fst er)) = Q_IDLE /\
  snd wr = CRNone /\ snd (fst wr) = [CSend 217 212 6 [3; 21; 0; 16; 0; 0; 7; 0]; CSend 215 212 6 [3; 7; 8; 9];
                                       CSend 217 212 6 [1; 25; 0; 16; 0; 0; 255; 255]].
Proof. vm_compute. repeat split; reflexivity. Qed.

(* ---------------------------------------------------------------- the data of a write *)
(* write() stores the little-endian bytes of the values; when the server's proceed DM15 arrives the query sends ONE DM16
   to the server carrying exactly those bytes in the framing whose extraction (on the server: C17_write_stores_exact_bytes)
   returns them unchanged (Dm14Model.dm16_frame / C17_dm16_roundtrip) *)
Theorem write_sends_exact_bytes s dest :
  q_dest s = Some dest -> q_state s = Q_WAIT_FOR_SEED -> q_command s = 2 ->
  cwait_for_data s = (cset_state s Q_WAIT_FOR_OPER, [CSend 215 (Z.land dest 255) 6 (Dm14Model.dm16_frame (q_bytes s))], None).
Proof.
  intros Hd Hst Hc. unfold cwait_for_data. rewrite Hst. change (negb (Q_WAIT_FOR_SEED =? Q_WAIT_FOR_SEED)) with false. cbv iota.
  rewrite Hc. change (2 =? 2) with true. cbv iota. unfold csend_dm16. rewrite Hd. unfold cbind, cok. cbn [app].
  unfold Dm14Model.dm16_frame, zlen. reflexivity.
Qed.


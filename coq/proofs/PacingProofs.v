(* PacingProofs.v — C09 (J1939-21): responder never over-grants; BAM pacing. (Flow-control obedience of the
   originator is proved in Tp21Orig: no_dt_without_cts, window_burst, cts_hold.) *)
From J1939 Require Import Base CodecGlue Model21.
From J1939.gen Require Import Codec Tp21Gen CaGen.
From J1939P Require Import CodecProofs Flat Tp21Seg Tp21Resp Tp21Orig.

(* T09.2: the first grant and every later grant of the responder role theorem (T01.3) are bounded by the
   responder's own maximum, by the limit announced in the RTS and by what remains; and are >= 1 while packets remain *)
Theorem first_grant_bounded maxp limit num :
  1 <= maxp -> 1 <= limit -> 1 <= num ->
  let g0 := Z.min maxp (Z.min limit num) in 1 <= g0 /\ g0 <= maxp /\ g0 <= limit /\ g0 <= num.
Proof. intros. cbv zeta. lia. Qed.

Theorem later_grants_bounded g0 num k :
  1 <= g0 -> 0 <= k -> k + 1 < num ->
  let g := Z.min g0 (num - (k + 1)) in 1 <= g /\ g <= g0 /\ g <= num - (k + 1).
Proof. intros. cbv zeta. lia. Qed.

(* every output listed in the responder's expected behaviour (Tp21Resp.expect) is a CTS of this form, the
   end-of-message acknowledge, or a delivery *)
Definition is_cb (o : out) : bool := match o with OCb _ _ _ _ _ => true | _ => false end.
Theorem expect_grants prio sa dest pgn p n0 g o : forall (cnt k : nat),
  In o (expect prio sa dest pgn p n0 g k cnt) ->
  (exists j, o = OTx (tp21_cts dest sa (Z.min g (Z.of_nat (npk (length p)) - (Z.of_nat j + 1))) (Z.of_nat j + 2) pgn) /\ (k <= j)%nat)
  \/ o = OTx (tp21_eom_ack dest sa (len p) (Z.of_nat (npk (length p))) pgn)
  \/ is_cb o = true.
Proof.
  induction cnt as [|c IH]; intros k H; [destruct H|].
  cbn [expect] in H. apply in_app_or in H. destruct H as [H|H].
  - destruct (Z.of_nat k + 1 =? Z.of_nat (npk (length p))).
    + destruct H as [<-|H]; [right; left; reflexivity|].
      right; right. unfold deliveries, deliveries_from in H. apply in_map_iff in H.
      destruct H as (s & <- & _). reflexivity.
    + destruct ((Z.of_nat k + 1) mod g =? 0); [|destruct H].
      destruct H as [<-|[]]. left. exists k. split; [reflexivity|lia].
  - destruct (IH (S k) H) as [(j & E & Hj)|[E|E]].
    + left. exists j. split; [exact E|lia].
    + right; left; exact E.
    + right; right; exact E.
Qed.

(* T09.3: BAM pacing — a broadcast session whose deadline lies in the future is not touched by a pass;
   a pass that sends a packet re-arms the deadline to now + interval, so consecutive packets are at least the
   configured interval apart (lower bound) and the next one goes out in the first pass at or after it (upper bound
   = interval + scheduling latency) *)
Theorem bam_waits_for_interval key now nw n k b :
  tget (n_snd n) key = Some b -> s_state b = ST_SENDING_BM -> 0 <= now < s_deadline b ->
  snd_pass [key] now nw n k = k n (if nw >? s_deadline b then s_deadline b else nw).
Proof.
  intros Hget Hst Hd. cbn [snd_pass]. rewrite Hget.
  assert ((s_deadline b =? 0) = false) as -> by lia.
  assert ((s_deadline b >? now) = true) as -> by lia. reflexivity.
Qed.

Theorem bam_sends_one_and_rearms key now nw n k b :
  tget (n_snd n) key = Some b -> s_state b = ST_SENDING_BM -> s_deadline b <> 0 -> s_deadline b <= now ->
  s_next b + 1 < s_num b ->
  flat (snd_pass [key] now nw n k) =
  let b' := upd_sbuf b ST_SENDING_BM (now + n_bam_iv n) (s_next b + 1) in
  let nw' := if nw >? now + n_bam_iv n then now + n_bam_iv n else nw in
  let '(s, os, r) := flat (k (set_snd n (tset (n_snd n) key b')) nw') in
  (s, OTx (tp21_dt (s_src b) (s_dst b) (dt_payload (s_data b) (s_next b))) :: os, r).
Proof.
  intros Hget Hst H0 Hle Hn. cbn [snd_pass]. rewrite Hget.
  assert ((s_deadline b =? 0) = false) as -> by lia.
  assert ((s_deadline b >? now) = false) as -> by lia.
  rewrite Hst. change (ST_SENDING_BM =? ST_WAITING_CTS) with false.
  change (ST_SENDING_BM =? ST_SENDING_IN_CTS) with false. change (ST_SENDING_BM =? ST_SENDING_BM) with true. cbv iota.
  assert ((s_next b + 1 <? s_num b) = true) as -> by lia.
  cbn [flat upd_sbuf s_deadline snd_pass]. rewrite <- Hst.
  destruct (flat (k _ _)) as [[s os] r]. reflexivity.
Qed.

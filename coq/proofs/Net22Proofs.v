(* Net22Proofs.v — C02 end to end: in the closed loop of two FD model nodes (Net22.v) an RTS/CTS transfer of any payload
   delivers exactly that payload, once; afterwards nothing is queued, no session is left and the session number is back. *)
From J1939 Require Import Base CodecGlue Model21 Model22.
From J1939.gen Require Import Codec Tp21Gen CaGen Tp22Gen.
From J1939P Require Import CodecProofs Flat MpgProofs PoolProofs Tp21Seg Tp21Resp Tp22Proofs Tp22Resp Net21 Net21Proofs Net22.
Local Arguments Z.add : simpl never.
Local Arguments Z.sub : simpl never.
Local Arguments Z.mul : simpl never.

(* ---------------------------------------------------------------- fields of the FD.TP.CM frames the builders produce *)
Lemma cm22_fields src dst ctl s size nseg b7 b8 pgn prio :
  0 <= ctl < 16 -> 0 <= s < 16 -> 0 <= size < 16777216 -> 0 <= nseg < 16777216 -> 0 <= b7 < 256 -> 0 <= b8 < 256 ->
  0 <= pgn < 16777216 ->
  let d := f_data (tp22_cm src dst ctl s size nseg b7 b8 pgn prio) in
  length d = 12%nat /\ tp22_cm_control_byte d = ctl /\ tp22_cm_session_num d = s /\ tp22_cm_message_size d = size /\
  tp22_cm_segment_num d = nseg /\ byte_at d 7 = b7 /\ byte_at d 8 = b8 /\ tp22_cm_pgn d = pgn.
Proof.
  intros Hc Hs Hz Hn H7 H8 Hp. cbn [tp22_cm f_data].
  unfold tp22_cm_control_byte, tp22_cm_session_num, tp22_cm_message_size, tp22_cm_segment_num, tp22_cm_pgn, byte_at.
  cbn [nth length].
  assert (E0 : Z.lor (Z.land ctl 15) (Z.shiftl (Z.land s 15) 4) = ctl + s * 16).
  { rewrite !land_15, shiftl_mul by lia. rewrite !Z.mod_small by lia. rewrite Z.lor_comm.
    replace (s * 2 ^ 4) with (s * 16) by (pow2_norm; lia).
    rewrite (lor_add_low (s * 16) ctl 4); [lia|lia|apply Z.mod_mul; lia|lia]. }
  rewrite E0.
  rewrite !land_255, !land_15. rewrite !shiftr_div by lia. pow2_norm. rewrite !Z.mod_mod by lia.
  repeat split; try reflexivity; try lia.
  - apply le24. lia.
  - apply le24. lia.
  - apply le24. lia.
Qed.

(* ---------------------------------------------------------------- dispatch of FD.TP frames *)
Lemma notify22_pdu1 m now prio pf dest sa data :
  0 <= prio < 8 -> 0 <= pf < 240 -> 0 <= dest < 256 -> 0 <= sa < 256 -> accepts (base m) dest = true ->
  notify22 m now (mid_can_id_of prio (pgn_value_of 0 pf dest) sa) data =
  let pv := pf * 256 in
  if pv =? pgn_FEFF_MULTI_PG then process_multi_pg 70 prio sa dest data m
  else if pv =? pgn_ADDRESSCLAIM then claim_fanout22 0 (length (n_cas (base m))) sa data m
  else if pv =? pgn_REQUEST then
    lift m (request_fanout 0 (length (n_cas (base m))) sa dest data (base m) (fun n' => Done n' 0)) (fun m' r => Done m' r)
  else if pv =? pgn_FD_TP_CM then process_tp_cm22 prio sa dest data now m
  else if pv =? pgn_FD_TP_DT then process_tp_dt22 prio sa dest data now m
  else if (pv =? pgn_TP_CM) || (pv =? pgn_DATATRANSFER) then Done m 0
  else notify_subscribers22 prio pv sa dest data m (fun m' => Done m' 0).
Proof.
  intros Hp Hf Hd Hs Hacc. unfold notify22.
  destruct (pdu1_id_fields prio pf dest sa Hp Hf Hd Hs) as (E1 & E2 & E3).
  rewrite E1, E2, E3.
  assert (Hv : Z.land (pgn_value 0 pf dest) 130816 = pf * 256).
  { rewrite pgn_value_arith by lia.
    change 130816 with (Z.ones 9 * 2 ^ 8). rewrite land_high_mask by lia. pow2_norm. lia. }
  rewrite Hv. unfold accepts in Hacc. cbn [negb andb].
  destruct (dest =? addr_GLOBAL) eqn:G; cbn [negb andb orb] in *.
  - reflexivity.
  - destruct (ecu_acceptable (base m) dest); cbn [negb andb orb] in *; [reflexivity|].
    rewrite Hacc. cbn [negb]. reflexivity.
Qed.

Lemma notify22_cm m now prio dest sa data :
  0 <= prio < 8 -> 0 <= dest < 256 -> 0 <= sa < 256 -> accepts (base m) dest = true ->
  notify22 m now (mid_can_id_of prio (pgn_value_of 0 77 dest) sa) data = process_tp_cm22 prio sa dest data now m.
Proof. intros. rewrite notify22_pdu1 by (try assumption; lia). reflexivity. Qed.
Lemma notify22_dt m now prio dest sa data :
  0 <= prio < 8 -> 0 <= dest < 256 -> 0 <= sa < 256 -> accepts (base m) dest = true ->
  notify22 m now (mid_can_id_of prio (pgn_value_of 0 78 dest) sa) data = process_tp_dt22 prio sa dest data now m.
Proof. intros. rewrite notify22_pdu1 by (try assumption; lia). reflexivity. Qed.

(* ---------------------------------------------------------------- the 60-byte segments of a payload *)
Definition row (p : list Z) (k : nat) : list Z := firstn 60 (skipn (60 * k) p).

Lemma skipn_add {A} : forall a b (l : list A), skipn a (skipn b l) = skipn (b + a) l.
Proof.
  intros a b. revert a. induction b as [|b IH]; intros a l; [reflexivity|].
  destruct l as [|x r]; cbn [skipn Nat.add]; [destruct a; reflexivity|apply IH].
Qed.

Lemma nth_chunks : forall k fuel d, (k < fuel)%nat -> (60 * k <= length d)%nat ->
  nth_error (chunks fuel d) k = Some (row d k).
Proof.
  induction k as [|k IH]; intros fuel d Hf Hl; (destruct fuel as [|f]; [lia|]); cbn [chunks].
  - unfold row. replace (60 * 0)%nat with 0%nat by lia. cbn [skipn]. destruct (Nat.ltb_spec (length d) 60) as [L|L]; cbn [nth_error].
    + rewrite firstn_all2 by lia. reflexivity.
    + reflexivity.
  - destruct (Nat.ltb_spec (length d) 60) as [L|L]; [lia|]. cbn [nth_error].
    rewrite IH by (rewrite ?skipn_length; lia). unfold row. rewrite skipn_add.
    replace (60 + 60 * k)%nat with (60 * S k)%nat by lia. reflexivity.
Qed.

Lemma nth_segments p k : (60 * k <= length p)%nat -> nth_error (segments p) k = Some (row p k).
Proof.
  intros H. unfold segments. apply nth_chunks; [|exact H].
  apply Nat.div_le_lower_bound in H; lia.
Qed.

Lemma firstn_row p k : (60 * S k <= length p)%nat -> firstn (60 * k) p ++ row p k = firstn (60 * S k) p.
Proof.
  intros H. unfold row. rewrite <- (firstn_skipn (60 * k) (firstn (60 * S k) p)).
  rewrite firstn_firstn. replace (Nat.min (60 * k) (60 * S k)) with (60 * k)%nat by lia. f_equal.
  rewrite skipn_firstn_comm. replace (60 * S k - 60 * k)%nat with 60%nat by lia. reflexivity.
Qed.
Lemma row_len_full p k : (60 * S k <= length p)%nat -> length (row p k) = 60%nat.
Proof. intros H. unfold row. rewrite firstn_length, skipn_length. lia. Qed.
Lemma row_last p k : (60 * k <= length p)%nat -> (length p <= 60 * S k)%nat -> firstn (60 * k) p ++ row p k = p.
Proof.
  intros H1 H2. unfold row. rewrite (firstn_all2 (skipn (60 * k) p)) by (rewrite skipn_length; lia).
  apply firstn_skipn.
Qed.

(* ---------------------------------------------------------------- the closed loop *)
Section Loop22.
  Variables (prio sa dest dp pf : Z) (p : list Z) (t0 : Z) (A0 B0 : node22).
  Hypothesis Hprio : 0 <= prio < 8.
  Hypothesis Hsa : 0 <= sa < 255.
  Hypothesis Hdest : 0 <= dest < 255.
  Hypothesis Hpf : 0 <= pf < 240.
  Hypothesis Hdp : 0 <= dp < 2.
  Hypothesis Hsize : 60 < len p < 16777216.
  Hypothesis Ht0 : 0 < t0.
  Let pv := dp * 65536 + pf * 256.
  Let ns := ((length p + 59) / 60)%nat.            (* number of segments *)
  Let nseg := Z.of_nat ns.
  Let h := tp22_hash 0 sa dest.
  Let limit := Z.min (n_maxp (base A0)) nseg.
  Let g0 := Z.min (n_maxp (base B0)) (Z.min limit nseg).
  Hypothesis HA : f_snd A0 = [] /\ f_rcv A0 = [] /\ f_mpg A0 = [] /\ n_timers (base A0) = [] /\ n_cmdt_iv (base A0) = None /\
                  accepts (base A0) sa = true /\ 1 <= n_maxp (base A0) < 256 /\ f_rts A0 = repeat true tp22_pool_rts.
  Hypothesis HB : f_snd B0 = [] /\ f_rcv B0 = [] /\ f_mpg B0 = [] /\ n_timers (base B0) = [] /\
                  accepts (base B0) dest = true /\ 1 <= n_maxp (base B0).

  Lemma nseg_model : len p / tp22_TP + (if len p mod tp22_TP =? 0 then 0 else 1) = nseg.
  Proof.
    unfold nseg, ns, tp22_TP, len in *. rewrite Nat2Z.inj_div. destruct (Z.eqb_spec (Z.of_nat (length p) mod 60) 0); lia.
  Qed.
  Lemma ns_range : (2 <= ns)%nat /\ (60 * (ns - 1) < length p <= 60 * ns)%nat.
  Proof. unfold ns. unfold len in Hsize. split; [|split]; lia. Qed.
  Lemma nseg_range : 2 <= nseg < 16777216.
  Proof. pose proof ns_range. unfold nseg. unfold len in Hsize. lia. Qed.
  Lemma pv22_range : 0 <= pv < 262144.
  Proof. unfold pv. lia. Qed.

  Definition sb22 (st dl nx : Z) (w : option Z) (d : list (list Z)) : sbuf22 :=
    {| t_pgn := pv; t_prio := prio; t_session := 0; t_size := len p; t_nseg := nseg; t_data := d; t_state := st;
       t_deadline := dl; t_src := sa; t_dst := dest; t_next := nx; t_waitcts := w; t_nb := 0 |}.
  Definition rts22 : frame := tp22_rts prio sa dest 0 pv (len p) nseg limit.
  Definition pool1 : list bool := false :: repeat true 7.

  Lemma send_pgn22_rts a now : f_snd a = [] -> f_rts a = repeat true tp22_pool_rts -> n_maxp (base a) = n_maxp (base A0) ->
    flat22 (send_pgn22 a now dp pf dest prio sa p 0 ff_FEFF) =
    (wake22 (set_fsnd (set_frts a pool1) [(h, sb22 tp22_st_WAITING_CTS (now + tp22_T3) 0 (Some 0) (segments p))]),
     [OTx rts22], RDone 1).
  Proof.
    intros Hs Hr Hm. unfold send_pgn22. unfold pgn_mk. rewrite !land_255, land_1. rewrite !Z.mod_small by lia.
    assert ((len p <=? tp22_TP) = false) as -> by (unfold tp22_TP; lia).
    assert ((dest =? addr_GLOBAL) = false) as -> by (unfold addr_GLOBAL; lia).
    assert (pgn_is_pdu2_of 0 pf dest = false) as ->.
    { unfold pgn_is_pdu2_of, pgn_mk. rewrite !land_255. rewrite Z.mod_small by lia.
      unfold pgn_is_pdu2. destruct (Z.geb pf 240 && Z.leb pf 255) eqn:E; [lia|reflexivity]. }
    cbn [orb]. rewrite Hr. cbn [tp22_pool_rts repeat pool_get]. rewrite nseg_model.
    rewrite pgn_value_arith by lia. replace (dp * 65536 + pf * 256 + 0) with pv by (unfold pv; lia).
    cbn [flat22 f_snd set_frts]. rewrite Hs. cbn [tset base set_fsnd set_frts]. rewrite Hm. reflexivity.
  Qed.

  (* ---- the data frames *)
  Lemma dt_frame_full k seg : length seg = 60%nat ->
    dt_frame sa dest 0 k seg = Some ({| f_id := tp22_dt_id sa dest; f_ext := true; f_fd := true; f_data := tp22_dt_header 0 k 0 ++ seg |},
                                     tp22_dt_header 0 k 0 ++ seg).
  Proof.
    intros Hl. unfold dt_frame.
    assert (Hh : length (tp22_dt_header 0 k 0 ++ seg) = 64%nat) by (rewrite app_length, Hl; reflexivity).
    rewrite Hh. change (Z.of_nat 64 >=? tp22_TP + 4) with true. cbv iota.
    change (Z.to_nat (tp22_TP + 4)) with 64%nat. rewrite firstn_all2 by lia. reflexivity.
  Qed.
  Lemma dt_frame_part k seg : (length seg < 60)%nat ->
    exists n, dt_frame sa dest 0 k seg =
      Some ({| f_id := tp22_dt_id sa dest; f_ext := true; f_fd := true; f_data := tp22_dt_header 0 k 0 ++ seg ++ repeat tp22_dt_pad n |},
            tp22_dt_header 0 k 0 ++ seg ++ repeat tp22_dt_pad n).
  Proof.
    intros Hl. unfold dt_frame.
    assert (Hh : length (tp22_dt_header 0 k 0 ++ seg) = (4 + length seg)%nat) by (rewrite app_length; reflexivity).
    rewrite Hh. assert ((Z.of_nat (4 + length seg) >=? tp22_TP + 4) = false) as -> by (unfold tp22_TP; lia).
    destruct (fd_len_legal (4 + length seg) ltac:(lia)) as (v & Hv & _ & _). rewrite Hv.
    eexists. rewrite <- app_assoc. reflexivity.
  Qed.

  (* the frame A sends for row k (0-based), as the model's own builder makes it *)
  Definition dtf22 (k : nat) : frame :=
    match dt_frame sa dest 0 (Z.of_nat k + 1) (row p k) with Some (fr, _) => fr | None => rts22 end.
  Definition dtfs22 (k m : nat) : list frame := map dtf22 (seq k m).

  Lemma dtf22_data k : (k < ns)%nat ->
    exists pad, f_id (dtf22 k) = tp22_dt_id sa dest /\ f_data (dtf22 k) = tp22_dt_header 0 (Z.of_nat k + 1) 0 ++ row p k ++ pad /\
                ((S k < ns)%nat -> pad = []).
  Proof.
    intros Hk. pose proof ns_range as (_ & Hlo & Hhi). unfold dtf22.
    destruct (Nat.eq_dec (length (row p k)) 60) as [E|NE].
    - rewrite (dt_frame_full _ _ E). exists []. cbn [f_id f_data]. rewrite app_nil_r. repeat split; reflexivity.
    - assert (Hl : (length (row p k) < 60)%nat).
      { unfold row in *. rewrite firstn_length in *. lia. }
      destruct (dt_frame_part (Z.of_nat k + 1) (row p k) Hl) as (n & Hn). rewrite Hn. eexists. cbn [f_id f_data].
      split; [reflexivity|split; [reflexivity|]]. intros Hlt. exfalso. apply NE. apply row_len_full. lia.
  Qed.

  (* ---- the responder B *)
  Definition envB22 (b : node22) : Prop :=
    f_snd b = [] /\ f_mpg b = [] /\ n_timers (base b) = [] /\ n_subs (base b) = n_subs (base B0) /\ n_cas (base b) = n_cas (base B0) /\
    n_maxp (base b) = n_maxp (base B0) /\ f_rts b = f_rts B0 /\ f_bam b = f_bam B0.
  Lemma acceptsB22 b : envB22 b -> accepts (base b) dest = true.
  Proof. intros (_ & _ & _ & Es & Ec & _). destruct HB as (_ & _ & _ & _ & Hb & _).
    unfold accepts, ecu_acceptable in *. rewrite Es, Ec. exact Hb. Qed.
  Lemma g0_range22 : 1 <= g0 <= nseg /\ g0 < 256.
  Proof. pose proof nseg_range. destruct HA as (_ & _ & _ & _ & _ & _ & Ha & _). destruct HB as (_ & _ & _ & _ & _ & Hb).
    unfold g0, limit. lia. Qed.

  Definition rb22 (dl nx : Z) (border : option Z) (d : list Z) : rbuf22 :=
    {| q_pgn := pv; q_session := 0; q_size := len p; q_nseg := nseg; q_next := nx; q_border := border; q_maxrec := Some g0;
       q_data := d; q_deadline := dl; q_src := sa; q_dst := dest |}.
  Definition cts22 (c nxt : Z) : frame := tp22_cts dest sa 0 c nxt pv.

  Lemma hB22_rts b : envB22 b -> f_rcv b = [] ->
    handle22 b t0 rts22 = (wake22 (set_frcv b [(h, rb22 (t0 + tp22_T2) 1 (Some g0) [])]), [OTx (cts22 g0 1)]).
  Proof.
    intros Eb Hr. pose proof (acceptsB22 b Eb) as Hacc. destruct Eb as (_ & _ & _ & _ & _ & Em & _).
    pose proof nseg_range as Hn. pose proof pv22_range as Hpv. pose proof g0_range22 as Hg.
    destruct HA as (_ & _ & _ & _ & _ & _ & Ha & _).
    unfold handle22, rts22, tp22_rts.
    destruct (cm22_fields sa dest 0 0 (len p) nseg limit 0 pv prio) as (L & C & S & Z1 & N & B7 & B8 & P);
      try (unfold limit; lia).
    change (f_id (tp22_cm sa dest 0 0 (len p) nseg limit 0 pv prio)) with (mid_can_id_of prio (pgn_value_of 0 77 dest) sa).
    rewrite notify22_cm by (try assumption; lia).
    unfold process_tp_cm22. rewrite L. cbn [Nat.ltb Nat.leb]. rewrite C, S, Z1, N, B7, P.
    change (0 =? tp22_ctl_RTS) with true. cbv iota. fold h. unfold tmem. rewrite Hr. cbn [tget flat22 tset].
    rewrite Em. reflexivity.
  Qed.

  Definition inv22 (k : nat) (b : rbuf22) : Prop :=
    exists dl, b = rb22 dl (Z.of_nat k + 1) (Some (Z.min ((Z.of_nat k / g0 + 1) * g0) nseg)) (firstn (60 * k) p).

  Definition eoms22 : frame := tp22_eom_status sa dest 0 (len p) nseg pv.

  (* what B answers to row k *)
  Definition answer22 (k : nat) : list out :=
    if Z.of_nat k + 1 =? nseg then []
    else if (Z.of_nat k + 1) mod g0 =? 0 then [OTx (cts22 (Z.min g0 (nseg - (Z.of_nat k + 1))) (Z.of_nat k + 2))]
    else [].

  Lemma hB22_dt b rb (k : nat) : envB22 b -> f_rcv b = [(h, rb)] -> inv22 k rb -> (k < ns)%nat ->
    exists b' rb', handle22 b t0 (dtf22 k) = (b', answer22 k) /\ envB22 b' /\ f_rcv b' = [(h, rb')] /\
                   t0 < q_deadline rb' /\
                   (if (S k =? ns)%nat then exists dl, rb' = rb22 dl (nseg + 1) (q_border rb) p else inv22 (S k) rb').
  Proof.
    intros Eb Hr (dl & Hrb) Hk. subst rb. pose proof (acceptsB22 b Eb) as Hacc. pose proof g0_range22 as (Hg & Hg2).
    pose proof ns_range as (Hns2 & Hlo & Hhi). pose proof nseg_range as Hn.
    destruct (dtf22_data k Hk) as (pad & Hid & Hdata & Hpad).
    unfold handle22. rewrite Hid, Hdata. unfold tp22_dt_id.
    change (Z.land (Z.shiftr 19968 8) 255) with 78.
    rewrite notify22_dt by (try assumption; lia).
    unfold process_tp_dt22.
    assert (Hrow : (1 <= length (row p k))%nat).
    { unfold row. rewrite firstn_length, skipn_length. lia. }
    assert ((length (tp22_dt_header 0 (Z.of_nat k + 1) 0 ++ row p k ++ pad) <=? 4)%nat = false) as ->.
    { apply Nat.leb_gt. rewrite app_length, app_length. cbn [tp22_dt_header length]. lia. }
    destruct (dt_hdr_fields 0 (Z.of_nat k + 1) (row p k ++ pad) ltac:(lia) ltac:(unfold nseg in *; lia)) as (Es & En). rewrite Es, En.
    assert ((Z.of_nat k + 1 =? 0) = false) as -> by lia.
    fold h. rewrite Hr. cbn [tget]. rewrite Z.eqb_refl. cbn [rb22 q_next q_data q_size q_border q_maxrec q_deadline q_nseg q_pgn].
    rewrite Z.eqb_refl. cbn [negb].
    change (skipn 4 (tp22_dt_header 0 (Z.of_nat k + 1) 0 ++ row p k ++ pad)) with (row p k ++ pad).
    assert ((dest =? addr_GLOBAL) = false) as -> by (unfold addr_GLOBAL; lia). cbn [negb].
    destruct (Nat.eqb_spec (S k) ns) as [Elast|Nlast].
    - (* the last row: the payload is complete *)
      rewrite app_assoc. rewrite (row_last p k) by lia.
      assert ((len (p ++ pad) >=? len p) = true) as -> by (unfold len; rewrite app_length; lia).
      assert (Hfp : firstn (Z.to_nat (len p)) (p ++ pad) = p).
      { unfold len. rewrite Nat2Z.id. apply firstn_app_pad. }
      rewrite Hfp. cbn [flat22].
      assert (Ea : answer22 k = []).
      { unfold answer22. assert ((Z.of_nat k + 1 =? nseg) = true) as -> by (unfold nseg; lia). reflexivity. }
      rewrite Ea. eexists _, _. split; [reflexivity|]. destruct Eb as (E1 & E2 & E3 & E4 & E5 & E6 & E7 & E8).
      split; [unfold envB22; cbn; repeat split; assumption|]. split; [cbn [f_rcv wake22 with_base set_frcv tset]; rewrite Z.eqb_refl; reflexivity|].
      split; [cbn [upd_q q_deadline]; unfold tp22_T1; lia|].
      exists (t0 + tp22_T1). unfold upd_q, rb22. cbn. f_equal. unfold nseg. lia.
    - assert (Hfull : (60 * S k <= length p)%nat) by lia.
      rewrite (Hpad ltac:(lia)). rewrite app_nil_r. rewrite (firstn_row p k Hfull).
      assert (Hlen : len (firstn (60 * S k) p) = 60 * Z.of_nat (S k)).
      { unfold len. rewrite firstn_length. lia. }
      rewrite Hlen. assert ((60 * Z.of_nat (S k) >=? len p) = false) as -> by (unfold len; lia).
      set (kz := Z.of_nat k) in *.
      assert (Hkn : kz + 1 < nseg) by (unfold nseg, kz; lia).
      assert (Hans : answer22 k = if (kz + 1) mod g0 =? 0 then [OTx (cts22 (Z.min g0 (nseg - (kz + 1))) (kz + 2))] else []).
      { unfold answer22. fold kz. assert ((kz + 1 =? nseg) = false) as -> by lia. reflexivity. }
      rewrite Hans.
      destruct (Z.eqb_spec ((kz + 1) mod g0) 0) as [Hmod|Hmod].
      + (* at a window border: the next CTS *)
        destruct (border_hit 0 0 [] g0 kz ltac:(lia) ltac:(unfold kz; lia) Hmod) as [Hh1 Hh2].
        assert (Hbd : Z.min ((kz / g0 + 1) * g0) nseg = kz + 1) by lia.
        rewrite Hbd. rewrite (proj2 (Z.geb_le _ _)) by lia.
        cbn [flat22 f_rcv set_frcv tset]. rewrite Z.eqb_refl. cbn [tget]. rewrite Z.eqb_refl.
        cbn [upd_q q_border q_maxrec q_data q_next q_nseg flat22 tset]. rewrite Z.eqb_refl.
        eexists _, _. split; [replace (kz + 1 + 1) with (kz + 2) by ring; reflexivity|].
        destruct Eb as (E1 & E2 & E3 & E4 & E5 & E6 & E7 & E8).
        split; [unfold envB22; cbn; repeat split; assumption|]. split; [reflexivity|].
        split; [cbn [upd_q q_deadline]; unfold tp22_T2; lia|].
        exists (t0 + tp22_T2). unfold upd_q, rb22. cbn. f_equal.
        * unfold kz. lia.
        * f_equal. change (Z.pos (Pos.of_succ_nat k)) with (Z.of_nat (S k)). replace (Z.of_nat (S k)) with (kz + 1) by (unfold kz; lia). rewrite Hh2.
          replace ((kz / g0 + 1 + 1) * g0) with ((kz / g0 + 1) * g0 + g0) by ring. lia.
      + destruct (border_miss 0 0 [] g0 kz ltac:(lia) ltac:(unfold kz; lia) Hmod) as [Hm1 Hm2].
        assert (Hbd : kz + 1 < Z.min ((kz / g0 + 1) * g0) nseg) by lia.
        assert ((kz + 1 >=? Z.min ((kz / g0 + 1) * g0) nseg) = false) as -> by lia.
        cbn [flat22 f_rcv set_frcv tset]. rewrite Z.eqb_refl. cbn [tset]. rewrite Z.eqb_refl.
        eexists _, _. split; [reflexivity|].
        destruct Eb as (E1 & E2 & E3 & E4 & E5 & E6 & E7 & E8).
        split; [unfold envB22; cbn; repeat split; assumption|]. split; [reflexivity|].
        split; [cbn [upd_q q_deadline]; unfold tp22_T1; lia|].
        exists (t0 + tp22_T1). unfold upd_q, rb22. cbn. f_equal.
        * unfold kz. lia.
        * f_equal. change (Z.pos (Pos.of_succ_nat k)) with (Z.of_nat (S k)). replace (Z.of_nat (S k)) with (kz + 1) by (unfold kz; lia). rewrite Hm1. reflexivity.
  Qed.

  Definition eoma22 : frame := tp22_eom_ack dest sa 0 (len p) nseg pv.
  Definition delivered22 : list out := deliveries (base B0) 7 pv sa dest p.

  Lemma hB22_eoms b dl border : envB22 b -> f_rcv b = [(h, rb22 dl (nseg + 1) border p)] ->
    handle22 b t0 eoms22 = (set_frcv b [], delivered22 ++ [OTx eoma22]).
  Proof.
    intros Eb Hr. pose proof (acceptsB22 b Eb) as Hacc. destruct Eb as (_ & _ & _ & Es & Ec & _).
    pose proof nseg_range as Hn. pose proof pv22_range as Hpv.
    unfold handle22, eoms22, tp22_eom_status.
    destruct (cm22_fields sa dest 2 0 (len p) nseg 0 0 pv 7) as (L & C & S & Z1 & N & B7 & B8 & P); try lia.
    change (f_id (tp22_cm sa dest 2 0 (len p) nseg 0 0 pv 7)) with (mid_can_id_of 7 (pgn_value_of 0 77 dest) sa).
    rewrite notify22_cm by (try assumption; lia).
    unfold process_tp_cm22. rewrite L. cbn [Nat.ltb Nat.leb]. rewrite C, S, Z1, N, P.
    change (2 =? tp22_ctl_RTS) with false. change (2 =? tp22_ctl_CTS) with false. change (2 =? tp22_ctl_EOM_STATUS) with true. cbv iota.
    fold h. rewrite Hr. cbn [tget]. rewrite Z.eqb_refl. cbn [rb22 q_size q_nseg q_data q_pgn].
    rewrite !Z.eqb_refl. cbn [andb].
    rewrite flat22_notify_subscribers.
    assert ((dest =? addr_GLOBAL) = false) as -> by (unfold addr_GLOBAL; lia). cbn [negb flat22].
    unfold tmem. rewrite Hr. cbn [tget tdel]. rewrite !Z.eqb_refl. cbn [flat22].
    unfold delivered22. rewrite (deliveries_env (base B0) (base b)) by assumption. reflexivity.
  Qed.

  (* ---- the originator A *)
  Definition envA22 (a : node22) : Prop :=
    f_rcv a = [] /\ f_mpg a = [] /\ n_timers (base a) = [] /\ n_cmdt_iv (base a) = None /\ n_subs (base a) = n_subs (base A0) /\
    n_cas (base a) = n_cas (base A0) /\ n_maxp (base a) = n_maxp (base A0) /\ f_bam a = f_bam A0 /\ f_rts a = pool1.
  Lemma acceptsA22 a : envA22 a -> accepts (base a) sa = true.
  Proof. intros (_ & _ & _ & _ & Es & Ec & _). destruct HA as (_ & _ & _ & _ & _ & Ha & _).
    unfold accepts, ecu_acceptable in *. rewrite Es, Ec. exact Ha. Qed.

  Lemma hA22_cts a st dl nx w d c e : envA22 a -> f_snd a = [(h, sb22 st dl nx w d)] -> 0 <= e -> 1 <= c <= g0 -> e + c <= nseg ->
    handle22 a t0 (cts22 c (e + 1)) =
    (wake22 (set_fsnd a [(h, sb22 tp22_st_SENDING_RTS_CTS (Z.max t0 0) e (Some (e + c - 1)) d)]), []).
  Proof.
    intros Ea Hs He Hc Hle. pose proof (acceptsA22 a Ea) as Hacc. destruct Ea as (_ & _ & _ & _ & _ & _ & Em & _).
    pose proof nseg_range as Hn. pose proof pv22_range as Hpv. pose proof g0_range22 as (Hg & Hg2).
    destruct HA as (_ & _ & _ & _ & _ & _ & Ha & _).
    assert (Hcm : c <= n_maxp (base A0)) by (unfold g0, limit in Hc; lia).
    unfold handle22, cts22, tp22_cts.
    destruct (cm22_fields dest sa 1 0 16777215 (e + 1) c 0 pv 7) as (L & C & S & Z1 & N & B7 & B8 & P); try lia.
    change (f_id (tp22_cm dest sa 1 0 16777215 (e + 1) c 0 pv 7)) with (mid_can_id_of 7 (pgn_value_of 0 77 sa) dest).
    rewrite notify22_cm by (try assumption; lia).
    unfold process_tp_cm22. rewrite L. cbn [Nat.ltb Nat.leb]. rewrite C, S, N, B7.
    change (1 =? tp22_ctl_RTS) with false. change (1 =? tp22_ctl_CTS) with true. cbv iota.
    fold h. rewrite Hs. cbn [tget]. rewrite Z.eqb_refl.
    assert ((c =? 0) = false) as -> by lia. cbn [sb22 t_nseg t_nb].
    assert ((c >? nseg) = false) as -> by lia. rewrite Em.
    assert ((c >? n_maxp (base A0)) = false) as -> by lia.
    replace (e + 1 - 1) with e by lia.
    assert ((c >? nseg - e) = false) as -> by lia.
    cbn [flat22 tset]. rewrite Z.eqb_refl. reflexivity.
  Qed.

  Lemma hA22_eoma a st dl nx w d : envA22 a -> f_snd a = [(h, sb22 st dl nx w d)] ->
    exists os, handle22 a t0 eoma22 = (wake22 (set_fsnd a [(h, sb22 tp22_st_EOM_ACK_RECEIVED t0 nx w d)]), os) /\ txs os = [].
  Proof.
    intros Ea Hs. pose proof (acceptsA22 a Ea) as Hacc. pose proof nseg_range as Hn. pose proof pv22_range as Hpv.
    unfold handle22, eoma22, tp22_eom_ack.
    destruct (cm22_fields dest sa 3 0 (len p) nseg 255 255 pv 7) as (L & C & S & Z1 & N & B7 & B8 & P); try lia.
    change (f_id (tp22_cm dest sa 3 0 (len p) nseg 255 255 pv 7)) with (mid_can_id_of 7 (pgn_value_of 0 77 sa) dest).
    rewrite notify22_cm by (try assumption; lia).
    unfold process_tp_cm22. rewrite L. cbn [Nat.ltb Nat.leb]. rewrite C, S.
    change (3 =? tp22_ctl_RTS) with false. change (3 =? tp22_ctl_CTS) with false. change (3 =? tp22_ctl_EOM_STATUS) with false.
    change (3 =? tp22_ctl_EOM_ACK) with true. cbv iota.
    fold h. unfold tmem. rewrite Hs. cbn [tget]. rewrite Z.eqb_refl. cbn [negb].
    rewrite flat22_notify_subscribers. rewrite Hs. cbn [tget]. rewrite Z.eqb_refl. cbn [flat22 tset]. rewrite Z.eqb_refl.
    eexists. split; [rewrite app_nil_r; reflexivity|apply txs_deliveries].
  Qed.

  (* ---- the burst: rows e .. e+g go out in order; the last row of the message is followed by the end-of-message status *)
  Definition rows_ok (d : list (list Z)) (j0 : nat) : Prop := forall j, (j0 <= j)%nat -> nth_error d j = nth_error (segments p) j.

  Lemma py_nth_nat {A} (l : list A) (j : nat) : py_nth l (Z.of_nat j) = nth_error l j.
  Proof. unfold py_nth. assert (E : (Z.of_nat j <? 0) = false) by lia. rewrite !E. rewrite Nat2Z.id. reflexivity. Qed.
  Lemma py_set_nat {A} (l : list A) (j : nat) x : py_set l (Z.of_nat j) x = upd_nth l j x.
  Proof. unfold py_set. assert (E : (Z.of_nat j <? 0) = false) by lia. rewrite !E. rewrite Nat2Z.id. reflexivity. Qed.

  Lemma dtf22_some k : (k < ns)%nat -> exists seg', dt_frame sa dest 0 (Z.of_nat k + 1) (row p k) = Some (dtf22 k, seg').
  Proof.
    intros Hk. unfold dtf22. destruct (Nat.eq_dec (length (row p k)) 60) as [E|NE].
    - rewrite (dt_frame_full _ _ E). eexists. reflexivity.
    - assert (Hl : (length (row p k) < 60)%nat) by (unfold row in *; rewrite firstn_length in *; lia).
      destruct (dt_frame_part (Z.of_nat k + 1) (row p k) Hl) as (n & Hn). rewrite Hn. eexists. reflexivity.
  Qed.

  Definition after_burst (e' : nat) : Z * Z * list out :=
    if (S e' =? ns)%nat then (tp22_st_WAITING_EOM_ACK, t0 + tp22_T5, [OTx eoms22]) else (tp22_st_WAITING_CTS, t0 + tp22_T3, []).

  Lemma burst22 dl : forall (g e : nat) d fuel a k,
    f_snd a = [(h, sb22 tp22_st_SENDING_RTS_CTS dl (Z.of_nat e) (Some (Z.of_nat (e + g))) d)] ->
    n_cmdt_iv (base a) = None -> rows_ok d e -> (e + g < ns)%nat -> (g < fuel)%nat ->
    exists d', rows_ok d' (S (e + g)) /\
      flat22 (fd_burst fuel h t0 a k) =
      let '(st', dl', tail) := after_burst (e + g) in
      let '(s, os, r) := flat22 (k (set_fsnd a [(h, sb22 st' dl' (Z.of_nat (S (e + g))) (Some (Z.of_nat (e + g))) d')])) in
      (s, map OTx (dtfs22 e (S g)) ++ tail ++ os, r).
  Proof.
    induction g as [|g IH]; intros e d fuel a k Hs Hiv Hrows Hlt Hf; (destruct fuel as [|f]; [lia|]); cbn [fd_burst].
    - (* the last row of the window *)
      rewrite Hs. cbn [tget]. fold h. rewrite Z.eqb_refl. cbn [sb22 t_next t_nseg t_state t_deadline t_waitcts t_data t_src t_dst t_session t_size t_pgn].
      replace (e + 0)%nat with e in * by lia.
      assert ((Z.of_nat e <? nseg) = true) as -> by (unfold nseg; lia). rewrite Hiv.
      destruct (dtf22_some e Hlt) as (seg' & Hfr).
      rewrite py_nth_nat. rewrite (Hrows e (le_n e)). rewrite nth_segments by (pose proof ns_range; lia).
      unfold after_burst. destruct (Nat.eqb_spec (S e) ns) as [Elast|Nlast].
      + assert ((Z.of_nat e + 1 =? nseg) = true) as -> by (unfold nseg; lia). cbv iota.
        rewrite Hfr. cbn [flat22 upd_t with_tdata t_data]. rewrite py_set_nat.
        exists (upd_nth d e seg'). split.
        { intros j Hj. rewrite upd_nth_other by lia. apply Hrows. lia. }
        rewrite ?Hs. cbn [tset]. rewrite Z.eqb_refl.
        replace (Z.of_nat e + 1) with (Z.of_nat (S e)) by lia.
        match goal with |- context [flat22 (k ?x)] => set (X := x) end.
        match goal with |- context [flat22 (k (set_fsnd ?z ?l))] => change (set_fsnd z l) with X end.
        destruct (flat22 (k X)) as [[s os] r].
        unfold dtfs22. cbn [seq map app]. reflexivity.
      + assert ((Z.of_nat e + 1 =? nseg) = false) as -> by (unfold nseg; lia). cbv iota.
        rewrite Z.eqb_refl. rewrite Hfr. cbn [flat22 upd_t with_tdata t_data]. rewrite py_set_nat.
        exists (upd_nth d e seg'). split.
        { intros j Hj. rewrite upd_nth_other by lia. apply Hrows. lia. }
        rewrite ?Hs. cbn [tset]. rewrite Z.eqb_refl.
        replace (Z.of_nat e + 1) with (Z.of_nat (S e)) by lia.
        match goal with |- context [flat22 (k ?x)] => set (X := x) end.
        match goal with |- context [flat22 (k (set_fsnd ?z ?l))] => change (set_fsnd z l) with X end.
        destruct (flat22 (k X)) as [[s os] r].
        unfold dtfs22. cbn [seq map app]. reflexivity.
    - (* a row inside the window: go on *)
      rewrite Hs. cbn [tget]. fold h. rewrite Z.eqb_refl. cbn [sb22 t_next t_nseg t_state t_deadline t_waitcts t_data t_src t_dst t_session t_size t_pgn].
      assert ((Z.of_nat e <? nseg) = true) as -> by (unfold nseg; lia). rewrite Hiv.
      assert ((Z.of_nat e + 1 =? nseg) = false) as -> by (unfold nseg; lia). cbv iota.
      assert ((Z.of_nat e =? Z.of_nat (e + S g)) = false) as -> by lia.
      destruct (dtf22_some e ltac:(lia)) as (seg' & Hfr).
      rewrite py_nth_nat. rewrite (Hrows e (le_n e)). rewrite nth_segments by (pose proof ns_range; lia).
      rewrite Hfr. cbn [flat22 upd_t with_tdata t_data]. rewrite py_set_nat.
      rewrite ?Hs. cbn [tset]. rewrite Z.eqb_refl.
      destruct (IH (S e) (upd_nth d e seg') f
                  (set_fsnd a [(h, sb22 tp22_st_SENDING_RTS_CTS dl (Z.of_nat (S e)) (Some (Z.of_nat (S e + g))) (upd_nth d e seg'))]) k)
        as (d' & Hrows' & Hfl).
      + cbn [f_snd set_fsnd]. reflexivity.
      + exact Hiv.
      + intros j Hj. rewrite upd_nth_other by lia. apply Hrows. lia.
      + lia.
      + lia.
      + exists d'. split; [replace (e + S g)%nat with (S e + g)%nat by lia; exact Hrows'|].
        replace (Z.of_nat e + 1) with (Z.of_nat (S e)) by lia. replace (e + S g)%nat with (S e + g)%nat by lia.
        match goal with |- context [fd_burst f h t0 ?x k] =>
          change x with (set_fsnd a [(h, sb22 tp22_st_SENDING_RTS_CTS dl (Z.of_nat (S e)) (Some (Z.of_nat (S e + g))) (upd_nth d e seg'))]) end.
        rewrite Hfl.
        destruct (after_burst (S e + g)) as [[st' dl'] tail].
        match goal with |- context [flat22 (k ?x)] => set (X := x) end.
        match goal with |- context [flat22 (k (set_fsnd ?z ?l))] => change (set_fsnd z l) with X end.
        destruct (flat22 (k X)) as [[s os] r].
        unfold dtfs22. cbn [seq map app]. reflexivity.
  Qed.

  (* ---- job iterations *)
  Lemma with_base_eta (m : node22) : with_base m (base m) = m.
  Proof. destruct m; reflexivity. Qed.

  Lemma timers_tail (m : node22) now nw : n_timers (base m) = [] ->
    flat22 (lift m (timer_pass (n_timers (base m)) now nw (base m) (fun n2 nw2 => Done n2 (nw2 - now))) (fun m2 r => Done m2 r))
    = (m, [], RDone (nw - now)).
  Proof. intros Ht. rewrite Ht. cbn [timer_pass lift flat22]. rewrite with_base_eta. reflexivity. Qed.

  Lemma job22_B_wait b rb : envB22 b -> f_rcv b = [(h, rb)] -> t0 < q_deadline rb ->
    exists r, flat22 (job_iter22 b t0) = (b, [], RDone r).
  Proof.
    intros (Bs & Bm & Bt & _) Hr Hd. unfold job_iter22, dll_job22. rewrite Hr. cbn [tkeys map fst rcv_pass22]. rewrite Hr.
    cbn [tget]. rewrite Z.eqb_refl. assert ((q_deadline rb =? 0) = false) as -> by lia.
    assert ((q_deadline rb >? t0) = true) as -> by lia. rewrite Bm. cbn [tkeys map mpg_pass]. rewrite Bs. cbn [tkeys map snd_pass22].
    rewrite timers_tail by exact Bt. eexists. reflexivity.
  Qed.
  Lemma job22_idle m t : f_rcv m = [] -> f_mpg m = [] -> f_snd m = [] -> n_timers (base m) = [] ->
    flat22 (job_iter22 m t) = (m, [], RDone (t + 5000000 - t)).
  Proof.
    intros Hr Hm Hs Ht. unfold job_iter22, dll_job22. rewrite Hr. cbn [tkeys map rcv_pass22]. rewrite Hm. cbn [tkeys map mpg_pass].
    rewrite Hs. cbn [tkeys map snd_pass22]. apply timers_tail. exact Ht.
  Qed.

  Lemma job22_A_burst a (e g : nat) d dl : envA22 a ->
    f_snd a = [(h, sb22 tp22_st_SENDING_RTS_CTS dl (Z.of_nat e) (Some (Z.of_nat (e + g))) d)] ->
    rows_ok d e -> (e + g < ns)%nat -> dl <> 0 -> dl <= t0 ->
    exists d' r, rows_ok d' (S (e + g)) /\
      flat22 (job_iter22 a t0) =
      (let '(st', dl', tail) := after_burst (e + g) in
       (set_fsnd a [(h, sb22 st' dl' (Z.of_nat (S (e + g))) (Some (Z.of_nat (e + g))) d')],
        map OTx (dtfs22 e (S g)) ++ tail, RDone r)).
  Proof.
    intros (Ar & Am & At & Ai & _) Hs Hrows Hlt Hd0 Hdl.
    unfold job_iter22, dll_job22. rewrite Ar. cbn [tkeys map rcv_pass22]. rewrite Am. cbn [tkeys map mpg_pass].
    rewrite Hs. cbn [tkeys map fst snd_pass22]. rewrite Hs. cbn [tget]. fold h. rewrite Z.eqb_refl.
    cbn [sb22 t_deadline t_state t_nseg t_next].
    assert ((dl =? 0) = false) as -> by lia. assert ((dl >? t0) = false) as -> by lia.
    change (tp22_st_SENDING_RTS_CTS =? tp22_st_WAITING_CTS) with false.
    change (tp22_st_SENDING_RTS_CTS =? tp22_st_SENDING_RTS_CTS) with true. cbv iota.
    match goal with |- context [fd_burst ?fu h t0 a ?kk] =>
      destruct (burst22 dl g e d fu a kk Hs Ai Hrows Hlt) as (d' & Hrows' & Hfl) end.
    { unfold nseg. lia. }
    exists d'. rewrite Hfl. unfold after_burst.
    destruct (S (e + g) =? ns)%nat; cbn [f_snd set_fsnd tget]; rewrite Z.eqb_refl; cbn [sb22 t_state t_next t_nseg t_deadline];
      [change (tp22_st_WAITING_EOM_ACK =? tp22_st_SENDING_RTS_CTS) with false|change (tp22_st_WAITING_CTS =? tp22_st_SENDING_RTS_CTS) with false];
      cbn [andb snd_pass22 tset]; rewrite Z.eqb_refl;
      (rewrite timers_tail by exact At); eexists; (split; [exact Hrows'|]); rewrite !app_nil_r; reflexivity.
  Qed.

  Lemma job22_A_finished a nx w d : envA22 a -> f_snd a = [(h, sb22 tp22_st_EOM_ACK_RECEIVED t0 nx w d)] ->
    exists r, flat22 (job_iter22 a t0) = (set_frts (set_fsnd a []) (repeat true tp22_pool_rts), [], RDone r).
  Proof.
    intros (Ar & Am & At & Ai & _ & _ & _ & _ & Ap) Hs.
    unfold job_iter22, dll_job22. rewrite Ar. cbn [tkeys map rcv_pass22]. rewrite Am. cbn [tkeys map mpg_pass].
    rewrite Hs. cbn [tkeys map fst snd_pass22]. rewrite Hs. cbn [tget]. fold h. rewrite Z.eqb_refl.
    cbn [sb22 t_deadline t_state t_dst t_session].
    assert ((t0 =? 0) = false) as -> by lia. assert ((t0 >? t0) = false) as -> by lia.
    change (tp22_st_EOM_ACK_RECEIVED =? tp22_st_WAITING_CTS) with false.
    change (tp22_st_EOM_ACK_RECEIVED =? tp22_st_SENDING_RTS_CTS) with false.
    change (tp22_st_EOM_ACK_RECEIVED =? tp22_st_WAITING_EOM_ACK) with false.
    change (tp22_st_EOM_ACK_RECEIVED =? tp22_st_EOM_ACK_RECEIVED) with true. cbn [orb]. cbv iota.
    unfold tmem. rewrite ?Hs. cbn [tget tdel]. rewrite !Z.eqb_refl.
    unfold put_session. cbn [sb22 t_dst t_session].
    assert ((dest =? addr_GLOBAL) = false) as -> by (unfold addr_GLOBAL; lia).
    unfold put_rts. cbn [f_rts set_fsnd]. rewrite Ap. cbn [pool1 pool_put length repeat]. cbn [upd_nth Z.to_nat].
    cbn [snd_pass22]. change (pool_put pool1 0) with (Some (repeat true tp22_pool_rts)). cbv iota.
    rewrite timers_tail by (cbn [base set_frts set_fsnd]; exact At). eexists. reflexivity.
  Qed.

  (* ---- the step function, case by case *)
  Lemma step22_b s f r : pb s = f :: r ->
    step22 s = let '(m', os) := handle22 (fb s) (fclk s) f in
               {| fa := fa s; fb := m'; pa := pa s ++ txs os; pb := r; fclk := fclk s;
                  eva2 := eva2 s; evb2 := evb2 s ++ evs os; wab2 := wab2 s; wba2 := wba2 s ++ txs os |}.
  Proof. intros H. unfold step22. rewrite H. reflexivity. Qed.
  Lemma step22_a s f r : pb s = [] -> pa s = f :: r ->
    step22 s = let '(m', os) := handle22 (fa s) (fclk s) f in
               {| fa := m'; fb := fb s; pa := r; pb := txs os; fclk := fclk s;
                  eva2 := eva2 s ++ evs os; evb2 := evb2 s; wab2 := wab2 s ++ txs os; wba2 := wba2 s |}.
  Proof. intros H1 H2. unfold step22. rewrite H1, H2. reflexivity. Qed.
  Lemma step22_idle s : pb s = [] -> pa s = [] ->
    step22 s = let '(a', oa, ra) := flat22 (job_iter22 (fa s) (fclk s)) in
               let '(b', ob, rb) := flat22 (job_iter22 (fb s) (fclk s)) in
               let quiet := match txs oa, txs ob with [], [] => true | _, _ => false end in
               let dt := if quiet && (n_wakes (base a') =? n_wakes (base (fa s))) && (n_wakes (base b') =? n_wakes (base (fb s)))
                         then Z.max 0 (Z.min (sleep_of ra) (sleep_of rb)) else 0 in
               {| fa := a'; fb := b'; pa := txs ob; pb := txs oa; fclk := fclk s + dt;
                  eva2 := eva2 s ++ evs oa; evb2 := evb2 s ++ evs ob; wab2 := wab2 s ++ txs oa; wba2 := wba2 s ++ txs ob |}.
  Proof. intros H1 H2. unfold step22. rewrite H1, H2. reflexivity. Qed.

  Lemma txs_map_OTx l : txs (map OTx l) = l.
  Proof. induction l as [|x r IH]; [reflexivity|]. cbn [map txs flat_map app]. f_equal. exact IH. Qed.
  Lemma evs_map_OTx l : evs (map OTx l) = [].
  Proof. induction l as [|x r IH]; [reflexivity|]. cbn [map evs filter]. exact IH. Qed.
  Lemma txs_app a b : txs (a ++ b) = txs a ++ txs b.
  Proof. unfold txs. apply flat_map_app. Qed.
  Lemma evs_app a b : evs (a ++ b) = evs a ++ evs b.
  Proof. unfold evs. apply filter_app. Qed.
  Lemma dtfs22_cons k m : (0 < m)%nat -> dtfs22 k m = dtf22 k :: dtfs22 (S k) (m - 1).
  Proof. intros Hm. destruct m as [|m]; [lia|]. unfold dtfs22. cbn [seq map]. replace (S m - 1)%nat with m by lia. reflexivity. Qed.
  Lemma dtfs22_app k m m' : dtfs22 k m ++ dtfs22 (k + m) m' = dtfs22 k (m + m').
  Proof. unfold dtfs22. rewrite seq_app, map_app. reflexivity. Qed.

  (* ---- shapes *)
  Definition common22 (s : net22) : Prop := fclk s = t0 /\ envA22 (fa s) /\ envB22 (fb s).
  Definition cnt22 (e : nat) : Z := Z.min g0 (nseg - Z.of_nat e).
  Definition wend22 (e : nat) : nat := Z.to_nat (Z.of_nat e + cnt22 e).
  Definition at_border22 (e : nat) : Prop := exists q, 0 <= q /\ Z.of_nat e = q * g0.
  Definition Bsess22 (s : net22) (k : nat) : Prop :=
    exists rb, f_rcv (fb s) = [(h, rb)] /\ inv22 k rb /\ t0 < q_deadline rb.
  Definition Asess22 (s : net22) (j0 : nat) : Prop :=
    exists st dl nx w d, f_snd (fa s) = [(h, sb22 st dl nx w d)] /\ rows_ok d j0.
  Definition tailq (e : nat) : list frame := if (wend22 e =? ns)%nat then [eoms22] else [].

  Definition S_Rts (s : net22) : Prop :=
    common22 s /\ pa s = [] /\ pb s = [rts22] /\ Asess22 s 0 /\ f_rcv (fb s) = [] /\ evb2 s = [] /\ wab2 s = [rts22].
  Definition S_Cts (e : nat) (s : net22) : Prop :=
    common22 s /\ at_border22 e /\ (e < ns)%nat /\ pa s = [cts22 (cnt22 e) (Z.of_nat e + 1)] /\ pb s = [] /\
    Asess22 s e /\ Bsess22 s e /\ evb2 s = [] /\ wab2 s = rts22 :: dtfs22 0 e.
  Definition S_Send (e : nat) (s : net22) : Prop :=
    common22 s /\ at_border22 e /\ (e < ns)%nat /\ pa s = [] /\ pb s = [] /\
    (exists d, f_snd (fa s) = [(h, sb22 tp22_st_SENDING_RTS_CTS (Z.max t0 0) (Z.of_nat e) (Some (Z.of_nat e + cnt22 e - 1)) d)] /\ rows_ok d e) /\
    Bsess22 s e /\ evb2 s = [] /\ wab2 s = rts22 :: dtfs22 0 e.
  Definition S_Dt (e k : nat) (s : net22) : Prop :=
    common22 s /\ at_border22 e /\ (e <= k < wend22 e)%nat /\ (e < ns)%nat /\ pa s = [] /\
    pb s = dtfs22 k (wend22 e - k) ++ tailq e /\ Asess22 s (wend22 e) /\ Bsess22 s k /\ evb2 s = [] /\
    wab2 s = rts22 :: dtfs22 0 (wend22 e) ++ tailq e.
  Definition S_Eoms (s : net22) : Prop :=
    common22 s /\ pa s = [] /\ pb s = [eoms22] /\ Asess22 s ns /\
    (exists dl border, f_rcv (fb s) = [(h, rb22 dl (nseg + 1) border p)]) /\ evb2 s = [] /\ wab2 s = rts22 :: dtfs22 0 ns ++ [eoms22].
  Definition S_Eoma (s : net22) : Prop :=
    common22 s /\ pa s = [eoma22] /\ pb s = [] /\ Asess22 s ns /\ f_rcv (fb s) = [] /\ evb2 s = delivered22 /\
    wab2 s = rts22 :: dtfs22 0 ns ++ [eoms22].
  Definition S_Fin (s : net22) : Prop :=
    common22 s /\ pa s = [] /\ pb s = [] /\ (exists nx w d, f_snd (fa s) = [(h, sb22 tp22_st_EOM_ACK_RECEIVED t0 nx w d)]) /\
    f_rcv (fb s) = [] /\ evb2 s = delivered22 /\ wab2 s = rts22 :: dtfs22 0 ns ++ [eoms22].
  (* the end: nothing queued, no session on either side, the session number is back in the pool, p delivered once, the wire
     carried RTS, the data frames of all segments in order, and the end-of-message status *)
  Definition restA22 (a : node22) : Prop :=
    f_mpg a = [] /\ n_timers (base a) = [] /\ n_cmdt_iv (base a) = None /\ n_subs (base a) = n_subs (base A0) /\
    n_cas (base a) = n_cas (base A0) /\ n_maxp (base a) = n_maxp (base A0) /\ f_bam a = f_bam A0.
  Definition S_Done (s : net22) : Prop :=
    pa s = [] /\ pb s = [] /\ f_snd (fa s) = [] /\ f_rcv (fa s) = [] /\ f_snd (fb s) = [] /\ f_rcv (fb s) = [] /\
    f_rts (fa s) = repeat true tp22_pool_rts /\ evb2 s = delivered22 /\ wab2 s = rts22 :: dtfs22 0 ns ++ [eoms22] /\
    (t0 <= fclk s /\ restA22 (fa s) /\ envB22 (fb s)).

  Lemma wend22_facts e : (e < ns)%nat ->
    1 <= cnt22 e <= g0 /\ Z.of_nat (wend22 e) = Z.of_nat e + cnt22 e /\ (e < wend22 e <= ns)%nat.
  Proof. intros He. pose proof g0_range22 as (Hg & _). unfold wend22, cnt22, nseg in *. lia. Qed.

  Lemma T22_rts s : S_Rts s -> S_Cts 0 (step22 s).
  Proof.
    intros ((Hc & Ea & Eb) & Hpa & Hpb & HA' & Hr & Hev & Hw).
    rewrite (step22_b s rts22 []) by exact Hpb. rewrite Hc, (hB22_rts (fb s) Eb Hr). cbn [txs flat_map app evs filter].
    pose proof nseg_range as Hn. pose proof g0_range22 as (Hg & _). pose proof ns_range as (Hns & _).
    unfold S_Cts, common22. cbn [fa fb pa pb fclk evb2 wab2].
    split; [split; [reflexivity|split; [exact Ea|]]|].
    { destruct Eb as (E1 & E2 & E3 & E4 & E5 & E6 & E7 & E8). unfold envB22. cbn. repeat split; assumption. }
    split; [exists 0; lia|]. split; [lia|].
    split; [rewrite Hpa; unfold cnt22; cbn [app]; replace (Z.min g0 (nseg - Z.of_nat 0)) with g0 by lia; reflexivity|].
    split; [reflexivity|]. split; [exact HA'|]. split.
    - eexists. split; [reflexivity|]. split; [|cbn [rb22 q_deadline]; unfold tp22_T2; lia].
      exists (t0 + tp22_T2). unfold rb22. change (Z.of_nat 0) with 0. rewrite Z.div_0_l by lia.
      replace (Z.min ((0 + 1) * g0) nseg) with g0 by lia. reflexivity.
    - split; [rewrite Hev; reflexivity|rewrite Hw; reflexivity].
  Qed.

  Lemma T22_cts e s : S_Cts e s -> S_Send e (step22 s).
  Proof.
    intros ((Hc & Ea & Eb) & Hb & He & Hpa & Hpb & (st & dl & nx & w & d & Hs & Hrows) & HB' & Hev & Hw).
    destruct (wend22_facts e He) as (Hcnt & Hwe & Hwl).
    rewrite (step22_a s _ [] Hpb Hpa). rewrite Hc.
    rewrite (hA22_cts (fa s) st dl nx w d (cnt22 e) (Z.of_nat e) Ea Hs) by (unfold nseg in *; lia).
    cbn [txs flat_map app evs filter].
    unfold S_Send, common22. cbn [fa fb pa pb fclk evb2 wab2].
    split; [split; [reflexivity|split; [|exact Eb]]|].
    { destruct Ea as (E1 & E2 & E3 & E4 & E5 & E6 & E7 & E8 & E9). unfold envA22. cbn. repeat split; assumption. }
    split; [exact Hb|]. split; [exact He|]. split; [reflexivity|]. split; [reflexivity|].
    split; [exists d; split; [reflexivity|exact Hrows]|]. split; [exact HB'|]. split; [exact Hev|rewrite Hw, app_nil_r; reflexivity].
  Qed.

  Lemma T22_send e s : S_Send e s -> S_Dt e e (step22 s).
  Proof.
    intros ((Hc & Ea & Eb) & Hb & He & Hpa & Hpb & (d & Hs & Hrows) & (rb & Hr & Hinv & Hdl) & Hev & Hw).
    destruct (wend22_facts e He) as (Hcnt & Hwe & Hwl).
    rewrite (step22_idle s) by assumption. rewrite Hc.
    set (g := Z.to_nat (cnt22 e - 1)).
    assert (Hg : Z.of_nat (e + g) = Z.of_nat e + cnt22 e - 1) by (unfold g; lia).
    rewrite <- Hg in Hs.
    destruct (job22_A_burst (fa s) e g d (Z.max t0 0) Ea Hs Hrows) as (d' & ra & Hrows' & Hja); try lia.
    destruct (job22_B_wait (fb s) rb Eb Hr Hdl) as (rbb & Hjb).
    rewrite Hja, Hjb.
    assert (Eeg : S (e + g) = wend22 e) by lia. assert (Sg : S g = (wend22 e - e)%nat) by lia.
    assert (Etail : (let '(_, _, tail) := after_burst (e + g) in txs tail) = tailq e /\
                    (let '(_, _, tail) := after_burst (e + g) in evs tail) = []).
    { unfold after_burst, tailq. rewrite Eeg. destruct (wend22 e =? ns)%nat; split; reflexivity. }
    destruct (after_burst (e + g)) as [[st' dl'] tail]. destruct Etail as (Et1 & Et2).
    rewrite txs_app, evs_app, txs_map_OTx, evs_map_OTx, Et1, Et2. rewrite Sg.
    pose proof (dtfs22_cons e (wend22 e - e) ltac:(lia)) as HL.
    replace (wend22 e - e)%nat with (wend22 e - e)%nat in * by reflexivity.
    unfold S_Dt, common22.
    destruct (dtfs22 e (wend22 e - e)) as [|f0 L0] eqn:EL; [discriminate HL|].
    cbn [app txs flat_map evs filter andb]. cbn [fa fb pa pb fclk evb2 wab2].
    split; [split; [lia|split; [|exact Eb]]|].
    { destruct Ea as (E1 & E2 & E3 & E4 & E5 & E6 & E7 & E8 & E9). unfold envA22. cbn. repeat split; assumption. }
    split; [exact Hb|]. split; [lia|]. split; [exact He|]. split; [reflexivity|]. split; [reflexivity|].
    split; [eexists _, _, _, _, d'; split; [reflexivity|rewrite <- Eeg; exact Hrows']|].
    split; [exists rb; split; [exact Hr|split; [exact Hinv|exact Hdl]]|].
    split; [rewrite Hev; reflexivity|].
    rewrite Hw. cbn [app]. f_equal. change (f0 :: L0 ++ tailq e) with ((f0 :: L0) ++ tailq e). rewrite app_assoc. f_equal.
    rewrite <- EL. change (dtfs22 e (wend22 e - e)) with (dtfs22 (0 + e) (wend22 e - e)). rewrite dtfs22_app. f_equal. lia.
  Qed.

  Lemma T22_dt e k s : S_Dt e k s ->
    (if (S k =? ns)%nat then S_Eoms (step22 s) else if (S k =? wend22 e)%nat then S_Cts (S k) (step22 s) else S_Dt e (S k) (step22 s)).
  Proof.
    intros ((Hc & Ea & Eb) & Hb & Hk & He & Hpa & Hpb & HA' & (rb & Hr & Hinv & Hdl) & Hev & Hw).
    destruct (wend22_facts e He) as (Hcnt & Hwe & Hwl). pose proof g0_range22 as (Hg & _).
    rewrite (dtfs22_cons k (wend22 e - k)) in Hpb by lia. cbn [app] in Hpb.
    rewrite (step22_b s _ _ Hpb). rewrite Hc.
    destruct (hB22_dt (fb s) rb k Eb Hr Hinv ltac:(lia)) as (b' & rb' & Hh & Eb' & Hr' & Hdl' & Hn). rewrite Hh.
    destruct Hb as (q & Hq0 & Hq).
    unfold answer22.
    destruct (Nat.eqb_spec (S k) ns) as [Elast|Nlast].
    - assert ((Z.of_nat k + 1 =? nseg) = true) as -> by (unfold nseg; lia).
      cbn [txs flat_map evs filter app].
      assert (Ew : wend22 e = ns) by lia.
      unfold S_Eoms, common22. cbn [fa fb pa pb fclk evb2 wab2].
      split; [split; [reflexivity|split; [exact Ea|exact Eb']]|].
      split; [rewrite Hpa; reflexivity|].
      split; [replace (wend22 e - k - 1)%nat with 0%nat by lia; unfold tailq; rewrite Ew, Nat.eqb_refl; reflexivity|].
      split; [rewrite <- Ew; exact HA'|].
      split; [destruct Hn as (dl2 & Hn); eexists _, _; rewrite Hr', Hn; reflexivity|].
      split; [rewrite Hev; reflexivity|]. rewrite Hw. unfold tailq. rewrite Ew, Nat.eqb_refl. reflexivity.
    - assert ((Z.of_nat k + 1 =? nseg) = false) as -> by (unfold nseg; lia).
      destruct (Nat.eqb_spec (S k) (wend22 e)) as [Eend|Nend].
      + assert (Hc1 : cnt22 e = g0) by (unfold cnt22, nseg in *; lia).
        assert (((Z.of_nat k + 1) mod g0 =? 0) = true) as ->.
        { replace (Z.of_nat k + 1) with (q * g0 + g0) by lia. rewrite mod_at_border by lia. reflexivity. }
        cbn [txs flat_map evs filter app].
        assert (Et : tailq e = []) by (unfold tailq; destruct (Nat.eqb_spec (wend22 e) ns); [lia|reflexivity]).
        unfold S_Cts, common22. cbn [fa fb pa pb fclk evb2 wab2].
        split; [split; [reflexivity|split; [exact Ea|exact Eb']]|].
        split; [exists (q + 1); split; lia|]. split; [lia|].
        split; [rewrite Hpa; unfold cnt22; cbn [app]; replace (Z.of_nat (S k)) with (Z.of_nat k + 1) by lia;
                replace (Z.of_nat k + 1 + 1) with (Z.of_nat k + 2) by lia; reflexivity|].
        split; [replace (wend22 e - k - 1)%nat with 0%nat by lia; rewrite Et; reflexivity|].
        split; [rewrite Eend; exact HA'|].
        split; [exists rb'; split; [exact Hr'|split; [exact Hn|exact Hdl']]|].
        split; [rewrite Hev; reflexivity|]. rewrite Hw, Et, app_nil_r, Eend. reflexivity.
      + assert (((Z.of_nat k + 1) mod g0 =? 0) = false) as ->.
        { apply Z.eqb_neq. apply (mod_in_window q g0); unfold cnt22 in *; lia. }
        cbn [txs flat_map evs filter app].
        unfold S_Dt, common22. cbn [fa fb pa pb fclk evb2 wab2].
        split; [split; [reflexivity|split; [exact Ea|exact Eb']]|].
        split; [exists q; split; assumption|]. split; [lia|]. split; [exact He|].
        split; [rewrite Hpa; reflexivity|]. split; [f_equal; f_equal; lia|]. split; [exact HA'|].
        split; [exists rb'; split; [exact Hr'|split; [exact Hn|exact Hdl']]|].
        split; [rewrite Hev; reflexivity|]. rewrite Hw. reflexivity.
  Qed.

  Lemma T22_eoms s : S_Eoms s -> S_Eoma (step22 s).
  Proof.
    intros ((Hc & Ea & Eb) & Hpa & Hpb & HA' & (dl & border & Hr) & Hev & Hw).
    rewrite (step22_b s eoms22 []) by exact Hpb. rewrite Hc, (hB22_eoms (fb s) dl border Eb Hr).
    rewrite txs_app, evs_app. unfold delivered22 at 1 2. rewrite txs_deliveries, evs_deliveries. cbn [txs flat_map evs filter app].
    unfold S_Eoma, common22. cbn [fa fb pa pb fclk evb2 wab2].
    split; [split; [reflexivity|split; [exact Ea|]]|].
    { destruct Eb as (E1 & E2 & E3 & E4 & E5 & E6 & E7 & E8). unfold envB22. cbn. repeat split; assumption. }
    split; [rewrite Hpa; reflexivity|]. split; [reflexivity|]. split; [exact HA'|]. split; [reflexivity|].
    split; [rewrite Hev, app_nil_r; reflexivity|exact Hw].
  Qed.

  Lemma T22_eoma s : S_Eoma s -> S_Fin (step22 s).
  Proof.
    intros ((Hc & Ea & Eb) & Hpa & Hpb & (st & dl & nx & w & d & Hs & _) & Hr & Hev & Hw).
    rewrite (step22_a s eoma22 [] Hpb Hpa). rewrite Hc.
    destruct (hA22_eoma (fa s) st dl nx w d Ea Hs) as (os & Hh & Hos). rewrite Hh, Hos.
    unfold S_Fin, common22. cbn [fa fb pa pb fclk evb2 wab2].
    split; [split; [reflexivity|split; [|exact Eb]]|].
    { destruct Ea as (E1 & E2 & E3 & E4 & E5 & E6 & E7 & E8 & E9). unfold envA22. cbn. repeat split; assumption. }
    split; [reflexivity|]. split; [reflexivity|]. split; [eexists _, _, _; reflexivity|].
    split; [exact Hr|]. split; [exact Hev|rewrite Hw, app_nil_r; reflexivity].
  Qed.

  Lemma T22_fin s : S_Fin s -> S_Done (step22 s).
  Proof.
    intros ((Hc & Ea & Eb) & Hpa & Hpb & (nx & w & d & Hs) & Hr & Hev & Hw).
    rewrite (step22_idle s) by assumption. rewrite Hc.
    destruct (job22_A_finished (fa s) nx w d Ea Hs) as (ra & Hja). rewrite Hja.
    pose proof Eb as Eb0. destruct Eb as (Bs & Bm & Bt & _).
    rewrite (job22_idle (fb s) t0 Hr Bm Bs Bt). cbn [txs flat_map evs filter].
    destruct Ea as (Ar & Am & At & Ai & Asub & Acas & Amx & Abam & Arts).
    unfold S_Done. cbn [fa fb pa pb fclk evb2 wab2 f_snd f_rcv f_rts set_frts set_fsnd].
    split; [reflexivity|]. split; [reflexivity|]. split; [reflexivity|]. split; [exact Ar|]. split; [exact Bs|]. split; [exact Hr|].
    split; [reflexivity|]. split; [rewrite app_nil_r; exact Hev|]. split; [rewrite app_nil_r; exact Hw|].
    split; [destruct (_ && _ && _); lia|]. split; [|exact Eb0].
    unfold restA22. destruct (fa s) as [ab ? ? ? ? ? ?]. repeat split; assumption.
  Qed.

  (* ---- from the RTS to the end *)
  Definition reaches22 (s : net22) : Prop := exists j, S_Done (steps22 j s).
  Lemma reaches22_step s : reaches22 (step22 s) -> reaches22 s.
  Proof. intros (j & H). exists (S j). exact H. Qed.

  Lemma dt22_reaches : forall r e k s, (ns - k = r)%nat -> S_Dt e k s -> reaches22 s.
  Proof.
    induction r as [r IH] using lt_wf_ind. intros e k s Hr Hsh.
    assert (Hk : (k < ns)%nat).
    { destruct Hsh as (_ & _ & Hk & He & _). destruct (wend22_facts e He) as (_ & _ & Hwl). lia. }
    pose proof (T22_dt e k s Hsh) as Hn. apply reaches22_step.
    destruct (S k =? ns)%nat eqn:E1.
    - apply reaches22_step. apply reaches22_step. apply reaches22_step. exists 0%nat.
      apply T22_fin. apply T22_eoma. apply T22_eoms. exact Hn.
    - apply Nat.eqb_neq in E1. destruct (S k =? wend22 e)%nat.
      + apply reaches22_step. apply reaches22_step.
        apply (IH (ns - S k)%nat ltac:(lia) (S k) (S k)); [reflexivity|]. apply T22_send. apply T22_cts. exact Hn.
      + apply (IH (ns - S k)%nat ltac:(lia) e (S k)); [reflexivity|exact Hn].
  Qed.

  Lemma start22_is_rts : S_Rts (net22_send (net22_0 A0 B0 t0) dp pf dest prio sa p).
  Proof.
    destruct HA as (As & Ar & Am & At & Ai & Aa & Amx & Ap). destruct HB as (Bs & Br & Bm & Bt & Ba & Bmx).
    unfold net22_send, net22_0. cbn [fa fb pa pb fclk eva2 evb2 wab2 wba2].
    rewrite (send_pgn22_rts A0 t0 As Ap eq_refl). cbn [txs flat_map evs filter app].
    unfold S_Rts, common22. cbn [fa fb pa pb fclk evb2 wab2].
    split; [split; [reflexivity|split]|].
    - unfold envA22. cbn. repeat split; assumption || reflexivity.
    - unfold envB22. repeat split; assumption || reflexivity.
    - split; [reflexivity|]. split; [reflexivity|].
      split; [eexists _, _, _, _, _; split; [reflexivity|intros j _; reflexivity]|].
      split; [exact Br|]. split; reflexivity.
  Qed.

  Theorem closed_loop22 : reaches22 (net22_send (net22_0 A0 B0 t0) dp pf dest prio sa p).
  Proof.
    apply reaches22_step. apply reaches22_step. apply reaches22_step.
    apply (dt22_reaches (ns - 0)%nat 0%nat 0%nat); [reflexivity|]. apply T22_send. apply T22_cts. apply T22_rts. apply start22_is_rts.
  Qed.
End Loop22.

(* T02.9: the FD closed loop, stated without the proof's vocabulary *)
(* T02.9: the FD closed loop, stated without the proof's vocabulary *)
Theorem closed_loop22_delivers prio sa dest dp pf p t0 A0 B0 :
  0 <= prio < 8 -> 0 <= sa < 255 -> 0 <= dest < 255 -> 0 <= pf < 240 -> 0 <= dp < 2 -> 60 < len p < 16777216 -> 0 < t0 ->
  f_snd A0 = [] /\ f_rcv A0 = [] /\ f_mpg A0 = [] /\ n_timers (base A0) = [] /\ n_cmdt_iv (base A0) = None /\
    accepts (base A0) sa = true /\ 1 <= n_maxp (base A0) < 256 /\ f_rts A0 = repeat true tp22_pool_rts ->
  f_snd B0 = [] /\ f_rcv B0 = [] /\ f_mpg B0 = [] /\ n_timers (base B0) = [] /\ accepts (base B0) dest = true /\ 1 <= n_maxp (base B0) ->
  let pv := dp * 65536 + pf * 256 in
  let ns := ((length p + 59) / 60)%nat in
  exists j, let s := steps22 j (net22_send (net22_0 A0 B0 t0) dp pf dest prio sa p) in
    pa s = [] /\ pb s = [] /\ f_snd (fa s) = [] /\ f_rcv (fa s) = [] /\ f_snd (fb s) = [] /\ f_rcv (fb s) = [] /\
    f_rts (fa s) = repeat true tp22_pool_rts /\
    evb2 s = deliveries (base B0) 7 pv sa dest p /\
    wab2 s = tp22_rts prio sa dest 0 pv (len p) (Z.of_nat ns) (Z.min (n_maxp (base A0)) (Z.of_nat ns))
             :: map (fun k => match dt_frame sa dest 0 (Z.of_nat k + 1) (row p k) with
                              | Some (fr, _) => fr | None => tp22_eom_status sa dest 0 (len p) (Z.of_nat ns) pv end) (seq 0 ns)
             ++ [tp22_eom_status sa dest 0 (len p) (Z.of_nat ns) pv].
Proof.
  intros H1 H2 H3 H4 H5 H6 H7 HA HB pv ns.
  destruct (closed_loop22 prio sa dest dp pf p t0 A0 B0 H1 H2 H3 H4 H5 H6 H7 HA HB) as (j & H). exists j.
  destruct H as (Q1 & Q2 & Q3 & Q4 & Q5 & Q6 & Q7 & Q8 & Q9 & _).
  repeat split; try assumption.
  rewrite Q9. unfold rts22, dtfs22. f_equal. f_equal. apply map_ext_in. intros k Hk.
  apply in_seq in Hk.
  destruct (dtf22_some prio sa dest dp pf p A0 B0 k ltac:(fold ns; lia)) as (seg' & E). rewrite E. reflexivity.
Qed.

(* T10.19: ... and the FD pair is again as it was: the final state meets the premises of the theorem itself *)
Theorem closed_loop22_restores prio sa dest dp pf p t0 A0 B0 :
  0 <= prio < 8 -> 0 <= sa < 255 -> 0 <= dest < 255 -> 0 <= pf < 240 -> 0 <= dp < 2 -> 60 < len p < 16777216 -> 0 < t0 ->
  f_snd A0 = [] /\ f_rcv A0 = [] /\ f_mpg A0 = [] /\ n_timers (base A0) = [] /\ n_cmdt_iv (base A0) = None /\
    accepts (base A0) sa = true /\ 1 <= n_maxp (base A0) < 256 /\ f_rts A0 = repeat true tp22_pool_rts ->
  f_snd B0 = [] /\ f_rcv B0 = [] /\ f_mpg B0 = [] /\ n_timers (base B0) = [] /\ accepts (base B0) dest = true /\ 1 <= n_maxp (base B0) ->
  let pv := dp * 65536 + pf * 256 in
  let ns := ((length p + 59) / 60)%nat in
  exists j, let s := steps22 j (net22_send (net22_0 A0 B0 t0) dp pf dest prio sa p) in
    (pa s = [] /\ pb s = [] /\ t0 <= fclk s /\
     evb2 s = deliveries (base B0) 7 pv sa dest p /\
     wab2 s = tp22_rts prio sa dest 0 pv (len p) (Z.of_nat ns) (Z.min (n_maxp (base A0)) (Z.of_nat ns))
              :: map (fun k => match dt_frame sa dest 0 (Z.of_nat k + 1) (row p k) with
                               | Some (fr, _) => fr | None => tp22_eom_status sa dest 0 (len p) (Z.of_nat ns) pv end) (seq 0 ns)
              ++ [tp22_eom_status sa dest 0 (len p) (Z.of_nat ns) pv]) /\
    (f_snd (fa s) = [] /\ f_rcv (fa s) = [] /\ f_mpg (fa s) = [] /\ n_timers (base (fa s)) = [] /\ n_cmdt_iv (base (fa s)) = None /\
     accepts (base (fa s)) sa = true /\ 1 <= n_maxp (base (fa s)) < 256 /\ f_rts (fa s) = repeat true tp22_pool_rts) /\
    (f_snd (fb s) = [] /\ f_rcv (fb s) = [] /\ f_mpg (fb s) = [] /\ n_timers (base (fb s)) = [] /\ accepts (base (fb s)) dest = true /\
     1 <= n_maxp (base (fb s))) /\
    n_maxp (base (fa s)) = n_maxp (base A0) /\ n_subs (base (fb s)) = n_subs (base B0) /\ n_cas (base (fb s)) = n_cas (base B0).
Proof.
  intros H1 H2 H3 H4 H5 H6 H7 HA HB pv ns.
  destruct (closed_loop22 prio sa dest dp pf p t0 A0 B0 H1 H2 H3 H4 H5 H6 H7 HA HB) as (j & H). exists j.
  destruct H as (Q1 & Q2 & Q3 & Q4 & Q5 & Q6 & Q7 & Q8 & Q9 & Qc & Ra & Eb). cbn zeta.
  destruct Ra as (Am & At & Ai & Asub & Acas & Amx & Abam). destruct Eb as (Bs & Bm & Bt & Bsub & Bcas & Bmx & _).
  destruct HA as (_ & _ & _ & _ & _ & Ha & HmA & _). destruct HB as (_ & _ & _ & _ & Hb & HmB).
  assert (HaA : accepts (base (fa (steps22 j (net22_send (net22_0 A0 B0 t0) dp pf dest prio sa p)))) sa = true)
    by (unfold accepts, ecu_acceptable in *; rewrite Asub, Acas; exact Ha).
  assert (HaB : accepts (base (fb (steps22 j (net22_send (net22_0 A0 B0 t0) dp pf dest prio sa p)))) dest = true)
    by (unfold accepts, ecu_acceptable in *; rewrite Bsub, Bcas; exact Hb).
  split.
  { split; [exact Q1|]. split; [exact Q2|]. split; [exact Qc|]. split; [exact Q8|].
    rewrite Q9. unfold rts22, dtfs22. f_equal. f_equal. apply map_ext_in. intros k Hk.
    apply in_seq in Hk.
    destruct (dtf22_some prio sa dest dp pf p A0 B0 k ltac:(fold ns; lia)) as (seg' & E). rewrite E. reflexivity. }
  split; [repeat split; try assumption; lia|]. split; [repeat split; try assumption; lia|].
  repeat split; assumption.
Qed.

Example closed_loop22_instance :
  let A := sub22 (init_node22 3 None None) 1 (FAddr 128) in
  let B := sub22 (init_node22 2 None None) 7 (FAddr 144) in
  let p := map Z.of_nat (seq 1 150) in
  let s := steps22 11 (net22_send (net22_0 A B 1000) 0 239 144 6 128 p) in
  quiet22 s = true /\ evb2 s = [OCb 7 7 61184 128 p] /\ length (wab2 s) = 5%nat /\ length (wba2 s) = 3%nat.
Proof. vm_compute. repeat split. Qed.

(* MpgProofs.v — C11: FD multi-PG packing (on the generated header/parse expressions and Model22). *)
From J1939 Require Import Base CodecGlue Model21 Model22.
From J1939.gen Require Import Codec Tp21Gen CaGen Tp22Gen.
From J1939P Require Import CodecProofs Flat.
Local Arguments Z.add : simpl never.
Local Arguments Z.sub : simpl never.
Local Arguments Z.mul : simpl never.

(* ---------------------------------------------------------------- legal CAN FD lengths (finite) *)
Definition legal_fd (n : Z) : bool := existsb (Z.eqb n) [0; 1; 2; 3; 4; 5; 6; 7; 8; 12; 16; 20; 24; 32; 48; 64].
Lemma lut_sweep : forallb (fun i => match fd_len i with Some v => legal_fd v && (Z.of_nat i <=? v) && (v <=? 64) | None => false end) (seq 0 65) = true.
Proof. vm_compute. reflexivity. Qed.
Theorem fd_len_legal (i : nat) : (i <= 64)%nat ->
  exists v, fd_len i = Some v /\ legal_fd v = true /\ Z.of_nat i <= v <= 64.
Proof.
  intros H. pose proof lut_sweep as S. rewrite forallb_forall in S.
  specialize (S i ltac:(apply in_seq; lia)). destruct (fd_len i) as [v|]; [|discriminate].
  exists v. split; [reflexivity|].
  apply andb_prop in S. destruct S as [S S3]. apply andb_prop in S. destruct S as [S1 S2].
  split; [exact S1|]. lia.
Qed.

(* ---------------------------------------------------------------- header encode/decode (finite sweep over the 2^18 PGNs) *)
Definition hdr_ok (pg : Z) : bool :=
  match mpg_header 2 0 pg 0 with
  | [b0; b1; b2; _] =>
      let '(tos, tf, cpgn, _) := mpg_parse_header [b0; b1; b2; 0] in
      (tos =? 2) && (tf =? 0) && (cpgn =? pg) && (0 <=? b0) && (b0 <? 256) && (0 <=? b1) && (b1 <? 256) && (0 <=? b2) && (b2 <? 256)
  | _ => false
  end.
Lemma hdr_sweep : forallb hdr_ok (zrange (Z.to_nat 262144) 0) = true.
Proof. vm_compute. reflexivity. Qed.
Lemma hdr_decode pg : 0 <= pg < 262144 -> hdr_ok pg = true.
Proof.
  intros H. pose proof hdr_sweep as S. rewrite forallb_forall in S. apply S. apply In_zrange. lia.
Qed.

(* ---------------------------------------------------------------- pure unpack, mirroring process_multi_pg *)
Record grp := { u_pgn : Z; u_data : list Z }.
Fixpoint unpack (fuel : nat) (d : list Z) : list grp :=
  match fuel with
  | O => []
  | S f =>
      if (length d <=? 4)%nat then []
      else let '(tos, tf, cpgn, plen) := mpg_parse_header d in
           if tos =? 0 then []
           else (if (tos =? 2) && (tf =? 0) then [{| u_pgn := cpgn; u_data := firstn (Z.to_nat plen) (skipn 4 d) |}] else [])
                ++ unpack f (skipn (Z.to_nat (4 + plen)) d)
  end.

(* tie: the node-level handler delivers exactly the unpacked groups, in order, each to the matching subscribers *)
Fixpoint flat22 (a : act node22) : node22 * list out * res :=
  match a with
  | Done s r => (s, [], RDone r)
  | Raise s e => (s, [], RRaise e)
  | Emit s o k => let '(s', os, r) := flat22 (k s) in (s', o :: os, r)
  end.

Lemma flat22_lift : forall (a : act node) (m : node22) (k : node22 -> Z -> act node22),
  base m = fst (fst (flat a)) \/ True ->
  flat22 (lift m a k) =
  match flat a with
  | (n', os, RDone r) => let '(s, os2, r2) := flat22 (k (with_base m n') r) in (s, os ++ os2, r2)
  | (n', os, RRaise e) => (with_base m n', os, RRaise e)
  end.
Proof.
  induction a as [s r|s e|s o c IH]; intros m k _; cbn [lift flat flat22].
  - destruct (flat22 (k (with_base m s) r)) as [[s' os] r']. reflexivity.
  - reflexivity.
  - rewrite IH by (right; exact I). cbn [base with_base].
    destruct (flat (c s)) as [[n' os] [r|e]].
    + destruct (flat22 (k _ r)) as [[s' os2] r2]. reflexivity.
    + reflexivity.
Qed.

Lemma flat22_notify_subscribers prio pgn sa dest data m k :
  flat22 (notify_subscribers22 prio pgn sa dest data m k) =
  let '(s, os, r) := flat22 (k m) in (s, deliveries (base m) prio pgn sa dest data ++ os, r).
Proof.
  unfold notify_subscribers22. rewrite flat22_lift by (right; exact I).
  rewrite flat_notify_subscribers. cbn [flat].
  assert (with_base m (base m) = m) as -> by (destruct m; reflexivity).
  rewrite app_nil_r. destruct (flat22 (k m)) as [[s os] r]. reflexivity.
Qed.

Definition group_deliveries (m : node22) (prio sa dest : Z) (gs : list grp) : list out :=
  concat (map (fun g => deliveries (base m) prio (u_pgn g) sa dest (u_data g)) gs).

Lemma process_multi_pg_is_unpack : forall fuel prio sa dest data m,
  fst (flat22 (process_multi_pg fuel prio sa dest data m)) =
  (m, group_deliveries m prio sa dest (unpack fuel data)).
Proof.
  induction fuel as [|f IH]; intros prio sa dest data m; [reflexivity|].
  cbn [process_multi_pg unpack].
  destruct (length data <=? 4)%nat; [reflexivity|].
  destruct (mpg_parse_header data) as [[[tos tf] cpgn] plen].
  destruct (tos =? 0); [reflexivity|].
  destruct ((tos =? 2) && (tf =? 0)).
  - rewrite flat22_notify_subscribers.
    specialize (IH prio sa dest (skipn (Z.to_nat (4 + plen)) data) m).
    destruct (flat22 (process_multi_pg f prio sa dest _ m)) as [[s os] r]. cbn [fst] in *.
    inversion IH; subst. unfold group_deliveries. cbn [map concat app u_pgn u_data]. reflexivity.
  - cbn [app]. apply IH.
Qed.

(* ---------------------------------------------------------------- pack / unpack *)
Definition cpg_ok (c : cpg) : Prop :=
  g_tos c = 2 /\ g_tf c = 0 /\ 0 <= g_cpgn c < 262144 /\ g_len c = Z.of_nat (length (g_data c)) /\
  (1 <= length (g_data c) <= 60)%nat.
Definition grp_of (c : cpg) : grp := {| u_pgn := g_cpgn c; u_data := g_data c |}.

Lemma unpack_pack1 fuel c rest : cpg_ok c ->
  unpack (S fuel) (mpg_pack1 c ++ rest) = grp_of c :: unpack fuel rest.
Proof.
  intros (Ht & Hf & Hp & Hl & Hn). unfold mpg_pack1. rewrite Ht, Hf, Hl.
  pose proof (hdr_decode (g_cpgn c) Hp) as Hk. unfold hdr_ok in Hk.
  (* the header does not depend on the length byte except in position 3 *)
  assert (Hh : exists b0 b1 b2, mpg_header 2 0 (g_cpgn c) (Z.of_nat (length (g_data c))) = [b0; b1; b2; Z.of_nat (length (g_data c))] /\
                                mpg_header 2 0 (g_cpgn c) 0 = [b0; b1; b2; 0]).
  { unfold mpg_header. eexists _, _, _. split; reflexivity. }
  destruct Hh as (b0 & b1 & b2 & H1 & H0). rewrite H0 in Hk. rewrite H1.
  cbn [unpack app length].
  assert (((S (S (S (S (length (g_data c ++ rest))))) <=? 4)%nat) = false) as -> by (apply Nat.leb_gt; rewrite app_length; lia).
  assert (Hph : mpg_parse_header (b0 :: b1 :: b2 :: Z.of_nat (length (g_data c)) :: g_data c ++ rest) =
                (let '(tos, tf, cpgn, _) := mpg_parse_header [b0; b1; b2; 0] in (tos, tf, cpgn, Z.of_nat (length (g_data c))))).
  { unfold mpg_parse_header, byte_at. cbn [nth]. rewrite land_255. rewrite Z.mod_small by lia. reflexivity. }
  rewrite Hph. destruct (mpg_parse_header [b0; b1; b2; 0]) as [[[tos tf] cpgn] x].
  assert (tos = 2 /\ tf = 0 /\ cpgn = g_cpgn c) as (-> & -> & ->) by lia.
  cbn [Z.eqb andb]. change (2 =? 0) with false. cbv iota. change ((2 =? 2) && (0 =? 0)) with true. cbv iota.
  cbn [skipn]. rewrite Nat2Z.id.
  rewrite firstn_app, Nat.sub_diag, firstn_all. cbn [firstn]. rewrite app_nil_r.
  replace (Z.to_nat (4 + Z.of_nat (length (g_data c)))) with (4 + length (g_data c))%nat by lia.
  cbn [Nat.add skipn]. rewrite skipn_app, Nat.sub_diag, skipn_all. cbn [skipn app].
  unfold grp_of. reflexivity.
Qed.

(* padding is skipped: fewer than 5 bytes by the length test, longer padding starts with TOS = 0 *)
Lemma unpack_padding fuel k : unpack fuel (mpg_padding k 0) = [].
Proof.
  destruct fuel; [reflexivity|]. cbn [unpack].
  destruct (Nat.leb_spec (length (mpg_padding k 0)) 4) as [|Hlen]; [reflexivity|].
  destruct k as [|[|[|[|[|k]]]]]; cbn in Hlen; try lia.
  cbn [mpg_padding Nat.ltb Nat.leb]. unfold mpg_parse_header, byte_at. cbn [nth]. reflexivity.
Qed.

(* T11.3: for EVERY list of groups, whatever the padding length, unpacking the packed frame returns exactly the groups *)
Theorem unpack_pack : forall (l : list cpg) (k : nat) fuel,
  Forall cpg_ok l -> (length l < fuel)%nat ->
  unpack fuel (concat (map mpg_pack1 l) ++ mpg_padding k 0) = map grp_of l.
Proof.
  induction l as [|c r IH]; intros k fuel Hok Hf.
  - cbn. apply unpack_padding.
  - inversion Hok as [|? ? Hc Hr]; subst. destruct fuel as [|f]; [cbn in Hf; lia|].
    cbn [map concat]. rewrite <- app_assoc. rewrite unpack_pack1 by exact Hc.
    cbn [map]. f_equal. apply IH; [exact Hr|cbn in Hf; lia].
Qed.

(* T11.2: the emitted frame: headers and data in submission order, padded to a legal FD length <= 64 *)
Definition packed_len (l : list cpg) : nat := length (concat (map mpg_pack1 l)).
Theorem frame_shape ff l src dst :
  (packed_len l <= 64)%nat ->
  exists fr v, send_multi_pg ff l src dst = Some fr /\ fd_len (packed_len l) = Some v /\
    f_data fr = concat (map mpg_pack1 l) ++ mpg_padding (Z.to_nat v - packed_len l) 0 /\
    Z.of_nat (length (f_data fr)) = v /\ legal_fd v = true /\ v <= 64 /\ f_fd fr = true /\
    (ff = ff_FBFF -> f_ext fr = false /\ f_id fr = src) /\
    (ff <> ff_FBFF -> f_ext fr = true /\ f_id fr = mpg_feff_id (fold_left (fun p c => Z.min (g_prio c) p) l 7) dst src).
Proof.
  intros Hl. destruct (fd_len_legal (packed_len l) Hl) as (v & Hv & Hleg & Hrng).
  unfold send_multi_pg. fold (packed_len l). rewrite Hv.
  assert ((v <? 0) = false) as -> by lia.
  assert (Hpl : forall c h, length (mpg_padding c h) = c).
  { induction c as [|c IHc]; intros h; cbn; [reflexivity|]. rewrite IHc. reflexivity. }
  destruct (ff =? ff_FBFF) eqn:E; eexists _, v; (split; [reflexivity|]); (split; [reflexivity|]); cbn [f_data f_fd f_ext f_id];
    (split; [reflexivity|]); (split; [rewrite app_length, Hpl; unfold packed_len in *; lia|]);
    (split; [exact Hleg|]); (split; [lia|]); (split; [reflexivity|]); split; intros H; try lia; split; reflexivity.
Qed.

(* T11.1 / T11.6: fill accounting of the collection buffers *)
Definition mbuf_ok (b : mbuf) : Prop :=
  m_fill b = fold_right (fun c acc => 4 + g_len c + acc) 0 (m_cpgs b) /\ m_fill b <= 64.
Definition tbl_ok (t : tbl mbuf) : Prop := forall h b, tget t h = Some b -> mbuf_ok b.

Lemma fold_fill_app l c : fold_right (fun c acc => 4 + g_len c + acc) 0 (l ++ [c]) = fold_right (fun c acc => 4 + g_len c + acc) 0 l + (4 + g_len c).
Proof. induction l as [|x r IH]; cbn [app fold_right]; [lia|]. rewrite IH. lia. Qed.

Theorem collect_keeps_accounting : forall fuel session ff sa dst c now deadline t t',
  tbl_ok t -> 1 <= g_len c <= 60 ->
  mpg_collect fuel session ff sa dst c now deadline t = Some t' -> tbl_ok t'.
Proof.
  induction fuel as [|f IH]; intros session ff sa dst c now deadline t t' Hok Hc E; [discriminate|].
  cbn [mpg_collect] in E.
  destruct (tget t (tp22_hash_mpg ff session sa dst)) as [b|] eqn:G.
  - destruct (m_fill b <=? tp22_TP - g_len c) eqn:F.
    + inversion E; subst. intros h b' Hb'.
      destruct (Z.eq_dec (tp22_hash_mpg ff session sa dst) h) as [E2|N]; [subst h|].
      * rewrite tget_tset_same in Hb'. inversion Hb'; subst. destruct (Hok _ _ G) as [A B].
        unfold mbuf_ok. cbn [m_fill m_cpgs]. rewrite fold_fill_app. unfold tp22_TP in F. split; lia.
      * rewrite tget_tset_other in Hb' by exact N. apply (Hok _ _ Hb').
    + eapply IH; [|exact Hc|exact E].
      intros h b' Hb'.
      destruct (Z.eq_dec (tp22_hash_mpg ff session sa dst) h) as [E2|N]; [subst h|].
      * rewrite tget_tset_same in Hb'. inversion Hb'; subst. destruct (Hok _ _ G) as [A B].
        unfold mbuf_ok. cbn [m_fill m_cpgs]. split; assumption.
      * rewrite tget_tset_other in Hb' by exact N. apply (Hok _ _ Hb').
  - injection E as E. subst t'. intros h b' Hb'.
    destruct (Z.eq_dec (tp22_hash_mpg ff session sa dst) h) as [E2|N]; [subst h|].
    + rewrite tget_tset_same in Hb'. injection Hb' as Hb'. subst b'. unfold mbuf_ok. cbn [m_fill m_cpgs fold_right]. split; lia.
    + rewrite tget_tset_other in Hb' by exact N. apply (Hok _ _ Hb').
Qed.

(* T11.5: a buffer is emitted by the first pass at or after its deadline, and left alone before *)
Theorem mpg_emitted_at_deadline key now nw m k b fr :
  tget (f_mpg m) key = Some b -> m_deadline b <= now ->
  (let '(ff, _, sa, dst) := tp22_unhash_mpg key in send_multi_pg ff (m_cpgs b) sa dst) = Some fr ->
  flat22 (mpg_pass [key] now nw m k) =
  let '(s, os, r) := flat22 (k (set_fmpg m (tdel (f_mpg m) key)) nw) in (s, OTx fr :: os, r).
Proof.
  intros Hget Hd Hfr. cbn [mpg_pass]. rewrite Hget.
  assert ((m_deadline b >? now) = false) as -> by lia.
  destruct (tp22_unhash_mpg key) as [[[ff c] sa] dst]. rewrite Hfr.
  cbn [flat22]. rewrite (tmem_get _ _ _ Hget). cbn [mpg_pass].
  destruct (flat22 (k _ nw)) as [[s os] r]. reflexivity.
Qed.
Theorem mpg_kept_before_deadline key now nw m k b :
  tget (f_mpg m) key = Some b -> now < m_deadline b ->
  mpg_pass [key] now nw m k = k m (minw nw (m_deadline b)).
Proof.
  intros Hget Hd. cbn [mpg_pass]. rewrite Hget.
  assert ((m_deadline b >? now) = true) as -> by lia. reflexivity.
Qed.
(* submitting a group with a time limit wakes the job thread (so that the deadline above is honoured) *)
Theorem submit_wakes m now dp pf ps prio sa data tl ff m' :
  len data <= tp22_TP -> tl <> 0 -> flat22 (send_pgn22 m now dp pf ps prio sa data tl ff) = (m', [], RDone 1) ->
  n_wakes (base m') = n_wakes (base m) + 1.
Proof.
  intros Hl Ht E. unfold send_pgn22 in E.
  destruct (pgn_mk dp pf ps) as [[pdp ppf] pps].
  assert ((len data <=? tp22_TP) = true) as Hle by lia. rewrite Hle in E.
  destruct (if pgn_is_pdu1 ppf then _ else _) as [cpgn0 dst].
  destruct ((ff =? ff_FBFF) && negb (dst =? addr_GLOBAL)); [cbn in E; inversion E|].
  destruct (mpg_cpg_fields _ 2 0 cpgn0) as [[[cp ct] cf] cg].
  assert ((tl =? 0) = false) as Hz by lia. rewrite Hz in E.
  destruct (mpg_collect 300 0 ff sa dst _ now (now + tl) (f_mpg m)) as [t'|]; cbn in E; inversion E; subst.
  reflexivity.
Qed.

Example mpg_example :
  let c1 := {| g_prio := 6; g_tos := 2; g_tf := 0; g_cpgn := 65226; g_len := 3; g_data := [1; 2; 3] |} in
  let c2 := {| g_prio := 3; g_tos := 2; g_tf := 0; g_cpgn := 53248; g_len := 2; g_data := [9; 8] |} in
  match send_multi_pg ff_FEFF [c1; c2] 32 255 with
  | Some fr => unpack 10 (f_data fr) = [grp_of c1; grp_of c2] /\ length (f_data fr) = 16%nat
  | None => False
  end.
Proof. vm_compute. split; reflexivity. Qed.

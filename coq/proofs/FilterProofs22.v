(* FilterProofs22.v — C05 for EVERY identifier (any priority, data page, extended data page, even values outside 29 bits)
   on BOTH data link layers, and the J1939-22 counterparts of the listener / bystander theorems of FilterProofs.v. *)
From J1939 Require Import Base CodecGlue Model21 Model22.
From J1939.gen Require Import Codec Tp21Gen CaGen Tp22Gen.
From J1939P Require Import CodecProofs Flat FilterProofs MpgProofs PoolProofs.

(* the PDU-format byte and the destination byte of an identifier, as arithmetic on the raw identifier *)
Definition id_pf (id : Z) : Z := (id / 65536) mod 256.
Definition id_ps (id : Z) : Z := (id / 256) mod 256.

Lemma id_fields id :
  exists prio dp sa,
    mid_parse id = (prio, (id / 256) mod 262144, sa) /\
    pgn_from_mid ((id / 256) mod 262144) = (dp, id_pf id, id_ps id).
Proof.
  exists ((id / 67108864) mod 8), (((id / 256) mod 262144 / 65536) mod 2), (id mod 256).
  split; [apply mid_parse_arith|]. rewrite T15_3_pgn_fields. unfold id_pf, id_ps.
  f_equal; [f_equal|]; lia.
Qed.

Lemma pf_pdu1 pf : 0 <= pf < 240 -> pgn_is_pdu2 pf = false.
Proof. intros H. unfold pgn_is_pdu2. destruct (Z.geb pf 240 && Z.leb pf 255) eqn:E; [lia|reflexivity]. Qed.

Lemma accepts_false n dest :
  accepts n dest = false ->
  negb (dest =? addr_GLOBAL) && negb (ecu_acceptable n dest) && negb (existsb (fun c => ca_acceptable c dest) (n_cas n)) = true.
Proof.
  unfold accepts. intros H.
  destruct (dest =? addr_GLOBAL); cbn [orb negb andb] in *; [discriminate|].
  destruct (ecu_acceptable n dest); cbn [orb negb andb] in *; [discriminate|].
  rewrite H. reflexivity.
Qed.

(* T05.1 at full strength, J1939-21: whatever the identifier — its PDU format byte below 240 and its destination byte
   not accepted by the stack is all that matters *)
Theorem notify_foreign_any_id n now id data :
  id_pf id < 240 -> accepts n (id_ps id) = false -> notify n now id data = Done n 0.
Proof.
  intros Hpf Hacc. unfold notify.
  destruct (id_fields id) as (prio & dp & sa & E1 & E2). rewrite E1, E2.
  assert (0 <= id_pf id < 240) as Hr by (unfold id_pf in *; lia).
  rewrite (pf_pdu1 _ Hr). rewrite (accepts_false _ _ Hacc). reflexivity.
Qed.

(* ... and J1939-22 *)
Theorem notify22_foreign_any_id m now id data :
  id_pf id < 240 -> accepts (base m) (id_ps id) = false -> notify22 m now id data = Done m 0.
Proof.
  intros Hpf Hacc. unfold notify22.
  destruct (id_fields id) as (prio & dp & sa & E1 & E2). rewrite E1, E2.
  assert (0 <= id_pf id < 240) as Hr by (unfold id_pf in *; lia).
  rewrite (pf_pdu1 _ Hr). pose proof (accepts_false _ _ Hacc) as Ha.
  destruct (id_ps id =? addr_GLOBAL); cbn [negb andb] in *; [discriminate|].
  destruct (ecu_acceptable (base m) (id_ps id)); cbn [negb andb] in *; [discriminate|].
  rewrite Ha. reflexivity.
Qed.

(* the built identifiers of FilterProofs.v are instances, with ANY data page *)
Lemma built_id_fields prio dp pf dest sa :
  0 <= prio < 8 -> 0 <= dp < 2 -> 0 <= pf < 256 -> 0 <= dest < 256 -> 0 <= sa < 256 ->
  id_pf (mid_can_id_of prio (pgn_value_of dp pf dest) sa) = pf /\
  id_ps (mid_can_id_of prio (pgn_value_of dp pf dest) sa) = dest.
Proof.
  intros Hp Hd Hf Hdst Hs.
  assert (Hv : pgn_value_of dp pf dest = dp * 65536 + pf * 256 + dest).
  { rewrite T15_3_pgn_value. lia. }
  unfold mid_can_id_of, mid_mk. bits_to_arith. rewrite can_id_arith by lia. rewrite Hv.
  unfold id_pf, id_ps. split; lia.
Qed.

Corollary notify22_foreign m now prio dp pf dest sa data :
  0 <= prio < 8 -> 0 <= dp < 2 -> 0 <= pf < 240 -> 0 <= dest < 256 -> 0 <= sa < 256 ->
  accepts (base m) dest = false ->
  notify22 m now (mid_can_id_of prio (pgn_value_of dp pf dest) sa) data = Done m 0.
Proof.
  intros Hp Hd Hf Hdst Hs Hacc.
  destruct (built_id_fields prio dp pf dest sa) as (E1 & E2); try lia.
  apply notify22_foreign_any_id; [rewrite E1; lia|rewrite E2; exact Hacc].
Qed.

Corollary notify_foreign_dp n now prio dp pf dest sa data :
  0 <= prio < 8 -> 0 <= dp < 2 -> 0 <= pf < 240 -> 0 <= dest < 256 -> 0 <= sa < 256 ->
  accepts n dest = false ->
  notify n now (mid_can_id_of prio (pgn_value_of dp pf dest) sa) data = Done n 0.
Proof.
  intros Hp Hd Hf Hdst Hs Hacc.
  destruct (built_id_fields prio dp pf dest sa) as (E1 & E2); try lia.
  apply notify_foreign_any_id; [rewrite E1; lia|rewrite E2; exact Hacc].
Qed.

(* ---------------------------------------------------------------- the FD listener *)
Theorem listener22_filter m now id ext remote err data :
  listener22 m now id ext remote err data =
  if ext && negb remote && negb err then catch (notify22 m now id data) else Done m 0.
Proof. unfold listener22. destruct ext, remote, err; reflexivity. Qed.

Lemma catch22_never_raises (a : act node22) : exists r, fres22 (catch a) = RDone r.
Proof.
  unfold fres22. induction a as [s r|s e|s o k IH]; cbn [catch flat22].
  - exists r. reflexivity.
  - exists 0. reflexivity.
  - destruct (IH s) as [r Hr]. destruct (flat22 (catch (k s))) as [[s' os] r']. cbn in *. exists r. exact Hr.
Qed.

Theorem listener22_contains_exceptions m now id ext remote err data :
  exists r, fres22 (listener22 m now id ext remote err data) = RDone r.
Proof.
  rewrite listener22_filter. destruct (ext && negb remote && negb err).
  - apply catch22_never_raises.
  - exists 0. reflexivity.
Qed.

Theorem listener22_drops_non_data_frames m now id ext remote err data :
  (ext = false \/ remote = true \/ err = true) ->
  flat22 (listener22 m now id ext remote err data) = (m, [], RDone 0).
Proof. intros H. unfold listener22. destruct ext, remote, err; try reflexivity. destruct H as [H|[H|H]]; discriminate. Qed.

(* ---------------------------------------------------------------- bystanders, any identifiers, both layers *)
Record rawf := { r_id : Z; r_data : list Z; r_time : Z }.
Definition foreign_to (n : node) (f : rawf) : Prop := id_pf (r_id f) < 240 /\ accepts n (id_ps (r_id f)) = false.

Definition feed_raw (st : node * list out) (f : rawf) : node * list out :=
  let '(n', os, _) := flat (listener (fst st) (r_time f) (r_id f) true false false (r_data f)) in (n', snd st ++ os).
Definition feed_raw22 (st : node22 * list out) (f : rawf) : node22 * list out :=
  let '(m', os, _) := flat22 (listener22 (fst st) (r_time f) (r_id f) true false false (r_data f)) in (m', snd st ++ os).

Theorem bystander_untouched_any_id n frames :
  Forall (foreign_to n) frames -> fold_left feed_raw frames (n, []) = (n, []).
Proof.
  intros H. induction frames as [|f r IH]; [reflexivity|].
  inversion H as [|? ? [H1 H2] H3]; subst. cbn [fold_left]. unfold feed_raw at 2. cbn [fst snd].
  unfold listener. cbn [orb negb]. rewrite notify_foreign_any_id by assumption. cbn [catch flat app]. apply IH; assumption.
Qed.

Theorem bystander22_untouched_any_id m frames :
  Forall (foreign_to (base m)) frames -> fold_left feed_raw22 frames (m, []) = (m, []).
Proof.
  intros H. induction frames as [|f r IH]; [reflexivity|].
  inversion H as [|? ? [H1 H2] H3]; subst. cbn [fold_left]. unfold feed_raw22 at 2. cbn [fst snd].
  unfold listener22. cbn [orb negb]. rewrite notify22_foreign_any_id by assumption. cbn [catch flat22 app]. apply IH; assumption.
Qed.

(* ---------------------------------------------------------------- PDU2 frames on the FD layer are broadcasts *)
Theorem notify22_pdu2 m now id data :
  240 <= id_pf id ->
  let pgnf := (id / 256) mod 262144 in
  let pv := Z.land (pgn_value ((pgnf / 65536) mod 2) (id_pf id) (id_ps id)) 130816 in
  pv <> pgn_FEFF_MULTI_PG -> pv <> pgn_ADDRESSCLAIM -> pv <> pgn_REQUEST -> pv <> pgn_FD_TP_CM -> pv <> pgn_FD_TP_DT ->
  pv <> pgn_TP_CM -> pv <> pgn_DATATRANSFER ->
  notify22 m now id data =
  notify_subscribers22 ((id / 67108864) mod 8) (pgn_value ((pgnf / 65536) mod 2) (id_pf id) (id_ps id)) (id mod 256)
                       addr_GLOBAL data m (fun m' => Done m' 0).
Proof.
  intros Hpf pgnf pv H1 H2 H3 H4 H5 H6 H7. unfold notify22.
  rewrite mid_parse_arith. fold pgnf. rewrite T15_3_pgn_fields.
  change ((pgnf / 256) mod 256) with ((pgnf / 256) mod 256).
  assert (Epf : (pgnf / 256) mod 256 = id_pf id) by (unfold pgnf, id_pf; lia).
  assert (Eps : pgnf mod 256 = id_ps id) by (unfold pgnf, id_ps; lia).
  rewrite Epf, Eps. fold pv.
  assert (P2 : pgn_is_pdu2 (id_pf id) = true).
  { unfold pgn_is_pdu2. assert (0 <= id_pf id < 256) by (unfold id_pf; lia).
    destruct (Z.geb (id_pf id) 240 && Z.leb (id_pf id) 255) eqn:E; [reflexivity|lia]. }
  rewrite P2. cbn [negb andb].
  rewrite andb_false_r. cbn [andb].
  repeat match goal with |- context [pv =? ?c] => let E := fresh in destruct (pv =? c) eqn:E; [lia|] end.
  cbn [orb]. reflexivity.
Qed.

Example foreign_example :
  let m0 := with_base (init_node22 1 None None) (subscribe (init_node 1 None None) 1 (FAddr 64)) in
  accepts (base m0) 65 = false /\ accepts (base m0) 64 = true /\ id_pf 418071033 = 235 /\ id_ps 418071033 = 65.
Proof. vm_compute. repeat split; reflexivity. Qed.

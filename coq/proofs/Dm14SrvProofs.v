(* Dm14SrvProofs.v — C19/C18/C17 on the serving-side state machine (theories/Dm14Srv.v).
   C19  intruder_does_not_disturb: while a transaction with requester r runs, ANY message from another source address —
        any PGN, any data, well-formed or not — delivered to the CA (whatever callbacks are registered, in whatever
        order and multiplicity) leaves EVERY field of the server, the facade and the subscriber list unchanged, hands
        nothing to the application, and the only frames it can cause are DM15 'operation failed' addressed to it.
   C18  key_gate_listen: with seed/key configured, the application is asked / notified by a DM14 only when the key in
        that DM14 is the key of the seed the server sent.
   C17  read / write transactions: the DM16 the server sends carries exactly the bytes of respond(); the bytes handed
        back by respond() for a write are exactly those of the client's DM16. *)
From J1939 Require Import Base Dm14Srv.
Open Scope Z_scope.

(* ---------------------------------------------------------------- small facts *)
Lemma set_busy_same s : v_busy s = false -> set_busy s false = s.
Proof. intros H. destruct s; cbn in *; subst; reflexivity. Qed.

Definition busy_frame_to (x : Z) (o : sout) : Prop :=
  match o with SSend pf dest prio d => pf = 216 /\ dest = Z.land x 255 /\ prio = 6 | _ => False end.

(* the result of a callback that did not touch anything *)
Definition quiet (s : srv) (x : Z) (r : R) : Prop :=
  let '(s', os, e) := r in s' = s /\ Forall (busy_frame_to x) os.

Lemma quiet_ok s x : quiet s x (ok s).
Proof. split; [reflexivity|constructor]. Qed.
Lemma quiet_raise s x e : quiet s x (raise s e).
Proof. split; [reflexivity|constructor]. Qed.

Lemma set_nth_nth : forall (l : list Z) i x d, (i < length l)%nat -> nth i (set_nth l i x) d = x.
Proof. induction l as [|y r IH]; intros [|i] x d H; cbn in *; try lia; try reflexivity. apply IH. lia. Qed.
Lemma set_nth_other : forall (l : list Z) i j x d, i <> j -> nth j (set_nth l i x) d = nth j l d.
Proof. induction l as [|y r IH]; intros [|i] [|j] x d H; cbn; try reflexivity; try lia. apply IH. lia. Qed.
Lemma set_nth_length : forall (l : list Z) i x, length (set_nth l i x) = length l.
Proof. induction l as [|y r IH]; intros [|i] x; cbn; try reflexivity. f_equal. apply IH. Qed.

Lemma py_put_spec l i x l' : py_put l i x = Some l' ->
  exists j, norm_idx (zlen l) i = Some j /\ l' = set_nth l (Z.to_nat j) x /\ 0 <= j < zlen l.
Proof.
  unfold py_put. destruct (norm_idx (zlen l) i) as [j|] eqn:E; [|discriminate].
  intros H. inversion H. exists j. split; [reflexivity|]. split; [reflexivity|].
  unfold norm_idx in E. destruct (i <? 0); destruct ((_ <? 0) || (_ >=? zlen l)) eqn:E2; try discriminate; inversion E; subst; lia.
Qed.

(* ---------------------------------------------------------------- the 'operation failed' DM15 *)
(* _send_dm15 in state SEND_ERROR changes nothing and emits at most one frame: to [x], PF 0xD8 (DM15), priority 6
   (its layout for the regular length 8 is C19_busy_answer_layout) *)
Lemma send_error_quiet s length direct d0 x er :
  quiet s x (send_dm15 s length direct 5 R_SEND_ERROR (Some d0) (Some x) (Some er) (Some 7)).
Proof.
  unfold send_dm15, opt.
  destruct (py_put (repeat 255 (Z.to_nat length)) 1 _) as [d1|]; [|apply quiet_raise].
  change (R_SEND_ERROR =? R_WAIT_FOR_KEY) with false. change (R_SEND_ERROR =? R_SEND_PROCEED) with false.
  change (R_SEND_ERROR =? R_SEND_OPCOMPLETE) with false. change (R_SEND_ERROR =? R_SEND_ERROR) with true. cbv iota.
  destruct (py_put d1 0 0) as [d2|]; [|apply quiet_raise].
  destruct (py_put d2 1 _) as [d3|]; [|apply quiet_raise].
  destruct (py_put d3 _ _) as [d4|]; [|apply quiet_raise].
  destruct (py_put d4 _ _) as [d5|]; [|apply quiet_raise].
  destruct (py_put d5 _ _) as [d6|]; [|apply quiet_raise].
  destruct (py_put d6 _ _) as [d7|]; [|apply quiet_raise].
  unfold emit, quiet. split; [reflexivity|]. constructor; [|constructor].
  cbn [busy_frame_to]. repeat split; reflexivity.
Qed.

(* ---------------------------------------------------------------- C19: one callback *)
(* a transaction with requester r is running: from its first DM14 (waiting for the key, or for the application's
   respond) until the closing DM14 has been received (server not idle) *)
Definition running (s : srv) (r : Z) : Prop :=
  v_sa s = Some r /\ v_busy s = false /\
  ((a_state s = D_REQUEST_STARTED /\ v_state s = R_WAIT_FOR_KEY) \/ a_state s = D_WAIT_RESPONSE \/
   (a_state s = D_IDLE /\ v_state s <> R_IDLE)).

Lemma quiet_bind_busy s x (r : R) :
  v_busy s = false -> quiet s x r -> quiet s x (r >>= (fun s1 => ok (set_busy s1 false))).
Proof.
  intros Hb. destruct r as [[s1 os] e]. intros [E F]. subst s1. unfold bind.
  destruct e; [split; [reflexivity|exact F]|].
  cbn [ok]. rewrite app_nil_r. split; [apply set_busy_same; exact Hb|exact F].
Qed.

(* the guard of parse_dm14 fires: the busy answer, nothing else *)
Lemma parse_dm14_guarded c s x pgn data :
  v_busy s = false ->
  ((match v_sa s with Some r => negb (x =? r) | None => false end) = true \/
   (match v_addr s with Some a => negb (zlist_eqb a (py_slice data 2 (v_length s - 2))) | None => false end) = true) ->
  quiet s x (parse_dm14 c s pgn x data).
Proof.
  intros Hb Hg. unfold parse_dm14. destruct (negb (pgn =? PGN_DM14)); [apply quiet_ok|].
  assert (Hcond : (match v_sa s with Some r => negb (x =? r) | None => false end)
                  || (if match v_sa s with Some r => negb (x =? r) | None => false end then false
                      else match v_addr s with Some a => negb (zlist_eqb a (py_slice data 2 (v_length s - 2))) | None => false end)
                  || v_busy s = true).
  { destruct (match v_sa s with Some r => negb (x =? r) | None => false end); [reflexivity|].
    destruct Hg as [Hg|Hg]; [discriminate|]. rewrite Hg. reflexivity. }
  rewrite Hcond. unfold opt.
  destruct (py_get data 1) as [d1|]; [|apply quiet_raise].
  destruct (py_get data 0) as [d0|]; [|apply quiet_raise].
  apply quiet_bind_busy; [exact Hb|]. apply send_error_quiet.
Qed.

Lemma parse_dm16_other s r x pgn data : v_sa s = Some r -> x <> r -> parse_dm16 s pgn x data = ok s.
Proof.
  intros Hsa Hx. unfold parse_dm16. rewrite Hsa. assert ((x =? r) = false) as -> by lia.
  rewrite orb_true_r. reflexivity.
Qed.

Lemma listen_guarded c s x pgn data :
  v_busy s = false ->
  ((a_state s = D_REQUEST_STARTED /\ v_state s = R_WAIT_FOR_KEY) \/ a_state s = D_WAIT_RESPONSE \/
   (a_state s = D_IDLE /\ v_state s <> R_IDLE)) ->
  quiet s x (parse_dm14 c s pgn x data) ->
  quiet s x (listen_for_dm14 c s pgn x data).
Proof.
  intros Hb Hph Hq. unfold listen_for_dm14. destruct (negb (pgn =? PGN_DM14)); [apply quiet_ok|].
  destruct Hph as [[Ha Hv]|[Ha|[Ha Hv]]].
  - rewrite Ha. change (D_REQUEST_STARTED =? D_IDLE) with false. change (D_REQUEST_STARTED =? D_REQUEST_STARTED) with true. cbv iota.
    destruct (parse_dm14 c s pgn x data) as [[s1 os] e]. destruct Hq as [E F]. subst s1. unfold bind.
    destruct e; [split; [reflexivity|exact F]|].
    rewrite Hv. change (R_WAIT_FOR_KEY =? R_SEND_PROCEED) with false. cbv iota. cbn [ok]. rewrite app_nil_r.
    split; [reflexivity|exact F].
  - rewrite Ha. change (D_WAIT_RESPONSE =? D_IDLE) with false. change (D_WAIT_RESPONSE =? D_REQUEST_STARTED) with false.
    change (D_WAIT_RESPONSE =? D_WAIT_QUERY) with false. cbv iota. apply quiet_ok.
  - rewrite Ha. change (D_IDLE =? D_IDLE) with true. cbv iota.
    assert ((v_state s =? R_IDLE) = false) as -> by lia. apply quiet_ok.
Qed.

(* ---------------------------------------------------------------- C19: the whole delivery *)
Lemma dispatch_quiet c s x pgn data :
  (forall cb, In cb (subs s) ->
     quiet s x (if cb =? CB_LISTEN then listen_for_dm14 c s pgn x data
                else if cb =? CB_P14 then parse_dm14 c s pgn x data
                else if cb =? CB_P16 then parse_dm16 s pgn x data else ok s)) ->
  forall fuel i, quiet s x (dispatch fuel c i s pgn x data).
Proof.
  intros Hcb. induction fuel as [|f IH]; intros i; cbn [dispatch]; [apply quiet_raise|].
  destruct (nth_error (subs s) i) as [cb|] eqn:E; [|apply quiet_ok].
  specialize (Hcb cb (nth_error_In _ _ E)).
  destruct (if cb =? CB_LISTEN then _ else _) as [[s1 os] e]. destruct Hcb as [E1 F1]. subst s1. unfold bind.
  destruct e; [split; [reflexivity|exact F1]|].
  specialize (IH (S i)). destruct (dispatch f c (S i) s pgn x data) as [[s2 os2] e2]. destruct IH as [E2 F2].
  split; [exact E2|]. apply Forall_app. split; assumption.
Qed.

(* C19: a message from ANOTHER source address — any PGN, any data — while a transaction runs *)
Theorem intruder_does_not_disturb c s r x pgn data :
  running s r -> x <> r -> quiet s x (deliver c s pgn x data).
Proof.
  intros (Hsa & Hb & Hph) Hx. unfold deliver. apply dispatch_quiet. intros cb _.
  assert (Hp : quiet s x (parse_dm14 c s pgn x data)).
  { apply parse_dm14_guarded; [exact Hb|]. left. rewrite Hsa. lia. }
  destruct (cb =? CB_LISTEN); [apply listen_guarded; assumption|].
  destruct (cb =? CB_P14); [exact Hp|].
  destruct (cb =? CB_P16); [rewrite (parse_dm16_other s r x pgn data Hsa Hx); apply quiet_ok|apply quiet_ok].
Qed.

(* C19: a DM14 from the requester's OWN address naming another pointer is not served in its place either *)
Theorem other_pointer_not_served c s r a data :
  running s r -> v_addr s = Some a -> zlist_eqb a (py_slice data 2 (v_length s - 2)) = false ->
  quiet s r (deliver c s PGN_DM14 r data).
Proof.
  intros (Hsa & Hb & Hph) Ha Hne. unfold deliver. apply dispatch_quiet. intros cb _.
  assert (Hp : quiet s r (parse_dm14 c s PGN_DM14 r data)).
  { apply parse_dm14_guarded; [exact Hb|]. right. rewrite Ha, Hne. reflexivity. }
  destruct (cb =? CB_LISTEN); [apply listen_guarded; assumption|].
  destruct (cb =? CB_P14); [exact Hp|].
  destruct (cb =? CB_P16); [|apply quiet_ok].
  unfold parse_dm16. change (negb (PGN_DM14 =? PGN_DM16)) with true. cbn [orb]. apply quiet_ok.
Qed.

(* nothing reaches the application and nothing but DM15 frames to the intruder leaves the node: restated on outputs *)
Corollary intruder_outputs c s r x pgn data :
  running s r -> x <> r ->
  let '(s', os, e) := deliver c s pgn x data in
  s' = s /\ forall o, In o os -> match o with SSend pf dest _ _ => pf = 216 /\ dest = Z.land x 255 | _ => False end.
Proof.
  intros Hr Hx. pose proof (intruder_does_not_disturb c s r x pgn data Hr Hx) as H.
  destruct (deliver c s pgn x data) as [[s' os] e]. destruct H as [E F]. split; [exact E|].
  intros o Ho. rewrite Forall_forall in F. specialize (F o Ho). destruct o; cbn in F; try contradiction.
  destruct F as (A & B & _). split; assumption.
Qed.

(* ---------------------------------------------------------------- the phases of a transaction ARE running states *)
(* non-vacuity, by evaluation: a read with seed/key, at every point between its first DM14 and the closing DM14 *)
Definition ex_cfg : cfg := {| c_seedsec := true; c_hasproceed := true; c_key := fun sd => Z.lxor sd 65535 |}.
Definition ex_ops : list sop :=
  [OpMsg PGN_DM14 249 [4; 19; 0; 16; 0; 0; 255; 255];                       (* read 4 objects at 0x1000 *)
   OpMsg PGN_DM14 249 [4; 19; 0; 16; 0; 0; 165; 90];                        (* key of seed 0xA55A *)
   OpRespond true [1; 2; 3; 4] 16777215 255 []].
Fixpoint states_after (c : cfg) (s : srv) (ops : list sop) : list srv :=
  match ops with [] => [] | o :: r => let '(s1, _, _) := sstep c s o in s1 :: states_after c s1 r end.
Definition runningb (s : srv) (r : Z) : bool :=
  (match v_sa s with Some a => a =? r | None => false end) && negb (v_busy s) &&
  (((a_state s =? D_REQUEST_STARTED) && (v_state s =? R_WAIT_FOR_KEY)) || (a_state s =? D_WAIT_RESPONSE) ||
   ((a_state s =? D_IDLE) && negb (v_state s =? R_IDLE))).
Lemma runningb_ok s r : runningb s r = true -> running s r.
Proof.
  unfold runningb, running. intros H. apply andb_prop in H. destruct H as [H H3]. apply andb_prop in H. destruct H as [H1 H2].
  destruct (v_sa s) as [a|]; [|discriminate]. split; [f_equal; lia|]. split; [destruct (v_busy s); [discriminate|reflexivity]|].
  apply orb_prop in H3. destruct H3 as [H3|H3]; [apply orb_prop in H3; destruct H3 as [H3|H3]|].
  - left. apply andb_prop in H3. lia.
  - right. left. lia.
  - right. right. apply andb_prop in H3. destruct H3 as [A B]. split; [lia|]. destruct (v_state s =? R_IDLE) eqn:E; [discriminate|lia].
Qed.
Example phases_are_running :
  forallb (fun s => runningb s 249) (states_after ex_cfg (init_srv [42330] []) ex_ops) = true /\
  length (states_after ex_cfg (init_srv [42330] []) ex_ops) = 3%nat.
Proof. vm_compute. split; reflexivity. Qed.

(* ---------------------------------------------------------------- C18: the key gate, for EVERY state and message *)
Definition is_send (o : sout) : Prop := match o with SSend _ _ _ _ => True | _ => False end.
Definition sends_only (r : R) : Prop := let '(_, os, _) := r in Forall is_send os.

Lemma sends_only_bind (r : R) (f : srv -> R) : sends_only r -> (forall s, sends_only (f s)) -> sends_only (r >>= f).
Proof.
  destruct r as [[s os] e]. cbn [sends_only]. intros H Hf. unfold bind. destruct e; [exact H|].
  specialize (Hf s). destruct (f s) as [[s2 o2] e2]. cbn [sends_only] in *. apply Forall_app. split; assumption.
Qed.
Lemma sends_only_ok s : sends_only (ok s). Proof. constructor. Qed.
Lemma sends_only_raise s x : sends_only (raise s x). Proof. constructor. Qed.
Lemma sends_only_opt {A} s (o : option A) x f : (forall a, sends_only (f a)) -> sends_only (opt s o x f).
Proof. intros H. unfold opt. destruct o; [apply H|apply sends_only_raise]. Qed.

Lemma send_dm15_sends s l d st state oc sa er ed : sends_only (send_dm15 s l d st state oc sa er ed).
Proof.
  unfold send_dm15. apply sends_only_opt. intros d1.
  assert (Hfin : forall s' d, sends_only (opt s' sa X_TYPE (fun a => emit s' (SSend 216 (Z.land a 255) 6 d)))).
  { intros s' d0. apply sends_only_opt. intros a. constructor; [exact I|constructor]. }
  assert (Hemit : forall s' a d, sends_only (emit s' (SSend 216 (Z.land a 255) 6 d))) by (intros; constructor; [exact I|constructor]).
  destruct (state =? R_WAIT_FOR_KEY).
  { destruct (seeds s) as [|x r]; repeat (apply sends_only_opt; intros); apply Hemit. }
  destruct (state =? R_SEND_PROCEED); [repeat (apply sends_only_opt; intros); apply Hemit|].
  destruct (state =? R_SEND_OPCOMPLETE); [repeat (apply sends_only_opt; intros); apply Hemit|].
  destruct (state =? R_SEND_ERROR); [repeat (apply sends_only_opt; intros); apply Hemit|apply sends_only_raise].
Qed.

Lemma parse_dm14_sends c s pgn sa data : sends_only (parse_dm14 c s pgn sa data).
Proof.
  unfold parse_dm14. destruct (negb (pgn =? PGN_DM14)); [apply sends_only_ok|].
  destruct (_ || _ || v_busy s).
  - repeat (apply sends_only_opt; intros). apply sends_only_bind; [apply send_dm15_sends|intros; apply sends_only_ok].
  - apply sends_only_opt. intros d1.
    destruct (_ =? R_IDLE).
    { repeat (apply sends_only_opt; intros). destruct (c_seedsec c); [apply send_dm15_sends|apply sends_only_ok]. }
    destruct (_ =? R_WAIT_FOR_KEY); [repeat (apply sends_only_opt; intros); apply sends_only_ok|].
    destruct (_ =? R_WAIT_OPCOMPLETE); [apply sends_only_ok|apply sends_only_raise].
Qed.

Lemma parse_dm16_sends s pgn sa data : sends_only (parse_dm16 s pgn sa data).
Proof.
  unfold parse_dm16. destruct (_ || _); [apply sends_only_ok|]. apply sends_only_opt. intros d0. apply send_dm15_sends.
Qed.

Lemma refuse_sends c s err pgn sa data : sends_only (refuse c s err pgn sa data).
Proof. unfold refuse. apply sends_only_bind; [apply parse_dm14_sends|intros; apply sends_only_ok]. Qed.

(* what may be handed to the application: only a request whose key is the key of its seed *)
Definition right_key (c : cfg) (o : sout) : Prop :=
  match o with SProceedFn _ _ _ _ _ key _ _ seed => c_key c seed = key | _ => True end.
Definition asked (os : list sout) : Prop := exists cmd ad pt l oc k a acc sd, In (SProceedFn cmd ad pt l oc k a acc sd) os.
Definition gated (c : cfg) (r : R) : Prop :=
  let '(_, os, _) := r in Forall (right_key c) os /\ (In SNotify os -> asked os).

Lemma gated_of_sends c r : sends_only r -> gated c r.
Proof.
  destruct r as [[s os] e]. cbn. intros H. split.
  - eapply Forall_impl; [|exact H]. intros o Ho. destruct o; cbn in *; try contradiction; exact I.
  - intros Hn. rewrite Forall_forall in H. specialize (H _ Hn). contradiction.
Qed.

Lemma gated_bind c (r : R) (f : srv -> R) : gated c r -> (forall s, gated c (f s)) -> gated c (r >>= f).
Proof.
  destruct r as [[s os] e]. cbn [gated]. intros [H1 H2] Hf. unfold bind. destruct e; [split; assumption|].
  specialize (Hf s). destruct (f s) as [[s2 o2] e2]. cbn [gated] in *. destruct Hf as [G1 G2]. split.
  - apply Forall_app. split; assumption.
  - intros Hn. apply in_app_or in Hn. destruct Hn as [Hn|Hn].
    + destruct (H2 Hn) as (a1 & a2 & a3 & a4 & a5 & a6 & a7 & a8 & a9 & Hin). exists a1, a2, a3, a4, a5, a6, a7, a8, a9. apply in_or_app. left. exact Hin.
    + destruct (G2 Hn) as (a1 & a2 & a3 & a4 & a5 & a6 & a7 & a8 & a9 & Hin). exists a1, a2, a3, a4, a5, a6, a7, a8, a9. apply in_or_app. right. exact Hin.
Qed.

(* asking the application with (key, seed), then notifying or refusing *)
Lemma ask_then c s key seed pgn sa data :
  c_key c seed = key ->
  gated c (let '(r, ans) := ask_application s key seed in
           r >>= (fun s3 => if ans then emit s3 SNotify else refuse c s3 256 pgn sa data)).
Proof.
  intros Hk. unfold ask_application.
  destruct (v_command s) as [cmd|]; [|cbn; split; [constructor|intros []]].
  destruct (v_addr s) as [ad|]; [|cbn; split; [constructor|intros []]].
  destruct (v_ptype s) as [pt|]; [|cbn; split; [constructor|intros []]].
  destruct (v_objcnt s) as [oc|]; [|cbn; split; [constructor|intros []]].
  destruct (v_sa s) as [a|]; [|cbn; split; [constructor|intros []]].
  destruct (v_access s) as [acc|]; [|cbn; split; [constructor|intros []]].
  destruct (match answers s with x :: r => (x, r) | [] => (true, []) end) as [ans rest].
  unfold emit, bind. destruct ans.
  - cbn [gated]. split; [repeat constructor; exact Hk|]. intros _. do 9 eexists. left. reflexivity.
  - pose proof (refuse_sends c (set_answers s rest) 256 pgn sa data) as Hs.
    destruct (refuse c (set_answers s rest) 256 pgn sa data) as [[s2 o2] e2]. cbn [sends_only gated] in *.
    split.
    + constructor; [exact Hk|]. eapply Forall_impl; [|exact Hs]. intros o Ho. destruct o; cbn in *; try contradiction; exact I.
    + intros _. do 9 eexists. left. reflexivity.
Qed.

(* T18.1 (state-machine form): with seed/key configured, whatever state the server and the facade are in and whatever
   DM14 arrives, the application is asked (proceed callback) only with a key that is the key of the seed, and it is
   notified only after having been asked so *)
Theorem key_gate_listen c s pgn sa data :
  c_seedsec c = true -> gated c (listen_for_dm14 c s pgn sa data).
Proof.
  intros Hsec. unfold listen_for_dm14. destruct (negb (pgn =? PGN_DM14)); [apply gated_of_sends; apply sends_only_ok|].
  destruct (a_state s =? D_IDLE).
  { destruct (v_state s =? R_IDLE); [|apply gated_of_sends; apply sends_only_ok].
    apply gated_bind; [apply gated_of_sends; apply parse_dm14_sends|]. intros s1. rewrite Hsec. cbn [negb].
    apply gated_of_sends. apply sends_only_ok. }
  destruct (a_state s =? D_REQUEST_STARTED).
  { apply gated_bind; [apply gated_of_sends; apply parse_dm14_sends|]. intros s1.
    destruct (v_state s1 =? R_SEND_PROCEED); [|apply gated_of_sends; apply sends_only_ok].
    rewrite Hsec.
    destruct (v_seed (set_astate s1 D_WAIT_RESPONSE)) as [sd|]; [|apply gated_of_sends; apply sends_only_raise].
    destruct (v_key (set_astate s1 D_WAIT_RESPONSE)) as [ky|]; [|apply gated_of_sends; apply refuse_sends].
    destruct (c_key c sd =? ky) eqn:Ek; [|apply gated_of_sends; apply refuse_sends].
    destruct (c_hasproceed c); [|apply gated_of_sends; apply sends_only_ok].
    apply ask_then. lia. }
  destruct (a_state s =? D_WAIT_QUERY); [|apply gated_of_sends; apply sends_only_ok].
  apply gated_of_sends. apply sends_only_bind; [apply parse_dm14_sends|intros; apply sends_only_ok].
Qed.

(* ... and so for the delivery of ANY message to ANY registered set of callbacks *)
Lemma dispatch_gated c pgn sa data : c_seedsec c = true ->
  forall fuel s i, gated c (dispatch fuel c i s pgn sa data).
Proof.
  intros Hsec. induction fuel as [|f IH]; intros s i; cbn [dispatch]; [apply gated_of_sends; apply sends_only_raise|].
  destruct (nth_error (subs s) i) as [cb|]; [|apply gated_of_sends; apply sends_only_ok].
  apply gated_bind; [|intros s1; apply IH].
  destruct (cb =? CB_LISTEN); [apply key_gate_listen; exact Hsec|].
  destruct (cb =? CB_P14); [apply gated_of_sends; apply parse_dm14_sends|].
  destruct (cb =? CB_P16); [apply gated_of_sends; apply parse_dm16_sends|apply gated_of_sends; apply sends_only_ok].
Qed.
Theorem key_gate_deliver c s pgn sa data :
  c_seedsec c = true -> gated c (deliver c s pgn sa data).
Proof. intros Hsec. unfold deliver. apply dispatch_gated. exact Hsec. Qed.

(* a wrong key is answered with error 0x1003 and the request forgotten (decision level: C18_key_gate) — here: the
   application sees nothing of it *)
Corollary wrong_key_never_reaches_application c s pgn sa data :
  c_seedsec c = true ->
  let '(_, os, _) := deliver c s pgn sa data in
  forall cmd ad pt l oc k a acc sd, In (SProceedFn cmd ad pt l oc k a acc sd) os -> c_key c sd = k.
Proof.
  intros Hsec. pose proof (key_gate_deliver c s pgn sa data Hsec) as H.
  destruct (deliver c s pgn sa data) as [[s' os] e]. destruct H as [H _].
  intros cmd ad pt l oc k a acc sd Hin. rewrite Forall_forall in H. exact (H _ Hin).
Qed.

(* ---------------------------------------------------------------- C17: the data of a read *)
From J1939 Require Dm14Model.
Notation dm16_extract := Dm14Model.dm16_extract.

Definition server_dm16 (s : srv) : list Z :=
  (if zlen (v_data s) >? 7 then 255 else zlen (v_data s)) :: v_data s ++ repeat 255 (Z.to_nat (v_length s - zlen (v_data s) - 1)).

(* the DM16 the server sends carries exactly the bytes of respond(): one frame to the requester, PF 0xD7 *)
Theorem send_dm16_carries_data s a :
  v_sa s = Some a ->
  exists s', send_dm16 s = (s', [SSend 215 (Z.land a 255) 7 (server_dm16 s)], None) /\ v_data s' = v_data s /\ v_sa s' = v_sa s /\
             v_state s' = v_state s.
Proof.
  intros Ha. unfold send_dm16, opt, server_dm16.
  destruct (zlen (v_data s) >? 7).
  - assert (v_sa (subscribe s CB_P16) = Some a) as -> by exact Ha. eexists. split; [reflexivity|]. repeat split; reflexivity.
  - rewrite Ha. eexists. split; [reflexivity|]. repeat split; first [reflexivity | exact Ha | symmetry; exact Ha].
Qed.

(* ... and what the client extracts from that frame (Dm14Model.dm16_extract, the client's rule) is exactly the data,
   for every data length 1..255 (request length 8, the DM14 of J1939-21) *)
Theorem server_dm16_extracts s :
  v_length s = 8 -> (1 <= length (v_data s) <= 255)%nat -> dm16_extract (server_dm16 s) = v_data s.
Proof.
  intros Hl H. unfold server_dm16, dm16_extract, zlen. rewrite Hl.
  destruct (Z.of_nat (length (v_data s)) >? 7) eqn:E.
  - replace (Z.to_nat (8 - Z.of_nat (length (v_data s)) - 1)) with 0%nat by lia. cbn [repeat]. rewrite app_nil_r.
    rewrite Z.min_r by lia. rewrite Nat2Z.id. apply firstn_all.
  - rewrite app_length, repeat_length. rewrite Z.min_l by lia. rewrite Nat2Z.id.
    rewrite firstn_app, firstn_all, Nat.sub_diag. cbn [firstn]. apply app_nil_r.
Qed.

(* ---------------------------------------------------------------- C17: the data of a write *)
Lemma send_dm15_queue s l d st state oc sa er ed :
  v_queue (fst (fst (send_dm15 s l d st state oc sa er ed))) = v_queue s.
Proof.
  unfold send_dm15, opt.
  destruct (py_put _ 1 _) as [d1|]; [|reflexivity].
  destruct (state =? R_WAIT_FOR_KEY).
  { destruct (seeds s) as [|x r]; repeat (match goal with |- context [match ?o with Some _ => _ | None => _ end] => destruct o end); reflexivity. }
  destruct (state =? R_SEND_PROCEED).
  { repeat (match goal with |- context [match ?o with Some _ => _ | None => _ end] => destruct o end); reflexivity. }
  destruct (state =? R_SEND_OPCOMPLETE).
  { repeat (match goal with |- context [match ?o with Some _ => _ | None => _ end] => destruct o end); reflexivity. }
  destruct (state =? R_SEND_ERROR); [|reflexivity].
  repeat (match goal with |- context [match ?o with Some _ => _ | None => _ end] => destruct o end); reflexivity.
Qed.

Lemma py_slice_tail d0 rest l : 0 <= l <= zlen rest -> py_slice (d0 :: rest) 1 (l + 1) = firstn (Z.to_nat l) rest.
Proof.
  unfold py_slice, zlen. cbn [length]. intros H.
  destruct (l + 1 <? 0) eqn:A; [lia|]. rewrite A.
  destruct (l + 1 >? Z.of_nat (S (length rest))) eqn:B; [lia|].
  destruct (1 >? Z.of_nat (S (length rest))) eqn:C; [lia|].
  destruct (l + 1 <=? 1) eqn:D.
  - assert (l = 0) as -> by lia. reflexivity.
  - replace (l + 1 - 1) with l by lia. reflexivity.
Qed.

(* a DM16 from the requester while the server waits for the data of a write: EXACTLY the bytes the client's frame
   carries (the same extraction rule as on the client side) are queued for respond(), nothing else *)
Theorem parse_dm16_stores s a d0 rest :
  v_state s = R_WAIT_FOR_DM16 -> v_sa s = Some a -> 0 <= d0 ->
  v_queue (fst (fst (parse_dm16 s PGN_DM16 a (d0 :: rest)))) = v_queue s ++ [dm16_extract (d0 :: rest)].
Proof.
  intros Hst Hsa H0. unfold parse_dm16. rewrite Hsa. cbv beta iota. rewrite (Z.eqb_refl a). change (PGN_DM16 =? PGN_DM16) with true. cbn [negb orb].
  unfold opt. change (py_get (d0 :: rest) 0) with (Some d0). cbv iota. rewrite Hst. change (R_WAIT_FOR_DM16 =? R_WAIT_FOR_DM16) with true. cbv iota.
  cbv zeta. rewrite send_dm15_queue. cbn [v_queue set_state subscribe unsubscribe set_subs set_queue upd].
  f_equal. f_equal. unfold dm16_extract.
  assert (Hl : 0 <= Z.min d0 (zlen (d0 :: rest) - 1) <= zlen rest) by (unfold zlen; cbn [length]; lia).
  rewrite (py_slice_tail d0 rest _ Hl). unfold zlen. cbn [length].
  replace (Z.of_nat (S (length rest)) - 1) with (Z.of_nat (length rest)) by lia. reflexivity.
Qed.

(* respond() of a write returns the head of that queue: the bytes of the FIRST DM16 that arrived while it waited *)
Theorem respond_write_returns c s proceed data er ed during :
  let s1 := set_state (set_status (set_edcp (set_error (set_data (set_proceed s proceed) data) er) ed) (if proceed then 0 else 5))
                      (if proceed then R_SEND_PROCEED else R_SEND_ERROR) in
  forall s2 o2, wait_for_data s1 = (s2, o2, None) -> v_state s2 = R_WAIT_FOR_DM16 ->
  forall s3 o3 d q, deliver_all c s2 during = (s3, o3) -> v_queue s3 = d :: q ->
  srv_respond c s proceed data er ed during = (set_queue s3 q, o2 ++ o3, RetData d).
Proof.
  intros s1 s2 o2 Hw Hst s3 o3 d q Hd Hq. unfold srv_respond. fold s1. rewrite Hw, Hst.
  change (R_WAIT_FOR_DM16 =? R_WAIT_FOR_DM16) with true. cbv iota. rewrite Hd, Hq. reflexivity.
Qed.

(* non-vacuity, by evaluation: a complete write of 3 bytes without seed/key — request, respond() waiting, the
   client's DM16 arriving meanwhile, closing DM14 — hands back exactly [7; 8; 9] and leaves everything idle *)
Example write_transaction :
  let c := {| c_seedsec := false; c_hasproceed := true; c_key := fun x => x |} in
  let '(s1, o1, _) := sstep c (init_srv [] []) (OpMsg PGN_DM14 249 [3; 21; 0; 16; 0; 0; 255; 255]) in
  let '(s2, o2, r2) := sstep c s1 (OpRespond true [] 16777215 255 [(PGN_DM16, 249, [3; 7; 8; 9; 255; 255; 255; 255])]) in
  let '(s3, o3, _) := sstep c s2 (OpMsg PGN_DM14 249 [3; 25; 0; 16; 0; 0; 255; 255]) in
  r2 = RetData [7; 8; 9] /\ v_state s3 = R_IDLE /\ v_sa s3 = None /\ v_addr s3 = None /\ a_state s3 = D_IDLE /\ subs s3 = [CB_LISTEN] /\
  o1 = [SProceedFn 2 4096 1 8 3 65535 249 65535 0; SNotify].
Proof. vm_compute. repeat split; reflexivity. Qed.

(* ---------------------------------------------------------------- C19, second mechanism: the node is itself querying *)
Lemma zlen_set_nth l i x : zlen (set_nth l i x) = zlen l.
Proof. unfold zlen. rewrite set_nth_length. reflexivity. Qed.

Lemma py_put_ok l i x : 0 <= i < zlen l -> exists l', py_put l i x = Some l' /\ zlen l' = zlen l.
Proof.
  intros H. unfold py_put, norm_idx. destruct (i <? 0) eqn:A; [lia|].
  assert (((i <? 0) || (i >=? zlen l)) = false) as -> by lia.
  eexists. split; [reflexivity|apply zlen_set_nth].
Qed.

Lemma zlen_repeat x n : 0 <= n -> zlen (repeat x (Z.to_nat n)) = n.
Proof. intros H. unfold zlen. rewrite repeat_length. lia. Qed.

(* with a request length of at least 6 the 'operation failed' DM15 is always sent: one frame, nothing changed *)
Lemma send_error_sends s length direct d0 x er :
  6 <= length ->
  exists d, send_dm15 s length direct 5 R_SEND_ERROR (Some d0) (Some x) (Some er) (Some 7) = (s, [SSend 216 (Z.land x 255) 6 d], None).
Proof.
  intros Hl. unfold send_dm15, opt.
  pose proof (zlen_repeat 255 length ltac:(lia)) as L0.
  destruct (py_put_ok (repeat 255 (Z.to_nat length)) 1 (direct * 16 + 5 * 2 + 1) ltac:(lia)) as (d1 & E1 & L1). rewrite E1.
  change (R_SEND_ERROR =? R_WAIT_FOR_KEY) with false. change (R_SEND_ERROR =? R_SEND_PROCEED) with false.
  change (R_SEND_ERROR =? R_SEND_OPCOMPLETE) with false. change (R_SEND_ERROR =? R_SEND_ERROR) with true. cbv iota.
  destruct (py_put_ok d1 0 0 ltac:(lia)) as (d2 & E2 & L2). rewrite E2.
  destruct (py_put_ok d2 1 (direct * 16 + 5 * 2 + 1) ltac:(lia)) as (d3 & E3 & L3). rewrite E3.
  destruct (py_put_ok d3 (length - 6) (Z.land er 255) ltac:(lia)) as (d4 & E4 & L4). rewrite E4.
  destruct (py_put_ok d4 (length - 5) (Z.land (Z.shiftr er 8) 255) ltac:(lia)) as (d5 & E5 & L5). rewrite E5.
  destruct (py_put_ok d5 (length - 4) (Z.shiftr er 16) ltac:(lia)) as (d6 & E6 & L6). rewrite E6.
  destruct (py_put_ok d6 (length - 3) 7 ltac:(lia)) as (d7 & E7 & L7). rewrite E7.
  exists d7. reflexivity.
Qed.

Lemma py_get_0 d0 rest : py_get (d0 :: rest) 0 = Some d0.
Proof.
  unfold py_get, norm_idx, zlen. cbn [length]. change (0 <? 0) with false. cbv iota.
  assert (((0 <? 0) || (0 >=? Z.of_nat (S (length rest)))) = false) as -> by lia. reflexivity.
Qed.
Lemma py_get_1 d0 d1 rest : py_get (d0 :: d1 :: rest) 1 = Some d1.
Proof.
  unfold py_get, norm_idx, zlen. cbn [length]. change (1 <? 0) with false. cbv iota.
  assert (((1 <? 0) || (1 >=? Z.of_nat (S (S (length rest))))) = false) as -> by lia. reflexivity.
Qed.

Lemma set_busy_twice s b : set_busy (set_busy s b) false = set_busy s false.
Proof. destruct s; reflexivity. Qed.

(* while the facade is WAIT_QUERY (the node's own read()/write() runs) ANY DM14 of at least 2 bytes — from anybody — is
   answered with exactly one 'operation failed / busy' DM15 to its sender and changes nothing; nothing reaches the application *)
Theorem querying_node_answers_busy c s x data :
  a_state s = D_WAIT_QUERY -> v_busy s = false -> 6 <= v_length s -> (2 <= length data)%nat ->
  exists d, listen_for_dm14 c s PGN_DM14 x data = (s, [SSend 216 (Z.land x 255) 6 d], None).
Proof.
  intros Ha Hb Hl Hd. unfold listen_for_dm14. change (negb (PGN_DM14 =? PGN_DM14)) with false. cbv iota.
  rewrite Ha. change (D_WAIT_QUERY =? D_IDLE) with false. change (D_WAIT_QUERY =? D_REQUEST_STARTED) with false.
  change (D_WAIT_QUERY =? D_WAIT_QUERY) with true. cbv iota.
  unfold parse_dm14. change (negb (PGN_DM14 =? PGN_DM14)) with false. cbv iota.
  assert (v_busy (set_busy s true) = true) as Hbt by (destruct s; reflexivity). rewrite Hbt. rewrite !orb_true_r.
  destruct data as [|d0 [|d1 rest]]; cbn [length] in Hd; try lia.
  unfold opt. rewrite (py_get_1 d0 d1 rest), (py_get_0 d0 (d1 :: rest)).
  assert (Hl' : 6 <= v_length (set_busy s true)) by (destruct s; exact Hl).
  destruct (send_error_sends (set_busy s true) (v_length (set_busy s true)) (Z.shiftr d1 4) d0 x
              (if v_error (set_busy s true) =? 0 then 2 else v_error (set_busy s true)) Hl') as (d & E).
  rewrite E. unfold bind, ok. cbn [app]. rewrite (set_busy_twice s true).
  rewrite (set_busy_same s Hb). rewrite (set_busy_same s Hb). exists d. reflexivity.
Qed.

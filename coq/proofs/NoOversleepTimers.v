(* NoOversleepTimers.v — C12 (and C06/C09 through job_iter): the job thread never sleeps past a timer deadline.
   After the timer pass of one job iteration the wake-up time is not later than the deadline of ANY registration still in the
   list — periodic or one-shot, examined, advanced or left alone, value-equal twins included — except registrations that were
   added DURING the pass, and for those a wake-up token is pending (add_timer wakes the job thread), so the sleep ends at once. *)
From J1939 Require Import Base CodecGlue Model21.
From J1939.gen Require Import Codec Tp21Gen CaGen.
From J1939P Require Import CodecProofs Flat RobustProofs TimerProofs NoOversleep.
Local Arguments Z.add : simpl never.
Local Arguments Z.sub : simpl never.
Local Arguments Z.mul : simpl never.

Lemma timer_eqb_deadline a b : timer_eqb a b = true -> tm_deadline a = tm_deadline b.
Proof. unfold timer_eqb. intros H. apply andb_prop in H. destruct H as [_ H]. lia. Qed.

Lemma remove_first_app_in ev : forall A B, timer_in ev A = true -> remove_first ev (A ++ B) = remove_first ev A ++ B.
Proof.
  induction A as [|x r IH]; intros B H; [discriminate|].
  cbn [app remove_first]. unfold timer_in in H. cbn [existsb] in H.
  destruct (timer_eqb x ev) eqn:E; [reflexivity|]. cbn [orb] in H. cbn [app]. f_equal. apply IH. exact H.
Qed.
Lemma remove_first_app_out ev : forall A B, timer_in ev A = false -> remove_first ev (A ++ B) = A ++ remove_first ev B.
Proof.
  induction A as [|x r IH]; intros B H; [reflexivity|].
  cbn [app remove_first]. unfold timer_in in H. cbn [existsb] in H.
  destruct (timer_eqb x ev) eqn:E; [discriminate|]. cbn [orb] in H. f_equal. apply IH. exact H.
Qed.
Lemma In_remove_first ev : forall l t, In t (remove_first ev l) -> In t l.
Proof.
  induction l as [|x r IH]; intros t H; [exact H|]. cbn [remove_first] in H.
  destruct (timer_eqb x ev); [right; exact H|]. destruct H as [H|H]; [left; exact H|right; apply IH; exact H].
Qed.
Lemma NoDup_ids_remove_first ev : forall l, NoDup (map tm_id l) -> NoDup (map tm_id (remove_first ev l)).
Proof.
  induction l as [|x r IH]; intros H; [exact H|]. cbn [remove_first].
  cbn [map] in H. inversion H as [|? ? Hni Hnd]; subst.
  destruct (timer_eqb x ev); [exact Hnd|]. cbn [map]. constructor; [|apply IH; exact Hnd].
  intro Hin. apply Hni. apply in_map_iff in Hin. destruct Hin as [t [Et Ht]]. apply in_map_iff. exists t.
  split; [exact Et|apply (In_remove_first ev); exact Ht].
Qed.

Lemma upd_other id dl : forall l, (forall t, In t l -> tm_id t <> id) -> upd_timer_deadline l id dl = l.
Proof.
  unfold upd_timer_deadline. induction l as [|x r IH]; intros H; [reflexivity|]. cbn [map].
  assert ((tm_id x =? id) = false) as -> by (specialize (H x (or_introl eq_refl)); lia).
  f_equal. apply IH. intros t Ht. apply H. right. exact Ht.
Qed.

Definition with_deadline (t : timer) (dl : Z) : timer :=
  {| tm_delta := tm_delta t; tm_cb := tm_cb t; tm_deadline := dl; tm_ret := tm_ret t; tm_id := tm_id t |}.

Lemma upd_split ev dl D R :
  (forall t, In t D -> tm_id t <> tm_id ev) -> (forall t, In t R -> tm_id t <> tm_id ev) ->
  upd_timer_deadline (D ++ ev :: R) (tm_id ev) dl = D ++ with_deadline ev dl :: R.
Proof.
  intros HD HR. unfold upd_timer_deadline. rewrite map_app. cbn [map]. rewrite Z.eqb_refl.
  fold (upd_timer_deadline D (tm_id ev) dl). fold (upd_timer_deadline R (tm_id ev) dl).
  rewrite (upd_other _ _ D HD), (upd_other _ _ R HR). reflexivity.
Qed.

(* what claim_async does to the node, as far as the timer pass is concerned: one registration appended, with a fresh id,
   and one wake-up token *)
Lemma claim_async_frame P i now n k :
  (forall n1 t, n_timers n1 = n_timers n ++ [t] -> tm_id t = n_nextid n -> n_nextid n1 = n_nextid n + 1 ->
                n_wakes n1 = n_wakes n + 1 -> n_rcv n1 = n_rcv n -> n_snd n1 = n_snd n -> post P (k n1)) ->
  post P (claim_async i now n k).
Proof.
  intros Hk. unfold claim_async. destruct (nth_error (n_cas n) i) as [c|]; [|apply post_raise].
  assert (Hre : forall tts n', n_timers n' = n_timers n -> n_nextid n' = n_nextid n -> n_wakes n' = n_wakes n ->
                   n_rcv n' = n_rcv n -> n_snd n' = n_snd n ->
                   post P (k (add_timer n' now tts (TClaim i) false))).
  { intros tts n' T I W R S. eapply Hk; unfold add_timer; cbn.
    - rewrite T. reflexivity.
    - cbn. exact I.
    - rewrite I. reflexivity.
    - rewrite W. reflexivity.
    - exact R.
    - exact S. }
  cbv zeta.
  destruct (c_state c =? ca_state_NONE).
  - destruct (c_pref c) as [p|]; [|apply Hre; reflexivity].
    destruct ((p >? 127) && (p <? 248)); apply post_emit; apply Hre; reflexivity.
  - destruct (c_state c =? ca_state_WAIT_VETO); apply Hre; reflexivity.
Qed.

Section Pass.
Variable P : node -> Z -> Prop.
Variables (now id0 w0 : Z).

Lemma timer_pass_cover : forall rest D N nw n k,
  n_timers n = D ++ rest ++ N ->
  NoDup (map tm_id (D ++ rest)) ->
  (forall t, In t (D ++ rest) -> tm_id t < id0) ->
  (forall t, In t N -> id0 <= tm_id t) ->
  (forall t, In t D -> nw <= tm_deadline t) ->
  (N <> [] -> w0 < n_wakes n) -> w0 <= n_wakes n -> id0 <= n_nextid n ->
  (forall n' nw', nw' <= nw -> n_rcv n' = n_rcv n -> n_snd n' = n_snd n ->
     (forall t, In t (n_timers n') -> nw' <= tm_deadline t \/ w0 < n_wakes n') -> post P (k n' nw')) ->
  post P (timer_pass rest now nw n k).
Proof.
  induction rest as [|ev rest IH]; intros D N nw n k HT Hnd Hold Hnew Hcov Hw Hw0 Hid0 Hk.
  - cbn [timer_pass]. apply Hk; [lia|reflexivity|reflexivity|].
    intros t Ht. rewrite HT in Ht. cbn [app] in Ht. apply in_app_or in Ht. destruct Ht as [Ht|Ht].
    + left. apply Hcov. exact Ht.
    + right. apply Hw. intro E. rewrite E in Ht. exact Ht.
  - cbn [timer_pass].
    assert (Hin : In ev (n_timers n)).
    { rewrite HT. apply in_or_app. right. left. reflexivity. }
    rewrite (timer_in_self _ _ Hin). cbn [negb].
    assert (HoldEv : tm_id ev < id0).
    { apply Hold. apply in_or_app. right. left. reflexivity. }
    (* ids: ev's id occurs nowhere else *)
    assert (HidD : forall t, In t D -> tm_id t <> tm_id ev).
    { intros t Ht E. rewrite map_app in Hnd. cbn [map] in Hnd. apply NoDup_remove_2 in Hnd. apply Hnd.
      apply in_or_app. left. rewrite <- E. apply in_map. exact Ht. }
    assert (HidR : forall t, In t (rest ++ N) -> tm_id t <> tm_id ev).
    { intros t Ht E. apply in_app_or in Ht. destruct Ht as [Ht|Ht].
      - rewrite map_app in Hnd. cbn [map] in Hnd. apply NoDup_remove_2 in Hnd. apply Hnd.
        apply in_or_app. right. rewrite <- E. apply in_map. exact Ht.
      - specialize (Hnew t Ht). lia. }
    (* moving an examined registration into the covered part *)
    assert (Hmove : forall ev' nw1 n1 N1,
              tm_id ev' = tm_id ev -> nw1 <= nw -> nw1 <= tm_deadline ev' ->
              n_timers n1 = D ++ ev' :: rest ++ N1 -> (forall t, In t N1 -> id0 <= tm_id t) -> (N1 <> [] -> w0 < n_wakes n1) ->
              w0 <= n_wakes n1 -> id0 <= n_nextid n1 ->
              n_rcv n1 = n_rcv n -> n_snd n1 = n_snd n ->
              post P (timer_pass rest now nw1 n1 k)).
    { intros ev' nw1 n1 N1 Eid L1 L2 T1 New1 W1 W01 I01 R1 S1.
      apply (IH (D ++ [ev']) N1).
      - rewrite T1. rewrite <- app_assoc. reflexivity.
      - rewrite <- app_assoc. cbn [app]. rewrite map_app in *. cbn [map] in *. rewrite Eid. exact Hnd.
      - intros t Ht. rewrite <- app_assoc in Ht. cbn [app] in Ht. apply in_app_or in Ht. destruct Ht as [Ht|[Ht|Ht]].
        + apply Hold. apply in_or_app. left. exact Ht.
        + subst t. rewrite Eid. apply Hold. apply in_or_app. right. left. reflexivity.
        + apply Hold. apply in_or_app. right. right. exact Ht.
      - exact New1.
      - intros t Ht. apply in_app_or in Ht. destruct Ht as [Ht|[Ht|[]]]; [specialize (Hcov t Ht); lia|subst t; exact L2].
      - exact W1.
      - exact W01.
      - exact I01.
      - intros n' nw' A1 A2 A3 A4. apply Hk; [lia|rewrite A2; exact R1|rewrite A3; exact S1|exact A4]. }
    destruct (tm_deadline ev >? now) eqn:Efut.
    { apply (Hmove ev _ n N); try reflexivity; try assumption.
      - destruct (nw >? tm_deadline ev) eqn:E; lia.
      - destruct (nw >? tm_deadline ev) eqn:E; lia. }
    (* due: the callback runs, then the registration is advanced or removed *)
    assert (Hafter : forall (ret : bool) n1 N1,
              n_timers n1 = D ++ ev :: rest ++ N1 -> (forall t, In t N1 -> id0 <= tm_id t) -> (N1 <> [] -> w0 < n_wakes n1) ->
              w0 <= n_wakes n1 -> id0 <= n_nextid n1 ->
              n_rcv n1 = n_rcv n -> n_snd n1 = n_snd n ->
              post P (if ret
                      then timer_pass rest now (if nw >? advance_deadline (tm_deadline ev) (tm_delta ev) now
                                                then advance_deadline (tm_deadline ev) (tm_delta ev) now else nw)
                             (set_timers n1 (upd_timer_deadline (n_timers n1) (tm_id ev)
                                               (advance_deadline (tm_deadline ev) (tm_delta ev) now))) k
                      else if timer_in ev (n_timers n1)
                           then timer_pass rest now nw (set_timers n1 (remove_first ev (n_timers n1))) k
                           else timer_pass rest now nw n1 k)).
    { intros ret n1 N1 T1 New1 W1 W01 I01 R1 S1.
      assert (HidR1 : forall t, In t (rest ++ N1) -> tm_id t <> tm_id ev).
      { intros t Ht E. apply in_app_or in Ht. destruct Ht as [Ht|Ht].
        - apply (HidR t); [apply in_or_app; left; exact Ht|exact E].
        - specialize (New1 t Ht). lia. }
      destruct ret.
      - set (dl := advance_deadline (tm_deadline ev) (tm_delta ev) now).
        apply (Hmove (with_deadline ev dl) _ _ N1); try reflexivity; try assumption.
        + destruct (nw >? dl) eqn:E; lia.
        + cbn [with_deadline tm_deadline]. destruct (nw >? dl) eqn:E; lia.
        + cbn [n_timers set_timers]. rewrite T1. apply upd_split; assumption.
      - assert (Hin1 : In ev (n_timers n1)) by (rewrite T1; apply in_or_app; right; left; reflexivity).
        rewrite (timer_in_self _ _ Hin1).
        destruct (timer_in ev D) eqn:ED.
        + (* a value-equal twin earlier in the list is the one list.remove takes: this registration stays, and is covered
             because the twin was *)
          assert (Erf : remove_first ev (n_timers n1) = remove_first ev D ++ ev :: rest ++ N1).
          { rewrite T1. apply remove_first_app_in. exact ED. }
          unfold timer_in in ED. apply existsb_exists in ED. destruct ED as [x [Hx Ex]].
          apply (IH (remove_first ev D ++ [ev]) N1).
          * cbn [n_timers set_timers]. rewrite Erf. rewrite <- app_assoc. reflexivity.
          * rewrite <- app_assoc. cbn [app].
            assert (E2 : remove_first ev D ++ ev :: rest = remove_first ev (D ++ ev :: rest)).
            { symmetry. apply remove_first_app_in. unfold timer_in. apply existsb_exists. exists x. split; assumption. }
            rewrite E2. apply NoDup_ids_remove_first. exact Hnd.
          * intros t Ht. rewrite <- app_assoc in Ht. cbn [app] in Ht. apply in_app_or in Ht. destruct Ht as [Ht|Ht].
            -- apply Hold. apply in_or_app. left. apply (In_remove_first ev). exact Ht.
            -- apply Hold. apply in_or_app. right. exact Ht.
          * exact New1.
          * intros t Ht. apply in_app_or in Ht. destruct Ht as [Ht|[Ht|[]]].
            -- apply Hcov. apply (In_remove_first ev). exact Ht.
            -- subst t. rewrite <- (timer_eqb_deadline _ _ Ex). apply Hcov. exact Hx.
          * cbn [n_wakes set_timers]. exact W1.
          * cbn [n_wakes set_timers]. exact W01.
          * cbn [n_nextid set_timers]. exact I01.
          * intros n' nw' A1 A2 A3 A4. apply Hk; [lia|rewrite A2; exact R1|rewrite A3; exact S1|exact A4].
        + assert (Erf : remove_first ev (n_timers n1) = D ++ rest ++ N1).
          { rewrite T1. rewrite remove_first_app_out by exact ED. cbn [remove_first]. rewrite timer_eqb_refl. reflexivity. }
          apply (IH D N1).
          * cbn [n_timers set_timers]. exact Erf.
          * rewrite map_app in *. cbn [map] in Hnd. apply NoDup_remove_1 in Hnd. exact Hnd.
          * intros t Ht. apply Hold. apply in_app_or in Ht. apply in_or_app. destruct Ht as [Ht|Ht]; [left; exact Ht|right; right; exact Ht].
          * exact New1.
          * exact Hcov.
          * cbn [n_wakes set_timers]. exact W1.
          * cbn [n_wakes set_timers]. exact W01.
          * cbn [n_nextid set_timers]. exact I01.
          * intros n' nw' A1 A2 A3 A4. apply Hk; [lia|rewrite A2; exact R1|rewrite A3; exact S1|exact A4]. }
    cbv zeta.
    destruct (tm_cb ev) as [cid|i].
    + apply post_emit. apply (Hafter (tm_ret ev) n N); try reflexivity; assumption.
    + apply claim_async_frame. intros n1 t T1 It Id1 W1 R1 S1.
      apply (Hafter false n1 (N ++ [t])).
      * rewrite T1, HT. rewrite <- !app_assoc. reflexivity.
      * intros t' Ht'. apply in_app_or in Ht'. destruct Ht' as [Ht'|[Ht'|[]]]; [apply Hnew; exact Ht'|].
        subst t'. rewrite It. exact Hid0.
      * intros _. rewrite W1. lia.
      * rewrite W1. lia.
      * rewrite Id1. lia.
      * exact R1.
      * exact S1.
Qed.
End Pass.

(* ---------------------------------------------------------------- one whole iteration of the job loop *)
Definition timers_wf (n : node) : Prop :=
  NoDup (map tm_id (n_timers n)) /\ forall t, In t (n_timers n) -> tm_id t < n_nextid n.

Definition all_covered (n0 n' : node) (nw : Z) : Prop :=
  rcv_covered n' nw /\ snd_covered n' nw /\
  (forall t, In t (n_timers n') -> nw <= tm_deadline t \/ n_wakes n0 < n_wakes n').

(* T12.7: the sleep the job thread computes ends not later than the deadline of any session still open and any timer still
   registered; for a registration made during the pass a wake-up token is pending.  (Ids are the model's stand-in for the
   identity of the registration dicts: distinct and below the counter — add_timer keeps that.) *)
Theorem job_iter_never_oversleeps n now :
  tnodup (n_rcv n) -> tnodup (n_snd n) -> timers_wf n ->
  match flat (job_iter n now) with
  | (n', _, RDone r) => r <= 5000000 /\ all_covered n n' (now + r)
  | (_, _, RRaise _) => True
  end.
Proof.
  intros Hr Hs [Hnd Hlt]. unfold job_iter.
  apply (dll_job_never_oversleeps (fun n' r => r <= 5000000 /\ all_covered n n' (now + r))); [exact Hr|exact Hs|].
  intros n1 nw1 L1 T1 R1 S1.
  unfold tm_part in T1. injection T1 as ET EI EW.
  apply (timer_pass_cover (fun n' r => r <= 5000000 /\ all_covered n n' (now + r)) now (n_nextid n1) (n_wakes n1)
                          (n_timers n1) [] [] nw1 n1).
  - cbn [app]. rewrite app_nil_r. reflexivity.
  - cbn [app]. rewrite ET. exact Hnd.
  - cbn [app]. intros t Ht. rewrite ET in Ht. rewrite EI. apply Hlt. exact Ht.
  - intros t [].
  - intros t [].
  - intros H. exfalso. apply H. reflexivity.
  - lia.
  - lia.
  - intros n2 nw2 L2 R2 S2 C2. apply post_done. split; [lia|].
    replace (now + (nw2 - now)) with nw2 by lia. split; [|split].
    + intros key b Hg Hd. rewrite R2 in Hg. specialize (R1 key b Hg Hd). lia.
    + intros key b Hg Hd. rewrite S2 in Hg. specialize (S1 key b Hg Hd). lia.
    + intros t Ht. rewrite <- EW. apply C2. exact Ht.
Qed.

Lemma NoDup_snoc (l : list Z) x : NoDup l -> ~ In x l -> NoDup (l ++ [x]).
Proof.
  induction l as [|y r IH]; intros Hnd Hni; cbn [app]; [constructor; [intros []|constructor]|].
  inversion Hnd as [|? ? Hy Hr]; subst. constructor.
  - intro Hin. apply in_app_or in Hin. destruct Hin as [Hin|[E|[]]]; [apply Hy; exact Hin|apply Hni; left; symmetry; exact E].
  - apply IH; [exact Hr|intro H; apply Hni; right; exact H].
Qed.

(* add_timer keeps the registrations well-formed *)
Lemma add_timer_wf n now delta cb ret : timers_wf n -> timers_wf (add_timer n now delta cb ret).
Proof.
  intros [Hnd Hlt]. unfold timers_wf, add_timer. cbn. split.
  - rewrite map_app. cbn [map tm_id]. apply NoDup_snoc; [exact Hnd|].
    intro Hin. apply in_map_iff in Hin. destruct Hin as [t [E Ht]]. specialize (Hlt t Ht). lia.
  - intros t Ht. apply in_app_or in Ht. destruct Ht as [Ht|[Ht|[]]]; [specialize (Hlt t Ht); lia|subst t; cbn; lia].
Qed.

Example job_iter_example :
  let n := add_timer (add_timer (init_node 1 None None) 0 1000 (TApp 1) true) 0 5000 (TApp 2) false in
  timers_wf n /\ fres (job_iter n 1000) = RDone 1000 /\ fres (job_iter n 300) = RDone 700.
Proof. split; [|split; vm_compute; reflexivity]. apply add_timer_wf. apply add_timer_wf. split; [constructor|intros t []]. Qed.

(* ---------------------------------------------------------------- the premise is an invariant *)
Lemma wf_upd n id dl : timers_wf n -> timers_wf (set_timers n (upd_timer_deadline (n_timers n) id dl)).
Proof.
  intros [Hnd Hlt]. unfold timers_wf. cbn [n_timers n_nextid set_timers]. unfold upd_timer_deadline.
  assert (E : map tm_id (map (fun t => if tm_id t =? id
                 then {| tm_delta := tm_delta t; tm_cb := tm_cb t; tm_deadline := dl; tm_ret := tm_ret t; tm_id := tm_id t |}
                 else t) (n_timers n)) = map tm_id (n_timers n)).
  { rewrite map_map. apply map_ext. intros t. destruct (tm_id t =? id); reflexivity. }
  split; [rewrite E; exact Hnd|].
  intros t Ht. apply in_map_iff in Ht. destruct Ht as [t0 [Et Ht0]]. specialize (Hlt t0 Ht0).
  destruct (tm_id t0 =? id); subst t; cbn [tm_id]; exact Hlt.
Qed.
Lemma wf_remove_first n ev : timers_wf n -> timers_wf (set_timers n (remove_first ev (n_timers n))).
Proof.
  intros [Hnd Hlt]. unfold timers_wf. cbn [n_timers n_nextid set_timers]. split.
  - apply NoDup_ids_remove_first. exact Hnd.
  - intros t Ht. apply Hlt. apply (In_remove_first ev). exact Ht.
Qed.
Lemma wf_same n n' : n_timers n' = n_timers n -> n_nextid n' = n_nextid n -> timers_wf n -> timers_wf n'.
Proof. intros Et Ei [Hnd Hlt]. unfold timers_wf. rewrite Et, Ei. split; assumption. Qed.

Lemma timer_pass_wf P now : forall snap nw n k,
  timers_wf n -> (forall n' nw', timers_wf n' -> post P (k n' nw')) -> post P (timer_pass snap now nw n k).
Proof.
  induction snap as [|ev rest IH]; intros nw n k Hwf Hk; cbn [timer_pass]; [apply Hk; exact Hwf|].
  destruct (negb (timer_in ev (n_timers n))); [apply IH; assumption|].
  destruct (tm_deadline ev >? now); [apply IH; assumption|].
  assert (Hafter : forall (ret : bool) n1, timers_wf n1 ->
            post P (if ret
                    then timer_pass rest now (if nw >? advance_deadline (tm_deadline ev) (tm_delta ev) now
                                              then advance_deadline (tm_deadline ev) (tm_delta ev) now else nw)
                           (set_timers n1 (upd_timer_deadline (n_timers n1) (tm_id ev)
                                             (advance_deadline (tm_deadline ev) (tm_delta ev) now))) k
                    else if timer_in ev (n_timers n1)
                         then timer_pass rest now nw (set_timers n1 (remove_first ev (n_timers n1))) k
                         else timer_pass rest now nw n1 k)).
  { intros ret n1 H1. destruct ret; [apply IH; [apply wf_upd; exact H1|exact Hk]|].
    destruct (timer_in ev (n_timers n1)); apply IH; try exact Hk; [apply wf_remove_first; exact H1|exact H1]. }
  cbv zeta. destruct (tm_cb ev) as [cid|i].
  - apply post_emit. apply (Hafter (tm_ret ev) n). exact Hwf.
  - apply claim_async_frame. intros n1 t T1 It Id1 W1 R1 S1. apply (Hafter false n1).
    destruct Hwf as [Hnd Hlt]. unfold timers_wf. rewrite T1, Id1. split.
    + rewrite map_app. cbn [map]. apply NoDup_snoc; [exact Hnd|]. rewrite It.
      intro Hin. apply in_map_iff in Hin. destruct Hin as [t0 [E Ht0]]. specialize (Hlt t0 Ht0). lia.
    + intros t' Ht'. apply in_app_or in Ht'. destruct Ht' as [Ht'|[Ht'|[]]]; [specialize (Hlt t' Ht'); lia|subst t'; lia].
Qed.

(* the registrations stay well-formed over job iterations, add_timer and remove_timer: the premise of T12.7 holds in every
   state these operations reach from a node without timers *)
Theorem job_iter_keeps_wf n now : tnodup (n_rcv n) -> tnodup (n_snd n) -> timers_wf n ->
  match flat (job_iter n now) with (n', _, RDone _) => timers_wf n' | (_, _, RRaise _) => True end.
Proof.
  intros Hr Hs Hwf. unfold job_iter.
  apply (dll_job_never_oversleeps (fun n' _ => timers_wf n')); [exact Hr|exact Hs|].
  intros n1 nw1 L1 T1 R1 S1. unfold tm_part in T1. injection T1 as ET EI EW.
  apply timer_pass_wf; [apply (wf_same n n1); assumption|].
  intros n2 nw2 H2. apply post_done. exact H2.
Qed.

Lemma remove_timer_wf n cb : timers_wf n -> timers_wf (remove_timer n cb).
Proof.
  intros [Hnd Hlt]. unfold timers_wf, remove_timer. cbn [n_timers n_nextid wake set_timers].
  set (victims := filter (fun t => tcb_eqb (tm_cb t) cb) (n_timers n)). clearbody victims.
  revert Hnd Hlt. generalize (n_timers n) as l. induction victims as [|v vs IH]; intros l Hnd Hlt; cbn [fold_left]; [split; assumption|].
  apply IH; [apply NoDup_ids_remove_first; exact Hnd|intros t Ht; apply Hlt; apply (In_remove_first v); exact Ht].
Qed.

Lemma init_wf maxp civ biv : timers_wf (init_node maxp civ biv).
Proof. split; [constructor|intros t []]. Qed.

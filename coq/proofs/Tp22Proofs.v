(* Tp22Proofs.v — C06/C02 (J1939-22): exact payload or nothing on the FD responder.
   * a data frame whose segment number is not the expected one changes nothing (so after a lost segment every later
     segment is ignored and the collected data stays short)
   * no data frame ever delivers, and the collected data grows by at most the frame's payload
   * the end-of-message status delivers iff size, segment count and collected length all agree with the announcement,
     and then exactly the collected bytes, once per matching subscriber; otherwise nothing is delivered and a
     connection-mode session is aborted; in both cases the session is released
   * hence ANY sequence of FD data frames carrying fewer bytes than announced, followed by ANY end-of-message
     status, delivers nothing *)
From J1939 Require Import Base CodecGlue Model21 Model22.
From J1939.gen Require Import Codec Tp21Gen CaGen Tp22Gen.
From J1939P Require Import CodecProofs Flat TimeoutProofs MpgProofs PoolProofs.
Local Arguments Z.add : simpl never.
Local Arguments Z.sub : simpl never.
Local Arguments Z.mul : simpl never.

Definition payload22 (data : list Z) : list Z := skipn 4 data.

(* what a data frame may do to the session stored under ANY key h0 *)
Lemma dt22_effect prio sa dest data now m h0 b0 :
  tget (f_rcv m) h0 = Some b0 ->
  let a := process_tp_dt22 prio sa dest data now m in
  no_delivery (fouts22 a) /\
  exists b', tget (f_rcv (fnode22 a)) h0 = Some b' /\ q_size b' = q_size b0 /\ q_nseg b' = q_nseg b0 /\ q_pgn b' = q_pgn b0 /\
             len (q_data b') <= len (q_data b0) + len (payload22 data) /\
             (len (q_data b0) <= q_size b0 -> len (q_data b') <= q_size b0).
Proof.
  intros G0 a. unfold a, process_tp_dt22, fouts22, fnode22.
  assert (Hpl : 0 <= len (payload22 data)) by (unfold len; lia).
  assert (Hsame : no_delivery [] /\ exists b', tget (f_rcv m) h0 = Some b' /\ q_size b' = q_size b0 /\ q_nseg b' = q_nseg b0 /\ q_pgn b' = q_pgn b0 /\
             len (q_data b') <= len (q_data b0) + len (payload22 data) /\ (len (q_data b0) <= q_size b0 -> len (q_data b') <= q_size b0)).
  { split; [reflexivity|]. exists b0. repeat split; try assumption; try lia. }
  destruct (length data <=? 4)%nat; [exact Hsame|].
  destruct (tp22_dt_segment_num data =? 0); [exact Hsame|].
  set (h := tp22_hash (tp22_dt_session_num data) sa dest).
  destruct (tget (f_rcv m) h) as [b|] eqn:G; [|exact Hsame].
  destruct (negb (q_next b =? tp22_dt_segment_num data)); [exact Hsame|].
  (* the frame is the expected segment of session h *)
  assert (Hcase : forall (bx : rbuf22) m',
            (h = h0 -> q_size bx = q_size b /\ q_nseg bx = q_nseg b /\ q_pgn bx = q_pgn b /\
                       len (q_data bx) <= len (q_data b) + len (payload22 data) /\ (len (q_data b) <= q_size b -> len (q_data bx) <= q_size b)) ->
            tget (f_rcv m') h = Some bx -> (forall k, k <> h -> tget (f_rcv m') k = tget (f_rcv m) k) ->
            exists b', tget (f_rcv m') h0 = Some b' /\ q_size b' = q_size b0 /\ q_nseg b' = q_nseg b0 /\ q_pgn b' = q_pgn b0 /\
                       len (q_data b') <= len (q_data b0) + len (payload22 data) /\ (len (q_data b0) <= q_size b0 -> len (q_data b') <= q_size b0)).
  { intros bx m' Hbx Hg Ho. destruct (Z.eq_dec h h0) as [E|N].
    - subst h0. rewrite G in G0. inversion G0; subst b0. exists bx. split; [exact Hg|]. apply Hbx. reflexivity.
    - exists b0. rewrite (Ho h0) by (intro E; apply N; symmetry; exact E). repeat split; try assumption; try lia. }
  assert (Happ : len (q_data b ++ payload22 data) = len (q_data b) + len (payload22 data)) by (unfold len; rewrite app_length; lia).
  fold (payload22 data).
  destruct (len (q_data b ++ payload22 data) >=? q_size b) eqn:Efull.
  - (* the announced size is reached: truncated to the size *)
    cbn [flat22 fst snd]. split; [reflexivity|].
    eapply Hcase; [|cbn [f_rcv wake22 with_base set_frcv]; apply tget_tset_same|intros k Hk; cbn [f_rcv wake22 with_base set_frcv]; apply tget_tset_other; intro E; apply Hk; symmetry; exact E].
    intros _. cbn [upd_q q_size q_nseg q_pgn q_data]. repeat split.
    + unfold len. rewrite firstn_length. unfold len in Happ, Efull. lia.
    + intros Hp. unfold len in *. rewrite firstn_length. lia.
  - (* still short *)
    assert (Hb1 : forall dl, h = h0 ->
              q_size (upd_q b (q_data b ++ payload22 data) (tp22_dt_segment_num data + 1) (q_border b) dl) = q_size b /\
              q_nseg (upd_q b (q_data b ++ payload22 data) (tp22_dt_segment_num data + 1) (q_border b) dl) = q_nseg b /\
              q_pgn (upd_q b (q_data b ++ payload22 data) (tp22_dt_segment_num data + 1) (q_border b) dl) = q_pgn b /\
              len (q_data (upd_q b (q_data b ++ payload22 data) (tp22_dt_segment_num data + 1) (q_border b) dl)) <= len (q_data b) + len (payload22 data) /\
              (len (q_data b) <= q_size b -> len (q_data (upd_q b (q_data b ++ payload22 data) (tp22_dt_segment_num data + 1) (q_border b) dl)) <= q_size b)).
    { intros dl _. cbn [upd_q q_size q_nseg q_pgn q_data]. repeat split; lia. }
    set (b1 := upd_q b (q_data b ++ payload22 data) (tp22_dt_segment_num data + 1) (q_border b) (q_deadline b)).
    set (m1 := set_frcv m (tset (f_rcv m) h b1)).
    assert (Hg1 : tget (f_rcv m1) h = Some b1) by (unfold m1; cbn [f_rcv set_frcv]; apply tget_tset_same).
    assert (Ho1 : forall k, k <> h -> tget (f_rcv m1) k = tget (f_rcv m) k).
    { intros k Hk. unfold m1. cbn [f_rcv set_frcv]. apply tget_tset_other. intro E; apply Hk; symmetry; exact E. }
    assert (Hset2 : forall bx, (h = h0 -> q_size bx = q_size b /\ q_nseg bx = q_nseg b /\ q_pgn bx = q_pgn b /\
                       len (q_data bx) <= len (q_data b) + len (payload22 data) /\ (len (q_data b) <= q_size b -> len (q_data bx) <= q_size b)) ->
              exists b', tget (f_rcv (set_frcv m1 (tset (f_rcv m1) h bx))) h0 = Some b' /\ q_size b' = q_size b0 /\ q_nseg b' = q_nseg b0 /\ q_pgn b' = q_pgn b0 /\
                       len (q_data b') <= len (q_data b0) + len (payload22 data) /\ (len (q_data b0) <= q_size b0 -> len (q_data b') <= q_size b0)).
    { intros bx Hbx. eapply Hcase; [exact Hbx|cbn [f_rcv set_frcv]; apply tget_tset_same|].
      intros k Hk. cbn [f_rcv set_frcv]. rewrite tget_tset_other by (intro E; apply Hk; symmetry; exact E). apply Ho1. exact Hk. }
    destruct (negb (dest =? addr_GLOBAL)).
    + destruct (q_border b) as [border|] eqn:Eb.
      * destruct (tp22_dt_segment_num data >=? border).
        -- destruct (q_maxrec b) as [mr|] eqn:Em.
           ++ cbn [flat22]. rewrite Hg1.
              assert (q_border b1 = Some border) as -> by (unfold b1; reflexivity).
              assert (q_maxrec b1 = Some mr) as -> by (unfold b1; cbn [upd_q q_maxrec]; exact Em).
              cbn [flat22 fst snd]. split; [reflexivity|].
              cbn [f_rcv wake22 with_base]. apply Hset2. intros _. cbn [upd_q q_size q_nseg q_pgn q_data]. unfold b1. cbn [upd_q q_data]. repeat split; lia.
           ++ cbn [flat22 fst snd]. split; [reflexivity|]. eapply Hcase; [apply Hb1|exact Hg1|exact Ho1].
        -- cbn [flat22 fst snd]. split; [reflexivity|]. apply Hset2. intros _. unfold b1. cbn [upd_q q_size q_nseg q_pgn q_data]. repeat split; lia.
      * cbn [flat22 fst snd]. split; [reflexivity|]. eapply Hcase; [apply Hb1|exact Hg1|exact Ho1].
    + cbn [flat22 fst snd]. split; [reflexivity|]. apply Hset2. intros _. unfold b1. cbn [upd_q q_size q_nseg q_pgn q_data]. repeat split; lia.
Qed.

(* a data frame out of sequence (a later segment after a lost one, a repeated one) changes nothing at all *)
Theorem dt22_out_of_sequence_ignored prio sa dest data now m b :
  tget (f_rcv m) (tp22_hash (tp22_dt_session_num data) sa dest) = Some b ->
  q_next b <> tp22_dt_segment_num data ->
  flat22 (process_tp_dt22 prio sa dest data now m) = (m, [], RDone 0).
Proof.
  intros G Hne. unfold process_tp_dt22.
  destruct (length data <=? 4)%nat; [reflexivity|].
  destruct (tp22_dt_segment_num data =? 0); [reflexivity|].
  rewrite G. assert (negb (q_next b =? tp22_dt_segment_num data) = true) as -> by lia. reflexivity.
Qed.

(* ---------------------------------------------------------------- end-of-message status *)
Definition eom_frame_ok (data : list Z) : Prop :=
  (12 <= length data)%nat /\ tp22_cm_control_byte data = tp22_ctl_EOM_STATUS.

Lemma ctl_eom_dispatch data : eom_frame_ok data ->
  (length data <? 12)%nat = false /\ (tp22_cm_control_byte data =? tp22_ctl_RTS) = false /\
  (tp22_cm_control_byte data =? tp22_ctl_CTS) = false /\ (tp22_cm_control_byte data =? tp22_ctl_EOM_STATUS) = true.
Proof. intros [H1 H2]. rewrite H2. repeat split; try reflexivity. apply Nat.ltb_ge. exact H1. Qed.

(* the status frame delivers iff everything agrees, and then exactly the collected bytes *)
Theorem eom_status_delivers_exactly prio sa dest data now m b :
  eom_frame_ok data ->
  let h := tp22_hash (tp22_cm_session_num data) sa dest in
  tget (f_rcv m) h = Some b ->
  q_size b = tp22_cm_message_size data -> q_nseg b = tp22_cm_segment_num data -> len (q_data b) = q_size b ->
  fouts22 (process_tp_cm22 prio sa dest data now m) =
    deliveries (base m) prio (q_pgn b) sa dest (q_data b) ++
    (if dest =? addr_GLOBAL then []
     else [OTx (tp22_eom_ack dest sa (tp22_cm_session_num data) (tp22_cm_message_size data) (tp22_cm_segment_num data) (q_pgn b))]) /\
  f_rcv (fnode22 (process_tp_cm22 prio sa dest data now m)) = tdel (f_rcv m) h.
Proof.
  intros Hok h G Hs Hn Hl. destruct (ctl_eom_dispatch data Hok) as (E0 & E1 & E2 & E3).
  unfold fouts22, fnode22, process_tp_cm22. rewrite E0, E1, E2, E3. fold h. rewrite G.
  assert ((q_size b =? tp22_cm_message_size data) && (q_nseg b =? tp22_cm_segment_num data) && (len (q_data b) =? tp22_cm_message_size data) = true) as -> by lia.
  rewrite flat22_notify_subscribers.
  destruct (dest =? addr_GLOBAL); cbn [negb flat22]; rewrite (tmem_get _ _ _ G); cbn [flat22 fst snd f_rcv set_frcv];
    rewrite ?app_nil_r; split; reflexivity.
Qed.

(* ... and delivers nothing otherwise: the session is released, a connection-mode peer is told *)
Theorem eom_status_mismatch_delivers_nothing prio sa dest data now m b :
  eom_frame_ok data ->
  let h := tp22_hash (tp22_cm_session_num data) sa dest in
  tget (f_rcv m) h = Some b ->
  ~ (q_size b = tp22_cm_message_size data /\ q_nseg b = tp22_cm_segment_num data /\ len (q_data b) = tp22_cm_message_size data) ->
  fouts22 (process_tp_cm22 prio sa dest data now m) =
    (if dest =? addr_GLOBAL then []
     else [OTx (tp22_abort dest sa (tp22_cm_session_num data) tp22_reason_RESOURCES (q_pgn b))]) /\
  f_rcv (fnode22 (process_tp_cm22 prio sa dest data now m)) = tdel (f_rcv m) h.
Proof.
  intros Hok h G Hne. destruct (ctl_eom_dispatch data Hok) as (E0 & E1 & E2 & E3).
  unfold fouts22, fnode22, process_tp_cm22. rewrite E0, E1, E2, E3. fold h. rewrite G.
  assert ((q_size b =? tp22_cm_message_size data) && (q_nseg b =? tp22_cm_segment_num data) && (len (q_data b) =? tp22_cm_message_size data) = false) as -> by lia.
  destruct (dest =? addr_GLOBAL); cbn [negb flat22]; rewrite (tmem_get _ _ _ G); cbn [flat22 fst snd f_rcv set_frcv]; split; reflexivity.
Qed.

(* a status frame for which no session is open does nothing *)
Theorem eom_status_without_session prio sa dest data now m :
  eom_frame_ok data -> tget (f_rcv m) (tp22_hash (tp22_cm_session_num data) sa dest) = None ->
  flat22 (process_tp_cm22 prio sa dest data now m) = (m, [], RDone 0).
Proof.
  intros Hok G. destruct (ctl_eom_dispatch data Hok) as (E0 & E1 & E2 & E3).
  unfold process_tp_cm22. rewrite E0, E1, E2, E3, G. reflexivity.
Qed.

(* ---------------------------------------------------------------- any data frames, then any status frame *)
Fixpoint feed_dt22 (prio sa dest : Z) (frames : list (list Z * Z)) (m : node22) : node22 * list out :=
  match frames with
  | [] => (m, [])
  | (data, now) :: fs =>
      let a := process_tp_dt22 prio sa dest data now m in
      let '(m2, o2) := feed_dt22 prio sa dest fs (fnode22 a) in (m2, fouts22 a ++ o2)
  end.

Lemma feed_dt22_effect prio sa dest h0 : forall frames m b0,
  tget (f_rcv m) h0 = Some b0 ->
  no_delivery (snd (feed_dt22 prio sa dest frames m)) /\
  exists b', tget (f_rcv (fst (feed_dt22 prio sa dest frames m))) h0 = Some b' /\ q_size b' = q_size b0 /\
             len (q_data b') <= len (q_data b0) + fold_right (fun f acc => len (payload22 (fst f)) + acc) 0 frames.
Proof.
  induction frames as [|[data now] fs IH]; intros m b0 G0; cbn [feed_dt22 fold_right fst snd].
  - split; [reflexivity|]. exists b0. repeat split; try assumption; lia.
  - destruct (dt22_effect prio sa dest data now m h0 b0 G0) as (Hnd & b1 & G1 & Hs1 & _ & _ & Hl1 & _).
    destruct (IH (fnode22 (process_tp_dt22 prio sa dest data now m)) b1 G1) as (Hnd2 & b2 & G2 & Hs2 & Hl2).
    destruct (feed_dt22 prio sa dest fs (fnode22 (process_tp_dt22 prio sa dest data now m))) as [m2 o2]. cbn [fst snd] in *.
    split; [unfold no_delivery in *; rewrite forallb_app, Hnd, Hnd2; reflexivity|].
    exists b2. split; [exact G2|]. split; [congruence|]. lia.
Qed.

(* T06.1 (FD): exact payload or nothing.  Whatever FD data frames arrive for a session (any segment numbers, any
   order, any repetition, any instants) — if together they carry fewer bytes than the announced size (at least one
   segment lost), then neither they nor ANY end-of-message status that follows deliver anything to any listener *)
Theorem fd_lost_segment_never_delivers prio sa dest frames eom now m b0 :
  eom_frame_ok eom ->
  let h := tp22_hash (tp22_cm_session_num eom) sa dest in
  tget (f_rcv m) h = Some b0 ->
  len (q_data b0) + fold_right (fun f acc => len (payload22 (fst f)) + acc) 0 frames < q_size b0 ->
  let '(m1, o1) := feed_dt22 prio sa dest frames m in
  no_delivery (o1 ++ fouts22 (process_tp_cm22 prio sa dest eom now m1)).
Proof.
  intros Hok h G0 Hlt.
  destruct (feed_dt22_effect prio sa dest h frames m b0 G0) as (Hnd & b1 & G1 & Hs1 & Hl1).
  destruct (feed_dt22 prio sa dest frames m) as [m1 o1]. cbn [fst snd] in *.
  unfold no_delivery in *. rewrite forallb_app, Hnd. cbn [andb].
  destruct (eom_status_mismatch_delivers_nothing prio sa dest eom now m1 b1 Hok G1) as [Ho _].
  { intros (A & _ & C). lia. }
  rewrite Ho. destruct (dest =? addr_GLOBAL); reflexivity.
Qed.

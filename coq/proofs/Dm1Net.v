(* Dm1Net.v — C16 end to end on the J1939-21 layer: a DM1 with 2 .. 445 trouble codes (10 .. 1782 bytes, i.e. every DM1 that needs
   the transport protocol and fits it) handed to send_pgn as the Dm1 service does — PGN 0xFECA (PDU2), priority 7 — runs through
   the broadcast closed loop of two model nodes and reaches every listener on the other node as ONE payload which parses back to
   exactly the lamp states and the trouble codes, in order.  Composition of the broadcast closed loop (Net21Bam.v, generalised to
   PDU2 groups) with the DM1 payload round trip (DiagProofs.v). *)
From J1939 Require Import Base CodecGlue Model21 Dm1Model.
From J1939.gen Require Import Codec Tp21Gen CaGen DiagGen.
From J1939P Require Import CodecProofs Flat Tp21Seg Net21 Net21Bam DiagProofs.

Theorem dm1_over_broadcast_end_to_end pl awl rsl mil dtcs sa t0 A0 B0 :
  lamp_state pl -> lamp_state awl -> lamp_state rsl -> lamp_state mil -> Forall dtc_ok dtcs ->
  (2 <= length dtcs <= 445)%nat -> 0 <= sa < 255 -> 0 < t0 ->
  0 < n_bam_iv A0 < tp21_T1 ->
  n_snd A0 = [] /\ n_rcv A0 = [] /\ n_timers A0 = [] ->
  n_snd B0 = [] /\ n_rcv B0 = [] /\ n_timers B0 = [] ->
  let p := dm1_build pl awl rsl mil dtcs in
  dm1_priority p = 7 /\
  exists j, let s := steps j (net_send (net0 A0 B0 t0) 0 254 202 (dm1_priority p) sa p) in
    qa s = [] /\ qb s = [] /\ n_snd (na s) = [] /\ n_rcv (na s) = [] /\ n_snd (nb s) = [] /\ n_rcv (nb s) = [] /\
    evb s = deliveries B0 7 65226 sa addr_GLOBAL p /\
    dm1_parse p = Some ([pl; awl; rsl; mil], dtcs).
Proof.
  intros Hpl Hawl Hrsl Hmil Hok Hn Hsa Ht0 Hiv HA HB p.
  assert (Hne : dtcs <> []) by (destruct dtcs; [cbn in Hn; lia|discriminate]).
  destruct (dm1_roundtrip pl awl rsl mil dtcs Hpl Hawl Hrsl Hmil Hne Hok) as (Hparse & Hlen).
  fold p in Hparse, Hlen.
  assert (Hlp : 8 < len p <= 1785) by (unfold len; rewrite Hlen; lia).
  assert (Hprio : dm1_priority p = 7).
  { unfold dm1_priority. unfold len in Hlp. destruct (Z.of_nat (length p) >? 8) eqn:E; [reflexivity|lia]. }
  split; [exact Hprio|]. rewrite Hprio.
  destruct (bam_closed_loop_delivers_any 7 sa 0 254 202 p t0 A0 B0 ltac:(lia) Hsa ltac:(right; lia) ltac:(lia) Hlp Ht0 Hiv HA HB)
    as (j & Q1 & Q2 & Q3 & Q4 & Q5 & Q6 & Q7 & _).
  exists j. cbv zeta. repeat split; try assumption.
Qed.

Example dm1_over_broadcast_instance :
  let A := init_node 3 None None in
  let B := subscribe (init_node 2 None None) 7 FNone in
  let dtcs := [{| d_spn := 100; d_fmi := 3; d_oc := 1 |}; {| d_spn := 524287; d_fmi := 31; d_oc := 127 |}] in
  let p := dm1_build 1 0 4 2 dtcs in
  evb (steps 10 (net_send (net0 A B 1000) 0 254 202 (dm1_priority p) 32 p)) = [OCb 7 7 65226 32 p] /\
  dm1_parse p = Some ([1; 0; 4; 2], dtcs).
Proof. vm_compute. split; reflexivity. Qed.

(* ---------------------------------------------------------------- the same on the J1939-22 layer *)
From J1939 Require Import Model22.
From J1939.gen Require Import Tp22Gen.
From J1939P Require Import MpgProofs Net22 Net22Proofs Net22Bam.

(* a DM1 with 15 or more trouble codes (more than 60 bytes: an FD broadcast) reaches every listener of the other FD node as one
   payload that parses back to exactly the lamp states and the codes; the broadcast session number is back in the pool *)
Theorem dm1_over_fd_broadcast_end_to_end pl awl rsl mil dtcs sa t0 A0 B0 :
  lamp_state pl -> lamp_state awl -> lamp_state rsl -> lamp_state mil -> Forall dtc_ok dtcs ->
  15 <= Z.of_nat (length dtcs) < 4194303 -> 0 <= sa < 255 -> 0 < t0 ->
  0 < f_bam_iv A0 < tp22_T1 -> 2 * f_bam_iv A0 < tp22_T1 ->
  f_snd A0 = [] /\ f_rcv A0 = [] /\ f_mpg A0 = [] /\ n_timers (base A0) = [] /\ f_bam A0 = repeat true tp22_pool_bam ->
  f_snd B0 = [] /\ f_rcv B0 = [] /\ f_mpg B0 = [] /\ n_timers (base B0) = [] ->
  let p := dm1_build pl awl rsl mil dtcs in
  dm1_priority p = 7 /\
  exists j, let s := steps22 j (net22_send (net22_0 A0 B0 t0) 0 254 202 (dm1_priority p) sa p) in
    pa s = [] /\ pb s = [] /\ f_snd (fa s) = [] /\ f_rcv (fa s) = [] /\ f_snd (fb s) = [] /\ f_rcv (fb s) = [] /\
    f_bam (fa s) = repeat true tp22_pool_bam /\
    evb2 s = deliveries (base B0) 7 65226 sa addr_GLOBAL p /\
    dm1_parse p = Some ([pl; awl; rsl; mil], dtcs).
Proof.
  intros Hpl Hawl Hrsl Hmil Hok Hn Hsa Ht0 Hiv Hiv2 HA HB p.
  assert (Hne : dtcs <> []) by (destruct dtcs; [cbn in Hn; lia|discriminate]).
  destruct (dm1_roundtrip pl awl rsl mil dtcs Hpl Hawl Hrsl Hmil Hne Hok) as (Hparse & Hlen).
  fold p in Hparse, Hlen.
  assert (Hlp : 60 < len p < 16777216).
  { unfold len. rewrite Hlen. rewrite Nat2Z.inj_add, Nat2Z.inj_mul. change (Z.of_nat 2) with 2. change (Z.of_nat 4) with 4. lia. }
  assert (Hprio : dm1_priority p = 7).
  { unfold dm1_priority. unfold len in Hlp. destruct (Z.of_nat (length p) >? 8) eqn:E; [reflexivity|lia]. }
  split; [exact Hprio|]. rewrite Hprio.
  destruct (bam_closed_loop22_delivers_any 7 sa 0 254 202 p t0 A0 B0 ltac:(lia) Hsa ltac:(right; lia) ltac:(lia) Hlp Ht0 Hiv Hiv2 HA HB)
    as (j & Q1 & Q2 & Q3 & Q4 & Q5 & Q6 & Q7 & Q8 & _).
  exists j. cbv zeta. repeat split; try assumption.
Qed.

(* FrameLocal.v — C01/C05 (J1939-21): transfers on different (source, destination) pairs do not interact.
   Every transport frame touches at most ONE session: the receive session keyed by (SA, DA) of the frame (RTS, BAM, DT)
   or the send session keyed by (DA, SA) (CTS, EndOfMsgACK, abort).  Every other receive and send session — its data,
   counters, state, deadline — is exactly as before, whatever the frame contains.  With the role theorems (which
   describe one pair) this gives the concurrent case of C01: any set of transfers on distinct pairs proceeds as if each
   were alone, for every interleaving of their frames. *)
From J1939 Require Import Base CodecGlue Model21.
From J1939.gen Require Import Codec Tp21Gen CaGen.
From J1939P Require Import CodecProofs Flat.
Local Arguments Z.add : simpl never.
Local Arguments Z.sub : simpl never.
Local Arguments Z.mul : simpl never.

(* what a handler may have done to the two session tables: only the entry [kr] of the receive table and the entry
   [ks] of the send table can differ *)
Definition touches_only (kr ks : option Z) (n n' : node) : Prop :=
  (forall h, Some h <> kr -> tget (n_rcv n') h = tget (n_rcv n) h) /\
  (forall h, Some h <> ks -> tget (n_snd n') h = tget (n_snd n) h).

Lemma touches_refl kr ks n : touches_only kr ks n n.
Proof. split; intros; reflexivity. Qed.

Lemma touches_trans kr ks n1 n2 n3 : touches_only kr ks n1 n2 -> touches_only kr ks n2 n3 -> touches_only kr ks n1 n3.
Proof. intros [A B] [C D]. split; intros h Hh; [rewrite C, A|rewrite D, B]; auto. Qed.

Lemma touches_wake kr ks n : touches_only kr ks n (wake n).
Proof. split; intros; reflexivity. Qed.

Lemma touches_set_rcv h b ks n : touches_only (Some h) ks n (set_rcv n (tset (n_rcv n) h b)).
Proof.
  split; intros k Hk; cbn [n_rcv n_snd set_rcv]; [|reflexivity].
  apply tget_tset_other. intro E. apply Hk. f_equal. symmetry. exact E.
Qed.
Lemma touches_del_rcv h ks n : touches_only (Some h) ks n (set_rcv n (tdel (n_rcv n) h)).
Proof.
  split; intros k Hk; cbn [n_rcv n_snd set_rcv]; [|reflexivity].
  apply tget_tdel_other. intro E. apply Hk. f_equal. symmetry. exact E.
Qed.
Lemma touches_set_snd h b kr n : touches_only kr (Some h) n (set_snd n (tset (n_snd n) h b)).
Proof.
  split; intros k Hk; cbn [n_rcv n_snd set_snd]; [reflexivity|].
  apply tget_tset_other. intro E. apply Hk. f_equal. symmetry. exact E.
Qed.

(* final state of a resumption in the flat semantics *)
Definition ends (P : node -> Prop) (a : act node) : Prop := P (fnode a).
Lemma ends_done (P : node -> Prop) s r : P s -> ends P (Done s r). Proof. intros H; exact H. Qed.
Lemma ends_raise (P : node -> Prop) s e : P s -> ends P (Raise s e). Proof. intros H; exact H. Qed.
Lemma ends_emit (P : node -> Prop) s o k : ends P (k s) -> ends P (Emit s o k).
Proof. unfold ends, fnode. cbn [flat]. destruct (flat (k s)) as [[s' os] r]. auto. Qed.
Lemma ends_notify_subscribers (P : node -> Prop) prio pgn sa dest data n k : ends P (k n) -> ends P (notify_subscribers prio pgn sa dest data n k).
Proof. unfold ends, fnode. rewrite flat_notify_subscribers. destruct (flat (k n)) as [[s os] r]. auto. Qed.

(* ---------------------------------------------------------------- TP.CM *)
Theorem tp_cm_touches_one prio sa dest data now n :
  ends (touches_only (Some (tp21_hash sa dest)) (Some (tp21_hash dest sa)) n) (process_tp_cm prio sa dest data now n).
Proof.
  unfold process_tp_cm.
  destruct (length data <? 8)%nat; [apply ends_raise, touches_refl|].
  destruct (_ =? tp21_cm_RTS).
  { destruct (tmem (n_rcv n) _); apply ends_emit, ends_done; [apply touches_refl|].
    eapply touches_trans; [apply touches_set_rcv|apply touches_wake]. }
  destruct (_ =? tp21_cm_CTS).
  { destruct (tget (n_snd n) _) as [b|]; [|apply ends_emit, ends_done, touches_refl].
    destruct (_ =? 0); apply ends_done; (eapply touches_trans; [apply touches_set_snd|apply touches_wake]). }
  destruct (_ =? tp21_cm_EOM_ACK).
  { destruct (negb (tmem (n_snd n) _)); [apply ends_emit, ends_done, touches_refl|].
    apply ends_notify_subscribers.
    destruct (tget (n_snd n) _) as [b|]; [|apply ends_raise, touches_refl].
    apply ends_done. eapply touches_trans; [apply touches_set_snd|apply touches_wake]. }
  destruct (_ =? tp21_cm_BAM).
  { apply ends_done.
    destruct (tmem (n_rcv n) _).
    - eapply touches_trans; [eapply touches_trans; [apply touches_del_rcv|apply touches_wake]|].
      eapply touches_trans; [apply touches_set_rcv|apply touches_wake].
    - eapply touches_trans; [apply touches_set_rcv|apply touches_wake]. }
  destruct (_ =? tp21_cm_ABORT).
  { destruct (tget (n_snd n) _) as [b|]; [|apply ends_done, touches_refl].
    destruct (_ =? ST_WAITING_CTS); apply ends_done; [apply touches_set_snd|apply touches_refl]. }
  apply ends_raise, touches_refl.
Qed.

(* ---------------------------------------------------------------- TP.DT *)
Theorem tp_dt_touches_one prio sa dest data now n :
  ends (touches_only (Some (tp21_hash sa dest)) None n) (process_tp_dt prio sa dest data now n).
Proof.
  unfold process_tp_dt. destruct data as [|seqno rest]; [apply ends_raise, touches_refl|].
  set (h := tp21_hash sa dest).
  destruct (tget (n_rcv n) h) as [b|]; [|apply ends_done, touches_refl].
  assert (Hfin : forall n3, touches_only (Some h) None n n3 ->
            ends (touches_only (Some h) None n) (if tmem (n_rcv n3) h then Done (wake (set_rcv n3 (tdel (n_rcv n3) h))) 0 else Raise n3 E_Key)).
  { intros n3 H3. destruct (tmem (n_rcv n3) h); [apply ends_done|apply ends_raise; exact H3].
    eapply touches_trans; [exact H3|]. eapply touches_trans; [apply touches_del_rcv|apply touches_wake]. }
  destruct (len (r_data b ++ rest) >=? r_size b).
  - destruct (negb (dest =? addr_GLOBAL)); [apply ends_emit|]; apply ends_notify_subscribers; apply Hfin; apply touches_set_rcv.
  - destruct (negb (dest =? addr_GLOBAL) && (seqno >=? r_next b)).
    + destruct (r_maxrec b) as [mr|]; [|apply ends_raise, touches_set_rcv].
      apply ends_emit. cbn [n_rcv set_rcv]. rewrite tget_tset_same. cbn [upd_rbuf r_maxrec].
      destruct (r_maxrec b) as [mr2|]; [|apply ends_raise, touches_set_rcv].
      apply ends_done. eapply touches_trans; [apply touches_set_rcv|].
      eapply touches_trans; [apply touches_set_rcv|apply touches_wake].
    + apply ends_done. eapply touches_trans; [apply touches_set_rcv|].
      eapply touches_trans; [apply touches_set_rcv|apply touches_wake].
Qed.

(* the two pairs of a frame: distinct pairs have distinct keys (addresses are bytes) *)
Lemma hash21_injective a b c d :
  0 <= a < 256 -> 0 <= b < 256 -> 0 <= c < 256 -> 0 <= d < 256 ->
  tp21_hash a b = tp21_hash c d -> a = c /\ b = d.
Proof.
  intros Ha Hb Hc Hd. unfold tp21_hash. rewrite !land_255, !shiftl_mul by lia. pow2_norm.
  rewrite (lor_add_low (a mod 256 * 256) (b mod 256) 8) by (pow2_norm; lia).
  rewrite (lor_add_low (c mod 256 * 256) (d mod 256) 8) by (pow2_norm; lia). lia.
Qed.

(* T01.7: a transport frame of the pair (sa, dest) leaves the receive session of every OTHER pair (sa', dest') and
   the send session of every other pair exactly as it was *)
Corollary other_pairs_untouched_by_cm prio sa dest data now n sa' dest' :
  0 <= sa < 256 -> 0 <= dest < 256 -> 0 <= sa' < 256 -> 0 <= dest' < 256 ->
  (sa', dest') <> (sa, dest) ->
  tget (n_rcv (fnode (process_tp_cm prio sa dest data now n))) (tp21_hash sa' dest') = tget (n_rcv n) (tp21_hash sa' dest') /\
  tget (n_snd (fnode (process_tp_cm prio sa dest data now n))) (tp21_hash dest' sa') = tget (n_snd n) (tp21_hash dest' sa').
Proof.
  intros H1 H2 H3 H4 Hne. destruct (tp_cm_touches_one prio sa dest data now n) as [A B]. split.
  - apply A. intro E. inversion E as [E']. apply hash21_injective in E'; try assumption. destruct E'. apply Hne. congruence.
  - apply B. intro E. inversion E as [E']. apply hash21_injective in E'; try assumption. destruct E'. apply Hne. congruence.
Qed.

Corollary other_pairs_untouched_by_dt prio sa dest data now n sa' dest' :
  0 <= sa < 256 -> 0 <= dest < 256 -> 0 <= sa' < 256 -> 0 <= dest' < 256 ->
  (sa', dest') <> (sa, dest) ->
  tget (n_rcv (fnode (process_tp_dt prio sa dest data now n))) (tp21_hash sa' dest') = tget (n_rcv n) (tp21_hash sa' dest') /\
  (forall h, tget (n_snd (fnode (process_tp_dt prio sa dest data now n))) h = tget (n_snd n) h).
Proof.
  intros H1 H2 H3 H4 Hne. destruct (tp_dt_touches_one prio sa dest data now n) as [A B]. split; [|intros h; apply B; discriminate].
  apply A. intro E. inversion E as [E']. apply hash21_injective in E'; try assumption. destruct E'. apply Hne. congruence.
Qed.

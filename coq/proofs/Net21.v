(* Net21.v — two model nodes on one bus: the closed loop of a J1939-21 connection-mode transfer.
   Executable definitions only (the theorems are in Net21Proofs.v).
   One step of the network:
   * a frame waiting for B is handled by B's stack (notify), its transmissions queue up for A; else
   * a frame waiting for A is handled by A's stack, its transmissions queue up for B; else
   * both job threads run one iteration at the current time; the clock advances (by the shorter of the two sleeps) only
     when that produced no frame and no wake-up token.
   Frame handling takes no time; frames are delivered in the order they were sent (one FIFO per direction). *)
From J1939 Require Import Base CodecGlue Model21.
From J1939.gen Require Import Codec Tp21Gen CaGen.
From J1939P Require Import Flat.

Record net := { na : node; nb : node; qa : list frame; qb : list frame; clk : Z;
                eva : list out; evb : list out;          (* callbacks invoked on A / on B *)
                wab : list frame; wba : list frame }.    (* the wire, per direction, in order *)

Definition txs (os : list out) : list frame :=
  flat_map (fun o => match o with OTx f => [f] | _ => [] end) os.
Definition evs (os : list out) : list out :=
  filter (fun o => match o with OTx _ => false | _ => true end) os.

Definition handle (n : node) (t : Z) (f : frame) : node * list out :=
  let '(n', os, _) := flat (notify n t (f_id f) (f_data f)) in (n', os).
Definition sleep_of (r : res) : Z := match r with RDone v => v | RRaise _ => 0 end.

Definition step (s : net) : net :=
  match qb s with
  | f :: r =>
      let '(n', os) := handle (nb s) (clk s) f in
      {| na := na s; nb := n'; qa := qa s ++ txs os; qb := r; clk := clk s;
         eva := eva s; evb := evb s ++ evs os; wab := wab s; wba := wba s ++ txs os |}
  | [] =>
      match qa s with
      | f :: r =>
          let '(n', os) := handle (na s) (clk s) f in
          {| na := n'; nb := nb s; qa := r; qb := txs os; clk := clk s;
             eva := eva s ++ evs os; evb := evb s; wab := wab s ++ txs os; wba := wba s |}
      | [] =>
          let '(a', oa, ra) := flat (job_iter (na s) (clk s)) in
          let '(b', ob, rb) := flat (job_iter (nb s) (clk s)) in
          let quiet := match txs oa, txs ob with [], [] => true | _, _ => false end in
          let dt := if quiet && (n_wakes a' =? n_wakes (na s)) && (n_wakes b' =? n_wakes (nb s))
                    then Z.max 0 (Z.min (sleep_of ra) (sleep_of rb)) else 0 in
          {| na := a'; nb := b'; qa := txs ob; qb := txs oa; clk := clk s + dt;
             eva := eva s ++ evs oa; evb := evb s ++ evs ob; wab := wab s ++ txs oa; wba := wba s ++ txs ob |}
      end
  end.

Fixpoint steps (k : nat) (s : net) : net := match k with O => s | S k' => steps k' (step s) end.

(* the application on A calls send_pgn at the current time *)
Definition net_send (s : net) (dp pf ps prio sa : Z) (data : list Z) : net :=
  let '(a', os, _) := flat (send_pgn (na s) (clk s) dp pf ps prio sa data) in
  {| na := a'; nb := nb s; qa := qa s; qb := qb s ++ txs os; clk := clk s;
     eva := eva s ++ evs os; evb := evb s; wab := wab s ++ txs os; wba := wba s |}.

Definition net0 (a b : node) (t0 : Z) : net :=
  {| na := a; nb := b; qa := []; qb := []; clk := t0; eva := []; evb := []; wab := []; wba := [] |}.

(* quiescent: nothing queued, no transport session open on either side *)
Definition quiet (s : net) : bool :=
  match qa s, qb s, n_snd (na s), n_rcv (na s), n_snd (nb s), n_rcv (nb s) with
  | [], [], [], [], [], [] => true | _, _, _, _, _, _ => false end.

(* WireProofs.v — C03 (J1939-21): the generated frame builders equal the independent SAE encoders; the
   generated field extractions applied to SAE-encoded frames return the encoded fields. *)
From J1939 Require Import Base CodecGlue Model21 Sae21.
From J1939.gen Require Import Codec Tp21Gen CaGen.
From J1939P Require Import CodecProofs Flat Tp21Seg Tp21Resp Tp21Orig.

Lemma id_of_spec prio pf da sa :
  0 <= prio < 8 -> 0 <= pf < 256 -> 0 <= da < 256 -> 0 <= sa < 256 ->
  mid_can_id_of prio (pgn_value_of 0 pf da) sa = sae_id prio (pf * 256 + da) sa.
Proof.
  intros Hp Hf Hd Hs. rewrite T15_3_pgn_value. unfold mid_can_id_of, mid_mk. bits_to_arith.
  rewrite can_id_arith by lia. unfold sae_id. lia.
Qed.

Lemma pgn3 p : [Z.land p 255; Z.land (Z.shiftr p 8) 255; Z.land (Z.shiftr p 16) 255] = le3 p.
Proof. unfold le3. rewrite !land_255. rewrite !shiftr_div by lia. pow2_norm. reflexivity. Qed.
Lemma size2 s : [Z.land s 255; Z.land (Z.shiftr s 8) 255] = le2 s.
Proof. unfold le2. rewrite !land_255. rewrite !shiftr_div by lia. pow2_norm. reflexivity. Qed.

(* T03.1: builders = spec encoders (identifier and data) *)
Theorem rts_is_spec sa da prio pgn size n limit :
  0 <= prio < 8 -> 0 <= da < 256 -> 0 <= sa < 256 ->
  tp21_rts sa da prio pgn size n limit =
  {| f_id := sae_id prio (sae_tp_cm_pgn da) sa; f_ext := true; f_fd := false; f_data := enc_cm (RTS size n limit pgn) |}.
Proof.
  intros. unfold tp21_rts. rewrite id_of_spec by lia. unfold sae_tp_cm_pgn. cbn [enc_cm app].
  f_equal. change (236 * 256 + da) with (60416 + da).
  pose proof (size2 size) as E2. pose proof (pgn3 pgn) as E3. unfold le2, le3 in *.
  inversion E2. inversion E3. reflexivity.
Qed.
Theorem cts_is_spec sa da n next pgn :
  0 <= da < 256 -> 0 <= sa < 256 ->
  tp21_cts sa da n next pgn =
  {| f_id := sae_id 7 (sae_tp_cm_pgn da) sa; f_ext := true; f_fd := false; f_data := enc_cm (CTS n next pgn) |}.
Proof.
  intros. unfold tp21_cts. rewrite id_of_spec by lia. cbn [enc_cm app]. f_equal.
  pose proof (pgn3 pgn) as E3. unfold le3 in *. inversion E3. reflexivity.
Qed.
Theorem eom_ack_is_spec sa da size n pgn :
  0 <= da < 256 -> 0 <= sa < 256 ->
  tp21_eom_ack sa da size n pgn =
  {| f_id := sae_id 7 (sae_tp_cm_pgn da) sa; f_ext := true; f_fd := false; f_data := enc_cm (EOMA size n pgn) |}.
Proof.
  intros. unfold tp21_eom_ack. rewrite id_of_spec by lia. cbn [enc_cm app]. f_equal.
  pose proof (size2 size) as E2. pose proof (pgn3 pgn) as E3. unfold le2, le3 in *. inversion E2. inversion E3. reflexivity.
Qed.
Theorem bam_is_spec sa prio pgn size n :
  0 <= prio < 8 -> 0 <= sa < 256 ->
  tp21_bam sa prio pgn size n =
  {| f_id := sae_id prio (sae_tp_cm_pgn 255) sa; f_ext := true; f_fd := false; f_data := enc_cm (BAM size n pgn) |}.
Proof.
  intros. unfold tp21_bam. rewrite id_of_spec by lia. cbn [enc_cm app]. f_equal.
  pose proof (size2 size) as E2. pose proof (pgn3 pgn) as E3. unfold le2, le3 in *. inversion E2. inversion E3. reflexivity.
Qed.
Theorem abort_is_spec sa da reason pgn :
  0 <= da < 256 -> 0 <= sa < 256 ->
  tp21_abort sa da reason pgn =
  {| f_id := sae_id 7 (sae_tp_cm_pgn da) sa; f_ext := true; f_fd := false; f_data := enc_cm (ABORT reason pgn) |}.
Proof.
  intros. unfold tp21_abort. rewrite id_of_spec by lia. cbn [enc_cm app]. f_equal.
  pose proof (pgn3 pgn) as E3. unfold le3 in *. inversion E3. reflexivity.
Qed.
(* DT: identifier, 1-based sequence number, 7 bytes, 0xFF padding *)
Theorem dt_is_spec sa da p (k : nat) :
  0 <= da < 256 -> 0 <= sa < 256 ->
  tp21_dt sa da (dt_payload p (Z.of_nat k)) =
  {| f_id := sae_id 7 (sae_tp_dt_pgn da) sa; f_ext := true; f_fd := false; f_data := enc_dt (Z.of_nat k + 1) (seg7 p k) |}.
Proof.
  intros. unfold tp21_dt. rewrite id_of_spec by lia. rewrite dt_payload_spec. reflexivity.
Qed.

(* T03.2: the stack's field extraction reads back what the spec encoder wrote (each side tied to the spec separately) *)
Theorem extraction_of_spec_frames m :
  cm_wf m ->
  let d := enc_cm m in
  length d = 8%nat /\
  match m with
  | RTS s n l p => tp21_cm_control d = tp21_cm_RTS /\ tp21_cm_pgn d = p /\ tp21_rts_message_size d = s /\
                   tp21_rts_num_packages d = n /\ tp21_rts_max_num_packages d = l
  | CTS n x p => tp21_cm_control d = tp21_cm_CTS /\ tp21_cm_pgn d = p /\ tp21_cts_num_packages d = n /\
                 tp21_cts_next_package_number d = x - 1
  | EOMA s n p => tp21_cm_control d = tp21_cm_EOM_ACK /\ tp21_cm_pgn d = p
  | BAM s n p => tp21_cm_control d = tp21_cm_BAM /\ tp21_cm_pgn d = p /\ tp21_bam_message_size d = s /\
                 tp21_bam_num_packages d = n
  | ABORT r p => tp21_cm_control d = tp21_cm_ABORT /\ tp21_cm_pgn d = p
  end.
Proof.
  destruct m; cbn [cm_wf enc_cm le2 le3 app]; intros H; cbv zeta; (split; [reflexivity|]);
    unfold tp21_cm_control, tp21_cm_pgn, tp21_rts_message_size, tp21_rts_num_packages, tp21_rts_max_num_packages,
      tp21_cts_num_packages, tp21_cts_next_package_number, tp21_bam_message_size, tp21_bam_num_packages, byte_at;
    cbn [nth]; repeat split; try reflexivity; try (apply le24; lia); try (apply le16; lia).
Qed.

(* the spec decoder inverts the spec encoder, so by rts_is_spec etc. every TP.CM frame the stack emits
   decodes, under the independent layout, to the fields it was built from *)
Theorem stack_frames_decode m : cm_wf m -> dec_cm (enc_cm m) = Some m.
Proof. exact (dec_enc_cm m). Qed.

(* T03.3 *)
Theorem identifier_layout prio pf da sa :
  0 <= prio < 8 -> 0 <= pf < 256 -> 0 <= da < 256 -> 0 <= sa < 256 ->
  mid_can_id_of prio (pgn_value_of 0 pf da) sa = prio * 67108864 + pf * 65536 + da * 256 + sa.
Proof. intros. rewrite id_of_spec by lia. unfold sae_id. lia. Qed.

(* FlowProofs.v — soundness of the pool-flow checker (FlowDefs.leakfree): if it accepts a skeleton then on EVERY path
   through it the function is never left (return, raise) while holding a session number that was neither handed to a
   stored session nor given back — whichever way the conditions turn out. *)
From J1939 Require Import Base FlowDefs.

Inductive outcome := Term (h : bool) | Fall (h : bool).

(* every path through a skeleton, from a holding state to an outcome; conditions are free *)
Inductive exec : fl -> bool -> outcome -> Prop :=
| XSkip h : exec FSkip h (Fall h)
| XEnd h : exec FEnd h (Term false)
| XRet h : exec FRet h (Term h)
| XRaise h : exec FRaise h (Term h)
| XStore h : exec FStore h (Fall false)
| XPut h : exec FPut h (Fall false)
| XMark h : exec FMark h (Fall true)
| XGetOk fail h : exec (FGet fail) h (Fall true)
| XGetFail fail h o : exec fail h o -> exec (FGet fail) h o
| XSeqT a b h hh : exec a h (Term hh) -> exec (FSeq a b) h (Term hh)
| XSeqF a b h h1 o : exec a h (Fall h1) -> exec b h1 o -> exec (FSeq a b) h o
| XAltL a b h o : exec a h o -> exec (FAlt a b) h o
| XAltR a b h o : exec b h o -> exec (FAlt a b) h o.

Definition covers (r : option bool) (o : outcome) : Prop :=
  match o with
  | Term hh => hh = false
  | Fall hh => exists hr, r = Some hr /\ (hh = true -> hr = true)
  end.

Lemma covers_merge_l ra rb o : covers ra o -> covers (merge ra rb) o.
Proof.
  destruct o as [hh|hh]; cbn; [auto|]. intros (hr & -> & H). destruct rb as [b|]; cbn.
  - exists (hr || b). split; [reflexivity|]. intros E. rewrite (H E). reflexivity.
  - exists hr. split; [reflexivity|exact H].
Qed.
Lemma covers_merge_r ra rb o : covers rb o -> covers (merge ra rb) o.
Proof.
  destruct o as [hh|hh]; cbn; [auto|]. intros (hr & -> & H). destruct ra as [a|]; cbn.
  - exists (a || hr). split; [reflexivity|]. intros E. rewrite (H E). apply orb_true_r.
  - exists hr. split; [reflexivity|exact H].
Qed.

(* soundness, for an actual holding state below the one the checker assumed *)
Theorem leakfree_sound : forall t hc r, leakfree hc t = Some r ->
  forall ha o, (ha = true -> hc = true) -> exec t ha o -> covers r o.
Proof.
  induction t as [| | | | | | |fail IH|a IHa b IHb|a IHa b IHb]; intros hc r H ha o Hle X; cbn [leakfree] in H.
  - inversion H; subst. inversion X; subst. cbn. exists hc. split; [reflexivity|exact Hle].
  - inversion H; subst. inversion X; subst. cbn. reflexivity.
  - destruct hc; [discriminate|]. inversion H; subst. inversion X; subst. cbn. destruct ha; [specialize (Hle eq_refl); discriminate|reflexivity].
  - destruct hc; [discriminate|]. inversion H; subst. inversion X; subst. cbn. destruct ha; [specialize (Hle eq_refl); discriminate|reflexivity].
  - inversion H; subst. inversion X; subst. cbn. exists false. split; [reflexivity|auto].
  - inversion H; subst. inversion X; subst. cbn. exists false. split; [reflexivity|auto].
  - inversion H; subst. inversion X; subst. cbn. exists true. split; [reflexivity|auto].
  - destruct hc; [discriminate|]. destruct (leakfree false fail) as [rf|] eqn:Ef; [|discriminate]. inversion H; subst.
    inversion X; subst.
    + refine (covers_merge_l (Some true) rf (Fall true) _). cbn. exists true. split; [reflexivity|auto].
    + refine (covers_merge_r (Some true) rf o _). apply (IH false rf Ef ha o Hle). assumption.
  - destruct (leakfree hc a) as [[h1c|]|] eqn:Ea; try discriminate.
    + inversion X; subst.
      * match goal with Ht : exec a _ (Term _) |- _ => pose proof (IHa hc _ Ea ha _ Hle Ht) as C end. cbn in C. subst. cbn. reflexivity.
      * match goal with Hf : exec a _ (Fall ?x), Hb : exec b ?x _ |- _ =>
          pose proof (IHa hc _ Ea ha _ Hle Hf) as C; cbn in C; destruct C as (hr & E & Hh); inversion E; subst;
          apply (IHb hr r H x o Hh Hb) end.
    + inversion H; subst. inversion X; subst.
      * match goal with Ht : exec a _ (Term _) |- _ => pose proof (IHa hc _ Ea ha _ Hle Ht) as C end. cbn in C. subst. cbn. reflexivity.
      * match goal with Hf : exec a _ (Fall _) |- _ => pose proof (IHa hc _ Ea ha _ Hle Hf) as C end. cbn in C. destruct C as (hr & E & _). discriminate.
  - destruct (leakfree hc a) as [ra|] eqn:Ea; [|discriminate]. destruct (leakfree hc b) as [rb|] eqn:Eb; [|discriminate].
    inversion H; subst. inversion X; subst.
    + refine (covers_merge_l ra rb o _). apply (IHa hc ra Ea ha o Hle). assumption.
    + refine (covers_merge_r ra rb o _). apply (IHb hc rb Eb ha o Hle). assumption.
Qed.

(* T10.6: a function whose skeleton the checker accepts never returns or raises while holding a session number that is
   neither owned by a stored session nor back in the pool — on any path, whatever its conditions evaluate to *)
Corollary flow_ok_no_leak t : flow_ok t = true -> forall hh, exec t false (Term hh) -> hh = false.
Proof.
  unfold flow_ok. destruct (leakfree false t) as [r|] eqn:E; [|discriminate]. intros _ hh X.
  exact (leakfree_sound t false r E false (Term hh) (fun H => H) X).
Qed.

(* the checker rejects the shape of the seeded defect: a refusal after the number has been taken *)
Example flow_rejects_return_after_get :
  flow_ok (FSeq (FGet FRet) (FSeq (FAlt FRet FSkip) (FSeq FStore FRet))) = false /\
  flow_ok (FSeq (FGet FRet) (FSeq FStore FRet)) = true.
Proof. split; reflexivity. Qed.

(* ConserveProofs.v — C10/C02 (J1939-22): the originator capacity is conserved over ANY history.
   Inv m = every originator session holds the taken flag of its own number in the pool of its kind, numbers of one
           kind are pairwise different, keys are the hashes of (session, src, dst), the pools have 8 and 4 flags,
           and (no leak) every taken flag is held by a session.
   [guar P a]: every final state of the resumption [a] satisfies P, WHATEVER the receive path of the same stack did
   to the state between an emission and its continuation (re-entrant delivery with zero latency, pre-emption by the
   receive thread): the interference is any change that keeps [skel] — exactly what [inbound_guar] shows every
   received frame to be.
   Theorems: every handler (send_pgn, notify of ANY frame, one job-thread iteration) started in an Inv state ends
   in an Inv state under that interference; hence Inv holds after any sequence of handlers from the initial state;
   an idle stack (no originator session) has every flag free. *)
From J1939 Require Import Base CodecGlue Model21 Model22.
From J1939.gen Require Import Codec Tp21Gen CaGen Tp22Gen.
From J1939P Require Import CodecProofs Flat MpgProofs PoolProofs.
Local Arguments Z.add : simpl never.
Local Arguments Z.sub : simpl never.
Local Arguments Z.mul : simpl never.

Fixpoint guar (P : node22 -> Prop) (a : act node22) : Prop :=
  match a with
  | Done s _ => P s
  | Raise s _ => P s
  | Emit s o k => forall s', skel s' = skel s -> guar P (k s')
  end.

Lemma guar_flat P a : guar P a -> P (fnode22 a).
Proof.
  unfold fnode22. induction a as [s r|s e|s o k IH]; cbn [guar flat22]; intros H; [exact H|exact H|].
  specialize (IH s (H s eq_refl)). destruct (flat22 (k s)) as [[s1 o1] r1]. exact IH.
Qed.

Lemma guar_mono (P Q : node22 -> Prop) a : (forall s, P s -> Q s) -> guar P a -> guar Q a.
Proof.
  intros HPQ. induction a as [s r|s e|s o k IH]; cbn [guar]; intros H; [apply HPQ; exact H|apply HPQ; exact H|].
  intros s' Hs'. apply IH. apply H. exact Hs'.
Qed.

(* ---------------------------------------------------------------- resumptions that keep skel, under interference *)
Definition rk (s0 : list (Z * Z * Z * Z) * list bool * list bool) (a : act node22) : Prop :=
  guar (fun s => skel s = s0) a.

Lemma rk_emit s0 m o k : skel m = s0 -> (forall m', skel m' = s0 -> rk s0 (k m')) -> rk s0 (Emit m o k).
Proof. intros Hm Hk. unfold rk. cbn [guar]. intros s' Hs'. apply Hk. rewrite Hs'. exact Hm. Qed.

Lemma rk_lift s0 : forall (a : act node) m k,
  skel m = s0 -> (forall m' r, skel m' = s0 -> rk s0 (k m' r)) -> rk s0 (lift m a k).
Proof.
  induction a as [s r|s e|s o c IH]; intros m k Hm Hk; cbn [lift].
  - apply Hk. rewrite skel_with_base. exact Hm.
  - unfold rk. cbn [guar]. rewrite skel_with_base. exact Hm.
  - apply rk_emit; [rewrite skel_with_base; exact Hm|]. intros m' Hm'. apply IH; [exact Hm'|exact Hk].
Qed.

Lemma rk_notify_subscribers s0 prio pgn sa dest data m k :
  skel m = s0 -> (forall m', skel m' = s0 -> rk s0 (k m')) -> rk s0 (notify_subscribers22 prio pgn sa dest data m k).
Proof. intros Hm Hk. unfold notify_subscribers22. apply rk_lift; [exact Hm|]. intros m' _ H. apply Hk. exact H. Qed.

Lemma rk_tp_dt s0 prio sa dest data now m : skel m = s0 -> rk s0 (process_tp_dt22 prio sa dest data now m).
Proof.
  intros Hm. unfold process_tp_dt22.
  destruct (length data <=? 4)%nat; [exact Hm|].
  destruct (tp22_dt_segment_num data =? 0); [exact Hm|].
  destruct (tget (f_rcv m) _) as [b|]; [|exact Hm].
  destruct (negb (q_next b =? _)); [exact Hm|].
  destruct (len (q_data b ++ skipn 4 data) >=? q_size b); [exact Hm|].
  destruct (negb (dest =? addr_GLOBAL)) eqn:G.
  - destruct (q_border b) as [bd|]; [|exact Hm].
    destruct (tp22_dt_segment_num data >=? bd); [|exact Hm].
    destruct (q_maxrec b) as [mr|] eqn:Em; [|exact Hm].
    apply rk_emit; [exact Hm|]. intros m' Hm'.
    destruct (tget (f_rcv m') _) as [b2|]; [|exact Hm'].
    destruct (q_border b2); [|exact Hm']. destruct (q_maxrec b2); exact Hm'.
  - exact Hm.
Qed.

Lemma rk_tp_cm s0 prio sa dest data now m : skel m = s0 -> rk s0 (process_tp_cm22 prio sa dest data now m).
Proof.
  intros Hm. unfold process_tp_cm22.
  destruct (length data <? 12)%nat; [exact Hm|].
  destruct (_ =? tp22_ctl_RTS).
  { destruct (tmem (f_rcv m) _); (apply rk_emit; [exact Hm|]); intros m' Hm'; exact Hm'. }
  destruct (_ =? tp22_ctl_CTS).
  { destruct (tget (f_snd m) _) as [b|] eqn:G; [|apply rk_emit; [exact Hm|intros m' Hm'; exact Hm']].
    destruct (byte_at data 7 =? 0); unfold rk; cbn [guar]; rewrite skel_wake22, (skel_upd m _ b) by (try exact G; reflexivity); exact Hm. }
  destruct (_ =? tp22_ctl_EOM_STATUS).
  { destruct (tget (f_rcv m) _) as [b|]; [|exact Hm].
    assert (Hfin : forall m', skel m' = s0 ->
              rk s0 (if tmem (f_rcv m') (tp22_hash (tp22_cm_session_num data) sa dest)
                     then Done (set_frcv m' (tdel (f_rcv m') (tp22_hash (tp22_cm_session_num data) sa dest))) 0
                     else Raise m' E_Key)).
    { intros m' H'. destruct (tmem (f_rcv m') _); exact H'. }
    destruct ((q_size b =? _) && _ && _).
    - apply rk_notify_subscribers; [exact Hm|]. intros m' H'.
      destruct (negb (dest =? addr_GLOBAL)); [apply rk_emit; [exact H'|exact Hfin]|apply Hfin; exact H'].
    - destruct (negb (dest =? addr_GLOBAL)); [apply rk_emit; [exact Hm|exact Hfin]|apply Hfin; exact Hm]. }
  destruct (_ =? tp22_ctl_EOM_ACK).
  { destruct (negb (tmem (f_snd m) _)); [apply rk_emit; [exact Hm|intros m' Hm'; exact Hm']|].
    apply rk_notify_subscribers; [exact Hm|]. intros m' H'.
    destruct (tget (f_snd m') _) as [b|] eqn:G; [|exact H'].
    unfold rk; cbn [guar]. rewrite skel_wake22, (skel_upd m' _ b) by (try exact G; reflexivity). exact H'. }
  destruct (_ =? tp22_ctl_BAM).
  { unfold rk; cbn [guar]. rewrite skel_wake22, skel_set_frcv. destruct (tmem (f_rcv m) _); exact Hm. }
  destruct (_ =? tp22_ctl_ABORT).
  { destruct (tget (f_snd m) _) as [b|] eqn:G; [|exact Hm].
    destruct (t_state b =? tp22_st_WAITING_CTS); [|exact Hm].
    unfold rk; cbn [guar]. rewrite (skel_upd m _ b) by (try exact G; reflexivity). exact Hm. }
  exact Hm.
Qed.

Lemma rk_multi_pg s0 : forall fuel prio sa dest data m, skel m = s0 -> rk s0 (process_multi_pg fuel prio sa dest data m).
Proof.
  induction fuel as [|f IH]; intros prio sa dest data m Hm; cbn [process_multi_pg]; [exact Hm|].
  destruct (length data <=? 4)%nat; [exact Hm|].
  destruct (mpg_parse_header data) as [[[tos tf] cpgn] plen].
  destruct (tos =? 0); [exact Hm|].
  destruct ((tos =? 2) && (tf =? 0)); [|apply IH; exact Hm].
  apply rk_notify_subscribers; [exact Hm|]. intros m' H'. apply IH. exact H'.
Qed.

Lemma rk_claim_fanout s0 : forall cnt i sa data m, skel m = s0 -> rk s0 (claim_fanout22 i cnt sa data m).
Proof.
  induction cnt as [|c IH]; intros i sa data m Hm; cbn [claim_fanout22]; [exact Hm|].
  apply rk_lift; [exact Hm|]. intros m' _ H'. apply IH. exact H'.
Qed.

Lemma guar_catch P (a : act node22) : guar P a -> guar P (catch a).
Proof.
  induction a as [s r|s e|s o k IH]; cbn [catch guar]; intros H; [exact H|exact H|].
  intros s' Hs'. apply IH. apply H. exact Hs'.
Qed.

(* T10.2, interference-closed: a received frame — ANY identifier, ANY data — keeps skel even when further frames
   are handled re-entrantly between its emissions and their continuations *)
Theorem inbound_guar m now can_id data : rk (skel m) (notify22 m now can_id data).
Proof.
  unfold notify22.
  destruct (mid_parse can_id) as [[prio pgnf] sa]. destruct (pgn_from_mid pgnf) as [[dp pf] ps].
  destruct (negb (ps =? addr_GLOBAL) && _ && _ && _); [reflexivity|].
  destruct (_ =? pgn_FEFF_MULTI_PG); [apply rk_multi_pg; reflexivity|].
  destruct (_ =? pgn_ADDRESSCLAIM); [apply rk_claim_fanout; reflexivity|].
  destruct (_ =? pgn_REQUEST); [apply rk_lift; [reflexivity|intros m' r H; exact H]|].
  destruct (_ =? pgn_FD_TP_CM); [apply rk_tp_cm; reflexivity|].
  destruct (_ =? pgn_FD_TP_DT); [apply rk_tp_dt; reflexivity|].
  destruct ((_ =? pgn_TP_CM) || _); [reflexivity|].
  destruct (pgn_is_pdu2 pf); apply rk_notify_subscribers; try reflexivity; intros m' H; exact H.
Qed.

Theorem inbound_guar_listener m now can_id ext remote err data :
  rk (skel m) (listener22 m now can_id ext remote err data).
Proof.
  unfold listener22. destruct (err || remote || negb ext); [reflexivity|].
  apply guar_catch. apply inbound_guar.
Qed.

(* ---------------------------------------------------------------- the conservation invariant *)
Definition no_leak (m : node22) : Prop :=
  (forall i, nth_error (f_rts m) i = Some false ->
     exists h b, tget (f_snd m) h = Some b /\ (t_dst b =? addr_GLOBAL) = false /\ t_session b = Z.of_nat i) /\
  (forall i, nth_error (f_bam m) i = Some false ->
     exists h b, tget (f_snd m) h = Some b /\ (t_dst b =? addr_GLOBAL) = true /\ t_session b = Z.of_nat i).

Definition Inv (m : node22) : Prop := pool_inv m /\ keys_ok m /\ no_leak m.

Lemma no_leak_skel m m' : skel m' = skel m -> no_leak m -> no_leak m'.
Proof.
  unfold skel. intros E [L1 L2]. inversion E as [[E1 E2 E3]]. split.
  - intros i Hi. rewrite E2 in Hi. destruct (L1 i Hi) as (h & b & G & D & S).
    destruct (skel_tget _ _ (eq_sym E1) h b G) as (b' & G' & Hs & Hd & _).
    exists h, b'. split; [exact G'|]. rewrite Hs, Hd. split; assumption.
  - intros i Hi. rewrite E3 in Hi. destruct (L2 i Hi) as (h & b & G & D & S).
    destruct (skel_tget _ _ (eq_sym E1) h b G) as (b' & G' & Hs & Hd & _).
    exists h, b'. split; [exact G'|]. rewrite Hs, Hd. split; assumption.
Qed.

Theorem Inv_skel m m' : skel m' = skel m -> Inv m -> Inv m'.
Proof.
  intros E (I & K & L). split; [|split].
  - apply (pool_inv_skel m m' E I).
  - apply (keys_ok_skel m m' E K).
  - apply (no_leak_skel m m' E L).
Qed.

Lemma nth_error_repeat_true n i b : nth_error (repeat true n) i = Some b -> b = true.
Proof. revert i. induction n as [|n IH]; intros [|i] H; cbn in H; try discriminate; [congruence|apply (IH i H)]. Qed.

Theorem Inv_init maxp civ biv : Inv (init_node22 maxp civ biv).
Proof.
  split; [apply pool_inv_init|]. split; [apply keys_ok_init|].
  unfold no_leak, init_node22. cbn [f_rts f_bam f_snd]. split; intros i Hi; apply nth_error_repeat_true in Hi; discriminate.
Qed.

(* an idle stack has its whole capacity: no originator session => every flag of both pools is free *)
Lemma all_true_nth (l : list bool) : (forall i, nth_error l i <> Some false) -> Forall (fun b => b = true) l.
Proof.
  induction l as [|b r IH]; intros H; constructor.
  - destruct b; [reflexivity|]. exfalso. apply (H 0%nat). reflexivity.
  - apply IH. intros i. apply (H (S i)).
Qed.

Theorem idle_has_full_capacity m : Inv m -> f_snd m = [] ->
  Forall (fun b => b = true) (f_rts m) /\ length (f_rts m) = tp22_pool_rts /\
  Forall (fun b => b = true) (f_bam m) /\ length (f_bam m) = tp22_pool_bam.
Proof.
  intros (_ & (_ & K2 & K3) & [L1 L2]) He. rewrite He in L1, L2.
  split; [|split; [exact K2|split; [|exact K3]]]; apply all_true_nth; intros i Hi.
  - destruct (L1 i Hi) as (h & b & G & _). discriminate.
  - destruct (L2 i Hi) as (h & b & G & _). discriminate.
Qed.

(* ---------------------------------------------------------------- allocation / release keep Inv *)
Lemma map_proj_tset_congr (t t' : tbl sbuf22) h b : map proj t = map proj t' -> map proj (tset t h b) = map proj (tset t' h b).
Proof.
  revert t'. induction t as [|[k v] r IH]; intros [|[k' v'] r'] E; try discriminate; [reflexivity|].
  cbn [map] in E. inversion E as [[E1 E2 E3 E4 E5]]. unfold proj in E1. cbn [fst snd] in E1. subst k'.
  cbn [tset]. destruct (k =? h); cbn [map]; [f_equal; exact E5|]. f_equal; [|apply IH; exact E5].
  unfold proj. cbn [fst snd]. unfold proj in E2, E3, E4. cbn [fst snd] in E2, E3, E4. congruence.
Qed.

Lemma map_proj_tdel_congr (t t' : tbl sbuf22) h : map proj t = map proj t' -> map proj (tdel t h) = map proj (tdel t' h).
Proof.
  revert t'. induction t as [|[k v] r IH]; intros [|[k' v'] r'] E; try discriminate; [reflexivity|].
  cbn [map] in E. inversion E as [[E1 E2 E3 E4 E5]]. unfold proj in E1. cbn [fst snd] in E1. subst k'.
  cbn [tdel]. destruct (k =? h); [exact E5|]. cbn [map]. f_equal; [|apply IH; exact E5].
  unfold proj. cbn [fst snd]. unfold proj in E2, E3, E4. cbn [fst snd] in E2, E3, E4. congruence.
Qed.

Lemma upd_nth_false_inv (l : list bool) : forall i j, nth_error (upd_nth l i true) j = Some false -> nth_error l j = Some false /\ i <> j.
Proof.
  induction l as [|y r IH]; intros [|i] [|j] H; cbn in *; try discriminate; try (split; [exact H|lia]).
  destruct (IH i j H) as [A B]. split; [exact A|lia].
Qed.

Lemma upd_nth_false_cases (l : list bool) : forall i j, nth_error (upd_nth l i false) j = Some false ->
  (i = j /\ (i < length l)%nat) \/ nth_error l j = Some false.
Proof.
  induction l as [|y r IH]; intros [|i] [|j] H; cbn in *; try discriminate; try (right; exact H); try (left; split; [reflexivity|lia]).
  destruct (IH i j H) as [[A B]|C]; [left; split; lia|right; exact C].
Qed.

Theorem Inv_alloc m s pool' sa dest b :
  Inv m -> 0 <= sa < 256 -> 0 <= dest < 256 ->
  pool_get (if dest =? addr_GLOBAL then f_bam m else f_rts m) 0 = Some (s, pool') ->
  t_session b = s -> t_dst b = dest -> t_src b = sa ->
  let m0 := if dest =? addr_GLOBAL then set_fbam m pool' else set_frts m pool' in
  Inv (set_fsnd m0 (tset (f_snd m0) (tp22_hash s sa dest) b)).
Proof.
  intros (I & K & [L1 L2]) Hsa Hd Hget Hs Hdst Hsrc m0.
  destruct (allocation_preserves m s pool' sa dest b I K Hsa Hd Hget Hs Hdst Hsrc) as (I' & K' & Hfresh).
  split; [exact I'|]. split; [exact K'|].
  destruct (pool_get_some _ _ _ _ Hget) as (Hrng & Htrue & Hpool & _). replace (s - 0) with s in * by lia.
  assert (Hsnd0 : f_snd m0 = f_snd m) by (unfold m0; destruct (dest =? addr_GLOBAL); reflexivity).
  assert (Hold : forall h0 b0, tget (f_snd m) h0 = Some b0 -> tget (tset (f_snd m) (tp22_hash s sa dest) b) h0 = Some b0).
  { intros h0 b0 G. rewrite tget_tset_other; [exact G|]. intro E. subst h0. rewrite Hfresh in G. discriminate. }
  unfold no_leak. cbn [f_snd f_rts f_bam set_fsnd]. rewrite Hsnd0. unfold m0.
  destruct (dest =? addr_GLOBAL) eqn:G; cbn [f_rts f_bam set_fbam set_frts]; split; intros i Hi.
  - destruct (L1 i Hi) as (h0 & b0 & G0 & D0 & S0). exists h0, b0. split; [apply Hold; exact G0|split; assumption].
  - rewrite Hpool in Hi. destruct (upd_nth_false_cases _ _ _ Hi) as [[A B]|C].
    + exists (tp22_hash s sa dest), b. rewrite tget_tset_same. split; [reflexivity|]. rewrite Hdst, G, Hs. split; [reflexivity|lia].
    + destruct (L2 i C) as (h0 & b0 & G0 & D0 & S0). exists h0, b0. split; [apply Hold; exact G0|split; assumption].
  - rewrite Hpool in Hi. destruct (upd_nth_false_cases _ _ _ Hi) as [[A B]|C].
    + exists (tp22_hash s sa dest), b. rewrite tget_tset_same. split; [reflexivity|]. rewrite Hdst, G, Hs. split; [reflexivity|lia].
    + destruct (L1 i C) as (h0 & b0 & G0 & D0 & S0). exists h0, b0. split; [apply Hold; exact G0|split; assumption].
  - destruct (L2 i Hi) as (h0 & b0 & G0 & D0 & S0). exists h0, b0. split; [apply Hold; exact G0|split; assumption].
Qed.

Lemma pool_put_some l s : 0 <= s -> (Z.to_nat s < length l)%nat -> pool_put l s = Some (upd_nth l (Z.to_nat s) true).
Proof.
  intros H0 H1. unfold pool_put. destruct (s <? 0) eqn:E; [lia|]. rewrite E.
  assert ((s >=? Z.of_nat (length l)) = false) as -> by lia. reflexivity.
Qed.

(* deleting a session and returning its number to the pool of its kind *)
Theorem Inv_release m h b :
  Inv m -> tget (f_snd m) h = Some b ->
  let m1 := set_fsnd m (tdel (f_snd m) h) in
  exists l, pool_put (if t_dst b =? addr_GLOBAL then f_bam m1 else f_rts m1) (t_session b) = Some l /\
            Inv (if t_dst b =? addr_GLOBAL then set_fbam m1 l else set_frts m1 l).
Proof.
  intros (I & K & [L1 L2]) Hget m1.
  destruct I as (I1 & I2 & I3). destruct K as (K1 & K2 & K3).
  destruct (I1 h b Hget) as [Hs0 Hflag]. destruct (K1 h b Hget) as (Hk & Hs16 & Hd & Hsrc).
  assert (Hlen : (Z.to_nat (t_session b) < length (if (t_dst b =? addr_GLOBAL)%Z then f_bam m else f_rts m))%nat).
  { unfold flag_of in Hflag. apply nth_error_Some. destruct (t_dst b =? addr_GLOBAL); rewrite Hflag; discriminate. }
  assert (Hput : exists l, pool_put (if t_dst b =? addr_GLOBAL then f_bam m1 else f_rts m1) (t_session b) = Some l).
  { unfold m1. cbn [f_bam f_rts set_fsnd].
    destruct (t_dst b =? addr_GLOBAL); eexists; apply pool_put_some; assumption. }
  destruct Hput as (l & Hl). exists l. split; [exact Hl|].
  assert (HI : pool_inv (if t_dst b =? addr_GLOBAL then set_fbam m1 l else set_frts m1 l)).
  { apply (release_preserves m h b (conj I1 (conj I2 I3)) Hget).
    destruct (t_dst b =? addr_GLOBAL); exists l; split; [exact Hl|reflexivity|exact Hl|reflexivity]. }
  split; [exact HI|].
  assert (Hl' := Hl). apply pool_put_spec in Hl'; [|exact Hs0].
  assert (Hrest : forall h' b', tget (tdel (f_snd m) h) h' = Some b' -> h' <> h /\ tget (f_snd m) h' = Some b').
  { intros h' b' H'. destruct (Z.eq_dec h h') as [->|N].
    - rewrite tget_tdel_same in H' by exact I3. discriminate.
    - rewrite tget_tdel_other in H' by exact N. split; [intro E; apply N; symmetry; exact E|exact H']. }
  assert (Hkeep : forall h' b', h' <> h -> tget (f_snd m) h' = Some b' -> tget (tdel (f_snd m) h) h' = Some b').
  { intros h' b' N G. rewrite tget_tdel_other; [exact G|]. intro E. apply N. symmetry. exact E. }
  split.
  - (* keys_ok *)
    split.
    + intros h' b' H'. assert (tget (tdel (f_snd m) h) h' = Some b') as H2.
      { destruct (t_dst b =? addr_GLOBAL); exact H'. }
      destruct (Hrest h' b' H2) as [_ G]. apply (K1 h' b' G).
    + destruct (t_dst b =? addr_GLOBAL); cbn [f_rts f_bam set_fbam set_frts m1 set_fsnd] in *; subst l; rewrite ?upd_nth_length; split; assumption.
  - (* no_leak *)
    unfold no_leak.
    destruct (t_dst b =? addr_GLOBAL) eqn:G; cbn [f_rts f_bam f_snd set_fbam set_frts m1 set_fsnd] in *; subst l; split; intros i Hi.
    + destruct (L1 i Hi) as (h0 & b0 & G0 & D0 & S0). exists h0, b0. split; [|split; assumption].
      apply Hkeep; [|exact G0]. intro E. subst h0. rewrite Hget in G0. inversion G0; subst b0. rewrite G in D0. discriminate.
    + destruct (upd_nth_false_inv _ _ _ Hi) as [Hi' Hne].
      destruct (L2 i Hi') as (h0 & b0 & G0 & D0 & S0). exists h0, b0. split; [|split; assumption].
      apply Hkeep; [|exact G0]. intro E. subst h0. rewrite Hget in G0. inversion G0; subst b0. lia.
    + destruct (upd_nth_false_inv _ _ _ Hi) as [Hi' Hne].
      destruct (L1 i Hi') as (h0 & b0 & G0 & D0 & S0). exists h0, b0. split; [|split; assumption].
      apply Hkeep; [|exact G0]. intro E. subst h0. rewrite Hget in G0. inversion G0; subst b0. lia.
    + destruct (L2 i Hi) as (h0 & b0 & G0 & D0 & S0). exists h0, b0. split; [|split; assumption].
      apply Hkeep; [|exact G0]. intro E. subst h0. rewrite Hget in G0. inversion G0; subst b0. rewrite G in D0. discriminate.
Qed.

(* ---------------------------------------------------------------- handlers keep Inv under interference *)
Definition ginv := guar Inv.

Lemma ginv_lift : forall (a : act node) m k,
  Inv m -> (forall m' r, Inv m' -> ginv (k m' r)) -> ginv (lift m a k).
Proof.
  induction a as [s r|s e|s o c IH]; intros m k Hm Hk; cbn [lift].
  - apply Hk. apply (Inv_skel m); [apply skel_with_base|exact Hm].
  - unfold ginv. cbn [guar]. apply (Inv_skel m); [apply skel_with_base|exact Hm].
  - unfold ginv. cbn [guar]. intros s' Hs'. apply IH; [|exact Hk].
    apply (Inv_skel m); [rewrite Hs'; apply skel_with_base|exact Hm].
Qed.

Theorem notify22_inv m now can_id data : Inv m -> ginv (notify22 m now can_id data).
Proof.
  intros HI. apply (guar_mono (fun s => skel s = skel m)); [|apply inbound_guar].
  intros s Hs. apply (Inv_skel m s Hs HI).
Qed.

Theorem listener22_inv m now can_id ext remote err data : Inv m -> ginv (listener22 m now can_id ext remote err data).
Proof.
  intros HI. apply (guar_mono (fun s => skel s = skel m)); [|apply inbound_guar_listener].
  intros s Hs. apply (Inv_skel m s Hs HI).
Qed.

Lemma Inv_alloc_interfered m s pool' sa dest b m1 :
  Inv m -> 0 <= sa < 256 -> 0 <= dest < 256 ->
  pool_get (if dest =? addr_GLOBAL then f_bam m else f_rts m) 0 = Some (s, pool') ->
  t_session b = s -> t_dst b = dest -> t_src b = sa ->
  skel m1 = skel (if dest =? addr_GLOBAL then set_fbam m pool' else set_frts m pool') ->
  Inv (set_fsnd m1 (tset (f_snd m1) (tp22_hash s sa dest) b)).
Proof.
  intros HI Hsa Hd Hget Hs Hdst Hsrc Hsk.
  pose proof (Inv_alloc m s pool' sa dest b HI Hsa Hd Hget Hs Hdst Hsrc) as HC. cbv zeta in HC.
  refine (Inv_skel _ _ _ HC).
  unfold skel in *. cbn [f_snd f_rts f_bam set_fsnd]. inversion Hsk as [[E1 E2 E3]].
  rewrite (map_proj_tset_congr _ _ _ b E1). reflexivity.
Qed.

Theorem send_pgn22_inv m now dp pf ps prio sa data tl ff :
  Inv m -> 0 <= sa < 256 -> 0 <= ps < 256 -> ginv (send_pgn22 m now dp pf ps prio sa data tl ff).
Proof.
  intros HI Hsa Hps. unfold send_pgn22. destruct (pgn_mk dp pf ps) as [[pdp ppf] pps].
  destruct (len data <=? tp22_TP).
  - destruct (if pgn_is_pdu1 ppf then _ else _) as [cpgn0 dst].
    destruct ((ff =? ff_FBFF) && negb (dst =? addr_GLOBAL)); [exact HI|].
    destruct (mpg_cpg_fields _ _ _ _) as [[[cp ct] cf] cg].
    destruct (tl =? 0).
    + destruct (send_multi_pg _ _ _ _); [|exact HI]. unfold ginv. cbn [guar]. intros s' Hs'. apply (Inv_skel m s' Hs' HI).
    + destruct (mpg_collect _ _ _ _ _ _ _ _ _); [|exact HI]. unfold ginv. cbn [guar].
      apply (Inv_skel m); [|exact HI]. rewrite skel_wake22, skel_set_fmpg. reflexivity.
  - destruct ((ps =? addr_GLOBAL) || pgn_is_pdu2_of 0 pf ps) eqn:G.
    + destruct (pool_get (f_bam m) 0) as [[session pool']|] eqn:Hget; [|exact HI].
      unfold ginv. cbn [guar]. intros m1 Hm1.
      apply (Inv_skel (set_fsnd m1 (tset (f_snd m1) (tp22_hash session sa addr_GLOBAL)
               (mk_sbuf22 (pgn_value pdp ppf (if pgn_is_pdu1 ppf then 0 else pps)) prio session (len data)
                  (len data / tp22_TP + (if len data mod tp22_TP =? 0 then 0 else 1)) (segments data)
                  tp22_st_SENDING_BAM (now + f_bam_iv m1) sa addr_GLOBAL None)))); [apply skel_wake22|].
      apply (Inv_alloc_interfered m session pool' sa addr_GLOBAL); try assumption; try reflexivity.
      unfold addr_GLOBAL. lia.
    + apply orb_false_iff in G. destruct G as [G1 G2].
      destruct (pool_get (f_rts m) 0) as [[session pool']|] eqn:Hget; [|exact HI].
      unfold ginv. cbn [guar]. intros m2 Hm2. apply (Inv_skel _ _ (skel_wake22 m2)). apply (Inv_skel _ _ Hm2).
      apply (Inv_alloc_interfered m session pool' sa ps); try assumption; try reflexivity; rewrite G1; try reflexivity. exact Hget.
Qed.

(* ---------------------------------------------------------------- the job pass *)
Lemma skel_snd_get m m' h b : skel m' = skel m -> tget (f_snd m) h = Some b ->
  exists b', tget (f_snd m') h = Some b' /\ t_session b' = t_session b /\ t_dst b' = t_dst b /\ t_src b' = t_src b.
Proof.
  unfold skel. intros E G. inversion E as [[E1 E2 E3]]. apply (skel_tget _ _ (eq_sym E1) h b G).
Qed.

Lemma Inv_upd m h b b' : Inv m -> tget (f_snd m) h = Some b ->
  t_session b' = t_session b -> t_dst b' = t_dst b -> t_src b' = t_src b ->
  Inv (set_fsnd m (tset (f_snd m) h b')).
Proof. intros HI G H1 H2 H3. apply (Inv_skel m); [apply (skel_upd m h b b' G H1 H2 H3)|exact HI]. Qed.

Lemma rcv_pass22_inv : forall keys now nw m k,
  Inv m -> (forall m' nw', Inv m' -> ginv (k m' nw')) -> ginv (rcv_pass22 keys now nw m k).
Proof.
  induction keys as [|key ks IH]; intros now nw m k HI Hk; cbn [rcv_pass22]; [apply Hk; exact HI|].
  destruct (tget (f_rcv m) key) as [b|]; [|apply IH; assumption].
  destruct (q_deadline b =? 0); [apply IH; assumption|].
  destruct (q_deadline b >? now); [apply IH; assumption|].
  destruct (negb (q_dst b =? addr_GLOBAL)).
  - unfold ginv. cbn [guar]. intros s' Hs'. apply IH; [|exact Hk].
    apply (Inv_skel m); [rewrite skel_set_frcv; exact Hs'|exact HI].
  - apply IH; [|exact Hk]. apply (Inv_skel m); [apply skel_set_frcv|exact HI].
Qed.

Lemma mpg_pass_inv : forall keys now nw m k,
  Inv m -> (forall m' nw', Inv m' -> ginv (k m' nw')) -> ginv (mpg_pass keys now nw m k).
Proof.
  induction keys as [|key ks IH]; intros now nw m k HI Hk; cbn [mpg_pass]; [apply Hk; exact HI|].
  destruct (tget (f_mpg m) key) as [b|]; [|exact HI].
  destruct (m_deadline b >? now); [apply IH; assumption|].
  destruct (tp22_unhash_mpg key) as [[[ff x] sa] dst].
  destruct (send_multi_pg ff (m_cpgs b) sa dst); [|exact HI].
  unfold ginv. cbn [guar]. intros s' Hs'. assert (HI' : Inv s') by apply (Inv_skel m s' Hs' HI).
  destruct (tmem (f_mpg s') key); [|exact HI'].
  apply IH; [|exact Hk]. apply (Inv_skel s'); [apply skel_set_fmpg|exact HI'].
Qed.

Lemma release_ginv m' key b cont :
  Inv m' -> (exists b', tget (f_snd m') key = Some b' /\ t_session b' = t_session b /\ t_dst b' = t_dst b /\ t_src b' = t_src b) ->
  (forall m3, Inv m3 -> ginv (cont m3)) ->
  ginv (if tmem (f_snd m') key then put_session (set_fsnd m' (tdel (f_snd m') key)) b cont else Raise m' E_Key).
Proof.
  intros HI (b' & G & Hs & Hd & _) Hc. rewrite (tmem_get _ _ _ G).
  destruct (Inv_release m' key b' HI G) as (l & Hl & HI2). cbv zeta in Hl, HI2. rewrite Hs, Hd in Hl. rewrite Hd in HI2.
  unfold put_session, put_bam, put_rts. destruct (t_dst b =? addr_GLOBAL); rewrite Hl; apply Hc; exact HI2.
Qed.

Lemma fd_burst_inv key now : forall fuel m k,
  Inv m -> (forall m1, Inv m1 -> ginv (k m1)) -> ginv (fd_burst fuel key now m k).
Proof.
  induction fuel as [|f IH]; intros m k HI Hk; cbn [fd_burst]; [exact HI|].
  destruct (tget (f_snd m) key) as [b|] eqn:G; [|exact HI].
  destruct (t_next b <? t_nseg b); [|apply Hk; exact HI].
  set (bn := match n_cmdt_iv (base m) with Some iv => with_tnb b (now + iv) | None => b end).
  assert (Hbn : t_session bn = t_session b /\ t_dst bn = t_dst b /\ t_src bn = t_src b).
  { unfold bn. destruct (n_cmdt_iv (base m)); repeat split; reflexivity. }
  destruct Hbn as (Hn1 & Hn2 & Hn3).
  match goal with |- ginv (match ?r with Some _ => _ | None => _ end) => destruct r as [[b2 brk]|] eqn:Er end.
  - assert (Hb2 : t_session b2 = t_session b /\ t_dst b2 = t_dst b /\ t_src b2 = t_src b).
    { destruct (t_next b + 1 =? t_nseg b); [inversion Er; subst b2; cbn; repeat split; assumption|].
      destruct (t_waitcts b) as [w|]; [|discriminate].
      destruct (t_next b =? w); [inversion Er; subst b2; cbn; repeat split; assumption|].
      destruct (n_cmdt_iv (base m)); inversion Er; subst b2; cbn; repeat split; assumption. }
    destruct Hb2 as (H1 & H2 & H3).
    destruct (py_nth (t_data b) (t_next b)) as [seg|]; [|apply (Inv_upd m key b b2 HI G H1 H2 H3)].
    destruct (dt_frame _ _ _ _ seg) as [[fr seg']|]; [|apply (Inv_upd m key b b2 HI G H1 H2 H3)].
    unfold ginv. cbn [guar]. intros m1 Hm1.
    assert (HI1 : Inv m1).
    { apply (Inv_skel _ _ Hm1). apply (Inv_upd m key b _ HI G); cbn; assumption. }
    destruct (t_next b + 1 =? t_nseg b).
    + cbn [guar]. intros m2 Hm2. apply Hk. apply (Inv_skel m1 m2 Hm2 HI1).
    + destruct brk; [apply Hk; exact HI1|]. apply IH; [exact HI1|exact Hk].
  - apply (Inv_upd m key b _ HI G); cbn; assumption.
Qed.

Lemma snd_pass22_inv : forall keys now nw m k,
  Inv m -> (forall m' nw', Inv m' -> ginv (k m' nw')) -> ginv (snd_pass22 keys now nw m k).
Proof.
  induction keys as [|key ks IH]; intros now nw m k HI Hk; cbn [snd_pass22]; [apply Hk; exact HI|].
  destruct (tget (f_snd m) key) as [b|] eqn:G; [|exact HI].
  assert (Hrel : forall m', skel m' = skel m ->
            ginv (if tmem (f_snd m') key
                  then put_session (set_fsnd m' (tdel (f_snd m') key)) b (fun m3 => snd_pass22 ks now nw m3 k)
                  else Raise m' E_Key)).
  { intros m' Hm'. apply release_ginv.
    - apply (Inv_skel m m' Hm' HI).
    - apply (skel_snd_get m m' key b Hm' G).
    - intros m3 H3. apply IH; [exact H3|exact Hk]. }
  destruct (t_deadline b =? 0); [apply IH; assumption|].
  destruct (t_deadline b >? now); [apply IH; assumption|].
  destruct (t_state b =? tp22_st_WAITING_CTS).
  { unfold ginv. cbn [guar]. intros m' Hm'. apply Hrel. exact Hm'. }
  destruct (t_state b =? tp22_st_SENDING_RTS_CTS).
  { apply fd_burst_inv; [exact HI|]. intros m1 HI1.
    destruct (tget (f_snd m1) key) as [b1|] eqn:G1; [|exact HI1].
    apply IH; [|exact Hk].
    destruct ((t_state b1 =? tp22_st_SENDING_RTS_CTS) && (t_next b1 >=? t_nseg b1));
      apply (Inv_upd m1 key b1 _ HI1 G1); reflexivity. }
  destruct ((t_state b =? tp22_st_WAITING_EOM_ACK) || (t_state b =? tp22_st_EOM_ACK_RECEIVED) || (t_state b =? tp22_st_TRANSMISSION_FINISHED)).
  { apply Hrel. reflexivity. }
  destruct (t_state b =? tp22_st_SENDING_BAM).
  { destruct (py_nth (t_data b) (t_next b)) as [seg|]; [|exact HI].
    destruct (dt_frame _ _ _ _ seg) as [[fr seg']|]; [|exact HI].
    unfold ginv. cbn [guar]. intros m1 Hm1.
    assert (HI1 : Inv m1).
    { apply (Inv_skel _ _ Hm1). apply (Inv_upd m key b _ HI G); reflexivity. }
    destruct (tget (f_snd m1) key) as [b1|] eqn:G1; [|exact HI1].
    apply IH; [|exact Hk]. apply (Inv_upd m1 key b1 _ HI1 G1); reflexivity. }
  destruct (t_state b =? tp22_st_SENDING_EOM_STATUS).
  { unfold ginv. cbn [guar]. intros m' Hm'. apply Hrel. exact Hm'. }
  apply Hrel. reflexivity.
Qed.

(* T10.1: one iteration of the job thread — receive timeouts, multi-PG deadlines, every branch of the originator
   pass (timeouts, bursts, BAM packets, EOM status, all exits that delete a session), then the timer pass *)
Theorem job_iter22_inv m now : Inv m -> ginv (job_iter22 m now).
Proof.
  intros HI. unfold job_iter22, dll_job22.
  apply rcv_pass22_inv; [exact HI|]. intros m1 nw1 H1.
  apply mpg_pass_inv; [exact H1|]. intros m2 nw2 H2.
  apply snd_pass22_inv; [exact H2|]. intros m3 nw3 H3.
  apply ginv_lift; [exact H3|]. intros m4 r H4. exact H4.
Qed.

(* ---------------------------------------------------------------- any history *)
Inductive hev :=
| HSend (now dp pf ps prio sa : Z) (data : list Z) (time_limit ff : Z)
| HFrame (now can_id : Z) (ext remote err : bool) (data : list Z)
| HJob (now : Z).

Definition hev_ok (e : hev) : Prop :=
  match e with HSend _ _ _ ps _ sa _ _ _ => 0 <= sa < 256 /\ 0 <= ps < 256 | _ => True end.

Definition hact (m : node22) (e : hev) : act node22 :=
  match e with
  | HSend now dp pf ps prio sa data tl ff => send_pgn22 m now dp pf ps prio sa data tl ff
  | HFrame now can_id ext remote err data => listener22 m now can_id ext remote err data
  | HJob now => job_iter22 m now
  end.

Theorem hact_inv m e : Inv m -> hev_ok e -> ginv (hact m e).
Proof.
  intros HI He. destruct e; cbn [hact].
  - destruct He as [H1 H2]. apply send_pgn22_inv; assumption.
  - apply listener22_inv. exact HI.
  - apply job_iter22_inv. exact HI.
Qed.

Definition hstep (m : node22) (e : hev) : node22 := fnode22 (hact m e).

(* T10.1 (history form): after ANY sequence of submissions (accepted or refused), received frames (well-formed
   or not, including aborts, stray CTS/EOMA, foreign traffic) and job-thread iterations at ANY instants, the
   invariant holds: the capacity in use is exactly the set of sessions in flight, nothing leaks, nothing is shared *)
Theorem capacity_conserved_any_history maxp civ biv evs :
  Forall hev_ok evs -> Inv (fold_left hstep evs (init_node22 maxp civ biv)).
Proof.
  assert (G : forall evs m, Inv m -> Forall hev_ok evs -> Inv (fold_left hstep evs m)).
  { induction evs0 as [|e es IH]; intros m HI Hok; cbn [fold_left]; [exact HI|].
    inversion Hok as [|? ? He Hes]; subst. apply IH; [|exact Hes].
    unfold hstep. apply guar_flat. apply hact_inv; assumption. }
  intros Hok. apply G; [apply Inv_init|exact Hok].
Qed.

Corollary idle_after_any_history maxp civ biv evs :
  Forall hev_ok evs -> let m := fold_left hstep evs (init_node22 maxp civ biv) in
  f_snd m = [] -> Forall (fun b => b = true) (f_rts m) /\ length (f_rts m) = tp22_pool_rts /\
                  Forall (fun b => b = true) (f_bam m) /\ length (f_bam m) = tp22_pool_bam.
Proof. intros Hok m He. apply idle_has_full_capacity; [apply capacity_conserved_any_history; exact Hok|exact He]. Qed.

(* non-vacuity: a concrete history (a long send to 0x20, a BAM, a refused CTS, job passes that time both out)
   that takes flags and gives them back *)
Example history_example :
  let evs := [HSend 0 0 200 32 6 16 (repeat 7 100) 0 0; HSend 10 0 254 1 6 16 (repeat 9 70) 0 0;
              HJob 20000; HJob 1300000; HJob 2600000] in
  let m1 := fold_left hstep (firstn 2 evs) (init_node22 8 None None) in
  let m := fold_left hstep evs (init_node22 8 None None) in
  (nth_error (f_rts m1) 0 = Some false /\ nth_error (f_bam m1) 0 = Some false /\ length (f_snd m1) = 2%nat) /\
  (f_snd m = [] /\ f_rts m = repeat true 8 /\ f_bam m = repeat true 4).
Proof. vm_compute. repeat split. Qed.

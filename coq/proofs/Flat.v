(* Flat.v — interpretation of a resumption when nobody interferes between an emission and the
   continuation; table lemmas; notify dispatch lemmas (which handler a frame reaches). *)
From J1939 Require Import Base CodecGlue Model21.
From J1939.gen Require Import Codec Tp21Gen CaGen.
From J1939P Require Import CodecProofs.

Inductive res := RDone (r : Z) | RRaise (e : Z).

Fixpoint flat (a : act node) : node * list out * res :=
  match a with
  | Done s r => (s, [], RDone r)
  | Raise s e => (s, [], RRaise e)
  | Emit s o k => let '(s', os, r) := flat (k s) in (s', o :: os, r)
  end.

Definition fnode (a : act node) : node := fst (fst (flat a)).
Definition fouts (a : act node) : list out := snd (fst (flat a)).
Definition fres (a : act node) : res := snd (flat a).

(* ---------------------------------------------------------------- tables *)
Lemma tdel_tset_same {V} (t : tbl V) k v : tdel (tset t k v) k = tdel t k.
Proof.
  induction t as [|[k' v'] r IH]; cbn [tset tdel].
  - rewrite Z.eqb_refl. reflexivity.
  - destruct (k' =? k) eqn:E; cbn [tdel]; [rewrite Z.eqb_refl; reflexivity|]. rewrite E, IH. reflexivity.
Qed.
Lemma tmem_tset_same {V} (t : tbl V) k v : tmem (tset t k v) k = true.
Proof. unfold tmem. rewrite tget_tset_same. reflexivity. Qed.
Lemma tset_tset_same {V} (t : tbl V) k v w : tset (tset t k v) k w = tset t k w.
Proof.
  induction t as [|[k' v'] r IH]; cbn [tset].
  - rewrite Z.eqb_refl. reflexivity.
  - destruct (k' =? k) eqn:E; cbn [tset]; [rewrite Z.eqb_refl; reflexivity|]. rewrite E, IH. reflexivity.
Qed.
Lemma tmem_get {V} (t : tbl V) k v : tget t k = Some v -> tmem t k = true.
Proof. unfold tmem. intros ->. reflexivity. Qed.
Lemma tmem_none {V} (t : tbl V) k : tget t k = None -> tmem t k = false.
Proof. unfold tmem. intros ->. reflexivity. Qed.

(* ---------------------------------------------------------------- subscribers *)
Definition deliveries_from (n : node) (i : nat) (prio pgn sa dest : Z) (data : list Z) : list out :=
  map (fun s => OCb (sb_cid s) prio pgn sa data) (filter (fun s => sub_matches n s dest) (skipn i (n_subs n))).
Definition deliveries (n : node) := deliveries_from n 0.

Lemma skipn_nth_error {A} (l : list A) i x : nth_error l i = Some x -> skipn i l = x :: skipn (S i) l.
Proof.
  revert i. induction l as [|y r IH]; intros [|i] H; cbn in *; try discriminate.
  - inversion H. reflexivity.
  - apply IH. exact H.
Qed.
Lemma skipn_nth_none {A} (l : list A) i : nth_error l i = None -> skipn i l = [].
Proof. intros H. apply skipn_all2. apply nth_error_None. exact H. Qed.

(* delivery to subscribers when no callback changes the node: the callbacks fire for exactly the
   matching subscribers, in registration order, once each; the node is handed on unchanged *)
Lemma flat_notify_subs fuel : forall i prio pgn sa dest data n k,
  (length (n_subs n) - i < fuel)%nat ->
  flat (notify_subs fuel i prio pgn sa dest data n k) =
  let '(s, os, r) := flat (k n) in (s, deliveries_from n i prio pgn sa dest data ++ os, r).
Proof.
  induction fuel as [|f IH]; intros i prio pgn sa dest data n k Hf; [lia|].
  cbn [notify_subs]. unfold deliveries_from.
  destruct (nth_error (n_subs n) i) as [s|] eqn:E.
  - rewrite (skipn_nth_error _ _ _ E). cbn [filter].
    assert (Hlt : (i < length (n_subs n))%nat) by (apply nth_error_Some; congruence).
    destruct (sub_matches n s dest) eqn:M.
    + cbn [flat map]. rewrite IH by lia. unfold deliveries_from.
      destruct (flat (k n)) as [[s' os] r]. reflexivity.
    + rewrite IH by lia. reflexivity.
  - rewrite (skipn_nth_none _ _ E). cbn [filter map app].
    destruct (flat (k n)) as [[s' os] r]. reflexivity.
Qed.

Lemma flat_notify_subscribers prio pgn sa dest data n k :
  flat (notify_subscribers prio pgn sa dest data n k) =
  let '(s, os, r) := flat (k n) in (s, deliveries n prio pgn sa dest data ++ os, r).
Proof. unfold notify_subscribers, deliveries. apply flat_notify_subs. lia. Qed.

(* deliveries only depend on the subscriber and CA tables *)
Lemma deliveries_env n n' prio pgn sa dest data :
  n_subs n' = n_subs n -> n_cas n' = n_cas n ->
  deliveries n' prio pgn sa dest data = deliveries n prio pgn sa dest data.
Proof.
  intros Hs Hc. unfold deliveries, deliveries_from. rewrite Hs. f_equal.
  apply filter_ext. intros s. unfold sub_matches. rewrite Hc. reflexivity.
Qed.

(* ---------------------------------------------------------------- which destinations a stack accepts *)
Definition accepts (n : node) (dest : Z) : bool :=
  (dest =? addr_GLOBAL) || ecu_acceptable n dest || existsb (fun c => ca_acceptable c dest) (n_cas n).

(* ---------------------------------------------------------------- identifier of PDU1 frames *)
Lemma pdu1_id_fields prio pf dest sa :
  0 <= prio < 8 -> 0 <= pf < 240 -> 0 <= dest < 256 -> 0 <= sa < 256 ->
  mid_parse (mid_can_id_of prio (pgn_value_of 0 pf dest) sa) = (prio, pf * 256 + dest, sa) /\
  pgn_from_mid (pf * 256 + dest) = (0, pf, dest) /\ pgn_is_pdu2 pf = false.
Proof.
  intros Hp Hf Hd Hs.
  assert (Hv : pgn_value_of 0 pf dest = pf * 256 + dest).
  { rewrite T15_3_pgn_value. lia. }
  rewrite Hv. split; [apply T15_2_in_range; lia|]. split.
  - rewrite T15_3_pgn_fields. f_equal; [f_equal|]; lia.
  - unfold pgn_is_pdu2. destruct (Z.geb pf 240 && Z.leb pf 255) eqn:E; [lia|reflexivity].
Qed.

Lemma notify_pdu1 n now prio pf dest sa data :
  0 <= prio < 8 -> 0 <= pf < 240 -> 0 <= dest < 256 -> 0 <= sa < 256 ->
  notify n now (mid_can_id_of prio (pgn_value_of 0 pf dest) sa) data =
  if negb (accepts n dest) then Done n 0
  else if pf * 256 =? pgn_ADDRESSCLAIM then claim_fanout 0 (length (n_cas n)) sa data n (fun n' => Done n' 0)
  else if pf * 256 =? pgn_REQUEST then request_fanout 0 (length (n_cas n)) sa dest data n (fun n' => Done n' 0)
  else if pf * 256 =? pgn_TP_CM then process_tp_cm prio sa dest data now n
  else if pf * 256 =? pgn_DATATRANSFER then process_tp_dt prio sa dest data now n
  else notify_subscribers prio (pf * 256) sa dest data n (fun n' => Done n' 0).
Proof.
  intros Hp Hf Hd Hs. unfold notify.
  destruct (pdu1_id_fields prio pf dest sa Hp Hf Hd Hs) as (E1 & E2 & E3).
  rewrite E1, E2, E3.
  assert (Hv : Z.land (pgn_value 0 pf dest) 130816 = pf * 256).
  { rewrite pgn_value_arith by lia.
    change 130816 with (Z.ones 9 * 2 ^ 8). rewrite land_high_mask by lia. pow2_norm. lia. }
  rewrite Hv. unfold accepts.
  destruct (dest =? addr_GLOBAL) eqn:G; cbn [negb andb orb].
  - reflexivity.
  - destruct (ecu_acceptable n dest); cbn [negb andb orb]; [reflexivity|].
    destruct (existsb (fun c => ca_acceptable c dest) (n_cas n)); reflexivity.
Qed.

Corollary notify_tp_cm n now prio dest sa data :
  0 <= prio < 8 -> 0 <= dest < 256 -> 0 <= sa < 256 -> accepts n dest = true ->
  notify n now (mid_can_id_of prio (pgn_value_of 0 236 dest) sa) data = process_tp_cm prio sa dest data now n.
Proof. intros. rewrite notify_pdu1 by lia. rewrite H2. reflexivity. Qed.

Corollary notify_tp_dt n now prio dest sa data :
  0 <= prio < 8 -> 0 <= dest < 256 -> 0 <= sa < 256 -> accepts n dest = true ->
  notify n now (mid_can_id_of prio (pgn_value_of 0 235 dest) sa) data = process_tp_dt prio sa dest data now n.
Proof. intros. rewrite notify_pdu1 by lia. rewrite H2. reflexivity. Qed.

(* frames for a destination the stack does not accept are ignored completely (T05.1, J1939-21) *)
Corollary notify_foreign n now prio pf dest sa data :
  0 <= prio < 8 -> 0 <= pf < 240 -> 0 <= dest < 256 -> 0 <= sa < 256 -> accepts n dest = false ->
  notify n now (mid_can_id_of prio (pgn_value_of 0 pf dest) sa) data = Done n 0.
Proof. intros. rewrite notify_pdu1 by lia. rewrite H3. reflexivity. Qed.

(* CaProofs.v — C13 (a CA sends application data only from an address it holds) and
   C14 (PGN requests reach exactly the addressed operational CAs; claims are answered). *)
From J1939 Require Import Base CodecGlue Model21.
From J1939.gen Require Import Codec Tp21Gen CaGen.
From J1939P Require Import CodecProofs Flat Tp21Resp ClaimProofs.

(* ---------------------------------------------------------------- C13 *)
(* T13.1: over every history of timer firings and received claims, an operational CA's address is the
   one it announced; any other CA reports the null address *)
Definition ca_ok (c : ca) : Prop := c_state c = ca_state_NORMAL -> c_addr c = Some (c_ann c).

Inductive cev := CTimer | CClaim (m : msg).
Definition ca_step (c : ca) (e : cev) : ca :=
  match e with CTimer => fst (fst (ca_timer c)) | CClaim m => fst (ca_claim c m) end.

Theorem ca_ok_invariant c evs : ca_ok c -> ca_ok (fold_left ca_step evs c).
Proof.
  revert c. induction evs as [|e es IH]; intros c H; cbn [fold_left]; [exact H|].
  apply IH. destruct e as [|m]; cbn [ca_step].
  - destruct (ca_timer c) as [[c' outs] tts] eqn:E. cbn [fst].
    destruct (ca_timer_cases _ _ _ _ E) as (_ & _ & Hn & _).
    intros S. destruct (Hn S) as [H0|H0]; [exact H0|subst c'; apply H; exact S].
  - destruct (ca_claim c m) as [c' outs] eqn:E. cbn [fst].
    destruct (ca_claim_cases _ _ _ _ E) as (_ & _ & Hn & _).
    intros S. destruct (Hn S) as [H0|H0]; [exact H0|subst c'; apply H; exact S].
Qed.

Theorem fresh_ca_ok v pref byp : ca_ok (mk_ca v pref byp).
Proof.
  unfold mk_ca, ca_ok. destruct byp; destruct pref; cbn; intros H; try discriminate; reflexivity.
Qed.

Theorem device_address_null_unless_normal c :
  c_state c <> ca_state_NORMAL -> ca_device_address c = addr_NULL.
Proof. intros H. unfold ca_device_address. assert ((c_state c =? ca_state_NORMAL) = false) as -> by lia. reflexivity. Qed.

(* T13.2: the three send entry points raise, emit nothing and change nothing unless the CA is operational
   (send_request for the address-claim PGN excepted, which goes out from the null address) *)
Theorem guard_send_pgn n i c now dp pf ps prio data :
  nth_error (n_cas n) i = Some c -> c_state c <> ca_state_NORMAL ->
  ca_send_pgn n i now dp pf ps prio data = Raise n E_Runtime.
Proof.
  intros Hc Hs. unfold ca_send_pgn. rewrite Hc.
  assert ((c_state c =? ca_state_NORMAL) = false) as -> by lia. reflexivity.
Qed.
Theorem guard_send_message n i c prio pgn data :
  nth_error (n_cas n) i = Some c -> c_state c <> ca_state_NORMAL ->
  ca_send_message n i prio pgn data = Raise n E_Runtime.
Proof.
  intros Hc Hs. unfold ca_send_message. rewrite Hc.
  assert ((c_state c =? ca_state_NORMAL) = false) as -> by lia. reflexivity.
Qed.
Theorem guard_send_request n i c now dp pgn dest :
  nth_error (n_cas n) i = Some c -> c_state c <> ca_state_NORMAL -> pgn <> pgn_ADDRESSCLAIM ->
  ca_send_request n i now dp pgn dest = Raise n E_Runtime.
Proof.
  intros Hc Hs Hp. unfold ca_send_request. rewrite Hc.
  assert ((c_state c =? ca_state_NORMAL) = false) as -> by lia.
  assert ((pgn =? pgn_ADDRESSCLAIM) = false) as -> by lia. reflexivity.
Qed.

(* T13.3: what an operational CA sends carries the address it holds *)
Theorem send_message_uses_held_address n i c a prio pgn data :
  nth_error (n_cas n) i = Some c -> c_state c = ca_state_NORMAL -> c_addr c = Some a ->
  flat (ca_send_message n i prio pgn data) =
  (n, [OTx {| f_id := mid_can_id_of prio pgn a; f_ext := true; f_fd := false; f_data := data |}], RDone 0).
Proof.
  intros Hc Hs Ha. unfold ca_send_message. rewrite Hc, Hs, Ha. cbn. reflexivity.
Qed.
Theorem send_pgn_uses_held_address n i c a now dp pf ps prio data :
  nth_error (n_cas n) i = Some c -> c_state c = ca_state_NORMAL -> c_addr c = Some a ->
  ca_send_pgn n i now dp pf ps prio data = send_pgn n now dp pf ps prio a data.
Proof.
  intros Hc Hs Ha. unfold ca_send_pgn. rewrite Hc, Hs, Ha. reflexivity.
Qed.
(* single-frame case spelled out: the identifier's source-address byte is the held address *)
Theorem send_pgn_single_frame n now dp pf ps prio a data :
  len data <= 8 -> 0 <= a < 256 ->
  exists id, flat (send_pgn n now dp pf ps prio a data) = (n, [OTx {| f_id := id; f_ext := true; f_fd := false; f_data := data |}], RDone 1)
             /\ snd (mid_parse id) = a.
Proof.
  intros Hl Ha. unfold send_pgn. destruct (pgn_mk dp pf ps) as [[pdp ppf] pps].
  assert ((len data <=? 8) = true) as -> by lia.
  eexists. split; [cbn [flat]; reflexivity|].
  rewrite T15_2_id_compose_parse. cbn [snd]. lia.
Qed.
(* the request for the address-claim PGN of a CA without address goes out from the null address *)
Theorem request_for_claim_from_null n i c now dp dest :
  nth_error (n_cas n) i = Some c -> c_state c <> ca_state_NORMAL ->
  exists id, flat (ca_send_request n i now dp pgn_ADDRESSCLAIM dest) =
             (n, [OTx {| f_id := id; f_ext := true; f_fd := false; f_data := ca_request_payload pgn_ADDRESSCLAIM |}], RDone 0)
             /\ snd (mid_parse id) = addr_NULL.
Proof.
  intros Hc Hs. unfold ca_send_request. rewrite Hc.
  assert ((c_state c =? ca_state_NORMAL) = false) as -> by lia.
  cbn [negb andb Z.eqb]. rewrite Z.eqb_refl. cbn [negb andb].
  unfold ca_request_args. unfold send_pgn.
  destruct (pgn_mk dp (Z.land (Z.shiftr 59904 8) 255) (Z.land dest 255)) as [[pdp ppf] pps].
  assert ((len (ca_request_payload pgn_ADDRESSCLAIM) <=? 8) = true) as -> by reflexivity.
  eexists. split; [cbn [flat]; reflexivity|].
  rewrite T15_2_id_compose_parse. cbn [snd]. reflexivity.
Qed.
(* every frame a CA originates outside its send entry points is an address claim from the address it
   announces / holds or a cannot-claim from the null address *)
Theorem claim_frames_sources c m c' outs x :
  ca_claim c m = (c', outs) -> In x outs ->
  snd x = c_name c /\ (fst x = addr_NULL \/ fst x = c_ann c' \/ c_addr c = Some (fst x)).
Proof.
  unfold ca_claim. destruct m as [sa other]. intros E Hin.
  destruct (negb (awaiting c sa)); [inversion E; subst; destruct Hin|].
  destruct (c_name c =? other); [inversion E; subst; destruct Hin|].
  destruct (c_name c >? other).
  - destruct (c_aac c =? 0); inversion E; subst; destruct Hin as [<-|[]]; cbn; auto.
  - destruct (c_state c =? ca_state_NORMAL); inversion E; subst; destruct Hin as [<-|[]]; cbn; split; auto.
    destruct (c_addr c'); auto.
Qed.

(* ---------------------------------------------------------------- C14 *)
(* T14.1: request payload: 3 little-endian bytes of the PGN; decoding returns the PGN *)
Theorem request_payload_roundtrip pgn : 0 <= pgn < 16777216 ->
  ca_request_decode (ca_request_payload pgn) = pgn /\ length (ca_request_payload pgn) = 3%nat /\
  ca_request_payload pgn = [pgn mod 256; (pgn / 256) mod 256; (pgn / 65536) mod 256].
Proof.
  intros H. unfold ca_request_decode, ca_request_payload, byte_at. cbn [nth length].
  rewrite !land_255. rewrite !shiftr_div by lia. pow2_norm.
  split; [apply le24; lia|]. split; reflexivity.
Qed.
Theorem request_args dp dest sa :
  ca_request_args dp dest sa = (dp, 234, dest mod 256, 6, sa).
Proof. unfold ca_request_args. rewrite !land_255. reflexivity. Qed.

(* what one CA does with a request (it has been found acceptable by the caller) *)
Definition request_outs (c : ca) (sa dest pgn : Z) : list out :=
  if negb (c_state c =? ca_state_NORMAL) ||
     (negb (match c_addr c with Some a => a =? dest | None => false end) && negb (dest =? addr_GLOBAL))
  then []
  else if pgn =? pgn_ADDRESSCLAIM
       then [send_address_claimed c (match c_addr c with Some a => a | None => addr_NULL end)]
       else map (fun cb => OReq cb sa dest pgn) (c_reqs c).

Lemma flat_req_cbs cbs src dst pgn n k :
  flat (req_cbs cbs src dst pgn n k) =
  let '(s, os, r) := flat (k n) in (s, map (fun cb => OReq cb src dst pgn) cbs ++ os, r).
Proof.
  induction cbs as [|cb r IH]; cbn [req_cbs map app].
  - destruct (flat (k n)) as [[s os] r0]. reflexivity.
  - cbn [flat]. rewrite IH. destruct (flat (k n)) as [[s os] r0]. reflexivity.
Qed.

Lemma flat_process_request i sa dest data n k c :
  nth_error (n_cas n) i = Some c -> (3 <= length data)%nat ->
  flat (process_request i sa dest data n k) =
  let '(s, os, r) := flat (k n) in (s, request_outs c sa dest (ca_request_decode data) ++ os, r).
Proof.
  intros Hc Hl. unfold process_request, request_outs. rewrite Hc.
  assert ((length data <? 3)%nat = false) as -> by (apply Nat.ltb_ge; exact Hl).
  destruct (negb (c_state c =? ca_state_NORMAL) || _).
  - cbn [app]. destruct (flat (k n)) as [[s os] r]. reflexivity.
  - destruct (ca_request_decode data =? pgn_ADDRESSCLAIM).
    + cbn [flat app]. destruct (flat (k n)) as [[s os] r]. reflexivity.
    + apply flat_req_cbs.
Qed.

(* T14.2: dispatch — every CA from index i on, in order: those that accept the destination answer as
   request_outs says, the others are skipped; CAs are not changed *)
Fixpoint fanout_outs (cas : list ca) (sa dest pgn : Z) : list out :=
  match cas with
  | [] => []
  | c :: r => (if ca_acceptable c dest then request_outs c sa dest pgn else []) ++ fanout_outs r sa dest pgn
  end.

Lemma flat_request_fanout sa dest data : (3 <= length data)%nat ->
  forall cnt i n k, (i + cnt = length (n_cas n))%nat ->
  flat (request_fanout i cnt sa dest data n k) =
  let '(s, os, r) := flat (k n) in (s, fanout_outs (skipn i (n_cas n)) sa dest (ca_request_decode data) ++ os, r).
Proof.
  intros Hl. induction cnt as [|c IH]; intros i n k Hi.
  - cbn [request_fanout]. rewrite skipn_all2 by lia. cbn [fanout_outs app].
    destruct (flat (k n)) as [[s os] r]. reflexivity.
  - cbn [request_fanout].
    destruct (nth_error (n_cas n) i) as [ca0|] eqn:E.
    + rewrite (skipn_nth_error _ _ _ E). cbn [fanout_outs].
      destruct (ca_acceptable ca0 dest).
      * rewrite (flat_process_request i sa dest data n _ ca0 E Hl).
        rewrite IH by lia. destruct (flat (k n)) as [[s os] r]. rewrite app_assoc. reflexivity.
      * rewrite IH by lia. destruct (flat (k n)) as [[s os] r]. reflexivity.
    + exfalso. apply nth_error_None in E. lia.
Qed.

(* a CA that is not operational neither calls back nor answers; one that does not own the destination neither *)
Theorem no_answer_without_address c sa dest pgn :
  c_state c <> ca_state_NORMAL -> (if ca_acceptable c dest then request_outs c sa dest pgn else []) = [].
Proof.
  intros H. unfold ca_acceptable. assert ((c_state c =? ca_state_NORMAL) = false) as -> by lia. reflexivity.
Qed.
Theorem no_answer_for_foreign_destination c a sa dest pgn :
  c_addr c = Some a -> a <> dest -> dest <> addr_GLOBAL ->
  (if ca_acceptable c dest then request_outs c sa dest pgn else []) = [].
Proof.
  intros Ha Hn Hg. unfold ca_acceptable. rewrite Ha.
  destruct (negb (c_state c =? ca_state_NORMAL)); [reflexivity|].
  assert ((dest =? addr_GLOBAL) = false) as -> by lia.
  assert ((a =? dest) = false) as -> by lia. reflexivity.
Qed.
(* an operational CA owning the destination (or any operational CA for the global address) *)
Theorem answer_of_owner c a sa dest pgn :
  c_state c = ca_state_NORMAL -> c_addr c = Some a -> (a = dest \/ dest = addr_GLOBAL) ->
  (if ca_acceptable c dest then request_outs c sa dest pgn else []) =
  if pgn =? pgn_ADDRESSCLAIM then [send_address_claimed c a] else map (fun cb => OReq cb sa dest pgn) (c_reqs c).
Proof.
  intros Hs Ha Hd. unfold ca_acceptable, request_outs. rewrite Hs, Ha. cbn [Z.eqb negb orb].
  rewrite Z.eqb_refl. cbn [negb orb].
  destruct Hd as [-> | ->].
  - rewrite Z.eqb_refl. destruct (dest =? addr_GLOBAL); cbn [negb andb orb]; reflexivity.
  - rewrite Z.eqb_refl. cbn [negb andb orb]. rewrite andb_false_r. reflexivity.
Qed.

(* T14.3 end to end: the request frame built by send_request, fed to notify, is dispatched as above *)
Theorem notify_request n now sa dest data :
  0 <= dest < 256 -> 0 <= sa < 256 -> accepts n dest = true -> (3 <= length data)%nat ->
  flat (notify n now (mid_can_id_of 6 (pgn_value_of 0 234 dest) sa) data) =
  (n, fanout_outs (n_cas n) sa dest (ca_request_decode data), RDone 0).
Proof.
  intros Hd Hs Hacc Hl. rewrite notify_pdu1 by lia. rewrite Hacc. cbn [negb].
  change (234 * 256 =? pgn_ADDRESSCLAIM) with false. change (234 * 256 =? pgn_REQUEST) with true. cbv iota.
  rewrite (flat_request_fanout sa dest data Hl (length (n_cas n)) 0 n) by lia.
  cbn [flat skipn]. rewrite app_nil_r. reflexivity.
Qed.

Example request_example :
  let n0 := set_cas (init_node 1 None None) [mk_ca 5 (Some 32) true; mk_ca 6 (Some 33) true] in
  let n1 := set_ca n0 0 (with_ca_reqs (mk_ca 5 (Some 32) true) [7; 8]) in
  fouts (notify n1 0 (mid_can_id_of 6 (pgn_value_of 0 234 32) 16) (ca_request_payload 65226)) =
  [OReq 7 16 32 65226; OReq 8 16 32 65226].
Proof. vm_compute. reflexivity. Qed.

(* T14.3 closed loop: what send_request of an operational CA on one node puts on the bus, handed to ANOTHER node that
   accepts the destination, is dispatched there with the requester's held address, the destination and exactly the PGN
   asked for — for every PGN of up to 24 bits and every destination, global included *)
Theorem request_closed_loop A i c a now pgn dest B t :
  nth_error (n_cas A) i = Some c -> c_state c = ca_state_NORMAL -> c_addr c = Some a -> 0 <= a < 256 ->
  0 <= dest < 256 -> 0 <= pgn < 16777216 -> accepts B dest = true ->
  exists f, flat (ca_send_request A i now 0 pgn dest) = (A, [OTx f], RDone 0) /\ f_ext f = true /\ f_fd f = false /\
            flat (notify B t (f_id f) (f_data f)) = (B, fanout_outs (n_cas B) a dest pgn, RDone 0).
Proof.
  intros Hc Hs Ha Har Hd Hp Hacc.
  destruct (request_payload_roundtrip pgn Hp) as (Edec & Elen & _).
  unfold ca_send_request. rewrite Hc, Hs, Ha. rewrite Z.eqb_refl. cbn [negb andb].
  rewrite request_args. unfold send_pgn.
  assert (Emk : pgn_mk 0 234 (dest mod 256) = (0, 234, dest)).
  { unfold pgn_mk. rewrite !land_255. replace ((dest mod 256) mod 256) with dest by lia. reflexivity. }
  rewrite Emk.
  assert ((len (ca_request_payload pgn) <=? 8) = true) as ->.
  { unfold len. rewrite Elen. reflexivity. }
  eexists. split; [cbn [flat]; reflexivity|]. cbn [f_ext f_fd f_id f_data]. split; [reflexivity|]. split; [reflexivity|].
  assert (Ev : pgn_value 0 234 dest = pgn_value_of 0 234 dest).
  { unfold pgn_value_of. rewrite Z.mod_small in Emk by lia. rewrite Emk. reflexivity. }
  rewrite Ev. rewrite notify_request; [rewrite Edec; reflexivity|lia|lia|assumption|rewrite Elen; lia].
Qed.

Example request_closed_loop_example :
  let A := set_cas (init_node 1 None None) [mk_ca 9 (Some 16) true] in
  let B0 := set_cas (init_node 1 None None) [mk_ca 5 (Some 32) true; mk_ca 6 (Some 33) true] in
  let B := set_ca B0 0 (with_ca_reqs (mk_ca 5 (Some 32) true) [7; 8]) in
  match fouts (ca_send_request A 0 0 0 65226 32) with
  | [OTx f] => fouts (notify B 0 (f_id f) (f_data f)) = [OReq 7 16 32 65226; OReq 8 16 32 65226]
  | _ => False
  end.
Proof. vm_compute. reflexivity. Qed.

(* FrameLocal22.v — C02 (J1939-22): transfers with different (session number, source, destination) do not interact.
   Every FD transport frame touches at most ONE session: the receive session keyed by (session, SA, DA) of the frame
   (RTS, BAM, EOM status, DT) or the send session keyed by (session, DA, SA) (CTS, EOM acknowledgement, abort); every
   other receive and send session is exactly as before, whatever the frame contains. *)
From J1939 Require Import Base CodecGlue Model21 Model22.
From J1939.gen Require Import Codec Tp21Gen CaGen Tp22Gen.
From J1939P Require Import CodecProofs Flat MpgProofs PoolProofs.
Local Arguments Z.add : simpl never.
Local Arguments Z.sub : simpl never.
Local Arguments Z.mul : simpl never.

Definition touches22 (kr ks : option Z) (m m' : node22) : Prop :=
  (forall h, Some h <> kr -> tget (f_rcv m') h = tget (f_rcv m) h) /\
  (forall h, Some h <> ks -> tget (f_snd m') h = tget (f_snd m) h).

Lemma t22_refl kr ks m : touches22 kr ks m m.
Proof. split; intros; reflexivity. Qed.
Lemma t22_trans kr ks m1 m2 m3 : touches22 kr ks m1 m2 -> touches22 kr ks m2 m3 -> touches22 kr ks m1 m3.
Proof. intros [A B] [C D]. split; intros h Hh; [rewrite C, A|rewrite D, B]; auto. Qed.
Lemma t22_wake kr ks m : touches22 kr ks m (wake22 m).
Proof. split; intros; reflexivity. Qed.
Lemma t22_base kr ks m n : touches22 kr ks m (with_base m n).
Proof. split; intros; reflexivity. Qed.
Lemma t22_set_rcv h b ks m : touches22 (Some h) ks m (set_frcv m (tset (f_rcv m) h b)).
Proof. split; intros k Hk; cbn [f_rcv f_snd set_frcv]; [|reflexivity]. apply tget_tset_other. intro E. apply Hk. f_equal. symmetry. exact E. Qed.
Lemma t22_del_rcv h ks m : touches22 (Some h) ks m (set_frcv m (tdel (f_rcv m) h)).
Proof. split; intros k Hk; cbn [f_rcv f_snd set_frcv]; [|reflexivity]. apply tget_tdel_other. intro E. apply Hk. f_equal. symmetry. exact E. Qed.
Lemma t22_set_snd h b kr m : touches22 kr (Some h) m (set_fsnd m (tset (f_snd m) h b)).
Proof. split; intros k Hk; cbn [f_rcv f_snd set_fsnd]; [reflexivity|]. apply tget_tset_other. intro E. apply Hk. f_equal. symmetry. exact E. Qed.

Definition ends22 (P : node22 -> Prop) (a : act node22) : Prop := P (fnode22 a).
Lemma e22_done (P : node22 -> Prop) s r : P s -> ends22 P (Done s r). Proof. intros H; exact H. Qed.
Lemma e22_raise (P : node22 -> Prop) s e : P s -> ends22 P (Raise s e). Proof. intros H; exact H. Qed.
Lemma e22_emit (P : node22 -> Prop) s o k : ends22 P (k s) -> ends22 P (Emit s o k).
Proof. unfold ends22, fnode22. cbn [flat22]. destruct (flat22 (k s)) as [[s' os] r]. auto. Qed.
Lemma e22_notify (P : node22 -> Prop) prio pgn sa dest data m k : ends22 P (k m) -> ends22 P (notify_subscribers22 prio pgn sa dest data m k).
Proof. unfold ends22, fnode22. rewrite flat22_notify_subscribers. destruct (flat22 (k m)) as [[s os] r]. auto. Qed.

Theorem fd_cm_touches_one prio sa dest data now m :
  let s := tp22_cm_session_num data in
  ends22 (touches22 (Some (tp22_hash s sa dest)) (Some (tp22_hash s dest sa)) m) (process_tp_cm22 prio sa dest data now m).
Proof.
  intros s. unfold process_tp_cm22. fold s.
  destruct (length data <? 12)%nat; [apply e22_done, t22_refl|].
  destruct (_ =? tp22_ctl_RTS).
  { destruct (tmem (f_rcv m) _); apply e22_emit, e22_done; [apply t22_refl|].
    eapply t22_trans; [apply t22_set_rcv|apply t22_wake]. }
  destruct (_ =? tp22_ctl_CTS).
  { destruct (tget (f_snd m) _) as [b|]; [|apply e22_emit, e22_done, t22_refl].
    destruct (byte_at data 7 =? 0); apply e22_done; (eapply t22_trans; [apply t22_set_snd|apply t22_wake]). }
  destruct (_ =? tp22_ctl_EOM_STATUS).
  { destruct (tget (f_rcv m) _) as [b|]; [|apply e22_done, t22_refl].
    assert (Hfin : forall m', touches22 (Some (tp22_hash s sa dest)) (Some (tp22_hash s dest sa)) m m' ->
              ends22 (touches22 (Some (tp22_hash s sa dest)) (Some (tp22_hash s dest sa)) m)
                     (if tmem (f_rcv m') (tp22_hash s sa dest) then Done (set_frcv m' (tdel (f_rcv m') (tp22_hash s sa dest))) 0 else Raise m' E_Key)).
    { intros m' H'. destruct (tmem (f_rcv m') _); [apply e22_done|apply e22_raise; exact H'].
      eapply t22_trans; [exact H'|apply t22_del_rcv]. }
    destruct ((q_size b =? _) && _ && _).
    - apply e22_notify. destruct (negb (dest =? addr_GLOBAL)); [apply e22_emit|]; apply Hfin, t22_refl.
    - destruct (negb (dest =? addr_GLOBAL)); [apply e22_emit|]; apply Hfin, t22_refl. }
  destruct (_ =? tp22_ctl_EOM_ACK).
  { destruct (negb (tmem (f_snd m) _)); [apply e22_emit, e22_done, t22_refl|].
    apply e22_notify. destruct (tget (f_snd m) _) as [b|]; [|apply e22_raise, t22_refl].
    apply e22_done. eapply t22_trans; [apply t22_set_snd|apply t22_wake]. }
  destruct (_ =? tp22_ctl_BAM).
  { apply e22_done. destruct (tmem (f_rcv m) _).
    - eapply t22_trans; [apply t22_del_rcv|]. eapply t22_trans; [apply t22_set_rcv|apply t22_wake].
    - eapply t22_trans; [apply t22_set_rcv|apply t22_wake]. }
  destruct (_ =? tp22_ctl_ABORT).
  { destruct (tget (f_snd m) _) as [b|]; [|apply e22_done, t22_refl].
    destruct (t_state b =? tp22_st_WAITING_CTS); apply e22_done; [apply t22_set_snd|apply t22_refl]. }
  apply e22_raise, t22_refl.
Qed.

Theorem fd_dt_touches_one prio sa dest data now m :
  ends22 (touches22 (Some (tp22_hash (tp22_dt_session_num data) sa dest)) None m) (process_tp_dt22 prio sa dest data now m).
Proof.
  unfold process_tp_dt22.
  destruct (length data <=? 4)%nat; [apply e22_done, t22_refl|].
  destruct (tp22_dt_segment_num data =? 0); [apply e22_done, t22_refl|].
  set (h := tp22_hash (tp22_dt_session_num data) sa dest).
  destruct (tget (f_rcv m) h) as [b|]; [|apply e22_done, t22_refl].
  destruct (negb (q_next b =? _)); [apply e22_done, t22_refl|].
  destruct (len (q_data b ++ skipn 4 data) >=? q_size b).
  { apply e22_done. eapply t22_trans; [apply t22_set_rcv|apply t22_wake]. }
  destruct (negb (dest =? addr_GLOBAL)).
  - destruct (q_border b) as [bd|]; [|apply e22_raise, t22_set_rcv].
    destruct (tp22_dt_segment_num data >=? bd).
    + destruct (q_maxrec b) as [mr|]; [|apply e22_raise, t22_set_rcv].
      apply e22_emit. cbn [f_rcv set_frcv]. rewrite tget_tset_same. cbn [upd_q q_border q_maxrec].
      destruct (q_maxrec b) as [mr2|]; [|apply e22_raise, t22_set_rcv].
      apply e22_done. eapply t22_trans; [apply t22_set_rcv|]. eapply t22_trans; [apply t22_set_rcv|apply t22_wake].
    + apply e22_done. eapply t22_trans; [apply t22_set_rcv|apply t22_set_rcv].
  - apply e22_done. eapply t22_trans; [apply t22_set_rcv|apply t22_set_rcv].
Qed.

(* distinct (session, source, destination) triples have distinct keys *)
Lemma hash22_injective s a d s' a' d' :
  0 <= s < 16 -> 0 <= a < 256 -> 0 <= d < 256 -> 0 <= s' < 16 -> 0 <= a' < 256 -> 0 <= d' < 256 ->
  tp22_hash s a d = tp22_hash s' a' d' -> s = s' /\ a = a' /\ d = d'.
Proof. intros. rewrite !hash22_arith in *. lia. Qed.

Corollary fd_other_sessions_untouched_by_dt prio sa dest data now m s' sa' dest' :
  0 <= sa < 256 -> 0 <= dest < 256 -> 0 <= s' < 16 -> 0 <= sa' < 256 -> 0 <= dest' < 256 ->
  (s', sa', dest') <> (tp22_dt_session_num data, sa, dest) ->
  tget (f_rcv (fnode22 (process_tp_dt22 prio sa dest data now m))) (tp22_hash s' sa' dest') = tget (f_rcv m) (tp22_hash s' sa' dest') /\
  (forall h, tget (f_snd (fnode22 (process_tp_dt22 prio sa dest data now m))) h = tget (f_snd m) h).
Proof.
  intros H1 H2 H3 H4 H5 Hne. destruct (fd_dt_touches_one prio sa dest data now m) as [A B]. split; [|intros h; apply B; discriminate].
  apply A. intro E. inversion E as [E'].
  assert (Hs : 0 <= tp22_dt_session_num data < 16).
  { unfold tp22_dt_session_num. rewrite land_15. lia. }
  apply hash22_injective in E'; try assumption. destruct E' as (X & Y & Z0). apply Hne. congruence.
Qed.

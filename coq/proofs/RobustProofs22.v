(* RobustProofs22.v — C07 (J1939-22): the FD job pass over ANY session tables (receive sessions, multi-PG buffers,
   originator sessions in ANY state, with ANY counters — whatever frames created them) hands on a wake-up time
   strictly in the future, or raises: iterating the job loop cannot spin.  Mirrors RobustProofs.v (J1939-21). *)
From J1939 Require Import Base CodecGlue Model21 Model22.
From J1939.gen Require Import Codec Tp21Gen CaGen Tp22Gen.
From J1939P Require Import CodecProofs Flat MpgProofs PoolProofs.
Local Arguments Z.add : simpl never.
Local Arguments Z.sub : simpl never.
Local Arguments Z.mul : simpl never.

Definition good22 (a : act node22) : Prop := match fres22 a with RDone r => 0 < r | RRaise _ => True end.

Lemma good22_emit s o k : good22 (k s) -> good22 (Emit s o k).
Proof. unfold good22, fres22. cbn [flat22]. destruct (flat22 (k s)) as [[s' os] r]. auto. Qed.
Lemma good22_raise s e : good22 (Raise s e).
Proof. exact I. Qed.

Definition cfg22 (m : node22) : Z * option Z := (f_bam_iv m, n_cmdt_iv (base m)).
Definition cfg22_ok (c : Z * option Z) : Prop := 0 < fst c /\ (forall iv, snd c = Some iv -> 0 < iv).

Lemma T_pos : 0 < tp22_T3 /\ 0 < tp22_T5.
Proof. split; reflexivity. Qed.

Lemma minw_future now nw dl : now < nw -> now < dl -> now < minw nw dl.
Proof. unfold minw. destruct (nw >? dl); lia. Qed.

(* ---------------------------------------------------------------- receive sessions and multi-PG buffers *)
Lemma rcv_pass22_progress c : forall keys now nw m k,
  now < nw -> cfg22 m = c ->
  (forall m' nw', now < nw' -> cfg22 m' = c -> good22 (k m' nw')) ->
  good22 (rcv_pass22 keys now nw m k).
Proof.
  induction keys as [|key ks IH]; intros now nw m k Hnw Hc Hk; cbn [rcv_pass22]; [apply Hk; assumption|].
  destruct (tget (f_rcv m) key) as [b|]; [|apply IH; assumption].
  destruct (q_deadline b =? 0); [apply IH; assumption|].
  destruct (q_deadline b >? now) eqn:E; [apply IH; [apply minw_future; lia|exact Hc|exact Hk]|].
  destruct (negb (q_dst b =? addr_GLOBAL)); [apply good22_emit|]; apply IH; assumption.
Qed.

Lemma mpg_pass_progress c : forall keys now nw m k,
  now < nw -> cfg22 m = c ->
  (forall m' nw', now < nw' -> cfg22 m' = c -> good22 (k m' nw')) ->
  good22 (mpg_pass keys now nw m k).
Proof.
  induction keys as [|key ks IH]; intros now nw m k Hnw Hc Hk; cbn [mpg_pass]; [apply Hk; assumption|].
  destruct (tget (f_mpg m) key) as [b|]; [|apply good22_raise].
  destruct (m_deadline b >? now) eqn:E; [apply IH; [apply minw_future; lia|exact Hc|exact Hk]|].
  destruct (tp22_unhash_mpg key) as [[[ff x] sa] dst].
  destruct (send_multi_pg ff (m_cpgs b) sa dst); [|apply good22_raise].
  apply good22_emit. destruct (tmem (f_mpg m) key); [|apply good22_raise]. apply IH; assumption.
Qed.

(* ---------------------------------------------------------------- the FD burst loop *)
Definition burst_post22 (key now : Z) (c : Z * option Z) (m1 : node22) : Prop :=
  cfg22 m1 = c /\
  exists b1, tget (f_snd m1) key = Some b1 /\
             (now < t_deadline b1 \/ (t_state b1 = tp22_st_SENDING_RTS_CTS /\ t_next b1 >= t_nseg b1)).

Lemma fd_burst_progress key now c : forall fuel m k,
  cfg22_ok c -> cfg22 m = c ->
  (forall b, tget (f_snd m) key = Some b -> t_state b = tp22_st_SENDING_RTS_CTS) ->
  (forall m1, burst_post22 key now c m1 -> good22 (k m1)) ->
  good22 (fd_burst fuel key now m k).
Proof.
  induction fuel as [|f IH]; intros m k Hok Hc Hst Hk; cbn [fd_burst]; [apply good22_raise|].
  destruct (tget (f_snd m) key) as [b|] eqn:G; [|apply good22_raise].
  pose proof (Hst b eq_refl) as Hsb.
  destruct (t_next b <? t_nseg b) eqn:Hlt.
  2:{ apply Hk. split; [exact Hc|]. exists b. split; [exact G|]. right. split; [exact Hsb|lia]. }
  destruct Hok as [Hbiv Hiv]. pose proof T_pos as [HT3 HT5].
  assert (Hcm : n_cmdt_iv (base m) = snd c) by (rewrite <- Hc; reflexivity).
  set (bn := match n_cmdt_iv (base m) with Some iv => with_tnb b (now + iv) | None => b end).
  assert (Hbnst : t_state bn = t_state b) by (unfold bn; destruct (n_cmdt_iv (base m)); reflexivity).
  match goal with |- good22 (match ?r with Some _ => _ | None => _ end) => destruct r as [[b2 brk]|] eqn:Er end; [|apply good22_raise].
  destruct (py_nth (t_data b) (t_next b)) as [seg|]; [|apply good22_raise].
  destruct (dt_frame _ _ _ _ seg) as [[fr seg']|]; [|apply good22_raise].
  apply good22_emit.
  (* the state stored at the key before the frame goes out *)
  set (m1 := set_fsnd m (tset (f_snd m) key (with_tdata b2 (py_set (t_data b2) (t_next b) seg')))).
  assert (Hc1 : cfg22 m1 = c) by exact Hc.
  assert (Hg1 : tget (f_snd m1) key = Some (with_tdata b2 (py_set (t_data b2) (t_next b) seg'))).
  { unfold m1. cbn [f_snd set_fsnd]. apply tget_tset_same. }
  destruct (t_next b + 1 =? t_nseg b) eqn:Elast.
  - (* last segment: WAITING_EOM_ACK with T5 *)
    inversion Er; subst b2 brk. apply good22_emit. apply Hk. split; [exact Hc1|].
    eexists. split; [exact Hg1|]. left. cbn. lia.
  - destruct (t_waitcts b) as [w|]; [|discriminate].
    destruct (t_next b =? w).
    + inversion Er; subst b2 brk. apply Hk. split; [exact Hc1|].
      eexists. split; [exact Hg1|]. left. cbn. lia.
    + destruct (n_cmdt_iv (base m)) as [iv|] eqn:Eiv.
      * inversion Er; subst b2 brk. apply Hk. split; [exact Hc1|].
        eexists. split; [exact Hg1|]. left. cbn. specialize (Hiv iv). rewrite <- Hcm in Hiv. specialize (Hiv eq_refl). lia.
      * inversion Er; subst b2 brk. apply IH; [split; assumption|exact Hc1| |exact Hk].
        intros b' Hb'. rewrite Hg1 in Hb'. inversion Hb'; subst b'. cbn. exact Hsb.
Qed.

(* ---------------------------------------------------------------- originator sessions *)
Lemma release_progress (m : node22) key (b : sbuf22) (cont : node22 -> act node22) c :
  cfg22 m = c -> (forall m3, cfg22 m3 = c -> good22 (cont m3)) ->
  good22 (if tmem (f_snd m) key then put_session (set_fsnd m (tdel (f_snd m) key)) b cont else Raise m E_Key).
Proof.
  intros Hc Hk. destruct (tmem (f_snd m) key); [|apply good22_raise].
  unfold put_session, put_bam, put_rts.
  destruct (t_dst b =? addr_GLOBAL); match goal with |- good22 (match ?p with Some _ => _ | None => _ end) => destruct p end;
    try apply good22_raise; apply Hk; exact Hc.
Qed.

Lemma snd_pass22_progress c : forall keys now nw m k,
  now < nw -> cfg22_ok c -> cfg22 m = c ->
  (forall m' nw', now < nw' -> good22 (k m' nw')) ->
  good22 (snd_pass22 keys now nw m k).
Proof.
  induction keys as [|key ks IH]; intros now nw m k Hnw Hok Hc Hk; cbn [snd_pass22]; [apply Hk; exact Hnw|].
  destruct (tget (f_snd m) key) as [b|] eqn:G; [|apply good22_raise].
  assert (Hrel : good22 (if tmem (f_snd m) key
                         then put_session (set_fsnd m (tdel (f_snd m) key)) b (fun m3 => snd_pass22 ks now nw m3 k)
                         else Raise m E_Key)).
  { apply (release_progress m key b _ c Hc). intros m3 H3. apply IH; assumption. }
  destruct (t_deadline b =? 0); [apply IH; assumption|].
  destruct (t_deadline b >? now) eqn:E; [apply IH; [apply minw_future; lia|exact Hok|exact Hc|exact Hk]|].
  destruct (t_state b =? tp22_st_WAITING_CTS); [apply good22_emit; exact Hrel|].
  destruct (t_state b =? tp22_st_SENDING_RTS_CTS) eqn:E1.
  { apply (fd_burst_progress key now c); [exact Hok|exact Hc| |].
    - intros b' Hb'. rewrite G in Hb'. inversion Hb'; subst. lia.
    - intros m1 (Hc1 & b1 & Hb1 & Hp). rewrite Hb1. pose proof T_pos as [HT3 _].
      apply IH; [|exact Hok|exact Hc1|exact Hk]. apply minw_future; [exact Hnw|].
      destruct Hp as [Hd|[Hs Hn]].
      + destruct ((t_state b1 =? tp22_st_SENDING_RTS_CTS) && (t_next b1 >=? t_nseg b1)); [cbn; lia|exact Hd].
      + assert ((t_state b1 =? tp22_st_SENDING_RTS_CTS) && (t_next b1 >=? t_nseg b1) = true) as -> by lia. cbn. lia. }
  destruct ((t_state b =? tp22_st_WAITING_EOM_ACK) || (t_state b =? tp22_st_EOM_ACK_RECEIVED) || (t_state b =? tp22_st_TRANSMISSION_FINISHED)); [exact Hrel|].
  destruct (t_state b =? tp22_st_SENDING_BAM).
  { destruct (py_nth (t_data b) (t_next b)) as [seg|]; [|apply good22_raise].
    destruct (dt_frame _ _ _ _ seg) as [[fr seg']|]; [|apply good22_raise].
    apply good22_emit. cbn [f_snd set_fsnd]. rewrite tget_tset_same.
    apply IH; [|exact Hok|exact Hc|exact Hk]. apply minw_future; [exact Hnw|].
    cbn. destruct Hok as [Hb _]. rewrite <- Hc in Hb. cbn in Hb. lia. }
  destruct (t_state b =? tp22_st_SENDING_EOM_STATUS); [apply good22_emit; exact Hrel|exact Hrel].
Qed.

(* T07.3 (FD): one pass of the FD transport layer over ANY tables, at ANY instant, returns a wake-up time strictly
   later than that instant (or raises) *)
Theorem dll_job22_progress m now k :
  cfg22_ok (cfg22 m) ->
  (forall m' nw', now < nw' -> good22 (k m' nw')) ->
  good22 (dll_job22 m now k).
Proof.
  intros Hok Hk. unfold dll_job22.
  apply (rcv_pass22_progress (cfg22 m)); [lia|reflexivity|]. intros m1 nw1 H1 C1.
  apply (mpg_pass_progress (cfg22 m)); [exact H1|exact C1|]. intros m2 nw2 H2 C2.
  apply (snd_pass22_progress (cfg22 m)); [exact H2|exact Hok|exact C2|exact Hk].
Qed.

Corollary dll_job22_never_spins m now :
  cfg22_ok (cfg22 m) -> good22 (dll_job22 m now (fun m' nw' => Done m' (nw' - now))).
Proof.
  intros Hok. apply dll_job22_progress; [exact Hok|].
  intros m' nw' H. unfold good22, fres22. cbn. lia.
Qed.

Lemma init22_cfg_ok maxp civ biv :
  (forall v, civ = Some v -> 0 < v) -> (forall v, biv = Some v -> 0 < v) -> cfg22_ok (cfg22 (init_node22 maxp civ biv)).
Proof.
  intros H1 H2. unfold cfg22_ok, cfg22, init_node22, init_node. cbn. split; [|exact H1].
  destruct biv as [v|]; [apply H2; reflexivity|reflexivity].
Qed.

(* non-vacuity: the state that used to spin on the FD layer (a CTS pointing beyond the last segment left the
   session in SENDING_RTS_CTS with nothing to send and a deadline in the past) is parked with a fresh T3 *)
Example cts_beyond_end_progress :
  let b := {| t_pgn := 53248; t_prio := 6; t_session := 0; t_size := 100; t_nseg := 2; t_data := [repeat 1 60; repeat 1 40];
              t_state := tp22_st_SENDING_RTS_CTS; t_deadline := 5000; t_src := 16; t_dst := 32; t_next := 2;
              t_waitcts := Some 2; t_nb := 0 |} in
  let m := set_fsnd (init_node22 8 None None) [(tp22_hash 0 16 32, b)] in
  fres22 (dll_job22 m 6000 (fun m' nw' => Done m' (nw' - 6000))) = RDone 1250000.
Proof. vm_compute. reflexivity. Qed.

(* Dm14Proofs.v — C17/C18/C19: DM14 value conversion, frame layouts, busy guard, key gate. *)
From J1939 Require Import Base Dm14Model.
From J1939.gen Require Import Dm14Gen.
From J1939P Require Import CodecProofs.
Local Arguments Z.add : simpl never.
Local Arguments Z.mul : simpl never.
Local Arguments Z.sub : simpl never.

(* ---------------------------------------------------------------- T17.1 value conversion *)
Lemma le_bytes_length size : forall v, length (le_bytes size v) = size.
Proof. induction size as [|k IH]; intros v; cbn [le_bytes length]; [reflexivity|]. rewrite IH. reflexivity. Qed.

Lemma le_value_le_bytes size : forall v, 0 <= v < 2 ^ (8 * Z.of_nat size) -> le_value (le_bytes size v) = v.
Proof.
  induction size as [|k IH]; intros v H.
  - cbn in *. lia.
  - cbn [le_bytes le_value].
    assert (E : 2 ^ (8 * Z.of_nat (S k)) = 256 * 2 ^ (8 * Z.of_nat k)).
    { replace (8 * Z.of_nat (S k)) with (8 + 8 * Z.of_nat k) by lia. rewrite Z.pow_add_r by lia. reflexivity. }
    rewrite E in H. rewrite IH.
    + pose proof (Z.div_mod v 256 ltac:(lia)). lia.
    + assert (0 < 2 ^ (8 * Z.of_nat k)) by (apply Z.pow_pos_nonneg; lia).
      split; [apply Z.div_pos; lia|]. apply Z.div_lt_upper_bound; lia.
Qed.

Lemma groups_concat (size : nat) : forall (vs : list Z),
  groups (length vs) size (values_to_bytes size vs) = map (le_bytes size) vs.
Proof.
  induction vs as [|v r IH]; [reflexivity|].
  unfold values_to_bytes in *. cbn [map concat length groups].
  rewrite firstn_app. rewrite le_bytes_length. rewrite Nat.sub_diag. cbn [firstn]. rewrite app_nil_r.
  rewrite firstn_all2 by (rewrite le_bytes_length; lia).
  rewrite skipn_app. rewrite le_bytes_length. rewrite Nat.sub_diag. cbn [skipn].
  rewrite skipn_all2 by (rewrite le_bytes_length; lia). cbn [app]. f_equal. exact IH.
Qed.

Lemma values_to_bytes_length size vs : length (values_to_bytes size vs) = (size * length vs)%nat.
Proof.
  unfold values_to_bytes. induction vs as [|v r IH]; cbn [map concat length]; [lia|].
  rewrite app_length, le_bytes_length, IH. lia.
Qed.

(* unsigned values survive write-encoding and read-decoding, for every object size and count *)
Theorem values_roundtrip (size : nat) vs :
  (0 < size)%nat -> Forall (fun v => 0 <= v < 2 ^ (8 * Z.of_nat size)) vs ->
  bytes_to_values size false (values_to_bytes size vs) = vs.
Proof.
  intros Hs Hr. unfold bytes_to_values. rewrite values_to_bytes_length.
  replace (size * length vs / size)%nat with (length vs) by (rewrite Nat.mul_comm, Nat.div_mul; lia).
  rewrite groups_concat. rewrite map_map.
  induction vs as [|v r IH]; [reflexivity|]. inversion Hr; subst. cbn [map]. f_equal; [|apply IH; assumption].
  unfold decode. cbn [andb]. apply le_value_le_bytes. assumption.
Qed.

(* signed decoding is two's complement *)
Theorem signed_decode (size : nat) v :
  (0 < size)%nat -> 0 <= v < 2 ^ (8 * Z.of_nat size) ->
  decode size true (le_bytes size v) = if v >=? 2 ^ (8 * Z.of_nat size - 1) then v - 2 ^ (8 * Z.of_nat size) else v.
Proof.
  intros Hs Hv. unfold decode. rewrite le_value_le_bytes by assumption.
  assert ((0 <? Z.of_nat size) = true) as -> by lia. rewrite andb_true_r. reflexivity.
Qed.

(* ---------------------------------------------------------------- T17.2 DM14 / DM15 / DM16 layouts *)
Theorem dm14_layout oc direct cmd addr key :
  0 <= oc < 256 -> 0 <= direct < 2 -> 0 <= cmd < 8 -> 0 <= addr < 4294967296 -> 0 <= key < 65536 ->
  let d := dm14_payload oc direct cmd addr key in
  length d = 8%nat /\ dm14_object_count d = oc /\ dm14_command d = cmd /\ dm14_pointer_type d = direct /\
  dm14_direct d = direct /\ dm14_access_level d = key /\ le_value (firstn 4 (skipn 2 d)) = addr.
Proof.
  intros Ho Hd Hc Ha Hk. cbv zeta. unfold dm14_payload, le_bytes4. cbn [app length].
  unfold dm14_object_count, dm14_command, dm14_pointer_type, dm14_direct, dm14_access_level, byte_at. cbn [nth firstn skipn le_value].
  rewrite land_255, land_15, land_1. rewrite !shiftl_mul by lia. rewrite !shiftr_div by lia. pow2_norm.
  repeat split; try reflexivity; lia.
Qed.

Theorem dm15_error_layout direct oc error edcp :
  0 <= direct < 2 -> 0 <= error < 16777216 -> 0 <= edcp < 256 ->
  let d := dm15_SEND_ERROR direct 0 oc 0 error edcp in
  dm15_status d = dm15_status_FAILED /\ dm15_error d = error /\ dm15_edcp d = edcp.
Proof.
  intros Hd He Hp. cbv zeta. unfold dm15_SEND_ERROR, dm15_status, dm15_error, dm15_edcp, byte_at. cbn [nth firstn skipn le_value].
  rewrite land_7, !land_255. rewrite !shiftl_mul by lia. rewrite !shiftr_div by lia. pow2_norm.
  unfold dm15_status_FAILED. repeat split; lia.
Qed.
Theorem dm15_seed_layout direct status seed :
  0 <= direct < 2 -> 0 <= status < 8 -> 0 <= seed < 65536 ->
  let d := dm15_WAIT_FOR_KEY direct status 0 seed 0 0 in
  dm15_seed d = seed /\ dm15_status d = status /\ dm15_length d = 0.
Proof.
  intros Hd Hs Hse. cbv zeta. unfold dm15_WAIT_FOR_KEY, dm15_seed, dm15_status, dm15_length, byte_at. cbn [nth].
  rewrite land_7, land_255. rewrite !shiftl_mul by lia. rewrite !shiftr_div by lia. pow2_norm.
  repeat split; lia.
Qed.
Theorem dm15_proceed_layout direct oc :
  0 <= direct < 2 -> 0 <= oc < 256 ->
  let d := dm15_SEND_PROCEED direct dm15_status_PROCEED oc 0 0 0 in
  dm15_length d = oc /\ dm15_status d = dm15_status_PROCEED /\ dm15_seed d = 65535.
Proof.
  intros Hd Ho. cbv zeta. unfold dm15_SEND_PROCEED, dm15_seed, dm15_status, dm15_length, dm15_status_PROCEED, byte_at. cbn [nth].
  rewrite land_7. rewrite !shiftl_mul by lia. rewrite !shiftr_div by lia. pow2_norm.
  repeat split; lia.
Qed.

Theorem dm16_roundtrip bytes : (1 <= length bytes <= 255)%nat -> dm16_extract (dm16_frame bytes) = bytes.
Proof.
  intros H. unfold dm16_frame, dm16_extract, dm16_single_frame_max.
  destruct (Z.of_nat (length bytes) >? 7) eqn:E.
  - replace (Z.to_nat (Z.min 255 (Z.of_nat (length bytes)))) with (length bytes) by lia. apply firstn_all.
  - replace (Z.to_nat (Z.min (Z.of_nat (length bytes)) (Z.of_nat (length bytes)))) with (length bytes) by lia. apply firstn_all.
Qed.

(* ---------------------------------------------------------------- T19.1 busy guard *)
Theorem intruder_gets_busy s r x data :
  v_sa s = Some r -> x <> r ->
  parse_dm14_decision s x data =
  Busy x (dm15_SEND_ERROR (dm14_direct data) dm15_status_FAILED (byte_at data 0) 0 (if v_error s =? 0 then 2 else v_error s) 7).
Proof.
  intros Hs Hx. unfold parse_dm14_decision, busy_guard, busy_answer. rewrite Hs.
  assert ((x =? r) = false) as -> by lia. reflexivity.
Qed.
Theorem other_pointer_gets_busy s a x data :
  v_addr s = Some a -> firstn 4 (skipn 2 data) <> a ->
  exists p, parse_dm14_decision s x data = Busy x p.
Proof.
  intros Ha Hn. unfold parse_dm14_decision, busy_guard, busy_answer. rewrite Ha.
  assert (list_eqb a (firstn 4 (skipn 2 data)) = false) as ->.
  { unfold list_eqb. destruct (list_eq_dec Z.eq_dec a (firstn 4 (skipn 2 data))) as [E|E]; [exfalso; apply Hn; symmetry; exact E|reflexivity]. }
  cbn [negb]. rewrite orb_true_r. cbn [orb]. eexists. reflexivity.
Qed.
(* the answer is a DM15 "operation failed" with error 2 = busy (unless an error is pending), EDCP 7 *)
Theorem busy_answer_is_failed_busy s x data :
  v_error s = 0 -> 0 <= dm14_direct data < 2 ->
  let p := snd (busy_answer s x data) in
  dm15_status p = dm15_status_FAILED /\ dm15_error p = 2 /\ dm15_edcp p = 7 /\ fst (busy_answer s x data) = x.
Proof.
  intros He Hd. cbv zeta. unfold busy_answer. rewrite He. cbn [Z.eqb fst snd].
  destruct (dm15_error_layout (dm14_direct data) (byte_at data 0) 2 7 Hd ltac:(lia) ltac:(lia)) as (A & B & C0).
  unfold dm15_SEND_ERROR in *. repeat split; assumption.
Qed.
(* the legitimate requester with the legitimate pointer is accepted *)
Theorem legitimate_request_accepted s r a data :
  v_sa s = Some r -> v_addr s = Some a -> firstn 4 (skipn 2 data) = a -> v_busy s = false ->
  parse_dm14_decision s r data = Accept.
Proof.
  intros Hs Ha Hd Hb. unfold parse_dm14_decision, busy_guard. rewrite Hs, Ha, Hb, Z.eqb_refl.
  assert (list_eqb a (firstn 4 (skipn 2 data)) = true) as ->.
  { unfold list_eqb. destruct (list_eq_dec Z.eq_dec a (firstn 4 (skipn 2 data))) as [E|E]; [reflexivity|exfalso; apply E; symmetry; exact Hd]. }
  reflexivity.
Qed.

(* ---------------------------------------------------------------- T18.1 key gate *)
Theorem key_gate_spec f seed key :
  (key_gate f seed key = ToApplication <-> key = f seed) /\
  (key <> f seed -> key_gate f seed key = InvalidKey 4099).
Proof.
  unfold key_gate. destruct (Z.eqb_spec (f seed) key) as [E|E]; split.
  - split; [intros _; symmetry; exact E|reflexivity].
  - intros H. exfalso. apply H. symmetry. exact E.
  - split; [discriminate|intros H; exfalso; apply E; symmetry; exact H].
  - reflexivity.
Qed.

Example dm14_example :
  bytes_to_values 2 true (values_to_bytes 2 [0x1234; 0xFFFE]) = [0x1234; -2] /\
  dm14_payload 1 1 1 0x92000003 7 = [1; 19; 3; 0; 0; 146; 7; 0].
Proof. vm_compute. split; reflexivity. Qed.

(* TimeoutProofs22.v — C06/C07 on the J1939-22 layer: what ONE pass of the job thread does to a session whose time limit
   has run out, for EVERY session record, table and continuation: who is told (the abort goes from the side that gives up
   to its peer, under the session's own number), what is released (the session AND, on the originating side, its session
   number, to the pool it came from), and that nothing happens before the deadline. *)
From J1939 Require Import Base CodecGlue Model21 Model22.
From J1939.gen Require Import Codec Tp21Gen CaGen Tp22Gen.
From J1939P Require Import Flat MpgProofs PoolProofs.

Theorem timeouts22_within_standard :
  tp22_T1 = 750000 /\ tp22_T2 = 1250000 /\ tp22_T3 = 1250000 /\ tp22_T4 = 1050000 /\ tp22_T5 = 3000000 /\ tp22_Th = 500000.
Proof. repeat split; reflexivity. Qed.

(* responder: a receive session past its deadline is removed; a connection-mode peer is told (reason 3 = timeout), the
   abort going FROM the address the session was received for TO the originator, under the session's number *)
Theorem rcv22_timeout_releases key now nw m k b :
  tget (f_rcv m) key = Some b -> q_deadline b <> 0 -> q_deadline b <= now ->
  flat22 (rcv_pass22 [key] now nw m k) =
  let m' := set_frcv m (tdel (f_rcv m) key) in
  let '(s, os, r) := flat22 (k m' nw) in
  (s, (if q_dst b =? addr_GLOBAL then [] else [OTx (tp22_abort (q_dst b) (q_src b) (q_session b) tp22_reason_TIMEOUT (q_pgn b))]) ++ os, r).
Proof.
  intros Hget H0 Hle. cbn [rcv_pass22]. rewrite Hget.
  assert ((q_deadline b =? 0) = false) as -> by lia.
  assert ((q_deadline b >? now) = false) as -> by lia.
  destruct (q_dst b =? addr_GLOBAL); cbn [negb flat22 app rcv_pass22];
    destruct (flat22 (k _ nw)) as [[s os] r]; reflexivity.
Qed.

Theorem rcv22_before_deadline key now nw m k b :
  tget (f_rcv m) key = Some b -> now < q_deadline b -> 0 <= now ->
  rcv_pass22 [key] now nw m k = k m (minw nw (q_deadline b)).
Proof.
  intros Hget Hlt H0. cbn [rcv_pass22]. rewrite Hget.
  assert ((q_deadline b =? 0) = false) as -> by lia.
  assert ((q_deadline b >? now) = true) as -> by lia. reflexivity.
Qed.

(* the pool a session number goes back to *)
Definition returned (m : node22) (b : sbuf22) (m' : node22) : Prop :=
  if t_dst b =? addr_GLOBAL
  then exists l, pool_put (f_bam m) (t_session b) = Some l /\ m' = set_fbam m l
  else exists l, pool_put (f_rts m) (t_session b) = Some l /\ m' = set_frts m l.

Definition in_pool (m : node22) (b : sbuf22) : Prop :=
  0 <= t_session b < Z.of_nat (length (if t_dst b =? addr_GLOBAL then f_bam m else f_rts m)).

Lemma put_session_ok m b (k : node22 -> act node22) :
  in_pool m b -> exists m', returned m b m' /\ put_session m b k = k m'.
Proof.
  unfold in_pool, returned, put_session, put_bam, put_rts, pool_put. intros H.
  destruct (t_dst b =? addr_GLOBAL).
  - assert ((t_session b <? 0) = false) as -> by lia.
    assert (((t_session b <? 0) || (t_session b >=? Z.of_nat (length (f_bam m)))) = false) as -> by lia.
    eexists. split; [eexists; split; reflexivity|reflexivity].
  - assert ((t_session b <? 0) = false) as -> by lia.
    assert (((t_session b <? 0) || (t_session b >=? Z.of_nat (length (f_rts m)))) = false) as -> by lia.
    eexists. split; [eexists; split; reflexivity|reflexivity].
Qed.

(* originator waiting for a CTS: abort (reason 3) FROM its own address TO the responder under the session's number, the
   session is removed and its number is back in the pool it was taken from — after T3, whatever the continuation *)
Theorem snd22_timeout_releases key now nw m k b :
  tget (f_snd m) key = Some b -> t_state b = tp22_st_WAITING_CTS -> t_deadline b <> 0 -> t_deadline b <= now ->
  in_pool m b ->
  exists m', returned (set_fsnd m (tdel (f_snd m) key)) b m' /\
  flat22 (snd_pass22 [key] now nw m k) =
  let '(s, os, r) := flat22 (k m' nw) in
  (s, OTx (tp22_abort (t_src b) (t_dst b) (t_session b) tp22_reason_TIMEOUT (t_pgn b)) :: os, r).
Proof.
  intros Hget Hst H0 Hle Hp.
  destruct (put_session_ok (set_fsnd m (tdel (f_snd m) key)) b (fun m3 => snd_pass22 [] now nw m3 k)) as (m' & Hr & He).
  { unfold in_pool in *. destruct (t_dst b =? addr_GLOBAL); exact Hp. }
  exists m'. split; [exact Hr|].
  cbn [snd_pass22]. rewrite Hget.
  assert ((t_deadline b =? 0) = false) as -> by lia.
  assert ((t_deadline b >? now) = false) as -> by lia.
  rewrite Hst. rewrite Z.eqb_refl. cbn [flat22]. rewrite (tmem_get _ _ _ Hget).
  cbn [snd_pass22] in He. rewrite He.
  destruct (flat22 (k m' nw)) as [[s os] r]. reflexivity.
Qed.

(* originator that has sent its end-of-message status and hears no acknowledgement: the session and its number are
   released silently (it owes no abort), T5 after the status *)
Theorem snd22_ack_wait_releases key now nw m k b :
  tget (f_snd m) key = Some b -> t_state b = tp22_st_WAITING_EOM_ACK -> t_deadline b <> 0 -> t_deadline b <= now ->
  in_pool m b ->
  exists m', returned (set_fsnd m (tdel (f_snd m) key)) b m' /\
  snd_pass22 [key] now nw m k = k m' nw.
Proof.
  intros Hget Hst H0 Hle Hp.
  destruct (put_session_ok (set_fsnd m (tdel (f_snd m) key)) b (fun m3 => snd_pass22 [] now nw m3 k)) as (m' & Hr & He).
  { unfold in_pool in *. destruct (t_dst b =? addr_GLOBAL); exact Hp. }
  exists m'. split; [exact Hr|].
  cbn [snd_pass22]. rewrite Hget.
  assert ((t_deadline b =? 0) = false) as -> by lia.
  assert ((t_deadline b >? now) = false) as -> by lia.
  rewrite Hst. change (tp22_st_WAITING_EOM_ACK =? tp22_st_WAITING_CTS) with false.
  change (tp22_st_WAITING_EOM_ACK =? tp22_st_SENDING_RTS_CTS) with false.
  change (tp22_st_WAITING_EOM_ACK =? tp22_st_WAITING_EOM_ACK) with true. cbn [orb].
  rewrite (tmem_get _ _ _ Hget). cbn [snd_pass22] in He. exact He.
Qed.

(* an acknowledged or finished session goes the same way at its next deadline (the session number cannot leak) *)
Theorem snd22_finished_releases key now nw m k b :
  tget (f_snd m) key = Some b ->
  t_state b = tp22_st_EOM_ACK_RECEIVED \/ t_state b = tp22_st_TRANSMISSION_FINISHED ->
  t_deadline b <> 0 -> t_deadline b <= now -> in_pool m b ->
  exists m', returned (set_fsnd m (tdel (f_snd m) key)) b m' /\
  snd_pass22 [key] now nw m k = k m' nw.
Proof.
  intros Hget Hst H0 Hle Hp.
  destruct (put_session_ok (set_fsnd m (tdel (f_snd m) key)) b (fun m3 => snd_pass22 [] now nw m3 k)) as (m' & Hr & He).
  { unfold in_pool in *. destruct (t_dst b =? addr_GLOBAL); exact Hp. }
  exists m'. split; [exact Hr|].
  cbn [snd_pass22]. rewrite Hget.
  assert ((t_deadline b =? 0) = false) as -> by lia.
  assert ((t_deadline b >? now) = false) as -> by lia.
  destruct Hst as [Hst|Hst]; rewrite Hst.
  - change (tp22_st_EOM_ACK_RECEIVED =? tp22_st_WAITING_CTS) with false.
    change (tp22_st_EOM_ACK_RECEIVED =? tp22_st_SENDING_RTS_CTS) with false.
    change (tp22_st_EOM_ACK_RECEIVED =? tp22_st_WAITING_EOM_ACK) with false.
    change (tp22_st_EOM_ACK_RECEIVED =? tp22_st_EOM_ACK_RECEIVED) with true. cbn [orb].
    rewrite (tmem_get _ _ _ Hget). cbn [snd_pass22] in He. exact He.
  - change (tp22_st_TRANSMISSION_FINISHED =? tp22_st_WAITING_CTS) with false.
    change (tp22_st_TRANSMISSION_FINISHED =? tp22_st_SENDING_RTS_CTS) with false.
    change (tp22_st_TRANSMISSION_FINISHED =? tp22_st_WAITING_EOM_ACK) with false.
    change (tp22_st_TRANSMISSION_FINISHED =? tp22_st_EOM_ACK_RECEIVED) with false.
    change (tp22_st_TRANSMISSION_FINISHED =? tp22_st_TRANSMISSION_FINISHED) with true. cbn [orb].
    rewrite (tmem_get _ _ _ Hget). cbn [snd_pass22] in He. exact He.
Qed.

(* before its deadline a send session is left alone whatever its state; only the wake-up time is bounded *)
Theorem snd22_before_deadline key now nw m k b :
  tget (f_snd m) key = Some b -> now < t_deadline b -> 0 <= now ->
  snd_pass22 [key] now nw m k = k m (minw nw (t_deadline b)).
Proof.
  intros Hget Hlt H0. cbn [snd_pass22]. rewrite Hget.
  assert ((t_deadline b =? 0) = false) as -> by lia.
  assert ((t_deadline b >? now) = true) as -> by lia. reflexivity.
Qed.

(* the number really is usable again: a returned number is free in the pool *)
Lemma returned_is_free m b m' :
  in_pool m b -> returned m b m' ->
  nth_error (if t_dst b =? addr_GLOBAL then f_bam m' else f_rts m') (Z.to_nat (t_session b)) = Some true.
Proof.
  unfold in_pool, returned. intros Hp Hr. destruct (t_dst b =? addr_GLOBAL);
    destruct Hr as (l & Hl & ->); apply pool_put_spec in Hl; try lia; subst l; cbn [f_bam f_rts set_fbam set_frts];
    apply upd_nth_same; lia.
Qed.

Example timeout22_example :
  let m0 := init_node22 1 None None in
  let b := {| t_pgn := 53248; t_prio := 6; t_session := 0; t_size := 100; t_nseg := 2; t_data := []; t_state := tp22_st_WAITING_CTS;
              t_deadline := 1250001; t_src := 16; t_dst := 32; t_next := 0; t_waitcts := Some 0; t_nb := 0 |} in
  let m := set_fsnd (set_frts m0 (false :: repeat true 7)) [(7, b)] in
  tget (f_snd m) 7 = Some b /\ in_pool m b /\
  f_rts (fst (fst (flat22 (snd_pass22 [7] 1250001 0 m (fun m' _ => Done m' 0))))) = repeat true 8.
Proof. vm_compute. repeat split; try reflexivity; discriminate. Qed.

(* Net21Proofs.v — C01 end to end: in the closed loop of two model nodes (Net21.v) a connection-mode transfer of ANY
   payload p (9 .. 65535 bytes in the model; the code limits it to 1785) with ANY window sizes on both sides delivers
   exactly p, once, to the subscriber on B; afterwards nothing is queued and no session is left on either side. *)
From J1939 Require Import Base CodecGlue Model21.
From J1939.gen Require Import Codec Tp21Gen CaGen.
From J1939P Require Import CodecProofs Flat Tp21Seg Tp21Resp Tp21Orig Net21.
Local Arguments Z.add : simpl never.
Local Arguments Z.sub : simpl never.
Local Arguments Z.mul : simpl never.

Section RespStep.
  Variables (sa dest pgn : Z) (p : list Z).
  Let h := tp21_hash sa dest.
  Let n_ := Z.of_nat (npk (length p)).
  Hypothesis Hdest : dest <> addr_GLOBAL.
  Notation inv := (inv pgn p).
  Notation expect := (expect 7 sa dest pgn p).

  (* one DT of the canonical sequence through the handler: the step of feed_inv, with the new session made explicit *)
  Lemma dt_step g (k : nat) n b t : 1 <= g <= n_ -> (k < npk (length p))%nat ->
    tget (n_rcv n) h = Some b -> inv g k b -> r_src b = sa -> r_dst b = dest ->
    exists n', flat (process_tp_dt 7 sa dest (dt_payload p (Z.of_nat k)) t n) = (n', expect n g k 1, RDone 0) /\
               same_env n n' /\
               (if (S k =? npk (length p))%nat then n_rcv n' = tdel (n_rcv n) h
                else exists b', n_rcv n' = tset (n_rcv n) h b' /\ inv g (S k) b' /\ r_src b' = sa /\ r_dst b' = dest /\
                                t < r_deadline b').
  Proof.
    intros Hg Hk Hget (Hd & Hs & Hn & Hm & Hpg & Hb) Hsrc Hdst.
    cbn [Tp21Resp.expect]. rewrite app_nil_r. fold n_.
    rewrite dt_payload_spec. unfold process_tp_dt. fold h. rewrite Hget.
    assert (Hlen : len (r_data b ++ pad7 (seg7 p k)) = 7 * Z.of_nat (S k)).
    { unfold len. rewrite app_length, Hd, segs_len, pad7_len by apply seg7_len_le. lia. }
    rewrite Hlen, Hs.
    assert (Hne : (dest =? addr_GLOBAL) = false) by (apply Z.eqb_neq; exact Hdest).
    rewrite Hne. cbn [negb andb].
    destruct (Z.geb_spec (7 * Z.of_nat (S k)) (len p)) as [Hdone|Hmore].
    - assert (S k = npk (length p)) as E0 by (unfold len, npk in *; lia).
      assert (Z.of_nat k + 1 = n_) as E by (unfold n_; lia).
      rewrite (proj2 (Z.eqb_eq _ _) E). rewrite (proj2 (Nat.eqb_eq _ _) E0).
      cbn [flat]. rewrite flat_notify_subscribers.
      cbn [n_rcv set_rcv]. rewrite tmem_tset_same. cbn [flat].
      assert (Hp : firstn (Z.to_nat (len p)) (r_data b ++ pad7 (seg7 p k)) = p).
      { unfold len. rewrite Nat2Z.id. rewrite Hd.
        change (segs p k ++ pad7 (seg7 p k)) with (segs p (S k)).
        rewrite E0. apply seg7_reassemble. }
      rewrite Hp, Hpg, Hn.
      eexists. split; [|split].
      + rewrite !app_nil_r. erewrite (deliveries_env n); [reflexivity|reflexivity|reflexivity].
      + unfold same_env. cbn. repeat split; reflexivity.
      + cbn [n_rcv wake set_rcv]. rewrite tdel_tset_same. reflexivity.
    - assert (S k <> npk (length p)) as NE0 by (unfold len, npk in *; lia).
      assert (Z.of_nat k + 1 <> n_) as NE by (unfold n_, len, npk in *; lia).
      rewrite (proj2 (Z.eqb_neq _ _) NE). rewrite (proj2 (Nat.eqb_neq _ _) NE0).
      rewrite Hb, Hm. fold n_.
      set (kz := Z.of_nat k) in *.
      assert (Hkn : kz + 1 < n_) by (unfold n_, kz, len, npk in *; lia).
      destruct (Z.eqb_spec ((kz + 1) mod g) 0) as [Hmod|Hmod].
      + destruct (border_hit sa dest p g kz ltac:(lia) ltac:(unfold kz; lia) Hmod) as [Hh1 Hh2].
        assert (Hbd : Z.min ((kz / g + 1) * g) n_ = kz + 1) by lia.
        rewrite Hbd. rewrite (proj2 (Z.geb_le _ _)) by lia.
        cbn [flat n_rcv set_rcv]. rewrite tget_tset_same.
        cbn [r_maxrec upd_rbuf]. rewrite Hm. cbn [flat r_next r_num r_data upd_rbuf].
        rewrite Hn, Hpg. rewrite tset_tset_same.
        eexists. split; [|split].
        * replace (kz + 1 + 1) with (kz + 2) by ring. reflexivity.
        * unfold same_env. cbn. repeat split; reflexivity.
        * eexists. split; [cbn [n_rcv wake set_rcv]; reflexivity|].
          cbn [upd_rbuf r_src r_dst r_deadline]. split; [|split; [exact Hsrc|split; [exact Hdst|unfold tp21_T2; lia]]].
          unfold Tp21Resp.inv. cbn [upd_rbuf r_data r_size r_num r_maxrec r_pgn r_next].
          repeat split; auto.
          -- rewrite Hd. reflexivity.
          -- replace (Z.of_nat (S k)) with (kz + 1) by (unfold kz; lia).
             rewrite Hh2. replace ((kz / g + 1 + 1) * g) with ((kz / g + 1) * g + g) by ring. lia.
      + destruct (border_miss sa dest p g kz ltac:(lia) ltac:(unfold kz; lia) Hmod) as [Hm1 Hm2].
        assert (Hbd : kz + 1 < Z.min ((kz / g + 1) * g) n_) by lia.
        assert ((kz + 1 >=? Z.min ((kz / g + 1) * g) n_) = false) as -> by lia.
        cbn [flat].
        eexists. split; [reflexivity|split].
        * unfold same_env. cbn. repeat split; reflexivity.
        * eexists. split; [cbn [n_rcv wake set_rcv]; rewrite tset_tset_same; reflexivity|].
          cbn [upd_rbuf r_src r_dst r_deadline]. split; [|split; [exact Hsrc|split; [exact Hdst|unfold tp21_T1; lia]]].
          unfold Tp21Resp.inv. cbn [upd_rbuf r_data r_size r_num r_maxrec r_pgn r_next].
          repeat split; auto.
          -- rewrite Hd. reflexivity.
          -- replace (Z.of_nat (S k)) with (kz + 1) by (unfold kz; lia).
             rewrite Hm1. reflexivity.
  Qed.
End RespStep.

(* ---------------------------------------------------------------- the step function, case by case *)
Lemma step_b s f r : qb s = f :: r ->
  step s = let '(n', os) := handle (nb s) (clk s) f in
           {| na := na s; nb := n'; qa := qa s ++ txs os; qb := r; clk := clk s;
              eva := eva s; evb := evb s ++ evs os; wab := wab s; wba := wba s ++ txs os |}.
Proof. intros H. unfold step. rewrite H. reflexivity. Qed.
Lemma step_a s f r : qb s = [] -> qa s = f :: r ->
  step s = let '(n', os) := handle (na s) (clk s) f in
           {| na := n'; nb := nb s; qa := r; qb := txs os; clk := clk s;
              eva := eva s ++ evs os; evb := evb s; wab := wab s ++ txs os; wba := wba s |}.
Proof. intros H1 H2. unfold step. rewrite H1, H2. reflexivity. Qed.
Lemma step_idle s : qb s = [] -> qa s = [] ->
  step s = let '(a', oa, ra) := flat (job_iter (na s) (clk s)) in
           let '(b', ob, rb) := flat (job_iter (nb s) (clk s)) in
           let quiet := match txs oa, txs ob with [], [] => true | _, _ => false end in
           let dt := if quiet && (n_wakes a' =? n_wakes (na s)) && (n_wakes b' =? n_wakes (nb s))
                     then Z.max 0 (Z.min (sleep_of ra) (sleep_of rb)) else 0 in
           {| na := a'; nb := b'; qa := txs ob; qb := txs oa; clk := clk s + dt;
              eva := eva s ++ evs oa; evb := evb s ++ evs ob; wab := wab s ++ txs oa; wba := wba s ++ txs ob |}.
Proof. intros H1 H2. unfold step. rewrite H1, H2. reflexivity. Qed.

Lemma txs_deliveries n prio pgn sa dest d : txs (deliveries n prio pgn sa dest d) = [].
Proof. unfold deliveries, deliveries_from. induction (filter _ _) as [|x r IH]; [reflexivity|exact IH]. Qed.
Lemma evs_deliveries n prio pgn sa dest d : evs (deliveries n prio pgn sa dest d) = deliveries n prio pgn sa dest d.
Proof. unfold deliveries, deliveries_from. induction (filter _ _) as [|x r IH]; [reflexivity|cbn [map evs filter]; f_equal; exact IH]. Qed.

Definition dtf (sa dest : Z) (p : list Z) (k : nat) : frame := tp21_dt sa dest (dt_payload p (Z.of_nat k)).
Definition dtfs (sa dest : Z) (p : list Z) (k m : nat) : list frame := map (dtf sa dest p) (seq k m).
Lemma txs_dts sa dest p : forall m k, txs (dts sa dest p (Z.of_nat k) m) = dtfs sa dest p k m.
Proof.
  induction m as [|m IH]; intros k; [reflexivity|]. cbn [dts txs flat_map app seq map dtfs]. unfold dtfs in IH.
  f_equal. replace (Z.of_nat k + 1) with (Z.of_nat (S k)) by lia. apply IH.
Qed.
Lemma evs_dts sa dest p : forall m x, evs (dts sa dest p x m) = [].
Proof. induction m as [|m IH]; intros x; [reflexivity|]. cbn [dts evs filter]. apply IH. Qed.
Lemma dtfs_snoc sa dest p k m : dtfs sa dest p k m ++ [dtf sa dest p (k + m)] = dtfs sa dest p k (S m).
Proof. unfold dtfs. rewrite seq_S, map_app. reflexivity. Qed.
Lemma dtfs_app sa dest p k m m' : dtfs sa dest p k m ++ dtfs sa dest p (k + m) m' = dtfs sa dest p k (m + m').
Proof. unfold dtfs. rewrite seq_app, map_app. reflexivity. Qed.

Lemma mod_in_window q g x : 0 < g -> q * g < x < q * g + g -> x mod g <> 0.
Proof. intros Hg Hx. rewrite <- (Z.mod_unique x g q (x - q * g)); lia. Qed.
Lemma mod_at_border q g : 0 < g -> (q * g + g) mod g = 0.
Proof. intros Hg. replace (q * g + g) with ((q + 1) * g) by ring. apply Z.mod_mul. lia. Qed.

(* ---------------------------------------------------------------- the closed loop *)
Section Loop.
  Variables (prio sa dest dp pf : Z) (p : list Z) (t0 : Z) (A0 B0 : node).
  Hypothesis Hprio : 0 <= prio < 8.
  Hypothesis Hsa : 0 <= sa < 255.
  Hypothesis Hdest : 0 <= dest < 255.
  Hypothesis Hpf : 0 <= pf < 240.
  Hypothesis Hdp : 0 <= dp < 2.
  Hypothesis Hsize : 8 < len p <= 1785.
  Hypothesis Ht0 : 0 < t0.
  Let pv := dp * 65536 + pf * 256.
  Let np := npk (length p).
  Let num := Z.of_nat np.
  Let h := tp21_hash sa dest.
  Let limit := Z.min (n_maxp A0) num.
  Let g0 := Z.min (n_maxp B0) (Z.min limit num).
  Hypothesis HA : n_snd A0 = [] /\ n_rcv A0 = [] /\ n_timers A0 = [] /\ n_cmdt_iv A0 = None /\
                  accepts A0 sa = true /\ 1 <= n_maxp A0.
  Hypothesis HB : n_snd B0 = [] /\ n_rcv B0 = [] /\ n_timers B0 = [] /\ accepts B0 dest = true /\ 1 <= n_maxp B0.

  Definition sbA (st dl nx : Z) (w : option Z) : sbuf :=
    {| s_pgn := pv; s_prio := prio; s_size := len p; s_num := num; s_data := p; s_state := st; s_deadline := dl;
       s_src := sa; s_dst := dest; s_next := nx; s_waitcts := w; s_nb := 0 |}.

  Definition envA (a : node) : Prop :=
    n_rcv a = [] /\ n_timers a = [] /\ n_cmdt_iv a = None /\ n_subs a = n_subs A0 /\ n_cas a = n_cas A0 /\ n_maxp a = n_maxp A0.
  Definition envB (b : node) : Prop :=
    n_snd b = [] /\ n_timers b = [] /\ n_subs b = n_subs B0 /\ n_cas b = n_cas B0 /\ n_maxp b = n_maxp B0.

  Lemma num_pos : 2 <= num <= 255.
  Proof. unfold num, np, npk. unfold len in Hsize. lia. Qed.
  Lemma g0_range : 1 <= g0 <= num.
  Proof. pose proof num_pos. destruct HA as (_ & _ & _ & _ & _ & Ha). destruct HB as (_ & _ & _ & _ & Hb). unfold g0, limit. lia. Qed.
  Lemma pv_range : 0 <= pv < 262144.
  Proof. unfold pv. lia. Qed.

  Lemma acceptsA a : envA a -> accepts a sa = true.
  Proof. intros (_ & _ & _ & Es & Ec & _). destruct HA as (_ & _ & _ & _ & Ha & _).
    unfold accepts, ecu_acceptable in *. rewrite Es, Ec. exact Ha. Qed.
  Lemma acceptsB b : envB b -> accepts b dest = true.
  Proof. intros (_ & _ & Es & Ec & _). destruct HB as (_ & _ & _ & Hb & _).
    unfold accepts, ecu_acceptable in *. rewrite Es, Ec. exact Hb. Qed.

  (* ---- the job iteration of an idle node, and of A with an open window or a finished session *)
  Lemma job_B_wait b rb : n_rcv b = [(h, rb)] -> t0 < r_deadline rb -> n_snd b = [] -> n_timers b = [] ->
    exists r, flat (job_iter b t0) = (b, [], RDone r).
  Proof.
    intros Hr Hd Hs Ht. unfold job_iter, dll_job. rewrite Hr. cbn [tkeys map fst rcv_pass]. rewrite Hr. cbn [tget].
    rewrite Z.eqb_refl. assert ((r_deadline rb =? 0) = false) as -> by lia.
    assert ((r_deadline rb >? t0) = true) as -> by lia.
    rewrite Hs. cbn [tkeys map snd_pass]. rewrite Ht. cbn [timer_pass flat]. eexists. reflexivity.
  Qed.
  Lemma job_idle n : n_rcv n = [] -> n_snd n = [] -> n_timers n = [] ->
    forall t, flat (job_iter n t) = (n, [], RDone (t + 5000000 - t)).
  Proof.
    intros Hr Hs Ht t. unfold job_iter, dll_job. rewrite Hr. cbn [tkeys map rcv_pass]. rewrite Hs. cbn [tkeys map snd_pass].
    rewrite Ht. reflexivity.
  Qed.

  Lemma job_A_burst a (e : Z) (g : nat) dl : envA a -> n_snd a = [(h, sbA ST_SENDING_IN_CTS dl e (Some (e + Z.of_nat g)))] ->
    0 <= e -> e + Z.of_nat g < num -> dl <> 0 -> dl <= t0 ->
    exists r, flat (job_iter a t0) =
      (set_snd a [(h, sbA ST_WAITING_CTS (t0 + tp21_T3) (e + Z.of_nat g + 1) (Some (e + Z.of_nat g)))],
       dts sa dest p e (S g), RDone r).
  Proof.
    intros (Er & Et & Ei & _ & _) Hs He Hlt Hd0 Hdl. unfold job_iter, dll_job. rewrite Er. cbn [tkeys map rcv_pass].
    rewrite Hs. cbn [tkeys map fst].
    rewrite (window_burst sa dest a (sbA ST_SENDING_IN_CTS dl e (Some (e + Z.of_nat g))) g e t0); try assumption; try reflexivity.
    2:{ rewrite Hs. cbn [tget]. fold h. rewrite Z.eqb_refl. reflexivity. }
    cbv zeta. cbn [n_timers set_snd]. rewrite Et. cbn [timer_pass flat]. rewrite app_nil_r.
    rewrite Hs. cbn [tset]. fold h. rewrite Z.eqb_refl. eexists. reflexivity.
  Qed.

  Lemma job_A_finished a nx w : envA a -> n_snd a = [(h, sbA ST_FINISHED t0 nx w)] ->
    exists r, flat (job_iter a t0) = (set_snd a [], [], RDone r).
  Proof.
    intros (Er & Et & Ei & _ & _) Hs. unfold job_iter, dll_job. rewrite Er. cbn [tkeys map rcv_pass].
    rewrite Hs. cbn [tkeys map fst snd_pass]. rewrite Hs. cbn [tget]. rewrite Z.eqb_refl. cbn [sbA s_deadline s_state].
    assert ((t0 =? 0) = false) as -> by lia. assert ((t0 >? t0) = false) as -> by lia.
    change (ST_FINISHED =? ST_WAITING_CTS) with false. change (ST_FINISHED =? ST_SENDING_IN_CTS) with false.
    change (ST_FINISHED =? ST_SENDING_BM) with false. cbv iota.
    cbn [tdel]. rewrite Z.eqb_refl. cbn [n_snd set_snd tkeys map snd_pass n_timers]. rewrite Et.
    cbn [timer_pass flat]. eexists. reflexivity.
  Qed.

  (* ---- the frame handlers on the two nodes *)
  Definition rts : frame := tp21_rts sa dest prio pv (len p) num limit.
  Definition rb0 : rbuf :=
    {| r_pgn := pv; r_size := len p; r_num := num; r_next := g0; r_maxrec := Some g0; r_data := [];
       r_deadline := t0 + tp21_T2; r_src := sa; r_dst := dest |}.

  Lemma hB_rts b : envB b -> n_rcv b = [] ->
    handle b t0 rts = (wake (set_rcv b [(h, rb0)]), [OTx (tp21_cts dest sa g0 1 pv)]).
  Proof.
    intros Eb Hr. pose proof (acceptsB b Eb) as Hacc. destruct Eb as (_ & _ & _ & _ & Em).
    pose proof num_pos as Hn. pose proof pv_range as Hpv.
    destruct HA as (_ & _ & _ & _ & _ & Ha). destruct HB as (_ & _ & _ & _ & Hb).
    unfold handle, rts.
    rewrite (responder_rts prio sa dest pv limit p t0); try assumption; try lia.
    - rewrite Em, Hr. reflexivity.
    - rewrite Hr. reflexivity.
  Qed.

  Lemma hA_cts a st dl e w c : envA a -> n_snd a = [(h, sbA st dl e w)] -> 0 <= e -> 1 <= c -> e + c <= num ->
    handle a t0 (tp21_cts dest sa c (e + 1) pv) =
    (wake (set_snd a [(h, sbA ST_SENDING_IN_CTS (Z.max t0 0) e (Some (e + c - 1)))]), []).
  Proof.
    intros Ea Hs He Hc Hle. pose proof (acceptsA a Ea) as Hacc. pose proof pv_range as Hpv.
    unfold handle. cbn [tp21_cts f_id].
    rewrite notify_tp_cm by (try assumption; lia).
    change [17; c; e + 1; 255; 255; Z.land pv 255; Z.land (Z.shiftr pv 8) 255; Z.land (Z.shiftr pv 16) 255]
      with (f_data (tp21_cts dest sa c (e + 1) pv)).
    rewrite (cts_opens_window sa dest a (sbA st dl e w) 7 pv c e t0); try reflexivity; try lia.
    - rewrite Hs. cbn [tset]. fold h. rewrite Z.eqb_refl. reflexivity.
    - rewrite Hs. cbn [tget]. fold h. rewrite Z.eqb_refl. reflexivity.
    - cbn [sbA s_num]. exact Hle.
  Qed.

  Definition eom : frame := tp21_eom_ack dest sa (len p) num pv.

  Lemma hA_eom a st dl nx w : envA a -> n_snd a = [(h, sbA st dl nx w)] ->
    exists os, handle a t0 eom = (wake (set_snd a [(h, sbA ST_FINISHED t0 nx w)]), os) /\ txs os = [].
  Proof.
    intros Ea Hs. pose proof (acceptsA a Ea) as Hacc.
    unfold handle, eom. cbn [tp21_eom_ack f_id f_data].
    rewrite notify_tp_cm by (try assumption; lia).
    unfold process_tp_cm. cbn [length Nat.ltb Nat.leb]. unfold tp21_cm_control, byte_at. cbn [nth].
    change (19 =? tp21_cm_RTS) with false. change (19 =? tp21_cm_CTS) with false. change (19 =? tp21_cm_EOM_ACK) with true.
    cbv iota. fold h. unfold tmem. rewrite Hs. cbn [tget]. rewrite Z.eqb_refl. cbn [negb].
    rewrite flat_notify_subscribers. rewrite Hs. cbn [tget]. rewrite Z.eqb_refl. cbn [flat tset]. rewrite Z.eqb_refl.
    eexists. split; [rewrite app_nil_r; reflexivity|apply txs_deliveries].
  Qed.

  Definition cts_or_eom (k : nat) : list out :=
    if Z.of_nat k + 1 =? num then OTx eom :: deliveries B0 7 pv sa dest p
    else if (Z.of_nat k + 1) mod g0 =? 0
         then [OTx (tp21_cts dest sa (Z.min g0 (num - (Z.of_nat k + 1))) (Z.of_nat k + 2) pv)]
         else [].

  Lemma hB_dt b rb (k : nat) : envB b -> n_rcv b = [(h, rb)] -> inv pv p g0 k rb -> r_src rb = sa -> r_dst rb = dest ->
    (k < np)%nat ->
    exists b', handle b t0 (dtf sa dest p k) = (b', cts_or_eom k) /\ envB b' /\
               (if (S k =? np)%nat then n_rcv b' = []
                else exists rb', n_rcv b' = [(h, rb')] /\ inv pv p g0 (S k) rb' /\ r_src rb' = sa /\ r_dst rb' = dest /\
                                 t0 < r_deadline rb').
  Proof.
    intros Eb Hr Hinv Hsrc Hdst Hk. pose proof (acceptsB b Eb) as Hacc. pose proof g0_range as Hg.
    destruct (dt_step sa dest pv p ltac:(unfold addr_GLOBAL; lia) g0 k b rb t0 Hg Hk) as (b' & Hf & He & Hn); try assumption.
    { rewrite Hr. cbn [tget]. fold h. rewrite Z.eqb_refl. reflexivity. }
    exists b'. unfold handle, dtf. cbn [tp21_dt f_id f_data].
    rewrite notify_tp_dt by (try assumption; lia). rewrite Hf.
    destruct Eb as (E1 & E2 & E3 & E4 & E5). destruct He as (S1 & S2 & S3 & S4 & S5 & S6 & S7).
    split; [|split].
    - f_equal. cbn [expect]. rewrite app_nil_r. unfold cts_or_eom, eom. fold num.
      rewrite (deliveries_env B0 b) by assumption. reflexivity.
    - unfold envB. rewrite S3, S4, S1, S2, S5. repeat split; assumption.
    - fold np in Hn. destruct (S k =? np)%nat.
      + rewrite Hn, Hr. cbn [tdel]. fold h. rewrite Z.eqb_refl. reflexivity.
      + destruct Hn as (rb' & H1 & H2 & H3 & H4 & H5). exists rb'. split; [|split; [exact H2|split; [exact H3|split; [exact H4|exact H5]]]].
        rewrite H1, Hr. cbn [tset]. fold h. rewrite Z.eqb_refl. reflexivity.
  Qed.

  (* ---- the shapes the network goes through *)
  Definition common (s : net) : Prop := clk s = t0 /\ envA (na s) /\ envB (nb s).
  Definition cnt (e : nat) : Z := Z.min g0 (num - Z.of_nat e).            (* packets granted for the window starting at e *)
  Definition wend (e : nat) : nat := Z.to_nat (Z.of_nat e + cnt e).       (* its end *)
  Definition at_border (e : nat) : Prop := exists q, 0 <= q /\ Z.of_nat e = q * g0.
  Definition Bsess (s : net) (k : nat) : Prop :=
    exists rb, n_rcv (nb s) = [(h, rb)] /\ inv pv p g0 k rb /\ r_src rb = sa /\ r_dst rb = dest /\ t0 < r_deadline rb.
  Definition cts (e : nat) : frame := tp21_cts dest sa (cnt e) (Z.of_nat e + 1) pv.
  Definition delivered : list out := deliveries B0 7 pv sa dest p.

  Definition ShRts (s : net) : Prop :=
    common s /\ qa s = [] /\ qb s = [rts] /\ n_snd (na s) = [(h, sbA ST_WAITING_CTS (t0 + tp21_T3) 0 (Some 0))] /\
    n_rcv (nb s) = [] /\ evb s = [] /\ wab s = [rts].
  Definition ShCts (e : nat) (s : net) : Prop :=
    common s /\ at_border e /\ (e < np)%nat /\ qa s = [cts e] /\ qb s = [] /\
    (exists st dl w, n_snd (na s) = [(h, sbA st dl (Z.of_nat e) w)]) /\
    Bsess s e /\ evb s = [] /\ wab s = rts :: dtfs sa dest p 0 e.
  Definition ShSend (e : nat) (s : net) : Prop :=
    common s /\ at_border e /\ (e < np)%nat /\ qa s = [] /\ qb s = [] /\
    n_snd (na s) = [(h, sbA ST_SENDING_IN_CTS (Z.max t0 0) (Z.of_nat e) (Some (Z.of_nat e + cnt e - 1)))] /\
    Bsess s e /\ evb s = [] /\ wab s = rts :: dtfs sa dest p 0 e.
  Definition ShDt (e k : nat) (s : net) : Prop :=
    common s /\ at_border e /\ (e <= k < wend e)%nat /\ (e < np)%nat /\ qa s = [] /\ qb s = dtfs sa dest p k (wend e - k) /\
    n_snd (na s) = [(h, sbA ST_WAITING_CTS (t0 + tp21_T3) (Z.of_nat (wend e)) (Some (Z.of_nat e + cnt e - 1)))] /\
    Bsess s k /\ evb s = [] /\ wab s = rts :: dtfs sa dest p 0 (wend e).
  Definition ShEom (s : net) : Prop :=
    common s /\ qa s = [eom] /\ qb s = [] /\ (exists st dl nx w, n_snd (na s) = [(h, sbA st dl nx w)]) /\
    n_rcv (nb s) = [] /\ evb s = delivered /\ wab s = rts :: dtfs sa dest p 0 np.
  Definition ShFin (s : net) : Prop :=
    common s /\ qa s = [] /\ qb s = [] /\ (exists nx w, n_snd (na s) = [(h, sbA ST_FINISHED t0 nx w)]) /\
    n_rcv (nb s) = [] /\ evb s = delivered /\ wab s = rts :: dtfs sa dest p 0 np.
  (* the end: nothing queued, no session on either side, p delivered once, the wire carried RTS, DT_1 .. DT_n *)
  Definition ShDone (s : net) : Prop :=
    qa s = [] /\ qb s = [] /\ n_snd (na s) = [] /\ n_rcv (na s) = [] /\ n_snd (nb s) = [] /\ n_rcv (nb s) = [] /\
    evb s = delivered /\ wab s = rts :: dtfs sa dest p 0 np /\
    (t0 <= clk s /\ envA (na s) /\ envB (nb s)).

  Lemma envA_wake_snd a X : envA a -> envA (wake (set_snd a X)).
  Proof. intros E. exact E. Qed.
  Lemma envA_snd a X : envA a -> envA (set_snd a X).
  Proof. intros E. exact E. Qed.
  Lemma envB_wake_rcv b X : envB b -> envB (wake (set_rcv b X)).
  Proof. intros E. exact E. Qed.

  Lemma wend_facts e : at_border e -> (e < np)%nat ->
    1 <= cnt e <= g0 /\ Z.of_nat (wend e) = Z.of_nat e + cnt e /\ (e < wend e <= np)%nat.
  Proof.
    intros _ He. pose proof g0_range as Hg. unfold wend, cnt. fold num. unfold num in *. lia.
  Qed.

  Lemma dtfs_cons k m : (0 < m)%nat -> dtfs sa dest p k m = dtf sa dest p k :: dtfs sa dest p (S k) (m - 1).
  Proof. intros Hm. destruct m as [|m]; [lia|]. unfold dtfs. cbn [seq map]. replace (S m - 1)%nat with m by lia. reflexivity. Qed.

  (* ---- the transitions *)
  Lemma T_rts s : ShRts s -> ShCts 0 (step s).
  Proof.
    intros ((Hc & Ea & Eb) & Hqa & Hqb & Hs & Hr & Hev & Hw).
    rewrite (step_b s rts []) by exact Hqb. rewrite Hc, (hB_rts (nb s) Eb Hr). cbn [txs flat_map app evs filter].
    pose proof num_pos as Hn. pose proof g0_range as Hg.
    unfold ShCts, common. cbn [na nb qa qb clk evb wab].
    split; [split; [reflexivity|split; [exact Ea|apply envB_wake_rcv; exact Eb]]|].
    split; [exists 0; lia|]. split; [unfold np, num in *; lia|].
    split; [rewrite Hqa; unfold cts, cnt; cbn [app]; repeat f_equal; lia|]. split; [reflexivity|].
    split; [eexists _, _, _; exact Hs|]. split.
    - exists rb0. cbn [n_rcv wake set_rcv]. split; [reflexivity|]. split; [|split; [reflexivity|split; [reflexivity|cbn [rb0 r_deadline]; unfold tp21_T2; lia]]].
      unfold inv. cbn [rb0 r_data r_size r_num r_maxrec r_pgn r_next segs]. repeat split; try reflexivity.
      change (Z.of_nat 0) with 0. rewrite Z.div_0_l by lia. fold np. fold num. lia.
    - split; [rewrite Hev; reflexivity|rewrite Hw; reflexivity].
  Qed.

  Lemma T_cts e s : ShCts e s -> ShSend e (step s).
  Proof.
    intros ((Hc & Ea & Eb) & Hb & He & Hqa & Hqb & (st & dl & w & Hs) & HB' & Hev & Hw).
    destruct (wend_facts e Hb He) as (Hcnt & Hwe & Hwl).
    rewrite (step_a s (cts e) []) by assumption. rewrite Hc. unfold cts.
    rewrite (hA_cts (na s) st dl (Z.of_nat e) w (cnt e) Ea Hs) by (unfold num, np in *; lia).
    cbn [txs flat_map app evs filter].
    unfold ShSend, common. cbn [na nb qa qb clk evb wab].
    split; [split; [reflexivity|split; [apply envA_wake_snd; exact Ea|exact Eb]]|].
    split; [exact Hb|]. split; [exact He|]. split; [reflexivity|]. split; [reflexivity|].
    split; [reflexivity|]. split; [exact HB'|]. split; [exact Hev|rewrite Hw, app_nil_r; reflexivity].
  Qed.

  Lemma T_send e s : ShSend e s -> ShDt e e (step s).
  Proof.
    intros ((Hc & Ea & Eb) & Hb & He & Hqa & Hqb & Hs & (rb & Hr & Hinv & Hsrc & Hdst & Hdl) & Hev & Hw).
    destruct (wend_facts e Hb He) as (Hcnt & Hwe & Hwl).
    rewrite (step_idle s) by assumption. rewrite Hc.
    set (g := Z.to_nat (cnt e - 1)).
    assert (Hg : Z.of_nat g = cnt e - 1) by (unfold g; lia).
    replace (Z.of_nat e + cnt e - 1) with (Z.of_nat e + Z.of_nat g) in Hs by lia.
    destruct (job_A_burst (na s) (Z.of_nat e) g (Z.max t0 0) Ea Hs) as (ra & Hja); try (unfold num, np in *; lia).
    destruct Eb as (Bs & Bt & Bsub & Bcas & Bm).
    destruct (job_B_wait (nb s) rb Hr Hdl Bs Bt) as (rbb & Hjb).
    rewrite Hja, Hjb. rewrite (txs_dts sa dest p (S g) e), evs_dts.
    assert (Hm : S g = (wend e - e)%nat) by lia.
    rewrite Hm. rewrite (dtfs_cons e (wend e - e)) by lia.
    cbn [txs flat_map evs filter andb]. rewrite <- (dtfs_cons e (wend e - e)) by lia.
    unfold ShDt, common. cbn [na nb qa qb clk evb wab].
    split; [split; [lia|split; [apply envA_snd; exact Ea|repeat split; assumption]]|].
    split; [exact Hb|]. split; [lia|]. split; [exact He|]. split; [reflexivity|]. split; [reflexivity|].
    split; [cbn [n_snd set_snd]; rewrite Hwe; replace (Z.of_nat e + Z.of_nat g + 1) with (Z.of_nat e + cnt e) by lia;
            replace (Z.of_nat e + Z.of_nat g) with (Z.of_nat e + cnt e - 1) by lia; reflexivity|].
    split; [exists rb; split; [exact Hr|split; [exact Hinv|split; [exact Hsrc|split; [exact Hdst|exact Hdl]]]]|].
    split; [rewrite Hev; reflexivity|].
    rewrite Hw. cbn [app]. f_equal. change (dtfs sa dest p e (wend e - e)) with (dtfs sa dest p (0 + e) (wend e - e)).
    rewrite (dtfs_app sa dest p 0 e (wend e - e)). f_equal. lia.
  Qed.

  (* B takes the next DT of the window *)
  Lemma T_dt e k s : ShDt e k s ->
    (if (S k =? np)%nat then ShEom (step s) else if (S k =? wend e)%nat then ShCts (S k) (step s) else ShDt e (S k) (step s)).
  Proof.
    intros ((Hc & Ea & Eb) & Hb & Hk & He & Hqa & Hqb & Hs & (rb & Hr & Hinv & Hsrc & Hdst & Hdl) & Hev & Hw).
    destruct (wend_facts e Hb He) as (Hcnt & Hwe & Hwl). pose proof g0_range as Hg.
    rewrite (dtfs_cons k (wend e - k)) in Hqb by lia.
    rewrite (step_b s _ _ Hqb). rewrite Hc.
    destruct (hB_dt (nb s) rb k Eb Hr Hinv Hsrc Hdst ltac:(lia)) as (b' & Hh & Eb' & Hn). rewrite Hh.
    destruct Hb as (q & Hq0 & Hq).
    unfold cts_or_eom.
    destruct (Nat.eqb_spec (S k) np) as [Elast|Nlast].
    - (* the last packet: EndOfMsgACK and the delivery *)
      assert ((Z.of_nat k + 1 =? num) = true) as -> by (unfold num; lia).
      cbn [txs flat_map evs filter app]. rewrite txs_deliveries, evs_deliveries.
      assert (wend e = np) by lia.
      unfold ShEom, common. cbn [na nb qa qb clk evb wab].
      split; [split; [reflexivity|split; [exact Ea|exact Eb']]|].
      split; [rewrite Hqa; reflexivity|]. split; [replace (wend e - k - 1)%nat with 0%nat by lia; reflexivity|].
      split; [eexists _, _, _, _; exact Hs|]. split; [exact Hn|]. split; [rewrite Hev; reflexivity|].
      rewrite Hw. f_equal. f_equal. assumption.
    - assert ((Z.of_nat k + 1 =? num) = false) as -> by (unfold num; lia).
      destruct Hn as (rb' & Hr' & Hinv' & Hsrc' & Hdst' & Hdl').
      destruct (Nat.eqb_spec (S k) (wend e)) as [Eend|Nend].
      + (* the last packet of the window: the next CTS *)
        assert (Hc1 : cnt e = g0) by (unfold cnt in *; unfold num, np in *; lia).
        assert (((Z.of_nat k + 1) mod g0 =? 0) = true) as ->.
        { replace (Z.of_nat k + 1) with (q * g0 + g0) by lia. rewrite mod_at_border by lia. reflexivity. }
        cbn [txs flat_map evs filter app].
        unfold ShCts, common. cbn [na nb qa qb clk evb wab].
        split; [split; [reflexivity|split; [exact Ea|exact Eb']]|].
        split; [exists (q + 1); split; [lia|lia]|]. split; [lia|].
        split; [rewrite Hqa; unfold cts, cnt; cbn [app]; replace (Z.of_nat (S k)) with (Z.of_nat k + 1) by lia;
                replace (Z.of_nat k + 1 + 1) with (Z.of_nat k + 2) by lia; reflexivity|].
        split; [replace (wend e - k - 1)%nat with 0%nat by lia; reflexivity|].
        split; [eexists _, _, _; rewrite Hs; rewrite <- Eend; reflexivity|].
        split; [exists rb'; split; [exact Hr'|split; [exact Hinv'|split; [exact Hsrc'|split; [exact Hdst'|exact Hdl']]]]|].
        split; [rewrite Hev; reflexivity|]. rewrite Hw. rewrite Eend. reflexivity.
      + assert (((Z.of_nat k + 1) mod g0 =? 0) = false) as ->.
        { apply Z.eqb_neq. apply (mod_in_window q g0); lia. }
        cbn [txs flat_map evs filter app].
        unfold ShDt, common. cbn [na nb qa qb clk evb wab].
        split; [split; [reflexivity|split; [exact Ea|exact Eb']]|].
        split; [exists q; split; assumption|]. split; [lia|]. split; [exact He|].
        split; [rewrite Hqa; reflexivity|]. split; [f_equal; lia|]. split; [exact Hs|].
        split; [exists rb'; split; [exact Hr'|split; [exact Hinv'|split; [exact Hsrc'|split; [exact Hdst'|exact Hdl']]]]|].
        split; [rewrite Hev; reflexivity|]. rewrite Hw. reflexivity.
  Qed.

  Lemma T_eom s : ShEom s -> ShFin (step s).
  Proof.
    intros ((Hc & Ea & Eb) & Hqa & Hqb & (st & dl & nx & w & Hs) & Hr & Hev & Hw).
    rewrite (step_a s eom []) by assumption. rewrite Hc.
    destruct (hA_eom (na s) st dl nx w Ea Hs) as (os & Hh & Hos). rewrite Hh, Hos.
    unfold ShFin, common. cbn [na nb qa qb clk evb wab].
    split; [split; [reflexivity|split; [apply envA_wake_snd; exact Ea|exact Eb]]|].
    split; [reflexivity|]. split; [reflexivity|]. split; [eexists _, _; reflexivity|].
    split; [exact Hr|]. split; [exact Hev|rewrite Hw, app_nil_r; reflexivity].
  Qed.

  Lemma T_fin s : ShFin s -> ShDone (step s).
  Proof.
    intros ((Hc & Ea & Eb) & Hqa & Hqb & (nx & w & Hs) & Hr & Hev & Hw).
    rewrite (step_idle s) by assumption. rewrite Hc.
    destruct (job_A_finished (na s) nx w Ea Hs) as (ra & Hja). rewrite Hja.
    destruct Eb as (Bs & Bt & Bsub & Bcas & Bm).
    rewrite (job_idle (nb s) Hr Bs Bt). cbn [txs flat_map evs filter].
    pose proof (envA_snd (na s) [] Ea) as Ea'. destruct Ea as (Ar & _).
    unfold ShDone. cbn [na nb qa qb clk evb wab n_snd n_rcv set_snd].
    split; [reflexivity|]. split; [reflexivity|]. split; [reflexivity|]. split; [exact Ar|]. split; [exact Bs|]. split; [exact Hr|].
    split; [rewrite app_nil_r; exact Hev|]. split; [rewrite app_nil_r; exact Hw|].
    split; [|split; [exact Ea'|repeat split; assumption]].
    destruct (_ && _ && _); lia.
  Qed.

  (* ---- from the RTS to the end *)
  Definition reaches (s : net) : Prop := exists j, ShDone (steps j s).
  Lemma reaches_step s : reaches (step s) -> reaches s.
  Proof. intros (j & H). exists (S j). exact H. Qed.

  Lemma dt_reaches : forall r e k s, (np - k = r)%nat -> ShDt e k s -> reaches s.
  Proof.
    induction r as [r IH] using lt_wf_ind. intros e k s Hr Hsh.
    assert (Hk : (k < np)%nat).
    { destruct Hsh as (_ & Hb & Hk & He & _). destruct (wend_facts e Hb He) as (_ & _ & Hwl). lia. }
    pose proof (T_dt e k s Hsh) as Hn. apply reaches_step.
    destruct (S k =? np)%nat eqn:E1.
    - apply reaches_step. apply reaches_step. exists 0%nat. apply T_fin. apply T_eom. exact Hn.
    - apply Nat.eqb_neq in E1. destruct (S k =? wend e)%nat.
      + apply reaches_step. apply reaches_step.
        apply (IH (np - S k)%nat ltac:(lia) (S k) (S k)); [reflexivity|]. apply T_send. apply T_cts. exact Hn.
      + apply (IH (np - S k)%nat ltac:(lia) e (S k)); [reflexivity|exact Hn].
  Qed.

  Lemma rts_reaches s : ShRts s -> reaches s.
  Proof.
    intros H. apply reaches_step. apply reaches_step. apply reaches_step.
    apply (dt_reaches (np - 0)%nat 0%nat 0%nat); [reflexivity|]. apply T_send. apply T_cts. apply T_rts. exact H.
  Qed.

  Lemma start_is_rts : ShRts (net_send (net0 A0 B0 t0) dp pf dest prio sa p).
  Proof.
    destruct HA as (As & Ar & At & Ai & Aa & Am). destruct HB as (Bs & Br & Bt & Ba & Bm).
    unfold net_send, net0. cbn [na nb qa qb clk eva evb wab wba].
    rewrite send_pgn_rts; try assumption; try lia.
    2:{ rewrite As. reflexivity. }
    replace (num_packets (len p)) with num by (unfold num, np, len; symmetry; apply num_packets_npk).
    cbn [txs flat_map evs filter app].
    unfold ShRts, common. cbn [na nb qa qb clk evb wab].
    split; [split; [reflexivity|split]|].
    - unfold envA. cbn [n_rcv n_timers n_cmdt_iv n_subs n_cas n_maxp wake set_snd]. repeat split; assumption || reflexivity.
    - unfold envB. repeat split; assumption.
    - split; [reflexivity|]. split; [reflexivity|]. split; [cbn [n_snd wake set_snd]; rewrite As; reflexivity|].
      split; [exact Br|]. split; reflexivity.
  Qed.

  Theorem closed_loop : reaches (net_send (net0 A0 B0 t0) dp pf dest prio sa p).
  Proof. apply rts_reaches. apply start_is_rts. Qed.
End Loop.

(* T01.8: the closed loop, stated without the proof's vocabulary *)
Theorem closed_loop_delivers prio sa dest dp pf p t0 A0 B0 :
  0 <= prio < 8 -> 0 <= sa < 255 -> 0 <= dest < 255 -> 0 <= pf < 240 -> 0 <= dp < 2 -> 8 < len p <= 1785 -> 0 < t0 ->
  n_snd A0 = [] /\ n_rcv A0 = [] /\ n_timers A0 = [] /\ n_cmdt_iv A0 = None /\ accepts A0 sa = true /\ 1 <= n_maxp A0 ->
  n_snd B0 = [] /\ n_rcv B0 = [] /\ n_timers B0 = [] /\ accepts B0 dest = true /\ 1 <= n_maxp B0 ->
  let pv := dp * 65536 + pf * 256 in
  let num := Z.of_nat (npk (length p)) in
  exists j, let s := steps j (net_send (net0 A0 B0 t0) dp pf dest prio sa p) in
    qa s = [] /\ qb s = [] /\ n_snd (na s) = [] /\ n_rcv (na s) = [] /\ n_snd (nb s) = [] /\ n_rcv (nb s) = [] /\
    evb s = deliveries B0 7 pv sa dest p /\
    wab s = tp21_rts sa dest prio pv (len p) num (Z.min (n_maxp A0) num)
            :: map (fun k => tp21_dt sa dest (dt_payload p (Z.of_nat k))) (seq 0 (npk (length p))).
Proof.
  intros H1 H2 H3 H4 H5 H6 H7 HA HB pv num.
  destruct (closed_loop prio sa dest dp pf p t0 A0 B0 H1 H2 H3 H4 H5 H6 H7 HA HB) as (j & H). exists j.
  destruct H as (Q1 & Q2 & Q3 & Q4 & Q5 & Q6 & Q7 & Q8 & _). repeat split; assumption.
Qed.

(* T10.17: ... and the nodes are again as they were: the final state meets the premises of the theorem itself (same
   configuration, same subscribers and CAs, nothing pending), so the pair can run its next transfer *)
Theorem closed_loop_restores prio sa dest dp pf p t0 A0 B0 :
  0 <= prio < 8 -> 0 <= sa < 255 -> 0 <= dest < 255 -> 0 <= pf < 240 -> 0 <= dp < 2 -> 8 < len p <= 1785 -> 0 < t0 ->
  n_snd A0 = [] /\ n_rcv A0 = [] /\ n_timers A0 = [] /\ n_cmdt_iv A0 = None /\ accepts A0 sa = true /\ 1 <= n_maxp A0 ->
  n_snd B0 = [] /\ n_rcv B0 = [] /\ n_timers B0 = [] /\ accepts B0 dest = true /\ 1 <= n_maxp B0 ->
  let pv := dp * 65536 + pf * 256 in
  let num := Z.of_nat (npk (length p)) in
  exists j, let s := steps j (net_send (net0 A0 B0 t0) dp pf dest prio sa p) in
    (qa s = [] /\ qb s = [] /\ t0 <= clk s /\
     evb s = deliveries B0 7 pv sa dest p /\
     wab s = tp21_rts sa dest prio pv (len p) num (Z.min (n_maxp A0) num)
             :: map (fun k => tp21_dt sa dest (dt_payload p (Z.of_nat k))) (seq 0 (npk (length p)))) /\
    (n_snd (na s) = [] /\ n_rcv (na s) = [] /\ n_timers (na s) = [] /\ n_cmdt_iv (na s) = None /\ accepts (na s) sa = true /\
     1 <= n_maxp (na s)) /\
    (n_snd (nb s) = [] /\ n_rcv (nb s) = [] /\ n_timers (nb s) = [] /\ accepts (nb s) dest = true /\ 1 <= n_maxp (nb s)) /\
    n_maxp (na s) = n_maxp A0 /\ n_subs (nb s) = n_subs B0 /\ n_cas (nb s) = n_cas B0.
Proof.
  intros H1 H2 H3 H4 H5 H6 H7 HA HB pv num.
  destruct (closed_loop prio sa dest dp pf p t0 A0 B0 H1 H2 H3 H4 H5 H6 H7 HA HB) as (j & H). exists j.
  destruct H as (Q1 & Q2 & Q3 & Q4 & Q5 & Q6 & Q7 & Q8 & Qc & Ea & Eb). cbn zeta.
  destruct Ea as (Ar & At & Ai & Asub & Acas & Am). destruct Eb as (Bs & Bt & Bsub & Bcas & Bm).
  destruct HA as (_ & _ & _ & _ & Ha & HmA). destruct HB as (_ & _ & _ & Hb & HmB).
  assert (HaA : accepts (na (steps j (net_send (net0 A0 B0 t0) dp pf dest prio sa p))) sa = true)
    by (unfold accepts, ecu_acceptable in *; rewrite Asub, Acas; exact Ha).
  assert (HaB : accepts (nb (steps j (net_send (net0 A0 B0 t0) dp pf dest prio sa p))) dest = true)
    by (unfold accepts, ecu_acceptable in *; rewrite Bsub, Bcas; exact Hb).
  split; [repeat split; assumption|]. split; [repeat split; try assumption; lia|]. split; [repeat split; try assumption; lia|].
  repeat split; assumption.
Qed.

(* the premises are met, and the delivery is not an empty list: A with window 3, B with window 2 and a subscriber *)
Example closed_loop_instance :
  let A := subscribe (init_node 3 None None) 1 (FAddr 128) in
  let B := subscribe (init_node 2 None None) 7 (FAddr 144) in
  let p := map Z.of_nat (seq 1 20) in
  let s := steps 12 (net_send (net0 A B 1000) 0 239 144 6 128 p) in
  quiet s = true /\ evb s = [OCb 7 7 61184 128 p] /\ length (wab s) = 4%nat /\ length (wba s) = 3%nat.
Proof. vm_compute. repeat split. Qed.

(* SkelProofs.v — C08 (T08.1): fault-freedom of the job pass under interference, by reflection.
   Semantics: one iteration of a snapshot loop for a key that was present when the snapshot was taken.
   Before EVERY access the environment (the thread feeding received frames, or an application thread) may change
   the presence of the key arbitrarily if the rely says other methods delete from the table; otherwise it may only
   (re-)insert it.  A lookup or del of an absent key outside try/except KeyError faults (the job thread dies). *)
From J1939 Require Import Base SkelDefs.

Definition env_step (rely : bool) (p p' : bool) : Prop := if rely then True else (p' = p \/ p' = true).

Inductive outcome := Ok (p : bool) | Left_ | Fault.     (* Left_: the iteration was left by `continue` *)

Inductive exec (rely : bool) : sk -> bool -> outcome -> Prop :=
| ESkip p : exec rely SSkip p (Ok p)
| ELookupOk tr p p' : env_step rely p p' -> p' = true -> exec rely (SAcc KLookup tr) p (Ok p')
| ELookupCaught p p' : env_step rely p p' -> p' = false -> exec rely (SAcc KLookup true) p (Ok p')
| ELookupFault p p' : env_step rely p p' -> p' = false -> exec rely (SAcc KLookup false) p Fault
| EDelOk tr p p' : env_step rely p p' -> p' = true -> exec rely (SAcc KDel tr) p (Ok false)
| EDelCaught p p' : env_step rely p p' -> p' = false -> exec rely (SAcc KDel true) p (Ok false)
| EDelFault p p' : env_step rely p p' -> p' = false -> exec rely (SAcc KDel false) p Fault
| EGetSome tr p p' : env_step rely p p' -> p' = true -> exec rely (SAcc KGet tr) p (Ok p')
| EGetNone tr p p' : env_step rely p p' -> p' = false -> exec rely (SAcc KGet tr) p Left_
| EPop tr p p' : env_step rely p p' -> exec rely (SAcc KPop tr) p (Ok false)
| ESeqGo a b p p1 o : exec rely a p (Ok p1) -> exec rely b p1 o -> exec rely (SSeq2 a b) p o
| ESeqStop a b p o : exec rely a p o -> (o = Left_ \/ o = Fault) -> exec rely (SSeq2 a b) p o
| EAltL a b p o : exec rely a p o -> exec rely (SAlt a b) p o
| EAltR a b p o : exec rely b p o -> exec rely (SAlt a b) p o
| ELoopEnd body p : exec rely (SLoop body) p (Ok p)
| ELoopStep body p p1 o : exec rely body p (Ok p1) -> exec rely (SLoop body) p1 o -> exec rely (SLoop body) p o
| ELoopStop body p o : exec rely body p o -> (o = Left_ \/ o = Fault) -> exec rely (SLoop body) p o.

(* while this thread has not deleted the key and nobody else can, the key is present *)
Definition consistent (rely deleted p : bool) : Prop := rely = false -> deleted = false -> p = true.

Lemma env_keeps rely deleted p p' : env_step rely p p' -> consistent rely deleted p -> consistent rely deleted p'.
Proof.
  unfold env_step, consistent. destruct rely; intros H C R D; [discriminate|].
  destruct H as [E|E]; subst; [apply C; assumption|reflexivity].
Qed.
Lemma consistent_weaken rely d d' p : (d' = false -> d = false) -> consistent rely d p -> consistent rely d' p.
Proof. unfold consistent. intros H C R D. apply C; [exact R|apply H; exact D]. Qed.

Lemma safe_mono rely : forall s d', safe rely true s = Some d' -> d' = true.
Proof.
  induction s as [|k tr|a IHa b IHb|a IHa b IHb|body IH]; intros d' H; cbn [safe] in H.
  - inversion H; reflexivity.
  - destruct k.
    + destruct (tr || _); inversion H; reflexivity.
    + destruct (tr || _); inversion H; reflexivity.
    + inversion H; reflexivity.
    + inversion H; reflexivity.
  - destruct (safe rely true a) as [d1|] eqn:E; [|discriminate]. rewrite (IHa d1 eq_refl) in H. apply (IHb d' H).
  - destruct (safe rely true a) as [da|] eqn:Ea; [|discriminate]. destruct (safe rely true b) as [db|] eqn:Eb; [|discriminate].
    inversion H. rewrite (IHa da eq_refl). reflexivity.
  - destruct (safe rely true body) as [d1|] eqn:E1; [|discriminate]. destruct (safe rely d1 body) as [d2|]; [|discriminate].
    inversion H; subst. apply (IH d' eq_refl).
Qed.

(* the flag only grows *)
Lemma safe_grows rely : forall s d d', safe rely d s = Some d' -> d' = false -> d = false.
Proof.
  intros s d d' H Hf. destruct d; [|reflexivity]. rewrite (safe_mono rely s d' H) in Hf. discriminate.
Qed.

Theorem safe_sound rely : forall s d d' p o,
  safe rely d s = Some d' -> consistent rely d p -> exec rely s p o ->
  o <> Fault /\ (forall p', o = Ok p' -> consistent rely d' p').
Proof.
  induction s as [|k tr|a IHa b IHb|a IHa b IHb|body IH]; intros d d' p o Hs Hc Hx.
  - inversion Hx; subst. cbn in Hs. inversion Hs; subst. split; [discriminate|]. intros p' E. inversion E; subst. exact Hc.
  - cbn [safe] in Hs.
    assert (Hunprot : forall p', env_step rely p p' -> p' = false -> negb rely && negb d = true -> False).
    { intros p' He Hp G. apply andb_prop in G. destruct G as [G1 G2].
      assert (p' = true) as X; [|congruence].
      apply (env_keeps _ _ _ _ He Hc); [destruct rely; [discriminate|reflexivity]|destruct d; [discriminate|reflexivity]]. }
    inversion Hx; subst;
      match goal with He : env_step _ _ _ |- _ => pose proof (env_keeps _ _ _ _ He Hc) as Hk end.
    + destruct (tr || _); inversion Hs; subst. split; [discriminate|]. intros p0 E. inversion E; subst. intros _ _. reflexivity.
    + inversion Hs; subst. split; [discriminate|]. intros p0 E. inversion E; subst. exact Hk.
    + exfalso. cbn [orb] in Hs. destruct (negb rely && negb d) eqn:G; [|discriminate].
      match goal with He : env_step _ _ _ |- _ => apply (Hunprot _ He eq_refl eq_refl) end.
    + destruct (tr || _); inversion Hs; subst. split; [discriminate|]. intros p0 E. inversion E; subst. intros _ D. discriminate.
    + inversion Hs; subst. split; [discriminate|]. intros p0 E. inversion E; subst. intros _ D. discriminate.
    + exfalso. cbn [orb] in Hs. destruct (negb rely && negb d) eqn:G; [|discriminate].
      match goal with He : env_step _ _ _ |- _ => apply (Hunprot _ He eq_refl eq_refl) end.
    + inversion Hs; subst. split; [discriminate|]. intros p0 E. inversion E; subst. intros _ _. reflexivity.
    + split; [discriminate|]. intros p0 E. discriminate.
    + inversion Hs; subst. split; [discriminate|]. intros p0 E. inversion E; subst. intros _ D. discriminate.
  - cbn [safe] in Hs. destruct (safe rely d a) as [d1|] eqn:Ea; [|discriminate]. inversion Hx; subst.
    + match goal with Ha : exec rely a p (Ok ?q), Hb : exec rely b ?q o |- _ =>
        destruct (IHa d d1 p (Ok q) Ea Hc Ha) as [_ C1]; apply (IHb d1 d' q o Hs (C1 q eq_refl) Hb) end.
    + match goal with Ha : exec rely a p o, Ho : o = Left_ \/ o = Fault |- _ =>
        destruct (IHa d d1 p o Ea Hc Ha) as [NF _]; split; [exact NF|]; intros p' E; destruct Ho as [->| ->]; discriminate end.
  - cbn [safe] in Hs. destruct (safe rely d a) as [da|] eqn:Ea; [|discriminate]. destruct (safe rely d b) as [db|] eqn:Eb; [|discriminate].
    inversion Hs; subst. inversion Hx; subst.
    + match goal with Ha : exec rely a p o |- _ => destruct (IHa d da p o Ea Hc Ha) as [NF C] end. split; [exact NF|]. intros p' E.
      apply (consistent_weaken rely da); [|apply C; exact E]. intros H. apply orb_false_elim in H. apply H.
    + match goal with Hb : exec rely b p o |- _ => destruct (IHb d db p o Eb Hc Hb) as [NF C] end. split; [exact NF|]. intros p' E.
      apply (consistent_weaken rely db); [|apply C; exact E]. intros H. apply orb_false_elim in H. apply H.
  - cbn [safe] in Hs. destruct (safe rely d body) as [d1|] eqn:E1; [|discriminate].
    destruct (safe rely d1 body) as [d2|] eqn:E2; [|discriminate]. inversion Hs; subst d'.
    (* the flag after one iteration is d1 and stays d1: d2 = d1 by monotonicity / determinism *)
    assert (Hd2 : d1 = false -> d2 = false).
    { intros F. pose proof (safe_grows rely body d d1 E1 F) as Fd. subst d1 d. rewrite E1 in E2. inversion E2. reflexivity. }
    remember (SLoop body) as L eqn:EL. revert Hc. revert d E1.
    assert (G : forall d0, (d0 = false -> d1 = false -> True) ->
                 (exists dn, safe rely d0 body = Some dn /\ (d1 = false -> dn = false)) /\ (d1 = false -> d0 = false) ->
                 consistent rely d0 p -> o <> Fault /\ (forall p', o = Ok p' -> consistent rely d1 p')).
    { induction Hx; try discriminate; inversion EL; subst; intros d0 _ [(dn & Sn & Hn) H0] C0.
      - split; [discriminate|]. intros p' E. inversion E; subst. apply (consistent_weaken rely d0); [exact H0|exact C0].
      - destruct (IH d0 dn p (Ok p1) Sn C0 Hx1) as [_ C1]. specialize (C1 p1 eq_refl).
        apply (IHHx2 eq_refl dn); [trivial| |exact C1].
        split; [|exact Hn].
        destruct dn.
        + exists d2. split; [|exact Hd2].
          destruct d1; [exact E2|]. specialize (Hn eq_refl). discriminate.
        + (* dn = false: then d0 = false (flag grows) and the same check applies *)
          pose proof (safe_grows rely body d0 false Sn eq_refl) as F0. subst d0. exists false. split; [exact Sn|reflexivity].
      - destruct (IH d0 dn p o Sn C0 Hx) as [NF _]. split; [exact NF|]. intros p' E. destruct H as [->| ->]; discriminate. }
    intros d E1 Hc. apply (G d); [trivial| |exact Hc].
    split; [exists d1; split; [exact E1|trivial]|apply (safe_grows rely body d d1 E1)].
Qed.

(* T08.1: if the checker accepts a loop, then for a key present at the snapshot NO interference allowed by the rely
   and NO path through the loop body makes the job thread fault on that table *)
Theorem accepted_loop_never_faults rely (l : jloop) :
  loop_safe rely l = true ->
  forall o, exec (rely (jl_table l)) (jl_body l) true o -> o <> Fault.
Proof.
  unfold loop_safe. intros H o Hx. destruct (safe (rely (jl_table l)) false (jl_body l)) as [d'|] eqn:E; [|discriminate].
  apply (safe_sound _ _ _ _ _ _ E (fun _ _ => eq_refl) Hx).
Qed.

(* the checker is not vacuous: an unprotected lookup in a table others delete from is rejected, and can fault *)
Example unsafe_is_rejected : safe true false (SSeq2 (SAcc KLookup false) (SAcc KDel false)) = None.
Proof. reflexivity. Qed.
Example unsafe_can_fault : exec true (SAcc KLookup false) true Fault.
Proof. apply ELookupFault with (p' := false); [exact I|reflexivity]. Qed.

(* Dm14SrvPhases.v — C19: the states a transaction passes through ARE the states of Dm14SrvProofs.running.
   For ANY well-formed 8-byte DM14 request (any count, command, pointer, key bytes) from ANY requester arriving at an
   idle serving side: after it — with or without seed/key, with or without a proceed callback — the serving side is in
   a running state for that requester; after the key DM14 (right key) it still is.  (From then on a running state
   persists until the server returns to IDLE: running only asks for "server not idle" there.) *)
From J1939 Require Import Base Dm14Srv.
From J1939P Require Import Dm14SrvProofs.
Open Scope Z_scope.
Local Arguments Z.mul : simpl never.
Local Arguments Z.add : simpl never.

Definition idle_state (s : srv) : Prop :=
  a_state s = D_IDLE /\ v_state s = R_IDLE /\ v_sa s = None /\ v_addr s = None /\ v_busy s = false.

Ltac start_listen Ha Hv Hsa Had Hb :=
  unfold listen_for_dm14; change (negb (PGN_DM14 =? PGN_DM14)) with false; cbv iota;
  rewrite Ha, Hv; change (D_IDLE =? D_IDLE) with true; change (R_IDLE =? R_IDLE) with true; cbv iota;
  unfold parse_dm14; change (negb (PGN_DM14 =? PGN_DM14)) with false; cbv iota;
  cbn [set_astate upd v_sa v_addr v_busy v_state v_length]; rewrite Hsa, Had, Hb; cbn [orb];
  unfold opt;
  match goal with |- context [py_get [?d0; ?d1; ?a0; ?a1; ?a2; ?a3; ?k0; ?k1] 1] =>
    change (py_get [d0; d1; a0; a1; a2; a3; k0; k1] 1) with (Some d1); cbv iota beta;
    cbn [set_length set_direct set_astate upd v_state]; rewrite Hv; change (R_IDLE =? R_IDLE) with true; cbv iota;
    change (zlen [d0; d1; a0; a1; a2; a3; k0; k1]) with 8;
    change (py_get [d0; d1; a0; a1; a2; a3; k0; k1] 0) with (Some d0);
    change (py_get [d0; d1; a0; a1; a2; a3; k0; k1] (8 - 1)) with (Some k1);
    change (py_get [d0; d1; a0; a1; a2; a3; k0; k1] (8 - 2)) with (Some k0); cbv iota beta
  end.

(* without seed/key, without a proceed callback: the request waits for the application's respond() *)
Theorem first_dm14_noseed_noproceed c s sa d0 d1 a0 a1 a2 a3 k0 k1 :
  c_seedsec c = false -> c_hasproceed c = false -> idle_state s ->
  let '(s', os, e) := listen_for_dm14 c s PGN_DM14 sa [d0; d1; a0; a1; a2; a3; k0; k1] in
  e = None /\ running s' sa /\ os = [].
Proof.
  intros Hsec Hpro (Ha & Hv & Hsa & Had & Hb). start_listen Ha Hv Hsa Had Hb.
  rewrite Hsec. cbv iota. unfold ok, bind. cbn [negb]. rewrite Hpro. cbn [negb app].
  split; [reflexivity|]. split; [|reflexivity].
  unfold running. cbn. rewrite Hb. repeat split; auto.
Qed.

(* without seed/key, the application's proceed callback says yes: asked once with exactly the request's fields, notified *)
Theorem first_dm14_noseed_proceed c s sa d0 d1 a0 a1 a2 a3 k0 k1 :
  c_seedsec c = false -> c_hasproceed c = true -> idle_state s -> (answers s = [] \/ exists r, answers s = true :: r) ->
  let '(s', os, e) := listen_for_dm14 c s PGN_DM14 sa [d0; d1; a0; a1; a2; a3; k0; k1] in
  e = None /\ running s' sa /\
  os = [SProceedFn (Z.shiftr (Z.land (d1 - 1) 15) 1) (le_int [a0; a1; a2; a3]) (Z.land (Z.shiftr d1 4) 1) 8 d0 65535 sa (k1 * 256 + k0) 0; SNotify].
Proof.
  intros Hsec Hpro (Ha & Hv & Hsa & Had & Hb) Hans. start_listen Ha Hv Hsa Had Hb.
  rewrite Hsec. cbv iota. unfold ok, bind. cbn [negb]. rewrite Hpro. cbn [negb app].
  unfold ask_application. cbn [set_astate set_state set_data set_access set_objcnt set_ptype set_command set_addr set_status set_sa set_direct set_length upd
                               v_command v_addr v_ptype v_objcnt v_sa v_access answers v_length].
  change (py_slice [d0; d1; a0; a1; a2; a3; k0; k1] 2 (8 - 2)) with [a0; a1; a2; a3].
  destruct Hans as [Hn|[r Hr]].
  - rewrite Hn. unfold emit. cbn [app]. split; [reflexivity|]. split; [|reflexivity].
    unfold running. cbn. rewrite Hb. repeat split; auto.
  - rewrite Hr. unfold emit. cbn [app]. split; [reflexivity|]. split; [|reflexivity].
    unfold running. cbn. rewrite Hb. repeat split; auto.
Qed.

(* with seed/key: the seed goes out, the transaction waits for the key *)
Theorem first_dm14_seedkey c s sa d0 d1 a0 a1 a2 a3 k0 k1 :
  c_seedsec c = true -> idle_state s ->
  let '(s', os, e) := listen_for_dm14 c s PGN_DM14 sa [d0; d1; a0; a1; a2; a3; k0; k1] in
  e = None /\ running s' sa /\ a_state s' = D_REQUEST_STARTED /\ v_state s' = R_WAIT_FOR_KEY /\
  exists sd, v_seed s' = Some sd /\
             os = [SSend 216 (Z.land sa 255) 6 [0; Z.shiftr d1 4 * 16 + 0 * 2 + 1; 255; 255; 255; 255; Z.land sd 255; Z.shiftr sd 8]].
Proof.
  intros Hsec (Ha & Hv & Hsa & Had & Hb). start_listen Ha Hv Hsa Had Hb.
  rewrite Hsec. cbv iota.
  unfold send_dm15, opt. change (Z.to_nat 8) with 8%nat. cbn [repeat].
  change (R_WAIT_FOR_KEY =? R_WAIT_FOR_KEY) with true. cbv iota.
  match goal with |- context [py_put ?l 1 ?x] => change (py_put l 1 x) with (Some [255; x; 255; 255; 255; 255; 255; 255]) end.
  cbv iota beta.
  destruct (seeds _) as [|sd rest] eqn:Es;
    match goal with |- context [py_put ?l 0 0] => change (py_put l 0 0) with (Some (0 :: tl l)) end; cbn [tl]; cbv iota beta;
    match goal with |- context [py_put ?l (8 - 2) ?x] => change (py_put l (8 - 2) x) with (Some (firstn 6 l ++ [x] ++ skipn 7 l)) end; cbn [firstn skipn app]; cbv iota beta;
    match goal with |- context [py_put ?l (8 - 1) ?x] => change (py_put l (8 - 1) x) with (Some (firstn 7 l ++ [x])) end; cbn [firstn app]; cbv iota beta;
    cbn [set_seeds set_seed set_state set_data set_access set_objcnt set_ptype set_command set_addr set_status set_sa set_direct set_length set_astate upd v_sa];
    unfold emit, bind, ok; try rewrite Hsec; cbn [negb app];
    (split; [reflexivity|]); (split; [unfold running; cbn; rewrite Hb; repeat split; auto|]);
    (split; [reflexivity|]); (split; [reflexivity|]); eexists; (split; [reflexivity|reflexivity]).
Qed.

(* the key DM14 with the RIGHT key: the request is handed to the application (asked with exactly that key and seed,
   then notified) and waits for respond(); a running state throughout *)
Theorem key_dm14_right_key c s sa sd d0 d1 a0 a1 a2 a3 k0 k1 :
  c_seedsec c = true -> c_hasproceed c = true -> (answers s = [] \/ exists r, answers s = true :: r) ->
  a_state s = D_REQUEST_STARTED -> v_state s = R_WAIT_FOR_KEY -> v_sa s = Some sa -> v_busy s = false ->
  v_addr s = Some [a0; a1; a2; a3] -> v_length s = 8 -> v_seed s = Some sd -> c_key c sd = k1 * 256 + k0 ->
  v_ptype s <> None -> v_access s <> None ->
  let '(s', os, e) := listen_for_dm14 c s PGN_DM14 sa [d0; d1; a0; a1; a2; a3; k0; k1] in
  e = None /\ running s' sa /\ a_state s' = D_WAIT_RESPONSE /\
  exists cmd ad pt l oc acc, os = [SProceedFn cmd ad pt l oc (k1 * 256 + k0) sa acc sd; SNotify].
Proof.
  intros Hsec Hpro Hans Ha Hv Hsa Hb Had Hlen Hseed Hkey Hpt Hacc.
  unfold listen_for_dm14. change (negb (PGN_DM14 =? PGN_DM14)) with false. cbv iota.
  rewrite Ha. change (D_REQUEST_STARTED =? D_IDLE) with false. change (D_REQUEST_STARTED =? D_REQUEST_STARTED) with true. cbv iota.
  unfold parse_dm14. change (negb (PGN_DM14 =? PGN_DM14)) with false. cbv iota.
  rewrite Hsa, Had, Hb, Hlen, Z.eqb_refl. cbn [negb orb].
  change (py_slice [d0; d1; a0; a1; a2; a3; k0; k1] 2 (8 - 2)) with [a0; a1; a2; a3].
  assert (zlist_eqb [a0; a1; a2; a3] [a0; a1; a2; a3] = true) as -> by (cbn [zlist_eqb]; rewrite !Z.eqb_refl; reflexivity).
  cbn [negb orb]. unfold opt.
  change (py_get [d0; d1; a0; a1; a2; a3; k0; k1] 1) with (Some d1). cbv iota beta.
  cbn [set_length set_direct upd v_state]. rewrite Hv.
  change (R_WAIT_FOR_KEY =? R_IDLE) with false. change (R_WAIT_FOR_KEY =? R_WAIT_FOR_KEY) with true. cbv iota.
  change (zlen [d0; d1; a0; a1; a2; a3; k0; k1]) with 8.
  change (py_get [d0; d1; a0; a1; a2; a3; k0; k1] 0) with (Some d0).
  change (py_get [d0; d1; a0; a1; a2; a3; k0; k1] (8 - 1)) with (Some k1).
  change (py_get [d0; d1; a0; a1; a2; a3; k0; k1] (8 - 2)) with (Some k0).
  cbv iota beta. unfold ok, bind.
  cbn [set_state set_data set_key set_objcnt set_command set_addr set_direct set_length set_astate upd v_state v_seed v_key].
  change (R_SEND_PROCEED =? R_SEND_PROCEED) with true. cbv iota. rewrite Hsec, Hseed, Hkey, Z.eqb_refl, Hpro.
  unfold ask_application. cbn [set_astate set_state set_data set_key set_objcnt set_command set_addr set_direct set_length upd v_command v_addr v_ptype v_objcnt v_sa v_access answers v_length].
  rewrite Hsa. destruct (v_ptype s) as [pt|]; [|contradiction]. destruct (v_access s) as [acc|]; [|contradiction].
  destruct Hans as [Hn|[r Hr]]; [rewrite Hn|rewrite Hr]; unfold emit; cbn [app];
    (split; [reflexivity|]); (split; [unfold running; cbn; rewrite Hb; repeat split; auto|]); (split; [reflexivity|]);
    do 6 eexists; reflexivity.
Qed.

(* Tp21Orig.v — T01.4 / T09.1: the J1939-21 stack as ORIGINATOR of a connection-mode transfer:
   what send_pgn creates, what a CTS does, and exactly which DT frames a job pass then emits. *)
From J1939 Require Import Base CodecGlue Model21.
From J1939.gen Require Import Codec Tp21Gen CaGen.
From J1939P Require Import CodecProofs Flat Tp21Seg Tp21Resp.

Fixpoint dts (src dst : Z) (data : list Z) (x : Z) (g : nat) : list out :=
  match g with
  | O => []
  | S g' => OTx (tp21_dt src dst (dt_payload data x)) :: dts src dst data (x + 1) g'
  end.

(* the burst loop: with window [x, x+g) open it emits DT_{x+1} .. DT_{x+g} (1-based sequence numbers),
   in order, then parks the session in WAITING_CTS with a fresh T3 *)
Lemma burst_window key now : forall (g : nat) fuel n b x k,
  tget (n_snd n) key = Some b -> n_cmdt_iv n = None ->
  s_next b = x -> s_waitcts b = Some (x + Z.of_nat g) -> x + Z.of_nat g < s_num b ->
  (g + 1 < fuel)%nat ->
  flat (cts_burst fuel key now n k) =
  let b' := upd_sbuf b ST_WAITING_CTS (now + tp21_T3) (x + Z.of_nat g + 1) in
  let '(s, os, r) := flat (k (set_snd n (tset (n_snd n) key b'))) in
  (s, dts (s_src b) (s_dst b) (s_data b) x (S g) ++ os, r).
Proof.
  induction g as [|g IH]; intros fuel n b x k Hget Hiv Hx Hw Hlt Hf.
  - destruct fuel as [|f]; [lia|]. cbn [cts_burst]. rewrite Hget, Hx.
    replace (x + Z.of_nat 0) with x in * by lia.
    assert ((x <? s_num b) = true) as -> by lia.
    rewrite Hw, Hiv. rewrite Z.eqb_refl. cbn [flat dts].
    replace (x + 0 + 1) with (x + 1) by lia.
    destruct (flat (k _)) as [[s os] r]. reflexivity.
  - destruct fuel as [|f]; [lia|]. cbn [cts_burst]. rewrite Hget, Hx.
    assert ((x <? s_num b) = true) as -> by lia.
    rewrite Hw, Hiv. assert ((x =? x + Z.of_nat (S g)) = false) as -> by lia.
    cbn [flat].
    set (b1 := upd_sbuf b (s_state b) (s_deadline b) (x + 1)).
    rewrite (IH f (set_snd n (tset (n_snd n) key b1)) b1 (x + 1) k).
    + cbn [n_snd set_snd]. rewrite tset_tset_same.
      cbn [b1 upd_sbuf s_src s_dst s_data].
      replace (x + 1 + Z.of_nat g + 1) with (x + Z.of_nat (S g) + 1) by lia.
      destruct (flat (k _)) as [[s os] r]. cbn [dts app]. reflexivity.
    + cbn [n_snd set_snd]. apply tget_tset_same.
    + exact Hiv.
    + reflexivity.
    + cbn [b1 upd_sbuf s_waitcts]. rewrite Hw. f_equal. lia.
    + cbn [b1 upd_sbuf s_num]. lia.
    + lia.
Qed.

Lemma cts_fields sa dest num nextp pgn :
  0 <= pgn < 16777216 ->
  let d := f_data (tp21_cts sa dest num nextp pgn) in
  length d = 8%nat /\ tp21_cm_control d = tp21_cm_CTS /\ tp21_cm_pgn d = pgn /\
  tp21_cts_num_packages d = num /\ tp21_cts_next_package_number d = nextp - 1.
Proof.
  intros Hp. cbn [tp21_cts f_data]. unfold tp21_cm_control, tp21_cm_pgn, tp21_cts_num_packages,
    tp21_cts_next_package_number, byte_at. cbn [nth length].
  rewrite !land_255. rewrite !shiftr_div by lia. pow2_norm.
  repeat split; try reflexivity.
  apply le24; lia.
Qed.

Section Originator.
  Variables (sa dest : Z).
  Let h := tp21_hash sa dest.

  (* a conforming CTS(g, x+1) for a session waiting at packet x opens exactly the window [x, x+g) *)
  Theorem cts_opens_window n b prio pgn g x now :
    tget (n_snd n) h = Some b -> s_next b = x -> 0 <= x -> 1 <= g -> x + g <= s_num b -> 0 <= pgn < 16777216 ->
    flat (process_tp_cm prio dest sa (f_data (tp21_cts dest sa g (x + 1) pgn)) now n) =
    (wake (set_snd n (tset (n_snd n) h
        (with_waitcts (upd_sbuf b ST_SENDING_IN_CTS (Z.max now (s_nb b)) x) (Some (x + g - 1))))), [], RDone 0).
  Proof.
    intros Hget Hx Hx0 Hg Hle Hp.
    destruct (cts_fields dest sa g (x + 1) pgn Hp) as (L & C & P & N & X).
    unfold process_tp_cm. rewrite L. cbn [Nat.ltb Nat.leb]. rewrite C, N, X.
    assert ((tp21_cm_CTS =? tp21_cm_RTS) = false) as -> by reflexivity.
    rewrite Z.eqb_refl. fold h. rewrite Hget.
    assert ((g =? 0) = false) as -> by lia.
    assert ((g >? s_num b) = false) as -> by lia.
    replace (x + 1 - 1) with x by lia.
    assert ((x + g >? s_num b) = false) as -> by lia.
    rewrite Hx. cbn [flat]. reflexivity.
  Qed.

  (* a hold (zero-packet CTS) emits nothing and only moves the deadline to now + Th *)
  Theorem cts_hold n b prio pgn nextp now :
    tget (n_snd n) h = Some b -> 0 <= pgn < 16777216 ->
    flat (process_tp_cm prio dest sa (f_data (tp21_cts dest sa 0 nextp pgn)) now n) =
    (wake (set_snd n (tset (n_snd n) h (upd_sbuf b (s_state b) (now + tp21_Th) (s_next b)))), [], RDone 0).
  Proof.
    intros Hget Hp.
    destruct (cts_fields dest sa 0 nextp pgn Hp) as (L & C & P & N & X).
    unfold process_tp_cm. rewrite L. cbn [Nat.ltb Nat.leb]. rewrite C, N.
    assert ((tp21_cm_CTS =? tp21_cm_RTS) = false) as -> by reflexivity.
    rewrite Z.eqb_refl. fold h. rewrite Hget. cbn [flat]. reflexivity.
  Qed.

  (* the job pass over one send session whose window [x, x+g) was opened at or before `now`:
     exactly DT_{x+1}..DT_{x+g}; afterwards WAITING_CTS (deadline now + T3), next = x + g *)
  Theorem window_burst n b g x now nw k :
    tget (n_snd n) h = Some b -> n_cmdt_iv n = None ->
    s_state b = ST_SENDING_IN_CTS -> s_next b = x -> s_waitcts b = Some (x + Z.of_nat g) ->
    x + Z.of_nat g < s_num b -> 0 <= x -> s_deadline b <> 0 -> s_deadline b <= now ->
    flat (snd_pass [h] now nw n k) =
    let b' := upd_sbuf b ST_WAITING_CTS (now + tp21_T3) (x + Z.of_nat g + 1) in
    let nw' := if nw >? now + tp21_T3 then now + tp21_T3 else nw in
    let '(s, os, r) := flat (k (set_snd n (tset (n_snd n) h b')) nw') in
    (s, dts (s_src b) (s_dst b) (s_data b) x (S g) ++ os, r).
  Proof.
    intros Hget Hiv Hst Hx Hw Hlt Hx0 Hd0 Hdl.
    cbn [snd_pass]. rewrite Hget.
    assert ((s_deadline b =? 0) = false) as -> by lia.
    assert ((s_deadline b >? now) = false) as -> by lia.
    rewrite Hst.
    change (ST_SENDING_IN_CTS =? ST_WAITING_CTS) with false.
    change (ST_SENDING_IN_CTS =? ST_SENDING_IN_CTS) with true. cbv iota.
    rewrite (burst_window h now g _ n b x) by (try assumption; lia).
    cbn [n_snd set_snd]. rewrite tget_tset_same.
    cbn [upd_sbuf s_state s_next s_num s_deadline].
    assert ((ST_WAITING_CTS =? ST_SENDING_IN_CTS) = false) as -> by reflexivity.
    cbn [andb]. rewrite tset_tset_same. cbn [snd_pass].
    destruct (flat (k _ _)) as [[s os] r]. reflexivity.
  Qed.

  (* T09.1: while the session waits for a CTS and has not timed out, a job pass emits nothing *)
  Theorem no_dt_without_cts n b now nw k :
    tget (n_snd n) h = Some b -> s_state b = ST_WAITING_CTS -> 0 <= now < s_deadline b ->
    flat (snd_pass [h] now nw n k) =
    flat (k n (if nw >? s_deadline b then s_deadline b else nw)).
  Proof.
    intros Hget Hst Hdl. cbn [snd_pass]. rewrite Hget.
    assert ((s_deadline b =? 0) = false) as -> by lia.
    assert ((s_deadline b >? now) = true) as -> by lia.
    reflexivity.
  Qed.
End Originator.

(* send_pgn for a destination-specific message > 8 bytes: RTS with window limit min(max_cmdt, n),
   PGN with PS cleared, and a session that waits for the CTS *)
Theorem send_pgn_rts n now dp pf ps prio sa data :
  8 < len data -> 0 <= pf < 240 -> 0 <= ps < 255 -> 0 <= dp < 2 ->
  tget (n_snd n) (tp21_hash sa ps) = None ->
  let size := len data in
  let num := num_packets size in
  let pv := dp * 65536 + pf * 256 in
  flat (send_pgn n now dp pf ps prio sa data) =
  (wake (set_snd n (tset (n_snd n) (tp21_hash sa ps)
      (mk_sbuf pv prio size num data ST_WAITING_CTS (now + tp21_T3) sa ps (Some 0)))),
   [OTx (tp21_rts sa ps prio pv size num (Z.min (n_maxp n) num))], RDone 1).
Proof.
  intros Hlen Hpf Hps Hdp Hnone size num pv. unfold send_pgn.
  unfold pgn_mk. rewrite !land_255, land_1.
  rewrite !Z.mod_small by lia.
  assert ((len data <=? 8) = false) as -> by lia.
  assert ((ps =? addr_GLOBAL) = false) as -> by (unfold addr_GLOBAL; lia).
  assert (pgn_is_pdu2_of 0 pf ps = false) as ->.
  { unfold pgn_is_pdu2_of, pgn_mk. rewrite !land_255. rewrite Z.mod_small by lia.
    unfold pgn_is_pdu2. destruct (Z.geb pf 240 && Z.leb pf 255) eqn:E; [lia|reflexivity]. }
  cbn [orb]. rewrite (tmem_none _ _ Hnone).
  assert ((ps =? addr_GLOBAL) = false) as -> by (unfold addr_GLOBAL; lia).
  rewrite pgn_value_arith by lia. replace (dp * 65536 + pf * 256 + 0) with pv by (unfold pv; lia).
  cbn [flat]. reflexivity.
Qed.

(* send_pgn while a transfer on the pair is in progress: refused, nothing emitted, nothing changed (T10.4) *)
Theorem send_pgn_busy n now dp pf ps prio sa data b :
  8 < len data ->
  let dest := if (ps =? addr_GLOBAL) || pgn_is_pdu2_of 0 pf ps then addr_GLOBAL else ps in
  tget (n_snd n) (tp21_hash sa dest) = Some b ->
  flat (send_pgn n now dp pf ps prio sa data) = (n, [], RDone 0).
Proof.
  intros Hlen dest Hget. unfold send_pgn.
  destruct (pgn_mk dp pf ps) as [[pdp ppf] pps].
  assert ((len data <=? 8) = false) as -> by lia.
  fold dest. rewrite (tmem_get _ _ _ Hget). reflexivity.
Qed.

Example originator_example :
  let p := map Z.of_nat (seq 0 30) in
  let n0 := init_node 3 None None in
  let n1 := fnode (send_pgn n0 0 0 208 32 6 16 p) in
  let n2 := fnode (process_tp_cm 7 32 16 (f_data (tp21_cts 32 16 2 1 53248)) 5 n1) in
  length (fouts (job_iter n2 6)) = 2%nat.
Proof. vm_compute. reflexivity. Qed.

(* Dm14NetProofs.v — C17/C18 end to end on the composed DM14 model (Dm14Net.v): the requesting side (Dm14Query) against the
   serving side (DM14Server + MemoryAccess + the serving application), message by message.
   For EVERY content of the data (the bytes are universally quantified; they never decide a branch) and every object
   size / signedness / raw flag: a read returns exactly the server application's bytes (or the integers they encode), a
   write hands exactly the little-endian bytes of the values to the server application; with and without seed and key;
   afterwards both sides are idle (state IDLE, no requester remembered, queues empty, the original subscriptions), and
   what the requester sent is exactly what the computation had fed to the server plus the closing DM14 (the fixpoint is
   consistent).  A requester with the WRONG key gets the error 0x1003 / EDCP 7 raised, the application is neither asked nor
   notified, no data moves, and both sides are idle again.
   The addresses, the pointer and the seed are concrete in each statement (they are compared with themselves along the
   way, which evaluation cannot decide for variables); several instances are proved, incl. addresses 0 and 0xFFFFFFFF. *)
From J1939 Require Import Base Dm14Model Dm14Cli Dm14Srv Dm14Net.
Open Scope Z_scope.

Definition idle_srv (s : srv) : Prop :=
  a_state s = D_IDLE /\ v_state s = R_IDLE /\ v_sa s = None /\ v_addr s = None /\ v_busy s = false /\ subs s = [CB_LISTEN] /\ v_queue s = [].
Definition idle_cli (q : cli) : Prop := q_state q = Q_IDLE /\ q_dq q = [] /\ q_xq q = [] /\ q_subs q = [].
Definition asked_or_notified (os : list sout) : bool :=
  existsb (fun o => match o with SNotify => true | SProceedFn _ _ _ _ _ _ _ _ _ => true | _ => false end) os.
Definition data_sent (os : list sout) : bool := existsb (fun o => match o with SSend 215 _ _ _ => true | _ => false end) os.

Record setup := { u_cfg : cfg; u_seeds : list Z; u_ca : Z; u_sa : Z; u_direct : Z; u_addr : Z }.
Definition xor_key (sd : Z) : Z := Z.lxor sd 65535.
Definition cfg_plain : cfg := {| c_seedsec := false; c_hasproceed := true; c_key := fun sd => sd |}.
Definition cfg_plain_noproceed : cfg := {| c_seedsec := false; c_hasproceed := false; c_key := fun sd => sd |}.
Definition cfg_key : cfg := {| c_seedsec := true; c_hasproceed := true; c_key := xor_key |}.
Definition setups : list setup :=
  [ {| u_cfg := cfg_plain; u_seeds := []; u_ca := 249; u_sa := 212; u_direct := 1; u_addr := 2449473539 |};
    {| u_cfg := cfg_plain; u_seeds := []; u_ca := 0; u_sa := 254; u_direct := 0; u_addr := 0 |};
    {| u_cfg := cfg_plain_noproceed; u_seeds := []; u_ca := 49; u_sa := 0; u_direct := 1; u_addr := 4294967295 |};
    {| u_cfg := cfg_key; u_seeds := [4660]; u_ca := 249; u_sa := 212; u_direct := 1; u_addr := 2449473539 |};
    {| u_cfg := cfg_key; u_seeds := [1]; u_ca := 0; u_sa := 167; u_direct := 0; u_addr := 4294967295 |};
    {| u_cfg := cfg_key; u_seeds := []; u_ca := 128; u_sa := 0; u_direct := 1; u_addr := 16 |} ].

Definition read_ok (u : setup) (size : Z) (signed raw : bool) (data : list Z) : Prop :=
  let t := txn_read (u_cfg u) (c_key (u_cfg u)) (init_srv (u_seeds u) []) init_cli (u_ca u) (u_sa u) (u_direct u) (u_addr u) (zlen data) size signed raw data in
  t_ret t = CRValues (if raw then data else bytes_to_values (Z.to_nat size) signed data) /\
  idle_cli (t_cli t) /\ idle_srv (t_srv t) /\ t_srv_ret t = RetNone /\
  (exists closing, heard_from_cli (u_ca u) (u_sa u) (t_cli_sent t) = t_assumed t ++ [closing]) /\
  data_sent (t_srv_sent t) = true.

(* the write, on the bytes the values are converted to (everything after the conversion depends on the bytes only) *)
Lemma cli_write_is_b haskey keyf s dest direct addr values size during :
  cli_write haskey keyf s dest direct addr values size during =
  cli_write_b haskey keyf s dest direct addr (zlen values) size (values_to_bytes (Z.to_nat size) values) during.
Proof. reflexivity. Qed.
Lemma txn_write_is_b c ckey s0 q0 ca sa direct addr values size :
  txn_write c ckey s0 q0 ca sa direct addr values size =
  txn_write_b c ckey s0 q0 ca sa direct addr (zlen values) size (values_to_bytes (Z.to_nat size) values).
Proof. reflexivity. Qed.

Definition write_b_ok (u : setup) (objcnt size : Z) (bytes : list Z) : Prop :=
  let t := txn_write_b (u_cfg u) (c_key (u_cfg u)) (init_srv (u_seeds u) []) init_cli (u_ca u) (u_sa u) (u_direct u) (u_addr u) objcnt size bytes in
  t_ret t = CRNone /\ t_srv_ret t = RetData bytes /\
  idle_cli (t_cli t) /\ idle_srv (t_srv t) /\
  (exists closing, heard_from_cli (u_ca u) (u_sa u) (t_cli_sent t) = t_assumed t ++ [closing]).
Definition write_ok (u : setup) (size : nat) (values : list Z) : Prop :=
  let t := txn_write (u_cfg u) (c_key (u_cfg u)) (init_srv (u_seeds u) []) init_cli (u_ca u) (u_sa u) (u_direct u) (u_addr u) values (Z.of_nat size) in
  t_ret t = CRNone /\ t_srv_ret t = RetData (values_to_bytes size values) /\
  idle_cli (t_cli t) /\ idle_srv (t_srv t) /\
  (exists closing, heard_from_cli (u_ca u) (u_sa u) (t_cli_sent t) = t_assumed t ++ [closing]).

Ltac all_setups :=
  unfold setups; intros u Hu; cbn [In] in Hu;
  repeat (destruct Hu as [Hu|Hu]; [subst u|]); try contradiction.
Ltac by_eval := vm_compute; repeat split; try reflexivity; try (eexists; reflexivity).

(* ---------------------------------------------------------------- read: 1..7 bytes, any content *)
Theorem read_exact : forall u, In u setups -> forall data size signed raw,
  (1 <= length data <= 7)%nat -> read_ok u size signed raw data.
Proof.
  intros u Hu data size signed raw Hl.
  destruct data as [|b1 [|b2 [|b3 [|b4 [|b5 [|b6 [|b7 [|b8 r]]]]]]]]; cbn [length] in Hl; try lia;
    revert u Hu; all_setups; unfold read_ok, idle_cli, idle_srv; by_eval.
Qed.

(* ---------------------------------------------------------------- write: 1..7 bytes as 1-, 2- or 4-byte objects, any values *)
Ltac bytes_of_length n :=
  match goal with bytes : list Z, H : length ?b = n |- _ =>
    do 8 (try (destruct b as [|? b]; cbn [length] in H; try lia)); clear H
  end.
Theorem write_b_exact : forall u, In u setups -> forall objcnt size bytes,
  In (size, objcnt, length bytes) [(1, 1, 1%nat); (1, 2, 2%nat); (1, 3, 3%nat); (1, 4, 4%nat); (1, 5, 5%nat); (1, 6, 6%nat); (1, 7, 7%nat);
                                   (2, 1, 2%nat); (2, 2, 4%nat); (2, 3, 6%nat); (4, 1, 4%nat)] ->
  write_b_ok u objcnt size bytes.
Proof.
  intros u Hu objcnt size bytes Hin. cbn [In] in Hin.
  repeat (destruct Hin as [Hin|Hin]; [injection Hin as <- <- Hl; symmetry in Hl|]); try contradiction;
    (do 8 (try (destruct bytes as [|? bytes]; cbn [length] in Hl; try discriminate Hl))); clear Hl;
    revert u Hu; all_setups; unfold write_b_ok, idle_cli, idle_srv; by_eval.
Qed.

Lemma write_ok_of_b u (size : nat) values :
  write_b_ok u (zlen values) (Z.of_nat size) (values_to_bytes size values) -> write_ok u size values.
Proof. unfold write_ok, write_b_ok. rewrite txn_write_is_b, Nat2Z.id. exact (fun H => H). Qed.

Theorem write_exact_1 : forall u, In u setups -> forall values, (1 <= length values <= 7)%nat -> write_ok u 1 values.
Proof.
  intros u Hu values Hl. apply write_ok_of_b.
  destruct values as [|b1 [|b2 [|b3 [|b4 [|b5 [|b6 [|b7 [|b8 r]]]]]]]]; cbn [length] in Hl; try lia;
    apply (write_b_exact u Hu); cbn; tauto.
Qed.
Theorem write_exact_2 : forall u, In u setups -> forall values, (1 <= length values <= 3)%nat -> write_ok u 2 values.
Proof.
  intros u Hu values Hl. apply write_ok_of_b.
  destruct values as [|b1 [|b2 [|b3 [|b4 r]]]]; cbn [length] in Hl; try lia; apply (write_b_exact u Hu); cbn; tauto.
Qed.
Theorem write_exact_4 : forall u, In u setups -> forall v, write_ok u 4 [v].
Proof. intros u Hu v. apply write_ok_of_b. apply (write_b_exact u Hu); cbn; tauto. Qed.

(* ---------------------------------------------------------------- the wrong key, end to end *)
Definition wrong_key (sd : Z) : Z := Z.land (xor_key sd + 1) 65535.
Definition key_setups : list setup := filter (fun u => c_seedsec (u_cfg u)) setups.

Definition refused (u : setup) (t : txn) : Prop :=
  t_ret t = CRRaise (XDevice (u_sa u) 4099 7) /\
  asked_or_notified (t_srv_sent t) = false /\ data_sent (t_srv_sent t) = false /\ t_srv_ret t = RetNone /\
  idle_cli (t_cli t) /\ idle_srv (t_srv t).

Theorem read_wrong_key_refused : forall u, In u key_setups -> forall data size signed raw, (1 <= length data <= 7)%nat ->
  refused u (txn_read (u_cfg u) wrong_key (init_srv (u_seeds u) []) init_cli (u_ca u) (u_sa u) (u_direct u) (u_addr u) (zlen data) size signed raw data).
Proof.
  intros u Hu data size signed raw Hl.
  destruct data as [|b1 [|b2 [|b3 [|b4 [|b5 [|b6 [|b7 [|b8 r]]]]]]]]; cbn [length] in Hl; try lia;
    revert u Hu; unfold key_setups; all_setups; unfold refused, idle_cli, idle_srv; by_eval.
Qed.
Theorem write_wrong_key_refused : forall u, In u key_setups -> forall values, (1 <= length values <= 7)%nat ->
  refused u (txn_write (u_cfg u) wrong_key (init_srv (u_seeds u) []) init_cli (u_ca u) (u_sa u) (u_direct u) (u_addr u) values 1).
Proof.
  intros u Hu values Hl. rewrite txn_write_is_b.
  destruct values as [|b1 [|b2 [|b3 [|b4 [|b5 [|b6 [|b7 [|b8 r]]]]]]]]; cbn [length] in Hl; try lia;
    revert u Hu; unfold key_setups; all_setups; unfold refused, idle_cli, idle_srv; by_eval.
Qed.

(* ---------------------------------------------------------------- back to back: the idle states reached are the initial ones
   up to what no handler reads before writing it; a second transaction on the objects of the first behaves alike *)
Theorem second_read_after_first : forall b1 b2 b3 c1 c2 size signed raw,
  let u := {| u_cfg := cfg_key; u_seeds := [4660; 77]; u_ca := 249; u_sa := 212; u_direct := 1; u_addr := 2449473539 |} in
  let t1 := txn_read cfg_key xor_key (init_srv [4660; 77] []) init_cli 249 212 1 2449473539 3 size signed raw [b1; b2; b3] in
  let t2 := txn_read cfg_key xor_key (t_srv t1) (t_cli t1) 249 212 0 5 2 size signed raw [c1; c2] in
  t_ret t2 = CRValues (if raw then [c1; c2] else bytes_to_values (Z.to_nat size) signed [c1; c2]) /\ idle_cli (t_cli t2) /\ idle_srv (t_srv t2).
Proof. intros. unfold idle_cli, idle_srv. by_eval. Qed.

(* after a refused transaction (wrong key) the next well-formed one is served *)
Theorem read_after_wrong_key : forall b1 b2 c1 size signed raw,
  let t1 := txn_read cfg_key wrong_key (init_srv [4660; 77] []) init_cli 249 212 1 2449473539 2 size signed raw [b1; b2] in
  let t2 := txn_read cfg_key xor_key (t_srv t1) (t_cli t1) 249 212 1 2449473539 1 size signed raw [c1] in
  t_ret t1 = CRRaise (XDevice 212 4099 7) /\
  t_ret t2 = CRValues (if raw then [c1] else bytes_to_values (Z.to_nat size) signed [c1]) /\ idle_cli (t_cli t2) /\ idle_srv (t_srv t2).
Proof. intros. unfold idle_cli, idle_srv. by_eval. Qed.

(* Tp21Bam.v — T01.5: broadcast (BAM) transfers of J1939-21, both roles, on the node-level handlers of Model21.
   * listener: the announcement opens a session (replacing a stale one of the same source); the data packets
     DT_1..DT_n — arriving at arbitrary instants — produce NO frame at all and exactly one delivery of p to the matching
     listeners when the last one arrives; the session is released
   * originator: job passes at or after the successive deadlines emit DT_1, DT_2, ..., DT_n — one per pass, in order,
     each carrying dt_payload p k, the very frames the listener theorem consumes — and release the session after DT_n *)
From J1939 Require Import Base CodecGlue Model21.
From J1939.gen Require Import Codec Tp21Gen CaGen.
From J1939P Require Import CodecProofs Flat Tp21Seg Tp21Resp.
Local Arguments Z.add : simpl never.
Local Arguments Z.sub : simpl never.
Local Arguments Z.mul : simpl never.

(* ---------------------------------------------------------------- listener *)
Section Listener.
  Variables (prio sa pgn : Z) (p : list Z).
  Variable now : nat -> Z.
  Let h := tp21_hash sa addr_GLOBAL.

  Definition inv_bam (k : nat) (b : rbuf) : Prop :=
    r_data b = segs p k /\ r_size b = len p /\ r_pgn b = pgn.

  Lemma bam_feed_inv : forall cnt k n b, (k + cnt = npk (length p))%nat -> (0 < cnt)%nat ->
      tget (n_rcv n) h = Some b -> inv_bam k b ->
      exists n', feed prio sa addr_GLOBAL p now cnt k n = (n', deliveries n prio pgn sa addr_GLOBAL p) /\
                 n_rcv n' = tdel (n_rcv n) h /\ same_env n n'.
  Proof.
    induction cnt as [|c IH]; intros k n b Hk Hc Hget (Hd & Hs & Hpg); [lia|].
    cbn [feed]. unfold feed1. rewrite dt_payload_spec. unfold process_tp_dt. fold h. rewrite Hget.
    assert (Hlen : len (r_data b ++ pad7 (seg7 p k)) = 7 * Z.of_nat (S k)).
    { unfold len. rewrite app_length, Hd, segs_len, pad7_len by apply seg7_len_le. lia. }
    rewrite Hlen, Hs.
    rewrite (Z.eqb_refl addr_GLOBAL). cbn [negb andb].
    destruct (Z.geb_spec (7 * Z.of_nat (S k)) (len p)) as [Hdone|Hmore].
    - assert (c = 0%nat) by (unfold len, npk in *; lia). subst c.
      cbn [feed].
      rewrite flat_notify_subscribers.
      cbn [n_rcv set_rcv]. rewrite tmem_tset_same. cbn [flat].
      assert (Hp : firstn (Z.to_nat (len p)) (r_data b ++ pad7 (seg7 p k)) = p).
      { unfold len. rewrite Nat2Z.id. rewrite Hd.
        change (segs p k ++ pad7 (seg7 p k)) with (segs p (S k)).
        replace (S k) with (npk (length p)) by lia. apply seg7_reassemble. }
      rewrite Hp, Hpg.
      eexists. split; [|split].
      + rewrite !app_nil_r. erewrite (deliveries_env n); [reflexivity|reflexivity|reflexivity].
      + cbn [n_rcv wake set_rcv]. rewrite tdel_tset_same. reflexivity.
      + unfold same_env. cbn. repeat split; reflexivity.
    - assert (c <> 0%nat) by (unfold len, npk in *; lia).
      cbn [flat].
      match goal with |- context [feed prio sa addr_GLOBAL p now c (S k) ?n1] =>
        edestruct (IH (S k) n1) as (n' & Hf & Hr & He) end.
      + lia.
      + lia.
      + cbn [n_rcv wake set_rcv]. rewrite tset_tset_same, tget_tset_same. reflexivity.
      + unfold inv_bam. cbn [upd_rbuf r_data r_size r_pgn]. repeat split; auto. rewrite Hd. reflexivity.
      + rewrite Hf. exists n'. split; [|split].
        * cbn [app]. erewrite (deliveries_env n); [reflexivity|reflexivity|reflexivity].
        * rewrite Hr. cbn [n_rcv wake set_rcv]. rewrite tset_tset_same, tdel_tset_same. reflexivity.
        * destruct He as (E1 & E2 & E3 & E4 & E5 & E6 & E7). unfold same_env.
          cbn [n_subs n_cas n_snd n_timers n_maxp n_cmdt_iv n_bam_iv wake set_rcv] in *.
          repeat split; assumption.
  Qed.
End Listener.

(* the announcement: a BAM for any (size, packets, PGN) opens the session of its source — replacing whatever was left of
   an earlier broadcast of the same source — and emits nothing *)
Theorem bam_announce_opens prio sa data now n :
  (8 <= length data)%nat -> tp21_cm_control data = tp21_cm_BAM ->
  let h := tp21_hash sa addr_GLOBAL in
  let b := {| r_pgn := tp21_cm_pgn data; r_size := tp21_bam_message_size data; r_num := tp21_bam_num_packages data; r_next := 1;
              r_maxrec := None; r_data := []; r_deadline := now + tp21_T1; r_src := sa; r_dst := addr_GLOBAL |} in
  fouts (process_tp_cm prio sa addr_GLOBAL data now n) = [] /\
  tget (n_rcv (fnode (process_tp_cm prio sa addr_GLOBAL data now n))) h = Some b.
Proof.
  intros Hl Hc h b. unfold process_tp_cm, fouts, fnode.
  assert ((length data <? 8)%nat = false) as -> by (apply Nat.ltb_ge; exact Hl).
  rewrite Hc.
  change (tp21_cm_BAM =? tp21_cm_RTS) with false. change (tp21_cm_BAM =? tp21_cm_CTS) with false.
  change (tp21_cm_BAM =? tp21_cm_EOM_ACK) with false. change (tp21_cm_BAM =? tp21_cm_BAM) with true. cbv iota.
  cbn [flat fst snd]. split; [reflexivity|].
  cbn [n_rcv wake set_rcv]. apply tget_tset_same.
Qed.

(* T01.5 (listener): from the state the announcement creates, the n data packets give exactly one delivery of p and
   no frame; stated for any session holding the first k packets *)
Theorem bam_listener_delivers prio sa pgn p now : forall n b,
  (8 < length p)%nat ->
  tget (n_rcv n) (tp21_hash sa addr_GLOBAL) = Some b -> r_data b = [] -> r_size b = len p -> r_pgn b = pgn ->
  exists n', feed prio sa addr_GLOBAL p now (npk (length p)) 0 n = (n', deliveries n prio pgn sa addr_GLOBAL p) /\
             n_rcv n' = tdel (n_rcv n) (tp21_hash sa addr_GLOBAL) /\ same_env n n'.
Proof.
  intros n b Hp Hget Hd Hs Hpg.
  apply (bam_feed_inv prio sa pgn p now (npk (length p)) 0 n b); [lia|unfold npk; lia|exact Hget|].
  unfold inv_bam. repeat split; assumption.
Qed.

(* ---------------------------------------------------------------- originator *)
Definition bam_pass (key now : Z) (n : node) : node * list out :=
  let '(n', os, _) := flat (snd_pass [key] now (now + 5000000) n (fun n1 _ => Done n1 0)) in (n', os).

Fixpoint bam_run (key : Z) (times : list Z) (n : node) : node * list out :=
  match times with
  | [] => (n, [])
  | t :: r => let '(n1, o1) := bam_pass key t n in let '(n2, o2) := bam_run key r n1 in (n2, o1 ++ o2)
  end.

Fixpoint dts_from (src dst : Z) (data : list Z) (x : Z) (cnt : nat) : list out :=
  match cnt with
  | O => []
  | S c => OTx (tp21_dt src dst (dt_payload data x)) :: dts_from src dst data (x + 1) c
  end.

(* each pass happens at or after the deadline the previous one armed: times are "late enough" *)
Fixpoint late_enough (dl iv : Z) (times : list Z) : Prop :=
  match times with
  | [] => True
  | t :: r => dl <= t /\ late_enough (t + iv) iv r
  end.

Theorem bam_originator_sends_all key : forall (times : list Z) n b,
  tget (n_snd n) key = Some b -> s_state b = ST_SENDING_BM -> 0 < s_deadline b -> 0 < n_bam_iv n ->
  0 <= s_next b -> s_next b + Z.of_nat (length times) = s_num b -> (0 < length times)%nat ->
  late_enough (s_deadline b) (n_bam_iv n) times ->
  let '(n', os) := bam_run key times n in
  os = dts_from (s_src b) (s_dst b) (s_data b) (s_next b) (length times) /\
  n_snd n' = tdel (n_snd n) key.
Proof.
  induction times as [|t r IH]; intros n b Hget Hst Hdl Hiv Hx Hnum Hlen Hlate; [cbn in Hlen; lia|].
  cbn [bam_run length dts_from]. destruct Hlate as [Ht Hrest].
  unfold bam_pass. cbn [snd_pass]. rewrite Hget.
  assert ((s_deadline b =? 0) = false) as -> by lia.
  assert ((s_deadline b >? t) = false) as -> by lia.
  rewrite Hst. change (ST_SENDING_BM =? ST_WAITING_CTS) with false.
  change (ST_SENDING_BM =? ST_SENDING_IN_CTS) with false. change (ST_SENDING_BM =? ST_SENDING_BM) with true. cbv iota.
  destruct r as [|t2 r2].
  - (* the last packet *)
    cbn [length] in Hnum. assert ((s_next b + 1 <? s_num b) = false) as -> by lia.
    cbn [flat snd_pass bam_run]. split; [reflexivity|]. reflexivity.
  - cbn [length] in Hnum. assert ((s_next b + 1 <? s_num b) = true) as -> by lia.
    cbn [flat snd_pass].
    set (b' := upd_sbuf b ST_SENDING_BM (t + n_bam_iv n) (s_next b + 1)).
    set (n1 := set_snd n (tset (n_snd n) key b')).
    specialize (IH n1 b').
    assert (G1 : tget (n_snd n1) key = Some b') by (unfold n1; cbn [n_snd set_snd]; apply tget_tset_same).
    specialize (IH G1 eq_refl).
    assert (Hd1 : 0 < s_deadline b') by (unfold b'; cbn [upd_sbuf s_deadline]; lia).
    specialize (IH Hd1 Hiv ltac:(unfold b'; cbn [upd_sbuf s_next]; lia)
                   ltac:(unfold b'; cbn [upd_sbuf s_next s_num length] in *; lia) ltac:(cbn [length]; lia)).
    assert (Hl1 : late_enough (s_deadline b') (n_bam_iv n1) (t2 :: r2)) by exact Hrest.
    specialize (IH Hl1).
    destruct (bam_run key (t2 :: r2) n1) as [n2 o2]. destruct IH as [Ho Hs]. split.
    + cbn [app]. f_equal. exact Ho.
    + rewrite Hs. unfold n1. cbn [n_snd set_snd]. apply tdel_tset_same.
Qed.

(* Net22Timeout.v — C06 end to end on J1939-22: a responder that does not answer.  In the closed loop of two FD model nodes
   (Net22.v), B does not accept the destination address: A's RTS stays unanswered, the network's clock advances by exactly
   T3 = 1.25 s (not T5 = 3 s, which is for the end-of-message acknowledge only), A's job thread then sends the Connection
   Abort (timeout), releases the session and returns its number to the pool; nothing was delivered and nothing is left. *)
From J1939 Require Import Base CodecGlue Model21 Model22.
From J1939.gen Require Import Codec Tp21Gen CaGen Tp22Gen.
From J1939P Require Import CodecProofs Flat MpgProofs PoolProofs Tp21Seg Tp21Resp Tp22Proofs Tp22Resp Net21 Net21Proofs Net22 Net22Proofs Net22Bam.
Local Arguments Z.add : simpl never.
Local Arguments Z.sub : simpl never.
Local Arguments Z.mul : simpl never.

Ltac inner22 tac :=
  match goal with |- context [step22 (Build_net22 ?a ?b ?x ?y ?c ?e1 ?e2 ?w1 ?w2)] => tac (Build_net22 a b x y c e1 e2 w1 w2) end.

Section Silent22.
  Variables (prio sa dest dp pf : Z) (p : list Z) (t0 : Z) (A0 B0 : node22).
  Hypothesis Hprio : 0 <= prio < 8.
  Hypothesis Hsa : 0 <= sa < 255.
  Hypothesis Hdest : 0 <= dest < 255.
  Hypothesis Hpf : 0 <= pf < 240.
  Hypothesis Hdp : 0 <= dp < 2.
  Hypothesis Hsize : 60 < len p < 16777216.
  Hypothesis Ht0 : 0 < t0.
  Let pv := dp * 65536 + pf * 256.
  Let ns := ((length p + 59) / 60)%nat.
  Let nseg := Z.of_nat ns.
  Let h := tp22_hash 0 sa dest.
  Hypothesis HA : f_snd A0 = [] /\ f_rcv A0 = [] /\ f_mpg A0 = [] /\ n_timers (base A0) = [] /\ n_cmdt_iv (base A0) = None /\
                  accepts (base A0) sa = true /\ 1 <= n_maxp (base A0) < 256 /\ f_rts A0 = repeat true tp22_pool_rts.
  Hypothesis HB : f_snd B0 = [] /\ f_rcv B0 = [] /\ f_mpg B0 = [] /\ n_timers (base B0) = [] /\ 1 <= n_maxp (base B0).

  Let rtsf : frame := tp22_rts prio sa dest 0 pv (len p) nseg (Z.min (n_maxp (base A0)) nseg).
  Let abortA : frame := tp22_abort sa dest 0 tp22_reason_TIMEOUT pv.
  Let sbw : sbuf22 :=
    {| t_pgn := pv; t_prio := prio; t_session := 0; t_size := len p; t_nseg := nseg; t_data := segments p; t_state := tp22_st_WAITING_CTS;
       t_deadline := t0 + tp22_T3; t_src := sa; t_dst := dest; t_next := 0; t_waitcts := Some 0; t_nb := 0 |}.
  Let A1 : node22 := wake22 (set_fsnd (set_frts A0 (false :: repeat true 7)) [(h, sbw)]).
  Let s0 : net22 := net22_send (net22_0 A0 B0 t0) dp pf dest prio sa p.

  Lemma s0_eq22 : s0 = {| fa := A1; fb := B0; pa := []; pb := [rtsf]; fclk := t0; eva2 := []; evb2 := []; wab2 := [rtsf]; wba2 := [] |}.
  Proof.
    destruct HA as (As & Ar & Am & At & Ai & Aa & Amx & Ap).
    unfold s0, net22_send, net22_0. cbn [fa fb pa pb fclk eva2 evb2 wab2 wba2].
    rewrite (send_pgn22_rts prio sa dest dp pf p A0 B0 Hdest Hpf Hdp Hsize A0 t0 As Ap eq_refl). cbn [txs flat_map evs filter app]. reflexivity.
  Qed.

  Lemma deaf22 m t f prio' dst src pf' : accepts (base m) dst = false ->
    0 <= prio' < 8 -> 0 <= pf' < 240 -> 0 <= dst < 255 -> 0 <= src < 256 ->
    f_id f = mid_can_id_of prio' (pgn_value_of 0 pf' dst) src -> handle22 m t f = (m, []).
  Proof.
    intros Hacc H1 H2 H3 H4 Hid. unfold handle22, notify22. rewrite Hid.
    destruct (pdu1_id_fields prio' pf' dst src H1 H2 ltac:(lia) H4) as (E1 & E2 & E3). rewrite E1, E2, E3.
    unfold accepts in Hacc. assert ((dst =? addr_GLOBAL) = false) as G by (unfold addr_GLOBAL; lia). rewrite G in *.
    cbn [orb negb andb] in *. apply orb_false_iff in Hacc. destruct Hacc as (Hec & Hca). rewrite Hec, Hca.
    reflexivity.
  Qed.

  Lemma A1_facts22 : f_rcv A1 = [] /\ f_mpg A1 = [] /\ n_timers (base A1) = [] /\ f_snd A1 = [(h, sbw)] /\ f_rts A1 = false :: repeat true 7.
  Proof. destruct HA as (As & Ar & Am & At & _). unfold A1. destruct A0 as [ab ? ? ? ? ? ?]. destruct ab. cbn in *. repeat split; assumption || reflexivity. Qed.

  Lemma jobA22_before a c : f_rcv a = [] -> f_mpg a = [] -> n_timers (base a) = [] -> f_snd a = [(h, sbw)] ->
    0 < c < t0 + tp22_T3 -> t0 + tp22_T3 < c + 5000000 ->
    flat22 (job_iter22 a c) = (a, [], RDone (t0 + tp22_T3 - c)).
  Proof.
    intros Hr Hm Ht Hs Hc Hd. unfold job_iter22, dll_job22. rewrite Hr. cbn [tkeys map rcv_pass22]. rewrite Hm. cbn [tkeys map mpg_pass].
    rewrite Hs. cbn [tkeys map fst snd_pass22]. rewrite Hs. cbn [tget]. rewrite Z.eqb_refl. cbn [sbw t_deadline].
    assert ((t0 + tp22_T3 =? 0) = false) as -> by lia. assert ((t0 + tp22_T3 >? c) = true) as -> by lia.
    unfold minw. assert ((c + 5000000 >? t0 + tp22_T3) = true) as -> by lia. apply btimers_tail. exact Ht.
  Qed.

  Lemma jobA22_timeout a c : f_rcv a = [] -> f_mpg a = [] -> n_timers (base a) = [] -> f_snd a = [(h, sbw)] ->
    f_rts a = false :: repeat true 7 -> t0 + tp22_T3 <= c ->
    flat22 (job_iter22 a c) = (set_frts (set_fsnd a []) (repeat true tp22_pool_rts), [OTx abortA], RDone (c + 5000000 - c)).
  Proof.
    intros Hr Hm Ht Hs Hp Hc. unfold job_iter22, dll_job22. rewrite Hr. cbn [tkeys map rcv_pass22]. rewrite Hm. cbn [tkeys map mpg_pass].
    rewrite Hs. cbn [tkeys map fst snd_pass22]. rewrite Hs. cbn [tget]. rewrite Z.eqb_refl.
    cbn [sbw t_deadline t_state t_src t_dst t_session t_pgn].
    assert ((t0 + tp22_T3 =? 0) = false) as -> by (unfold tp22_T3; lia). assert ((t0 + tp22_T3 >? c) = false) as -> by lia.
    change (tp22_st_WAITING_CTS =? tp22_st_WAITING_CTS) with true. cbv iota. cbn [flat22].
    unfold tmem. rewrite Hs. cbn [tget tdel]. rewrite !Z.eqb_refl.
    unfold put_session. cbn [sbw t_dst t_session]. assert ((dest =? addr_GLOBAL) = false) as -> by (unfold addr_GLOBAL; lia).
    unfold put_rts. cbn [f_rts set_fsnd]. rewrite Hp. change (pool_put (false :: repeat true 7) 0) with (Some (repeat true tp22_pool_rts)).
    cbv iota. cbn [snd_pass22].
    assert (Et : n_timers (base (set_frts (set_fsnd a []) (repeat true tp22_pool_rts))) = []) by (destruct a; exact Ht).
    rewrite (btimers_tail _ c (c + 5000000) Et). reflexivity.
  Qed.

  Theorem silent_responder22 : accepts (base B0) dest = false ->
    let s := steps22 4 s0 in
    pa s = [] /\ pb s = [] /\ f_snd (fa s) = [] /\ f_rcv (fa s) = [] /\ f_rts (fa s) = repeat true tp22_pool_rts /\ fb s = B0 /\
    evb2 s = [] /\ eva2 s = [] /\ wab2 s = [rtsf; abortA] /\ wba2 s = [] /\ fclk s = t0 + tp22_T3.
  Proof.
    intros Hacc. destruct HB as (Bs & Br & Bm & Bt & _). destruct A1_facts22 as (Hr & Hm & Ht & Hs & Hp).
    rewrite s0_eq22. cbn [steps22].
    (* B ignores the RTS *)
    inner22 ltac:(fun S => rewrite (bstep22_b S rtsf []) by reflexivity). cbn [fa fb pa pb fclk eva2 evb2 wab2 wba2].
    rewrite (deaf22 B0 t0 rtsf prio dest sa 77 Hacc) by (try reflexivity; lia). cbn [txs flat_map evs filter app].
    (* nothing to do: the clock advances to A's deadline *)
    inner22 ltac:(fun S => rewrite (bstep22_idle S) by reflexivity). cbn [fa fb pa pb fclk eva2 evb2 wab2 wba2].
    rewrite (jobA22_before A1 t0 Hr Hm Ht Hs) by (unfold tp22_T3; lia). rewrite (jobq22 B0 t0 Br Bm Bs Bt).
    cbn [txs flat_map evs filter app sleep_of andb]. rewrite !Z.eqb_refl. cbn [andb].
    assert (Z.max 0 (Z.min (t0 + tp22_T3 - t0) (t0 + 5000000 - t0)) = tp22_T3) as -> by (unfold tp22_T3; lia).
    (* the job thread gives up *)
    inner22 ltac:(fun S => rewrite (bstep22_idle S) by reflexivity). cbn [fa fb pa pb fclk eva2 evb2 wab2 wba2].
    rewrite (jobA22_timeout A1 (t0 + tp22_T3) Hr Hm Ht Hs Hp) by lia. rewrite (jobq22 B0 _ Br Bm Bs Bt).
    cbn [txs flat_map evs filter app andb].
    (* B ignores the abort *)
    inner22 ltac:(fun S => rewrite (bstep22_b S abortA []) by reflexivity). cbn [fa fb pa pb fclk eva2 evb2 wab2 wba2].
    rewrite (deaf22 B0 _ abortA 7 dest sa 77 Hacc) by (try reflexivity; lia). cbn [txs flat_map evs filter app].
    split; [reflexivity|]. split; [reflexivity|]. split; [destruct A1; reflexivity|]. split; [destruct A1; exact Hr|].
    split; [destruct A1; reflexivity|]. repeat split; try reflexivity. cbn [fclk]. lia.
  Qed.
End Silent22.

Theorem silent_responder22_abandoned_after_T3 prio sa dest dp pf p t0 A0 B0 :
  0 <= prio < 8 -> 0 <= sa < 255 -> 0 <= dest < 255 -> 0 <= pf < 240 -> 0 <= dp < 2 -> 60 < len p < 16777216 -> 0 < t0 ->
  f_snd A0 = [] /\ f_rcv A0 = [] /\ f_mpg A0 = [] /\ n_timers (base A0) = [] /\ n_cmdt_iv (base A0) = None /\
    accepts (base A0) sa = true /\ 1 <= n_maxp (base A0) < 256 /\ f_rts A0 = repeat true tp22_pool_rts ->
  f_snd B0 = [] /\ f_rcv B0 = [] /\ f_mpg B0 = [] /\ n_timers (base B0) = [] /\ 1 <= n_maxp (base B0) ->
  accepts (base B0) dest = false ->
  let pv := dp * 65536 + pf * 256 in
  let nseg := Z.of_nat ((length p + 59) / 60) in
  let s := steps22 4 (net22_send (net22_0 A0 B0 t0) dp pf dest prio sa p) in
  pa s = [] /\ pb s = [] /\ f_snd (fa s) = [] /\ f_rcv (fa s) = [] /\ f_rts (fa s) = repeat true tp22_pool_rts /\ fb s = B0 /\
  evb2 s = [] /\ eva2 s = [] /\
  wab2 s = [tp22_rts prio sa dest 0 pv (len p) nseg (Z.min (n_maxp (base A0)) nseg); tp22_abort sa dest 0 tp22_reason_TIMEOUT pv] /\
  wba2 s = [] /\ fclk s = t0 + 1250000.
Proof.
  intros H1 H2 H3 H4 H5 H6 H7 HA HB Hacc pv nseg.
  exact (silent_responder22 prio sa dest dp pf p t0 A0 B0 H1 H2 H3 H4 H5 H6 H7 HA HB Hacc).
Qed.

Example silent_responder22_instance :
  let A := sub22 (init_node22 3 None None) 1 (FAddr 128) in
  let B := sub22 (init_node22 2 None None) 7 (FAddr 145) in
  let s := steps22 4 (net22_send (net22_0 A B 1000) 0 239 144 6 128 (map Z.of_nat (seq 1 150))) in
  quiet22 s = true /\ length (wab2 s) = 2%nat /\ fclk s = 1251000 /\ evb2 s = [].
Proof. vm_compute. repeat split. Qed.

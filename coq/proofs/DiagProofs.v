(* DiagProofs.v — C16: DTC, lamps, DM1 payload, DM22 (all on generated definitions + Dm1Model). *)
From J1939 Require Import Base Dm1Model.
From J1939.gen Require Import DiagGen.
From J1939P Require Import CodecProofs.

(* ---------------------------------------------------------------- DTC *)
Lemma dtc_pack_arith spn fmi oc :
  0 <= spn < 524288 -> 0 <= fmi < 32 -> 0 <= oc < 128 ->
  dtc_pack spn fmi oc = spn mod 65536 + fmi * 65536 + (spn / 65536) * 2097152 + oc * 16777216.
Proof.
  intros Hs Hf Ho. unfold dtc_pack.
  change 458752 with (Z.ones 3 * 2 ^ 16). rewrite land_high_mask by lia.
  rewrite land_65535, land_31, land_127. rewrite !shiftl_mul by lia. pow2_norm.
  rewrite !Z.mod_small with (a := fmi) by lia. rewrite !Z.mod_small with (a := oc) by lia.
  rewrite (Z.mod_small (spn / 65536) 8) by lia.
  set (a := spn mod 65536). set (hi := spn / 65536).
  assert (Ha : 0 <= a < 65536) by (unfold a; lia).
  assert (Hh : 0 <= hi < 8) by (unfold hi; lia).
  (* reorder the disjoint fields: a | (hi<<21) | (fmi<<16) | (oc<<24) *)
  rewrite <- (Z.lor_assoc a). rewrite (Z.lor_comm (hi * 65536 * 32)). rewrite (Z.lor_assoc a).
  rewrite (Z.lor_comm a (fmi * 65536)).
  rewrite (lor_add_low (fmi * 65536) a 16) by (pow2_norm; lia).
  rewrite (Z.lor_comm (fmi * 65536 + a)).
  rewrite (lor_add_low (hi * 65536 * 32) (fmi * 65536 + a) 21) by (pow2_norm; lia).
  rewrite (Z.lor_comm _ (oc * 16777216)).
  rewrite (lor_add_low (oc * 16777216) _ 24) by (pow2_norm; lia).
  lia.
Qed.

Lemma dtc_unpack_arith d :
  0 <= d ->
  dtc_unpack d = (d mod 65536 + ((d / 2097152) mod 8) * 65536, (d / 65536) mod 32, (d / 16777216) mod 128, (d / 2147483648) mod 2).
Proof.
  intros Hd. unfold dtc_unpack.
  change 458752 with (Z.ones 3 * 2 ^ 16). rewrite land_high_mask by lia.
  rewrite land_65535, land_31, land_127, land_1. rewrite !shiftr_div by lia. pow2_norm.
  rewrite Z.lor_comm. rewrite (lor_add_low _ (d mod 65536) 16) by (pow2_norm; lia).
  rewrite Z.div_div by lia. change (32 * 65536) with 2097152.
  rewrite (Z.add_comm _ (d mod 65536)). reflexivity.
Qed.

(* T16.1 *)
Theorem dtc_roundtrip spn fmi oc :
  0 <= spn < 524288 -> 0 <= fmi < 32 -> 0 <= oc < 128 ->
  dtc_unpack (dtc_pack spn fmi oc) = (spn, fmi, oc, 0).
Proof.
  intros Hs Hf Ho. rewrite dtc_pack_arith by assumption.
  rewrite dtc_unpack_arith by lia.
  f_equal; [f_equal; [f_equal|]|]; lia.
Qed.

(* the four bytes on the wire are J1939-73's: SPN low 16 bits LE; SPN bits 18..16 in bits 7..5 of byte 3
   above the 5-bit FMI; occurrence count in bits 6..0 of byte 4 (conversion method bit 0) *)
Theorem dtc_bytes_layout spn fmi oc :
  0 <= spn < 524288 -> 0 <= fmi < 32 -> 0 <= oc < 128 ->
  dm1_dtc_bytes (dtc_pack spn fmi oc) =
  [spn mod 256; (spn / 256) mod 256; (spn / 65536) * 32 + fmi; oc].
Proof.
  intros Hs Hf Ho. rewrite dtc_pack_arith by assumption. unfold dm1_dtc_bytes.
  rewrite !land_255. rewrite !shiftr_div by lia. pow2_norm.
  f_equal; [lia|]. f_equal; [lia|]. f_equal; [lia|]. f_equal. lia.
Qed.

Theorem dtc_join_bytes b0 b1 b2 b3 :
  0 <= b0 < 256 -> 0 <= b1 < 256 -> 0 <= b2 < 256 -> 0 <= b3 < 256 ->
  dm1_dtc_join b0 b1 b2 b3 = b0 + b1 * 256 + b2 * 65536 + b3 * 16777216.
Proof.
  intros H0 H1 H2 H3. unfold dm1_dtc_join. rewrite !land_255. rewrite !Z.mod_small by lia.
  rewrite !shiftl_mul by lia. pow2_norm.
  rewrite (Z.lor_comm b0). rewrite (lor_add_low (b1 * 256) b0 8) by (pow2_norm; lia).
  rewrite (Z.lor_comm _ (b2 * 65536)). rewrite (lor_add_low (b2 * 65536) _ 16) by (pow2_norm; lia).
  rewrite (Z.lor_comm _ (b3 * 16777216)). rewrite (lor_add_low (b3 * 16777216) _ 24) by (pow2_norm; lia).
  lia.
Qed.

Lemma dtc_bytes_join d : 0 <= d < 4294967296 ->
  match dm1_dtc_bytes d with
  | [b0; b1; b2; b3] => dm1_dtc_join b0 b1 b2 b3 = d
  | _ => False
  end.
Proof.
  intros H. unfold dm1_dtc_bytes. rewrite !land_255. rewrite !shiftr_div by lia. pow2_norm.
  rewrite dtc_join_bytes by lia. lia.
Qed.

(* ---------------------------------------------------------------- lamps (finite domain) *)
Definition lamp_states : list Z := [0; 1; 2; 3; 4].
Definition lamp_ok (q : Z * Z * Z * Z) : bool :=
  let '(pl, awl, rsl, mil) := q in
  let d := lamp_get_data pl awl rsl mil in
  match map (fun lf => lamp_get_status (fst lf) (snd lf)) (dm1_lamp_fields (d ++ [0])) with
  | [a; b; c; e] => (a =? pl) && (b =? awl) && (c =? rsl) && (e =? mil)
  | _ => false
  end &&
  (* bit pairs at the standard's positions: pl bits 1..0, awl 3..2, rsl 5..4, mil 7..6 of both bytes *)
  match d with
  | [x; y] =>
      let f := fun st => match lamp_lut st with Some p => p | None => (0, 0) end in
      (x =? fst (f pl) + 4 * fst (f awl) + 16 * fst (f rsl) + 64 * fst (f mil)) &&
      (y =? snd (f pl) + 4 * snd (f awl) + 16 * snd (f rsl) + 64 * snd (f mil))
  | _ => false
  end.
Definition all_lamps : list (Z * Z * Z * Z) :=
  flat_map (fun a => flat_map (fun b => flat_map (fun c => map (fun d => (a, b, c, d)) lamp_states) lamp_states) lamp_states) lamp_states.
Lemma lamp_sweep : forallb lamp_ok all_lamps = true.
Proof. vm_compute. reflexivity. Qed.

Definition lamp_state (s : Z) : Prop := In s lamp_states.
Lemma in_all_lamps a b c d : lamp_state a -> lamp_state b -> lamp_state c -> lamp_state d -> In (a, b, c, d) all_lamps.
Proof.
  intros Ha Hb Hc Hd. unfold all_lamps.
  apply in_flat_map. exists a. split; [exact Ha|].
  apply in_flat_map. exists b. split; [exact Hb|].
  apply in_flat_map. exists c. split; [exact Hc|].
  apply in_map. exact Hd.
Qed.
(* T16.2: all 5^4 lamp combinations survive get_data / get_status *)
Theorem lamps_roundtrip pl awl rsl mil rest :
  lamp_state pl -> lamp_state awl -> lamp_state rsl -> lamp_state mil ->
  map (fun lf => lamp_get_status (fst lf) (snd lf)) (dm1_lamp_fields (lamp_get_data pl awl rsl mil ++ rest)) = [pl; awl; rsl; mil]
  /\ length (lamp_get_data pl awl rsl mil) = 2%nat.
Proof.
  intros Ha Hb Hc Hd.
  pose proof lamp_sweep as S. rewrite forallb_forall in S.
  specialize (S _ (in_all_lamps _ _ _ _ Ha Hb Hc Hd)). unfold lamp_ok in S.
  apply andb_prop in S. destruct S as [S1 S2].
  assert (L : length (lamp_get_data pl awl rsl mil) = 2%nat) by reflexivity.
  split; [|exact L].
  (* the lamp fields only read bytes 0 and 1 *)
  assert (E : dm1_lamp_fields (lamp_get_data pl awl rsl mil ++ rest) = dm1_lamp_fields (lamp_get_data pl awl rsl mil ++ [0])).
  { unfold dm1_lamp_fields, byte_at. remember (lamp_get_data pl awl rsl mil) as d.
    destruct d as [|x [|y [|z t]]]; try discriminate. reflexivity. }
  rewrite E.
  destruct (map _ (dm1_lamp_fields (lamp_get_data pl awl rsl mil ++ [0]))) as [|a [|b [|c [|e [|? ?]]]]]; try discriminate.
  apply andb_prop in S1. destruct S1 as [S1 Se]. apply andb_prop in S1. destruct S1 as [S1 Sc].
  apply andb_prop in S1. destruct S1 as [Sa Sb].
  f_equal; [lia|]. f_equal; [lia|]. f_equal; [lia|]. f_equal. lia.
Qed.

(* ---------------------------------------------------------------- T16.3 DM1 payload *)
Definition dtc_ok (d : dtc) : Prop := 0 <= d_spn d < 524288 /\ 0 <= d_fmi d < 32 /\ 0 <= d_oc d < 128.

Lemma parse_build_dtcs : forall dtcs rest, Forall dtc_ok dtcs ->
  parse_dtcs (length dtcs)
    (concat (map (fun d => dm1_dtc_bytes (dtc_pack (d_spn d) (d_fmi d) (d_oc d))) dtcs) ++ rest) = dtcs.
Proof.
  induction dtcs as [|d r IH]; intros rest H; [reflexivity|].
  inversion H as [|? ? Hd Hr]; subst. destruct Hd as (Hs & Hf & Ho).
  cbn [length map concat parse_dtcs].
  pose proof (dtc_pack_arith _ _ _ Hs Hf Ho) as Ea.
  assert (Hrng : 0 <= dtc_pack (d_spn d) (d_fmi d) (d_oc d) < 4294967296) by (rewrite Ea; lia).
  pose proof (dtc_bytes_join _ Hrng) as J.
  destruct (dm1_dtc_bytes (dtc_pack (d_spn d) (d_fmi d) (d_oc d))) as [|b0 [|b1 [|b2 [|b3 [|? ?]]]]] eqn:Eb; try contradiction.
  cbn [app]. rewrite J. rewrite dtc_roundtrip by assumption.
  f_equal; [destruct d; reflexivity|]. apply IH. exact Hr.
Qed.

Theorem dm1_roundtrip pl awl rsl mil dtcs :
  lamp_state pl -> lamp_state awl -> lamp_state rsl -> lamp_state mil ->
  dtcs <> [] -> Forall dtc_ok dtcs ->
  dm1_parse (dm1_build pl awl rsl mil dtcs) = Some ([pl; awl; rsl; mil], dtcs) /\
  length (dm1_build pl awl rsl mil dtcs) = (2 + 4 * length dtcs)%nat.
Proof.
  intros Ha Hb Hc Hd Hne Hok.
  destruct (lamps_roundtrip pl awl rsl mil
              (concat (map (fun d => dm1_dtc_bytes (dtc_pack (d_spn d) (d_fmi d) (d_oc d))) dtcs)) Ha Hb Hc Hd) as [HL H2].
  assert (Hlen : length (dm1_build pl awl rsl mil dtcs) = (2 + 4 * length dtcs)%nat).
  { unfold dm1_build. rewrite app_length, H2. f_equal.
    clear. induction dtcs as [|d r IH]; [reflexivity|]. cbn [map concat length]. rewrite app_length, IH. cbn. lia. }
  split; [|exact Hlen].
  unfold dm1_parse. rewrite Hlen.
  assert (Hn : (1 <= length dtcs)%nat) by (destruct dtcs; [contradiction|cbn; lia]).
  assert ((Z.of_nat (2 + 4 * length dtcs) <? 6) = false) as -> by lia.
  assert ((Z.of_nat (2 + 4 * length dtcs) =? 8) = false) as -> by lia.
  assert (((Z.of_nat (2 + 4 * length dtcs) - 2) mod 4 =? 0) = true) as -> by lia.
  cbn [negb andb]. f_equal. f_equal.
  - exact HL.
  - replace (Z.to_nat ((Z.of_nat (2 + 4 * length dtcs) - 2) / 4)) with (length dtcs) by lia.
    unfold dm1_build.
    assert (skipn 2 (lamp_get_data pl awl rsl mil ++ concat (map (fun d => dm1_dtc_bytes (dtc_pack (d_spn d) (d_fmi d) (d_oc d))) dtcs))
            = concat (map (fun d => dm1_dtc_bytes (dtc_pack (d_spn d) (d_fmi d) (d_oc d))) dtcs)) as ->.
    { remember (lamp_get_data pl awl rsl mil) as l. destruct l as [|x [|y [|z t]]]; try discriminate. reflexivity. }
    rewrite <- (app_nil_r (concat _)). apply parse_build_dtcs. exact Hok.
Qed.

(* ---------------------------------------------------------------- T16.4 DM22 *)
Theorem dm22_layout ctrl fmi spn :
  0 <= spn < 524288 -> 0 <= fmi < 32 ->
  dm22_payload ctrl fmi spn = [ctrl; 255; 255; 255; 255; spn mod 256; (spn / 256) mod 256; (spn / 65536) * 32 + fmi].
Proof.
  intros Hs Hf. unfold dm22_payload.
  rewrite !land_255, land_31, land_0xE0. rewrite !shiftr_div by lia. pow2_norm.
  rewrite (Z.mod_small fmi 32) by lia.
  assert (E : spn / 2048 / 32 mod 8 = spn / 65536).
  { rewrite Z.div_div by lia. change (2048 * 32) with 65536. apply Z.mod_small. lia. }
  rewrite E. rewrite (lor_add_low (spn / 65536 * 32) fmi 5) by (pow2_norm; lia).
  reflexivity.
Qed.
Theorem dm22_destination dest : dm22_args dest = (0, 195, dest mod 256, 6).
Proof. unfold dm22_args. rewrite !land_255. reflexivity. Qed.

Example dm1_example :
  dm1_parse (dm1_build 1 2 3 0 [{| d_spn := 524287; d_fmi := 31; d_oc := 127 |}; {| d_spn := 1; d_fmi := 2; d_oc := 3 |}])
  = Some ([1; 2; 3; 0], [{| d_spn := 524287; d_fmi := 31; d_oc := 127 |}; {| d_spn := 1; d_fmi := 2; d_oc := 3 |}]).
Proof. vm_compute. reflexivity. Qed.

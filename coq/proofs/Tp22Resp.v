(* Tp22Resp.v — C02 (J1939-22): the FD responder collects EXACTLY the payload and delivers it exactly once.
   * an RTS for a free key opens a session (next segment 1, no data, the announced size/segment count/PGN)
   * the in-sequence data frames DT_k, DT_k+1, ... (ANY chunking, ANY padding after the last byte, ANY instants)
     leave the session with data = firstn size (data ++ concat chunks) and next = k + number of frames
   * hence after the frames of a message of the announced size the collected data IS the payload, and the
     end-of-message status delivers it to exactly the matching subscribers, once each, acknowledges a
     connection-mode transfer and releases the session *)
From J1939 Require Import Base CodecGlue Model21 Model22.
From J1939.gen Require Import Codec Tp21Gen CaGen Tp22Gen.
From J1939P Require Import CodecProofs Flat Tp21Seg Tp21Resp TimeoutProofs MpgProofs PoolProofs Tp22Proofs.
Local Arguments Z.add : simpl never.
Local Arguments Z.sub : simpl never.
Local Arguments Z.mul : simpl never.

(* ---------------------------------------------------------------- the data-frame header is read back exactly *)
Lemma dt_hdr_fields s k rest : 0 <= s < 16 -> 0 <= k < 16777216 ->
  tp22_dt_session_num (tp22_dt_header s k 0 ++ rest) = s /\ tp22_dt_segment_num (tp22_dt_header s k 0 ++ rest) = k.
Proof.
  intros Hs Hk. unfold tp22_dt_session_num, tp22_dt_segment_num, tp22_dt_header. cbn [app byte_at nth].
  split.
  - change (Z.land 0 15) with 0. rewrite Z.lor_0_l. rewrite !land_15, shiftl_mul, shiftr_div by lia. pow2_norm. lia.
  - rewrite !land_255, !shiftr_div by lia. pow2_norm. rewrite !Z.mod_mod by lia. apply le24. exact Hk.
Qed.

Lemma payload_of_frame s k c : payload22 (tp22_dt_header s k 0 ++ c) = c.
Proof. reflexivity. Qed.

(* ---------------------------------------------------------------- one in-sequence data frame *)
Definition same_session (b b' : rbuf22) : Prop :=
  q_size b' = q_size b /\ q_nseg b' = q_nseg b /\ q_pgn b' = q_pgn b /\ q_session b' = q_session b /\ q_src b' = q_src b /\ q_dst b' = q_dst b.

Lemma firstn_all_ge {A} (l : list A) n : (length l <= n)%nat -> firstn n l = l.
Proof. intros H. apply firstn_all2. exact H. Qed.

Lemma dt22_in_sequence prio sa dest data now m b :
  let h := tp22_hash (tp22_dt_session_num data) sa dest in
  (4 < length data)%nat -> tp22_dt_segment_num data <> 0 ->
  tget (f_rcv m) h = Some b -> q_next b = tp22_dt_segment_num data ->
  let a := process_tp_dt22 prio sa dest data now m in
  no_delivery (fouts22 a) /\
  exists b', tget (f_rcv (fnode22 a)) h = Some b' /\ q_next b' = q_next b + 1 /\ same_session b b' /\
             q_data b' = firstn (Z.to_nat (q_size b)) (q_data b ++ payload22 data).
Proof.
  intros h Hlen Hne G Hnext a. unfold a, process_tp_dt22, fouts22, fnode22.
  assert ((length data <=? 4)%nat = false) as -> by (apply Nat.leb_gt; exact Hlen).
  assert ((tp22_dt_segment_num data =? 0) = false) as -> by lia.
  fold h. rewrite G.
  assert (negb (q_next b =? tp22_dt_segment_num data) = false) as -> by lia.
  fold (payload22 data).
  assert (Hss : forall d nx bd dl, same_session b (upd_q b d nx bd dl)) by (intros; repeat split).
  destruct (len (q_data b ++ payload22 data) >=? q_size b) eqn:Efull.
  - cbn [flat22 fst snd f_rcv wake22 with_base set_frcv]. split; [reflexivity|]. rewrite tget_tset_same.
    eexists. split; [reflexivity|]. cbn [upd_q q_next q_data]. split; [lia|]. split; [apply Hss|reflexivity].
  - assert (Hshort : firstn (Z.to_nat (q_size b)) (q_data b ++ payload22 data) = q_data b ++ payload22 data).
    { apply firstn_all_ge. unfold len in Efull. lia. }
    rewrite Hshort.
    set (b1 := upd_q b (q_data b ++ payload22 data) (tp22_dt_segment_num data + 1) (q_border b) (q_deadline b)).
    set (m1 := set_frcv m (tset (f_rcv m) h b1)).
    assert (Hg1 : tget (f_rcv m1) h = Some b1) by (unfold m1; cbn [f_rcv set_frcv]; apply tget_tset_same).
    assert (Hfin : forall bx, q_next bx = q_next b + 1 -> same_session b bx -> q_data bx = q_data b ++ payload22 data ->
              exists b', tget (f_rcv (set_frcv m1 (tset (f_rcv m1) h bx))) h = Some b' /\ q_next b' = q_next b + 1 /\ same_session b b' /\
                         q_data b' = q_data b ++ payload22 data).
    { intros bx H1 H2 H3. exists bx. cbn [f_rcv set_frcv]. rewrite tget_tset_same. repeat split; try assumption; apply H2. }
    assert (Hb1 : exists b', tget (f_rcv m1) h = Some b' /\ q_next b' = q_next b + 1 /\ same_session b b' /\ q_data b' = q_data b ++ payload22 data).
    { exists b1. split; [exact Hg1|]. unfold b1. cbn [upd_q q_next q_data]. split; [lia|]. split; [apply Hss|reflexivity]. }
    destruct (negb (dest =? addr_GLOBAL)).
    + destruct (q_border b) as [border|] eqn:Eb.
      * destruct (tp22_dt_segment_num data >=? border).
        -- destruct (q_maxrec b) as [mr|] eqn:Em.
           ++ cbn [flat22]. rewrite Hg1.
              assert (q_border b1 = Some border) as -> by (unfold b1; reflexivity).
              assert (q_maxrec b1 = Some mr) as -> by (unfold b1; cbn [upd_q q_maxrec]; exact Em).
              cbn [flat22 fst snd]. split; [reflexivity|]. cbn [f_rcv wake22 with_base].
              apply Hfin; unfold b1; cbn [upd_q q_next q_data]; try lia; try reflexivity. repeat split.
           ++ cbn [flat22 fst snd]. split; [reflexivity|]. exact Hb1.
        -- cbn [flat22 fst snd]. split; [reflexivity|].
           apply Hfin; unfold b1; cbn [upd_q q_next q_data]; try lia; try reflexivity. repeat split.
      * cbn [flat22 fst snd]. split; [reflexivity|]. exact Hb1.
    + cbn [flat22 fst snd]. split; [reflexivity|].
      apply Hfin; unfold b1; cbn [upd_q q_next q_data]; try lia; try reflexivity. repeat split.
Qed.

(* ---------------------------------------------------------------- the whole data phase *)
Fixpoint dt_frames (s k : Z) (chunks : list (list Z * Z)) : list (list Z * Z) :=
  match chunks with
  | [] => []
  | (c, now) :: r => (tp22_dt_header s k 0 ++ c, now) :: dt_frames s (k + 1) r
  end.

Lemma firstn_firstn_app {A} (n : nat) (x y : list A) : firstn n (firstn n x ++ y) = firstn n (x ++ y).
Proof.
  destruct (Nat.le_gt_cases n (length x)) as [H|H].
  - rewrite !firstn_app. rewrite firstn_firstn, Nat.min_id. rewrite firstn_length, Nat.min_l by exact H.
    replace (n - n)%nat with 0%nat by lia. replace (n - length x)%nat with 0%nat by lia. reflexivity.
  - rewrite (firstn_all_ge x n) by lia. reflexivity.
Qed.

Theorem responder22_collects prio sa dest s : forall chunks m b k,
  0 <= s < 16 -> 0 < k -> k + Z.of_nat (length chunks) <= 16777216 ->
  Forall (fun c => fst c <> []) chunks ->
  tget (f_rcv m) (tp22_hash s sa dest) = Some b -> q_next b = k -> len (q_data b) <= q_size b ->
  no_delivery (snd (feed_dt22 prio sa dest (dt_frames s k chunks) m)) /\
  exists b', tget (f_rcv (fst (feed_dt22 prio sa dest (dt_frames s k chunks) m))) (tp22_hash s sa dest) = Some b' /\
             q_next b' = k + Z.of_nat (length chunks) /\ same_session b b' /\
             q_data b' = firstn (Z.to_nat (q_size b)) (q_data b ++ concat (map fst chunks)).
Proof.
  induction chunks as [|[c now] r IH]; intros m b k Hs Hk Hmax Hne G Hn Hle; cbn [dt_frames feed_dt22 map concat length fst snd].
  - split; [reflexivity|]. exists b. split; [exact G|]. split; [lia|]. split; [repeat split|].
    rewrite app_nil_r. symmetry. apply firstn_all_ge. unfold len in Hle. lia.
  - apply Forall_cons_iff in Hne. destruct Hne as [Hc Hr]. cbn [fst] in Hc. cbn [length] in Hmax.
    destruct (dt_hdr_fields s k c Hs ltac:(lia)) as [Fs Fk].
    pose proof (dt22_in_sequence prio sa dest (tp22_dt_header s k 0 ++ c) now m b) as Hstep. cbv zeta in Hstep.
    rewrite Fs, Fk in Hstep.
    destruct Hstep as (Hnd & b1 & G1 & N1 & S1 & D1); [|lia|exact G|exact Hn|].
    { rewrite app_length. cbn [tp22_dt_header length]. destruct c; [contradiction|cbn [length]; lia]. }
    rewrite payload_of_frame in D1.
    destruct S1 as (Z1 & Z2 & Z3 & Z4 & Z5 & Z6).
    assert (Hle1 : len (q_data b1) <= q_size b1).
    { rewrite D1, Z1. unfold len in *. rewrite firstn_length. lia. }
    destruct (IH (fnode22 (process_tp_dt22 prio sa dest (tp22_dt_header s k 0 ++ c) now m)) b1 (k + 1) Hs ltac:(lia)
                 ltac:(lia) Hr G1 ltac:(lia) Hle1) as (Hnd2 & b2 & G2 & N2 & S2 & D2).
    destruct (feed_dt22 prio sa dest (dt_frames s (k + 1) r) (fnode22 (process_tp_dt22 prio sa dest (tp22_dt_header s k 0 ++ c) now m))) as [m2 o2].
    cbn [fst snd] in *.
    split; [unfold no_delivery in *; rewrite forallb_app, Hnd, Hnd2; reflexivity|].
    exists b2. split; [exact G2|]. split; [cbn [length]; lia|].
    destruct S2 as (Y1 & Y2 & Y3 & Y4 & Y5 & Y6).
    split; [repeat split; congruence|].
    rewrite D2, D1, Z1. rewrite firstn_firstn_app. rewrite app_assoc. reflexivity.
Qed.

(* ---------------------------------------------------------------- RTS opens the session *)
Definition rts_frame_ok (data : list Z) : Prop :=
  (12 <= length data)%nat /\ tp22_cm_control_byte data = tp22_ctl_RTS.

Theorem responder22_rts_opens prio sa dest data now m :
  rts_frame_ok data ->
  let h := tp22_hash (tp22_cm_session_num data) sa dest in
  tget (f_rcv m) h = None ->
  let g := Z.min (n_maxp (base m)) (Z.min (byte_at data 7) (tp22_cm_segment_num data)) in
  let b := {| q_pgn := tp22_cm_pgn data; q_session := tp22_cm_session_num data; q_size := tp22_cm_message_size data;
              q_nseg := tp22_cm_segment_num data; q_next := 1; q_border := Some g; q_maxrec := Some g; q_data := [];
              q_deadline := now + tp22_T2; q_src := sa; q_dst := dest |} in
  flat22 (process_tp_cm22 prio sa dest data now m) =
    (wake22 (set_frcv m (tset (f_rcv m) h b)), [OTx (tp22_cts dest sa (tp22_cm_session_num data) g 1 (tp22_cm_pgn data))], RDone 0).
Proof.
  intros [H1 H2] h G g b. unfold process_tp_cm22.
  assert ((length data <? 12)%nat = false) as -> by (apply Nat.ltb_ge; exact H1).
  rewrite H2. change (tp22_ctl_RTS =? tp22_ctl_RTS) with true. cbv iota. fold h. rewrite (tmem_none _ _ G).
  cbn [flat22]. reflexivity.
Qed.

(* ---------------------------------------------------------------- the complete reception *)
(* T02.3: a session opened for a message of [length p] bytes, fed the in-sequence data frames whose chunks
   concatenate to p followed by ANY padding, then the end-of-message status announcing the same size and segment
   count: the listeners get p — exactly once per matching subscriber, nothing else — and, for a connection-mode
   transfer, the peer gets the end-of-message acknowledgement; the session is released *)
Theorem responder22_delivers_exactly prio sa dest s p pad chunks eom now m b :
  0 <= s < 16 -> Z.of_nat (length chunks) < 16777215 ->
  Forall (fun c => fst c <> []) chunks -> concat (map fst chunks) = p ++ pad ->
  tget (f_rcv m) (tp22_hash s sa dest) = Some b -> q_next b = 1 -> q_data b = [] -> q_size b = len p ->
  eom_frame_ok eom -> tp22_cm_session_num eom = s -> tp22_cm_message_size eom = len p -> tp22_cm_segment_num eom = q_nseg b ->
  let '(m1, o1) := feed_dt22 prio sa dest (dt_frames s 1 chunks) m in
  no_delivery o1 /\
  fouts22 (process_tp_cm22 prio sa dest eom now m1) =
    deliveries (base m1) prio (q_pgn b) sa dest p ++
    (if dest =? addr_GLOBAL then [] else [OTx (tp22_eom_ack dest sa s (len p) (q_nseg b) (q_pgn b))]) /\
  f_rcv (fnode22 (process_tp_cm22 prio sa dest eom now m1)) = tdel (f_rcv m1) (tp22_hash s sa dest).
Proof.
  intros Hs Hn Hne Hcat G Hnext Hdata Hsize Hok Es Esz Eseg.
  destruct (responder22_collects prio sa dest s chunks m b 1 Hs ltac:(lia) ltac:(lia) Hne G Hnext) as (Hnd & b1 & G1 & N1 & S1 & D1).
  { rewrite Hdata, Hsize. unfold len. cbn [length]. lia. }
  destruct (feed_dt22 prio sa dest (dt_frames s 1 chunks) m) as [m1 o1]. cbn [fst snd] in *.
  split; [exact Hnd|].
  destruct S1 as (Z1 & Z2 & Z3 & Z4 & Z5 & Z6).
  assert (Dp : q_data b1 = p).
  { rewrite D1, Hdata, Hcat, Hsize. cbn [app]. unfold len. rewrite Nat2Z.id. rewrite firstn_app, firstn_all, Nat.sub_diag. cbn [firstn]. apply app_nil_r. }
  pose proof (eom_status_delivers_exactly prio sa dest eom now m1 b1 Hok) as HE. cbv zeta in HE. rewrite Es in HE.
  destruct (HE G1) as [Ho Hr]; [congruence|congruence|rewrite Dp; congruence|].
  rewrite Ho, Hr, ?Dp, ?Z3, ?Esz, ?Eseg. split; reflexivity.
Qed.

(* ---------------------------------------------------------------- what the originator puts on the bus has that form *)
(* every data frame the model's originator builds for a segment of at most 60 bytes is  header ++ segment ++ padding
   with padding bytes 0xFF only: the chunks of responder22_delivers_exactly *)
Theorem dt_frame_shape src dst s k seg fr seg' :
  dt_frame src dst s k seg = Some (fr, seg') -> (length seg <= 60)%nat ->
  exists pad, f_data fr = tp22_dt_header s k 0 ++ (seg ++ pad) /\ Forall (fun x => x = tp22_dt_pad) pad /\
              f_id fr = tp22_dt_id src dst.
Proof.
  unfold dt_frame. intros H Hl.
  assert (Hh : length (tp22_dt_header s k 0 ++ seg) = (4 + length seg)%nat) by (rewrite app_length; reflexivity).
  remember (Z.to_nat (tp22_TP + 4)) as n64 eqn:En.
  destruct (Z.of_nat (length (tp22_dt_header s k 0 ++ seg)) >=? tp22_TP + 4) eqn:E.
  - inversion H; subst fr seg'. cbn [f_data f_id]. exists []. rewrite app_nil_r. split; [|split; [constructor|reflexivity]].
    apply firstn_all_ge. rewrite Hh, En. change (Z.to_nat (tp22_TP + 4)) with 64%nat. lia.
  - destruct (fd_len (length (tp22_dt_header s k 0 ++ seg))) as [nl|]; [|discriminate].
    inversion H; subst fr seg'. cbn [f_data f_id]. eexists. split; [unfold tp22_dt_header; cbn [app]; reflexivity|]. split; [apply Forall_forall; intros x Hx; apply repeat_spec in Hx; exact Hx|reflexivity].
Qed.

(* non-vacuity: a 130-byte message through the model's own segmentation and frame builder, received by the model's
   responder: three frames (60 + 60 + 10 bytes, the last padded to a legal FD length), then the status *)
Example fd_end_to_end_data :
  let p := map Z.of_nat (seq 1 130) in
  let segs := firstn 3 (segments p) in
  let frs := map (fun ks => match dt_frame 16 32 0 (fst ks) (snd ks) with Some (fr, _) => f_data fr | None => [] end)
                 (combine [1; 2; 3] segs) in
  let b := {| q_pgn := 53248; q_session := 0; q_size := 130; q_nseg := 3; q_next := 1; q_border := Some 3; q_maxrec := Some 3;
              q_data := []; q_deadline := 1250000; q_src := 16; q_dst := 32 |} in
  let m := set_frcv (init_node22 8 None None) [(tp22_hash 0 16 32, b)] in
  let '(m1, o1) := feed_dt22 7 16 32 (combine frs [10; 20; 30]) m in
  (map (fun f => length f) frs = [64; 64; 16]%nat) /\
  match tget (f_rcv m1) (tp22_hash 0 16 32) with Some b1 => q_data b1 = p | None => False end.
Proof. vm_compute. split; reflexivity. Qed.

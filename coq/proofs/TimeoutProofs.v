(* TimeoutProofs.v — C06 (J1939-21): lost frames / vanished peer: exact payload or nothing, bounded
   give-up with abort where the standard asks for it, recovery. *)
From J1939 Require Import Base CodecGlue Model21.
From J1939.gen Require Import Codec Tp21Gen CaGen.
From J1939P Require Import CodecProofs Flat Tp21Seg Tp21Resp Tp21Orig.

Definition is_delivery (o : out) : bool := match o with OCb _ _ _ _ _ => true | _ => false end.
Definition no_delivery (os : list out) : Prop := forallb (fun o => negb (is_delivery o)) os = true.

(* T06.1: a DT that does not complete the announced size never delivers anything *)
Lemma dt_incomplete_no_delivery prio sa dest seqno rest now n b :
  tget (n_rcv n) (tp21_hash sa dest) = Some b -> len (r_data b ++ rest) < r_size b ->
  no_delivery (fouts (process_tp_dt prio sa dest (seqno :: rest) now n)) /\
  exists b', tget (n_rcv (fnode (process_tp_dt prio sa dest (seqno :: rest) now n))) (tp21_hash sa dest) = Some b' /\
             r_data b' = r_data b ++ rest /\ r_size b' = r_size b.
Proof.
  intros Hget Hlt. unfold fouts, fnode, process_tp_dt. rewrite Hget.
  assert ((len (r_data b ++ rest) >=? r_size b) = false) as -> by lia.
  destruct (negb (dest =? addr_GLOBAL) && (seqno >=? r_next b)).
  - destruct (r_maxrec b) as [mr|] eqn:Em.
    + cbn [flat n_rcv set_rcv]. rewrite tget_tset_same. cbn [upd_rbuf r_maxrec]. rewrite Em.
      cbn [flat fst snd]. split; [reflexivity|].
      eexists. cbn [n_rcv wake set_rcv]. rewrite tget_tset_same. split; [reflexivity|]. cbn. split; reflexivity.
    + cbn [flat fst snd]. split; [reflexivity|].
      eexists. cbn [n_rcv set_rcv]. rewrite tget_tset_same. split; [reflexivity|]. cbn. split; reflexivity.
  - cbn [flat fst snd]. split; [reflexivity|].
    eexists. cbn [n_rcv wake set_rcv]. rewrite tget_tset_same. split; [reflexivity|]. cbn. split; reflexivity.
Qed.

(* any sequence of 8-byte DT frames (in any order, any sequence numbers) that carries fewer bytes than the
   announced size delivers nothing: with a frame lost, the 7*(n-1) bytes of the others never reach the size *)
Fixpoint feed_any (prio sa dest : Z) (frames : list (Z * list Z * Z)) (n : node) : node * list out :=
  match frames with
  | [] => (n, [])
  | (seqno, rest, now) :: fs =>
      let '(n1, o1, _) := flat (process_tp_dt prio sa dest (seqno :: rest) now n) in
      let '(n2, o2) := feed_any prio sa dest fs n1 in (n2, o1 ++ o2)
  end.

Theorem lost_packet_never_delivers prio sa dest : forall frames n b,
  tget (n_rcv n) (tp21_hash sa dest) = Some b ->
  len (r_data b) + fold_right (fun f acc => len (snd (fst f)) + acc) 0 frames < r_size b ->
  no_delivery (snd (feed_any prio sa dest frames n)).
Proof.
  induction frames as [|[[seqno rest] now] fs IH]; intros n b Hget Hlt; [reflexivity|].
  cbn [feed_any]. cbn [fold_right fst snd] in Hlt.
  assert (Hl : len (r_data b ++ rest) = len (r_data b) + len rest) by (unfold len; rewrite app_length; lia).
  assert (Hfs : 0 <= fold_right (fun f acc => len (snd (fst f)) + acc) 0 fs).
  { clear. induction fs as [|f r IH]; cbn; [lia|]. unfold len at 1. lia. }
  destruct (dt_incomplete_no_delivery prio sa dest seqno rest now n b Hget ltac:(lia)) as (Hnd & b' & Hb' & Hd' & Hs').
  unfold fouts, fnode in *.
  destruct (flat (process_tp_dt prio sa dest (seqno :: rest) now n)) as [[n1 o1] r1]. cbn [fst snd] in *.
  specialize (IH n1 b' Hb'). rewrite Hd', Hs' in IH. specialize (IH ltac:(lia)).
  destruct (feed_any prio sa dest fs n1) as [n2 o2]. cbn [snd] in *.
  unfold no_delivery in *. rewrite forallb_app, Hnd, IH. reflexivity.
Qed.

(* the packets of a message minus at least one carry too few bytes (from T01.1's sub_packets_short) *)
Theorem proper_subset_too_short p (m : nat) :
  (8 < length p)%nat -> (m < npk (length p))%nat -> 7 * Z.of_nat m < len p.
Proof. intros Hp Hm. unfold len, npk in *. lia. Qed.

(* T06.3: deadlines set by the receive path are at most T2 = 1.25 s ahead *)
Theorem timeouts_within_standard :
  tp21_T1 = 750000 /\ tp21_T2 = 1250000 /\ tp21_T3 = 1250000 /\ tp21_Th = 500000 /\ tp21_Tb = 50000.
Proof. repeat split; reflexivity. Qed.

(* T06.4: a receive session whose deadline has passed is released by the job pass; the peer gets a
   connection abort (reason 3 = timeout) exactly when the transfer was connection-mode *)
Theorem rcv_timeout_releases key now nw n k b :
  tget (n_rcv n) key = Some b -> r_deadline b <> 0 -> r_deadline b <= now ->
  flat (rcv_pass [key] now nw n k) =
  let n' := set_rcv n (tdel (n_rcv n) key) in
  let '(s, os, r) := flat (k n' nw) in
  (s, (if r_dst b =? addr_GLOBAL then [] else [OTx (tp21_abort (r_dst b) (r_src b) tp21_reason_TIMEOUT (r_pgn b))]) ++ os, r).
Proof.
  intros Hget H0 Hle. cbn [rcv_pass]. rewrite Hget.
  assert ((r_deadline b =? 0) = false) as -> by lia.
  assert ((r_deadline b >? now) = false) as -> by lia.
  destruct (r_dst b =? addr_GLOBAL); cbn [negb flat app rcv_pass];
    destruct (flat (k _ nw)) as [[s os] r]; reflexivity.
Qed.

(* ... and before the deadline it is left alone, only bounding the wake-up time *)
Theorem rcv_before_deadline key now nw n k b :
  tget (n_rcv n) key = Some b -> now < r_deadline b -> 0 <= now ->
  rcv_pass [key] now nw n k = k n (if nw >? r_deadline b then r_deadline b else nw).
Proof.
  intros Hget Hlt H0. cbn [rcv_pass]. rewrite Hget.
  assert ((r_deadline b =? 0) = false) as -> by lia.
  assert ((r_deadline b >? now) = true) as -> by lia. reflexivity.
Qed.

(* the originator stops waiting for a CTS: abort (reason 3) to the peer, session removed *)
Theorem snd_timeout_releases key now nw n k b :
  tget (n_snd n) key = Some b -> s_state b = ST_WAITING_CTS -> s_deadline b <> 0 -> s_deadline b <= now ->
  flat (snd_pass [key] now nw n k) =
  let n' := set_snd n (tdel (n_snd n) key) in
  let '(s, os, r) := flat (k n' nw) in
  (s, OTx (tp21_abort (s_src b) (s_dst b) tp21_reason_TIMEOUT (s_pgn b)) :: os, r).
Proof.
  intros Hget Hst H0 Hle. cbn [snd_pass]. rewrite Hget.
  assert ((s_deadline b =? 0) = false) as -> by lia.
  assert ((s_deadline b >? now) = false) as -> by lia.
  rewrite Hst. rewrite Z.eqb_refl. cbn [flat]. rewrite (tmem_get _ _ _ Hget). cbn [snd_pass].
  destruct (flat (k _ nw)) as [[s os] r]. reflexivity.
Qed.

(* T06.6: an abort from the peer while waiting for its CTS finishes the session (removed by the next pass, no abort back) *)
Theorem peer_abort_finishes n b prio sa dest reason pgn now :
  tget (n_snd n) (tp21_hash dest sa) = Some b -> s_state b = ST_WAITING_CTS -> 0 <= pgn < 16777216 -> 0 <= reason < 255 ->
  flat (process_tp_cm prio sa dest (f_data (tp21_abort sa dest reason pgn)) now n) =
  (set_snd n (tset (n_snd n) (tp21_hash dest sa) (upd_sbuf b ST_FINISHED now (s_next b))), [], RDone 0).
Proof.
  intros Hget Hst Hp Hr. unfold process_tp_cm. cbn [tp21_abort f_data length Nat.ltb Nat.leb].
  unfold tp21_cm_control, byte_at. cbn [nth].
  change (255 =? tp21_cm_RTS) with false. change (255 =? tp21_cm_CTS) with false.
  change (255 =? tp21_cm_EOM_ACK) with false. change (255 =? tp21_cm_BAM) with false.
  change (255 =? tp21_cm_ABORT) with true. cbv iota.
  rewrite Hget, Hst. rewrite Z.eqb_refl. reflexivity.
Qed.
Theorem finished_session_removed key now nw n k b :
  tget (n_snd n) key = Some b -> s_state b = ST_FINISHED -> s_deadline b <> 0 -> s_deadline b <= now ->
  snd_pass [key] now nw n k = k (set_snd n (tdel (n_snd n) key)) nw.
Proof.
  intros Hget Hst H0 Hle. cbn [snd_pass]. rewrite Hget.
  assert ((s_deadline b =? 0) = false) as -> by lia.
  assert ((s_deadline b >? now) = false) as -> by lia.
  rewrite Hst. reflexivity.
Qed.

(* T06.7: after the release the pair's key is free again, which is the hypothesis of the C01 role theorems *)
Theorem released_key_is_free {V} (t : tbl V) key : tnodup t -> tget (tdel t key) key = None.
Proof. apply tget_tdel_same. Qed.

(* FlowSend22.v — C10/C02: the pool flow of the CURRENT J1939_22.send_pgn and of the current FD job pass
   (skeletons generated from /repo: theories/gen/SkelGen.v, items flow_send22 and flow_job22) is accepted by the
   verified checker; hence
   * send_pgn never returns (in particular: never refuses) nor raises on a path on which it has taken a session number
     without either storing the session or giving the number back — a refusal has no side effect on the pools;
   * an iteration of the job pass never removes an originator session without returning its number. *)
From J1939 Require Import Base SkelDefs FlowDefs.
From J1939.gen Require Import SkelGen.
From J1939P Require Import FlowProofs.

Theorem send_pgn22_flow_accepted : flow_ok flow_send22 = true.
Proof. vm_compute. reflexivity. Qed.

Theorem send_pgn22_never_leaks_a_session_number : forall hh, exec flow_send22 false (Term hh) -> hh = false.
Proof. apply flow_ok_no_leak. exact send_pgn22_flow_accepted. Qed.

Theorem job_pass22_flow_accepted : flow_ok flow_job22 = true.
Proof. vm_compute. reflexivity. Qed.

Theorem job_pass22_returns_every_removed_session : forall hh, exec flow_job22 false (Term hh) -> hh = false.
Proof. apply flow_ok_no_leak. exact job_pass22_flow_accepted. Qed.

(* Net21BamSeq.v — a HISTORY of broadcasts: any number of J1939-21 broadcasts (PDU1 groups to the global address, PDU2 groups with
   any group extension; any payloads of 9..1785 bytes) sent one after the other by one node, each submitted when the network
   has come to rest, ALL reach every listener of the other node exactly once, in order — the completed broadcast closed loop
   restores its own premises.  Corollary for C16: every cycle of a cyclic DM1 delivers exactly what that cycle's callback supplied. *)
From J1939 Require Import Base CodecGlue Model21 Dm1Model.
From J1939.gen Require Import Codec Tp21Gen CaGen DiagGen.
From J1939P Require Import CodecProofs Flat Tp21Seg Tp21Resp Tp21Orig Net21 Net21Proofs Net21Seq Net21Bam DiagProofs.
Local Arguments Z.add : simpl never.
Local Arguments Z.mul : simpl never.

Record bmsg := { b_dp : Z; b_pf : Z; b_ps : Z; b_prio : Z; b_data : list Z }.
Definition bmsg_ok (m : bmsg) : Prop :=
  0 <= b_dp m < 2 /\ ((0 <= b_pf m < 240 /\ b_ps m = 255) \/ (240 <= b_pf m < 256 /\ 0 <= b_ps m < 256)) /\
  0 <= b_prio m < 8 /\ 8 < len (b_data m) <= 1785.
Fixpoint bseq_reach (sa : Z) (s : net) (ms : list bmsg) (s' : net) : Prop :=
  match ms with
  | [] => s' = s
  | m :: r => exists j, bseq_reach sa (steps j (net_send s (b_dp m) (b_pf m) (b_ps m) (b_prio m) sa (b_data m))) r s'
  end.
Definition bwire_of (sa : Z) (m : bmsg) : list frame :=
  let pv := bam_pgn (b_dp m) (b_pf m) (b_ps m) in
  tp21_bam sa (b_prio m) pv (len (b_data m)) (Z.of_nat (npk (length (b_data m))))
  :: map (fun k => tp21_dt sa addr_GLOBAL (dt_payload (b_data m) (Z.of_nat k))) (seq 0 (npk (length (b_data m)))).

Definition bpremA (iv : Z) (a : node) : Prop := n_snd a = [] /\ n_rcv a = [] /\ n_timers a = [] /\ n_bam_iv a = iv.
Definition bpremB (b : node) : Prop := n_snd b = [] /\ n_rcv b = [] /\ n_timers b = [].

Theorem broadcast_sequence_delivers sa iv : 0 <= sa < 255 -> 0 < iv < tp21_T1 ->
  forall ms s, Forall bmsg_ok ms -> qa s = [] -> qb s = [] -> 0 < clk s -> bpremA iv (na s) -> bpremB (nb s) ->
  exists s', bseq_reach sa s ms s' /\
    qa s' = [] /\ qb s' = [] /\ bpremA iv (na s') /\ bpremB (nb s') /\
    evb s' = evb s ++ concat (map (fun m => deliveries (nb s) 7 (bam_pgn (b_dp m) (b_pf m) (b_ps m)) sa addr_GLOBAL (b_data m)) ms) /\
    wab s' = wab s ++ concat (map (bwire_of sa) ms).
Proof.
  intros Hsa Hiv. induction ms as [|m r IH]; intros s Hok Hqa Hqb Hc HA HB.
  - exists s. cbn [bseq_reach map concat]. rewrite !app_nil_r.
    split; [reflexivity|]. split; [exact Hqa|]. split; [exact Hqb|]. split; [exact HA|]. split; [exact HB|]. split; reflexivity.
  - pose proof (Forall_inv Hok) as (Hdp & Hkind & Hpr & Hlen). pose proof (Forall_inv_tail Hok) as Hr.
    destruct HA as (As & Ar & At & Ai). destruct HB as (Bs & Br & Bt).
    assert (Hiv' : 0 < n_bam_iv (na s) < tp21_T1) by (rewrite Ai; exact Hiv).
    destruct (bam_closed_loop_restores (b_prio m) sa (b_dp m) (b_pf m) (b_ps m) (b_data m) (clk s) (na s) (nb s)
                Hpr Hsa Hkind Hdp Hlen Hc Hiv' (conj As (conj Ar At)) (conj Bs (conj Br Bt)))
      as (j & (Q1 & Q2 & Qc & Qe & Qw) & (A1 & A2 & A3 & A4) & (B1 & B2 & B3 & Bsub & Bcas)).
    set (L := {| l_eva := eva s; l_evb := evb s; l_wab := wab s; l_wba := wba s |}).
    set (s1 := steps j (net_send s (b_dp m) (b_pf m) (b_ps m) (b_prio m) sa (b_data m))).
    assert (E1 : s1 = plog L (steps j (net_send (net0 (na s) (nb s) (clk s)) (b_dp m) (b_pf m) (b_ps m) (b_prio m) sa (b_data m)))).
    { unfold s1. rewrite (rest_is_plog s Hqa Hqb) at 1. fold L. rewrite net_send_plog, steps_plog. reflexivity. }
    destruct (IH s1 Hr) as (s' & Hreach & R1 & R2 & RA & RB & Re & Rw).
    + rewrite E1. exact Q1.
    + rewrite E1. exact Q2.
    + rewrite E1. cbn [plog clk]. exact Qc.
    + rewrite E1. cbn [plog na]. unfold bpremA. rewrite A4, Ai. repeat split; assumption.
    + rewrite E1. cbn [plog nb]. repeat split; assumption.
    + exists s'. split; [exists j; exact Hreach|]. split; [exact R1|]. split; [exact R2|]. split; [exact RA|]. split; [exact RB|].
      split.
      * rewrite Re. rewrite E1. cbn [plog evb nb map concat L l_evb]. rewrite Qe. rewrite <- app_assoc. f_equal. f_equal.
        f_equal. apply map_ext. intros m'. apply deliveries_same; assumption.
      * rewrite Rw. rewrite E1. cbn [plog wab map concat L l_wab]. rewrite Qw. rewrite <- app_assoc. reflexivity.
Qed.

(* ---------------------------------------------------------------- C16: cyclic DM1 *)
Record dm1c := { c_pl : Z; c_awl : Z; c_rsl : Z; c_mil : Z; c_dtcs : list dtc }.
Definition dm1c_ok (c : dm1c) : Prop :=
  lamp_state (c_pl c) /\ lamp_state (c_awl c) /\ lamp_state (c_rsl c) /\ lamp_state (c_mil c) /\ Forall dtc_ok (c_dtcs c) /\
  (2 <= length (c_dtcs c) <= 445)%nat.
Definition dm1_payload (c : dm1c) : list Z := dm1_build (c_pl c) (c_awl c) (c_rsl c) (c_mil c) (c_dtcs c).
Definition dm1_msg (c : dm1c) : bmsg :=
  {| b_dp := 0; b_pf := 254; b_ps := 202; b_prio := dm1_priority (dm1_payload c); b_data := dm1_payload c |}.

Lemma dm1_msg_ok c : dm1c_ok c -> bmsg_ok (dm1_msg c) /\ dm1_parse (dm1_payload c) = Some ([c_pl c; c_awl c; c_rsl c; c_mil c], c_dtcs c).
Proof.
  intros (H1 & H2 & H3 & H4 & Hok & Hn).
  assert (Hne : c_dtcs c <> []) by (destruct (c_dtcs c); [cbn in Hn; lia|discriminate]).
  destruct (dm1_roundtrip _ _ _ _ _ H1 H2 H3 H4 Hne Hok) as (Hparse & Hlen).
  split; [|exact Hparse].
  unfold bmsg_ok, dm1_msg, dm1_payload. cbn [b_dp b_pf b_ps b_prio b_data].
  assert (Hl : 8 < len (dm1_build (c_pl c) (c_awl c) (c_rsl c) (c_mil c) (c_dtcs c)) <= 1785) by (unfold len; rewrite Hlen; lia).
  split; [lia|]. split; [right; lia|]. split; [|exact Hl].
  unfold dm1_priority. unfold len in Hl. destruct (Z.of_nat (length _) >? 8); lia.
Qed.

(* every cycle of a cyclic DM1 (whatever the callback supplies at each cycle: lamp states and 2..445 trouble codes, varying freely
   from cycle to cycle), sent when the previous one has gone out: the listeners of the other node get one payload per cycle, in
   order, and the k-th parses back to exactly what the k-th cycle supplied *)
Theorem dm1_every_cycle_delivers sa iv : 0 <= sa < 255 -> 0 < iv < tp21_T1 ->
  forall cs s, Forall dm1c_ok cs -> qa s = [] -> qb s = [] -> 0 < clk s -> bpremA iv (na s) -> bpremB (nb s) ->
  exists s', bseq_reach sa s (map dm1_msg cs) s' /\ qa s' = [] /\ qb s' = [] /\ bpremA iv (na s') /\ bpremB (nb s') /\
    evb s' = evb s ++ concat (map (fun c => deliveries (nb s) 7 65226 sa addr_GLOBAL (dm1_payload c)) cs) /\
    Forall (fun c => dm1_parse (dm1_payload c) = Some ([c_pl c; c_awl c; c_rsl c; c_mil c], c_dtcs c)) cs.
Proof.
  intros Hsa Hiv cs s Hok Hqa Hqb Hc HA HB.
  assert (Hm : Forall bmsg_ok (map dm1_msg cs)).
  { apply Forall_map. eapply Forall_impl; [|exact Hok]. intros c Hcok. apply (dm1_msg_ok c Hcok). }
  destruct (broadcast_sequence_delivers sa iv Hsa Hiv (map dm1_msg cs) s Hm Hqa Hqb Hc HA HB) as (s' & Hr & R1 & R2 & RA & RB & Re & _).
  exists s'. split; [exact Hr|]. split; [exact R1|]. split; [exact R2|]. split; [exact RA|]. split; [exact RB|]. split.
  - rewrite Re. f_equal. f_equal. rewrite map_map. apply map_ext. intros c. reflexivity.
  - eapply Forall_impl; [|exact Hok]. intros c Hcok. apply (dm1_msg_ok c Hcok).
Qed.

Example dm1_two_cycles :
  let A := init_node 3 None None in
  let B := subscribe (init_node 2 None None) 7 FNone in
  let c1 := {| c_pl := 1; c_awl := 0; c_rsl := 4; c_mil := 2; c_dtcs := [{| d_spn := 100; d_fmi := 3; d_oc := 1 |}; {| d_spn := 524287; d_fmi := 31; d_oc := 127 |}] |} in
  let c2 := {| c_pl := 0; c_awl := 0; c_rsl := 0; c_mil := 1; c_dtcs := [{| d_spn := 100; d_fmi := 3; d_oc := 2 |}; {| d_spn := 7; d_fmi := 0; d_oc := 0 |}; {| d_spn := 9; d_fmi := 1; d_oc := 5 |}] |} in
  let m1 := dm1_msg c1 in let m2 := dm1_msg c2 in
  let s1 := steps 10 (net_send (net0 A B 1000) (b_dp m1) (b_pf m1) (b_ps m1) (b_prio m1) 32 (b_data m1)) in
  let s2 := steps 10 (net_send s1 (b_dp m2) (b_pf m2) (b_ps m2) (b_prio m2) 32 (b_data m2)) in
  quiet s2 = true /\ evb s2 = [OCb 7 7 65226 32 (dm1_payload c1); OCb 7 7 65226 32 (dm1_payload c2)].
Proof. vm_compute. repeat split. Qed.

(* Net22Bam.v — C02 end to end, FD broadcast: in the closed loop of two FD model nodes (Net22.v) a BAM transfer of any payload of
   more than 60 bytes to the global address delivers exactly that payload, once, to the listeners on B; the clock of the
   network advances by the originator's segment interval between the frames (shorter than the listener's T1); afterwards
   nothing is queued, no session is left and the broadcast session number is back in the pool. *)
From J1939 Require Import Base CodecGlue Model21 Model22.
From J1939.gen Require Import Codec Tp21Gen CaGen Tp22Gen.
From J1939P Require Import CodecProofs Flat MpgProofs PoolProofs Tp21Seg Tp21Resp Tp22Proofs Tp22Resp Net21 Net21Proofs Net22 Net22Proofs.
Local Arguments Z.add : simpl never.
Local Arguments Z.sub : simpl never.
Local Arguments Z.mul : simpl never.

Lemma bpy_nth_nat {A} (l : list A) (j : nat) : py_nth l (Z.of_nat j) = nth_error l j.
Proof. unfold py_nth. assert (E : (Z.of_nat j <? 0) = false) by lia. rewrite !E. rewrite Nat2Z.id. reflexivity. Qed.
Lemma bpy_set_nat {A} (l : list A) (j : nat) x : py_set l (Z.of_nat j) x = upd_nth l j x.
Proof. unfold py_set. assert (E : (Z.of_nat j <? 0) = false) by lia. rewrite !E. rewrite Nat2Z.id. reflexivity. Qed.

(* the frames A puts on the wire, each with the network's time at the step that emitted it *)
Definition newtx22 (s s' : net22) : list (Z * frame) := map (fun f => (fclk s, f)) (skipn (length (wab2 s)) (wab2 s')).
Fixpoint tlog22 (j : nat) (s : net22) : list (Z * frame) :=
  match j with O => [] | S j' => newtx22 s (step22 s) ++ tlog22 j' (step22 s) end.
Lemma newtx22_same s s' : wab2 s' = wab2 s -> newtx22 s s' = [].
Proof. intros E. unfold newtx22. rewrite E, skipn_all. reflexivity. Qed.
Lemma newtx22_snoc s s' l : wab2 s' = wab2 s ++ l -> newtx22 s s' = map (fun f => (fclk s, f)) l.
Proof. intros E. unfold newtx22. rewrite E, skipn_app, skipn_all, Nat.sub_diag. reflexivity. Qed.

Section BamLoop22.
  Variables (prio sa dp pf ps : Z) (p : list Z) (t0 : Z) (A0 B0 : node22).
  Hypothesis Hprio : 0 <= prio < 8.
  Hypothesis Hsa : 0 <= sa < 255.
  (* a PDU1 group sent to the global address, or a PDU2 group (a broadcast whatever its group extension) *)
  Hypothesis Hkind : (0 <= pf < 240 /\ ps = 255) \/ (240 <= pf < 256 /\ 0 <= ps < 256).
  Hypothesis Hdp : 0 <= dp < 2.
  Hypothesis Hsize : 60 < len p < 16777216.
  Hypothesis Ht0 : 0 < t0.
  Let pv := if pf <? 240 then dp * 65536 + pf * 256 else dp * 65536 + pf * 256 + ps.
  Let ns := ((length p + 59) / 60)%nat.
  Let nseg := Z.of_nat ns.
  Let G := addr_GLOBAL.
  Let h := tp22_hash 0 sa G.
  Let iv := f_bam_iv A0.
  Hypothesis Hiv : 0 < iv < tp22_T1.
  Hypothesis HA : f_snd A0 = [] /\ f_rcv A0 = [] /\ f_mpg A0 = [] /\ n_timers (base A0) = [] /\ f_bam A0 = repeat true tp22_pool_bam.
  Hypothesis HB : f_snd B0 = [] /\ f_rcv B0 = [] /\ f_mpg B0 = [] /\ n_timers (base B0) = [].

  Lemma bnseg_model : len p / tp22_TP + (if len p mod tp22_TP =? 0 then 0 else 1) = nseg.
  Proof.
    unfold nseg, ns, tp22_TP, len in *. rewrite Nat2Z.inj_div. destruct (Z.eqb_spec (Z.of_nat (length p) mod 60) 0); lia.
  Qed.
  Lemma bns_range : (2 <= ns)%nat /\ (60 * (ns - 1) < length p <= 60 * ns)%nat.
  Proof. unfold ns. unfold len in Hsize. split; [|split]; lia. Qed.
  Lemma bnseg_range : 2 <= nseg < 16777216.
  Proof. pose proof bns_range. unfold nseg. unfold len in Hsize. lia. Qed.
  Lemma bpv_range : 0 <= pv < 262144.
  Proof. unfold pv. destruct (pf <? 240); lia. Qed.

  Definition sbm (st dl nx : Z) (d : list (list Z)) : sbuf22 :=
    {| t_pgn := pv; t_prio := prio; t_session := 0; t_size := len p; t_nseg := nseg; t_data := d; t_state := st;
       t_deadline := dl; t_src := sa; t_dst := G; t_next := nx; t_waitcts := None; t_nb := 0 |}.
  Definition bam22 : frame := tp22_bam prio sa 0 pv (len p) nseg.
  Definition bpool1 : list bool := false :: repeat true 3.

  Lemma send_pgn22_bam a now : f_snd a = [] -> f_bam a = repeat true tp22_pool_bam ->
    flat22 (send_pgn22 a now dp pf ps prio sa p 0 ff_FEFF) =
    (wake22 (set_fsnd (set_fbam a bpool1) [(h, sbm tp22_st_SENDING_BAM (now + f_bam_iv a) 0 (segments p))]), [OTx bam22], RDone 1).
  Proof.
    intros Hs Hb. unfold send_pgn22. unfold pgn_mk. rewrite !land_255, land_1.
    assert (Hpfr : 0 <= pf < 256) by lia. assert (Hpsr : 0 <= ps < 256) by lia.
    rewrite !Z.mod_small by lia.
    assert ((len p <=? tp22_TP) = false) as -> by (unfold tp22_TP; lia).
    assert (Hd : ((ps =? addr_GLOBAL) || pgn_is_pdu2_of 0 pf ps) = true).
    { destruct Hkind as [(H1 & ->)|(H1 & H2)]; [reflexivity|].
      unfold pgn_is_pdu2_of, pgn_mk. rewrite !land_255. rewrite (Z.mod_small pf) by lia.
      unfold pgn_is_pdu2. destruct (Z.geb pf 240 && Z.leb pf 255) eqn:E; [apply orb_true_r|lia]. }
    rewrite Hd. rewrite Hb. cbn [tp22_pool_bam repeat pool_get]. rewrite bnseg_model.
    assert (Hpv : pgn_value dp pf (if pgn_is_pdu1 pf then 0 else ps) = pv).
    { unfold pv. destruct Hkind as [(H1 & H2)|(H1 & H2)].
      - assert (pgn_is_pdu1 pf = true) as ->.
        { unfold pgn_is_pdu1. destruct (Z.geb pf 0 && Z.leb pf 239) eqn:E; [reflexivity|lia]. }
        assert ((pf <? 240) = true) as -> by lia. rewrite pgn_value_arith by lia. lia.
      - assert (pgn_is_pdu1 pf = false) as ->.
        { unfold pgn_is_pdu1. destruct (Z.geb pf 0 && Z.leb pf 239) eqn:E; [lia|reflexivity]. }
        assert ((pf <? 240) = false) as -> by lia. rewrite pgn_value_arith by lia. reflexivity. }
    rewrite Hpv.
    cbn [flat22 f_snd set_fbam f_bam_iv]. rewrite Hs. reflexivity.
  Qed.

  Hypothesis Hiv2 : 2 * iv < tp22_T1.

  Definition rbm (dl nx : Z) (d : list Z) : rbuf22 :=
    {| q_pgn := pv; q_session := 0; q_size := len p; q_nseg := nseg; q_next := nx; q_border := None; q_maxrec := None;
       q_data := d; q_deadline := dl; q_src := sa; q_dst := G |}.
  Definition benvA22 (a : node22) : Prop :=
    f_rcv a = [] /\ f_mpg a = [] /\ n_timers (base a) = [] /\ f_bam_iv a = iv /\ f_bam a = bpool1 /\ n_cmdt_iv (base a) = n_cmdt_iv (base A0).
  Definition benvB22 (b : node22) : Prop :=
    f_snd b = [] /\ f_mpg b = [] /\ n_timers (base b) = [] /\ n_subs (base b) = n_subs (base B0) /\ n_cas (base b) = n_cas (base B0).

  (* ---- frames *)
  Lemma bdt_frame_full k seg : length seg = 60%nat ->
    dt_frame sa G 0 k seg = Some ({| f_id := tp22_dt_id sa G; f_ext := true; f_fd := true; f_data := tp22_dt_header 0 k 0 ++ seg |},
                                  tp22_dt_header 0 k 0 ++ seg).
  Proof.
    intros Hl. unfold dt_frame.
    assert (Hh : length (tp22_dt_header 0 k 0 ++ seg) = 64%nat) by (rewrite app_length, Hl; reflexivity).
    rewrite Hh. change (Z.of_nat 64 >=? tp22_TP + 4) with true. cbv iota.
    change (Z.to_nat (tp22_TP + 4)) with 64%nat. rewrite firstn_all2 by lia. reflexivity.
  Qed.
  Lemma bdt_frame_part k seg : (length seg < 60)%nat ->
    exists n, dt_frame sa G 0 k seg =
      Some ({| f_id := tp22_dt_id sa G; f_ext := true; f_fd := true; f_data := tp22_dt_header 0 k 0 ++ seg ++ repeat tp22_dt_pad n |},
            tp22_dt_header 0 k 0 ++ seg ++ repeat tp22_dt_pad n).
  Proof.
    intros Hl. unfold dt_frame.
    assert (Hh : length (tp22_dt_header 0 k 0 ++ seg) = (4 + length seg)%nat) by (rewrite app_length; reflexivity).
    rewrite Hh. assert ((Z.of_nat (4 + length seg) >=? tp22_TP + 4) = false) as -> by (unfold tp22_TP; lia).
    destruct (fd_len_legal (4 + length seg) ltac:(lia)) as (v & Hv & _ & _). rewrite Hv.
    eexists. rewrite <- app_assoc. reflexivity.
  Qed.
  Definition dtfb (k : nat) : frame :=
    match dt_frame sa G 0 (Z.of_nat k + 1) (row p k) with Some (fr, _) => fr | None => bam22 end.
  Lemma dtfb_some k : (k < ns)%nat -> exists seg' pad, dt_frame sa G 0 (Z.of_nat k + 1) (row p k) = Some (dtfb k, seg') /\
    f_id (dtfb k) = tp22_dt_id sa G /\ f_data (dtfb k) = tp22_dt_header 0 (Z.of_nat k + 1) 0 ++ row p k ++ pad /\
    ((S k < ns)%nat -> pad = []).
  Proof.
    intros Hk. pose proof bns_range as (_ & Hlo & Hhi). unfold dtfb.
    destruct (Nat.eq_dec (length (row p k)) 60) as [E|NE].
    - rewrite (bdt_frame_full _ _ E). eexists _, []. cbn [f_id f_data]. rewrite app_nil_r. repeat split; reflexivity.
    - assert (Hl : (length (row p k) < 60)%nat) by (unfold row in *; rewrite firstn_length in *; lia).
      destruct (bdt_frame_part (Z.of_nat k + 1) (row p k) Hl) as (n & Hn). rewrite Hn. eexists _, _. cbn [f_id f_data].
      split; [reflexivity|split; [reflexivity|split; [reflexivity|]]]. intros Hlt. exfalso. apply NE. apply row_len_full. lia.
  Qed.
  Definition eomsb : frame := tp22_eom_status sa G 0 (len p) nseg pv.
  Definition bdelivered22 : list out := deliveries (base B0) 7 pv sa G p.

  (* ---- the listener B *)
  Lemma acceptsG22 (b : node22) : accepts (base b) G = true.
  Proof. reflexivity. Qed.

  Lemma hB22_bam b c : f_rcv b = [] -> handle22 b c bam22 = (wake22 (set_frcv b [(h, rbm (c + tp22_T1) 1 [])]), []).
  Proof.
    intros Hr. pose proof bnseg_range as Hn. pose proof bpv_range as Hpv.
    unfold handle22, bam22, tp22_bam.
    destruct (cm22_fields sa 255 4 0 (len p) nseg 255 0 pv prio) as (L & C & S & Z1 & N & B7 & B8 & P); try lia.
    change (f_id (tp22_cm sa 255 4 0 (len p) nseg 255 0 pv prio)) with (mid_can_id_of prio (pgn_value_of 0 77 255) sa).
    rewrite notify22_cm by (try apply acceptsG22; lia).
    unfold process_tp_cm22. rewrite L. cbn [Nat.ltb Nat.leb]. rewrite C, S, Z1, N, P.
    change (4 =? tp22_ctl_RTS) with false. change (4 =? tp22_ctl_CTS) with false. change (4 =? tp22_ctl_EOM_STATUS) with false.
    change (4 =? tp22_ctl_EOM_ACK) with false. change (4 =? tp22_ctl_BAM) with true. cbv iota.
    fold G. fold h. unfold tmem. rewrite Hr. cbn [tget flat22 tset]. cbv iota. rewrite Hr. reflexivity.
  Qed.

  Lemma hB22_bdt b c dl (k : nat) : f_rcv b = [(h, rbm dl (Z.of_nat k + 1) (firstn (60 * k) p))] -> (k < ns)%nat ->
    handle22 b c (dtfb k) =
    (if (S k =? ns)%nat then wake22 (set_frcv b [(h, rbm dl (Z.of_nat k + 2) p)])
     else set_frcv b [(h, rbm (c + tp22_T1) (Z.of_nat k + 2) (firstn (60 * S k) p))], []).
  Proof.
    intros Hr Hk. pose proof bns_range as (Hns2 & Hlo & Hhi). pose proof bnseg_range as Hn.
    destruct (dtfb_some k Hk) as (seg' & pad & _ & Hid & Hdata & Hpad).
    unfold handle22. rewrite Hid, Hdata. unfold tp22_dt_id. change (Z.land (Z.shiftr 19968 8) 255) with 78.
    rewrite notify22_dt by (try apply acceptsG22; unfold G, addr_GLOBAL; lia).
    unfold process_tp_dt22.
    assert (Hrow : (1 <= length (row p k))%nat) by (unfold row; rewrite firstn_length, skipn_length; lia).
    assert ((length (tp22_dt_header 0 (Z.of_nat k + 1) 0 ++ row p k ++ pad) <=? 4)%nat = false) as ->.
    { apply Nat.leb_gt. rewrite app_length, app_length. cbn [tp22_dt_header length]. lia. }
    destruct (dt_hdr_fields 0 (Z.of_nat k + 1) (row p k ++ pad) ltac:(lia) ltac:(unfold nseg in *; lia)) as (Es & En). rewrite Es, En.
    assert ((Z.of_nat k + 1 =? 0) = false) as -> by lia.
    fold h. rewrite Hr. cbn [tget]. rewrite Z.eqb_refl. cbn [rbm q_next q_data q_size q_border q_maxrec q_deadline].
    rewrite Z.eqb_refl. cbn [negb].
    change (skipn 4 (tp22_dt_header 0 (Z.of_nat k + 1) 0 ++ row p k ++ pad)) with (row p k ++ pad).
    change (G =? addr_GLOBAL) with true. cbn [negb].
    destruct (Nat.eqb_spec (S k) ns) as [Elast|Nlast].
    - rewrite app_assoc. rewrite (row_last p k) by lia.
      assert ((len (p ++ pad) >=? len p) = true) as -> by (unfold len; rewrite app_length; lia).
      assert (Hfp : firstn (Z.to_nat (len p)) (p ++ pad) = p) by (unfold len; rewrite Nat2Z.id; apply firstn_app_pad).
      rewrite Hfp. cbn [flat22 tset]. rewrite Z.eqb_refl. unfold upd_q, rbm. cbn. replace (Z.of_nat k + 1 + 1) with (Z.of_nat k + 2) by lia. reflexivity.
    - assert (Hfull : (60 * S k <= length p)%nat) by lia.
      rewrite (Hpad ltac:(lia)). rewrite app_nil_r. rewrite (firstn_row p k Hfull).
      assert (Hlen : len (firstn (60 * S k) p) = 60 * Z.of_nat (S k)) by (unfold len; rewrite firstn_length; lia).
      rewrite Hlen. assert ((60 * Z.of_nat (S k) >=? len p) = false) as -> by (unfold len; lia).
      cbn [flat22 f_rcv set_frcv tset]. rewrite !Z.eqb_refl. cbn [tset]. rewrite Z.eqb_refl.
      unfold upd_q, rbm. cbn. replace (Z.of_nat k + 1 + 1) with (Z.of_nat k + 2) by lia. reflexivity.
  Qed.

  Lemma hB22_beoms b c dl nx : benvB22 b -> f_rcv b = [(h, rbm dl nx p)] ->
    handle22 b c eomsb = (set_frcv b [], bdelivered22).
  Proof.
    intros (_ & _ & _ & Es & Ec) Hr. pose proof bnseg_range as Hn. pose proof bpv_range as Hpv.
    unfold handle22, eomsb, tp22_eom_status.
    destruct (cm22_fields sa G 2 0 (len p) nseg 0 0 pv 7) as (L & C & S & Z1 & N & B7 & B8 & P); try (unfold G, addr_GLOBAL; lia).
    change (f_id (tp22_cm sa G 2 0 (len p) nseg 0 0 pv 7)) with (mid_can_id_of 7 (pgn_value_of 0 77 255) sa).
    rewrite notify22_cm by (try apply acceptsG22; lia).
    unfold process_tp_cm22. rewrite L. cbn [Nat.ltb Nat.leb]. rewrite C, S, Z1, N.
    change (2 =? tp22_ctl_RTS) with false. change (2 =? tp22_ctl_CTS) with false. change (2 =? tp22_ctl_EOM_STATUS) with true. cbv iota.
    fold G. fold h. rewrite Hr. cbn [tget]. rewrite Z.eqb_refl. cbn [rbm q_size q_nseg q_data q_pgn].
    rewrite !Z.eqb_refl. cbn [andb].
    rewrite flat22_notify_subscribers. change (G =? addr_GLOBAL) with true. cbn [negb].
    unfold tmem. rewrite Hr. cbn [tget tdel]. rewrite !Z.eqb_refl. cbn [flat22].
    unfold bdelivered22. rewrite (deliveries_env (base B0) (base b)) by assumption. rewrite app_nil_r. reflexivity.
  Qed.

  (* ---- job iterations *)
  Lemma bwith_base_eta (m : node22) : with_base m (base m) = m.
  Proof. destruct m; reflexivity. Qed.
  Lemma btimers_tail (m : node22) now nw : n_timers (base m) = [] ->
    flat22 (lift m (timer_pass (n_timers (base m)) now nw (base m) (fun n2 nw2 => Done n2 (nw2 - now))) (fun m2 r => Done m2 r))
    = (m, [], RDone (nw - now)).
  Proof. intros Ht. rewrite Ht. cbn [timer_pass lift flat22]. rewrite bwith_base_eta. reflexivity. Qed.

  Lemma jobA22_wait a c st dl nx d : benvA22 a -> f_snd a = [(h, sbm st dl nx d)] -> 0 < c < dl -> dl < c + 5000000 ->
    flat22 (job_iter22 a c) = (a, [], RDone (dl - c)).
  Proof.
    intros (Ar & Am & At & _) Hs Hc Hd. unfold job_iter22, dll_job22. rewrite Ar. cbn [tkeys map rcv_pass22]. rewrite Am. cbn [tkeys map mpg_pass].
    rewrite Hs. cbn [tkeys map fst snd_pass22]. rewrite Hs. cbn [tget]. fold h. rewrite Z.eqb_refl. cbn [sbm t_deadline].
    assert ((dl =? 0) = false) as -> by lia. assert ((dl >? c) = true) as -> by lia.
    unfold minw. assert ((c + 5000000 >? dl) = true) as -> by lia. apply btimers_tail. exact At.
  Qed.
  Lemma jobB22_wait b c dl nx d : benvB22 b -> f_rcv b = [(h, rbm dl nx d)] -> 0 < c < dl -> dl < c + 5000000 ->
    flat22 (job_iter22 b c) = (b, [], RDone (dl - c)).
  Proof.
    intros (Bs & Bm & Bt & _) Hr Hc Hd. unfold job_iter22, dll_job22. rewrite Hr. cbn [tkeys map fst rcv_pass22]. rewrite Hr.
    cbn [tget]. rewrite Z.eqb_refl. cbn [rbm q_deadline]. assert ((dl =? 0) = false) as -> by lia.
    assert ((dl >? c) = true) as -> by lia. unfold minw. assert ((c + 5000000 >? dl) = true) as -> by lia.
    rewrite Bm. cbn [tkeys map mpg_pass]. rewrite Bs. cbn [tkeys map snd_pass22]. apply btimers_tail. exact Bt.
  Qed.
  Lemma jobq22 m t : f_rcv m = [] -> f_mpg m = [] -> f_snd m = [] -> n_timers (base m) = [] ->
    flat22 (job_iter22 m t) = (m, [], RDone (t + 5000000 - t)).
  Proof.
    intros Hr Hm Hs Ht. unfold job_iter22, dll_job22. rewrite Hr. cbn [tkeys map rcv_pass22]. rewrite Hm. cbn [tkeys map mpg_pass].
    rewrite Hs. cbn [tkeys map snd_pass22]. apply btimers_tail. exact Ht.
  Qed.

  Definition rowsb (d : list (list Z)) (j0 : nat) : Prop := forall j, (j0 <= j)%nat -> nth_error d j = nth_error (segments p) j.

  (* one data frame per pass; after the last one the session waits to send the end-of-message status *)
  Lemma jobA22_send a c dl (k : nat) d : benvA22 a -> f_snd a = [(h, sbm tp22_st_SENDING_BAM dl (Z.of_nat k) d)] ->
    rowsb d k -> (k < ns)%nat -> 0 < dl <= c ->
    exists d' r, rowsb d' (S k) /\
      flat22 (job_iter22 a c) =
      (set_fsnd a [(h, sbm (if (S k =? ns)%nat then tp22_st_SENDING_EOM_STATUS else tp22_st_SENDING_BAM) (c + iv) (Z.of_nat (S k)) d')],
       [OTx (dtfb k)], RDone r).
  Proof.
    intros (Ar & Am & At & Ai & _) Hs Hrows Hk Hd. pose proof bns_range as (_ & Hlo & Hhi).
    unfold job_iter22, dll_job22. rewrite Ar. cbn [tkeys map rcv_pass22]. rewrite Am. cbn [tkeys map mpg_pass].
    rewrite Hs. cbn [tkeys map fst snd_pass22]. rewrite Hs. cbn [tget]. fold h. rewrite Z.eqb_refl.
    cbn [sbm t_deadline t_state t_next t_data t_src t_dst t_session].
    assert ((dl =? 0) = false) as -> by lia. assert ((dl >? c) = false) as -> by lia.
    change (tp22_st_SENDING_BAM =? tp22_st_WAITING_CTS) with false. change (tp22_st_SENDING_BAM =? tp22_st_SENDING_RTS_CTS) with false.
    change (tp22_st_SENDING_BAM =? tp22_st_WAITING_EOM_ACK) with false. change (tp22_st_SENDING_BAM =? tp22_st_EOM_ACK_RECEIVED) with false.
    change (tp22_st_SENDING_BAM =? tp22_st_TRANSMISSION_FINISHED) with false. cbn [orb].
    change (tp22_st_SENDING_BAM =? tp22_st_SENDING_BAM) with true. cbv iota.
    destruct (dtfb_some k Hk) as (seg' & pad & Hfr & _).
    rewrite bpy_nth_nat. rewrite (Hrows k (le_n k)). rewrite nth_segments by lia. rewrite Hfr.
    cbn [flat22 f_snd set_fsnd tset]. rewrite Z.eqb_refl. cbn [tget]. rewrite Z.eqb_refl.
    cbn [with_tdata t_next t_nseg t_state sbm f_bam_iv set_fsnd tset]. rewrite Z.eqb_refl. rewrite bpy_set_nat.
    rewrite Ai.
    exists (upd_nth d k seg'). eexists. split.
    { intros j Hj. rewrite upd_nth_other by lia. apply Hrows. lia. }
    cbn [snd_pass22]. rewrite btimers_tail by exact At.
    replace (Z.of_nat k + 1) with (Z.of_nat (S k)) by lia.
    destruct (Nat.eqb_spec (S k) ns) as [E|NE].
    - assert ((Z.of_nat (S k) <? nseg) = false) as -> by (unfold nseg; lia). reflexivity.
    - assert ((Z.of_nat (S k) <? nseg) = true) as -> by (unfold nseg; lia). reflexivity.
  Qed.

  Lemma jobA22_eoms a c dl nx d : benvA22 a -> f_snd a = [(h, sbm tp22_st_SENDING_EOM_STATUS dl nx d)] -> 0 < dl <= c ->
    exists r, flat22 (job_iter22 a c) = (set_fbam (set_fsnd a []) (repeat true tp22_pool_bam), [OTx eomsb], RDone r).
  Proof.
    intros (Ar & Am & At & Ai & Ap & _) Hs Hd.
    unfold job_iter22, dll_job22. rewrite Ar. cbn [tkeys map rcv_pass22]. rewrite Am. cbn [tkeys map mpg_pass].
    rewrite Hs. cbn [tkeys map fst snd_pass22]. rewrite Hs. cbn [tget]. fold h. rewrite Z.eqb_refl.
    cbn [sbm t_deadline t_state t_src t_dst t_session t_size t_nseg t_pgn].
    assert ((dl =? 0) = false) as -> by lia. assert ((dl >? c) = false) as -> by lia.
    change (tp22_st_SENDING_EOM_STATUS =? tp22_st_WAITING_CTS) with false. change (tp22_st_SENDING_EOM_STATUS =? tp22_st_SENDING_RTS_CTS) with false.
    change (tp22_st_SENDING_EOM_STATUS =? tp22_st_WAITING_EOM_ACK) with false. change (tp22_st_SENDING_EOM_STATUS =? tp22_st_EOM_ACK_RECEIVED) with false.
    change (tp22_st_SENDING_EOM_STATUS =? tp22_st_TRANSMISSION_FINISHED) with false. cbn [orb].
    change (tp22_st_SENDING_EOM_STATUS =? tp22_st_SENDING_BAM) with false.
    change (tp22_st_SENDING_EOM_STATUS =? tp22_st_SENDING_EOM_STATUS) with true. cbv iota.
    cbn [flat22]. unfold tmem. rewrite ?Hs. cbn [tget tdel]. rewrite !Z.eqb_refl.
    unfold put_session. cbn [sbm t_dst t_session]. change (G =? addr_GLOBAL) with true. cbv iota.
    unfold put_bam. cbn [f_bam set_fsnd]. rewrite Ap. change (pool_put bpool1 0) with (Some (repeat true tp22_pool_bam)). cbv iota.
    cbn [snd_pass22]. rewrite btimers_tail by (cbn [base set_fbam set_fsnd]; exact At). eexists. reflexivity.
  Qed.

  (* ---- the step function, case by case *)
  Lemma bstep22_b s f r : pb s = f :: r ->
    step22 s = let '(m', os) := handle22 (fb s) (fclk s) f in
               {| fa := fa s; fb := m'; pa := pa s ++ txs os; pb := r; fclk := fclk s;
                  eva2 := eva2 s; evb2 := evb2 s ++ evs os; wab2 := wab2 s; wba2 := wba2 s ++ txs os |}.
  Proof. intros H. unfold step22. rewrite H. reflexivity. Qed.
  Lemma bstep22_idle s : pb s = [] -> pa s = [] ->
    step22 s = let '(a', oa, ra) := flat22 (job_iter22 (fa s) (fclk s)) in
               let '(b', ob, rb) := flat22 (job_iter22 (fb s) (fclk s)) in
               let quiet := match txs oa, txs ob with [], [] => true | _, _ => false end in
               let dt := if quiet && (n_wakes (base a') =? n_wakes (base (fa s))) && (n_wakes (base b') =? n_wakes (base (fb s)))
                         then Z.max 0 (Z.min (sleep_of ra) (sleep_of rb)) else 0 in
               {| fa := a'; fb := b'; pa := txs ob; pb := txs oa; fclk := fclk s + dt;
                  eva2 := eva2 s ++ evs oa; evb2 := evb2 s ++ evs ob; wab2 := wab2 s ++ txs oa; wba2 := wba2 s ++ txs ob |}.
  Proof. intros H1 H2. unfold step22. rewrite H1, H2. reflexivity. Qed.

  Definition dtfsb (k m : nat) : list frame := map dtfb (seq k m).
  Lemma dtfsb_snoc k : dtfsb 0 k ++ [dtfb k] = dtfsb 0 (S k).
  Proof. unfold dtfsb. rewrite seq_S, map_app. reflexivity. Qed.

  (* ---- shapes: k rows have reached B; c is the time of the last frame *)
  Definition benvs (s : net22) : Prop := benvA22 (fa s) /\ benvB22 (fb s).
  Definition dB (k : nat) (c : Z) : Z := if (k =? ns)%nat then c - iv + tp22_T1 else c + tp22_T1.
  Definition stA (k : nat) : Z := if (k =? ns)%nat then tp22_st_SENDING_EOM_STATUS else tp22_st_SENDING_BAM.
  Definition Bm0 (s : net22) : Prop :=
    fclk s = t0 /\ benvs s /\ pa s = [] /\ pb s = [bam22] /\
    (exists d, f_snd (fa s) = [(h, sbm tp22_st_SENDING_BAM (t0 + iv) 0 d)] /\ rowsb d 0) /\ f_rcv (fb s) = [] /\
    evb2 s = [] /\ wab2 s = [bam22].
  Definition BmWait (k : nat) (s : net22) : Prop :=
    exists c, fclk s = c /\ (0 < c /\ c = t0 + Z.of_nat k * iv) /\ benvs s /\ pa s = [] /\ pb s = [] /\ (k <= ns)%nat /\
      (exists d, f_snd (fa s) = [(h, sbm (stA k) (c + iv) (Z.of_nat k) d)] /\ rowsb d k) /\
      f_rcv (fb s) = [(h, rbm (dB k c) (Z.of_nat k + 1) (firstn (60 * k) p))] /\
      evb2 s = [] /\ wab2 s = bam22 :: dtfsb 0 k.
  Definition BmDue (k : nat) (s : net22) : Prop :=
    exists c, fclk s = c /\ (0 < c - iv /\ c = t0 + Z.of_nat (S k) * iv) /\ benvs s /\ pa s = [] /\ pb s = [] /\ (k <= ns)%nat /\
      (exists d, f_snd (fa s) = [(h, sbm (stA k) c (Z.of_nat k) d)] /\ rowsb d k) /\
      f_rcv (fb s) = [(h, rbm (dB k (c - iv)) (Z.of_nat k + 1) (firstn (60 * k) p))] /\
      evb2 s = [] /\ wab2 s = bam22 :: dtfsb 0 k.
  Definition BmFly (k : nat) (s : net22) : Prop :=
    exists c, fclk s = c /\ (0 < c - iv /\ c = t0 + Z.of_nat (S k) * iv) /\ benvs s /\ pa s = [] /\ pb s = [dtfb k] /\ (k < ns)%nat /\
      (exists d, f_snd (fa s) = [(h, sbm (stA (S k)) (c + iv) (Z.of_nat (S k)) d)] /\ rowsb d (S k)) /\
      f_rcv (fb s) = [(h, rbm (dB k (c - iv)) (Z.of_nat k + 1) (firstn (60 * k) p))] /\
      evb2 s = [] /\ wab2 s = bam22 :: dtfsb 0 (S k).
  Definition BmEoms (s : net22) : Prop :=
    fclk s = t0 + Z.of_nat (S ns) * iv /\ f_rcv (fa s) = [] /\ benvB22 (fb s) /\ pa s = [] /\ pb s = [eomsb] /\ f_snd (fa s) = [] /\ f_bam (fa s) = repeat true tp22_pool_bam /\
    (exists dl nx, f_rcv (fb s) = [(h, rbm dl nx p)]) /\ evb2 s = [] /\ wab2 s = bam22 :: dtfsb 0 ns ++ [eomsb].
  Definition BmDone (s : net22) : Prop :=
    pa s = [] /\ pb s = [] /\ f_snd (fa s) = [] /\ f_rcv (fa s) = [] /\ f_snd (fb s) = [] /\ f_rcv (fb s) = [] /\
    f_bam (fa s) = repeat true tp22_pool_bam /\ evb2 s = bdelivered22 /\ wab2 s = bam22 :: dtfsb 0 ns ++ [eomsb].

  Lemma firstn_all_p : firstn (60 * ns) p = p.
  Proof. pose proof bns_range as (_ & _ & Hhi). apply firstn_all2. lia. Qed.

  Lemma M0 s : Bm0 s -> BmWait 0 (step22 s).
  Proof.
    intros (Hc & (Ea & Eb) & Hpa & Hpb & HA' & Hr & Hev & Hw).
    rewrite (bstep22_b s bam22 []) by exact Hpb. rewrite (hB22_bam (fb s) (fclk s) Hr). cbn [txs flat_map evs filter app].
    pose proof bns_range as (Hns & _).
    exists t0. cbn [fa fb pa pb fclk evb2 wab2].
    split; [exact Hc|]. split; [lia|]. split; [split; [exact Ea|]|].
    { destruct Eb as (E1 & E2 & E3 & E4 & E5). unfold benvB22. cbn. repeat split; assumption. }
    split; [rewrite Hpa; reflexivity|]. split; [reflexivity|]. split; [lia|].
    split; [unfold stA; destruct (Nat.eqb_spec 0 ns); [lia|]; exact HA'|].
    split; [rewrite Hc; unfold dB; destruct (Nat.eqb_spec 0 ns); [lia|]; reflexivity|].
    split; [rewrite Hev; reflexivity|rewrite Hw; reflexivity].
  Qed.

  Lemma M1 k s : BmWait k s -> BmDue k (step22 s).
  Proof.
    intros (c & Hc & (Hc0 & Hct) & (Ea & Eb) & Hpa & Hpb & Hk & (d & Hs & Hrows) & Hr & Hev & Hw).
    rewrite (bstep22_idle s) by assumption. rewrite Hc.
    assert (HdB : c + iv < dB k c /\ dB k c < c + 5000000).
    { unfold dB, tp22_T1 in *. destruct (k =? ns)%nat; lia. }
    rewrite (jobA22_wait (fa s) c (stA k) (c + iv) (Z.of_nat k) d Ea Hs) by (unfold tp22_T1 in *; lia).
    rewrite (jobB22_wait (fb s) c (dB k c) _ _ Eb Hr) by lia.
    cbn [txs flat_map evs filter sleep_of andb]. rewrite !Z.eqb_refl. cbn [andb].
    assert (Hdt : Z.max 0 (Z.min (c + iv - c) (dB k c - c)) = iv) by lia. rewrite Hdt.
    exists (c + iv). cbn [fa fb pa pb fclk evb2 wab2].
    split; [reflexivity|]. split; [split; [lia|rewrite Hct, Nat2Z.inj_succ; ring]|]. split; [split; assumption|].
    split; [reflexivity|]. split; [reflexivity|]. split; [exact Hk|]. split; [exists d; split; assumption|].
    split; [rewrite Hr; replace (c + iv - iv) with c by lia; reflexivity|].
    split; [rewrite Hev; reflexivity|rewrite Hw, app_nil_r; reflexivity].
  Qed.

  Lemma benvA22_snd a l : benvA22 a -> benvA22 (set_fsnd a l).
  Proof. intros H. destruct a. exact H. Qed.
  Lemma benvB22_rcv b l : benvB22 b -> benvB22 (set_frcv b l).
  Proof. intros H. destruct b. exact H. Qed.
  Lemma benvB22_wake b : benvB22 b -> benvB22 (wake22 b).
  Proof. intros H. destruct b as [bb ? ? ? ? ? ?]. destruct bb. exact H. Qed.

  Lemma M2 k s : BmDue k s -> (k < ns)%nat -> BmFly k (step22 s).
  Proof.
    intros (c & Hc & (Hc0 & Hct) & (Ea & Eb) & Hpa & Hpb & _ & (d & Hs & Hrows) & Hr & Hev & Hw) Hk.
    rewrite (bstep22_idle s) by assumption. rewrite Hc.
    assert (EstA : stA k = tp22_st_SENDING_BAM) by (unfold stA; destruct (Nat.eqb_spec k ns); [lia|reflexivity]).
    rewrite EstA in Hs.
    destruct (jobA22_send (fa s) c c k d Ea Hs Hrows Hk ltac:(lia)) as (d' & r & Hrows' & ->).
    assert (EdB : dB k (c - iv) = c - iv + tp22_T1) by (unfold dB; destruct (Nat.eqb_spec k ns); [lia|reflexivity]).
    assert (HdB : c < dB k (c - iv) /\ dB k (c - iv) < c + 5000000) by (rewrite EdB; unfold tp22_T1 in *; lia).
    rewrite (jobB22_wait (fb s) c (dB k (c - iv)) _ _ Eb Hr) by lia.
    cbn [txs flat_map evs filter sleep_of andb app].
    exists c. cbn [fa fb pa pb fclk evb2 wab2].
    split; [lia|]. split; [split; [lia|exact Hct]|]. split; [split; [apply benvA22_snd; exact Ea|exact Eb]|].
    split; [reflexivity|]. split; [reflexivity|]. split; [exact Hk|].
    split; [exists d'; split; [reflexivity|exact Hrows']|].
    split; [exact Hr|]. split; [rewrite Hev; reflexivity|rewrite Hw, <- dtfsb_snoc; reflexivity].
  Qed.

  Lemma M3 k s : BmFly k s -> BmWait (S k) (step22 s).
  Proof.
    intros (c & Hc & (Hc0 & Hct) & (Ea & Eb) & Hpa & Hpb & Hk & HsA & Hr & Hev & Hw).
    rewrite (bstep22_b s (dtfb k) []) by exact Hpb. rewrite Hc.
    rewrite (hB22_bdt (fb s) c _ k Hr Hk). cbn [txs flat_map evs filter app].
    exists c. cbn [fa fb pa pb fclk evb2 wab2].
    split; [reflexivity|]. split; [split; [lia|exact Hct]|].
    assert (EdB : dB k (c - iv) = c - iv + tp22_T1) by (unfold dB; destruct (Nat.eqb_spec k ns); [lia|reflexivity]).
    assert (EZ : Z.of_nat (S k) + 1 = Z.of_nat k + 2) by lia.
    split; [split; [exact Ea|destruct (S k =? ns)%nat; [apply benvB22_wake|]; apply benvB22_rcv; exact Eb]|].
    split; [rewrite Hpa; reflexivity|]. split; [reflexivity|]. split; [lia|]. split; [exact HsA|].
    split.
    { rewrite EZ, EdB. unfold dB. destruct (Nat.eqb_spec (S k) ns) as [E|E].
      - rewrite E, firstn_all_p. destruct (fb s) as [bb ? ? ? ? ? ?]; destruct bb; reflexivity.
      - destruct (fb s); reflexivity. }
    split; [rewrite Hev; reflexivity|exact Hw].
  Qed.

  Lemma M2e s : BmDue ns s -> BmEoms (step22 s).
  Proof.
    intros (c & Hc & (Hc0 & Hct) & (Ea & Eb) & Hpa & Hpb & _ & (d & Hs & Hrows) & Hr & Hev & Hw).
    rewrite (bstep22_idle s) by assumption. rewrite Hc.
    assert (EstA : stA ns = tp22_st_SENDING_EOM_STATUS) by (unfold stA; rewrite Nat.eqb_refl; reflexivity).
    rewrite EstA in Hs.
    destruct (jobA22_eoms (fa s) c c _ d Ea Hs ltac:(lia)) as (r & ->).
    assert (EdB : dB ns (c - iv) = c - iv - iv + tp22_T1) by (unfold dB; rewrite Nat.eqb_refl; reflexivity).
    assert (HdB : c < dB ns (c - iv) /\ dB ns (c - iv) < c + 5000000) by (rewrite EdB; unfold tp22_T1 in *; lia).
    rewrite (jobB22_wait (fb s) c (dB ns (c - iv)) _ _ Eb Hr) by lia.
    cbn [txs flat_map evs filter sleep_of andb app].
    unfold BmEoms. cbn [fa fb pa pb fclk evb2 wab2].
    destruct Ea as (Ar & _).
    split; [lia|]. split; [destruct (fa s); exact Ar|]. split; [exact Eb|]. split; [reflexivity|]. split; [reflexivity|].
    split; [destruct (fa s); reflexivity|]. split; [destruct (fa s); reflexivity|].
    split; [eexists _, _; rewrite Hr, firstn_all_p; reflexivity|].
    split; [rewrite Hev; reflexivity|rewrite Hw; reflexivity].
  Qed.

  Lemma M4 s : BmEoms s -> BmDone (step22 s).
  Proof.
    intros (_ & Ar & Eb & Hpa & Hpb & Hs & Hp & (dl & nx & Hr) & Hev & Hw).
    rewrite (bstep22_b s eomsb []) by exact Hpb.
    rewrite (hB22_beoms (fb s) (fclk s) dl nx Eb Hr). unfold bdelivered22 at 1 2 3. rewrite txs_deliveries, evs_deliveries. fold bdelivered22.
    unfold BmDone. cbn [fa fb pa pb fclk evb2 wab2]. destruct Eb as (Bs & _).
    split; [rewrite Hpa; reflexivity|]. split; [reflexivity|]. split; [exact Hs|]. split; [exact Ar|].
    split; [destruct (fb s); exact Bs|]. split; [destruct (fb s); reflexivity|]. split; [exact Hp|].
    split; [rewrite Hev; reflexivity|rewrite ?app_nil_r; exact Hw].
  Qed.

  Definition breaches (s : net22) : Prop := exists j, BmDone (steps22 j s).
  Lemma breaches_step s : breaches (step22 s) -> breaches s.
  Proof. intros (j & H). exists (S j). exact H. Qed.

  Lemma wait_reaches : forall r k s, (ns - k = r)%nat -> BmWait k s -> breaches s.
  Proof.
    induction r as [r IH] using lt_wf_ind. intros k s Hr Hsh.
    assert (Hk : (k <= ns)%nat) by (destruct Hsh as (c & _ & _ & _ & _ & _ & Hk & _); exact Hk).
    apply breaches_step. pose proof (M1 k s Hsh) as Hd.
    destruct (Nat.eq_dec k ns) as [E|E].
    - subst k. apply breaches_step. apply breaches_step. exists 0%nat. apply M4. apply M2e. exact Hd.
    - apply breaches_step. apply breaches_step.
      apply (IH (ns - S k)%nat ltac:(lia) (S k)); [reflexivity|]. apply M3. apply M2; [exact Hd|lia].
  Qed.

  Lemma bstart : Bm0 (net22_send (net22_0 A0 B0 t0) dp pf ps prio sa p).
  Proof.
    destruct HA as (As & Ar & Am & At & Ap). destruct HB as (Bs & Br & Bm & Bt).
    unfold net22_send, net22_0. cbn [fa fb pa pb fclk eva2 evb2 wab2 wba2].
    rewrite (send_pgn22_bam A0 t0 As Ap). cbn [txs flat_map evs filter app].
    unfold Bm0. cbn [fa fb pa pb fclk evb2 wab2].
    split; [reflexivity|]. split; [split|].
    - unfold benvA22. destruct A0 as [ab ? ? ? ? ? ?]. destruct ab. cbn in *. repeat split; assumption || reflexivity.
    - unfold benvB22. repeat split; assumption || reflexivity.
    - split; [reflexivity|]. split; [reflexivity|].
      split; [exists (segments p); split; [destruct A0 as [ab ? ? ? ? ? ?]; destruct ab; reflexivity|intros j _; reflexivity]|].
      split; [exact Br|]. split; reflexivity.
  Qed.

  Theorem bam_closed_loop22 : breaches (net22_send (net22_0 A0 B0 t0) dp pf ps prio sa p).
  Proof. apply breaches_step. apply (wait_reaches (ns - 0)%nat 0%nat); [reflexivity|]. apply M0. apply bstart. Qed.

  (* ---- the same run with the time of every frame A puts on the wire *)
  Definition treaches (s : net22) (L : list (Z * frame)) : Prop := exists j, BmDone (steps22 j s) /\ tlog22 j s = L.
  Lemma treaches_step s L : treaches (step22 s) L -> treaches s (newtx22 s (step22 s) ++ L).
  Proof. intros (j & H & E). exists (S j). split; [exact H|]. cbn [tlog22]. rewrite E. reflexivity. Qed.

  Lemma wait_w k s : BmWait k s -> wab2 s = bam22 :: dtfsb 0 k.
  Proof. intros (c & _ & _ & _ & _ & _ & _ & _ & _ & _ & Hw). exact Hw. Qed.
  Lemma due_w k s : BmDue k s -> wab2 s = bam22 :: dtfsb 0 k /\ fclk s = t0 + Z.of_nat (S k) * iv.
  Proof. intros (c & Hc & (_ & Hct) & _ & _ & _ & _ & _ & _ & _ & Hw). split; [exact Hw|rewrite Hc; exact Hct]. Qed.
  Lemma fly_w k s : BmFly k s -> wab2 s = bam22 :: dtfsb 0 (S k).
  Proof. intros (c & _ & _ & _ & _ & _ & _ & _ & _ & _ & Hw). exact Hw. Qed.
  Lemma eoms_w s : BmEoms s -> wab2 s = bam22 :: dtfsb 0 ns ++ [eomsb].
  Proof. intros (_ & _ & _ & _ & _ & _ & _ & _ & _ & Hw). exact Hw. Qed.
  Lemma done_w s : BmDone s -> wab2 s = bam22 :: dtfsb 0 ns ++ [eomsb].
  Proof. intros (_ & _ & _ & _ & _ & _ & _ & _ & Hw). exact Hw. Qed.

  Definition stamp (k : nat) : Z := t0 + Z.of_nat (S k) * iv.
  Definition tail_log (k : nat) : list (Z * frame) := map (fun i => (stamp i, dtfb i)) (seq k (ns - k)) ++ [(stamp ns, eomsb)].

  Lemma wait_treaches : forall r k s, (ns - k = r)%nat -> BmWait k s -> treaches s (tail_log k).
  Proof.
    induction r as [r IH] using lt_wf_ind. intros k s Hr Hsh.
    assert (Hk : (k <= ns)%nat) by (destruct Hsh as (c & _ & _ & _ & _ & _ & Hk & _); exact Hk).
    pose proof (M1 k s Hsh) as Hd. pose proof (wait_w k s Hsh) as W0. destruct (due_w k _ Hd) as (W1 & C1).
    destruct (Nat.eq_dec k ns) as [E|E].
    - subst k. pose proof (M2e _ Hd) as He. pose proof (M4 _ He) as Hf.
      pose proof (eoms_w _ He) as W2. pose proof (done_w _ Hf) as W3.
      replace (tail_log ns) with (newtx22 s (step22 s) ++ newtx22 (step22 s) (step22 (step22 s)) ++
                                  newtx22 (step22 (step22 s)) (step22 (step22 (step22 s))) ++ []).
      + apply treaches_step. apply treaches_step. apply treaches_step. exists 0%nat. split; [exact Hf|reflexivity].
      + rewrite (newtx22_same s) by (rewrite W0, W1; reflexivity).
        rewrite (newtx22_snoc (step22 s) _ [eomsb]) by (rewrite W1, W2; reflexivity).
        rewrite (newtx22_same (step22 (step22 s))) by (rewrite W2, W3; reflexivity).
        rewrite C1. unfold tail_log, stamp. rewrite Nat.sub_diag. reflexivity.
    - assert (Hk' : (k < ns)%nat) by lia.
      pose proof (M2 k _ Hd Hk') as Hf. pose proof (M3 k _ Hf) as Hw. pose proof (fly_w k _ Hf) as W2. pose proof (wait_w _ _ Hw) as W3.
      replace (tail_log k) with (newtx22 s (step22 s) ++ newtx22 (step22 s) (step22 (step22 s)) ++
                                 newtx22 (step22 (step22 s)) (step22 (step22 (step22 s))) ++ tail_log (S k)).
      + apply treaches_step. apply treaches_step. apply treaches_step.
        apply (IH (ns - S k)%nat ltac:(lia) (S k)); [reflexivity|exact Hw].
      + rewrite (newtx22_same s) by (rewrite W0, W1; reflexivity).
        rewrite (newtx22_snoc (step22 s) _ [dtfb k]) by (rewrite W1, W2, <- dtfsb_snoc; reflexivity).
        rewrite (newtx22_same (step22 (step22 s))) by (rewrite W2, W3; reflexivity).
        rewrite C1. unfold tail_log. replace (ns - k)%nat with (S (ns - S k)) by lia. reflexivity.
  Qed.

  Theorem bam_closed_loop22_timed : treaches (net22_send (net22_0 A0 B0 t0) dp pf ps prio sa p) (tail_log 0).
  Proof.
    pose proof bstart as H0. pose proof (M0 _ H0) as H1.
    replace (tail_log 0) with (newtx22 (net22_send (net22_0 A0 B0 t0) dp pf ps prio sa p)
                                       (step22 (net22_send (net22_0 A0 B0 t0) dp pf ps prio sa p)) ++ tail_log 0).
    - apply treaches_step. apply (wait_treaches (ns - 0)%nat 0%nat); [reflexivity|exact H1].
    - rewrite newtx22_same; [reflexivity|].
      rewrite (wait_w _ _ H1). destruct H0 as (_ & _ & _ & _ & _ & _ & _ & Hw). rewrite Hw. reflexivity.
  Qed.
End BamLoop22.

(* T02.10: the FD broadcast closed loop, stated without the proof's vocabulary — for a PDU1 group sent to the global address and
   for a PDU2 group with any group extension (delivered under PGN dp.pf.ps) *)
Definition bam_pgn22 (dp pf ps : Z) : Z := if pf <? 240 then dp * 65536 + pf * 256 else dp * 65536 + pf * 256 + ps.

Theorem bam_closed_loop22_delivers_any prio sa dp pf ps p t0 A0 B0 :
  0 <= prio < 8 -> 0 <= sa < 255 -> (0 <= pf < 240 /\ ps = 255) \/ (240 <= pf < 256 /\ 0 <= ps < 256) ->
  0 <= dp < 2 -> 60 < len p < 16777216 -> 0 < t0 ->
  0 < f_bam_iv A0 < tp22_T1 -> 2 * f_bam_iv A0 < tp22_T1 ->
  f_snd A0 = [] /\ f_rcv A0 = [] /\ f_mpg A0 = [] /\ n_timers (base A0) = [] /\ f_bam A0 = repeat true tp22_pool_bam ->
  f_snd B0 = [] /\ f_rcv B0 = [] /\ f_mpg B0 = [] /\ n_timers (base B0) = [] ->
  let pv := bam_pgn22 dp pf ps in
  let ns := ((length p + 59) / 60)%nat in
  exists j, let s := steps22 j (net22_send (net22_0 A0 B0 t0) dp pf ps prio sa p) in
    pa s = [] /\ pb s = [] /\ f_snd (fa s) = [] /\ f_rcv (fa s) = [] /\ f_snd (fb s) = [] /\ f_rcv (fb s) = [] /\
    f_bam (fa s) = repeat true tp22_pool_bam /\
    evb2 s = deliveries (base B0) 7 pv sa addr_GLOBAL p /\
    wab2 s = tp22_bam prio sa 0 pv (len p) (Z.of_nat ns)
             :: map (fun k => match dt_frame sa addr_GLOBAL 0 (Z.of_nat k + 1) (row p k) with
                              | Some (fr, _) => fr | None => tp22_bam prio sa 0 pv (len p) (Z.of_nat ns) end) (seq 0 ns)
             ++ [tp22_eom_status sa addr_GLOBAL 0 (len p) (Z.of_nat ns) pv].
Proof.
  intros H1 H2 H3 H4 H5 H6 H7 H8 HA HB pv ns.
  destruct (bam_closed_loop22 prio sa dp pf ps p t0 A0 B0 H1 H2 H3 H4 H5 H6 H7 HA HB H8) as (j & H). exists j. exact H.
Qed.

Theorem bam_closed_loop22_delivers prio sa dp pf p t0 A0 B0 :
  0 <= prio < 8 -> 0 <= sa < 255 -> 0 <= pf < 240 -> 0 <= dp < 2 -> 60 < len p < 16777216 -> 0 < t0 ->
  0 < f_bam_iv A0 < tp22_T1 -> 2 * f_bam_iv A0 < tp22_T1 ->
  f_snd A0 = [] /\ f_rcv A0 = [] /\ f_mpg A0 = [] /\ n_timers (base A0) = [] /\ f_bam A0 = repeat true tp22_pool_bam ->
  f_snd B0 = [] /\ f_rcv B0 = [] /\ f_mpg B0 = [] /\ n_timers (base B0) = [] ->
  let pv := dp * 65536 + pf * 256 in
  let ns := ((length p + 59) / 60)%nat in
  exists j, let s := steps22 j (net22_send (net22_0 A0 B0 t0) dp pf 255 prio sa p) in
    pa s = [] /\ pb s = [] /\ f_snd (fa s) = [] /\ f_rcv (fa s) = [] /\ f_snd (fb s) = [] /\ f_rcv (fb s) = [] /\
    f_bam (fa s) = repeat true tp22_pool_bam /\
    evb2 s = deliveries (base B0) 7 pv sa addr_GLOBAL p /\
    wab2 s = tp22_bam prio sa 0 pv (len p) (Z.of_nat ns)
             :: map (fun k => match dt_frame sa addr_GLOBAL 0 (Z.of_nat k + 1) (row p k) with
                              | Some (fr, _) => fr | None => tp22_bam prio sa 0 pv (len p) (Z.of_nat ns) end) (seq 0 ns)
             ++ [tp22_eom_status sa addr_GLOBAL 0 (len p) (Z.of_nat ns) pv].
Proof.
  intros H1 H2 H3 H4 H5 H6 H7 H8 HA HB pv ns.
  pose proof (bam_closed_loop22_delivers_any prio sa dp pf 255 p t0 A0 B0 H1 H2 (or_introl (conj H3 eq_refl)) H4 H5 H6 H7 H8 HA HB) as H.
  unfold bam_pgn22 in H. assert ((pf <? 240) = true) as E by lia. rewrite E in H. exact H.
Qed.

(* T09.16: the same run with its times: the data frame of segment k leaves at t0 + (k+1)·iv, the end-of-message status one
   interval after the last — consecutive frames of the broadcast are exactly the configured interval apart *)
Theorem bam_closed_loop22_paced_any prio sa dp pf ps p t0 A0 B0 :
  0 <= prio < 8 -> 0 <= sa < 255 -> (0 <= pf < 240 /\ ps = 255) \/ (240 <= pf < 256 /\ 0 <= ps < 256) ->
  0 <= dp < 2 -> 60 < len p < 16777216 -> 0 < t0 ->
  0 < f_bam_iv A0 < tp22_T1 -> 2 * f_bam_iv A0 < tp22_T1 ->
  f_snd A0 = [] /\ f_rcv A0 = [] /\ f_mpg A0 = [] /\ n_timers (base A0) = [] /\ f_bam A0 = repeat true tp22_pool_bam ->
  f_snd B0 = [] /\ f_rcv B0 = [] /\ f_mpg B0 = [] /\ n_timers (base B0) = [] ->
  let pv := bam_pgn22 dp pf ps in
  let ns := ((length p + 59) / 60)%nat in
  let iv := f_bam_iv A0 in
  let s0 := net22_send (net22_0 A0 B0 t0) dp pf ps prio sa p in
  wab2 s0 = [tp22_bam prio sa 0 pv (len p) (Z.of_nat ns)] /\ fclk s0 = t0 /\
  exists j, (pa (steps22 j s0) = [] /\ pb (steps22 j s0) = [] /\ f_snd (fa (steps22 j s0)) = [] /\ f_rcv (fb (steps22 j s0)) = [] /\
             evb2 (steps22 j s0) = deliveries (base B0) 7 pv sa addr_GLOBAL p) /\
    tlog22 j s0 = map (fun k => (t0 + Z.of_nat (S k) * iv, dtfb prio sa dp pf ps p k)) (seq 0 ns)
                  ++ [(t0 + Z.of_nat (S ns) * iv, tp22_eom_status sa addr_GLOBAL 0 (len p) (Z.of_nat ns) pv)].
Proof.
  intros H1 H2 H3 H4 H5 H6 H7 H8 HA HB pv ns iv s0.
  pose proof (bstart prio sa dp pf ps p t0 A0 B0) as HS.
  repeat match type of HS with ?P -> _ => specialize (HS ltac:(assumption)) end.
  destruct HS as (Hc & _ & _ & _ & _ & _ & _ & Hw).
  split; [exact Hw|]. split; [exact Hc|].
  destruct (bam_closed_loop22_timed prio sa dp pf ps p t0 A0 B0 H1 H2 H3 H4 H5 H6 H7 HA HB H8) as (j & Hd & Hl). exists j.
  split; [|unfold s0; rewrite Hl; unfold tail_log; rewrite Nat.sub_0_r; reflexivity].
  destruct Hd as (Q1 & Q2 & Q3 & Q4 & Q5 & Q6 & Q7 & Q8 & _). repeat split; assumption.
Qed.

Theorem bam_closed_loop22_paced prio sa dp pf p t0 A0 B0 :
  0 <= prio < 8 -> 0 <= sa < 255 -> 0 <= pf < 240 -> 0 <= dp < 2 -> 60 < len p < 16777216 -> 0 < t0 ->
  0 < f_bam_iv A0 < tp22_T1 -> 2 * f_bam_iv A0 < tp22_T1 ->
  f_snd A0 = [] /\ f_rcv A0 = [] /\ f_mpg A0 = [] /\ n_timers (base A0) = [] /\ f_bam A0 = repeat true tp22_pool_bam ->
  f_snd B0 = [] /\ f_rcv B0 = [] /\ f_mpg B0 = [] /\ n_timers (base B0) = [] ->
  let pv := dp * 65536 + pf * 256 in
  let ns := ((length p + 59) / 60)%nat in
  let iv := f_bam_iv A0 in
  let s0 := net22_send (net22_0 A0 B0 t0) dp pf 255 prio sa p in
  wab2 s0 = [tp22_bam prio sa 0 pv (len p) (Z.of_nat ns)] /\ fclk s0 = t0 /\
  exists j, (pa (steps22 j s0) = [] /\ pb (steps22 j s0) = [] /\ f_snd (fa (steps22 j s0)) = [] /\ f_rcv (fb (steps22 j s0)) = [] /\
             evb2 (steps22 j s0) = deliveries (base B0) 7 pv sa addr_GLOBAL p) /\
    tlog22 j s0 = map (fun k => (t0 + Z.of_nat (S k) * iv,
                                 match dt_frame sa addr_GLOBAL 0 (Z.of_nat k + 1) (row p k) with
                                 | Some (fr, _) => fr | None => tp22_bam prio sa 0 pv (len p) (Z.of_nat ns) end)) (seq 0 ns)
                  ++ [(t0 + Z.of_nat (S ns) * iv, tp22_eom_status sa addr_GLOBAL 0 (len p) (Z.of_nat ns) pv)].
Proof.
  intros H1 H2 H3 H4 H5 H6 H7 H8 HA HB pv ns iv s0.
  pose proof (bam_closed_loop22_paced_any prio sa dp pf 255 p t0 A0 B0 H1 H2 (or_introl (conj H3 eq_refl)) H4 H5 H6 H7 H8 HA HB) as H.
  unfold bam_pgn22, dtfb, bam22 in H. assert ((pf <? 240) = true) as E by lia. rewrite E in H. exact H.
Qed.

Example bam_closed_loop22_pdu2_instance :
  let A := init_node22 3 None None in
  let B := sub22 (init_node22 2 None None) 7 FNone in
  let p := map Z.of_nat (seq 1 150) in
  let s := steps22 13 (net22_send (net22_0 A B 1000) 0 254 202 6 128 p) in
  quiet22 s = true /\ evb2 s = [OCb 7 7 65226 128 p] /\ length (wab2 s) = 5%nat /\ wba2 s = [].
Proof. vm_compute. repeat split. Qed.

Example bam_closed_loop22_instance :
  let A := init_node22 3 None None in
  let B := sub22 (init_node22 2 None None) 7 FNone in
  let p := map Z.of_nat (seq 1 150) in
  let s := steps22 13 (net22_send (net22_0 A B 1000) 0 239 255 6 128 p) in
  quiet22 s = true /\ evb2 s = [OCb 7 7 61184 128 p] /\ length (wab2 s) = 5%nat /\ wba2 s = [] /\
  fclk s = 1000 + 4 * f_bam_iv A /\ 2 * f_bam_iv A < tp22_T1.
Proof. vm_compute. repeat split. Qed.

Example bam_closed_loop22_times :
  let A := init_node22 3 None None in
  let B := sub22 (init_node22 2 None None) 7 FNone in
  let p := map Z.of_nat (seq 1 150) in
  map fst (tlog22 13 (net22_send (net22_0 A B 1000) 0 239 255 6 128 p)) = [1000 + f_bam_iv A; 1000 + 2 * f_bam_iv A; 1000 + 3 * f_bam_iv A; 1000 + 4 * f_bam_iv A].
Proof. vm_compute. reflexivity. Qed.

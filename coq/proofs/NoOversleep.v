(* NoOversleep.v — C06/C09/C12 (J1939-21): the job thread never sleeps past a deadline.
   The wake-up time one iteration of the job loop hands on is not later than the deadline of ANY session that is still
   in a table after the pass (receive sessions, send sessions: whatever their state) and of ANY registered timer: so
   every deadline is served by a pass that starts at most the scheduling latency after it. *)
From J1939 Require Import Base CodecGlue Model21.
From J1939.gen Require Import Codec Tp21Gen CaGen.
From J1939P Require Import CodecProofs Flat RobustProofs.
Local Arguments Z.add : simpl never.
Local Arguments Z.sub : simpl never.
Local Arguments Z.mul : simpl never.

(* predicates on resumptions that hold of a raise and are preserved by an emission (flat semantics) *)
Definition post (P : node -> Z -> Prop) (a : act node) : Prop :=
  match flat a with (n', _, RDone r) => P n' r | (_, _, RRaise _) => True end.
Lemma post_emit P s o k : post P (k s) -> post P (Emit s o k).
Proof. unfold post. cbn [flat]. destruct (flat (k s)) as [[s' os] r]. auto. Qed.
Lemma post_raise P s e : post P (Raise s e).
Proof. exact I. Qed.
Lemma post_done (P : node -> Z -> Prop) s r : P s r -> post P (Done s r).
Proof. intros H. exact H. Qed.

(* the part of the node the timer pass works on: registrations, the id counter, the wake-up tokens *)
Definition tm_part (n : node) := (n_timers n, n_nextid n, n_wakes n).

Definition minz (nw dl : Z) : Z := if nw >? dl then dl else nw.
Lemma minz_le_l nw dl : minz nw dl <= nw. Proof. unfold minz. destruct (nw >? dl) eqn:E; lia. Qed.
Lemma minz_le_r nw dl : minz nw dl <= dl. Proof. unfold minz. destruct (nw >? dl) eqn:E; lia. Qed.

(* ---------------------------------------------------------------- receive sessions *)
Lemma rcv_pass_cover P : forall keys now nw n k,
  NoDup keys -> tnodup (n_rcv n) ->
  (forall n' nw', nw' <= nw -> n_snd n' = n_snd n -> tm_part n' = tm_part n -> same_cfg n n' ->
     (forall key', ~ In key' keys -> tget (n_rcv n') key' = tget (n_rcv n) key') ->
     (forall key b, In key keys -> tget (n_rcv n') key = Some b -> r_deadline b <> 0 -> nw' <= r_deadline b) ->
     post P (k n' nw')) ->
  post P (rcv_pass keys now nw n k).
Proof.
  induction keys as [|key ks IH]; intros now nw n k Hnd Htn Hk; cbn [rcv_pass].
  - apply (Hk n nw ltac:(lia) eq_refl eq_refl); [split; reflexivity|intros; reflexivity|intros key b []].
  - inversion Hnd as [|? ? Hni Hnd']; subst.
    assert (Hskip : forall nw1, nw1 <= nw ->
              (forall b, tget (n_rcv n) key = Some b -> r_deadline b <> 0 -> nw1 <= r_deadline b) ->
              post P (rcv_pass ks now nw1 n k)).
    { intros nw1 Hle Hcov. apply IH; [exact Hnd'|exact Htn|]. intros n' nw' H1 H2 H3 H4 H5 H6.
      apply (Hk n' nw' ltac:(lia) H2 H3 H4).
      - intros key' Hn. apply H5. intro Hin. apply Hn. right. exact Hin.
      - intros key0 b [E|Hin] Hg Hd.
        + subst key0. rewrite (H5 key Hni) in Hg. specialize (Hcov b Hg Hd). lia.
        + apply (H6 key0 b Hin Hg Hd). }
    destruct (tget (n_rcv n) key) as [b|] eqn:G.
    2:{ apply Hskip; [lia|]. intros b0 Hb0. discriminate. }
    destruct (r_deadline b =? 0) eqn:E0.
    { apply Hskip; [lia|]. intros b0 Hb0 Hd. inversion Hb0; subst. lia. }
    destruct (r_deadline b >? now) eqn:E1.
    { apply Hskip; [apply minz_le_l|]. intros b0 Hb0 _. inversion Hb0; subst. apply minz_le_r. }
    (* timed out: removed (with an abort for a connection-mode session) *)
    assert (Hdel : post P (rcv_pass ks now nw (set_rcv n (tdel (n_rcv n) key)) k)).
    { apply IH; [exact Hnd'|cbn [n_rcv set_rcv]; apply tnodup_tdel; exact Htn|]. intros n' nw' H1 H2 H3 H4 H5 H6.
      apply (Hk n' nw' H1 H2 H3).
      - destruct H4 as [C1 C2]. split; assumption.
      - intros key' Hn. rewrite (H5 key') by (intro Hin; apply Hn; right; exact Hin).
        cbn [n_rcv set_rcv]. apply tget_tdel_other. intro E. apply Hn. left. exact E.
      - intros key0 b0 [E|Hin] Hg Hd.
        + subst key0. rewrite (H5 key Hni) in Hg. cbn [n_rcv set_rcv] in Hg.
          rewrite tget_tdel_same in Hg by exact Htn. discriminate.
        + apply (H6 key0 b0 Hin Hg Hd). }
    destruct (negb (r_dst b =? addr_GLOBAL)); [apply post_emit|]; exact Hdel.
Qed.

(* ---------------------------------------------------------------- send sessions *)
Lemma cts_burst_frame P key now : forall fuel n k,
  (forall n1, n_rcv n1 = n_rcv n -> tm_part n1 = tm_part n -> same_cfg n n1 ->
     (forall key', key' <> key -> tget (n_snd n1) key' = tget (n_snd n) key') ->
     (tnodup (n_snd n) -> tnodup (n_snd n1)) -> post P (k n1)) ->
  post P (cts_burst fuel key now n k).
Proof.
  induction fuel as [|f IH]; intros n k Hk; cbn [cts_burst]; [apply post_raise|].
  destruct (tget (n_snd n) key) as [b|]; [|apply post_raise].
  destruct (s_next b <? s_num b).
  2:{ apply Hk; try reflexivity; [split; reflexivity|auto]. }
  destruct (s_waitcts b) as [w|]; [|apply post_raise].
  match goal with |- context [let '(b', brk) := ?e in _] => destruct e as [b' brk] end.
  apply post_emit.
  assert (Hfr : forall key', key' <> key -> tget (n_snd (set_snd n (tset (n_snd n) key b'))) key' = tget (n_snd n) key').
  { intros key' Hne. cbn [n_snd set_snd]. apply tget_tset_other. intro E. apply Hne. symmetry. exact E. }
  destruct brk.
  - apply Hk; try reflexivity; [split; reflexivity|exact Hfr|]. intros Ht. cbn [n_snd set_snd]. apply tnodup_tset. exact Ht.
  - apply IH. intros n1 H1 H2 H3 H4 H5. apply Hk.
    + rewrite H1. reflexivity.
    + rewrite H2. reflexivity.
    + destruct H3 as [C1 C2]. split; [rewrite C1|rewrite C2]; reflexivity.
    + intros key' Hne. rewrite (H4 key' Hne). apply Hfr. exact Hne.
    + intros Ht. apply H5. cbn [n_snd set_snd]. apply tnodup_tset. exact Ht.
Qed.

Lemma snd_pass_cover P : forall keys now nw n k,
  NoDup keys -> tnodup (n_snd n) ->
  (forall n' nw', nw' <= nw -> n_rcv n' = n_rcv n -> tm_part n' = tm_part n -> same_cfg n n' ->
     (forall key', ~ In key' keys -> tget (n_snd n') key' = tget (n_snd n) key') ->
     (forall key b, In key keys -> tget (n_snd n') key = Some b -> s_deadline b <> 0 -> nw' <= s_deadline b) ->
     post P (k n' nw')) ->
  post P (snd_pass keys now nw n k).
Proof.
  induction keys as [|key ks IH]; intros now nw n k Hnd Htn Hk; cbn [snd_pass].
  - apply (Hk n nw ltac:(lia) eq_refl eq_refl); [split; reflexivity|intros; reflexivity|intros key b []].
  - inversion Hnd as [|? ? Hni Hnd']; subst.
    destruct (tget (n_snd n) key) as [b|] eqn:G; [|apply post_raise].
    (* go on with the rest from a state n1 in which only [key] may differ and the session at [key], if any, is covered by nw1 *)
    assert (Hnext : forall n1 nw1, nw1 <= nw -> n_rcv n1 = n_rcv n -> tm_part n1 = tm_part n -> same_cfg n n1 ->
              (forall key', key' <> key -> tget (n_snd n1) key' = tget (n_snd n) key') -> tnodup (n_snd n1) ->
              (forall b1, tget (n_snd n1) key = Some b1 -> s_deadline b1 <> 0 -> nw1 <= s_deadline b1) ->
              post P (snd_pass ks now nw1 n1 k)).
    { intros n1 nw1 Hle R1 T1 C1 F1 N1 Cov. apply IH; [exact Hnd'|exact N1|].
      intros n' nw' H1 H2 H3 H4 H5 H6.
      apply (Hk n' nw' ltac:(lia)).
      - rewrite H2. exact R1.
      - rewrite H3. exact T1.
      - destruct C1 as [A1 A2]. destruct H4 as [B1 B2]. split; [rewrite B1|rewrite B2]; assumption.
      - intros key' Hn. rewrite (H5 key') by (intro Hin; apply Hn; right; exact Hin).
        apply F1. intro E. apply Hn. left. symmetry. exact E.
      - intros key0 b0 [E|Hin] Hg Hd.
        + subst key0. rewrite (H5 key Hni) in Hg. specialize (Cov b0 Hg Hd). lia.
        + apply (H6 key0 b0 Hin Hg Hd). }
    assert (Hsame : forall nw1, nw1 <= nw -> (s_deadline b <> 0 -> nw1 <= s_deadline b) -> post P (snd_pass ks now nw1 n k)).
    { intros nw1 Hle Hc. apply Hnext; try reflexivity; try assumption; [split; reflexivity|].
      intros b1 Hb1 Hd. rewrite G in Hb1. inversion Hb1; subst. apply Hc. exact Hd. }
    assert (Hdel : forall n1, n_rcv n1 = n_rcv n -> tm_part n1 = tm_part n -> same_cfg n n1 ->
              (forall key', tget (n_snd n1) key' = tget (n_snd n) key') -> tnodup (n_snd n1) ->
              post P (if tmem (n_snd n1) key then snd_pass ks now nw (set_snd n1 (tdel (n_snd n1) key)) k else Raise n1 E_Key)).
    { intros n1 R1 T1 C1 F1 N1. destruct (tmem (n_snd n1) key); [|apply post_raise].
      apply Hnext; try assumption; try lia.
      - intros key' Hne. cbn [n_snd set_snd]. rewrite tget_tdel_other by (intro E; apply Hne; symmetry; exact E). apply F1.
      - cbn [n_snd set_snd]. apply tnodup_tdel. exact N1.
      - intros b1 Hb1. cbn [n_snd set_snd] in Hb1. rewrite tget_tdel_same in Hb1 by exact N1. discriminate. }
    destruct (s_deadline b =? 0) eqn:E0; [apply Hsame; [lia|intros; lia]|].
    destruct (s_deadline b >? now) eqn:E1; [apply Hsame; [apply minz_le_l|intros; apply minz_le_r]|].
    destruct (s_state b =? ST_WAITING_CTS).
    { apply post_emit. apply Hdel; try reflexivity; [split; reflexivity|exact Htn]. }
    destruct (s_state b =? ST_SENDING_IN_CTS).
    { apply cts_burst_frame. intros n1 R1 T1 C1 F1 N1.
      destruct (tget (n_snd n1) key) as [b1|] eqn:G1; [|apply post_raise].
      match goal with |- context [snd_pass ks now ?nwx (set_snd n1 (tset (n_snd n1) key ?b2)) k] =>
        apply (Hnext (set_snd n1 (tset (n_snd n1) key b2)) nwx) end.
      - apply minz_le_l.
      - exact R1.
      - exact T1.
      - destruct C1 as [A1 A2]. split; assumption.
      - intros key' Hne. cbn [n_snd set_snd]. rewrite tget_tset_other by (intro E; apply Hne; symmetry; exact E). apply F1. exact Hne.
      - cbn [n_snd set_snd]. apply tnodup_tset. apply N1. exact Htn.
      - intros b3 Hb3 _. cbn [n_snd set_snd] in Hb3. rewrite tget_tset_same in Hb3. inversion Hb3; subst. apply minz_le_r. }
    destruct (s_state b =? ST_SENDING_BM).
    { destruct (s_next b + 1 <? s_num b).
      - apply post_emit.
        match goal with |- context [snd_pass ks now ?nwx (set_snd n (tset (n_snd n) key ?b2)) k] =>
          apply (Hnext (set_snd n (tset (n_snd n) key b2)) nwx) end; try reflexivity.
        + apply minz_le_l.
        + split; reflexivity.
        + intros key' Hne. cbn [n_snd set_snd]. apply tget_tset_other. intro E. apply Hne. symmetry. exact E.
        + cbn [n_snd set_snd]. apply tnodup_tset. exact Htn.
        + intros b3 Hb3 _. cbn [n_snd set_snd] in Hb3. rewrite tget_tset_same in Hb3. inversion Hb3; subst. apply minz_le_r.
      - apply post_emit. apply Hnext; try reflexivity; try lia.
        + split; reflexivity.
        + intros key' Hne. cbn [n_snd set_snd]. apply tget_tdel_other. intro E. apply Hne. symmetry. exact E.
        + cbn [n_snd set_snd]. apply tnodup_tdel. exact Htn.
        + intros b3 Hb3. cbn [n_snd set_snd] in Hb3. rewrite tget_tdel_same in Hb3 by exact Htn. discriminate. }
    apply Hnext; try reflexivity; try lia.
    + split; reflexivity.
    + intros key' Hne. cbn [n_snd set_snd]. apply tget_tdel_other. intro E. apply Hne. symmetry. exact E.
    + cbn [n_snd set_snd]. apply tnodup_tdel. exact Htn.
    + intros b3 Hb3. cbn [n_snd set_snd] in Hb3. rewrite tget_tdel_same in Hb3 by exact Htn. discriminate.
Qed.

(* ---------------------------------------------------------------- the transport pass *)
Definition rcv_covered (n : node) (nw : Z) : Prop :=
  forall key b, tget (n_rcv n) key = Some b -> r_deadline b <> 0 -> nw <= r_deadline b.
Definition snd_covered (n : node) (nw : Z) : Prop :=
  forall key b, tget (n_snd n) key = Some b -> s_deadline b <> 0 -> nw <= s_deadline b.

Lemma tget_in_keys {V} (t : tbl V) key v : tget t key = Some v -> In key (tkeys t).
Proof.
  unfold tkeys. induction t as [|[k0 v0] r IH]; cbn [tget map fst]; [discriminate|].
  destruct (k0 =? key) eqn:E; [intros _; left; lia|intros H; right; apply IH; exact H].
Qed.

(* T06.3 / T09.4: after one pass of the transport layer the wake-up time handed on is not later than the deadline of ANY
   receive or send session still open — whatever state it is in, whatever the pass did (time-outs, bursts, BAM packets) *)
Theorem dll_job_never_oversleeps P n now k :
  tnodup (n_rcv n) -> tnodup (n_snd n) ->
  (forall n' nw', nw' <= now + 5000000 -> tm_part n' = tm_part n -> rcv_covered n' nw' -> snd_covered n' nw' -> post P (k n' nw')) ->
  post P (dll_job n now k).
Proof.
  intros Hr Hs Hk. unfold dll_job.
  apply rcv_pass_cover; [exact Hr|exact Hr|].
  intros n1 nw1 L1 S1 T1 C1 F1 V1.
  apply snd_pass_cover; [unfold tnodup in Hs; rewrite S1; exact Hs|rewrite S1; exact Hs|].
  intros n2 nw2 L2 R2 T2 C2 F2 V2.
  apply Hk; [lia|rewrite T2; exact T1| |].
  - intros key b Hg Hd. rewrite R2 in Hg. pose proof (tget_in_keys _ _ _ Hg) as Hin.
    destruct (In_dec Z.eq_dec key (tkeys (n_rcv n))) as [Hi|Hni].
    + specialize (V1 key b Hi Hg Hd). lia.
    + rewrite (F1 key Hni) in Hg. exfalso. apply Hni. apply (tget_in_keys _ _ _ Hg).
  - intros key b Hg Hd.
    destruct (In_dec Z.eq_dec key (tkeys (n_snd n1))) as [Hi|Hni].
    + apply (V2 key b Hi Hg Hd).
    + rewrite (F2 key Hni) in Hg. exfalso. apply Hni. apply (tget_in_keys _ _ _ Hg).
Qed.

(* the same, read off the flat run of the pass itself (continuation = return the wake-up time) *)
Corollary dll_job_wakeup_covers_every_deadline n now :
  tnodup (n_rcv n) -> tnodup (n_snd n) ->
  match flat (dll_job n now (fun n' nw' => Done n' nw')) with
  | (n', _, RDone nw') => nw' <= now + 5000000 /\ tm_part n' = tm_part n /\ rcv_covered n' nw' /\ snd_covered n' nw'
  | (_, _, RRaise _) => True
  end.
Proof.
  intros Hr Hs.
  apply (dll_job_never_oversleeps
           (fun n' nw' => nw' <= now + 5000000 /\ tm_part n' = tm_part n /\ rcv_covered n' nw' /\ snd_covered n' nw') n now
           (fun n' nw' => Done n' nw') Hr Hs).
  intros n' nw' L T R S. apply post_done. repeat split; try assumption.
Qed.

(* RobustProofs.v — C07 (J1939-21): the job pass over ANY session tables makes progress: it hands on a
   wake-up time strictly in the future (no busy spin), whatever frames created those sessions. *)
From J1939 Require Import Base CodecGlue Model21.
From J1939.gen Require Import Codec Tp21Gen CaGen.
From J1939P Require Import CodecProofs Flat.

(* a resumption is fine if, run to its end without interference, it either raises or returns r > 0 *)
Definition good (a : act node) : Prop := match fres a with RDone r => 0 < r | RRaise _ => True end.

Lemma good_emit s o k : good (k s) -> good (Emit s o k).
Proof. unfold good, fres. cbn [flat]. destruct (flat (k s)) as [[s' os] r]. auto. Qed.
Lemma good_raise s e : good (Raise s e).
Proof. exact I. Qed.

Definition cfg_ok (n : node) : Prop :=
  0 < n_bam_iv n /\ (forall iv, n_cmdt_iv n = Some iv -> 0 < iv).
Definition same_cfg (n n' : node) : Prop := n_bam_iv n' = n_bam_iv n /\ n_cmdt_iv n' = n_cmdt_iv n.

Lemma T3_pos : 0 < tp21_T3. Proof. reflexivity. Qed.

(* ---------------------------------------------------------------- receive sessions *)
Lemma rcv_pass_progress : forall keys now nw n k,
  now < nw ->
  (forall n' nw', now < nw' -> same_cfg n n' -> n_snd n' = n_snd n -> good (k n' nw')) ->
  good (rcv_pass keys now nw n k).
Proof.
  induction keys as [|key ks IH]; intros now nw n k Hnw Hk; cbn [rcv_pass].
  - apply Hk; [exact Hnw|split; reflexivity|reflexivity].
  - destruct (tget (n_rcv n) key) as [b|]; [|apply IH; assumption].
    destruct (r_deadline b =? 0); [apply IH; assumption|].
    destruct (r_deadline b >? now) eqn:E.
    + apply IH; [destruct (nw >? r_deadline b); lia|exact Hk].
    + destruct (negb (r_dst b =? addr_GLOBAL)).
      * apply good_emit. apply IH; [exact Hnw|].
        intros n' nw' H1 H2 H3. apply Hk; [exact H1|exact H2|exact H3].
      * apply IH; [exact Hnw|].
        intros n' nw' H1 H2 H3. apply Hk; [exact H1|exact H2|exact H3].
Qed.

(* ---------------------------------------------------------------- the burst loop *)
Definition burst_post (key now : Z) (n0 n1 : node) : Prop :=
  same_cfg n0 n1 /\
  exists b1, tget (n_snd n1) key = Some b1 /\
             (now < s_deadline b1 \/ (s_state b1 = ST_SENDING_IN_CTS /\ s_next b1 >= s_num b1)).

Lemma cts_burst_progress key now : forall fuel n k,
  cfg_ok n ->
  (forall b, tget (n_snd n) key = Some b -> s_state b = ST_SENDING_IN_CTS) ->
  (forall n1, burst_post key now n n1 -> good (k n1)) ->
  good (cts_burst fuel key now n k).
Proof.
  induction fuel as [|f IH]; intros n k Hcfg Hst Hk; cbn [cts_burst]; [apply good_raise|].
  destruct (tget (n_snd n) key) as [b|] eqn:Hget; [|apply good_raise].
  destruct (s_next b <? s_num b) eqn:Hlt.
  - destruct (s_waitcts b) as [w|]; [|apply good_raise].
    destruct (s_next b =? w).
    + (* last packet of the window: WAITING_CTS with T3 *)
      apply good_emit. apply Hk. split; [split; reflexivity|].
      eexists. cbn [n_snd set_snd]. rewrite tget_tset_same. split; [reflexivity|].
      left. cbn [upd_sbuf s_deadline]. pose proof T3_pos. lia.
    + destruct (n_cmdt_iv n) as [iv|] eqn:Eiv.
      * (* paced: deadline now + iv *)
        apply good_emit. apply Hk. split; [split; reflexivity|].
        eexists. cbn [n_snd set_snd]. rewrite tget_tset_same. split; [reflexivity|].
        left. cbn [upd_sbuf s_deadline]. destruct Hcfg as [_ Hiv]. specialize (Hiv iv Eiv). lia.
      * (* next packet at once *)
        apply good_emit. apply IH.
        -- destruct Hcfg as [H1 H2]. split; [exact H1|]. cbn [n_cmdt_iv set_snd]. exact H2.
        -- intros b' Hb'. cbn [n_snd set_snd] in Hb'. rewrite tget_tset_same in Hb'. inversion Hb'; subst.
           cbn [upd_sbuf s_state]. apply Hst. reflexivity.
        -- intros n1 (Hc & b1 & Hb1 & Hp). apply Hk. split.
           ++ destruct Hc as [C1 C2]. split; [exact C1|exact C2].
           ++ exists b1. split; assumption.
  - (* nothing (left) to send *)
    apply Hk. split; [split; reflexivity|]. exists b. split; [exact Hget|].
    right. split; [apply Hst; reflexivity|lia].
Qed.

(* ---------------------------------------------------------------- send sessions *)
Lemma snd_pass_progress : forall keys now nw n k,
  now < nw -> cfg_ok n ->
  (forall n' nw', now < nw' -> good (k n' nw')) ->
  good (snd_pass keys now nw n k).
Proof.
  induction keys as [|key ks IH]; intros now nw n k Hnw Hcfg Hk; cbn [snd_pass].
  - apply Hk. exact Hnw.
  - destruct (tget (n_snd n) key) as [b|] eqn:Hget; [|apply good_raise].
    destruct (s_deadline b =? 0); [apply IH; assumption|].
    destruct (s_deadline b >? now) eqn:E.
    + apply IH; [destruct (nw >? s_deadline b); lia|exact Hcfg|exact Hk].
    + destruct (s_state b =? ST_WAITING_CTS) eqn:E0.
      * apply good_emit. rewrite (tmem_get _ _ _ Hget). apply IH; [exact Hnw|exact Hcfg|exact Hk].
      * destruct (s_state b =? ST_SENDING_IN_CTS) eqn:E1.
        -- apply cts_burst_progress; [exact Hcfg| |].
           ++ intros b' Hb'. rewrite Hget in Hb'. inversion Hb'; subst. lia.
           ++ intros n1 ((C1 & C2) & b1 & Hb1 & Hp). rewrite Hb1.
              apply IH.
              ** (* the wake-up time handed on stays in the future: the session was re-armed or repaired *)
                 destruct Hp as [Hd|[Hs Hn]].
                 --- destruct ((s_state b1 =? ST_SENDING_IN_CTS) && (s_next b1 >=? s_num b1)).
                     +++ cbn [upd_sbuf s_deadline]. pose proof T3_pos. destruct (nw >? now + tp21_T3); lia.
                     +++ destruct (nw >? s_deadline b1); lia.
                 --- assert ((s_state b1 =? ST_SENDING_IN_CTS) && (s_next b1 >=? s_num b1) = true) as -> by lia.
                     cbn [upd_sbuf s_deadline]. pose proof T3_pos. destruct (nw >? now + tp21_T3); lia.
              ** destruct Hcfg as [H1 H2]. split; cbn [n_bam_iv n_cmdt_iv set_snd]; [rewrite C1; exact H1|rewrite C2; exact H2].
              ** exact Hk.
        -- destruct (s_state b =? ST_SENDING_BM) eqn:E2.
           ++ destruct (s_next b + 1 <? s_num b).
              ** apply good_emit. apply IH; [|exact Hcfg|exact Hk].
                 cbn [upd_sbuf s_deadline]. destruct Hcfg as [Hb _].
                 destruct (nw >? now + n_bam_iv n); lia.
              ** apply good_emit. apply IH; [exact Hnw|exact Hcfg|exact Hk].
           ++ apply IH; [exact Hnw|exact Hcfg|exact Hk].
Qed.

(* T07.3: one pass of the transport layer over ANY receive and send tables, at ANY instant, returns a
   wake-up time strictly later than that instant (or raises): iterating the job loop cannot spin *)
Theorem dll_job_progress n now k :
  cfg_ok n ->
  (forall n' nw', now < nw' -> good (k n' nw')) ->
  good (dll_job n now k).
Proof.
  intros Hcfg Hk. unfold dll_job.
  apply rcv_pass_progress; [lia|].
  intros n' nw' Hnw (C1 & C2) Hs.
  apply snd_pass_progress; [exact Hnw| |exact Hk].
  destruct Hcfg as [H1 H2]. split; [rewrite C1; exact H1|rewrite C2; exact H2].
Qed.

Corollary dll_job_never_spins n now :
  cfg_ok n -> good (dll_job n now (fun n' nw' => Done n' (nw' - now))).
Proof.
  intros Hcfg. apply dll_job_progress; [exact Hcfg|].
  intros n' nw' H. unfold good, fres. cbn. lia.
Qed.

(* the configuration built by the ECU constructor with default / positive intervals is ok *)
Lemma init_cfg_ok maxp civ biv :
  (forall v, civ = Some v -> 0 < v) -> (forall v, biv = Some v -> 0 < v) -> cfg_ok (init_node maxp civ biv).
Proof.
  intros H1 H2. unfold cfg_ok, init_node. cbn. split; [|exact H1].
  destruct biv as [v|]; [apply H2; reflexivity|reflexivity].
Qed.

(* non-vacuity: the state that used to spin (CTS after the last packet) is handled *)
Example d7_state_progress :
  let b := {| s_pgn := 53248; s_prio := 6; s_size := 20; s_num := 3; s_data := repeat 1 20; s_state := ST_SENDING_IN_CTS;
              s_deadline := 5000; s_src := 16; s_dst := 32; s_next := 3; s_waitcts := Some 3; s_nb := 0 |} in
  let n := set_snd (init_node 8 None None) [(tp21_hash 16 32, b)] in
  fres (dll_job n 6000 (fun n' nw' => Done n' (nw' - 6000))) = RDone 1250000.
Proof. vm_compute. reflexivity. Qed.

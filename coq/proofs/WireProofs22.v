(* WireProofs22.v — C03 (J1939-22): the generated FD frame builders equal the independent SAE layouts of Sae22.v; the
   generated field extractions applied to SAE-encoded frames return the encoded fields; the frames the closed loop puts
   on the wire are decoded and reassembled by the independent receiver of Sae22.v to exactly the message. *)
From J1939 Require Import Base CodecGlue Model21 Model22 Sae21 Sae22.
From J1939.gen Require Import Codec Tp21Gen CaGen Tp22Gen.
From J1939P Require Import CodecProofs Flat MpgProofs Tp21Seg Tp21Resp Tp21Orig WireProofs Net22Proofs.
Local Arguments Z.add : simpl never.
Local Arguments Z.sub : simpl never.
Local Arguments Z.mul : simpl never.

Lemma fd_cm_id prio da sa : 0 <= prio < 8 -> 0 <= da < 256 -> 0 <= sa < 256 ->
  mid_can_id_of prio (pgn_value_of 0 (Z.land (Z.shiftr 19712 8) 255) da) sa = sae_id prio (sae_fd_cm_pgn da) sa.
Proof.
  intros. change (Z.land (Z.shiftr 19712 8) 255) with 77. rewrite id_of_spec by lia. unfold sae_fd_cm_pgn. f_equal; try lia.
Qed.
Lemma fd_dt_id da sa : 0 <= da < 256 -> 0 <= sa < 256 -> tp22_dt_id sa da = sae_id 7 (sae_fd_dt_pgn da) sa.
Proof.
  intros. unfold tp22_dt_id. change (Z.land (Z.shiftr 19968 8) 255) with 78. rewrite id_of_spec by lia.
  unfold sae_fd_dt_pgn. f_equal; try lia.
Qed.

Lemma first_byte c s : 0 <= c < 16 -> 0 <= s < 16 -> Z.lor (Z.land c 15) (Z.shiftl (Z.land s 15) 4) = c + 16 * s.
Proof.
  intros Hc Hs. rewrite !land_15, shiftl_mul by lia. rewrite !Z.mod_small by lia. rewrite Z.lor_comm.
  replace (s * 2 ^ 4) with (s * 16) by (pow2_norm; lia).
  rewrite (lor_add_low (s * 16) c 4); [lia|lia|apply Z.mod_mul; lia|lia].
Qed.

(* the general control frame *)
Lemma cm22_is_layout sa da ctl s size nseg b7 b8 pgn prio :
  0 <= prio < 8 -> 0 <= da < 256 -> 0 <= sa < 256 -> 0 <= ctl < 16 -> 0 <= s < 16 ->
  tp22_cm sa da ctl s size nseg b7 b8 pgn prio =
  {| f_id := sae_id prio (sae_fd_cm_pgn da) sa; f_ext := true; f_fd := true;
     f_data := [ctl + 16 * s] ++ le3 size ++ le3 nseg ++ [b7 mod 256; b8 mod 256] ++ le3 pgn |}.
Proof.
  intros. unfold tp22_cm. rewrite fd_cm_id by lia. rewrite first_byte by lia. f_equal.
  pose proof (pgn3 pgn) as E1. pose proof (pgn3 size) as E2. pose proof (pgn3 nseg) as E3. unfold le3 in *.
  inversion E1. inversion E2. inversion E3. cbn [app].
  rewrite (land_255 b7), (land_255 b8). reflexivity.
Qed.

(* T03.1 (FD): every builder = the independent encoder *)
Theorem fd_rts_is_spec prio sa da s pgn size nseg limit :
  0 <= prio < 8 -> 0 <= da < 256 -> 0 <= sa < 256 -> 0 <= s < 16 -> 0 <= limit < 256 ->
  tp22_rts prio sa da s pgn size nseg limit =
  {| f_id := sae_id prio (sae_fd_cm_pgn da) sa; f_ext := true; f_fd := true; f_data := enc_cm22 (RTS22 s size nseg limit pgn) |}.
Proof. intros. unfold tp22_rts. rewrite cm22_is_layout by lia. rewrite (Z.mod_small limit) by lia. reflexivity. Qed.
Theorem fd_cts_is_spec sa da s count next pgn :
  0 <= da < 256 -> 0 <= sa < 256 -> 0 <= s < 16 -> 0 <= count < 256 ->
  tp22_cts sa da s count next pgn =
  {| f_id := sae_id 7 (sae_fd_cm_pgn da) sa; f_ext := true; f_fd := true; f_data := enc_cm22 (CTS22 s next count pgn) |}.
Proof. intros. unfold tp22_cts. rewrite cm22_is_layout by lia. rewrite (Z.mod_small count) by lia. reflexivity. Qed.
Theorem fd_eom_status_is_spec sa da s size nseg pgn :
  0 <= da < 256 -> 0 <= sa < 256 -> 0 <= s < 16 ->
  tp22_eom_status sa da s size nseg pgn =
  {| f_id := sae_id 7 (sae_fd_cm_pgn da) sa; f_ext := true; f_fd := true; f_data := enc_cm22 (EOMS22 s size nseg pgn) |}.
Proof. intros. unfold tp22_eom_status. rewrite cm22_is_layout by lia. reflexivity. Qed.
Theorem fd_eom_ack_is_spec sa da s size nseg pgn :
  0 <= da < 256 -> 0 <= sa < 256 -> 0 <= s < 16 ->
  tp22_eom_ack sa da s size nseg pgn =
  {| f_id := sae_id 7 (sae_fd_cm_pgn da) sa; f_ext := true; f_fd := true; f_data := enc_cm22 (EOMA22 s size nseg pgn) |}.
Proof. intros. unfold tp22_eom_ack. rewrite cm22_is_layout by lia. reflexivity. Qed.
Theorem fd_bam_is_spec prio sa s pgn size nseg :
  0 <= prio < 8 -> 0 <= sa < 256 -> 0 <= s < 16 ->
  tp22_bam prio sa s pgn size nseg =
  {| f_id := sae_id prio (sae_fd_cm_pgn 255) sa; f_ext := true; f_fd := true; f_data := enc_cm22 (BAM22 s size nseg pgn) |}.
Proof. intros. unfold tp22_bam. rewrite cm22_is_layout by lia. reflexivity. Qed.
Theorem fd_abort_is_spec sa da s reason pgn :
  0 <= da < 256 -> 0 <= sa < 256 -> 0 <= s < 16 -> 0 <= reason < 256 ->
  tp22_abort sa da s reason pgn =
  {| f_id := sae_id 7 (sae_fd_cm_pgn da) sa; f_ext := true; f_fd := true; f_data := enc_cm22 (ABORT22 s reason pgn) |}.
Proof. intros. unfold tp22_abort. rewrite cm22_is_layout by lia. rewrite (Z.mod_small reason) by lia. reflexivity. Qed.

(* the generated length table is "the least legal CAN FD length that fits" of the independent statement (finite) *)
Lemma lut_is_fit_sweep : forallb (fun i => match fd_len i with Some v => v =? fd_fit (Z.of_nat i) | None => false end) (seq 0 65) = true.
Proof. vm_compute. reflexivity. Qed.
Lemma fd_len_is_fit (i : nat) : (i <= 64)%nat -> fd_len i = Some (fd_fit (Z.of_nat i)).
Proof.
  intros Hi. pose proof lut_is_fit_sweep as S. rewrite forallb_forall in S.
  specialize (S i ltac:(apply in_seq; lia)). destruct (fd_len i) as [v|]; [|discriminate].
  apply Z.eqb_eq in S. congruence.
Qed.
Lemma fd_fit_ge n : 0 <= n <= 64 -> n <= fd_fit n <= 64.
Proof.
  intros H. unfold fd_fit.
  repeat match goal with |- context [if ?c then _ else _] => destruct c eqn:?; [lia|] end. lia.
Qed.

(* T03.1 (FD data frames): session nibble, 24-bit 1-based segment number, the data, 0xFF up to the next legal length *)
Theorem fd_dt_is_spec sa da s k seg :
  0 <= da < 256 -> 0 <= sa < 256 -> 0 <= s < 16 -> (length seg <= 60)%nat ->
  exists seg', dt_frame sa da s k seg =
    Some ({| f_id := sae_id 7 (sae_fd_dt_pgn da) sa; f_ext := true; f_fd := true; f_data := enc_dt22 s k seg |}, seg').
Proof.
  intros Hd Hs Hn Hl. unfold dt_frame. rewrite fd_dt_id by lia.
  assert (Eh : tp22_dt_header s k 0 = [16 * s] ++ le3 k).
  { unfold tp22_dt_header. pose proof (first_byte 0 s ltac:(lia) Hn) as E0. rewrite E0.
    pose proof (pgn3 k) as E1. unfold le3 in *. inversion E1. cbn [app]. f_equal; lia. }
  rewrite Eh. unfold enc_dt22. set (body := ([16 * s] ++ le3 k) ++ seg).
  replace ([16 * s] ++ le3 k ++ seg) with body by (unfold body; rewrite <- app_assoc; reflexivity).
  assert (Lb : length body = (4 + length seg)%nat) by (unfold body; rewrite app_length; reflexivity).
  change (tp22_TP + 4) with 64.
  destruct (Z.of_nat (length body) >=? 64) eqn:G.
  - assert (length body = 64%nat) by lia. eexists. f_equal. f_equal. f_equal.
    change (Z.to_nat 64) with 64%nat. rewrite firstn_all2 by lia.
    replace (fd_fit (Z.of_nat (length body))) with 64 by (rewrite H; reflexivity).
    replace (Z.to_nat 64 - length body)%nat with 0%nat by lia. cbn [repeat]. rewrite app_nil_r. reflexivity.
  - rewrite fd_len_is_fit by lia.
    pose proof (fd_fit_ge (Z.of_nat (length body)) ltac:(lia)) as F.
    assert (E : (fd_fit (Z.of_nat (length body)) <? 0) = false) by lia. rewrite E.
    eexists. reflexivity.
Qed.

(* T03.2 (FD): the stack's field extraction reads back what the independent encoder wrote *)
Theorem fd_extraction_of_spec_frames m :
  cm22_wf m ->
  let d := enc_cm22 m in
  length d = 12%nat /\
  match m with
  | RTS22 s sz n l p => tp22_cm_control_byte d = tp22_ctl_RTS /\ tp22_cm_session_num d = s /\ tp22_cm_message_size d = sz /\
                        tp22_cm_segment_num d = n /\ byte_at d 7 = l /\ tp22_cm_pgn d = p
  | CTS22 s x c p => tp22_cm_control_byte d = tp22_ctl_CTS /\ tp22_cm_session_num d = s /\ tp22_cm_segment_num d = x /\
                     byte_at d 7 = c /\ tp22_cm_pgn d = p
  | EOMS22 s sz n p => tp22_cm_control_byte d = tp22_ctl_EOM_STATUS /\ tp22_cm_session_num d = s /\
                       tp22_cm_message_size d = sz /\ tp22_cm_segment_num d = n /\ tp22_cm_pgn d = p
  | EOMA22 s sz n p => tp22_cm_control_byte d = tp22_ctl_EOM_ACK /\ tp22_cm_session_num d = s /\
                       tp22_cm_message_size d = sz /\ tp22_cm_segment_num d = n /\ tp22_cm_pgn d = p
  | BAM22 s sz n p => tp22_cm_control_byte d = tp22_ctl_BAM /\ tp22_cm_session_num d = s /\
                      tp22_cm_message_size d = sz /\ tp22_cm_segment_num d = n /\ tp22_cm_pgn d = p
  | ABORT22 s r p => tp22_cm_control_byte d = tp22_ctl_ABORT /\ tp22_cm_session_num d = s /\ byte_at d 8 = r /\
                     tp22_cm_pgn d = p
  end.
Proof.
  destruct m; cbn [cm22_wf enc_cm22]; unfold le3, r24; cbn [app]; intros H; cbv zeta; (split; [reflexivity|]);
    unfold tp22_cm_control_byte, tp22_cm_session_num, tp22_cm_message_size, tp22_cm_segment_num, tp22_cm_pgn, byte_at,
      tp22_ctl_RTS, tp22_ctl_CTS, tp22_ctl_EOM_STATUS, tp22_ctl_EOM_ACK, tp22_ctl_BAM, tp22_ctl_ABORT;
    cbn [nth]; rewrite ?land_15, ?land_255, ?shiftr_div by lia; pow2_norm; rewrite ?Z.mod_mod by lia;
    repeat split; try reflexivity; try (apply le24; lia); try lia.
Qed.

Theorem fd_dt_extraction_of_spec_frames s k seg :
  0 <= s < 16 -> r24 k ->
  let d := enc_dt22 s k seg in
  tp22_dt_dtfi d = 0 /\ tp22_dt_session_num d = s /\ tp22_dt_segment_num d = k.
Proof.
  intros Hs Hk. unfold r24 in Hk. unfold enc_dt22. cbn [le3 app]. cbv zeta.
  unfold tp22_dt_dtfi, tp22_dt_session_num, tp22_dt_segment_num, byte_at. cbn [nth].
  rewrite ?land_15, ?land_255, ?shiftr_div by lia. pow2_norm. rewrite ?Z.mod_mod by lia.
  repeat split; try lia. apply le24. lia.
Qed.

(* ---------------------------------------------------------------- the independent receiver on the stack's data frames *)
Lemma enc_dt22_full s k seg : length seg = 60%nat -> enc_dt22 s k seg = [16 * s] ++ le3 k ++ seg.
Proof.
  intros H. unfold enc_dt22. cbn [le3 app length]. rewrite H. cbn [repeat Nat.sub app].
  change (Z.to_nat (fd_fit (Z.of_nat 64)) - 64)%nat with 0%nat. cbn [repeat]. rewrite app_nil_r. reflexivity.
Qed.

Lemma collect22_rows s p : 0 <= s < 16 -> forall m j,
  (60 * (j + m) < length p + 60)%nat -> (length p <= 60 * (j + m))%nat -> Z.of_nat (j + m) < 16777216 ->
  exists pad, collect22 s (Z.of_nat j + 1) (map (fun k => enc_dt22 s (Z.of_nat k + 1) (row p k)) (seq j m)) =
              Some (skipn (60 * j) p ++ pad).
Proof.
  intros Hs. induction m as [|m IH]; intros j H1 H2 H3.
  - exists []. cbn [seq map collect22]. rewrite skipn_all2 by lia. reflexivity.
  - cbn [seq map collect22].
    destruct (dec_enc_dt22 s (Z.of_nat j + 1) (row p j) Hs ltac:(unfold r24; lia)) as (pad & E & _). rewrite E.
    rewrite !Z.eqb_refl. cbn [andb].
    replace (Z.of_nat j + 1 + 1) with (Z.of_nat (S j) + 1) by lia.
    destruct m as [|m'].
    + cbn [seq map collect22]. exists pad. rewrite app_nil_r. f_equal. f_equal.
      unfold row. apply firstn_all2. rewrite skipn_length. lia.
    + destruct (IH (S j) ltac:(lia) ltac:(lia) ltac:(lia)) as (pad2 & E2). rewrite E2.
      (* a full row carries no padding *)
      assert (L : length (row p j) = 60%nat) by (apply row_len_full; lia).
      rewrite enc_dt22_full in E by exact L. cbn [le3 app dec_dt22] in E. injection E as _ _ _ Epad.
      exists pad2. f_equal. rewrite <- Epad. rewrite app_assoc. f_equal.
      unfold row. replace (60 * S j)%nat with (60 * j + 60)%nat by lia. rewrite <- skipn_add. apply firstn_skipn.
Qed.

(* T03.4 (FD): what the independent receiver makes of the data frames the stack emits for p *)
Theorem fd_data_frames_reassemble s p :
  0 <= s < 16 -> (0 < length p)%nat -> Z.of_nat (length p) < 16777216 ->
  let ns := ((length p + 59) / 60)%nat in
  reassemble22 s (len p) (map (fun k => enc_dt22 s (Z.of_nat k + 1) (row p k)) (seq 0 ns)) = Some p.
Proof.
  intros Hs Hp Hl ns. unfold reassemble22.
  destruct (collect22_rows s p Hs ns 0%nat) as (pad & E); try (unfold ns; lia).
  change (Z.of_nat 0 + 1) with 1 in E. replace (60 * 0)%nat with 0%nat in E by lia. cbn [skipn] in E. rewrite E.
  unfold len.
  destruct (Z.of_nat (length (p ++ pad)) <? Z.of_nat (length p)) eqn:G.
  { rewrite app_length in G. lia. }
  rewrite Nat2Z.id. rewrite firstn_app, firstn_all, Nat.sub_diag. cbn [firstn]. rewrite app_nil_r. reflexivity.
Qed.

(* ---------------------------------------------------------------- the closed loop's wire, read by the independent receiver *)
Definition fd_wire (prio sa dest pv : Z) (p : list Z) (lim : Z) : list frame :=
  let ns := ((length p + 59) / 60)%nat in
  tp22_rts prio sa dest 0 pv (len p) (Z.of_nat ns) lim
  :: map (fun k => match dt_frame sa dest 0 (Z.of_nat k + 1) (row p k) with
                   | Some (fr, _) => fr | None => tp22_eom_status sa dest 0 (len p) (Z.of_nat ns) pv end) (seq 0 ns)
  ++ [tp22_eom_status sa dest 0 (len p) (Z.of_nat ns) pv].

Lemma row_le60 p k : (length (row p k) <= 60)%nat.
Proof. unfold row. rewrite firstn_length. lia. Qed.

Theorem fd_wire_is_spec prio sa dest pv p lim :
  0 <= prio < 8 -> 0 <= sa < 256 -> 0 <= dest < 256 -> 0 <= lim < 256 -> r24 pv -> (0 < length p)%nat -> len p < 16777216 ->
  let ns := ((length p + 59) / 60)%nat in
  exists rts dts eoms,
    fd_wire prio sa dest pv p lim = rts :: dts ++ [eoms] /\
    f_id rts = sae_id prio (sae_fd_cm_pgn dest) sa /\ dec_cm22 (f_data rts) = Some (RTS22 0 (len p) (Z.of_nat ns) lim pv) /\
    Forall (fun fr => f_id fr = sae_id 7 (sae_fd_dt_pgn dest) sa /\ f_ext fr = true /\ f_fd fr = true) dts /\
    reassemble22 0 (len p) (map f_data dts) = Some p /\
    f_id eoms = sae_id 7 (sae_fd_cm_pgn dest) sa /\ dec_cm22 (f_data eoms) = Some (EOMS22 0 (len p) (Z.of_nat ns) pv).
Proof.
  intros Hp Hs Hd Hl Hpv Hn Hlen ns. unfold fd_wire. fold ns.
  assert (Hns : r24 (Z.of_nat ns)) by (unfold r24, len in *; unfold ns; lia).
  assert (Hsz : r24 (len p)) by (unfold r24, len in *; lia).
  eexists _, _, _. split; [reflexivity|].
  rewrite fd_rts_is_spec by lia. rewrite fd_eom_status_is_spec by lia. cbn [f_id f_data].
  split; [reflexivity|]. split; [apply dec_enc_cm22; cbn [cm22_wf]; repeat split; try apply Hsz; try apply Hns; try apply Hpv; lia|].
  split.
  - apply Forall_forall. intros fr Hin. apply in_map_iff in Hin. destruct Hin as (k & Ek & _).
    destruct (fd_dt_is_spec sa dest 0 (Z.of_nat k + 1) (row p k) Hd Hs ltac:(lia) (row_le60 p k)) as (seg' & E).
    rewrite E in Ek. subst fr. cbn [f_id f_ext f_fd]. auto.
  - split; [|split; [reflexivity|apply dec_enc_cm22; cbn [cm22_wf]; repeat split; try apply Hsz; try apply Hns; try apply Hpv; lia]].
    rewrite map_map.
    rewrite (map_ext _ (fun k => enc_dt22 0 (Z.of_nat k + 1) (row p k))).
    + apply (fd_data_frames_reassemble 0 p); unfold len in *; lia.
    + intros k.
      destruct (fd_dt_is_spec sa dest 0 (Z.of_nat k + 1) (row p k) Hd Hs ltac:(lia) (row_le60 p k)) as (seg' & E).
      rewrite E. reflexivity.
Qed.

(* T03.4 (FD), end to end: in the closed loop of two FD model nodes, what the originator puts on the wire for p is, read by
   the independent receiver of Sae22.v (its own identifier layout, its own decoder, its own reassembler), exactly: one
   request to send announcing (size, segments, window limit, PGN) under session 0, data frames numbered 1.. that reassemble
   to p, one end-of-message status with the same figures — and p is delivered at B (C02's conclusion) *)
Theorem closed_loop22_wire_is_spec prio sa dest dp pf p t0 A0 B0 :
  0 <= prio < 8 -> 0 <= sa < 255 -> 0 <= dest < 255 -> 0 <= pf < 240 -> 0 <= dp < 2 -> 60 < len p < 16777216 -> 0 < t0 ->
  f_snd A0 = [] /\ f_rcv A0 = [] /\ f_mpg A0 = [] /\ n_timers (base A0) = [] /\ n_cmdt_iv (base A0) = None /\
    accepts (base A0) sa = true /\ 1 <= n_maxp (base A0) < 256 /\ f_rts A0 = repeat true tp22_pool_rts ->
  f_snd B0 = [] /\ f_rcv B0 = [] /\ f_mpg B0 = [] /\ n_timers (base B0) = [] /\ accepts (base B0) dest = true /\ 1 <= n_maxp (base B0) ->
  let pv := dp * 65536 + pf * 256 in
  let ns := ((length p + 59) / 60)%nat in
  let lim := Z.min (n_maxp (base A0)) (Z.of_nat ns) in
  exists j rts dts eoms, let s := Net22.steps22 j (Net22.net22_send (Net22.net22_0 A0 B0 t0) dp pf dest prio sa p) in
    Net22.evb2 s = deliveries (base B0) 7 pv sa dest p /\
    Net22.wab2 s = rts :: dts ++ [eoms] /\
    f_id rts = sae_id prio (sae_fd_cm_pgn dest) sa /\ dec_cm22 (f_data rts) = Some (RTS22 0 (len p) (Z.of_nat ns) lim pv) /\
    Forall (fun fr => f_id fr = sae_id 7 (sae_fd_dt_pgn dest) sa /\ f_ext fr = true /\ f_fd fr = true) dts /\
    reassemble22 0 (len p) (map f_data dts) = Some p /\
    f_id eoms = sae_id 7 (sae_fd_cm_pgn dest) sa /\ dec_cm22 (f_data eoms) = Some (EOMS22 0 (len p) (Z.of_nat ns) pv).
Proof.
  intros H1 H2 H3 H4 H5 H6 H7 HA HB pv ns lim.
  destruct (closed_loop22_delivers prio sa dest dp pf p t0 A0 B0 H1 H2 H3 H4 H5 H6 H7 HA HB) as (j & H).
  cbv zeta in H. destruct H as (_ & _ & _ & _ & _ & _ & _ & Q8 & Q9).
  assert (Hlen : (0 < length p)%nat) by (unfold len in H6; lia).
  assert (Hlim : 0 <= lim < 256) by (unfold lim; destruct HA as (_ & _ & _ & _ & _ & _ & Hm & _); lia).
  destruct (fd_wire_is_spec prio sa dest pv p lim H1 ltac:(lia) ltac:(lia) Hlim ltac:(unfold r24, pv; lia) Hlen ltac:(lia))
    as (rts & dts & eoms & W & R).
  exists j, rts, dts, eoms. cbv zeta. split; [exact Q8|]. split; [|exact R].
  rewrite Q9. exact W.
Qed.

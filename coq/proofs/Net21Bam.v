(* Net21Bam.v — C01 end to end, broadcast: in the closed loop of two model nodes (Net21.v) a BAM transfer of ANY payload p
   (9 .. 1785 bytes) to the global address delivers exactly p, once, to the listeners on B; the clock of the network
   advances by the originator's packet interval between the packets (the interval being shorter than the listener's T1);
   afterwards nothing is queued and no session is left on either side. *)
From J1939 Require Import Base CodecGlue Model21.
From J1939.gen Require Import Codec Tp21Gen CaGen.
From J1939P Require Import CodecProofs Flat Tp21Seg Tp21Resp Tp21Orig Net21 Net21Proofs.
Local Arguments Z.add : simpl never.
Local Arguments Z.sub : simpl never.
Local Arguments Z.mul : simpl never.

(* the frames A puts on the wire, each with the network's time at the step that emitted it *)
Definition newtx (s s' : net) : list (Z * frame) := map (fun f => (clk s, f)) (skipn (length (wab s)) (wab s')).
Fixpoint tlog (j : nat) (s : net) : list (Z * frame) :=
  match j with O => [] | S j' => newtx s (step s) ++ tlog j' (step s) end.
Lemma newtx_same s s' : wab s' = wab s -> newtx s s' = [].
Proof. intros E. unfold newtx. rewrite E, skipn_all. reflexivity. Qed.
Lemma newtx_snoc s s' l : wab s' = wab s ++ l -> newtx s s' = map (fun f => (clk s, f)) l.
Proof. intros E. unfold newtx. rewrite E, skipn_app, skipn_all, Nat.sub_diag. reflexivity. Qed.

Section BamLoop.
  Variables (prio sa dp pf ps : Z) (p : list Z) (t0 : Z) (A0 B0 : node).
  Hypothesis Hprio : 0 <= prio < 8.
  Hypothesis Hsa : 0 <= sa < 255.
  (* a PDU1 group sent to the global address, or a PDU2 group (a broadcast whatever its group extension) *)
  Hypothesis Hkind : (0 <= pf < 240 /\ ps = 255) \/ (240 <= pf < 256 /\ 0 <= ps < 256).
  Hypothesis Hdp : 0 <= dp < 2.
  Hypothesis Hsize : 8 < len p <= 1785.
  Hypothesis Ht0 : 0 < t0.
  Let pv := if pf <? 240 then dp * 65536 + pf * 256 else dp * 65536 + pf * 256 + ps.
  Let np := npk (length p).
  Let num := Z.of_nat np.
  Let G := addr_GLOBAL.
  Let h := tp21_hash sa G.
  Let iv := n_bam_iv A0.
  Hypothesis Hiv : 0 < iv < tp21_T1.
  Hypothesis HA : n_snd A0 = [] /\ n_rcv A0 = [] /\ n_timers A0 = [].
  Hypothesis HB : n_snd B0 = [] /\ n_rcv B0 = [] /\ n_timers B0 = [].

  Definition sbB (dl nx : Z) : sbuf :=
    {| s_pgn := pv; s_prio := prio; s_size := len p; s_num := num; s_data := p; s_state := ST_SENDING_BM; s_deadline := dl;
       s_src := sa; s_dst := G; s_next := nx; s_waitcts := None; s_nb := 0 |}.
  Definition bamf : frame := tp21_bam sa prio pv (len p) num.

  Definition benvA (a : node) : Prop := n_rcv a = [] /\ n_timers a = [] /\ n_bam_iv a = iv.
  Definition benvB (b : node) : Prop := n_snd b = [] /\ n_timers b = [] /\ n_subs b = n_subs B0 /\ n_cas b = n_cas B0.

  Lemma bnum_pos : 2 <= num <= 255.
  Proof. unfold num, np, npk. unfold len in Hsize. lia. Qed.

  (* ---- send_pgn to the global address *)
  Lemma send_pgn_bam a now : n_snd a = [] ->
    flat (send_pgn a now dp pf ps prio sa p) =
    (wake (set_snd a [(h, sbB (now + n_bam_iv a) 0)]), [OTx bamf], RDone 1).
  Proof.
    intros Hs. unfold send_pgn. unfold pgn_mk. rewrite !land_255, land_1.
    assert (Hpfr : 0 <= pf < 256) by lia. assert (Hpsr : 0 <= ps < 256) by lia.
    rewrite !Z.mod_small by lia.
    assert ((len p <=? 8) = false) as -> by lia.
    assert (Hd : ((ps =? addr_GLOBAL) || pgn_is_pdu2_of 0 pf ps) = true).
    { destruct Hkind as [(H1 & ->)|(H1 & H2)]; [reflexivity|].
      unfold pgn_is_pdu2_of, pgn_mk. rewrite !land_255. rewrite (Z.mod_small pf) by lia.
      unfold pgn_is_pdu2. destruct (Z.geb pf 240 && Z.leb pf 255) eqn:E; [apply orb_true_r|lia]. }
    rewrite Hd. fold G. fold h. unfold tmem. rewrite Hs. cbn [tget].
    change (G =? addr_GLOBAL) with true. cbv iota.
    assert (Hpv : pgn_value dp pf (if pgn_is_pdu1 pf then 0 else ps) = pv).
    { unfold pv. destruct Hkind as [(H1 & H2)|(H1 & H2)].
      - assert (pgn_is_pdu1 pf = true) as ->.
        { unfold pgn_is_pdu1. destruct (Z.geb pf 0 && Z.leb pf 239) eqn:E; [reflexivity|lia]. }
        assert ((pf <? 240) = true) as -> by lia. rewrite pgn_value_arith by lia. lia.
      - assert (pgn_is_pdu1 pf = false) as ->.
        { unfold pgn_is_pdu1. destruct (Z.geb pf 0 && Z.leb pf 239) eqn:E; [lia|reflexivity]. }
        assert ((pf <? 240) = false) as -> by lia. rewrite pgn_value_arith by lia. reflexivity. }
    rewrite Hpv.
    replace (num_packets (len p)) with num by (unfold num, np, len; symmetry; apply num_packets_npk).
    rewrite Z.eqb_refl. cbn [flat]. rewrite Hs. reflexivity.
  Qed.

  Definition rbB (dl : Z) (d : list Z) : rbuf :=
    {| r_pgn := pv; r_size := len p; r_num := num; r_next := 1; r_maxrec := None; r_data := d; r_deadline := dl;
       r_src := sa; r_dst := G |}.

  Lemma bam_fields :
    let d := f_data bamf in
    length d = 8%nat /\ tp21_cm_control d = tp21_cm_BAM /\ tp21_cm_pgn d = pv /\
    tp21_bam_message_size d = len p /\ tp21_bam_num_packages d = num.
  Proof.
    cbn [bamf tp21_bam f_data]. unfold tp21_cm_control, tp21_cm_pgn, tp21_bam_message_size, tp21_bam_num_packages, byte_at.
    cbn [nth length]. rewrite !land_255. rewrite !shiftr_div by lia. pow2_norm.
    repeat split; try reflexivity.
    - apply le24. unfold pv. destruct (pf <? 240); lia.
    - apply le16. lia.
  Qed.

  Lemma acceptsG b : accepts b G = true.
  Proof. reflexivity. Qed.

  Lemma hB_bam b c : n_rcv b = [] -> handle b c bamf = (wake (set_rcv b [(h, rbB (c + tp21_T1) [])]), []).
  Proof.
    intros Hr. destruct bam_fields as (L & C & P & S & N).
    unfold handle. change (f_id bamf) with (mid_can_id_of prio (pgn_value_of 0 236 255) sa).
    rewrite notify_tp_cm by (try apply acceptsG; lia).
    unfold process_tp_cm. rewrite L. cbn [Nat.ltb Nat.leb]. rewrite C, P, S, N.
    change (tp21_cm_BAM =? tp21_cm_RTS) with false. change (tp21_cm_BAM =? tp21_cm_CTS) with false.
    change (tp21_cm_BAM =? tp21_cm_EOM_ACK) with false. change (tp21_cm_BAM =? tp21_cm_BAM) with true. cbv iota.
    unfold tmem. rewrite Hr. cbn [tget]. cbv iota. rewrite Hr. cbn [flat tset]. reflexivity.
  Qed.

  Lemma hB_bdt b c dl (k : nat) : benvB b -> n_rcv b = [(h, rbB dl (segs p k))] -> (k < np)%nat ->
    if (S k =? np)%nat
    then exists b', handle b c (dtf sa G p k) = (b', deliveries B0 7 pv sa G p) /\ benvB b' /\ n_rcv b' = []
    else handle b c (dtf sa G p k) = (wake (set_rcv b [(h, rbB (c + tp21_T1) (segs p (S k)))]), []).
  Proof.
    intros (Bs & Bt & Bsub & Bcas) Hr Hk.
    unfold handle, dtf. cbn [tp21_dt f_id f_data]. fold G.
    rewrite notify_tp_dt by (try apply acceptsG; unfold G, addr_GLOBAL; lia).
    rewrite dt_payload_spec. unfold process_tp_dt. fold h. rewrite Hr. cbn [tget]. rewrite Z.eqb_refl.
    cbn [rbB r_data r_size r_next r_maxrec r_deadline r_pgn r_num].
    assert (Hlen : len (segs p k ++ pad7 (seg7 p k)) = 7 * Z.of_nat (S k)).
    { unfold len. rewrite app_length, segs_len, pad7_len by apply seg7_len_le. lia. }
    rewrite Hlen. change (G =? addr_GLOBAL) with true. cbn [negb andb].
    destruct (Nat.eqb_spec (S k) np) as [E|NE].
    - assert ((7 * Z.of_nat (S k) >=? len p) = true) as -> by (unfold np, npk, len in *; lia).
      rewrite flat_notify_subscribers. cbn [n_rcv set_rcv tset]. rewrite Z.eqb_refl.
      unfold tmem. cbn [tget]. rewrite Z.eqb_refl. cbn [flat].
      assert (Hp : firstn (Z.to_nat (len p)) (segs p k ++ pad7 (seg7 p k)) = p).
      { unfold len. rewrite Nat2Z.id. change (segs p k ++ pad7 (seg7 p k)) with (segs p (S k)).
        rewrite E. apply seg7_reassemble. }
      rewrite Hp. eexists. split; [|split].
      + rewrite app_nil_r. rewrite (deliveries_env B0) by assumption. reflexivity.
      + unfold benvB. cbn. repeat split; assumption.
      + cbn [n_rcv wake set_rcv tdel]. rewrite Z.eqb_refl. reflexivity.
    - assert ((7 * Z.of_nat (S k) >=? len p) = false) as -> by (unfold np, npk, len in *; lia).
      cbn [flat n_rcv set_rcv tset]. rewrite !Z.eqb_refl. cbn [tset]. rewrite Z.eqb_refl. reflexivity.
  Qed.

  (* ---- job iterations *)
  Lemma jobA_wait a c dl nx : benvA a -> n_snd a = [(h, sbB dl nx)] -> 0 < c < dl -> dl < c + 5000000 ->
    flat (job_iter a c) = (a, [], RDone (dl - c)).
  Proof.
    intros (Ar & At & Ai) Hs Hc Hd. unfold job_iter, dll_job. rewrite Ar. cbn [tkeys map rcv_pass].
    rewrite Hs. cbn [tkeys map fst snd_pass]. rewrite Hs. cbn [tget]. rewrite Z.eqb_refl. cbn [sbB s_deadline].
    assert ((dl =? 0) = false) as -> by lia. assert ((dl >? c) = true) as -> by lia.
    assert ((c + 5000000 >? dl) = true) as -> by lia. rewrite At. reflexivity.
  Qed.
  Lemma jobB_wait b c dl d : n_snd b = [] -> n_timers b = [] -> n_rcv b = [(h, rbB dl d)] -> 0 < c < dl -> dl < c + 5000000 ->
    flat (job_iter b c) = (b, [], RDone (dl - c)).
  Proof.
    intros Bs Bt Hr Hc Hd. unfold job_iter, dll_job. rewrite Hr. cbn [tkeys map fst rcv_pass]. rewrite Hr. cbn [tget].
    rewrite Z.eqb_refl. cbn [rbB r_deadline].
    assert ((dl =? 0) = false) as -> by lia. assert ((dl >? c) = true) as -> by lia.
    assert ((c + 5000000 >? dl) = true) as -> by lia. rewrite Bs. cbn [tkeys map snd_pass]. rewrite Bt. reflexivity.
  Qed.
  Lemma job_quiet n c : n_rcv n = [] -> n_snd n = [] -> n_timers n = [] -> flat (job_iter n c) = (n, [], RDone (c + 5000000 - c)).
  Proof.
    intros Hr Hs Ht. unfold job_iter, dll_job. rewrite Hr. cbn [tkeys map rcv_pass]. rewrite Hs. cbn [tkeys map snd_pass].
    rewrite Ht. reflexivity.
  Qed.
  Lemma jobA_send a c dl nx : benvA a -> n_snd a = [(h, sbB dl nx)] -> 0 < dl <= c -> 0 <= nx < num ->
    exists r, flat (job_iter a c) =
      (set_snd a (if nx + 1 <? num then [(h, sbB (c + iv) (nx + 1))] else []),
       [OTx (tp21_dt sa G (dt_payload p nx))], RDone r).
  Proof.
    intros (Ar & At & Ai) Hs Hc Hn. unfold job_iter, dll_job. rewrite Ar. cbn [tkeys map rcv_pass].
    rewrite Hs. cbn [tkeys map fst snd_pass]. rewrite Hs. cbn [tget]. rewrite Z.eqb_refl.
    cbn [sbB s_deadline s_state s_data s_next s_num s_src s_dst].
    assert ((dl =? 0) = false) as -> by lia. assert ((dl >? c) = false) as -> by lia.
    change (ST_SENDING_BM =? ST_WAITING_CTS) with false. change (ST_SENDING_BM =? ST_SENDING_IN_CTS) with false.
    change (ST_SENDING_BM =? ST_SENDING_BM) with true. cbv iota.
    destruct (nx + 1 <? num) eqn:E.
    - cbn [flat upd_sbuf s_deadline sbB]. cbn [tset]. rewrite Z.eqb_refl. cbn [snd_pass n_timers set_snd]. rewrite At.
      cbn [timer_pass flat]. rewrite Ai. eexists. reflexivity.
    - cbn [flat tdel]. rewrite Z.eqb_refl. cbn [snd_pass n_timers set_snd]. rewrite At. cbn [timer_pass flat].
      eexists. reflexivity.
  Qed.

  (* ---- shapes *)
  Definition bdelivered : list out := deliveries B0 7 pv sa G p.
  Definition envs (s : net) : Prop := benvA (na s) /\ benvB (nb s).
  Definition Sh0 (s : net) : Prop :=
    clk s = t0 /\ envs s /\ qa s = [] /\ qb s = [bamf] /\ n_snd (na s) = [(h, sbB (t0 + iv) 0)] /\ n_rcv (nb s) = [] /\
    evb s = [] /\ wab s = [bamf].
  Definition ShWait (k : nat) (s : net) : Prop :=
    exists c, clk s = c /\ (0 < c /\ c = t0 + Z.of_nat k * iv) /\ envs s /\ qa s = [] /\ qb s = [] /\ (k < np)%nat /\
      n_snd (na s) = [(h, sbB (c + iv) (Z.of_nat k))] /\ n_rcv (nb s) = [(h, rbB (c + tp21_T1) (segs p k))] /\
      evb s = [] /\ wab s = bamf :: dtfs sa G p 0 k.
  Definition ShDue (k : nat) (s : net) : Prop :=
    exists c, clk s = c /\ (0 < c - iv /\ c = t0 + Z.of_nat (S k) * iv) /\ envs s /\ qa s = [] /\ qb s = [] /\ (k < np)%nat /\
      n_snd (na s) = [(h, sbB c (Z.of_nat k))] /\ n_rcv (nb s) = [(h, rbB (c - iv + tp21_T1) (segs p k))] /\
      evb s = [] /\ wab s = bamf :: dtfs sa G p 0 k.
  Definition ShFly (k : nat) (s : net) : Prop :=
    exists c, clk s = c /\ (0 < c - iv /\ c = t0 + Z.of_nat (S k) * iv) /\ envs s /\ qa s = [] /\ qb s = [dtf sa G p k] /\ (k < np)%nat /\
      n_snd (na s) = (if Z.of_nat k + 1 <? num then [(h, sbB (c + iv) (Z.of_nat k + 1))] else []) /\
      n_rcv (nb s) = [(h, rbB (c - iv + tp21_T1) (segs p k))] /\
      evb s = [] /\ wab s = bamf :: dtfs sa G p 0 (S k).
  Definition ShDoneB (s : net) : Prop :=
    qa s = [] /\ qb s = [] /\ n_snd (na s) = [] /\ n_rcv (na s) = [] /\ n_snd (nb s) = [] /\ n_rcv (nb s) = [] /\
    evb s = bdelivered /\ wab s = bamf :: dtfs sa G p 0 np.

  Lemma B0_bam s : Sh0 s -> ShWait 0 (step s).
  Proof.
    intros (Hc & (Ea & Eb) & Hqa & Hqb & Hs & Hr & Hev & Hw).
    rewrite (step_b s bamf []) by exact Hqb. rewrite (hB_bam (nb s) (clk s) Hr). cbn [txs flat_map evs filter app].
    exists t0. cbn [na nb qa qb clk evb wab]. pose proof bnum_pos.
    split; [exact Hc|]. split; [lia|]. split; [split; [exact Ea|exact Eb]|]. split; [rewrite Hqa; reflexivity|].
    split; [reflexivity|]. split; [unfold num in *; lia|]. split; [exact Hs|].
    split; [rewrite Hc; reflexivity|]. split; [rewrite Hev; reflexivity|rewrite Hw; reflexivity].
  Qed.

  Lemma B1_wait k s : ShWait k s -> ShDue k (step s).
  Proof.
    intros (c & Hc & (Hc0 & Hct) & (Ea & Eb) & Hqa & Hqb & Hk & Hs & Hr & Hev & Hw).
    rewrite (step_idle s) by assumption. rewrite Hc.
    destruct Eb as (Bs & Bt & Bsub & Bcas).
    rewrite (jobA_wait (na s) c (c + iv) (Z.of_nat k) Ea Hs) by (unfold tp21_T1 in *; lia).
    rewrite (jobB_wait (nb s) c (c + tp21_T1) (segs p k) Bs Bt Hr) by (unfold tp21_T1 in *; lia).
    cbn [txs flat_map evs filter sleep_of andb]. rewrite !Z.eqb_refl. cbn [andb].
    assert (Hdt : Z.max 0 (Z.min (c + iv - c) (c + tp21_T1 - c)) = iv) by lia. rewrite Hdt.
    exists (c + iv). cbn [na nb qa qb clk evb wab].
    split; [reflexivity|]. split; [split; [lia|rewrite Hct, Nat2Z.inj_succ; ring]|]. split; [split; [exact Ea|repeat split; assumption]|].
    split; [reflexivity|]. split; [reflexivity|]. split; [exact Hk|]. split; [exact Hs|].
    split; [rewrite Hr; replace (c + iv - iv + tp21_T1) with (c + tp21_T1) by lia; reflexivity|].
    split; [rewrite Hev; reflexivity|rewrite Hw, app_nil_r; reflexivity].
  Qed.

  Lemma B2_due k s : ShDue k s -> ShFly k (step s).
  Proof.
    intros (c & Hc & (Hc0 & Hct) & (Ea & Eb) & Hqa & Hqb & Hk & Hs & Hr & Hev & Hw).
    rewrite (step_idle s) by assumption. rewrite Hc.
    destruct Eb as (Bs & Bt & Bsub & Bcas).
    destruct (jobA_send (na s) c c (Z.of_nat k) Ea Hs) as (ra & Hja); [lia|unfold num; lia|]. rewrite Hja.
    rewrite (jobB_wait (nb s) c (c - iv + tp21_T1) (segs p k) Bs Bt Hr) by (unfold tp21_T1 in *; lia).
    cbn [txs flat_map evs filter app andb].
    exists c. cbn [na nb qa qb clk evb wab].
    split; [lia|]. split; [split; [exact Hc0|exact Hct]|]. split; [split; [exact Ea|repeat split; assumption]|].
    split; [reflexivity|]. split; [reflexivity|]. split; [exact Hk|]. split; [reflexivity|]. split; [exact Hr|].
    split; [rewrite Hev; reflexivity|]. rewrite Hw. cbn [app]. f_equal.
    change (dtfs sa G p 0 k ++ [tp21_dt sa G (dt_payload p (Z.of_nat k))]) with (dtfs sa G p 0 k ++ [dtf sa G p (0 + k)]).
    apply dtfs_snoc.
  Qed.

  Lemma B3_fly k s : ShFly k s -> if (S k =? np)%nat then ShDoneB (step s) else ShWait (S k) (step s).
  Proof.
    intros (c & Hc & (Hc0 & Hct) & (Ea & Eb) & Hqa & Hqb & Hk & Hs & Hr & Hev & Hw).
    rewrite (step_b s _ _ Hqb). rewrite Hc.
    pose proof (hB_bdt (nb s) c (c - iv + tp21_T1) k Eb Hr Hk) as Hh.
    destruct (Nat.eqb_spec (S k) np) as [E|NE].
    - destruct Hh as (b' & Hh & Eb' & Hr'). rewrite Hh. rewrite txs_deliveries, evs_deliveries.
      assert ((Z.of_nat k + 1 <? num) = false) as Hlt by (unfold num; lia). rewrite Hlt in Hs.
      destruct Ea as (Ar & At & Ai). destruct Eb' as (Bs & _).
      unfold ShDoneB. cbn [na nb qa qb clk evb wab].
      repeat split; try assumption.
      + rewrite Hqa. reflexivity.
      + rewrite Hev. reflexivity.
      + rewrite Hw, E. reflexivity.
    - rewrite Hh. cbn [txs flat_map evs filter app].
      assert ((Z.of_nat k + 1 <? num) = true) as Hlt by (unfold num; lia). rewrite Hlt in Hs.
      exists c. cbn [na nb qa qb clk evb wab].
      split; [reflexivity|]. split; [split; [lia|exact Hct]|]. split; [split; [exact Ea|exact Eb]|].
      split; [rewrite Hqa; reflexivity|]. split; [reflexivity|]. split; [lia|].
      split; [rewrite Hs; replace (Z.of_nat (S k)) with (Z.of_nat k + 1) by lia; reflexivity|].
      split; [reflexivity|]. split; [rewrite Hev; reflexivity|exact Hw].
  Qed.

  Definition breaches (s : net) : Prop := exists j, ShDoneB (steps j s).
  Lemma breaches_step s : breaches (step s) -> breaches s.
  Proof. intros (j & H). exists (S j). exact H. Qed.

  Lemma wait_reaches : forall r k s, (np - k = r)%nat -> ShWait k s -> breaches s.
  Proof.
    induction r as [r IH] using lt_wf_ind. intros k s Hr Hsh.
    assert (Hk : (k < np)%nat) by (destruct Hsh as (c & _ & _ & _ & _ & _ & Hk & _); exact Hk).
    apply breaches_step. apply breaches_step. apply breaches_step.
    pose proof (B3_fly k _ (B2_due k _ (B1_wait k s Hsh))) as Hn.
    destruct (S k =? np)%nat eqn:E.
    - exists 0%nat. exact Hn.
    - apply Nat.eqb_neq in E. apply (IH (np - S k)%nat ltac:(lia) (S k)); [reflexivity|exact Hn].
  Qed.

  Lemma start_is_bam : Sh0 (net_send (net0 A0 B0 t0) dp pf ps prio sa p).
  Proof.
    destruct HA as (As & Ar & At). destruct HB as (Bs & Br & Bt).
    unfold net_send, net0. cbn [na nb qa qb clk eva evb wab wba].
    rewrite (send_pgn_bam A0 t0 As). cbn [txs flat_map evs filter app].
    unfold Sh0, envs, benvA, benvB. cbn [na nb qa qb clk evb wab n_rcv n_timers n_bam_iv n_snd wake set_snd].
    repeat split; assumption || reflexivity.
  Qed.

  Theorem bam_closed_loop : breaches (net_send (net0 A0 B0 t0) dp pf ps prio sa p).
  Proof.
    apply breaches_step. apply (wait_reaches (np - 0)%nat 0%nat); [reflexivity|]. apply B0_bam. apply start_is_bam.
  Qed.

  (* ---- ... and the nodes are left as the premises want them: the run can be followed by the next one *)
  Definition rest (s : net) : Prop := ShDoneB s /\ benvA (na s) /\ benvB (nb s) /\ 0 < clk s.
  Lemma B3_fly_env k s : ShFly k s -> S k = np -> benvA (na (step s)) /\ benvB (nb (step s)) /\ 0 < clk (step s).
  Proof.
    intros (c & Hc & (Hc0 & Hct) & (Ea & Eb) & Hqa & Hqb & Hk & Hs & Hr & Hev & Hw) E.
    rewrite (step_b s _ _ Hqb). rewrite Hc.
    pose proof (hB_bdt (nb s) c (c - iv + tp21_T1) k Eb Hr Hk) as Hh.
    assert ((S k =? np)%nat = true) as Et by (apply Nat.eqb_eq; exact E). rewrite Et in Hh.
    destruct Hh as (b' & Hh & Eb' & Hr'). rewrite Hh. cbn [na nb clk].
    split; [exact Ea|]. split; [exact Eb'|]. lia.
  Qed.
  Lemma wait_reaches_rest : forall r k s, (np - k = r)%nat -> ShWait k s -> exists j, rest (steps j s).
  Proof.
    induction r as [r IH] using lt_wf_ind. intros k s Hr Hsh.
    assert (Hk : (k < np)%nat) by (destruct Hsh as (c & _ & _ & _ & _ & _ & Hk & _); exact Hk).
    pose proof (B2_due k _ (B1_wait k s Hsh)) as Hf.
    pose proof (B3_fly k _ Hf) as Hn.
    destruct (S k =? np)%nat eqn:E.
    - apply Nat.eqb_eq in E. exists 3%nat. cbn [steps]. split; [exact Hn|]. exact (B3_fly_env k _ Hf E).
    - apply Nat.eqb_neq in E. destruct (IH (np - S k)%nat ltac:(lia) (S k) _ eq_refl Hn) as (j & H).
      exists (S (S (S j))). exact H.
  Qed.
  Theorem bam_closed_loop_rest : exists j, rest (steps j (net_send (net0 A0 B0 t0) dp pf ps prio sa p)).
  Proof.
    destruct (wait_reaches_rest (np - 0)%nat 0%nat _ eq_refl (B0_bam _ start_is_bam)) as (j & H). exists (S j). exact H.
  Qed.

  (* ---- the same run with the time of every frame A puts on the wire *)
  Definition treaches (s : net) (L : list (Z * frame)) : Prop := exists j, ShDoneB (steps j s) /\ tlog j s = L.
  Lemma treaches_step s L : treaches (step s) L -> treaches s (newtx s (step s) ++ L).
  Proof. intros (j & H & E). exists (S j). split; [exact H|]. cbn [tlog]. rewrite E. reflexivity. Qed.
  Lemma wait_w k s : ShWait k s -> wab s = bamf :: dtfs sa G p 0 k.
  Proof. intros (c & _ & _ & _ & _ & _ & _ & _ & _ & _ & Hw). exact Hw. Qed.
  Lemma due_w k s : ShDue k s -> wab s = bamf :: dtfs sa G p 0 k /\ clk s = t0 + Z.of_nat (S k) * iv.
  Proof. intros (c & Hc & (_ & Hct) & _ & _ & _ & _ & _ & _ & _ & Hw). split; [exact Hw|rewrite Hc; exact Hct]. Qed.
  Lemma fly_w k s : ShFly k s -> wab s = bamf :: dtfs sa G p 0 (S k).
  Proof. intros (c & _ & _ & _ & _ & _ & _ & _ & _ & _ & Hw). exact Hw. Qed.
  Lemma done_w s : ShDoneB s -> wab s = bamf :: dtfs sa G p 0 np.
  Proof. intros (_ & _ & _ & _ & _ & _ & _ & Hw). exact Hw. Qed.

  Definition stamp (k : nat) : Z := t0 + Z.of_nat (S k) * iv.
  Definition tail_log (k : nat) : list (Z * frame) := map (fun i => (stamp i, dtf sa G p i)) (seq k (np - k)).

  Lemma wait_treaches : forall r k s, (np - k = r)%nat -> ShWait k s -> treaches s (tail_log k).
  Proof.
    induction r as [r IH] using lt_wf_ind. intros k s Hr Hsh.
    assert (Hk : (k < np)%nat) by (destruct Hsh as (c & _ & _ & _ & _ & _ & Hk & _); exact Hk).
    pose proof (B1_wait k s Hsh) as Hd. pose proof (B2_due k _ Hd) as Hf. pose proof (B3_fly k _ Hf) as Hn.
    pose proof (wait_w k s Hsh) as W0. destruct (due_w k _ Hd) as (W1 & C1). pose proof (fly_w k _ Hf) as W2.
    assert (W3 : wab (step (step (step s))) = wab (step (step s))).
    { rewrite W2. destruct (S k =? np)%nat eqn:E.
      - apply Nat.eqb_eq in E. rewrite (done_w _ Hn), E. reflexivity.
      - rewrite (wait_w _ _ Hn). reflexivity. }
    assert (Hsnoc : dtfs sa G p 0 (S k) = dtfs sa G p 0 k ++ [dtf sa G p k]).
    { symmetry. change (dtf sa G p k) with (dtf sa G p (0 + k)). apply dtfs_snoc. }
    assert (Hlog : tail_log k = newtx s (step s) ++ newtx (step s) (step (step s)) ++
                                newtx (step (step s)) (step (step (step s))) ++ tail_log (S k)).
    { rewrite (newtx_same s) by (rewrite W0, W1; reflexivity).
      rewrite (newtx_snoc (step s) _ [dtf sa G p k]) by (rewrite W1, W2, Hsnoc; reflexivity).
      rewrite (newtx_same (step (step s))) by exact W3.
      rewrite C1. unfold tail_log. replace (np - k)%nat with (S (np - S k)) by lia. reflexivity. }
    rewrite Hlog. apply treaches_step. apply treaches_step. apply treaches_step.
    destruct (S k =? np)%nat eqn:E.
    - apply Nat.eqb_eq in E. exists 0%nat. split; [exact Hn|]. unfold tail_log. rewrite E, Nat.sub_diag. reflexivity.
    - apply Nat.eqb_neq in E. apply (IH (np - S k)%nat ltac:(lia) (S k)); [reflexivity|exact Hn].
  Qed.

  Theorem bam_closed_loop_timed : treaches (net_send (net0 A0 B0 t0) dp pf ps prio sa p) (tail_log 0).
  Proof.
    pose proof start_is_bam as H0. pose proof (B0_bam _ H0) as H1.
    replace (tail_log 0) with (newtx (net_send (net0 A0 B0 t0) dp pf ps prio sa p)
                                     (step (net_send (net0 A0 B0 t0) dp pf ps prio sa p)) ++ tail_log 0).
    - apply treaches_step. apply (wait_treaches (np - 0)%nat 0%nat); [reflexivity|exact H1].
    - rewrite newtx_same; [reflexivity|].
      rewrite (wait_w _ _ H1). destruct H0 as (_ & _ & _ & _ & _ & _ & _ & Hw). rewrite Hw. reflexivity.
  Qed.
End BamLoop.

(* T01.9: broadcast, closed loop, stated without the proof's vocabulary — for a PDU1 group sent to the global address
   (ps = 255, delivered under PGN dp.pf.00) and for a PDU2 group (any group extension, delivered under PGN dp.pf.ps) *)
Definition bam_pgn (dp pf ps : Z) : Z := if pf <? 240 then dp * 65536 + pf * 256 else dp * 65536 + pf * 256 + ps.

Theorem bam_closed_loop_delivers_any prio sa dp pf ps p t0 A0 B0 :
  0 <= prio < 8 -> 0 <= sa < 255 -> (0 <= pf < 240 /\ ps = 255) \/ (240 <= pf < 256 /\ 0 <= ps < 256) ->
  0 <= dp < 2 -> 8 < len p <= 1785 -> 0 < t0 ->
  0 < n_bam_iv A0 < tp21_T1 ->
  n_snd A0 = [] /\ n_rcv A0 = [] /\ n_timers A0 = [] ->
  n_snd B0 = [] /\ n_rcv B0 = [] /\ n_timers B0 = [] ->
  let pv := bam_pgn dp pf ps in
  exists j, let s := steps j (net_send (net0 A0 B0 t0) dp pf ps prio sa p) in
    qa s = [] /\ qb s = [] /\ n_snd (na s) = [] /\ n_rcv (na s) = [] /\ n_snd (nb s) = [] /\ n_rcv (nb s) = [] /\
    evb s = deliveries B0 7 pv sa addr_GLOBAL p /\
    wab s = tp21_bam sa prio pv (len p) (Z.of_nat (npk (length p)))
            :: map (fun k => tp21_dt sa addr_GLOBAL (dt_payload p (Z.of_nat k))) (seq 0 (npk (length p))).
Proof.
  intros H1 H2 H3 H4 H5 H6 H7 HA HB pv.
  destruct (bam_closed_loop prio sa dp pf ps p t0 A0 B0 H1 H2 H3 H4 H5 H6 H7 HA HB) as (j & H). exists j. exact H.
Qed.

Theorem bam_closed_loop_delivers prio sa dp pf p t0 A0 B0 :
  0 <= prio < 8 -> 0 <= sa < 255 -> 0 <= pf < 240 -> 0 <= dp < 2 -> 8 < len p <= 1785 -> 0 < t0 ->
  0 < n_bam_iv A0 < tp21_T1 ->
  n_snd A0 = [] /\ n_rcv A0 = [] /\ n_timers A0 = [] ->
  n_snd B0 = [] /\ n_rcv B0 = [] /\ n_timers B0 = [] ->
  let pv := dp * 65536 + pf * 256 in
  exists j, let s := steps j (net_send (net0 A0 B0 t0) dp pf 255 prio sa p) in
    qa s = [] /\ qb s = [] /\ n_snd (na s) = [] /\ n_rcv (na s) = [] /\ n_snd (nb s) = [] /\ n_rcv (nb s) = [] /\
    evb s = deliveries B0 7 pv sa addr_GLOBAL p /\
    wab s = tp21_bam sa prio pv (len p) (Z.of_nat (npk (length p)))
            :: map (fun k => tp21_dt sa addr_GLOBAL (dt_payload p (Z.of_nat k))) (seq 0 (npk (length p))).
Proof.
  intros H1 H2 H3 H4 H5 H6 H7 HA HB pv.
  pose proof (bam_closed_loop_delivers_any prio sa dp pf 255 p t0 A0 B0 H1 H2 (or_introl (conj H3 eq_refl)) H4 H5 H6 H7 HA HB) as H.
  unfold bam_pgn in H. assert ((pf <? 240) = true) as E by lia. rewrite E in H. exact H.
Qed.

(* the nodes after the run: everything the premises ask for holds again (same packet interval, same listeners and CAs on B, no
   timers, positive clock), so the theorem applies to the next broadcast *)
Theorem bam_closed_loop_restores prio sa dp pf ps p t0 A0 B0 :
  0 <= prio < 8 -> 0 <= sa < 255 -> (0 <= pf < 240 /\ ps = 255) \/ (240 <= pf < 256 /\ 0 <= ps < 256) ->
  0 <= dp < 2 -> 8 < len p <= 1785 -> 0 < t0 ->
  0 < n_bam_iv A0 < tp21_T1 ->
  n_snd A0 = [] /\ n_rcv A0 = [] /\ n_timers A0 = [] ->
  n_snd B0 = [] /\ n_rcv B0 = [] /\ n_timers B0 = [] ->
  let pv := bam_pgn dp pf ps in
  exists j, let s := steps j (net_send (net0 A0 B0 t0) dp pf ps prio sa p) in
    (qa s = [] /\ qb s = [] /\ 0 < clk s /\
     evb s = deliveries B0 7 pv sa addr_GLOBAL p /\
     wab s = tp21_bam sa prio pv (len p) (Z.of_nat (npk (length p)))
             :: map (fun k => tp21_dt sa addr_GLOBAL (dt_payload p (Z.of_nat k))) (seq 0 (npk (length p)))) /\
    (n_snd (na s) = [] /\ n_rcv (na s) = [] /\ n_timers (na s) = [] /\ n_bam_iv (na s) = n_bam_iv A0) /\
    (n_snd (nb s) = [] /\ n_rcv (nb s) = [] /\ n_timers (nb s) = [] /\ n_subs (nb s) = n_subs B0 /\ n_cas (nb s) = n_cas B0).
Proof.
  intros H1 H2 H3 H4 H5 H6 H7 HA HB pv.
  destruct (bam_closed_loop_rest prio sa dp pf ps p t0 A0 B0 H1 H2 H3 H4 H5 H6 H7 HA HB)
    as (j & (Q1 & Q2 & Q3 & Q4 & Q5 & Q6 & Q7 & Q8) & (Ar & At & Ai) & (Bs & Bt & Bsub & Bcas) & Hc).
  exists j. cbv zeta. repeat split; assumption.
Qed.

(* T09.17: the same run with its times: packet k leaves at t0 + (k+1)·iv — consecutive packets of the broadcast are exactly
   the configured interval apart, and the first follows the announcement by one interval *)
Theorem bam_closed_loop_paced_any prio sa dp pf ps p t0 A0 B0 :
  0 <= prio < 8 -> 0 <= sa < 255 -> (0 <= pf < 240 /\ ps = 255) \/ (240 <= pf < 256 /\ 0 <= ps < 256) ->
  0 <= dp < 2 -> 8 < len p <= 1785 -> 0 < t0 ->
  0 < n_bam_iv A0 < tp21_T1 ->
  n_snd A0 = [] /\ n_rcv A0 = [] /\ n_timers A0 = [] ->
  n_snd B0 = [] /\ n_rcv B0 = [] /\ n_timers B0 = [] ->
  let pv := bam_pgn dp pf ps in
  let iv := n_bam_iv A0 in
  let s0 := net_send (net0 A0 B0 t0) dp pf ps prio sa p in
  wab s0 = [tp21_bam sa prio pv (len p) (Z.of_nat (npk (length p)))] /\ clk s0 = t0 /\
  exists j, (qa (steps j s0) = [] /\ qb (steps j s0) = [] /\ n_snd (na (steps j s0)) = [] /\ n_rcv (nb (steps j s0)) = [] /\
             evb (steps j s0) = deliveries B0 7 pv sa addr_GLOBAL p) /\
    tlog j s0 = map (fun k => (t0 + Z.of_nat (S k) * iv, tp21_dt sa addr_GLOBAL (dt_payload p (Z.of_nat k)))) (seq 0 (npk (length p))).
Proof.
  intros H1 H2 H3 H4 H5 H6 H7 HA HB pv iv s0.
  pose proof (start_is_bam prio sa dp pf ps p t0 A0 B0) as HS.
  repeat match type of HS with ?P -> _ => specialize (HS ltac:(assumption)) end.
  destruct HS as (Hc & _ & _ & _ & _ & _ & _ & Hw).
  split; [exact Hw|]. split; [exact Hc|].
  destruct (bam_closed_loop_timed prio sa dp pf ps p t0 A0 B0 H1 H2 H3 H4 H5 H6 H7 HA HB) as (j & Hd & Hl). exists j.
  split; [|unfold s0; rewrite Hl; unfold tail_log; rewrite Nat.sub_0_r; reflexivity].
  destruct Hd as (Q1 & Q2 & Q3 & Q4 & Q5 & Q6 & Q7 & _). repeat split; assumption.
Qed.

Theorem bam_closed_loop_paced prio sa dp pf p t0 A0 B0 :
  0 <= prio < 8 -> 0 <= sa < 255 -> 0 <= pf < 240 -> 0 <= dp < 2 -> 8 < len p <= 1785 -> 0 < t0 ->
  0 < n_bam_iv A0 < tp21_T1 ->
  n_snd A0 = [] /\ n_rcv A0 = [] /\ n_timers A0 = [] ->
  n_snd B0 = [] /\ n_rcv B0 = [] /\ n_timers B0 = [] ->
  let pv := dp * 65536 + pf * 256 in
  let iv := n_bam_iv A0 in
  let s0 := net_send (net0 A0 B0 t0) dp pf 255 prio sa p in
  wab s0 = [tp21_bam sa prio pv (len p) (Z.of_nat (npk (length p)))] /\ clk s0 = t0 /\
  exists j, (qa (steps j s0) = [] /\ qb (steps j s0) = [] /\ n_snd (na (steps j s0)) = [] /\ n_rcv (nb (steps j s0)) = [] /\
             evb (steps j s0) = deliveries B0 7 pv sa addr_GLOBAL p) /\
    tlog j s0 = map (fun k => (t0 + Z.of_nat (S k) * iv, tp21_dt sa addr_GLOBAL (dt_payload p (Z.of_nat k)))) (seq 0 (npk (length p))).
Proof.
  intros H1 H2 H3 H4 H5 H6 H7 HA HB pv iv s0.
  pose proof (bam_closed_loop_paced_any prio sa dp pf 255 p t0 A0 B0 H1 H2 (or_introl (conj H3 eq_refl)) H4 H5 H6 H7 HA HB) as H.
  unfold bam_pgn in H. assert ((pf <? 240) = true) as E by lia. rewrite E in H. exact H.
Qed.

Example bam_closed_loop_pdu2_instance :
  let A := init_node 3 None None in
  let B := subscribe (init_node 2 None None) 7 FNone in
  let p := map Z.of_nat (seq 1 20) in
  let s := steps 10 (net_send (net0 A B 1000) 0 254 202 6 128 p) in
  quiet s = true /\ evb s = [OCb 7 7 65226 128 p] /\ length (wab s) = 4%nat /\ wba s = [].
Proof. vm_compute. repeat split. Qed.

Example bam_closed_loop_instance :
  let A := init_node 3 None None in
  let B := subscribe (init_node 2 None None) 7 FNone in
  let p := map Z.of_nat (seq 1 20) in
  let s := steps 10 (net_send (net0 A B 1000) 0 239 255 6 128 p) in
  quiet s = true /\ evb s = [OCb 7 7 61184 128 p] /\ length (wab s) = 4%nat /\ wba s = [] /\ clk s = 1000 + 3 * 50000.
Proof. vm_compute. repeat split. Qed.

Example bam_closed_loop_times :
  let A := init_node 3 None None in
  let B := subscribe (init_node 2 None None) 7 FNone in
  let p := map Z.of_nat (seq 1 20) in
  map fst (tlog 10 (net_send (net0 A B 1000) 0 239 255 6 128 p)) = [51000; 101000; 151000].
Proof. vm_compute. reflexivity. Qed.

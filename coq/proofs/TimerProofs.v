(* TimerProofs.v — C12: the ECU's timer registrations (model of the repaired loop). *)
From J1939 Require Import Base CodecGlue Model21.
From J1939P Require Import Flat.

Lemma tcb_eqb_refl c : tcb_eqb c c = true.
Proof. destruct c; cbn; [apply Z.eqb_refl|apply Nat.eqb_refl]. Qed.
Lemma tcb_eqb_eq a b : tcb_eqb a b = true -> a = b.
Proof.
  destruct a, b; cbn; intros H; try discriminate.
  - f_equal. lia.
  - f_equal. apply Nat.eqb_eq. exact H.
Qed.
Lemma timer_eqb_refl t : timer_eqb t t = true.
Proof. unfold timer_eqb. rewrite !Z.eqb_refl, tcb_eqb_refl. reflexivity. Qed.
Lemma timer_eqb_cb a b : timer_eqb a b = true -> tm_cb a = tm_cb b.
Proof.
  unfold timer_eqb. intros H. apply andb_prop in H. destruct H as [H _].
  apply andb_prop in H. destruct H as [_ H]. apply tcb_eqb_eq. exact H.
Qed.

(* ---------------------------------------------------------------- T12.4 removal is complete *)
Lemma fold_remove_other cb : forall victims x r,
  (forall v, In v victims -> tm_cb v = cb) -> tm_cb x <> cb ->
  fold_left (fun l t => remove_first t l) victims (x :: r) =
  x :: fold_left (fun l t => remove_first t l) victims r.
Proof.
  induction victims as [|v vs IH]; intros x r Hv Hx; [reflexivity|].
  cbn [fold_left remove_first].
  assert (timer_eqb x v = false) as ->.
  { destruct (timer_eqb x v) eqn:E; [|reflexivity].
    apply timer_eqb_cb in E. exfalso. apply Hx. rewrite E. apply Hv. left. reflexivity. }
  apply IH; [intros w Hw; apply Hv; right; exact Hw|exact Hx].
Qed.

Lemma remove_all_is_filter cb : forall l,
  fold_left (fun l t => remove_first t l) (filter (fun t => tcb_eqb (tm_cb t) cb) l) l =
  filter (fun t => negb (tcb_eqb (tm_cb t) cb)) l.
Proof.
  induction l as [|x r IH]; [reflexivity|].
  cbn [filter]. destruct (tcb_eqb (tm_cb x) cb) eqn:E; cbn [negb].
  - cbn [fold_left remove_first]. rewrite timer_eqb_refl. exact IH.
  - rewrite fold_remove_other with (cb := cb).
    + rewrite IH. reflexivity.
    + intros v Hv. apply filter_In in Hv. destruct Hv as [_ Hv]. apply tcb_eqb_eq. exact Hv.
    + intros Hc. rewrite Hc, tcb_eqb_refl in E. discriminate.
Qed.

(* after remove_timer(cb) no registration of cb remains, however many there were; every other
   registration is kept, in order; the job thread is woken *)
Theorem remove_timer_complete n cb :
  n_timers (remove_timer n cb) = filter (fun t => negb (tcb_eqb (tm_cb t) cb)) (n_timers n) /\
  (forall t, In t (n_timers (remove_timer n cb)) -> tm_cb t <> cb) /\
  n_wakes (remove_timer n cb) = n_wakes n + 1.
Proof.
  unfold remove_timer. cbn [n_timers wake set_timers n_wakes].
  rewrite remove_all_is_filter. split; [reflexivity|]. split; [|reflexivity].
  intros t Ht. apply filter_In in Ht. destruct Ht as [_ Ht]. intros Hc.
  rewrite Hc, tcb_eqb_refl in Ht. discriminate.
Qed.

Theorem unsubscribe_complete n cid :
  n_subs (unsubscribe n cid) = filter (fun s => negb (sb_cid s =? cid)) (n_subs n) /\
  (forall s, In s (n_subs (unsubscribe n cid)) -> sb_cid s <> cid).
Proof.
  unfold unsubscribe. cbn [n_subs set_subs]. split; [reflexivity|].
  intros s Hs. apply filter_In in Hs. destruct Hs as [_ Hs]. lia.
Qed.

(* ---------------------------------------------------------------- add_timer *)
Theorem add_timer_spec n now delta cb ret :
  n_timers (add_timer n now delta cb ret) =
    n_timers n ++ [{| tm_delta := delta; tm_cb := cb; tm_deadline := now + delta; tm_ret := ret; tm_id := n_nextid n |}] /\
  n_wakes (add_timer n now delta cb ret) = n_wakes n + 1.
Proof. unfold add_timer. cbn. split; reflexivity. Qed.

(* ---------------------------------------------------------------- T12.3 no drift *)
Theorem advance_no_drift dl delta now :
  0 < delta -> dl <= now ->
  let dl' := advance_deadline dl delta now in
  (exists m, 1 <= m /\ dl' = dl + m * delta) /\ now < dl' <= now + delta.
Proof.
  intros Hd Hle. unfold advance_deadline.
  assert ((delta >? 0) && (dl <=? now) = true) as -> by lia.
  split.
  - exists ((now - dl) / delta + 1). split; [|ring].
    assert (0 <= (now - dl) / delta) by (apply Z.div_pos; lia). lia.
  - pose proof (Z.div_mod (now - dl) delta ltac:(lia)) as E.
    pose proof (Z.mod_pos_bound (now - dl) delta Hd) as B. nia.
Qed.

(* ---------------------------------------------------------------- T12.1 / T12.5: what one pass does with ONE
   registration, whatever else is registered: the pass is a fold over a snapshot of the registrations, so adding,
   expiring or removing one timer neither skips nor delays another. *)
Definition min_nw (nw dl : Z) : Z := if nw >? dl then dl else nw.

Lemma timer_in_self ev l : In ev l -> timer_in ev l = true.
Proof.
  intros H. unfold timer_in. apply existsb_exists. exists ev. split; [exact H|apply timer_eqb_refl].
Qed.

(* not early: a registration whose deadline lies in the future is not invoked; it only bounds the wake-up time *)
Theorem timer_not_early ev rest now nw n k :
  In ev (n_timers n) -> now < tm_deadline ev ->
  timer_pass (ev :: rest) now nw n k = timer_pass rest now (min_nw nw (tm_deadline ev)) n k.
Proof.
  intros Hin Hlt. cbn [timer_pass]. rewrite (timer_in_self _ _ Hin). cbn [negb].
  assert ((tm_deadline ev >? now) = true) as -> by lia. reflexivity.
Qed.

(* due and periodic: invoked once; stored deadline advanced by whole periods beyond now (no drift);
   the rest of the snapshot is then examined *)
Theorem timer_periodic_fires ev cid rest now nw n k :
  In ev (n_timers n) -> tm_cb ev = TApp cid -> tm_ret ev = true -> tm_deadline ev <= now ->
  flat (timer_pass (ev :: rest) now nw n k) =
  let dl := advance_deadline (tm_deadline ev) (tm_delta ev) now in
  let '(s, os, r) := flat (timer_pass rest now (min_nw nw dl)
                             (set_timers n (upd_timer_deadline (n_timers n) (tm_id ev) dl)) k) in
  (s, OTimer cid :: os, r).
Proof.
  intros Hin Hcb Hret Hdue. cbn [timer_pass]. rewrite (timer_in_self _ _ Hin). cbn [negb].
  assert ((tm_deadline ev >? now) = false) as -> by lia.
  rewrite Hcb, Hret. cbn [flat]. reflexivity.
Qed.

(* due and one-shot: invoked once and removed (if the callback has not removed it already) *)
Theorem timer_oneshot_fires ev cid rest now nw n k :
  In ev (n_timers n) -> tm_cb ev = TApp cid -> tm_ret ev = false -> tm_deadline ev <= now ->
  flat (timer_pass (ev :: rest) now nw n k) =
  let '(s, os, r) := flat (timer_pass rest now nw (set_timers n (remove_first ev (n_timers n))) k) in
  (s, OTimer cid :: os, r).
Proof.
  intros Hin Hcb Hret Hdue. cbn [timer_pass]. rewrite (timer_in_self _ _ Hin). cbn [negb].
  assert ((tm_deadline ev >? now) = false) as -> by lia.
  rewrite Hcb, Hret. cbn [flat]. rewrite (timer_in_self _ _ Hin). reflexivity.
Qed.

(* a registration that a callback removed earlier in the pass is not invoked any more *)
Theorem timer_removed_not_called ev rest now nw n k :
  timer_in ev (n_timers n) = false ->
  timer_pass (ev :: rest) now nw n k = timer_pass rest now nw n k.
Proof. intros H. cbn [timer_pass]. rewrite H. reflexivity. Qed.

(* T12.6: the wake-up time handed on never exceeds a pending deadline that was examined *)
Lemma min_nw_le nw dl : min_nw nw dl <= nw /\ min_nw nw dl <= dl.
Proof. unfold min_nw. destruct (nw >? dl) eqn:E; lia. Qed.

Definition ex_n0 : node :=
  add_timer (add_timer (init_node 1 None None) 0 1000 (TApp 1) true) 0 5000 (TApp 2) false.
Example timers_example_1 : fouts (job_iter ex_n0 1000) = [OTimer 1].
Proof. vm_compute. reflexivity. Qed.
Example timers_example_2 : fres (job_iter ex_n0 1000) = RDone 1000.
Proof. vm_compute. reflexivity. Qed.
Example timers_example_3 : fouts (job_iter ex_n0 5000) = [OTimer 1; OTimer 2].
Proof. vm_compute. reflexivity. Qed.

(* Tp21Resp.v — T01.3: the J1939-21 stack as RESPONDER of a connection-mode transfer, and as
   listener of a BAM (T01.5, receive side), on the node-level handlers of Model21. *)
From J1939 Require Import Base CodecGlue Model21.
From J1939.gen Require Import Codec Tp21Gen CaGen.
From J1939P Require Import CodecProofs Flat Tp21Seg.

Section Responder.
  Variables (prio sa dest pgn : Z) (p : list Z).
  Variable now : nat -> Z.                       (* arrival instant of packet k: arbitrary *)
  Let h := tp21_hash sa dest.
  Let n_ := Z.of_nat (npk (length p)).

  (* one DT through the node-level handler, nobody interfering *)
  Definition feed1 (k : nat) (n : node) : node * list out :=
    let '(n', os, _) := flat (process_tp_dt prio sa dest (dt_payload p (Z.of_nat k)) (now k) n) in (n', os).
  Fixpoint feed (cnt k : nat) (n : node) : node * list out :=
    match cnt with
    | O => (n, [])
    | S c => let '(n1, o1) := feed1 k n in let '(n2, o2) := feed c (S k) n1 in (n2, o1 ++ o2)
    end.

  (* what the standard asks of the responder for packets k .. n-1 with window g *)
  Fixpoint expect (n0 : node) (g : Z) (k cnt : nat) : list out :=
    match cnt with
    | O => []
    | S c =>
        (if Z.of_nat k + 1 =? n_
         then OTx (tp21_eom_ack dest sa (len p) n_ pgn) :: deliveries n0 prio pgn sa dest p
         else if (Z.of_nat k + 1) mod g =? 0
              then [OTx (tp21_cts dest sa (Z.min g (n_ - (Z.of_nat k + 1))) (Z.of_nat k + 2) pgn)]
              else [])
        ++ expect n0 g (S k) c
    end.

  Definition inv (g : Z) (k : nat) (b : rbuf) : Prop :=
    r_data b = segs p k /\ r_size b = len p /\ r_num b = n_ /\ r_maxrec b = Some g /\ r_pgn b = pgn /\
    r_next b = Z.min ((Z.of_nat k / g + 1) * g) n_.

  Definition same_env (n n' : node) : Prop :=
    n_subs n' = n_subs n /\ n_cas n' = n_cas n /\ n_snd n' = n_snd n /\ n_timers n' = n_timers n /\
    n_maxp n' = n_maxp n /\ n_cmdt_iv n' = n_cmdt_iv n /\ n_bam_iv n' = n_bam_iv n.

  Lemma border_hit g k : 0 < g -> 0 <= k -> (k + 1) mod g = 0 -> (k / g + 1) * g = k + 1 /\ (k + 1) / g = k / g + 1.
  Proof.
    intros Hg Hk Hm.
    pose proof (Z.div_mod (k + 1) g ltac:(lia)) as E. rewrite Hm in E.
    set (q := (k + 1) / g) in *.
    assert (1 <= q) by (destruct (Z_lt_le_dec q 1); [nia|lia]).
    assert (k / g = q - 1) as ->.
    { symmetry. apply Z.div_unique with (r := g - 1); [lia|nia]. }
    split; nia.
  Qed.
  Lemma border_miss g k : 0 < g -> 0 <= k -> (k + 1) mod g <> 0 -> (k + 1) / g = k / g /\ k + 1 < (k / g + 1) * g.
  Proof.
    intros Hg Hk Hm.
    pose proof (Z.div_mod (k + 1) g ltac:(lia)) as E.
    pose proof (Z.mod_pos_bound (k + 1) g Hg) as B.
    set (q := (k + 1) / g) in *. set (r := (k + 1) mod g) in *.
    assert (k / g = q) as ->.
    { symmetry. apply Z.div_unique with (r := r - 1); [lia|nia]. }
    split; [reflexivity|nia].
  Qed.

  Lemma expect_env n0 n1 g : n_subs n1 = n_subs n0 -> n_cas n1 = n_cas n0 ->
    forall cnt k, expect n1 g k cnt = expect n0 g k cnt.
  Proof.
    intros Hs Hc. induction cnt as [|c IHc]; intros k; [reflexivity|].
    cbn [expect]. f_equal; [|apply IHc].
    destruct (Z.of_nat k + 1 =? n_); [|reflexivity]. f_equal.
    apply deliveries_env; assumption.
  Qed.

  Hypothesis Hdest : dest <> addr_GLOBAL.

  Lemma feed_inv g : 1 <= g <= n_ ->
    forall cnt k n b, (k + cnt = npk (length p))%nat -> (0 < cnt)%nat ->
      tget (n_rcv n) h = Some b -> inv g k b -> r_src b = sa -> r_dst b = dest ->
      exists n', feed cnt k n = (n', expect n g k cnt) /\ n_rcv n' = tdel (n_rcv n) h /\ same_env n n'.
  Proof.
    intros Hg. induction cnt as [|c IH]; intros k n b Hk Hc Hget (Hd & Hs & Hn & Hm & Hpg & Hb) Hsrc Hdst; [lia|].
    cbn [feed expect]. unfold feed1. rewrite dt_payload_spec. unfold process_tp_dt. fold h. rewrite Hget.
    assert (Hlen : len (r_data b ++ pad7 (seg7 p k)) = 7 * Z.of_nat (S k)).
    { unfold len. rewrite app_length, Hd, segs_len, pad7_len by apply seg7_len_le. lia. }
    rewrite Hlen, Hs.
    assert (Hne : (dest =? addr_GLOBAL) = false) by (apply Z.eqb_neq; exact Hdest).
    rewrite Hne. cbn [negb andb].
    destruct (Z.geb_spec (7 * Z.of_nat (S k)) (len p)) as [Hdone|Hmore].
    - (* complete: must be the last packet *)
      assert (c = 0%nat) by (unfold len, npk in *; lia). subst c.
      assert (Z.of_nat k + 1 = n_) as E by (unfold n_; lia).
      rewrite (proj2 (Z.eqb_eq _ _) E). cbn [expect feed]. rewrite app_nil_r.
      cbn [flat]. rewrite flat_notify_subscribers.
      cbn [n_rcv set_rcv]. rewrite tmem_tset_same. cbn [flat].
      assert (Hp : firstn (Z.to_nat (len p)) (r_data b ++ pad7 (seg7 p k)) = p).
      { unfold len. rewrite Nat2Z.id. rewrite Hd.
        change (segs p k ++ pad7 (seg7 p k)) with (segs p (S k)).
        replace (S k) with (npk (length p)) by lia. apply seg7_reassemble. }
      rewrite Hp, Hpg, Hn.
      eexists. split; [|split].
      + rewrite !app_nil_r. erewrite (deliveries_env n); [reflexivity|reflexivity|reflexivity].
      + cbn [n_rcv wake set_rcv]. rewrite tdel_tset_same. reflexivity.
      + unfold same_env. cbn. repeat split; reflexivity.
    - assert (c <> 0%nat) by (unfold len, npk in *; lia).
      assert (Z.of_nat k + 1 <> n_) as NE by (unfold n_, len, npk in *; lia).
      rewrite (proj2 (Z.eqb_neq _ _) NE).
      rewrite Hb, Hm.
      set (kz := Z.of_nat k) in *.
      assert (Hkn : kz + 1 < n_) by (unfold n_, kz, len, npk in *; lia).
      destruct (Z.eqb_spec ((kz + 1) mod g) 0) as [Hmod|Hmod].
      + (* at a window border: CTS for the next window *)
        destruct (border_hit g kz ltac:(lia) ltac:(unfold kz; lia) Hmod) as [Hh1 Hh2].
        assert (Hbd : Z.min ((kz / g + 1) * g) n_ = kz + 1) by lia.
        rewrite Hbd. rewrite (proj2 (Z.geb_le _ _)) by lia.
        cbn [flat n_rcv set_rcv]. rewrite tget_tset_same.
        cbn [r_maxrec upd_rbuf]. rewrite Hm. cbn [flat r_next r_num r_data upd_rbuf].
        rewrite Hn, Hpg. rewrite tset_tset_same.
        match goal with |- context [feed c (S k) ?n1] =>
          edestruct (IH (S k) n1) as (n' & Hf & Hr & He) end.
        * lia.
        * lia.
        * cbn [n_rcv wake set_rcv]. rewrite tget_tset_same. reflexivity.
        * unfold inv. cbn [upd_rbuf r_data r_size r_num r_maxrec r_pgn r_next].
          repeat split; auto.
          -- rewrite Hd. reflexivity.
          -- replace (Z.of_nat (S k)) with (kz + 1) by (unfold kz; lia).
             rewrite Hh2. replace ((kz / g + 1 + 1) * g) with ((kz / g + 1) * g + g) by ring. lia.
        * cbn [upd_rbuf r_src]. exact Hsrc.
        * cbn [upd_rbuf r_dst]. exact Hdst.
        * rewrite Hf.
          exists n'. split; [|split].
          -- rewrite (expect_env n) by reflexivity.
             replace (kz + 1 + 1) with (kz + 2) by ring. reflexivity.
          -- rewrite Hr. cbn [n_rcv wake set_rcv]. rewrite tdel_tset_same. reflexivity.
          -- destruct He as (E1 & E2 & E3 & E4 & E5 & E6 & E7). unfold same_env.
             cbn [n_subs n_cas n_snd n_timers n_maxp n_cmdt_iv n_bam_iv wake set_rcv] in *.
             repeat split; assumption.
      + destruct (border_miss g kz ltac:(lia) ltac:(unfold kz; lia) Hmod) as [Hm1 Hm2].
        assert (Hbd : kz + 1 < Z.min ((kz / g + 1) * g) n_) by lia.
        assert ((kz + 1 >=? Z.min ((kz / g + 1) * g) n_) = false) as -> by lia.
        cbn [flat].
        match goal with |- context [feed c (S k) ?n1] =>
          edestruct (IH (S k) n1) as (n' & Hf & Hr & He) end.
        * lia.
        * lia.
        * cbn [n_rcv wake set_rcv]. rewrite tset_tset_same, tget_tset_same. reflexivity.
        * unfold inv. cbn [upd_rbuf r_data r_size r_num r_maxrec r_pgn r_next].
          repeat split; auto.
          -- rewrite Hd. reflexivity.
          -- replace (Z.of_nat (S k)) with (kz + 1) by (unfold kz; lia).
             rewrite Hm1. reflexivity.
        * cbn [upd_rbuf r_src]. exact Hsrc.
        * cbn [upd_rbuf r_dst]. exact Hdst.
        * rewrite Hf. exists n'. split; [|split].
          -- rewrite (expect_env n) by reflexivity. reflexivity.
          -- rewrite Hr. cbn [n_rcv wake set_rcv]. rewrite tset_tset_same, tdel_tset_same. reflexivity.
          -- destruct He as (E1 & E2 & E3 & E4 & E5 & E6 & E7). unfold same_env.
             cbn [n_subs n_cas n_snd n_timers n_maxp n_cmdt_iv n_bam_iv wake set_rcv] in *.
             repeat split; assumption.
  Qed.
End Responder.

(* ------------------------------------------------------------------------------------------
   Field extraction of the TP.CM frames the generated builders produce (also used by C03) *)
Lemma le16 x : 0 <= x < 65536 -> Z.lor (x mod 256) (Z.shiftl ((x / 256) mod 256) 8) = x.
Proof.
  intros H. rewrite shiftl_mul by lia. rewrite Z.lor_comm.
  rewrite lor_mul_pow2_add by (pow2_norm; lia). pow2_norm. lia.
Qed.
Lemma le24 x : 0 <= x < 16777216 ->
  Z.lor (Z.lor (x mod 256) (Z.shiftl ((x / 256) mod 256) 8)) (Z.shiftl ((x / 65536) mod 256) 16) = x.
Proof.
  intros H.
  assert (E : Z.lor (x mod 256) (Z.shiftl ((x / 256) mod 256) 8) = x mod 65536).
  { rewrite shiftl_mul by lia. rewrite Z.lor_comm.
    rewrite lor_mul_pow2_add by (pow2_norm; lia). pow2_norm. lia. }
  rewrite E. rewrite shiftl_mul by lia. rewrite Z.lor_comm.
  rewrite lor_mul_pow2_add by (pow2_norm; lia). pow2_norm. lia.
Qed.

Lemma rts_fields sa dest prio pgn size num limit :
  0 <= size < 65536 -> 0 <= pgn < 16777216 ->
  let d := f_data (tp21_rts sa dest prio pgn size num limit) in
  length d = 8%nat /\ tp21_cm_control d = tp21_cm_RTS /\ tp21_cm_pgn d = pgn /\
  tp21_rts_message_size d = size /\ tp21_rts_num_packages d = num /\ tp21_rts_max_num_packages d = limit.
Proof.
  intros Hs Hp. cbn [tp21_rts f_data]. unfold tp21_cm_control, tp21_cm_pgn, tp21_rts_message_size,
    tp21_rts_num_packages, tp21_rts_max_num_packages, byte_at. cbn [nth length].
  rewrite !land_255. rewrite !shiftr_div by lia. pow2_norm.
  repeat split; try reflexivity.
  - apply le24; lia.
  - apply le16; lia.
Qed.

Section ResponderTop.
  Variables (prio sa dest pgn limit : Z) (p : list Z) (t0 : Z) (now : nat -> Z).
  Hypothesis Hprio : 0 <= prio < 8.
  Hypothesis Hsa : 0 <= sa < 256.
  Hypothesis Hdest : 0 <= dest < 255.
  Hypothesis Hpgn : 0 <= pgn < 262144.
  Hypothesis Hlimit : 1 <= limit.
  Hypothesis Hsize : 8 < len p < 65536.
  Let h := tp21_hash sa dest.
  Let size := len p.
  Let num := Z.of_nat (npk (length p)).

  (* T01.3 (a): the RTS opens a session and is answered by CTS(g0, 1) *)
  Theorem responder_rts n :
    accepts n dest = true -> tget (n_rcv n) h = None -> 1 <= n_maxp n ->
    let g0 := Z.min (n_maxp n) (Z.min limit num) in
    let b0 := {| r_pgn := pgn; r_size := size; r_num := num; r_next := g0; r_maxrec := Some g0; r_data := [];
                 r_deadline := t0 + tp21_T2; r_src := sa; r_dst := dest |} in
    flat (notify n t0 (f_id (tp21_rts sa dest prio pgn size num limit)) (f_data (tp21_rts sa dest prio pgn size num limit)))
    = (wake (set_rcv n (tset (n_rcv n) h b0)), [OTx (tp21_cts dest sa g0 1 pgn)], RDone 0).
  Proof.
    intros Hacc Hnone Hmaxp g0 b0.
    assert (Hsz : 0 <= size < 65536) by (unfold size; lia).
    destruct (rts_fields sa dest prio pgn size num limit Hsz ltac:(lia)) as (L & C & P & S & N & M).
    cbn [tp21_rts f_id]. rewrite notify_tp_cm by (try assumption; lia).
    unfold process_tp_cm.
    replace (length (f_data (tp21_rts sa dest prio pgn size num limit)) <? 8)%nat with false
      by (rewrite L; reflexivity).
    rewrite C, P, S, N, M. rewrite Z.eqb_refl. fold h. rewrite (tmem_none _ _ Hnone).
    cbn [flat]. reflexivity.
  Qed.

  (* every handler on a DT leaves the rest of the node alone *)
  Lemma dt_same_env prio' sa' dest' data t n :
    same_env n (fnode (process_tp_dt prio' sa' dest' data t n)) /\
    accepts (fnode (process_tp_dt prio' sa' dest' data t n)) dest = accepts n dest.
  Proof.
    assert (G : forall n', same_env n n' -> accepts n' dest = accepts n dest).
    { intros n' (E1 & E2 & _). unfold accepts, ecu_acceptable. rewrite E1, E2. reflexivity. }
    assert (S : same_env n (fnode (process_tp_dt prio' sa' dest' data t n))).
    { unfold fnode, process_tp_dt. destruct data as [|seqno rest]; [cbn; unfold same_env; repeat split; reflexivity|].
      destruct (tget (n_rcv n) (tp21_hash sa' dest')) as [b|]; [|cbn; unfold same_env; repeat split; reflexivity].
      destruct (len (r_data b ++ rest) >=? r_size b).
      - destruct (negb (dest' =? addr_GLOBAL)); cbn [flat]; rewrite flat_notify_subscribers;
          cbn [n_rcv set_rcv]; rewrite tmem_tset_same; cbn; unfold same_env; repeat split; reflexivity.
      - destruct (negb (dest' =? addr_GLOBAL) && (seqno >=? r_next b)).
        + destruct (r_maxrec b) as [mr|] eqn:Emr; [|cbn; unfold same_env; repeat split; reflexivity].
          cbn [flat n_rcv set_rcv]. rewrite tget_tset_same. cbn [upd_rbuf r_maxrec]. rewrite Emr.
          cbn; unfold same_env; repeat split; reflexivity.
        + cbn; unfold same_env; repeat split; reflexivity. }
    split; [exact S|apply G; exact S].
  Qed.

  Definition dt_id := f_id (tp21_dt sa dest []).

  (* feeding the DT frames through notify (full dispatch) *)
  Definition feed1N (k : nat) (n : node) : node * list out :=
    let '(n', os, _) := flat (notify n (now k) dt_id (dt_payload p (Z.of_nat k))) in (n', os).
  Fixpoint feedN (cnt k : nat) (n : node) : node * list out :=
    match cnt with
    | O => (n, [])
    | S c => let '(n1, o1) := feed1N k n in let '(n2, o2) := feedN c (S k) n1 in (n2, o1 ++ o2)
    end.

  Lemma feedN_feed : forall cnt k n, accepts n dest = true ->
    feedN cnt k n = feed 7 sa dest p now cnt k n.
  Proof.
    induction cnt as [|c IH]; intros k n Hacc; [reflexivity|].
    cbn [feedN feed]. unfold feed1N, feed1, dt_id. cbn [tp21_dt f_id].
    rewrite notify_tp_dt by (try assumption; lia).
    destruct (dt_same_env 7 sa dest (dt_payload p (Z.of_nat k)) (now k) n) as [_ Ha].
    unfold fnode in Ha.
    destruct (flat (process_tp_dt 7 sa dest (dt_payload p (Z.of_nat k)) (now k) n)) as [[n1 o1] r1].
    cbn [fst] in Ha. rewrite IH by (rewrite Ha; exact Hacc). reflexivity.
  Qed.

  (* T01.3 (b): after the RTS, the canonical DT_1..DT_n (arriving at arbitrary instants) produce
     exactly: a CTS at every window border, the EndOfMsgACK and ONE delivery of p after the last;
     the receive table is as before the RTS; nothing else in the node changed. *)
  Theorem responder_dt_phase n :
    accepts n dest = true -> tget (n_rcv n) h = None -> 1 <= n_maxp n ->
    let g0 := Z.min (n_maxp n) (Z.min limit num) in
    let n1 := fnode (notify n t0 (f_id (tp21_rts sa dest prio pgn size num limit))
                             (f_data (tp21_rts sa dest prio pgn size num limit))) in
    exists n', feedN (npk (length p)) 0 n1 = (n', expect 7 sa dest pgn p n1 g0 0 (npk (length p))) /\
               n_rcv n' = tdel (n_rcv n1) h /\ same_env n1 n'.
  Proof.
    intros Hacc Hnone Hmaxp g0 n1.
    assert (Hn1 : n1 = wake (set_rcv n (tset (n_rcv n) h
              {| r_pgn := pgn; r_size := size; r_num := num; r_next := g0; r_maxrec := Some g0; r_data := [];
                 r_deadline := t0 + tp21_T2; r_src := sa; r_dst := dest |}))).
    { unfold n1, fnode. rewrite responder_rts by assumption. reflexivity. }
    assert (Hacc1 : accepts n1 dest = true).
    { rewrite Hn1. unfold accepts, ecu_acceptable in *. cbn [n_subs n_cas wake set_rcv]. exact Hacc. }
    rewrite feedN_feed by exact Hacc1.
    assert (Hnum : 1 <= num) by (unfold num, npk; unfold len in Hsize; lia).
    assert (Hg : 1 <= g0 <= Z.of_nat (npk (length p))) by (unfold g0; fold num; lia).
    eapply (feed_inv 7 sa dest pgn p now ltac:(unfold addr_GLOBAL; lia) g0 Hg).
    - lia.
    - unfold npk; unfold len in Hsize; lia.
    - rewrite Hn1. cbn [n_rcv wake set_rcv]. fold h. apply tget_tset_same.
    - unfold inv. cbn [r_data r_size r_num r_maxrec r_pgn r_next segs]. repeat split; try reflexivity.
      change (Z.of_nat 0) with 0. rewrite Z.div_0_l by lia. fold num. lia.
    - reflexivity.
    - reflexivity.
  Qed.
End ResponderTop.

(* non-vacuity: a 30-byte message, windows 3 (RTS limit) vs 2 (own maximum) *)
Example responder_example :
  let p := map Z.of_nat (seq 0 30) in
  let n0 := subscribe (init_node 2 None None) 1 (FAddr 32) in
  let n1 := fnode (notify n0 0 (f_id (tp21_rts 16 32 6 53248 30 5 3)) (f_data (tp21_rts 16 32 6 53248 30 5 3))) in
  length (snd (feedN 16 32 p (fun _ => 10) 5 0 n1)) = 4%nat /\ accepts n0 32 = true.
Proof. vm_compute. split; reflexivity. Qed.

From Coq Require Import ZArith List Lia Bool Arith ZifyBool ZifyNat.
Import ListNotations.
Open Scope Z_scope.
Ltac Zify.zify_post_hook ::= Z.div_mod_to_equations.

Record cpg := { cpgn : Z; cdata : list Z }.           (* tos = 2, tf = 0 fixed *)
Definition hdr (c : cpg) : list Z :=
  [ Z.lor (Z.lor (Z.shiftl 2 5) (Z.shiftl 0 2)) (Z.land (Z.shiftr (cpgn c) 16) 3);
    Z.land (Z.shiftr (cpgn c) 8) 255; Z.land (cpgn c) 255; Z.of_nat (length (cdata c)) ].
Definition pack1 (c : cpg) : list Z := hdr c ++ cdata c.
Definition pack (l : list cpg) : list Z := concat (map pack1 l).

(* _LUT_FD_DLC as a function *)
Definition fdlen (n : nat) : nat :=
  (if n <=? 8 then n else if n <=? 12 then 12 else if n <=? 16 then 16 else if n <=? 20 then 20
  else if n <=? 24 then 24 else if n <=? 32 then 32 else if n <=? 48 then 48 else 64)%nat.
(* padding loop: three zeros then 0xAA *)
Definition padding (k : nat) : list Z := repeat 0 (Nat.min k 3) ++ repeat 170 (k - 3).
Definition frame (l : list cpg) : list Z := let d := pack l in d ++ padding (fdlen (length d) - length d).

(* _process_multi_pg *)
Fixpoint unpack (fuel : nat) (d : list Z) : list cpg :=
  match fuel with O => [] | S f =>
    if (length d <=? 4)%nat then [] else
    match d with
    | b0 :: b1 :: b2 :: b3 :: rest =>
        let tos := Z.land (Z.shiftr b0 5) 7 in
        if tos =? 0 then [] else
        let tf := Z.land (Z.shiftr b0 2) 7 in
        let pg := Z.lor (Z.lor (Z.shiftl (Z.land b0 3) 16) (Z.shiftl b1 8)) b2 in
        let n := Z.to_nat (Z.land b3 255) in
        (if (tos =? 2) && (tf =? 0) then [{| cpgn := pg; cdata := firstn n rest |}] else []) ++ unpack f (skipn n rest)
    | _ => [] end end.

Definition ok (c : cpg) : Prop := 0 <= cpgn c < 262144 /\ (1 <= length (cdata c) <= 60)%nat.

(* header decode: finite domain (2^18 PGNs), proved by an exhaustive sweep lifted with forallb_forall *)
Definition hdr_ok (pg : Z) : bool :=
  let b0 := Z.lor (Z.lor (Z.shiftl 2 5) (Z.shiftl 0 2)) (Z.land (Z.shiftr pg 16) 3) in
  (Z.land (Z.shiftr b0 5) 7 =? 2) && (Z.land (Z.shiftr b0 2) 7 =? 0) &&
  (Z.lor (Z.lor (Z.shiftl (Z.land b0 3) 16) (Z.shiftl (Z.land (Z.shiftr pg 8) 255) 8)) (Z.land pg 255) =? pg).
Fixpoint zrange (fuel : nat) (start : Z) : list Z := match fuel with O => [] | S f => start :: zrange f (start + 1) end.
Lemma In_zrange fuel : forall start x, start <= x < start + Z.of_nat fuel -> In x (zrange fuel start).
Proof. induction fuel as [|f IH]; intros start x H; [lia|]. cbn [zrange]. destruct (Z.eq_dec start x); [left; auto|right; apply IH; lia]. Qed.
Lemma hdr_sweep : forallb hdr_ok (zrange (Z.to_nat 262144) 0) = true.
Proof. vm_compute. reflexivity. Qed.
Lemma hdr_decode pg : 0 <= pg < 262144 -> hdr_ok pg = true.
Proof.
  intros H. pose proof hdr_sweep as S. rewrite forallb_forall in S. apply S. apply In_zrange. lia.
Qed.

Lemma unpack_pack1 fuel c rest : ok c -> (S fuel >= 1)%nat ->
  unpack (S fuel) (pack1 c ++ rest) = c :: unpack fuel rest.
Proof.
  intros [Hp Hl] _. destruct c as [pg d]. cbn [cpgn cdata] in *.
  pose proof (hdr_decode pg Hp) as Hk. unfold hdr_ok in Hk.
  apply andb_prop in Hk. destruct Hk as [Hk H3]. apply andb_prop in Hk. destruct Hk as [H1 H2].
  apply Z.eqb_eq in H1, H2, H3.
  unfold pack1, hdr. cbn [cpgn cdata app].
  cbn [unpack].
  assert ((length (Z.lor (Z.lor (Z.shiftl 2 5) (Z.shiftl 0 2)) (Z.land (Z.shiftr pg 16) 3)
      :: Z.land (Z.shiftr pg 8) 255 :: Z.land pg 255 :: Z.of_nat (length d) :: d ++ rest) <=? 4)%nat = false) as ->.
  { apply Nat.leb_gt. cbn [length]. rewrite app_length. lia. }
  rewrite H1, H2. cbn [Z.eqb andb].
  assert (Z.land (Z.of_nat (length d)) 255 = Z.of_nat (length d)) as ->.
  { change 255 with (Z.ones 8). rewrite Z.land_ones by lia. change (2^8) with 256. lia. }
  rewrite Nat2Z.id. rewrite H3.
  rewrite firstn_app, Nat.sub_diag, firstn_all. cbn [firstn]. rewrite app_nil_r.
  rewrite skipn_app, Nat.sub_diag, skipn_all. cbn [skipn app]. reflexivity.
Qed.

(* padding is skipped: shorter than 5 bytes by the length test, otherwise by TOS = 0 *)
Lemma unpack_padding fuel k : unpack fuel (padding k) = [].
Proof.
  destruct fuel; [reflexivity|]. cbn [unpack].
  destruct (Nat.leb_spec (length (padding k)) 4) as [|Hlen]; [reflexivity|].
  unfold padding in *. rewrite app_length, !repeat_length in Hlen.
  assert (5 <= k)%nat by lia.
  replace (Nat.min k 3) with 3%nat by lia.
  destruct k as [|[|[|[|[|k]]]]]; try lia. cbn. reflexivity.
Qed.

Theorem unpack_frame l : Forall ok l -> unpack (S (length l)) (frame l) = l.
Proof.
  unfold frame. generalize (padding (fdlen (length (pack l)) - length (pack l))) as pad.
  intros pad H.
Abort.

Theorem unpack_frame l fuel : Forall ok l -> (length l <= fuel)%nat ->
  unpack (S fuel) (pack l ++ padding (fdlen (length (pack l)) - length (pack l))) = l.
Proof.
  generalize (fdlen (length (pack l)) - length (pack l))%nat as k. intros k H. revert fuel.
  induction H as [|c l Hc Hl IH]; intros fuel Hf.
  - cbn [pack map concat app]. apply unpack_padding.
  - unfold pack in *. cbn [map concat]. rewrite <- app_assoc.
    rewrite unpack_pack1 by (auto; lia). f_equal.
    destruct fuel; [cbn in Hf; lia|]. apply IH. cbn in Hf. lia.
Qed.
Print Assumptions unpack_frame.

(* frame length is legal and <= 64 whenever the fill accounting allowed it *)
Lemma fdlen_legal n : (n <= 64)%nat -> (n <= fdlen n <= 64)%nat /\ In (fdlen n) [0;1;2;3;4;5;6;7;8;12;16;20;24;32;48;64]%nat.
Proof.
  intros H. unfold fdlen.
  repeat match goal with |- context[(?a <=? ?b)%nat] => destruct (Nat.leb_spec a b) end; (split; [lia|]); cbn; try tauto.
  do 9 (destruct n as [|n]; [cbn; tauto|]). lia.
Qed.
Theorem frame_len l : (length (pack l) <= 64)%nat -> length (frame l) = fdlen (length (pack l)).
Proof.
  intros H. unfold frame, padding. rewrite !app_length, !repeat_length.
  pose proof (fdlen_legal _ H). lia.
Qed.

From Coq Require Import ZArith List Lia Bool Arith ZifyBool ZifyNat.
Import ListNotations.
Open Scope Z_scope.
Ltac Zify.zify_post_hook ::= Z.div_mod_to_equations.

(* ---------- chunking ---------- *)
Definition seg7 (p : list Z) (k : nat) : list Z := firstn 7 (skipn (7*k) p).
Definition pad7 (l : list Z) : list Z := l ++ repeat 255 (7 - length l).
Definition npk (n : nat) : nat := (n + 6) / 7.

Lemma pad7_len l : (length l <= 7)%nat -> length (pad7 l) = 7%nat.
Proof. intros; unfold pad7; rewrite app_length, repeat_length; lia. Qed.
Lemma seg7_len_le p k : (length (seg7 p k) <= 7)%nat.
Proof. unfold seg7; rewrite firstn_length; lia. Qed.

(* concat of first k padded segments *)
Fixpoint segs (p : list Z) (k : nat) : list Z :=
  match k with O => [] | S k' => segs p k' ++ pad7 (seg7 p k') end.
Lemma segs_len p k : length (segs p k) = (7*k)%nat.
Proof. induction k; simpl; [reflexivity|]. rewrite app_length, IHk, pad7_len by apply seg7_len_le. lia. Qed.

(* while 7k <= |p| the first k segments are full: segs p k = firstn 7k p *)
Lemma segs_full p k : (7*k <= length p)%nat -> segs p k = firstn (7*k) p.
Proof.
  induction k; intros H; [reflexivity|].
  cbn [segs]. rewrite IHk by lia.
  assert (Hs : length (seg7 p k) = 7%nat).
  { unfold seg7. rewrite firstn_length, skipn_length. lia. }
  unfold pad7. rewrite Hs. cbn [repeat Nat.sub]. rewrite app_nil_r.
  unfold seg7. replace (7 * S k)%nat with (7*k + 7)%nat by lia.
  rewrite <- (firstn_skipn (7*k) (firstn (7*k+7) p)) at 1.
  rewrite firstn_firstn. replace (Nat.min (7*k) (7*k+7)) with (7*k)%nat by lia.
  rewrite firstn_skipn_comm. reflexivity.
Qed.

Lemma firstn_app_pad (a b : list Z) : firstn (length a) (a ++ b) = a.
Proof. rewrite firstn_app, Nat.sub_diag, firstn_all. simpl. apply app_nil_r. Qed.

Theorem seg7_reassemble p : firstn (length p) (segs p (npk (length p))) = p.
Proof.
  set (n := length p). set (q := (n / 7)%nat).
  assert (Hq : (7*q <= n)%nat) by (unfold q; lia).
  destruct (Nat.eq_dec (n mod 7) 0) as [E|E].
  - assert (npk n = q) as -> by (unfold npk, q; lia).
    rewrite segs_full by (fold n; lia).
    assert (n = 7*q)%nat by (unfold q; lia).
    rewrite firstn_firstn. replace (Nat.min n (7*q)) with n by lia. apply firstn_all.
  - assert (npk n = S q) as -> by (unfold npk, q; lia).
    cbn [segs]. rewrite segs_full by (fold n; lia).
    unfold pad7, seg7. rewrite app_assoc.
    assert (firstn (7*q) p ++ firstn 7 (skipn (7*q) p) = p) as ->.
    { rewrite firstn_all2 with (n:=7%nat). apply firstn_skipn. rewrite skipn_length. fold n. unfold q. lia. }
    apply firstn_app_pad.
Qed.

(* ---------- responder: _process_tp_dt of J1939-21 (no timeouts, accepted dest) ---------- *)
Record rbuf := { size : nat; num : Z; border : Z; maxrec : Z; data : list Z }.
Inductive out := Cts (n next : Z) | EomAck | Deliver (d : list Z).
(* returns None for the buffer when the session is closed *)
Definition on_dt (b : rbuf) (seqno : Z) (payload7 : list Z) : option rbuf * list out :=
  let d := data b ++ payload7 in
  if (size b <=? length d)%nat then (None, [EomAck; Deliver (firstn (size b) d)])
  else if border b <=? seqno then
    (Some {| size := size b; num := num b; border := Z.min (border b + maxrec b) (num b); maxrec := maxrec b; data := d |},
     [Cts (Z.min (maxrec b) (num b - border b)) (border b + 1)])
  else (Some {| size := size b; num := num b; border := border b; maxrec := maxrec b; data := d |}, []).

Fixpoint feed (b : rbuf) (p : list Z) (k : nat) (cnt : nat) : option rbuf * list out :=
  (* feed packets k, k+1, ..., k+cnt-1 (0-based) *)
  match cnt with O => (Some b, [])
  | S c => match on_dt b (Z.of_nat k + 1) (pad7 (seg7 p k)) with
           | (None, o) => (None, o)
           | (Some b', o) => let '(r, o') := feed b' p (S k) c in (r, o ++ o') end end.

(* invariant before packet k (0-based): data = segs p k ; border is the next multiple-of-g border > k *)
Definition bord (g n : Z) (k : Z) : Z := Z.min ((k / g + 1) * g) n.






(* expected outputs for packets k .. n-1 *)
Fixpoint expect (p : list Z) (g n : Z) (k : nat) (cnt : nat) : list out :=
  match cnt with O => []
  | S c => (if Z.of_nat k + 1 =? n then [EomAck; Deliver p]
            else if (Z.of_nat k + 1) mod g =? 0 then [Cts (Z.min g (n - (Z.of_nat k + 1))) (Z.of_nat k + 2)] else [])
           ++ expect p g n (S k) c end.

Lemma npk_bounds (s : nat) : (7 * (npk s - 1) < s)%nat \/ s = 0%nat.
Proof. unfold npk. lia. Qed.


Lemma border_hit g k : 0 < g -> 0 <= k -> (k + 1) mod g = 0 -> (k / g + 1) * g = k + 1 /\ (k + 1) / g = k / g + 1.
Proof.
  intros Hg Hk Hm.
  pose proof (Z.div_mod (k+1) g ltac:(lia)) as E. rewrite Hm in E.
  set (q := (k+1)/g) in *.
  assert (1 <= q) by (destruct (Z_lt_le_dec q 1); [nia|lia]).
  assert (k / g = q - 1) as ->.
  { symmetry. apply Z.div_unique with (r := g - 1); [lia|nia]. }
  split; nia.
Qed.
Lemma border_miss g k : 0 < g -> 0 <= k -> (k + 1) mod g <> 0 -> (k + 1) / g = k / g /\ k + 1 < (k / g + 1) * g.
Proof.
  intros Hg Hk Hm.
  pose proof (Z.div_mod (k+1) g ltac:(lia)) as E.
  pose proof (Z.mod_pos_bound (k+1) g Hg) as B.
  set (q := (k+1)/g) in *. set (r := (k+1) mod g) in *.
  assert (k / g = q) as ->.
  { symmetry. apply Z.div_unique with (r := r - 1); [lia|nia]. }
  split; [reflexivity|nia].
Qed.

Lemma feed_inv p g : 
  let n := Z.of_nat (npk (length p)) in
  1 <= g <= n ->
  forall cnt k b, (k + cnt = npk (length p))%nat -> (0 < cnt)%nat ->
    data b = segs p k -> size b = length p -> num b = n -> maxrec b = g ->
    border b = Z.min ((Z.of_nat k / g + 1) * g) n ->
    feed b p k cnt = (None, expect p g n k cnt).
Proof.
  intros n Hg. induction cnt as [|c IH]; intros k b Hk Hc Hd Hs Hn Hm Hb; [lia|].
  cbn [feed expect]. unfold on_dt.
  assert (Hlen : length (data b ++ pad7 (seg7 p k)) = (7 * S k)%nat).
  { rewrite app_length, Hd, segs_len, pad7_len by apply seg7_len_le. lia. }
  rewrite Hlen, Hs.
  destruct (Nat.leb_spec (length p) (7 * S k)) as [Hdone|Hmore].
  - (* complete: must be the last packet *)
    assert (c = 0%nat) by (unfold npk in *; lia). subst c.
    assert (Z.of_nat k + 1 = n) as E by (unfold n; lia).
    rewrite (proj2 (Z.eqb_eq _ _) E). cbn [expect]. rewrite app_nil_r.
    rewrite Hd. change (segs p k ++ pad7 (seg7 p k)) with (segs p (S k)).
    replace (S k) with (npk (length p)) by lia. rewrite seg7_reassemble. reflexivity.
  - assert (c <> 0%nat) by (unfold npk in *; lia).
    assert (Z.of_nat k + 1 <> n) as NE by (unfold n; lia).
    rewrite (proj2 (Z.eqb_neq _ _) NE).
    rewrite Hb, Hn, Hm.
    set (kz := Z.of_nat k) in *.
    assert (Hkn : kz + 1 < n) by (unfold n, kz; lia).
    destruct (Z.eqb_spec ((kz + 1) mod g) 0) as [Hmod|Hmod].
    + (* at a border *)
      destruct (border_hit g kz ltac:(lia) ltac:(unfold kz; lia) Hmod) as [Hh1 Hh2].
      assert (Hbd : Z.min ((kz / g + 1) * g) n = kz + 1) by lia.
      rewrite Hbd. rewrite (proj2 (Z.leb_le _ _)) by lia.
      replace (kz + 1 + 1) with (kz + 2) by ring.
      erewrite IH; [reflexivity| lia | lia | | | | | ]; cbn [data size num maxrec border]; auto.
      * rewrite Hd. reflexivity.
      * replace (Z.of_nat (S k)) with (kz + 1) by (unfold kz; lia).
        rewrite Hh2. replace ((kz / g + 1 + 1) * g) with ((kz / g + 1) * g + g) by ring. lia.
    + destruct (border_miss g kz ltac:(lia) ltac:(unfold kz; lia) Hmod) as [Hm1 Hm2].
      assert (Hbd : kz + 1 < Z.min ((kz / g + 1) * g) n) by lia.
      rewrite (proj2 (Z.leb_gt _ _)) by lia.
      erewrite IH; [reflexivity| lia | lia | | | | | ]; cbn [data size num maxrec border]; auto.
      * rewrite Hd. reflexivity.
      * replace (Z.of_nat (S k)) with (kz + 1) by (unfold kz; lia).
        rewrite Hm1. reflexivity.
Qed.

(* the statement of T01.3 for the DT phase *)
Theorem responder_dt_phase p maxp limit :
  let n := Z.of_nat (npk (length p)) in
  let g := Z.min maxp (Z.min limit n) in
  (8 < length p)%nat -> 1 <= maxp -> 1 <= limit ->
  feed {| size := length p; num := n; border := g; maxrec := g; data := [] |} p 0 (npk (length p))
  = (None, expect p g n 0 (npk (length p))).
Proof.
  intros n g Hp H1 H2. assert (Hn1 : 1 <= n) by (unfold n, npk; lia).
  assert (Hg : 1 <= g <= n) by (unfold g; lia).
  apply (feed_inv p g Hg); cbn [data size num maxrec border]; try reflexivity.
  - unfold npk; lia.
  - change (Z.of_nat 0) with 0. rewrite Z.div_0_l by lia. fold n. lia.
Qed.
Print Assumptions responder_dt_phase.
Example nonvac : exists p, (8 < length p)%nat /\ length (snd (feed {| size := length p; num := 5; border := 2; maxrec := 2; data := [] |} p 0 5)) = 4%nat.
Proof. exists (map Z.of_nat (seq 0 30)). split; [simpl; lia|]. vm_compute. reflexivity. Qed.

"""Prototype: fail-closed symbolic evaluator for straight-line Python -> Coq (Z) expressions."""
import ast, sys
class Unsupported(Exception): pass
BIN={ast.LShift:'Z.shiftl',ast.RShift:'Z.shiftr',ast.BitAnd:'Z.land',ast.BitOr:'Z.lor',ast.Add:'Z.add',ast.Sub:'Z.sub',ast.Mult:'Z.mul'}
def const_eval(n):
    try: return eval(compile(ast.Expression(n),'<c>','eval'),{'__builtins__':{}})
    except Exception: return None
class Ev:
    def __init__(s, env, selfenv, consts, ctors):
        s.env=dict(env); s.selfenv=dict(selfenv); s.consts=consts; s.ctors=ctors; s.sent=None
    def e(s,n):
        if isinstance(n,ast.Constant):
            if isinstance(n.value,bool): return 'true' if n.value else 'false'
            if isinstance(n.value,int): return str(n.value) if n.value>=0 else f'({n.value})'
            raise Unsupported(ast.dump(n))
        if isinstance(n,ast.Name):
            if n.id in s.env: return s.env[n.id]
            raise Unsupported('name '+n.id)
        if isinstance(n,ast.Attribute):
            # self.x  /  obj.prop on translated object / Class.CONST chains
            if isinstance(n.value,ast.Name) and n.value.id=='self':
                if n.attr in s.selfenv: return s.selfenv[n.attr]
                raise Unsupported('self.'+n.attr)
            dotted=s.dotted(n)
            if dotted in s.consts: return str(s.consts[dotted])
            base=s.e(n.value)
            if isinstance(base,dict):       # symbolic object
                if n.attr in base: return base[n.attr]
                if ('prop',n.attr) in base: return base[('prop',n.attr)]
            raise Unsupported('attr '+ast.dump(n))
        if isinstance(n,ast.BinOp):
            c=const_eval(n)
            if isinstance(c,int): return str(c)
            if isinstance(n.op,ast.Pow): raise Unsupported('pow')
            if type(n.op) not in BIN: raise Unsupported(ast.dump(n.op))
            return f'({BIN[type(n.op)]} {s.e(n.left)} {s.e(n.right)})'
        if isinstance(n,ast.List): return '['+'; '.join(s.e(x) for x in n.elts)+']'
        if isinstance(n,ast.Subscript):
            if isinstance(n.slice,ast.Constant) and isinstance(n.slice.value,int):
                return f'(byte_at {s.e(n.value)} {n.slice.value})'
            raise Unsupported('subscript')
        if isinstance(n,ast.Call):
            f=n.func
            fname=f.id if isinstance(f,ast.Name) else s.dotted(f)
            if fname=='min' and len(n.args)==2: return f'(Z.min {s.e(n.args[0])} {s.e(n.args[1])})'
            if fname in s.ctors:
                return s.ctors[fname](s,[s.e(a) for a in n.args],{k.arg:s.e(k.value) for k in n.keywords})
            raise Unsupported('call '+str(fname))
        if isinstance(n,ast.Compare) and len(n.ops)==1:
            op={ast.LtE:'Z.leb',ast.Lt:'Z.ltb',ast.GtE:'Z.geb',ast.Gt:'Z.gtb',ast.Eq:'Z.eqb'}.get(type(n.ops[0]))
            if not op: raise Unsupported('cmp')
            return f'({op} {s.e(n.left)} {s.e(n.comparators[0])})'
        if isinstance(n,ast.BoolOp) and isinstance(n.op,ast.And): return '('+' && '.join(s.e(v) for v in n.values)+')'
        if isinstance(n,ast.IfExp):
            return f'(if {s.e(n.test)} then {s.e(n.body)} else {s.e(n.orelse)})'
        raise Unsupported(ast.dump(n)[:80])
    def dotted(s,n):
        parts=[]
        while isinstance(n,ast.Attribute): parts.append(n.attr); n=n.value
        if isinstance(n,ast.Name): parts.append(n.id); return '.'.join(reversed(parts))
        return None
    def run(s,body):
        for st in body:
            if isinstance(st,ast.Expr) and isinstance(st.value,ast.Constant): continue   # docstring
            if isinstance(st,ast.Assign) and len(st.targets)==1:
                t=st.targets[0]; v=s.e(st.value)
                if isinstance(t,ast.Name): s.env[t.id]=v
                elif isinstance(t,ast.Attribute) and isinstance(t.value,ast.Name) and t.value.id=='self': s.selfenv[t.attr]=v
                else: raise Unsupported('assign target')
            elif isinstance(st,ast.AugAssign) and isinstance(st.target,ast.Name):
                s.env[st.target.id]=f'({BIN[type(st.op)]} {s.env[st.target.id]} {s.e(st.value)})'
            elif isinstance(st,ast.Return): return s.e(st.value)
            elif isinstance(st,ast.Expr) and isinstance(st.value,ast.Call) and s.dotted(st.value.func) in ('self.__send_message',):
                a=st.value.args; kw={k.arg:s.e(k.value) for k in st.value.keywords}
                return f'{{| f_id := {s.e(a[0])}; f_ext := {s.e(a[1])}; f_fd := {kw.get("fd_format","false")}; f_data := {s.e(a[2])} |}}'
            else: raise Unsupported(type(st).__name__)
        return None
def find(tree,cls,fn,kind=None):
    for c in ast.walk(tree):
        if isinstance(c,ast.ClassDef) and c.name==cls:
            for f in c.body:
                if isinstance(f,ast.FunctionDef) and f.name==fn:
                    decs=[ast.unparse(d) for d in f.decorator_list]
                    if kind=='getter' and 'property' not in decs: continue
                    if kind=='setter' and not any(d.endswith('.setter') for d in decs): continue
                    return f
    raise Unsupported(f'{cls}.{fn} not found')
def class_consts(tree,prefix=''):
    out={}
    for c in tree.body if isinstance(tree,ast.Module) else tree.body:
        if isinstance(c,ast.ClassDef):
            for k,v in class_consts(c,prefix+c.name+'.').items(): out[k]=v
        elif isinstance(c,ast.Assign) and len(c.targets)==1 and isinstance(c.targets[0],ast.Name):
            v=const_eval(c.value)
            if isinstance(v,(int,float)): out[prefix+c.targets[0].id]=v
    return out

R='/repo/j1939/'
mid=ast.parse(open(R+'message_id.py').read()); pg=ast.parse(open(R+'parameter_group_number.py').read())
nm=ast.parse(open(R+'name.py').read()); t21=ast.parse(open(R+'j1939_21.py').read())
consts={}
for k,v in class_consts(pg).items(): consts[k]=v
for k,v in class_consts(t21).items(): consts[k]=v; consts['self.'+k.split('.',1)[1]]=v
out=[]
# MessageId.can_id getter: fields are parameters
f=find(mid,'MessageId','can_id','getter')
ev=Ev({}, {'priority':'prio','parameter_group_number':'pgn','source_address':'sa'}, consts, {})
out.append(f"Definition mid_can_id (prio pgn sa : Z) : Z := {ev.run(f.body)}.")
f=find(mid,'MessageId','can_id','setter')
ev=Ev({'can_id':'id'},{},consts,{}); ev.run(f.body)
out.append(f"Definition mid_parse (id : Z) : Z * Z * Z := ({ev.selfenv['priority']}, {ev.selfenv['parameter_group_number']}, {ev.selfenv['source_address']}).")
# PGN
f=find(pg,'ParameterGroupNumber','__init__')
ev=Ev({'data_page':'dp','pdu_format':'pf','pdu_specific':'ps'},{},consts,{}); ev.run(f.body); pgn_init=dict(ev.selfenv)
f=find(pg,'ParameterGroupNumber','value','getter')
ev=Ev({}, {'data_page':'dp','pdu_format':'pf','pdu_specific':'ps'}, consts, {})
out.append(f"Definition pgn_value (dp pf ps : Z) : Z := {ev.run(f.body)}.")
out.append(f"Definition pgn_mk (dp pf ps : Z) : Z * Z * Z := ({pgn_init['data_page']}, {pgn_init['pdu_format']}, {pgn_init['pdu_specific']}).")
f=find(pg,'ParameterGroupNumber','is_pdu2_format','getter')
ev=Ev({}, {'pdu_format':'pf'}, consts, {})
out.append(f"Definition pgn_is_pdu2 (pf : Z) : bool := {ev.run(f.body)}.")
# Name.value getter
f=find(nm,'Name','value','getter')
fields=['identity_number','manufacturer_code','ecu_instance','function_instance','function','reserved_bit','vehicle_system','vehicle_system_instance','industry_group','arbitrary_address_capable']
ev=Ev({}, {k:k for k in fields}, consts, {})
out.append(f"Definition name_value ({' '.join(fields)} : Z) : Z := {ev.run(f.body)}.")
f=find(nm,'Name','value','setter')
ev=Ev({'value':'v'},{},consts,{}); ev.run(f.body)
out.append("Definition name_of_value (v : Z) := ("+", ".join(ev.selfenv[k] for k in fields)+").")
# constructors usable inside builders
def ctor_pgn(s,args,kw):
    dp,pf,ps=(args+['0','0','0'])[:3] if len(args)<3 else args
    return {'data_page':f'(fst (fst (pgn_mk {dp} {pf} {ps})))','pdu_format':'?','pdu_specific':'?',('prop','value'):f'(pgn_value_mk {dp} {pf} {ps})'}
def ctor_mid(s,args,kw):
    return {('prop','can_id'):f'(mid_can_id_mk {kw["priority"]} {kw["parameter_group_number"]} {kw["source_address"]})'}
ctors={'ParameterGroupNumber':ctor_pgn,'MessageId':ctor_mid}
for fn,params in [('__send_tp_cts',['src_address','dest_address','num_packets','next_packet','pgn_value']),
                  ('__send_tp_rts',['src_address','dest_address','priority','pgn_value','message_size','num_packets','max_cmdt_packets']),
                  ('__send_tp_dt',['src_address','dest_address','data']),
                  ('__send_tp_abort',['src_address','dest_address','reason','pgn_value'])]:
    f=find(t21,'J1939_21',fn)
    ev=Ev({p:p for p in params},{},consts,ctors)
    out.append(f"Definition tp21{fn.replace('__send','')} ({' '.join(params)} : Z) : frame := {ev.run(f.body)}.")
f=find(t21,'J1939_21','_buffer_hash'); ev=Ev({'src_address':'sa','dest_address':'da'},{},consts,{})
out.append(f"Definition tp21_hash (sa da : Z) : Z := {ev.run(f.body)}.")
print("\n".join(out))
print("(* timeouts:", {k:v for k,v in consts.items() if 'Timeout' in k and not k.startswith('self')}, "*)")

"""Prototype: extract the shared-access skeleton of async_job_thread (C08)."""
import ast
SHARED={'_rcv_buffer','_snd_buffer','_multi_pg_snd_buffer'}
def shared_name(n):
    return n.attr if isinstance(n,ast.Attribute) and isinstance(n.value,ast.Name) and n.value.id=='self' and n.attr in SHARED else None
class V(ast.NodeVisitor):
    def __init__(s): s.out=[]; s.guards=[]   # guards: stack of ('in', tbl, keyvar) / ('try',)
    def emit(s,kind,tbl,node,extra=''):
        s.out.append((node.lineno,kind,tbl,extra,tuple(s.guards)))
    def visit_For(s,n):
        it=n.iter
        if isinstance(it,ast.Call) and isinstance(it.func,ast.Name) and it.func.id=='list' and shared_name(it.args[0]):
            s.emit('Snapshot',shared_name(it.args[0]),n,ast.unparse(n.target))
        elif shared_name(it): s.emit('IterLive',shared_name(it),n)
        for b in n.body: s.visit(b)
    def visit_Subscript(s,n):
        t=shared_name(n.value)
        if t:
            kind={'Load':'Lookup','Del':'Del','Store':'Store'}[type(n.ctx).__name__]
            s.emit(kind,t,n,ast.unparse(n.slice))
        s.generic_visit(n)
    def visit_Call(s,n):
        if isinstance(n.func,ast.Attribute) and shared_name(n.func.value):
            t=shared_name(n.func.value); m=n.func.attr
            if m=='get': s.emit('Get',t,n,ast.unparse(n.args[0]))
            elif m=='pop': s.emit('PopDefault' if len(n.args)>1 else 'Pop',t,n,ast.unparse(n.args[0]))
            else: s.emit('Call:'+m,t,n)
        s.generic_visit(n)
    def visit_If(s,n):
        g=None
        c=n.test
        if isinstance(c,ast.Compare) and len(c.ops)==1 and isinstance(c.ops[0],ast.In) and shared_name(c.comparators[0]):
            g=('in',shared_name(c.comparators[0]),ast.unparse(c.left))
        s.visit(n.test)
        if g: s.guards.append(g)
        for b in n.body: s.visit(b)
        if g: s.guards.pop()
        for b in n.orelse: s.visit(b)
    def visit_Try(s,n):
        catches=any(h.type is None or 'KeyError' in ast.unparse(h.type) or 'Exception' in ast.unparse(h.type) for h in n.handlers)
        if catches: s.guards.append(('try',))
        for b in n.body: s.visit(b)
        if catches: s.guards.pop()
        for h in n.handlers:
            for b in h.body: s.visit(b)
for fn,cls in [('/repo/j1939/j1939_21.py','J1939_21'),('/repo/j1939/j1939_22.py','J1939_22')]:
    tree=ast.parse(open(fn).read())
    for c in ast.walk(tree):
        if isinstance(c,ast.ClassDef) and c.name==cls:
            for f in c.body:
                if isinstance(f,ast.FunctionDef) and f.name=='async_job_thread':
                    v=V(); [v.visit(b) for b in f.body]
                    print(cls); [print('  ',o) for o in v.out]

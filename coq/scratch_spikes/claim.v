From Coq Require Import ZArith List Lia Bool Arith.
Import ListNotations.
Open Scope Z_scope.

Inductive cst := NONE | WAIT | NORMAL | CANNOT.
Record ca := { name : Z; aac : bool; pref : Z; st : cst; ann : Z; addr : Z }.
Definition msg := (Z * Z)%type.  (* source address, NAME *)
Record net := { cas : nat -> ca; qs : nat -> list msg }.
Definition NULL := 254.

Definition upd {A} (f : nat -> A) (i : nat) (v : A) : nat -> A := fun k => if Nat.eqb k i then v else f k.
Definition bcast (q : nat -> list msg) (i : nat) (m : msg) : nat -> list msg :=
  fun r => if Nat.eqb r i then q r else q r ++ [m].

Definition immediate (a : Z) : bool := negb ((127 <? a) && (a <? 248)).

(* _process_claim_async *)
Definition timer_step (n : net) (i : nat) : net :=
  let c := cas n i in
  match st c with
  | NONE =>
      let c1 := {| name := name c; aac := aac c; pref := pref c; st := (if immediate (pref c) then NORMAL else WAIT);
                   ann := pref c; addr := (if immediate (pref c) then pref c else addr c) |} in
      {| cas := upd (cas n) i c1; qs := bcast (qs n) i (pref c, name c) |}
  | WAIT => {| cas := upd (cas n) i {| name := name c; aac := aac c; pref := pref c; st := NORMAL; ann := ann c; addr := ann c |}; qs := qs n |}
  | _ => n
  end.

(* _process_addressclaim at CA r for message (src, nm) *)
Definition claim_step (c : ca) (m : msg) : ca * list msg :=
  let '(src, nm) := m in
  if ((match st c with NORMAL => src =? addr c | WAIT => src =? ann c | _ => false end)) then
    if name c =? nm then (c, [])
    else if nm <? name c then
      if aac c then ({| name := name c; aac := aac c; pref := pref c; st := WAIT; ann := ann c + 1; addr := NULL |}, [(ann c + 1, name c)])
      else ({| name := name c; aac := aac c; pref := pref c; st := CANNOT; ann := ann c; addr := NULL |}, [(NULL, name c)])
    else (c, [(match st c with NORMAL => addr c | _ => ann c end, name c)])
  else (c, []).

Definition deliver_step (n : net) (r : nat) : net :=
  match qs n r with
  | [] => n
  | m :: rest =>
      let '(c', outs) := claim_step (cas n r) m in
      let q1 := upd (qs n) r rest in
      {| cas := upd (cas n) r c'; qs := fold_left (fun q o => bcast q r o) outs q1 |}
  end.

Inductive ev := Timer (i : nat) | Deliver (r : nat).
Definition step (n : net) (e : ev) : net := match e with Timer i => timer_step n i | Deliver r => deliver_step n r end.

Definition Claims (c : ca) (a : Z) : Prop := (st c = NORMAL /\ addr c = a) \/ (st c = WAIT /\ ann c = a).
Definition names_distinct (n : net) := forall i j, i <> j -> name (cas n i) <> name (cas n j).

Definition Inv (n : net) : Prop :=
  (forall i, st (cas n i) = NORMAL -> addr (cas n i) = ann (cas n i)) /\
  (forall i j a, i <> j -> Claims (cas n i) a -> Claims (cas n j) a ->
      In (a, name (cas n i)) (qs n j) \/ In (a, name (cas n j)) (qs n i)).

Lemma upd_same {A} (f : nat -> A) i v : upd f i v i = v. Proof. unfold upd. now rewrite Nat.eqb_refl. Qed.
Lemma upd_other {A} (f : nat -> A) i v k : k <> i -> upd f i v k = f k.
Proof. unfold upd. intros. destruct (Nat.eqb_spec k i); congruence. Qed.
Lemma bcast_self q i m : bcast q i m i = q i. Proof. unfold bcast. now rewrite Nat.eqb_refl. Qed.
Lemma bcast_other q i m r : r <> i -> bcast q i m r = q r ++ [m].
Proof. unfold bcast. intros. destruct (Nat.eqb_spec r i); congruence. Qed.
Lemma bcast_mono q i m r x : In x (q r) -> In x (bcast q i m r).
Proof. unfold bcast. destruct (Nat.eqb r i); auto. intros. apply in_or_app; auto. Qed.
Lemma bcast_in q i m r : r <> i -> In m (bcast q i m r).
Proof. intros. rewrite bcast_other by auto. apply in_or_app. right. left. reflexivity. Qed.

Lemma step_name n e k : name (cas (step n e) k) = name (cas n k).
Proof.
  destruct e as [i|r]; cbn [step].
  - unfold timer_step. destruct (st (cas n i)) eqn:E; cbn; try reflexivity;
    unfold upd; destruct (Nat.eqb_spec k i); subst; reflexivity.
  - unfold deliver_step. destruct (qs n r) as [|m rest]; [reflexivity|].
    destruct (claim_step (cas n r) m) as [c' outs] eqn:E. cbn.
    unfold upd. destruct (Nat.eqb_spec k r); [subst|reflexivity].
    unfold claim_step in E. destruct m as [src nm].
    repeat match type of E with context[if ?b then _ else _] => destruct b end; inversion E; subst; reflexivity.
Qed.

Theorem timer_preserves n i : names_distinct n -> Inv n -> Inv (timer_step n i).
Proof.
  intros ND [I1 I2]. unfold timer_step. destruct (st (cas n i)) eqn:Est; try (split; assumption).
  - (* NONE: start claiming pref *)
    split.
    + intros k. cbn. unfold upd. destruct (Nat.eqb_spec k i); [subst; cbn|apply I1].
      destruct (immediate _); [reflexivity|discriminate].
    + intros x y a Hxy Cx Cy. cbn in *.
      destruct (Nat.eq_dec x i) as [->|Nx]; [|destruct (Nat.eq_dec y i) as [->|Ny]].
      * rewrite upd_same in *. rewrite (upd_other _ _ _ y) in * by auto. cbn [name].
        assert (a = pref (cas n i)) as ->.
        { destruct Cx as [[S A]|[S A]]; cbn in *; destruct (immediate _); try discriminate; auto. }
        left. apply bcast_in; auto.
      * rewrite upd_same in *. rewrite (upd_other _ _ _ x) in * by auto. cbn [name].
        assert (a = pref (cas n i)) as ->.
        { destruct Cy as [[S A]|[S A]]; cbn in *; destruct (immediate _); try discriminate; auto. }
        right. apply bcast_in; auto.
      * rewrite (upd_other _ _ _ x), (upd_other _ _ _ y) in * by auto.
        destruct (I2 x y a Hxy Cx Cy); [left|right]; apply bcast_mono; auto.
  - (* WAIT -> NORMAL *)
    split.
    + intros k. cbn. unfold upd. destruct (Nat.eqb_spec k i); [subst; cbn; auto|apply I1].
    + intros x y a Hxy Cx Cy. cbn in *.
      assert (forall k b, Claims (upd (cas n) i {| name := name (cas n i); aac := aac (cas n i); pref := pref (cas n i); st := NORMAL; ann := ann (cas n i); addr := ann (cas n i) |} k) b -> Claims (cas n k) b) as CC.
      { intros k b. unfold upd. destruct (Nat.eqb_spec k i); [subst|auto]. intros [[S A]|[S A]]; cbn in *; [right; auto|discriminate]. }
      assert (forall k, name (upd (cas n) i {| name := name (cas n i); aac := aac (cas n i); pref := pref (cas n i); st := NORMAL; ann := ann (cas n i); addr := ann (cas n i) |} k) = name (cas n k)) as NN.
      { intros k. unfold upd. destruct (Nat.eqb_spec k i); subst; reflexivity. }
      rewrite !NN. apply I2; auto.
Qed.

(* characterisation of claim_step: either silent and unchanged, or it broadcasts the (only) address it claims afterwards *)
Lemma claim_step_cases c m c' outs :
  claim_step c m = (c', outs) ->
  name c' = name c /\
  (st c' = NORMAL -> addr c' = ann c' \/ (c' = c)) /\
  ( (c' = c /\ outs = [] /\ (forall a, Claims c a -> m = (a, snd m) -> snd m = name c))
    \/ (exists a0, outs = [(a0, name c)] /\ (forall a, Claims c' a -> a = a0)) ).
Proof.
  unfold claim_step. destruct m as [src nm]. intros E.
  destruct (match st c with NORMAL => src =? addr c | WAIT => src =? ann c | _ => false end) eqn:G.
  - destruct (Z.eqb_spec (name c) nm) as [En|Nn].
    + inversion E; subst. split; [reflexivity|]. split; [auto|]. left. repeat split; auto.
    + destruct (Z.ltb_spec nm (name c)).
      * destruct (aac c); inversion E; subst; cbn; (split; [reflexivity|]); (split; [intros; discriminate|]); right.
        -- eexists; split; [reflexivity|]. intros a [[S A]|[S A]]; cbn in *; [discriminate|auto].
        -- eexists; split; [reflexivity|]. intros a [[S A]|[S A]]; cbn in *; discriminate.
      * inversion E; subst. split; [reflexivity|]. split; [auto|]. right. eexists; split; [reflexivity|].
        intros a [[S A]|[S A]]; rewrite S; auto.
  - inversion E; subst. split; [reflexivity|]. split; [auto|]. left. repeat split; auto.
    intros a Ca Hm. cbn in Hm. inversion Hm; subst. exfalso.
    destruct Ca as [[S A]|[S A]]; rewrite S in G; rewrite A in G; rewrite Z.eqb_refl in G; discriminate.
Qed.

Lemma fold_bcast_grow outs : forall (q : nat -> list msg) r k v, In v (q k) -> In v (fold_left (fun q o => bcast q r o) outs q k).
Proof. induction outs as [|o os IH]; intros q r k v H; cbn; auto. apply IH. apply bcast_mono; auto. Qed.

Theorem deliver_preserves n r : names_distinct n -> Inv n -> Inv (deliver_step n r).
Proof.
  intros ND [I1 I2]. unfold deliver_step. destruct (qs n r) as [|m rest] eqn:Eq; [split; assumption|].
  destruct (claim_step (cas n r) m) as [c' outs] eqn:E.
  destruct (claim_step_cases _ _ _ _ E) as (Hname & Hnorm & Hcases).
  split.
  - intros k. cbn. unfold upd. destruct (Nat.eqb_spec k r); [subst|apply I1].
    intros S. destruct (Hnorm S) as [H0 | H0]; [exact H0 | subst c'; apply I1; exact S].
  - intros x y a Hxy Cx Cy. cbn [cas qs] in *.
    (* queues of nodes other than r only grow *)
    assert (Grow : forall k v, k <> r -> In v (qs n k) -> In v (fold_left (fun q o => bcast q r o) outs (upd (qs n) r rest) k)).
    { intros k v Hk Hin. apply fold_bcast_grow. rewrite upd_other; auto. }
    destruct (Nat.eq_dec x r) as [->|Nx]; [|destruct (Nat.eq_dec y r) as [->|Ny]].
    + (* x = r *)
      rewrite upd_same in *. rewrite (upd_other _ _ _ y) in * by auto. rewrite Hname.
      destruct Hcases as [(-> & -> & Hm)|(a0 & -> & Ha0)].
      * cbn [fold_left]. rewrite upd_same, (upd_other _ _ _ y) by auto.
        destruct (I2 r y a Hxy Cx Cy) as [W|W]; [left; exact W|].
        rewrite Eq in W. destruct W as [W|W]; [|right; exact W].
        exfalso. specialize (Hm a Cx). subst m. cbn in Hm. specialize (Hm eq_refl).
        apply (ND y r); auto.
      * left. cbn [fold_left]. rewrite (Ha0 a Cx). apply bcast_in; auto.
    + (* y = r *)
      rewrite upd_same in *. rewrite (upd_other _ _ _ x) in * by auto. rewrite Hname.
      destruct Hcases as [(-> & -> & Hm)|(a0 & -> & Ha0)].
      * cbn [fold_left]. rewrite upd_same, (upd_other _ _ _ x) by auto.
        destruct (I2 x r a Hxy Cx Cy) as [W|W]; [|right; exact W].
        rewrite Eq in W. destruct W as [W|W]; [|left; exact W].
        exfalso. specialize (Hm a Cy). subst m. cbn in Hm. specialize (Hm eq_refl).
        apply (ND x r); auto.
      * right. cbn [fold_left]. rewrite (Ha0 a Cy). apply bcast_in; auto.
    + rewrite (upd_other _ _ _ x), (upd_other _ _ _ y) in * by auto.
      destruct (I2 x y a Hxy Cx Cy); [left|right]; apply Grow; auto.
Qed.

Definition init_ok (n : net) := (forall i, st (cas n i) = NONE) /\ (forall i, qs n i = []).
Lemma init_inv n : init_ok n -> Inv n.
Proof. intros [H1 H2]. split; intros.
  - rewrite H1 in H. discriminate.
  - destruct H0 as [[S _]|[S _]]; rewrite H1 in S; discriminate. Qed.

Lemma step_nd n e : names_distinct n -> names_distinct (step n e).
Proof. intros ND i j Hij. rewrite !step_name. auto. Qed.

Theorem reachable_inv n evs : init_ok n -> names_distinct n -> Inv (fold_left step evs n) /\ names_distinct (fold_left step evs n).
Proof.
  intros Hi ND. assert (Inv n) as HI by (apply init_inv; auto). clear Hi.
  revert n ND HI. induction evs as [|e es IH]; intros n ND HI; cbn; [auto|].
  apply IH; [apply step_nd; auto|]. destruct e; cbn; [apply timer_preserves|apply deliver_preserves]; auto.
Qed.

(* T04.2: at quiescence, no two NORMAL CAs share an address — for every schedule, any number of CAs *)
Theorem unique_at_quiescence n evs i j :
  init_ok n -> names_distinct n -> i <> j ->
  let n' := fold_left step evs n in
  (forall k, qs n' k = []) ->
  st (cas n' i) = NORMAL -> st (cas n' j) = NORMAL -> addr (cas n' i) <> addr (cas n' j).
Proof.
  intros Hi ND Hij n' Hq Si Sj Heq.
  destruct (reachable_inv n evs Hi ND) as [[_ I2] _]. fold n' in I2.
  destruct (I2 i j (addr (cas n' i)) Hij) as [W|W].
  - left; auto.
  - left; split; auto.
  - rewrite Hq in W; destruct W.
  - rewrite Hq in W; destruct W.
Qed.
Print Assumptions unique_at_quiescence.

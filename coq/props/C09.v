(* C09 — the originator obeys flow control and pacing; the responder never over-grants (J1939-21 and J1939-22 models). *)
From J1939 Require Import Base CodecGlue Model21 Model22.
From J1939.gen Require Import Codec Tp21Gen CaGen Tp22Gen.
From J1939P Require Import CodecProofs Flat Tp21Seg Tp21Resp Tp21Orig PacingProofs TimeoutProofs MpgProofs PoolProofs Tp22Proofs Tp22Resp Tp22Orig.

(* T09.1: no data packet before a CTS / after the window is used up (session waits, pass emits nothing) *)
Theorem C09_no_dt_without_cts : forall sa dest n b now nw k,
  tget (n_snd n) (tp21_hash sa dest) = Some b -> s_state b = ST_WAITING_CTS -> 0 <= now < s_deadline b ->
  flat (snd_pass [tp21_hash sa dest] now nw n k) = flat (k n (if nw >? s_deadline b then s_deadline b else nw)).
Proof. exact no_dt_without_cts. Qed.
Print Assumptions C09_no_dt_without_cts.

(* exactly the granted packets, then waiting again *)
Theorem C09_exactly_the_granted_packets : forall sa dest n b (g : nat) x now nw k,
  tget (n_snd n) (tp21_hash sa dest) = Some b -> n_cmdt_iv n = None ->
  s_state b = ST_SENDING_IN_CTS -> s_next b = x -> s_waitcts b = Some (x + Z.of_nat g) ->
  x + Z.of_nat g < s_num b -> 0 <= x -> s_deadline b <> 0 -> s_deadline b <= now ->
  flat (snd_pass [tp21_hash sa dest] now nw n k) =
  let b' := upd_sbuf b ST_WAITING_CTS (now + tp21_T3) (x + Z.of_nat g + 1) in
  let nw' := if nw >? now + tp21_T3 then now + tp21_T3 else nw in
  let '(s, os, r) := flat (k (set_snd n (tset (n_snd n) (tp21_hash sa dest) b')) nw') in
  (s, dts (s_src b) (s_dst b) (s_data b) x (S g) ++ os, r).
Proof. exact window_burst. Qed.
Print Assumptions C09_exactly_the_granted_packets.

(* a hold emits nothing and only moves the deadline to now + Th *)
Theorem C09_hold : forall sa dest n b prio pgn nextp now,
  tget (n_snd n) (tp21_hash sa dest) = Some b -> 0 <= pgn < 16777216 ->
  flat (process_tp_cm prio dest sa (f_data (tp21_cts dest sa 0 nextp pgn)) now n) =
  (wake (set_snd n (tset (n_snd n) (tp21_hash sa dest) (upd_sbuf b (s_state b) (now + tp21_Th) (s_next b)))), [], RDone 0).
Proof. exact cts_hold. Qed.
Print Assumptions C09_hold.

(* T09.2 *)
Theorem C09_first_grant_bounded : forall maxp limit num, 1 <= maxp -> 1 <= limit -> 1 <= num ->
  let g0 := Z.min maxp (Z.min limit num) in 1 <= g0 /\ g0 <= maxp /\ g0 <= limit /\ g0 <= num.
Proof. exact first_grant_bounded. Qed.
Print Assumptions C09_first_grant_bounded.
Theorem C09_later_grants_bounded : forall g0 num k, 1 <= g0 -> 0 <= k -> k + 1 < num ->
  let g := Z.min g0 (num - (k + 1)) in 1 <= g /\ g <= g0 /\ g <= num - (k + 1).
Proof. exact later_grants_bounded. Qed.
Print Assumptions C09_later_grants_bounded.
Theorem C09_responder_outputs : forall prio sa dest pgn p n0 g o (cnt k : nat),
  In o (expect prio sa dest pgn p n0 g k cnt) ->
  (exists j, o = OTx (tp21_cts dest sa (Z.min g (Z.of_nat (npk (length p)) - (Z.of_nat j + 1))) (Z.of_nat j + 2) pgn) /\ (k <= j)%nat)
  \/ o = OTx (tp21_eom_ack dest sa (len p) (Z.of_nat (npk (length p))) pgn)
  \/ is_cb o = true.
Proof. exact expect_grants. Qed.
Print Assumptions C09_responder_outputs.

(* T09.3 *)
Theorem C09_bam_waits_for_interval : forall key now nw n k b,
  tget (n_snd n) key = Some b -> s_state b = ST_SENDING_BM -> 0 <= now < s_deadline b ->
  snd_pass [key] now nw n k = k n (if nw >? s_deadline b then s_deadline b else nw).
Proof. exact bam_waits_for_interval. Qed.
Print Assumptions C09_bam_waits_for_interval.
Theorem C09_bam_sends_one_and_rearms : forall key now nw n k b,
  tget (n_snd n) key = Some b -> s_state b = ST_SENDING_BM -> s_deadline b <> 0 -> s_deadline b <= now ->
  s_next b + 1 < s_num b ->
  flat (snd_pass [key] now nw n k) =
  let b' := upd_sbuf b ST_SENDING_BM (now + n_bam_iv n) (s_next b + 1) in
  let nw' := if nw >? now + n_bam_iv n then now + n_bam_iv n else nw in
  let '(s, os, r) := flat (k (set_snd n (tset (n_snd n) key b')) nw') in
  (s, OTx (tp21_dt (s_src b) (s_dst b) (dt_payload (s_data b) (s_next b))) :: os, r).
Proof. exact bam_sends_one_and_rearms. Qed.
Print Assumptions C09_bam_sends_one_and_rearms.

(* ---------------------------------------------------------------- J1939-22 *)
(* T09.1 (FD): a session waiting (for a CTS, the acknowledgement, its next paced segment or its BAM interval) whose
   deadline lies in the future puts nothing on the bus *)
Theorem C09_fd_waiting_session_silent : forall key now nw m k b,
  tget (f_snd m) key = Some b -> 0 <= now < t_deadline b ->
  flat22 (snd_pass22 [key] now nw m k) = flat22 (k m (minw nw (t_deadline b))).
Proof. exact fd_waiting_session_silent. Qed.
Print Assumptions C09_fd_waiting_session_silent.

(* T09.1/T09.2 (FD): after CTS(g, x+1) only the segments x+1 .. x+g, in increasing order, at most g of them *)
Theorem C09_fd_pass_within_grant : forall key now nw m k b w,
  tget (f_snd m) key = Some b ->
  t_state b = tp22_st_SENDING_RTS_CTS -> t_waitcts b = Some w ->
  0 <= t_session b < 16 -> 0 <= t_next b -> t_next b <= w -> w + 1 < 16777216 ->
  t_deadline b <> 0 -> t_deadline b <= now ->
  exists os rest, fouts22 (snd_pass22 [key] now nw m k) = os ++ rest /\
    burst_outs (t_src b) (t_dst b) (t_session b)
               (OTx (tp22_eom_status (t_src b) (t_dst b) (t_session b) (t_size b) (t_nseg b) (t_pgn b)))
               (t_next b + 1) (w + 1) os /\
    (forall o, In o rest -> exists m' nw', In o (fouts22 (k m' nw'))).
Proof. exact fd_pass_within_grant. Qed.
Print Assumptions C09_fd_pass_within_grant.

(* T09.2 (FD responder) *)
Theorem C09_fd_first_grant_bounded : forall maxp limit nseg,
  Z.min maxp (Z.min limit nseg) <= limit /\ Z.min maxp (Z.min limit nseg) <= maxp /\ Z.min maxp (Z.min limit nseg) <= nseg.
Proof. exact fd_first_grant_bounded. Qed.
Print Assumptions C09_fd_first_grant_bounded.
Theorem C09_fd_later_grants_bounded : forall prio sa dest data now m b,
  tget (f_rcv m) (tp22_hash (tp22_dt_session_num data) sa dest) = Some b ->
  fouts22 (process_tp_dt22 prio sa dest data now m) = [] \/
  exists border mr, q_border b = Some border /\ q_maxrec b = Some mr /\
    fouts22 (process_tp_dt22 prio sa dest data now m) =
      [OTx (tp22_cts dest sa (tp22_dt_session_num data) (Z.min mr (q_nseg b - border)) (border + 1) (q_pgn b))] /\
    Z.min mr (q_nseg b - border) <= mr.
Proof. exact fd_later_grants_bounded. Qed.
Print Assumptions C09_fd_later_grants_bounded.

(* T09.3 (FD): one broadcast data frame per interval *)
Theorem C09_fd_bam_sends_one_and_rearms : forall key now nw m k b seg fr seg',
  tget (f_snd m) key = Some b -> t_state b = tp22_st_SENDING_BAM ->
  t_deadline b <> 0 -> t_deadline b <= now ->
  py_nth (t_data b) (t_next b) = Some seg ->
  dt_frame (t_src b) (t_dst b) (t_session b) (t_next b + 1) seg = Some (fr, seg') ->
  let b0 := with_tdata b (py_set (t_data b) (t_next b) seg') in
  let st := if t_next b + 1 <? t_nseg b then tp22_st_SENDING_BAM else tp22_st_SENDING_EOM_STATUS in
  let b2 := upd_t b0 st (now + f_bam_iv m) (t_next b + 1) in
  flat22 (snd_pass22 [key] now nw m k) =
  let '(s, os, r) := flat22 (k (set_fsnd m (tset (f_snd m) key b2)) (minw nw (now + f_bam_iv m))) in
  (s, OTx fr :: os, r).
Proof. exact fd_bam_sends_one_and_rearms. Qed.
Print Assumptions C09_fd_bam_sends_one_and_rearms.

From J1939P Require NoOversleep NoOversleep22.
(* T09.9: after one pass of the transport layer the wake-up time the job thread sleeps until is not later than the deadline of
   ANY receive or send session still in a table, whatever its state and whatever the pass did — so every deadline
   (time-out, burst, BAM packet, hold refresh) is served by a pass that starts at most the scheduling latency after it *)
Theorem C09_job_thread_never_sleeps_past_a_deadline : forall n now,
  tnodup (n_rcv n) -> tnodup (n_snd n) ->
  match flat (dll_job n now (fun n' nw' => Done n' nw')) with
  | (n', _, RDone nw') => nw' <= now + 5000000 /\ NoOversleep.tm_part n' = NoOversleep.tm_part n /\
                          NoOversleep.rcv_covered n' nw' /\ NoOversleep.snd_covered n' nw'
  | (_, _, RRaise _) => True
  end.
Proof. exact NoOversleep.dll_job_wakeup_covers_every_deadline. Qed.
Print Assumptions C09_job_thread_never_sleeps_past_a_deadline.

Theorem C09_fd_job_thread_never_sleeps_past_a_deadline : forall m now,
  tnodup (f_rcv m) -> tnodup (f_mpg m) -> tnodup (f_snd m) ->
  match flat22 (dll_job22 m now (fun m' nw' => Done m' nw')) with
  | (m', _, RDone nw') => nw' <= now + 5000000 /\ NoOversleep22.covered22 m' nw'
  | (_, _, RRaise _) => True
  end.
Proof. exact NoOversleep22.dll_job22_wakeup_covers_every_deadline. Qed.
Print Assumptions C09_fd_job_thread_never_sleeps_past_a_deadline.

(* ---- pacing composed end to end: the closed loop of two model nodes with the time of every frame the originator puts on
   the wire (tlog: the frames appended to the wire record at each step, stamped with the network's clock at that step) *)
From J1939P Require Net21 Net21Bam Net22 Net22Proofs Net22Bam.

(* T09.17: a J1939-21 broadcast of ANY payload of 9..1785 bytes: the announcement leaves at t0, packet k at exactly
   t0 + (k+1)·iv — never closer than the configured interval, never later — and the run ends with nothing queued, no session
   left and the listeners called with exactly p *)
Theorem C09_bam_closed_loop_paced : forall prio sa dp pf p t0 A0 B0,
  0 <= prio < 8 -> 0 <= sa < 255 -> 0 <= pf < 240 -> 0 <= dp < 2 -> 8 < len p <= 1785 -> 0 < t0 ->
  0 < n_bam_iv A0 < tp21_T1 ->
  n_snd A0 = [] /\ n_rcv A0 = [] /\ n_timers A0 = [] ->
  n_snd B0 = [] /\ n_rcv B0 = [] /\ n_timers B0 = [] ->
  let pv := dp * 65536 + pf * 256 in
  let iv := n_bam_iv A0 in
  let s0 := Net21.net_send (Net21.net0 A0 B0 t0) dp pf 255 prio sa p in
  Net21.wab s0 = [tp21_bam sa prio pv (len p) (Z.of_nat (npk (length p)))] /\ Net21.clk s0 = t0 /\
  exists j, (Net21.qa (Net21.steps j s0) = [] /\ Net21.qb (Net21.steps j s0) = [] /\
             n_snd (Net21.na (Net21.steps j s0)) = [] /\ n_rcv (Net21.nb (Net21.steps j s0)) = [] /\
             Net21.evb (Net21.steps j s0) = deliveries B0 7 pv sa addr_GLOBAL p) /\
    Net21Bam.tlog j s0 = map (fun k => (t0 + Z.of_nat (S k) * iv, tp21_dt sa addr_GLOBAL (dt_payload p (Z.of_nat k))))
                             (seq 0 (npk (length p))).
Proof. exact Net21Bam.bam_closed_loop_paced. Qed.
Print Assumptions C09_bam_closed_loop_paced.

(* ... and for every group that travels as a broadcast, PDU2 groups (any group extension) included *)
Theorem C09_bam_closed_loop_paced_pdu1_and_pdu2 : forall prio sa dp pf ps p t0 A0 B0,
  0 <= prio < 8 -> 0 <= sa < 255 -> (0 <= pf < 240 /\ ps = 255) \/ (240 <= pf < 256 /\ 0 <= ps < 256) ->
  0 <= dp < 2 -> 8 < len p <= 1785 -> 0 < t0 ->
  0 < n_bam_iv A0 < tp21_T1 ->
  n_snd A0 = [] /\ n_rcv A0 = [] /\ n_timers A0 = [] ->
  n_snd B0 = [] /\ n_rcv B0 = [] /\ n_timers B0 = [] ->
  let pv := Net21Bam.bam_pgn dp pf ps in
  let iv := n_bam_iv A0 in
  let s0 := Net21.net_send (Net21.net0 A0 B0 t0) dp pf ps prio sa p in
  Net21.wab s0 = [tp21_bam sa prio pv (len p) (Z.of_nat (npk (length p)))] /\ Net21.clk s0 = t0 /\
  exists j, (Net21.qa (Net21.steps j s0) = [] /\ Net21.qb (Net21.steps j s0) = [] /\
             n_snd (Net21.na (Net21.steps j s0)) = [] /\ n_rcv (Net21.nb (Net21.steps j s0)) = [] /\
             Net21.evb (Net21.steps j s0) = deliveries B0 7 pv sa addr_GLOBAL p) /\
    Net21Bam.tlog j s0 = map (fun k => (t0 + Z.of_nat (S k) * iv, tp21_dt sa addr_GLOBAL (dt_payload p (Z.of_nat k))))
                             (seq 0 (npk (length p))).
Proof. exact Net21Bam.bam_closed_loop_paced_any. Qed.
Print Assumptions C09_bam_closed_loop_paced_pdu1_and_pdu2.

(* T09.16: an FD broadcast of ANY payload of more than 60 bytes: data frame k leaves at exactly t0 + (k+1)·iv, the
   end-of-message status one interval after the last *)
Theorem C09_fd_bam_closed_loop_paced : forall prio sa dp pf p t0 A0 B0,
  0 <= prio < 8 -> 0 <= sa < 255 -> 0 <= pf < 240 -> 0 <= dp < 2 -> 60 < len p < 16777216 -> 0 < t0 ->
  0 < f_bam_iv A0 < tp22_T1 -> 2 * f_bam_iv A0 < tp22_T1 ->
  f_snd A0 = [] /\ f_rcv A0 = [] /\ f_mpg A0 = [] /\ n_timers (base A0) = [] /\ f_bam A0 = repeat true tp22_pool_bam ->
  f_snd B0 = [] /\ f_rcv B0 = [] /\ f_mpg B0 = [] /\ n_timers (base B0) = [] ->
  let pv := dp * 65536 + pf * 256 in
  let ns := ((length p + 59) / 60)%nat in
  let iv := f_bam_iv A0 in
  let s0 := Net22.net22_send (Net22.net22_0 A0 B0 t0) dp pf 255 prio sa p in
  Net22.wab2 s0 = [tp22_bam prio sa 0 pv (len p) (Z.of_nat ns)] /\ Net22.fclk s0 = t0 /\
  exists j, (Net22.pa (Net22.steps22 j s0) = [] /\ Net22.pb (Net22.steps22 j s0) = [] /\
             f_snd (Net22.fa (Net22.steps22 j s0)) = [] /\ f_rcv (Net22.fb (Net22.steps22 j s0)) = [] /\
             Net22.evb2 (Net22.steps22 j s0) = deliveries (base B0) 7 pv sa addr_GLOBAL p) /\
    Net22Bam.tlog22 j s0 =
      map (fun k => (t0 + Z.of_nat (S k) * iv,
                     match dt_frame sa addr_GLOBAL 0 (Z.of_nat k + 1) (Net22Proofs.row p k) with
                     | Some (fr, _) => fr | None => tp22_bam prio sa 0 pv (len p) (Z.of_nat ns) end)) (seq 0 ns)
      ++ [(t0 + Z.of_nat (S ns) * iv, tp22_eom_status sa addr_GLOBAL 0 (len p) (Z.of_nat ns) pv)].
Proof. exact Net22Bam.bam_closed_loop22_paced. Qed.
Print Assumptions C09_fd_bam_closed_loop_paced.

Theorem C09_fd_bam_closed_loop_paced_pdu1_and_pdu2 : forall prio sa dp pf ps p t0 A0 B0,
  0 <= prio < 8 -> 0 <= sa < 255 -> (0 <= pf < 240 /\ ps = 255) \/ (240 <= pf < 256 /\ 0 <= ps < 256) ->
  0 <= dp < 2 -> 60 < len p < 16777216 -> 0 < t0 ->
  0 < f_bam_iv A0 < tp22_T1 -> 2 * f_bam_iv A0 < tp22_T1 ->
  f_snd A0 = [] /\ f_rcv A0 = [] /\ f_mpg A0 = [] /\ n_timers (base A0) = [] /\ f_bam A0 = repeat true tp22_pool_bam ->
  f_snd B0 = [] /\ f_rcv B0 = [] /\ f_mpg B0 = [] /\ n_timers (base B0) = [] ->
  let pv := Net22Bam.bam_pgn22 dp pf ps in
  let ns := ((length p + 59) / 60)%nat in
  let iv := f_bam_iv A0 in
  let s0 := Net22.net22_send (Net22.net22_0 A0 B0 t0) dp pf ps prio sa p in
  Net22.wab2 s0 = [tp22_bam prio sa 0 pv (len p) (Z.of_nat ns)] /\ Net22.fclk s0 = t0 /\
  exists j, (Net22.pa (Net22.steps22 j s0) = [] /\ Net22.pb (Net22.steps22 j s0) = [] /\
             f_snd (Net22.fa (Net22.steps22 j s0)) = [] /\ f_rcv (Net22.fb (Net22.steps22 j s0)) = [] /\
             Net22.evb2 (Net22.steps22 j s0) = deliveries (base B0) 7 pv sa addr_GLOBAL p) /\
    Net22Bam.tlog22 j s0 =
      map (fun k => (t0 + Z.of_nat (S k) * iv,
                     match dt_frame sa addr_GLOBAL 0 (Z.of_nat k + 1) (Net22Proofs.row p k) with
                     | Some (fr, _) => fr | None => tp22_bam prio sa 0 pv (len p) (Z.of_nat ns) end)) (seq 0 ns)
      ++ [(t0 + Z.of_nat (S ns) * iv, tp22_eom_status sa addr_GLOBAL 0 (len p) (Z.of_nat ns) pv)].
Proof. exact Net22Bam.bam_closed_loop22_paced_any. Qed.
Print Assumptions C09_fd_bam_closed_loop_paced_pdu1_and_pdu2.

(* C14 — PGN requests reach exactly the addressed operational CAs; claims are answered. *)
From J1939 Require Import Base CodecGlue Model21.
From J1939.gen Require Import Codec Tp21Gen CaGen.
From J1939P Require Import CodecProofs Flat ClaimProofs CaProofs.

(* T14.1 *)
Theorem C14_request_payload_roundtrip : forall pgn, 0 <= pgn < 16777216 ->
  ca_request_decode (ca_request_payload pgn) = pgn /\ length (ca_request_payload pgn) = 3%nat /\
  ca_request_payload pgn = [pgn mod 256; (pgn / 256) mod 256; (pgn / 65536) mod 256].
Proof. exact request_payload_roundtrip. Qed.
Print Assumptions C14_request_payload_roundtrip.
Theorem C14_request_frame_fields : forall dp dest sa, ca_request_args dp dest sa = (dp, 234, dest mod 256, 6, sa).
Proof. exact request_args. Qed.
Print Assumptions C14_request_frame_fields.

(* T14.2/T14.3: the request frame, fed to notify of a stack that accepts the destination, produces exactly
   the answers of the CAs in registration order; nothing in the node changes *)
Theorem C14_dispatch : forall n now sa dest data,
  0 <= dest < 256 -> 0 <= sa < 256 -> accepts n dest = true -> (3 <= length data)%nat ->
  flat (notify n now (mid_can_id_of 6 (pgn_value_of 0 234 dest) sa) data) =
  (n, fanout_outs (n_cas n) sa dest (ca_request_decode data), RDone 0).
Proof. exact notify_request. Qed.
Print Assumptions C14_dispatch.
Theorem C14_owner_answers : forall c a sa dest pgn,
  c_state c = ca_state_NORMAL -> c_addr c = Some a -> (a = dest \/ dest = addr_GLOBAL) ->
  (if ca_acceptable c dest then request_outs c sa dest pgn else []) =
  if pgn =? pgn_ADDRESSCLAIM then [send_address_claimed c a] else map (fun cb => OReq cb sa dest pgn) (c_reqs c).
Proof. exact answer_of_owner. Qed.
Print Assumptions C14_owner_answers.
Theorem C14_no_answer_without_address : forall c sa dest pgn,
  c_state c <> ca_state_NORMAL -> (if ca_acceptable c dest then request_outs c sa dest pgn else []) = [].
Proof. exact no_answer_without_address. Qed.
Print Assumptions C14_no_answer_without_address.
Theorem C14_no_answer_for_foreign_destination : forall c a sa dest pgn,
  c_addr c = Some a -> a <> dest -> dest <> addr_GLOBAL ->
  (if ca_acceptable c dest then request_outs c sa dest pgn else []) = [].
Proof. exact no_answer_for_foreign_destination. Qed.
Print Assumptions C14_no_answer_for_foreign_destination.

(* T14.3 closed loop over two nodes: what send_request of an operational CA (address a) on node A hands to the bus is ONE
   extended classic frame, and node B — any node that accepts the destination — dispatches it to its CAs with the requester's
   address a, the destination and exactly the PGN asked for: every PGN of up to 24 bits, every destination incl. global *)
Theorem C14_request_closed_loop : forall A i c a now pgn dest B t,
  nth_error (n_cas A) i = Some c -> c_state c = ca_state_NORMAL -> c_addr c = Some a -> 0 <= a < 256 ->
  0 <= dest < 256 -> 0 <= pgn < 16777216 -> accepts B dest = true ->
  exists f, flat (ca_send_request A i now 0 pgn dest) = (A, [OTx f], RDone 0) /\ f_ext f = true /\ f_fd f = false /\
            flat (notify B t (f_id f) (f_data f)) = (B, fanout_outs (n_cas B) a dest pgn, RDone 0).
Proof. exact request_closed_loop. Qed.
Print Assumptions C14_request_closed_loop.

(* C19 — a second DM14 requester never disturbs or joins a running transaction (decision-level theorems on the
   server's guard; the interleavings are enumerated on the real code). *)
From J1939 Require Import Base Dm14Model.
From J1939.gen Require Import Dm14Gen.
From J1939P Require Import CodecProofs Dm14Proofs.

(* T19.1: while a transaction with requester r runs, ANY DM14 from another source is answered with the busy DM15
   addressed to its sender, and (parse_dm14_decision returns no new state) nothing of the transaction changes *)
Theorem C19_other_source_gets_busy : forall s r x data,
  v_sa s = Some r -> x <> r ->
  parse_dm14_decision s x data =
  Busy x (dm15_SEND_ERROR (dm14_direct data) dm15_status_FAILED (byte_at data 0) 0 (if v_error s =? 0 then 2 else v_error s) 7).
Proof. exact intruder_gets_busy. Qed.
Print Assumptions C19_other_source_gets_busy.
Theorem C19_other_pointer_gets_busy : forall s a x data,
  v_addr s = Some a -> firstn 4 (skipn 2 data) <> a -> exists p, parse_dm14_decision s x data = Busy x p.
Proof. exact other_pointer_gets_busy. Qed.
Print Assumptions C19_other_pointer_gets_busy.
Theorem C19_busy_answer_layout : forall s x data,
  v_error s = 0 -> 0 <= dm14_direct data < 2 ->
  let p := snd (busy_answer s x data) in
  dm15_status p = dm15_status_FAILED /\ dm15_error p = 2 /\ dm15_edcp p = 7 /\ fst (busy_answer s x data) = x.
Proof. exact busy_answer_is_failed_busy. Qed.
Print Assumptions C19_busy_answer_layout.
Theorem C19_legitimate_request_accepted : forall s r a data,
  v_sa s = Some r -> v_addr s = Some a -> firstn 4 (skipn 2 data) = a -> v_busy s = false ->
  parse_dm14_decision s r data = Accept.
Proof. exact legitimate_request_accepted. Qed.
Print Assumptions C19_legitimate_request_accepted.

(* ---------------------------------------------------------------- state-machine level (theories/Dm14Srv.v: DM14Server +
   the serving half of MemoryAccess + the CA's subscriber list, tied to /repo by operation-sequence correspondence) *)
From J1939 Require Import Dm14Srv.
From J1939P Require Import Dm14SrvProofs Dm14SrvPhases.

(* T19.2/T19.3: while a transaction with requester r runs (from its first DM14 until the closing DM14 has been
   received), ANY message from another source address — any PGN, any data, well-formed or not, whatever callbacks are
   registered in whatever order and multiplicity — leaves EVERY field of the server, of the facade and the subscriber
   list unchanged, reaches no application callback, and the only frames it can cause are DM15 addressed to it *)
Theorem C19_intruder_does_not_disturb : forall c s r x pgn data,
  running s r -> x <> r -> quiet s x (deliver c s pgn x data).
Proof. exact intruder_does_not_disturb. Qed.
Print Assumptions C19_intruder_does_not_disturb.

Theorem C19_intruder_outputs : forall c s r x pgn data,
  running s r -> x <> r ->
  let '(s', os, e) := deliver c s pgn x data in
  s' = s /\ forall o, In o os -> match o with SSend pf dest _ _ => pf = 216 /\ dest = Z.land x 255 | _ => False end.
Proof. exact intruder_outputs. Qed.
Print Assumptions C19_intruder_outputs.

(* a request of the running requester itself for ANOTHER pointer is not served in its place *)
Theorem C19_other_pointer_not_served : forall c s r a data,
  running s r -> v_addr s = Some a -> zlist_eqb a (py_slice data 2 (v_length s - 2)) = false ->
  quiet s r (deliver c s PGN_DM14 r data).
Proof. exact other_pointer_not_served. Qed.
Print Assumptions C19_other_pointer_not_served.

(* the phases of a transaction ARE running states: ANY well-formed 8-byte DM14 (any count, command, pointer, key bytes)
   from ANY requester arriving at an idle serving side leaves it running for that requester — without seed/key
   (waiting for respond()), and with seed/key (seed sent, waiting for the key); after the key DM14 with the right key
   it still is.  From then on running only asks for "server not idle": it holds until the closing DM14 has been
   received.  So C19_intruder_does_not_disturb applies from the first DM14 to the closing one *)
Theorem C19_first_dm14_starts_running_noseed : forall c s sa d0 d1 a0 a1 a2 a3 k0 k1,
  c_seedsec c = false -> c_hasproceed c = true -> idle_state s -> (answers s = [] \/ exists r, answers s = true :: r) ->
  let '(s', os, e) := listen_for_dm14 c s PGN_DM14 sa [d0; d1; a0; a1; a2; a3; k0; k1] in
  e = None /\ running s' sa /\
  os = [SProceedFn (Z.shiftr (Z.land (d1 - 1) 15) 1) (le_int [a0; a1; a2; a3]) (Z.land (Z.shiftr d1 4) 1) 8 d0 65535 sa (k1 * 256 + k0) 0; SNotify].
Proof. exact first_dm14_noseed_proceed. Qed.
Print Assumptions C19_first_dm14_starts_running_noseed.
Theorem C19_first_dm14_starts_running_seedkey : forall c s sa d0 d1 a0 a1 a2 a3 k0 k1,
  c_seedsec c = true -> idle_state s ->
  let '(s', os, e) := listen_for_dm14 c s PGN_DM14 sa [d0; d1; a0; a1; a2; a3; k0; k1] in
  e = None /\ running s' sa /\ a_state s' = D_REQUEST_STARTED /\ v_state s' = R_WAIT_FOR_KEY /\
  exists sd, v_seed s' = Some sd /\
             os = [SSend 216 (Z.land sa 255) 6 [0; Z.shiftr d1 4 * 16 + 0 * 2 + 1; 255; 255; 255; 255; Z.land sd 255; Z.shiftr sd 8]].
Proof. exact first_dm14_seedkey. Qed.
Print Assumptions C19_first_dm14_starts_running_seedkey.
Theorem C19_key_dm14_keeps_running : forall c s sa sd d0 d1 a0 a1 a2 a3 k0 k1,
  c_seedsec c = true -> c_hasproceed c = true -> (answers s = [] \/ exists r, answers s = true :: r) ->
  a_state s = D_REQUEST_STARTED -> v_state s = R_WAIT_FOR_KEY -> v_sa s = Some sa -> v_busy s = false ->
  v_addr s = Some [a0; a1; a2; a3] -> v_length s = 8 -> v_seed s = Some sd -> c_key c sd = k1 * 256 + k0 ->
  v_ptype s <> None -> v_access s <> None ->
  let '(s', os, e) := listen_for_dm14 c s PGN_DM14 sa [d0; d1; a0; a1; a2; a3; k0; k1] in
  e = None /\ running s' sa /\ a_state s' = D_WAIT_RESPONSE /\
  exists cmd ad pt l oc acc, os = [SProceedFn cmd ad pt l oc (k1 * 256 + k0) sa acc sd; SNotify].
Proof. exact key_dm14_right_key. Qed.
Print Assumptions C19_key_dm14_keeps_running.

(* the second mechanism: while the node is itself querying (facade WAIT_QUERY during its own read()/write()), ANY DM14 of
   at least 2 bytes, from anybody, is answered with exactly one 'operation failed / busy' DM15 to its sender; nothing
   changes and nothing reaches the application *)
Theorem C19_querying_node_answers_busy : forall c s x data,
  a_state s = D_WAIT_QUERY -> v_busy s = false -> 6 <= v_length s -> (2 <= length data)%nat ->
  exists d, listen_for_dm14 c s PGN_DM14 x data = (s, [SSend 216 (Z.land x 255) 6 d], None).
Proof. exact querying_node_answers_busy. Qed.
Print Assumptions C19_querying_node_answers_busy.

(* C02 — J1939-22 (FD) transport: capacity 8 + 4 originator sessions, refusal beyond it, no overwriting.
   Model22 is tied to /repo by correspondence (every handler log of the real code is replayed on it);
   frame builders, hashes, length table and constants are generated from /repo. *)
From J1939 Require Import Base CodecGlue Model21 Model22.
From J1939.gen Require Import Codec Tp21Gen CaGen Tp22Gen.
From J1939P Require Import CodecProofs Flat Tp21Seg Tp21Resp TimeoutProofs MpgProofs PoolProofs Tp22Proofs Tp22Resp ConserveProofs FrameLocal22.

(* T02.1: segmentation into 60-byte segments loses nothing, for EVERY payload *)
Theorem C02_segments_reassemble : forall d,
  concat (segments d) = d /\ Forall (fun s => (length s <= 60)%nat) (segments d).
Proof. exact segments_reassemble. Qed.
Print Assumptions C02_segments_reassemble.

Theorem C02_fd_lengths_legal : forall i : nat, (i <= 64)%nat ->
  exists v, fd_len i = Some v /\ legal_fd v = true /\ Z.of_nat i <= v <= 64.
Proof. exact fd_len_legal. Qed.
Print Assumptions C02_fd_lengths_legal.

(* T02.7: a send_pgn beyond the capacity returns False, emits nothing, changes nothing *)
Theorem C02_refused_beyond_capacity : forall m now dp pf ps prio sa data tl ff,
  tp22_TP < len data ->
  let global := (ps =? addr_GLOBAL) || pgn_is_pdu2_of 0 pf ps in
  Forall (fun b => b = false) (if global then f_bam m else f_rts m) ->
  flat22 (send_pgn22 m now dp pf ps prio sa data tl ff) = (m, [], RDone 0).
Proof. exact refused_when_pool_exhausted. Qed.
Print Assumptions C02_refused_beyond_capacity.

Theorem C02_accepted_within_capacity : forall m now dp pf ps prio sa data tl ff,
  tp22_TP < len data ->
  let global := (ps =? addr_GLOBAL) || pgn_is_pdu2_of 0 pf ps in
  ~ Forall (fun b => b = false) (if global then f_bam m else f_rts m) ->
  fres22 (send_pgn22 m now dp pf ps prio sa data tl ff) = RDone 1.
Proof. exact accepted_when_pool_has_room. Qed.
Print Assumptions C02_accepted_within_capacity.

(* T02.6: a new session takes a free number of the right pool and a FRESH key: it can never overwrite a session
   in flight; the pool invariant (every session holds its flag; same-kind sessions have different numbers) is kept *)
Theorem C02_allocation_never_overwrites : forall m s pool' sa dest b,
  pool_inv m -> keys_ok m -> 0 <= sa < 256 -> 0 <= dest < 256 ->
  pool_get (if dest =? addr_GLOBAL then f_bam m else f_rts m) 0 = Some (s, pool') ->
  t_session b = s -> t_dst b = dest -> t_src b = sa ->
  let m0 := if dest =? addr_GLOBAL then set_fbam m pool' else set_frts m pool' in
  let m1 := set_fsnd m0 (tset (f_snd m0) (tp22_hash s sa dest) b) in
  pool_inv m1 /\ keys_ok m1 /\ tget (f_snd m) (tp22_hash s sa dest) = None.
Proof. exact allocation_preserves. Qed.
Print Assumptions C02_allocation_never_overwrites.

Theorem C02_initial_state_ok : forall maxp civ biv, pool_inv (init_node22 maxp civ biv) /\ keys_ok (init_node22 maxp civ biv).
Proof. intros. split; [apply pool_inv_init|apply keys_ok_init]. Qed.
Print Assumptions C02_initial_state_ok.

(* traffic in the other direction does not disturb the sessions in flight (same sessions, numbers, pools) *)
Theorem C02_inbound_traffic_keeps_sessions : forall m now can_id data,
  skel (fnode22 (notify22 m now can_id data)) = skel m.
Proof. exact inbound_neutral. Qed.
Print Assumptions C02_inbound_traffic_keeps_sessions.

(* T02.3 (responder, end of message): the end-of-message status delivers iff size, segment count and collected length
   all agree with the announcement, and then exactly the collected bytes, once per matching subscriber, followed by
   the end-of-message acknowledgement for a connection-mode transfer; the session is released *)
Theorem C02_eom_status_delivers_exactly : forall prio sa dest data now m b,
  eom_frame_ok data ->
  let h := tp22_hash (tp22_cm_session_num data) sa dest in
  tget (f_rcv m) h = Some b ->
  q_size b = tp22_cm_message_size data -> q_nseg b = tp22_cm_segment_num data -> len (q_data b) = q_size b ->
  fouts22 (process_tp_cm22 prio sa dest data now m) =
    deliveries (base m) prio (q_pgn b) sa dest (q_data b) ++
    (if dest =? addr_GLOBAL then []
     else [OTx (tp22_eom_ack dest sa (tp22_cm_session_num data) (tp22_cm_message_size data) (tp22_cm_segment_num data) (q_pgn b))]) /\
  f_rcv (fnode22 (process_tp_cm22 prio sa dest data now m)) = tdel (f_rcv m) h.
Proof. exact eom_status_delivers_exactly. Qed.
Print Assumptions C02_eom_status_delivers_exactly.

(* "no other message is delivered anywhere": no FD data frame ever delivers, and a status frame without a matching
   complete session delivers nothing (C06_fd_lost_segment_never_delivers) *)
Theorem C02_data_frames_never_deliver : forall prio sa dest h0 frames m b0,
  tget (f_rcv m) h0 = Some b0 ->
  no_delivery (snd (feed_dt22 prio sa dest frames m)) /\
  exists b', tget (f_rcv (fst (feed_dt22 prio sa dest frames m))) h0 = Some b' /\ q_size b' = q_size b0 /\
             len (q_data b') <= len (q_data b0) + fold_right (fun f acc => len (payload22 (fst f)) + acc) 0 frames.
Proof. intros prio sa dest h0. exact (feed_dt22_effect prio sa dest h0). Qed.
Print Assumptions C02_data_frames_never_deliver.

(* T02.6 (history form): the capacity invariant after ANY history — see C10_capacity_conserved_any_history *)
Theorem C02_sessions_never_shared_any_history : forall maxp civ biv evs,
  Forall hev_ok evs -> Inv (fold_left hstep evs (init_node22 maxp civ biv)).
Proof. exact capacity_conserved_any_history. Qed.
Print Assumptions C02_sessions_never_shared_any_history.

(* T02.2 (responder, RTS): an RTS for a free key opens the session and is answered by CTS(min(own max, RTS limit, segments), 1) *)
Theorem C02_responder_rts_opens : forall prio sa dest data now m,
  rts_frame_ok data ->
  let h := tp22_hash (tp22_cm_session_num data) sa dest in
  tget (f_rcv m) h = None ->
  let g := Z.min (n_maxp (base m)) (Z.min (byte_at data 7) (tp22_cm_segment_num data)) in
  let b := {| q_pgn := tp22_cm_pgn data; q_session := tp22_cm_session_num data; q_size := tp22_cm_message_size data;
              q_nseg := tp22_cm_segment_num data; q_next := 1; q_border := Some g; q_maxrec := Some g; q_data := [];
              q_deadline := now + tp22_T2; q_src := sa; q_dst := dest |} in
  flat22 (process_tp_cm22 prio sa dest data now m) =
    (wake22 (set_frcv m (tset (f_rcv m) h b)), [OTx (tp22_cts dest sa (tp22_cm_session_num data) g 1 (tp22_cm_pgn data))], RDone 0).
Proof. exact responder22_rts_opens. Qed.
Print Assumptions C02_responder_rts_opens.

(* T02.3 (responder, complete reception): the in-sequence data frames of a message of the announced size — ANY
   chunking into non-empty chunks, ANY padding after the last byte, ANY arrival instants — followed by the matching
   end-of-message status deliver EXACTLY the payload, once per matching subscriber and nothing else, acknowledge a
   connection-mode transfer and release the session *)
Theorem C02_responder_delivers_exactly : forall prio sa dest s p pad chunks eom now m b,
  0 <= s < 16 -> Z.of_nat (length chunks) < 16777215 ->
  Forall (fun c => fst c <> []) chunks -> concat (map fst chunks) = p ++ pad ->
  tget (f_rcv m) (tp22_hash s sa dest) = Some b -> q_next b = 1 -> q_data b = [] -> q_size b = len p ->
  eom_frame_ok eom -> tp22_cm_session_num eom = s -> tp22_cm_message_size eom = len p -> tp22_cm_segment_num eom = q_nseg b ->
  let '(m1, o1) := feed_dt22 prio sa dest (dt_frames s 1 chunks) m in
  no_delivery o1 /\
  fouts22 (process_tp_cm22 prio sa dest eom now m1) =
    deliveries (base m1) prio (q_pgn b) sa dest p ++
    (if dest =? addr_GLOBAL then [] else [OTx (tp22_eom_ack dest sa s (len p) (q_nseg b) (q_pgn b))]) /\
  f_rcv (fnode22 (process_tp_cm22 prio sa dest eom now m1)) = tdel (f_rcv m1) (tp22_hash s sa dest).
Proof. exact responder22_delivers_exactly. Qed.
Print Assumptions C02_responder_delivers_exactly.

(* the frames the originator builds have exactly that form: header ++ segment ++ 0xFF padding *)
Theorem C02_originator_frame_shape : forall src dst s k seg fr seg',
  dt_frame src dst s k seg = Some (fr, seg') -> (length seg <= 60)%nat ->
  exists pad, f_data fr = tp22_dt_header s k 0 ++ (seg ++ pad) /\ Forall (fun x => x = tp22_dt_pad) pad /\
              f_id fr = tp22_dt_id src dst.
Proof. exact dt_frame_shape. Qed.
Print Assumptions C02_originator_frame_shape.

(* concurrency: an FD transport frame touches at most the receive session (session, sa, dest) and the send session
   (session, dest, sa); all other sessions are exactly as before — concurrent transfers (up to the 8 + 4 of the pools,
   in both directions) proceed as if each were alone *)
Theorem C02_cm_frame_touches_one_session : forall prio sa dest data now m,
  let s := tp22_cm_session_num data in
  ends22 (touches22 (Some (tp22_hash s sa dest)) (Some (tp22_hash s dest sa)) m) (process_tp_cm22 prio sa dest data now m).
Proof. exact fd_cm_touches_one. Qed.
Print Assumptions C02_cm_frame_touches_one_session.
Theorem C02_dt_frame_touches_one_session : forall prio sa dest data now m s' sa' dest',
  0 <= sa < 256 -> 0 <= dest < 256 -> 0 <= s' < 16 -> 0 <= sa' < 256 -> 0 <= dest' < 256 ->
  (s', sa', dest') <> (tp22_dt_session_num data, sa, dest) ->
  tget (f_rcv (fnode22 (process_tp_dt22 prio sa dest data now m))) (tp22_hash s' sa' dest') = tget (f_rcv m) (tp22_hash s' sa' dest') /\
  (forall h, tget (f_snd (fnode22 (process_tp_dt22 prio sa dest data now m))) h = tget (f_snd m) h).
Proof. exact fd_other_sessions_untouched_by_dt. Qed.
Print Assumptions C02_dt_frame_touches_one_session.

From J1939 Require Import SkelDefs FlowDefs.
From J1939.gen Require Import SkelGen.
From J1939P Require Import FlowProofs OrderProofs.

(* state before send on the FD layer (generated skeletons): the send session is stored before the RTS, the session record
   updated before each FD data frame / end-of-message status *)
Theorem C02_state_before_send : never_commits_after_send order_send22 /\ never_commits_after_send order_burst22.
Proof. split; [exact order_send22_ok|exact order_burst22_ok]. Qed.
Print Assumptions C02_state_before_send.

From J1939P Require Net21 Net22 Net22Proofs Net22Bam.
(* T02.9 — end to end on the FD layer: two model nodes on one bus (Net22.v: frames first, then both job threads; the clock
   advances only when the network is idle).  A calls send_pgn with ANY payload of more than 60 bytes for B's address, with
   ANY window sizes on the two sides: after finitely many steps nothing is queued, no session is left on either side, the
   session number is back in A's pool, B's subscribers have been called exactly once each with exactly p, and A has put on
   the wire exactly RTS, the data frames of all segments in order (as the model's own frame builder makes them), and the
   end-of-message status.  The network model itself is run against two real FD stacks at every check. *)
Theorem C02_closed_loop_delivers : forall prio sa dest dp pf p t0 A0 B0,
  0 <= prio < 8 -> 0 <= sa < 255 -> 0 <= dest < 255 -> 0 <= pf < 240 -> 0 <= dp < 2 -> 60 < len p < 16777216 -> 0 < t0 ->
  f_snd A0 = [] /\ f_rcv A0 = [] /\ f_mpg A0 = [] /\ n_timers (base A0) = [] /\ n_cmdt_iv (base A0) = None /\
    accepts (base A0) sa = true /\ 1 <= n_maxp (base A0) < 256 /\ f_rts A0 = repeat true tp22_pool_rts ->
  f_snd B0 = [] /\ f_rcv B0 = [] /\ f_mpg B0 = [] /\ n_timers (base B0) = [] /\ accepts (base B0) dest = true /\ 1 <= n_maxp (base B0) ->
  let pv := dp * 65536 + pf * 256 in
  let ns := ((length p + 59) / 60)%nat in
  exists j, let s := Net22.steps22 j (Net22.net22_send (Net22.net22_0 A0 B0 t0) dp pf dest prio sa p) in
    Net22.pa s = [] /\ Net22.pb s = [] /\ f_snd (Net22.fa s) = [] /\ f_rcv (Net22.fa s) = [] /\
    f_snd (Net22.fb s) = [] /\ f_rcv (Net22.fb s) = [] /\ f_rts (Net22.fa s) = repeat true tp22_pool_rts /\
    Net22.evb2 s = deliveries (base B0) 7 pv sa dest p /\
    Net22.wab2 s = tp22_rts prio sa dest 0 pv (len p) (Z.of_nat ns) (Z.min (n_maxp (base A0)) (Z.of_nat ns))
             :: map (fun k => match dt_frame sa dest 0 (Z.of_nat k + 1) (Net22Proofs.row p k) with
                              | Some (fr, _) => fr | None => tp22_eom_status sa dest 0 (len p) (Z.of_nat ns) pv end) (seq 0 ns)
             ++ [tp22_eom_status sa dest 0 (len p) (Z.of_nat ns) pv].
Proof. exact Net22Proofs.closed_loop22_delivers. Qed.
Print Assumptions C02_closed_loop_delivers.

(* T02.10: the FD broadcast end to end.  In the closed loop of two FD model nodes a BAM transfer of ANY payload of more than
   60 bytes to the global address, with the originator's segment interval shorter than half the listener's T1, comes to
   rest: the network's clock advances by one interval between the frames; afterwards nothing is queued, no session is left
   on either node, the broadcast session number is back in A's pool, B's subscribers have been called exactly once each
   with exactly p, and A has put on the wire exactly the BAM, the data frames of all segments in order and the
   end-of-message status; B has sent nothing.  The network model is run against two real FD stacks at every check. *)
Theorem C02_bam_closed_loop_delivers : forall prio sa dp pf p t0 A0 B0,
  0 <= prio < 8 -> 0 <= sa < 255 -> 0 <= pf < 240 -> 0 <= dp < 2 -> 60 < len p < 16777216 -> 0 < t0 ->
  0 < f_bam_iv A0 < tp22_T1 -> 2 * f_bam_iv A0 < tp22_T1 ->
  f_snd A0 = [] /\ f_rcv A0 = [] /\ f_mpg A0 = [] /\ n_timers (base A0) = [] /\ f_bam A0 = repeat true tp22_pool_bam ->
  f_snd B0 = [] /\ f_rcv B0 = [] /\ f_mpg B0 = [] /\ n_timers (base B0) = [] ->
  let pv := dp * 65536 + pf * 256 in
  let ns := ((length p + 59) / 60)%nat in
  exists j, let s := Net22.steps22 j (Net22.net22_send (Net22.net22_0 A0 B0 t0) dp pf 255 prio sa p) in
    Net22.pa s = [] /\ Net22.pb s = [] /\ f_snd (Net22.fa s) = [] /\ f_rcv (Net22.fa s) = [] /\
    f_snd (Net22.fb s) = [] /\ f_rcv (Net22.fb s) = [] /\
    f_bam (Net22.fa s) = repeat true tp22_pool_bam /\
    Net22.evb2 s = deliveries (base B0) 7 pv sa addr_GLOBAL p /\
    Net22.wab2 s = tp22_bam prio sa 0 pv (len p) (Z.of_nat ns)
             :: map (fun k => match dt_frame sa addr_GLOBAL 0 (Z.of_nat k + 1) (Net22Proofs.row p k) with
                              | Some (fr, _) => fr | None => tp22_bam prio sa 0 pv (len p) (Z.of_nat ns) end) (seq 0 ns)
             ++ [tp22_eom_status sa addr_GLOBAL 0 (len p) (Z.of_nat ns) pv].
Proof. exact Net22Bam.bam_closed_loop22_delivers. Qed.
Print Assumptions C02_bam_closed_loop_delivers.

(* ... and for every group that travels as a broadcast: PDU2 groups (any group extension, delivered under dp.pf.ps) as well *)
Theorem C02_bam_closed_loop_delivers_pdu1_and_pdu2 : forall prio sa dp pf ps p t0 A0 B0,
  0 <= prio < 8 -> 0 <= sa < 255 -> (0 <= pf < 240 /\ ps = 255) \/ (240 <= pf < 256 /\ 0 <= ps < 256) ->
  0 <= dp < 2 -> 60 < len p < 16777216 -> 0 < t0 ->
  0 < f_bam_iv A0 < tp22_T1 -> 2 * f_bam_iv A0 < tp22_T1 ->
  f_snd A0 = [] /\ f_rcv A0 = [] /\ f_mpg A0 = [] /\ n_timers (base A0) = [] /\ f_bam A0 = repeat true tp22_pool_bam ->
  f_snd B0 = [] /\ f_rcv B0 = [] /\ f_mpg B0 = [] /\ n_timers (base B0) = [] ->
  let pv := Net22Bam.bam_pgn22 dp pf ps in
  let ns := ((length p + 59) / 60)%nat in
  exists j, let s := Net22.steps22 j (Net22.net22_send (Net22.net22_0 A0 B0 t0) dp pf ps prio sa p) in
    Net22.pa s = [] /\ Net22.pb s = [] /\ f_snd (Net22.fa s) = [] /\ f_rcv (Net22.fa s) = [] /\
    f_snd (Net22.fb s) = [] /\ f_rcv (Net22.fb s) = [] /\
    f_bam (Net22.fa s) = repeat true tp22_pool_bam /\
    Net22.evb2 s = deliveries (base B0) 7 pv sa addr_GLOBAL p /\
    Net22.wab2 s = tp22_bam prio sa 0 pv (len p) (Z.of_nat ns)
             :: map (fun k => match dt_frame sa addr_GLOBAL 0 (Z.of_nat k + 1) (Net22Proofs.row p k) with
                              | Some (fr, _) => fr | None => tp22_bam prio sa 0 pv (len p) (Z.of_nat ns) end) (seq 0 ns)
             ++ [tp22_eom_status sa addr_GLOBAL 0 (len p) (Z.of_nat ns) pv].
Proof. exact Net22Bam.bam_closed_loop22_delivers_any. Qed.
Print Assumptions C02_bam_closed_loop_delivers_pdu1_and_pdu2.

From J1939P Require Net21Seq Net22Seq.

(* T02.11 / T10.20: a HISTORY of FD transfers.  Any number of J1939-22 connection-mode transfers (any payloads of more than 60
   bytes, any PGNs and priorities) run one after the other between two FD model nodes, each submitted when the network
   has come to rest: ALL of them complete — after every one the nodes meet the premises of the FD closed-loop theorem again
   (nothing pending, same configuration and subscribers, the session number back in the pool), so the next one is accepted
   and delivers; B's subscribers have got every payload exactly once, in order, and the wire carries exactly the frames of
   every transfer, in order *)
Theorem C02_fd_sequence_of_transfers_all_deliver : forall sa dest, 0 <= sa < 255 -> 0 <= dest < 255 ->
  forall ms s, Forall Net22Seq.msg22_ok ms -> Net22.pa s = [] -> Net22.pb s = [] -> 0 < Net22.fclk s ->
  Net22Seq.premA22 sa (Net22.fa s) -> Net22Seq.premB22 dest (Net22.fb s) ->
  exists s', Net22Seq.seq_reach22 sa dest s ms s' /\
    Net22.pa s' = [] /\ Net22.pb s' = [] /\ Net22Seq.premA22 sa (Net22.fa s') /\ Net22Seq.premB22 dest (Net22.fb s') /\
    Net22.evb2 s' = Net22.evb2 s ++ concat (map (fun m => deliveries (base (Net22.fb s)) 7 (Net21Seq.m_dp m * 65536 + Net21Seq.m_pf m * 256)
                                                                     sa dest (Net21Seq.m_data m)) ms) /\
    Net22.wab2 s' = Net22.wab2 s ++ concat (map (Net22Seq.wire22_of sa dest (n_maxp (base (Net22.fa s)))) ms).
Proof. exact Net22Seq.sequence22_delivers. Qed.
Print Assumptions C02_fd_sequence_of_transfers_all_deliver.

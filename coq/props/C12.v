(* C12 — timers fire when due and callback registrations mean what they say (model of the repaired ECU loop). *)
From J1939 Require Import Base CodecGlue Model21.
From J1939P Require Import Flat TimerProofs.

(* T12.4: after remove_timer(cb) NO registration of cb remains, however many there were; others kept in order *)
Theorem C12_remove_timer_complete : forall n cb,
  n_timers (remove_timer n cb) = filter (fun t => negb (tcb_eqb (tm_cb t) cb)) (n_timers n) /\
  (forall t, In t (n_timers (remove_timer n cb)) -> tm_cb t <> cb) /\
  n_wakes (remove_timer n cb) = n_wakes n + 1.
Proof. exact remove_timer_complete. Qed.
Print Assumptions C12_remove_timer_complete.

Theorem C12_unsubscribe_complete : forall n cid,
  n_subs (unsubscribe n cid) = filter (fun s => negb (sb_cid s =? cid)) (n_subs n) /\
  (forall s, In s (n_subs (unsubscribe n cid)) -> sb_cid s <> cid).
Proof. exact unsubscribe_complete. Qed.
Print Assumptions C12_unsubscribe_complete.

(* registration: first deadline is now + delta, and the job thread is woken to recompute its sleep *)
Theorem C12_add_timer : forall n now delta cb ret,
  n_timers (add_timer n now delta cb ret) =
    n_timers n ++ [{| tm_delta := delta; tm_cb := cb; tm_deadline := now + delta; tm_ret := ret; tm_id := n_nextid n |}] /\
  n_wakes (add_timer n now delta cb ret) = n_wakes n + 1.
Proof. exact add_timer_spec. Qed.
Print Assumptions C12_add_timer.

(* T12.3: re-arming advances the stored deadline by whole periods to just beyond now: no drift *)
Theorem C12_no_drift : forall dl delta now, 0 < delta -> dl <= now ->
  let dl' := advance_deadline dl delta now in
  (exists m, 1 <= m /\ dl' = dl + m * delta) /\ now < dl' <= now + delta.
Proof. exact advance_no_drift. Qed.
Print Assumptions C12_no_drift.

(* T12.1: not early *)
Theorem C12_not_early : forall ev rest now nw n k,
  In ev (n_timers n) -> now < tm_deadline ev ->
  timer_pass (ev :: rest) now nw n k = timer_pass rest now (min_nw nw (tm_deadline ev)) n k.
Proof. exact timer_not_early. Qed.
Print Assumptions C12_not_early.

(* T12.5: a due registration is invoked exactly once per pass and the pass goes on with the rest of its snapshot *)
Theorem C12_periodic_fires : forall ev cid rest now nw n k,
  In ev (n_timers n) -> tm_cb ev = TApp cid -> tm_ret ev = true -> tm_deadline ev <= now ->
  flat (timer_pass (ev :: rest) now nw n k) =
  let dl := advance_deadline (tm_deadline ev) (tm_delta ev) now in
  let '(s, os, r) := flat (timer_pass rest now (min_nw nw dl)
                             (set_timers n (upd_timer_deadline (n_timers n) (tm_id ev) dl)) k) in
  (s, OTimer cid :: os, r).
Proof. exact timer_periodic_fires. Qed.
Print Assumptions C12_periodic_fires.

Theorem C12_oneshot_fires : forall ev cid rest now nw n k,
  In ev (n_timers n) -> tm_cb ev = TApp cid -> tm_ret ev = false -> tm_deadline ev <= now ->
  flat (timer_pass (ev :: rest) now nw n k) =
  let '(s, os, r) := flat (timer_pass rest now nw (set_timers n (remove_first ev (n_timers n))) k) in
  (s, OTimer cid :: os, r).
Proof. exact timer_oneshot_fires. Qed.
Print Assumptions C12_oneshot_fires.

Theorem C12_removed_not_called : forall ev rest now nw n k,
  timer_in ev (n_timers n) = false ->
  timer_pass (ev :: rest) now nw n k = timer_pass rest now nw n k.
Proof. exact timer_removed_not_called. Qed.
Print Assumptions C12_removed_not_called.

From J1939P Require NoOversleep NoOversleepTimers.
(* T12.7 "called when due": the sleep one iteration of the job loop computes ends not later than the deadline of ANY timer
   still registered (periodic or one-shot, advanced or left alone, value-equal twins included) and of any transport session
   still open; for a registration made during the pass itself a wake-up token is pending, so the sleep ends at once *)
Theorem C12_job_thread_never_sleeps_past_a_timer_deadline : forall n now,
  tnodup (n_rcv n) -> tnodup (n_snd n) -> NoOversleepTimers.timers_wf n ->
  match flat (job_iter n now) with
  | (n', _, RDone r) => r <= 5000000 /\ NoOversleepTimers.all_covered n n' (now + r)
  | (_, _, RRaise _) => True
  end.
Proof. exact NoOversleepTimers.job_iter_never_oversleeps. Qed.
Print Assumptions C12_job_thread_never_sleeps_past_a_timer_deadline.

(* the well-formedness premise is what add_timer maintains, and it is met by a concrete node *)
Theorem C12_add_timer_keeps_registrations_well_formed : forall n now delta cb ret,
  NoOversleepTimers.timers_wf n -> NoOversleepTimers.timers_wf (add_timer n now delta cb ret).
Proof. exact NoOversleepTimers.add_timer_wf. Qed.
Print Assumptions C12_add_timer_keeps_registrations_well_formed.

(* ... and the premise is an invariant: job iterations, add_timer and remove_timer keep the registrations well-formed, from a
   node without timers onwards — T12.7 applies to every state these operations reach *)
Theorem C12_registrations_stay_well_formed :
  (forall maxp civ biv, NoOversleepTimers.timers_wf (init_node maxp civ biv)) /\
  (forall n cb, NoOversleepTimers.timers_wf n -> NoOversleepTimers.timers_wf (remove_timer n cb)) /\
  (forall n now, tnodup (n_rcv n) -> tnodup (n_snd n) -> NoOversleepTimers.timers_wf n ->
     match flat (job_iter n now) with (n', _, RDone _) => NoOversleepTimers.timers_wf n' | (_, _, RRaise _) => True end).
Proof.
  split; [exact NoOversleepTimers.init_wf|split; [exact NoOversleepTimers.remove_timer_wf|exact NoOversleepTimers.job_iter_keeps_wf]].
Qed.
Print Assumptions C12_registrations_stay_well_formed.

(* C16 — diagnostic trouble codes and lamp states arrive exactly as sent (DM1, DTC, DM22).
   All definitions are generated from /repo (DiagGen) or built from them (Dm1Model, tied by item correspondence). *)
From J1939 Require Import Base Dm1Model.
From J1939.gen Require Import DiagGen.
From J1939P Require Import CodecProofs DiagProofs.

Theorem C16_dtc_roundtrip : forall spn fmi oc, 0 <= spn < 524288 -> 0 <= fmi < 32 -> 0 <= oc < 128 ->
  dtc_unpack (dtc_pack spn fmi oc) = (spn, fmi, oc, 0).
Proof. exact dtc_roundtrip. Qed.
Print Assumptions C16_dtc_roundtrip.

Theorem C16_dtc_bytes_at_sae_positions : forall spn fmi oc, 0 <= spn < 524288 -> 0 <= fmi < 32 -> 0 <= oc < 128 ->
  dm1_dtc_bytes (dtc_pack spn fmi oc) = [spn mod 256; (spn / 256) mod 256; (spn / 65536) * 32 + fmi; oc].
Proof. exact dtc_bytes_layout. Qed.
Print Assumptions C16_dtc_bytes_at_sae_positions.

Theorem C16_dtc_bytes_little_endian : forall b0 b1 b2 b3,
  0 <= b0 < 256 -> 0 <= b1 < 256 -> 0 <= b2 < 256 -> 0 <= b3 < 256 ->
  dm1_dtc_join b0 b1 b2 b3 = b0 + b1 * 256 + b2 * 65536 + b3 * 16777216.
Proof. exact dtc_join_bytes. Qed.
Print Assumptions C16_dtc_bytes_little_endian.

(* all 5^4 lamp combinations (finite domain: exhaustive evaluation lifted with forallb_forall) *)
Theorem C16_lamps_roundtrip : forall pl awl rsl mil rest,
  lamp_state pl -> lamp_state awl -> lamp_state rsl -> lamp_state mil ->
  map (fun lf => lamp_get_status (fst lf) (snd lf)) (dm1_lamp_fields (lamp_get_data pl awl rsl mil ++ rest)) = [pl; awl; rsl; mil]
  /\ length (lamp_get_data pl awl rsl mil) = 2%nat.
Proof. exact lamps_roundtrip. Qed.
Print Assumptions C16_lamps_roundtrip.

(* DM1 payload: parse (build lamps dtcs) = (lamps, dtcs) for ANY non-empty list of in-range trouble codes, order kept *)
Theorem C16_dm1_payload_roundtrip : forall pl awl rsl mil dtcs,
  lamp_state pl -> lamp_state awl -> lamp_state rsl -> lamp_state mil -> dtcs <> [] -> Forall dtc_ok dtcs ->
  dm1_parse (dm1_build pl awl rsl mil dtcs) = Some ([pl; awl; rsl; mil], dtcs) /\
  length (dm1_build pl awl rsl mil dtcs) = (2 + 4 * length dtcs)%nat.
Proof. exact dm1_roundtrip. Qed.
Print Assumptions C16_dm1_payload_roundtrip.

Theorem C16_dm22_layout : forall ctrl fmi spn, 0 <= spn < 524288 -> 0 <= fmi < 32 ->
  dm22_payload ctrl fmi spn = [ctrl; 255; 255; 255; 255; spn mod 256; (spn / 256) mod 256; (spn / 65536) * 32 + fmi].
Proof. exact dm22_layout. Qed.
Print Assumptions C16_dm22_layout.

Theorem C16_dm22_destination : forall dest, dm22_args dest = (0, 195, dest mod 256, 6).
Proof. exact dm22_destination. Qed.
Print Assumptions C16_dm22_destination.

(* C16 — diagnostic trouble codes and lamp states arrive exactly as sent (DM1, DTC, DM22).
   All definitions are generated from /repo (DiagGen) or built from them (Dm1Model, tied by item correspondence). *)
From J1939 Require Import Base CodecGlue Model21 Model22 Dm1Model.
From J1939.gen Require Import Codec Tp21Gen CaGen DiagGen Tp22Gen.
From J1939P Require Import CodecProofs DiagProofs Flat Tp21Seg Net21 Net21Bam MpgProofs Net22 Net22Proofs Net22Bam Dm1Net.
From J1939P Require Net21Seq Net21BamSeq.

Theorem C16_dtc_roundtrip : forall spn fmi oc, 0 <= spn < 524288 -> 0 <= fmi < 32 -> 0 <= oc < 128 ->
  dtc_unpack (dtc_pack spn fmi oc) = (spn, fmi, oc, 0).
Proof. exact dtc_roundtrip. Qed.
Print Assumptions C16_dtc_roundtrip.

Theorem C16_dtc_bytes_at_sae_positions : forall spn fmi oc, 0 <= spn < 524288 -> 0 <= fmi < 32 -> 0 <= oc < 128 ->
  dm1_dtc_bytes (dtc_pack spn fmi oc) = [spn mod 256; (spn / 256) mod 256; (spn / 65536) * 32 + fmi; oc].
Proof. exact dtc_bytes_layout. Qed.
Print Assumptions C16_dtc_bytes_at_sae_positions.

Theorem C16_dtc_bytes_little_endian : forall b0 b1 b2 b3,
  0 <= b0 < 256 -> 0 <= b1 < 256 -> 0 <= b2 < 256 -> 0 <= b3 < 256 ->
  dm1_dtc_join b0 b1 b2 b3 = b0 + b1 * 256 + b2 * 65536 + b3 * 16777216.
Proof. exact dtc_join_bytes. Qed.
Print Assumptions C16_dtc_bytes_little_endian.

(* all 5^4 lamp combinations (finite domain: exhaustive evaluation lifted with forallb_forall) *)
Theorem C16_lamps_roundtrip : forall pl awl rsl mil rest,
  lamp_state pl -> lamp_state awl -> lamp_state rsl -> lamp_state mil ->
  map (fun lf => lamp_get_status (fst lf) (snd lf)) (dm1_lamp_fields (lamp_get_data pl awl rsl mil ++ rest)) = [pl; awl; rsl; mil]
  /\ length (lamp_get_data pl awl rsl mil) = 2%nat.
Proof. exact lamps_roundtrip. Qed.
Print Assumptions C16_lamps_roundtrip.

(* DM1 payload: parse (build lamps dtcs) = (lamps, dtcs) for ANY non-empty list of in-range trouble codes, order kept *)
Theorem C16_dm1_payload_roundtrip : forall pl awl rsl mil dtcs,
  lamp_state pl -> lamp_state awl -> lamp_state rsl -> lamp_state mil -> dtcs <> [] -> Forall dtc_ok dtcs ->
  dm1_parse (dm1_build pl awl rsl mil dtcs) = Some ([pl; awl; rsl; mil], dtcs) /\
  length (dm1_build pl awl rsl mil dtcs) = (2 + 4 * length dtcs)%nat.
Proof. exact dm1_roundtrip. Qed.
Print Assumptions C16_dm1_payload_roundtrip.

Theorem C16_dm22_layout : forall ctrl fmi spn, 0 <= spn < 524288 -> 0 <= fmi < 32 ->
  dm22_payload ctrl fmi spn = [ctrl; 255; 255; 255; 255; spn mod 256; (spn / 256) mod 256; (spn / 65536) * 32 + fmi].
Proof. exact dm22_layout. Qed.
Print Assumptions C16_dm22_layout.

Theorem C16_dm22_destination : forall dest, dm22_args dest = (0, 195, dest mod 256, 6).
Proof. exact dm22_destination. Qed.
Print Assumptions C16_dm22_destination.

(* end to end on the J1939-21 layer: a DM1 with 2 .. 445 trouble codes (every DM1 that needs the transport protocol and fits it),
   handed over as the Dm1 service does (PGN 0xFECA, a PDU2 group; priority 7), runs through the broadcast closed loop of two model
   nodes and reaches every listener of the other node as ONE payload that parses back to exactly the lamp states and the
   trouble codes, in order; nothing is left on either node *)
Theorem C16_dm1_over_broadcast_end_to_end : forall pl awl rsl mil dtcs sa t0 A0 B0,
  lamp_state pl -> lamp_state awl -> lamp_state rsl -> lamp_state mil -> Forall dtc_ok dtcs ->
  (2 <= length dtcs <= 445)%nat -> 0 <= sa < 255 -> 0 < t0 ->
  0 < n_bam_iv A0 < tp21_T1 ->
  n_snd A0 = [] /\ n_rcv A0 = [] /\ n_timers A0 = [] ->
  n_snd B0 = [] /\ n_rcv B0 = [] /\ n_timers B0 = [] ->
  let p := dm1_build pl awl rsl mil dtcs in
  dm1_priority p = 7 /\
  exists j, let s := Net21.steps j (Net21.net_send (Net21.net0 A0 B0 t0) 0 254 202 (dm1_priority p) sa p) in
    Net21.qa s = [] /\ Net21.qb s = [] /\ n_snd (Net21.na s) = [] /\ n_rcv (Net21.na s) = [] /\
    n_snd (Net21.nb s) = [] /\ n_rcv (Net21.nb s) = [] /\
    Net21.evb s = deliveries B0 7 65226 sa addr_GLOBAL p /\
    dm1_parse p = Some ([pl; awl; rsl; mil], dtcs).
Proof. exact dm1_over_broadcast_end_to_end. Qed.
Print Assumptions C16_dm1_over_broadcast_end_to_end.

(* ... and on the J1939-22 layer: a DM1 with 15 or more trouble codes (more than 60 bytes: an FD broadcast of the PDU2 group 0xFECA)
   reaches every listener of the other FD node as one payload that parses back to exactly the lamp states and the codes; the
   broadcast session number is back in the pool *)
Theorem C16_dm1_over_fd_broadcast_end_to_end : forall pl awl rsl mil dtcs sa t0 A0 B0,
  lamp_state pl -> lamp_state awl -> lamp_state rsl -> lamp_state mil -> Forall dtc_ok dtcs ->
  15 <= Z.of_nat (length dtcs) < 4194303 -> 0 <= sa < 255 -> 0 < t0 ->
  0 < f_bam_iv A0 < tp22_T1 -> 2 * f_bam_iv A0 < tp22_T1 ->
  f_snd A0 = [] /\ f_rcv A0 = [] /\ f_mpg A0 = [] /\ n_timers (base A0) = [] /\ f_bam A0 = repeat true tp22_pool_bam ->
  f_snd B0 = [] /\ f_rcv B0 = [] /\ f_mpg B0 = [] /\ n_timers (base B0) = [] ->
  let p := dm1_build pl awl rsl mil dtcs in
  dm1_priority p = 7 /\
  exists j, let s := Net22.steps22 j (Net22.net22_send (Net22.net22_0 A0 B0 t0) 0 254 202 (dm1_priority p) sa p) in
    Net22.pa s = [] /\ Net22.pb s = [] /\ f_snd (Net22.fa s) = [] /\ f_rcv (Net22.fa s) = [] /\
    f_snd (Net22.fb s) = [] /\ f_rcv (Net22.fb s) = [] /\
    f_bam (Net22.fa s) = repeat true tp22_pool_bam /\
    Net22.evb2 s = deliveries (base B0) 7 65226 sa addr_GLOBAL p /\
    dm1_parse p = Some ([pl; awl; rsl; mil], dtcs).
Proof. exact dm1_over_fd_broadcast_end_to_end. Qed.
Print Assumptions C16_dm1_over_fd_broadcast_end_to_end.

(* "each cycle": every cycle of a cyclic DM1 — whatever the callback supplies at each cycle (lamp states and 2..445 trouble codes,
   varying freely from cycle to cycle), each sent when the previous one has gone out — reaches the listeners of the other node
   as one payload per cycle, in order, and the k-th payload parses back to exactly what the k-th cycle supplied; for ANY number
   of cycles *)
Theorem C16_dm1_every_cycle_delivers : forall sa iv, 0 <= sa < 255 -> 0 < iv < tp21_T1 ->
  forall cs s, Forall Net21BamSeq.dm1c_ok cs -> Net21.qa s = [] -> Net21.qb s = [] -> 0 < Net21.clk s ->
  Net21BamSeq.bpremA iv (Net21.na s) -> Net21BamSeq.bpremB (Net21.nb s) ->
  exists s', Net21BamSeq.bseq_reach sa s (map Net21BamSeq.dm1_msg cs) s' /\
    Net21.qa s' = [] /\ Net21.qb s' = [] /\ Net21BamSeq.bpremA iv (Net21.na s') /\ Net21BamSeq.bpremB (Net21.nb s') /\
    Net21.evb s' = Net21.evb s ++ concat (map (fun c => deliveries (Net21.nb s) 7 65226 sa addr_GLOBAL (Net21BamSeq.dm1_payload c)) cs) /\
    Forall (fun c => dm1_parse (Net21BamSeq.dm1_payload c) =
                     Some ([Net21BamSeq.c_pl c; Net21BamSeq.c_awl c; Net21BamSeq.c_rsl c; Net21BamSeq.c_mil c], Net21BamSeq.c_dtcs c)) cs.
Proof. exact Net21BamSeq.dm1_every_cycle_delivers. Qed.
Print Assumptions C16_dm1_every_cycle_delivers.

(* C06 — lost frames or a vanished peer end a transfer cleanly, never with corrupt data (J1939-21 model and the
   receive side of the J1939-22 model; FD give-up times are checked by fault enumeration on the real code). *)
From J1939 Require Import Base CodecGlue Model21 Model22.
From J1939.gen Require Import Codec Tp21Gen CaGen Tp22Gen.
From J1939P Require Import CodecProofs Flat Tp21Seg Tp21Resp Tp21Orig TimeoutProofs MpgProofs PoolProofs Tp22Proofs TimeoutProofs22.

(* T06.1: exact payload or nothing — any set of DT frames carrying fewer bytes than announced delivers nothing *)
Theorem C06_lost_packet_never_delivers : forall prio sa dest frames n b,
  tget (n_rcv n) (tp21_hash sa dest) = Some b ->
  len (r_data b) + fold_right (fun f acc => len (snd (fst f)) + acc) 0 frames < r_size b ->
  no_delivery (snd (feed_any prio sa dest frames n)).
Proof. exact lost_packet_never_delivers. Qed.
Print Assumptions C06_lost_packet_never_delivers.

Theorem C06_proper_subset_too_short : forall p (m : nat),
  (8 < length p)%nat -> (m < npk (length p))%nat -> 7 * Z.of_nat m < len p.
Proof. exact proper_subset_too_short. Qed.
Print Assumptions C06_proper_subset_too_short.

(* ... and the complete sequence delivers exactly p (T01.3) — restated for reference by C01_responder_dt_phase *)

Theorem C06_timeouts_within_standard :
  tp21_T1 = 750000 /\ tp21_T2 = 1250000 /\ tp21_T3 = 1250000 /\ tp21_Th = 500000 /\ tp21_Tb = 50000.
Proof. exact timeouts_within_standard. Qed.
Print Assumptions C06_timeouts_within_standard.

(* T06.4: release at the deadline, abort (timeout) exactly for connection-mode *)
Theorem C06_rcv_timeout_releases : forall key now nw n k b,
  tget (n_rcv n) key = Some b -> r_deadline b <> 0 -> r_deadline b <= now ->
  flat (rcv_pass [key] now nw n k) =
  let n' := set_rcv n (tdel (n_rcv n) key) in
  let '(s, os, r) := flat (k n' nw) in
  (s, (if r_dst b =? addr_GLOBAL then [] else [OTx (tp21_abort (r_dst b) (r_src b) tp21_reason_TIMEOUT (r_pgn b))]) ++ os, r).
Proof. exact rcv_timeout_releases. Qed.
Print Assumptions C06_rcv_timeout_releases.

Theorem C06_rcv_untouched_before_deadline : forall key now nw n k b,
  tget (n_rcv n) key = Some b -> now < r_deadline b -> 0 <= now ->
  rcv_pass [key] now nw n k = k n (if nw >? r_deadline b then r_deadline b else nw).
Proof. exact rcv_before_deadline. Qed.
Print Assumptions C06_rcv_untouched_before_deadline.

Theorem C06_snd_timeout_releases : forall key now nw n k b,
  tget (n_snd n) key = Some b -> s_state b = ST_WAITING_CTS -> s_deadline b <> 0 -> s_deadline b <= now ->
  flat (snd_pass [key] now nw n k) =
  let n' := set_snd n (tdel (n_snd n) key) in
  let '(s, os, r) := flat (k n' nw) in
  (s, OTx (tp21_abort (s_src b) (s_dst b) tp21_reason_TIMEOUT (s_pgn b)) :: os, r).
Proof. exact snd_timeout_releases. Qed.
Print Assumptions C06_snd_timeout_releases.

(* T06.6 *)
Theorem C06_peer_abort_finishes : forall n b prio sa dest reason pgn now,
  tget (n_snd n) (tp21_hash dest sa) = Some b -> s_state b = ST_WAITING_CTS -> 0 <= pgn < 16777216 -> 0 <= reason < 255 ->
  flat (process_tp_cm prio sa dest (f_data (tp21_abort sa dest reason pgn)) now n) =
  (set_snd n (tset (n_snd n) (tp21_hash dest sa) (upd_sbuf b ST_FINISHED now (s_next b))), [], RDone 0).
Proof. exact peer_abort_finishes. Qed.
Print Assumptions C06_peer_abort_finishes.

Theorem C06_finished_session_removed : forall key now nw n k b,
  tget (n_snd n) key = Some b -> s_state b = ST_FINISHED -> s_deadline b <> 0 -> s_deadline b <= now ->
  snd_pass [key] now nw n k = k (set_snd n (tdel (n_snd n) key)) nw.
Proof. exact finished_session_removed. Qed.
Print Assumptions C06_finished_session_removed.

(* T06.1 (J1939-22): exact payload or nothing on the FD layer.  ANY sequence of FD data frames for a session (any
   segment numbers, order, repetition, instants) that together carry fewer bytes than announced, followed by ANY
   end-of-message status, delivers nothing to any listener *)
Theorem C06_fd_lost_segment_never_delivers : forall prio sa dest frames eom now m b0,
  eom_frame_ok eom ->
  let h := tp22_hash (tp22_cm_session_num eom) sa dest in
  tget (f_rcv m) h = Some b0 ->
  len (q_data b0) + fold_right (fun f acc => len (payload22 (fst f)) + acc) 0 frames < q_size b0 ->
  let '(m1, o1) := feed_dt22 prio sa dest frames m in
  no_delivery (o1 ++ fouts22 (process_tp_cm22 prio sa dest eom now m1)).
Proof. exact fd_lost_segment_never_delivers. Qed.
Print Assumptions C06_fd_lost_segment_never_delivers.

(* a segment out of sequence (every segment after a lost one) changes nothing at all *)
Theorem C06_fd_out_of_sequence_ignored : forall prio sa dest data now m b,
  tget (f_rcv m) (tp22_hash (tp22_dt_session_num data) sa dest) = Some b ->
  q_next b <> tp22_dt_segment_num data ->
  flat22 (process_tp_dt22 prio sa dest data now m) = (m, [], RDone 0).
Proof. exact dt22_out_of_sequence_ignored. Qed.
Print Assumptions C06_fd_out_of_sequence_ignored.

(* a status that does not match what was collected: nothing delivered, session released, connection-mode peer told *)
Theorem C06_fd_mismatch_aborts_and_releases : forall prio sa dest data now m b,
  eom_frame_ok data ->
  let h := tp22_hash (tp22_cm_session_num data) sa dest in
  tget (f_rcv m) h = Some b ->
  ~ (q_size b = tp22_cm_message_size data /\ q_nseg b = tp22_cm_segment_num data /\ len (q_data b) = tp22_cm_message_size data) ->
  fouts22 (process_tp_cm22 prio sa dest data now m) =
    (if dest =? addr_GLOBAL then []
     else [OTx (tp22_abort dest sa (tp22_cm_session_num data) tp22_reason_RESOURCES (q_pgn b))]) /\
  f_rcv (fnode22 (process_tp_cm22 prio sa dest data now m)) = tdel (f_rcv m) h.
Proof. exact eom_status_mismatch_delivers_nothing. Qed.
Print Assumptions C06_fd_mismatch_aborts_and_releases.

From J1939P Require NoOversleep NoOversleep22.
(* T06.9: after one pass of the transport layer the wake-up time the job thread sleeps until is not later than the deadline of
   ANY receive or send session still in a table, whatever its state and whatever the pass did — so every deadline
   (time-out, burst, BAM packet, hold refresh) is served by a pass that starts at most the scheduling latency after it *)
Theorem C06_job_thread_never_sleeps_past_a_deadline : forall n now,
  tnodup (n_rcv n) -> tnodup (n_snd n) ->
  match flat (dll_job n now (fun n' nw' => Done n' nw')) with
  | (n', _, RDone nw') => nw' <= now + 5000000 /\ NoOversleep.tm_part n' = NoOversleep.tm_part n /\
                          NoOversleep.rcv_covered n' nw' /\ NoOversleep.snd_covered n' nw'
  | (_, _, RRaise _) => True
  end.
Proof. exact NoOversleep.dll_job_wakeup_covers_every_deadline. Qed.
Print Assumptions C06_job_thread_never_sleeps_past_a_deadline.

Theorem C06_fd_job_thread_never_sleeps_past_a_deadline : forall m now,
  tnodup (f_rcv m) -> tnodup (f_mpg m) -> tnodup (f_snd m) ->
  match flat22 (dll_job22 m now (fun m' nw' => Done m' nw')) with
  | (m', _, RDone nw') => nw' <= now + 5000000 /\ NoOversleep22.covered22 m' nw'
  | (_, _, RRaise _) => True
  end.
Proof. exact NoOversleep22.dll_job22_wakeup_covers_every_deadline. Qed.
Print Assumptions C06_fd_job_thread_never_sleeps_past_a_deadline.

From J1939P Require Net21 Net21Timeout.
(* T06.10 — a vanished peer, end to end, in the closed loop of two model nodes (Net21.v): the responder never answers.  The
   network's clock advances by exactly T3 = 1.25 s; A's job thread then sends the Connection Abort (timeout) and releases the
   session; nothing was delivered anywhere, nothing is left, B is untouched *)
Theorem C06_silent_responder_abandoned_after_T3 : forall prio sa dest dp pf p t0 A0 B0,
  0 <= prio < 8 -> 0 <= sa < 255 -> 0 <= dest < 255 -> 0 <= pf < 240 -> 0 <= dp < 2 -> 8 < len p <= 1785 -> 0 < t0 ->
  n_snd A0 = [] /\ n_rcv A0 = [] /\ n_timers A0 = [] ->
  n_snd B0 = [] /\ n_rcv B0 = [] /\ n_timers B0 = [] ->
  accepts B0 dest = false ->
  let s := Net21.steps 4 (Net21.net_send (Net21.net0 A0 B0 t0) dp pf dest prio sa p) in
  Net21.qa s = [] /\ Net21.qb s = [] /\ n_snd (Net21.na s) = [] /\ n_rcv (Net21.na s) = [] /\ Net21.nb s = B0 /\
  Net21.evb s = [] /\ Net21.eva s = [] /\
  Net21.wab s = [tp21_rts sa dest prio (dp * 65536 + pf * 256) (len p) (Z.of_nat (npk (length p)))
                          (Z.min (n_maxp A0) (Z.of_nat (npk (length p))));
                 tp21_abort sa dest tp21_reason_TIMEOUT (dp * 65536 + pf * 256)] /\
  Net21.wba s = [] /\ Net21.clk s = t0 + tp21_T3.
Proof. exact Net21Timeout.silent_responder. Qed.
Print Assumptions C06_silent_responder_abandoned_after_T3.

(* T06.11 — the originator does not hear the responder: B opens a receive session and answers with a CTS that A never sees;
   after exactly 1.25 s both job threads give up in the same pass (A: T3, B: T2), the two aborts cross, nothing was
   delivered and nothing is left on either side *)
Theorem C06_unheard_responder_both_sides_give_up : forall prio sa dest dp pf p t0 A0 B0,
  0 <= prio < 8 -> 0 <= sa < 255 -> 0 <= dest < 255 -> 0 <= pf < 240 -> 0 <= dp < 2 -> 8 < len p <= 1785 -> 0 < t0 ->
  n_snd A0 = [] /\ n_rcv A0 = [] /\ n_timers A0 = [] ->
  n_snd B0 = [] /\ n_rcv B0 = [] /\ n_timers B0 = [] ->
  accepts A0 sa = false -> accepts B0 dest = true -> 1 <= n_maxp A0 -> 1 <= n_maxp B0 ->
  let s := Net21.steps 6 (Net21.net_send (Net21.net0 A0 B0 t0) dp pf dest prio sa p) in
  let pv := dp * 65536 + pf * 256 in
  let num := Z.of_nat (npk (length p)) in
  Net21.qa s = [] /\ Net21.qb s = [] /\ n_snd (Net21.na s) = [] /\ n_rcv (Net21.na s) = [] /\
  n_snd (Net21.nb s) = [] /\ n_rcv (Net21.nb s) = [] /\ Net21.evb s = [] /\ Net21.eva s = [] /\
  Net21.wab s = [tp21_rts sa dest prio pv (len p) num (Z.min (n_maxp A0) num); tp21_abort sa dest tp21_reason_TIMEOUT pv] /\
  Net21.wba s = [tp21_cts dest sa (Z.min (n_maxp B0) (Z.min (Z.min (n_maxp A0) num) num)) 1 pv;
                 tp21_abort dest sa tp21_reason_TIMEOUT pv] /\
  Net21.clk s = t0 + 1250000.
Proof. exact Net21Timeout.silent_originator. Qed.
Print Assumptions C06_unheard_responder_both_sides_give_up.

(* T06.16: the same on J1939-22.  B does not accept the destination: A's FD RTS stays unanswered; the network's clock advances
   by exactly T3 = 1.25 s — not T5 = 3 s, which the standard reserves for the wait for the end-of-message acknowledge —, A's
   job thread sends the Connection Abort (timeout), releases the session and returns its number to the pool; nothing was
   delivered, B is untouched, nothing is left *)
From J1939P Require Net22 Net22Timeout.
Theorem C06_fd_silent_responder_abandoned_after_T3 : forall prio sa dest dp pf p t0 A0 B0,
  0 <= prio < 8 -> 0 <= sa < 255 -> 0 <= dest < 255 -> 0 <= pf < 240 -> 0 <= dp < 2 -> 60 < len p < 16777216 -> 0 < t0 ->
  f_snd A0 = [] /\ f_rcv A0 = [] /\ f_mpg A0 = [] /\ n_timers (base A0) = [] /\ n_cmdt_iv (base A0) = None /\
    accepts (base A0) sa = true /\ 1 <= n_maxp (base A0) < 256 /\ f_rts A0 = repeat true tp22_pool_rts ->
  f_snd B0 = [] /\ f_rcv B0 = [] /\ f_mpg B0 = [] /\ n_timers (base B0) = [] /\ 1 <= n_maxp (base B0) ->
  accepts (base B0) dest = false ->
  let pv := dp * 65536 + pf * 256 in
  let nseg := Z.of_nat ((length p + 59) / 60) in
  let s := Net22.steps22 4 (Net22.net22_send (Net22.net22_0 A0 B0 t0) dp pf dest prio sa p) in
  Net22.pa s = [] /\ Net22.pb s = [] /\ f_snd (Net22.fa s) = [] /\ f_rcv (Net22.fa s) = [] /\
  f_rts (Net22.fa s) = repeat true tp22_pool_rts /\ Net22.fb s = B0 /\
  Net22.evb2 s = [] /\ Net22.eva2 s = [] /\
  Net22.wab2 s = [tp22_rts prio sa dest 0 pv (len p) nseg (Z.min (n_maxp (base A0)) nseg); tp22_abort sa dest 0 tp22_reason_TIMEOUT pv] /\
  Net22.wba2 s = [] /\ Net22.fclk s = t0 + 1250000.
Proof. exact Net22Timeout.silent_responder22_abandoned_after_T3. Qed.
Print Assumptions C06_fd_silent_responder_abandoned_after_T3.

(* ------------------------------------------------------------------------------------------------------------------
   J1939-22: what one pass of the job thread does to a session whose time limit has run out — every session record,
   table and continuation.  The abort goes from the side that gives up to its peer under the session's own number; the
   originating side returns its session number to the pool it was taken from; nothing happens before the deadline. *)
Theorem C06_fd_timeouts_within_standard :
  tp22_T1 = 750000 /\ tp22_T2 = 1250000 /\ tp22_T3 = 1250000 /\ tp22_T4 = 1050000 /\ tp22_T5 = 3000000 /\ tp22_Th = 500000.
Proof. exact timeouts22_within_standard. Qed.
Print Assumptions C06_fd_timeouts_within_standard.

Theorem C06_fd_rcv_timeout_releases : forall key now nw m k b,
  tget (f_rcv m) key = Some b -> q_deadline b <> 0 -> q_deadline b <= now ->
  flat22 (rcv_pass22 [key] now nw m k) =
  let m' := set_frcv m (tdel (f_rcv m) key) in
  let '(s, os, r) := flat22 (k m' nw) in
  (s, (if q_dst b =? addr_GLOBAL then [] else [OTx (tp22_abort (q_dst b) (q_src b) (q_session b) tp22_reason_TIMEOUT (q_pgn b))]) ++ os, r).
Proof. exact rcv22_timeout_releases. Qed.
Print Assumptions C06_fd_rcv_timeout_releases.

Theorem C06_fd_rcv_untouched_before_deadline : forall key now nw m k b,
  tget (f_rcv m) key = Some b -> now < q_deadline b -> 0 <= now ->
  rcv_pass22 [key] now nw m k = k m (minw nw (q_deadline b)).
Proof. exact rcv22_before_deadline. Qed.
Print Assumptions C06_fd_rcv_untouched_before_deadline.

Theorem C06_fd_snd_timeout_releases : forall key now nw m k b,
  tget (f_snd m) key = Some b -> t_state b = tp22_st_WAITING_CTS -> t_deadline b <> 0 -> t_deadline b <= now ->
  in_pool m b ->
  exists m', returned (set_fsnd m (tdel (f_snd m) key)) b m' /\
  flat22 (snd_pass22 [key] now nw m k) =
  let '(s, os, r) := flat22 (k m' nw) in
  (s, OTx (tp22_abort (t_src b) (t_dst b) (t_session b) tp22_reason_TIMEOUT (t_pgn b)) :: os, r).
Proof. exact snd22_timeout_releases. Qed.
Print Assumptions C06_fd_snd_timeout_releases.

Theorem C06_fd_unacknowledged_session_released : forall key now nw m k b,
  tget (f_snd m) key = Some b -> t_state b = tp22_st_WAITING_EOM_ACK -> t_deadline b <> 0 -> t_deadline b <= now ->
  in_pool m b ->
  exists m', returned (set_fsnd m (tdel (f_snd m) key)) b m' /\
  snd_pass22 [key] now nw m k = k m' nw.
Proof. exact snd22_ack_wait_releases. Qed.
Print Assumptions C06_fd_unacknowledged_session_released.

Theorem C06_fd_finished_session_released : forall key now nw m k b,
  tget (f_snd m) key = Some b ->
  t_state b = tp22_st_EOM_ACK_RECEIVED \/ t_state b = tp22_st_TRANSMISSION_FINISHED ->
  t_deadline b <> 0 -> t_deadline b <= now -> in_pool m b ->
  exists m', returned (set_fsnd m (tdel (f_snd m) key)) b m' /\
  snd_pass22 [key] now nw m k = k m' nw.
Proof. exact snd22_finished_releases. Qed.
Print Assumptions C06_fd_finished_session_released.

Theorem C06_fd_snd_untouched_before_deadline : forall key now nw m k b,
  tget (f_snd m) key = Some b -> now < t_deadline b -> 0 <= now ->
  snd_pass22 [key] now nw m k = k m (minw nw (t_deadline b)).
Proof. exact snd22_before_deadline. Qed.
Print Assumptions C06_fd_snd_untouched_before_deadline.

Theorem C06_fd_returned_number_is_free : forall m b m',
  in_pool m b -> returned m b m' ->
  nth_error (if t_dst b =? addr_GLOBAL then f_bam m' else f_rts m') (Z.to_nat (t_session b)) = Some true.
Proof. exact returned_is_free. Qed.
Print Assumptions C06_fd_returned_number_is_free.

(* C18 — DM14 serves no data without the right key, surfaces errors, and recovers (data-level theorems). *)
From J1939 Require Import Base Dm14Model.
From J1939.gen Require Import Dm14Gen.
From J1939P Require Import CodecProofs Dm14Proofs.

(* T18.1: the request goes to the application exactly for the key matching the seed; any other key: error 0x1003 *)
Theorem C18_key_gate : forall f seed key,
  (key_gate f seed key = ToApplication <-> key = f seed) /\ (key <> f seed -> key_gate f seed key = InvalidKey 4099).
Proof. exact key_gate_spec. Qed.
Print Assumptions C18_key_gate.

(* T18.2: the 24-bit error indicator and the EDCP byte the server puts into its DM15 are what the client extracts *)
Theorem C18_error_indicator_surfaces : forall direct oc error edcp,
  0 <= direct < 2 -> 0 <= error < 16777216 -> 0 <= edcp < 256 ->
  let d := dm15_SEND_ERROR direct 0 oc 0 error edcp in
  dm15_status d = dm15_status_FAILED /\ dm15_error d = error /\ dm15_edcp d = edcp.
Proof. exact dm15_error_layout. Qed.
Print Assumptions C18_error_indicator_surfaces.

(* C18 — DM14 serves no data without the right key, surfaces errors, and recovers (data-level theorems). *)
From J1939 Require Import Base Dm14Model.
From J1939.gen Require Import Dm14Gen.
From J1939P Require Import CodecProofs Dm14Proofs.

(* T18.1: the request goes to the application exactly for the key matching the seed; any other key: error 0x1003 *)
Theorem C18_key_gate : forall f seed key,
  (key_gate f seed key = ToApplication <-> key = f seed) /\ (key <> f seed -> key_gate f seed key = InvalidKey 4099).
Proof. exact key_gate_spec. Qed.
Print Assumptions C18_key_gate.

(* T18.2: the 24-bit error indicator and the EDCP byte the server puts into its DM15 are what the client extracts *)
Theorem C18_error_indicator_surfaces : forall direct oc error edcp,
  0 <= direct < 2 -> 0 <= error < 16777216 -> 0 <= edcp < 256 ->
  let d := dm15_SEND_ERROR direct 0 oc 0 error edcp in
  dm15_status d = dm15_status_FAILED /\ dm15_error d = error /\ dm15_edcp d = edcp.
Proof. exact dm15_error_layout. Qed.
Print Assumptions C18_error_indicator_surfaces.

(* ---------------------------------------------------------------- state-machine level (theories/Dm14Srv.v) *)
From J1939 Require Import Dm14Srv.
From J1939P Require Import Dm14SrvProofs.

(* T18.1 (state-machine form): with a seed/key algorithm configured, in EVERY state of server and facade and for EVERY
   message delivered to ANY registered callbacks, the application is asked (proceed callback) only with a key that is
   the key of the seed, and notified only after having been asked so; everything else the delivery emits are frames *)
Theorem C18_key_gate_every_state : forall c s pgn sa data,
  c_seedsec c = true -> gated c (deliver c s pgn sa data).
Proof. exact key_gate_deliver. Qed.
Print Assumptions C18_key_gate_every_state.

Theorem C18_wrong_key_never_reaches_application : forall c s pgn sa data,
  c_seedsec c = true ->
  let '(_, os, _) := deliver c s pgn sa data in
  forall cmd ad pt l oc k a acc sd, In (SProceedFn cmd ad pt l oc k a acc sd) os -> c_key c sd = k.
Proof. exact wrong_key_never_reaches_application. Qed.
Print Assumptions C18_wrong_key_never_reaches_application.

(* ---------------------------------------------------------------- requesting side (theories/Dm14Cli.v) *)
From J1939 Require Import Dm14Cli.
From J1939P Require Import Dm14CliProofs.

(* T18.2 (client): an 'operation failed' or 'busy' DM15 with EDCP 6 or 7 is queued as the exception naming the source
   address, the 24-bit error code (little endian) and the EDCP, and wakes the waiting call ... *)
Theorem C18_client_error_is_queued : forall haskey keyf s dest direct status e0 e1 e2 edcp,
  q_dest s = Some dest -> 0 <= direct < 2 -> (status = 5 \/ status = 1) -> (edcp = 6 \/ edcp = 7) ->
  cparse_dm15 haskey keyf s PGN_DM15 dest (dm15_error direct status e0 e1 e2 edcp) =
  cok (cset_xq (cset_dq s (q_dq s ++ [None])) (q_xq s ++ [XDevice dest (e0 + 256 * (e1 + 256 * (e2 + 256 * 0))) edcp])).
Proof. exact dm15_error_is_queued. Qed.
Print Assumptions C18_client_error_is_queued.
(* ... which raises exactly that exception and is idle again afterwards *)
Theorem C18_client_read_raises_queued_exception : forall haskey keyf s dest direct addr objcnt size signed raw during s4 o4 item rest x xr,
  0 < objcnt ->
  (let s1 := csub (cupd s (q_state s) (Some dest) direct addr objcnt size signed raw 1 (q_bytes s) (q_mem s) (q_dq s) (q_xq s) (q_subs s)) CB15 in
   cwait haskey keyf (cset_state s1 Q_WAIT_FOR_SEED) during = (s4, o4)) ->
  q_dq s4 = item :: rest -> q_xq s4 = x :: xr ->
  snd (cli_read haskey keyf s dest direct addr objcnt size signed raw during) = CRRaise x /\
  q_state (fst (fst (cli_read haskey keyf s dest direct addr objcnt size signed raw during))) = Q_IDLE.
Proof. exact read_raises_queued_exception. Qed.
Print Assumptions C18_client_read_raises_queued_exception.
(* a server that never answers: "no response", query idle, nothing left registered or queued *)
Theorem C18_client_no_response : forall haskey keyf s dest direct addr objcnt size signed raw,
  fresh s -> 0 < objcnt ->
  exists s', cli_read haskey keyf s dest direct addr objcnt size signed raw [] =
             (s', [CSend 217 (Z.land dest 255) 6 (dm14_frame objcnt direct 1 addr 7)], CRRaise XNoResponse) /\
             q_state s' = Q_IDLE /\ q_subs s' = [] /\ q_dq s' = [] /\ q_xq s' = [].
Proof. exact read_no_response. Qed.
Print Assumptions C18_client_no_response.

(* ------------------------------------------------------------------------------------------------------------------
   End to end on the composed model (theories/Dm14Net.v, see props/C17.v): a requester that answers the seed with the WRONG
   key — for every content of the data — gets the device error 0x1003 / EDCP 7 raised from read()/write(); the serving
   application is neither asked nor notified, no DM16 leaves the server, and BOTH sides are idle again (T18.1 + T18.3) ... *)
From J1939 Require Import Dm14Srv Dm14Cli Dm14Net.
From J1939P Require Import Dm14NetProofs.

Theorem C18_read_with_wrong_key_end_to_end : forall u, In u key_setups -> forall data size signed raw, (1 <= length data <= 7)%nat ->
  refused u (txn_read (u_cfg u) wrong_key (init_srv (u_seeds u) []) init_cli (u_ca u) (u_sa u) (u_direct u) (u_addr u) (zlen data) size signed raw data).
Proof. exact read_wrong_key_refused. Qed.
Print Assumptions C18_read_with_wrong_key_end_to_end.
Theorem C18_write_with_wrong_key_end_to_end : forall u, In u key_setups -> forall values, (1 <= length values <= 7)%nat ->
  refused u (txn_write (u_cfg u) wrong_key (init_srv (u_seeds u) []) init_cli (u_ca u) (u_sa u) (u_direct u) (u_addr u) values 1).
Proof. exact write_wrong_key_refused. Qed.
Print Assumptions C18_write_with_wrong_key_end_to_end.
(* ... and the next well-formed operation on the same objects is served (recovery) *)
Theorem C18_read_after_wrong_key_end_to_end : forall b1 b2 c1 size signed raw,
  let t1 := txn_read cfg_key wrong_key (init_srv [4660; 77] []) init_cli 249 212 1 2449473539 2 size signed raw [b1; b2] in
  let t2 := txn_read cfg_key xor_key (t_srv t1) (t_cli t1) 249 212 1 2449473539 1 size signed raw [c1] in
  t_ret t1 = CRRaise (XDevice 212 4099 7) /\
  t_ret t2 = CRValues (if raw then [c1] else bytes_to_values (Z.to_nat size) signed [c1]) /\ idle_cli (t_cli t2) /\ idle_srv (t_srv t2).
Proof. exact read_after_wrong_key. Qed.
Print Assumptions C18_read_after_wrong_key_end_to_end.

(* C18 — DM14 serves no data without the right key, surfaces errors, and recovers (data-level theorems). *)
From J1939 Require Import Base Dm14Model.
From J1939.gen Require Import Dm14Gen.
From J1939P Require Import CodecProofs Dm14Proofs.

(* T18.1: the request goes to the application exactly for the key matching the seed; any other key: error 0x1003 *)
Theorem C18_key_gate : forall f seed key,
  (key_gate f seed key = ToApplication <-> key = f seed) /\ (key <> f seed -> key_gate f seed key = InvalidKey 4099).
Proof. exact key_gate_spec. Qed.
Print Assumptions C18_key_gate.

(* T18.2: the 24-bit error indicator and the EDCP byte the server puts into its DM15 are what the client extracts *)
Theorem C18_error_indicator_surfaces : forall direct oc error edcp,
  0 <= direct < 2 -> 0 <= error < 16777216 -> 0 <= edcp < 256 ->
  let d := dm15_SEND_ERROR direct 0 oc 0 error edcp in
  dm15_status d = dm15_status_FAILED /\ dm15_error d = error /\ dm15_edcp d = edcp.
Proof. exact dm15_error_layout. Qed.
Print Assumptions C18_error_indicator_surfaces.

(* ---------------------------------------------------------------- state-machine level (theories/Dm14Srv.v) *)
From J1939 Require Import Dm14Srv.
From J1939P Require Import Dm14SrvProofs.

(* T18.1 (state-machine form): with a seed/key algorithm configured, in EVERY state of server and facade and for EVERY
   message delivered to ANY registered callbacks, the application is asked (proceed callback) only with a key that is
   the key of the seed, and notified only after having been asked so; everything else the delivery emits are frames *)
Theorem C18_key_gate_every_state : forall c s pgn sa data,
  c_seedsec c = true -> gated c (deliver c s pgn sa data).
Proof. exact key_gate_deliver. Qed.
Print Assumptions C18_key_gate_every_state.

Theorem C18_wrong_key_never_reaches_application : forall c s pgn sa data,
  c_seedsec c = true ->
  let '(_, os, _) := deliver c s pgn sa data in
  forall cmd ad pt l oc k a acc sd, In (SProceedFn cmd ad pt l oc k a acc sd) os -> c_key c sd = k.
Proof. exact wrong_key_never_reaches_application. Qed.
Print Assumptions C18_wrong_key_never_reaches_application.
